/-
Step lemmas for C02: what one call on the counter does to the dictionary, the confirmed set, the feature
list; the dump.  Helper lemmas only (the property theorems are in IsoVerif/Props/C02*.lean).  Core Lean only.
-/
import IsoVerif.Model.Counter
import IsoVerif.Model.CounterSpec
import IsoVerif.Lemmas.Counter

namespace IsoVerif.Lemmas.C02
open IsoVerif.Gen IsoVerif.Model.C02

/-- `weight_table`: for every strategy × assignment type × feature count k ≥ 1 the counter applies exactly the
    documented weight to each of the k features (generated flag lists; k by cases 1 / ≥ 2) -/
theorem weight_table_aux (s : CountingStrategy) (t : ReadAssignmentType) (k : Nat) (hk : 0 < k) :
    codeWeight s t k = some (docWeight s t k) := by
  rcases k with _ | _ | k
  · omega
  all_goals
    cases s <;> cases t <;>
    simp [codeWeight, docWeight, processAmbiguous, processInconsistent,
      ReadAssignmentType.is_inconsistent, ReadAssignmentType.is_unique, rat_is_inconsistent_list,
      rat_is_unique_list, CountingStrategy.ambiguous, CountingStrategy.inconsistent,
      CountingStrategy.inconsistent_minor, cs_ambiguous_list, cs_inconsistent_list, cs_inconsistent_minor_list]

/-- a record without any feature: the call raises exactly in the rows of `raisesRow`, otherwise a weight is
    computed but there is no feature to add it to -/
theorem weight_table_zero_aux (s : CountingStrategy) (t : ReadAssignmentType) :
    (codeWeight s t 0 = none ↔ raisesRow s t = true) := by
  cases s <;> cases t <;>
    simp [codeWeight, raisesRow, processAmbiguous, processInconsistent,
      ReadAssignmentType.is_inconsistent, ReadAssignmentType.is_unique, rat_is_inconsistent_list,
      rat_is_unique_list, CountingStrategy.ambiguous, CountingStrategy.inconsistent,
      CountingStrategy.inconsistent_minor, cs_ambiguous_list, cs_inconsistent_list, cs_inconsistent_minor_list]

variable {F : Type} [DecidableEq F]

theorem docWeight_nonneg (s : CountingStrategy) (t : ReadAssignmentType) (k : Nat) : 0 ≤ docWeight s t k := by
  unfold docWeight
  have hk : 0 < k → (0 : Rat) ≤ 1 / (k : Rat) := fun h => Rat.le_of_lt (one_div_nat_pos k h)
  by_cases h0 : k = 0
  · simp [h0]
  · have := hk (by omega)
    simp only [h0, if_false]
    split <;> (repeat' split) <;> first | exact this | decide

theorem features_nodup (lvl : Level) (a : Assignment F) : (features lvl a).Nodup := nodup_dedup _

/-- one call: the dictionary value of `f` grows by exactly the documented contribution -/
theorem step_counts (s : CountingStrategy) (lvl : Level) (st st' : CState F) (e : Event F)
    (h : step s lvl st e = some st') (f : F) :
    cget st'.counts f = cget st.counts f + contribution s lvl e f := by
  cases e with
  | read ra =>
    cases ra with
    | none =>
      simp only [step, addReadInfo, Option.some.injEq] at h
      subst h; simp [contribution, Rat.add_zero]
    | some a =>
      simp only [step, addReadInfo] at h
      by_cases hsk : skipped a = true
      · simp only [hsk, if_true, Option.some.injEq] at h
        subst h; simp [contribution, hsk, Rat.add_zero]
      · simp only [hsk, Bool.false_eq_true, if_false] at h
        have hnd := features_nodup lvl a
        by_cases hamb : typeOf lvl a = ReadAssignmentType.ambiguous
        · simp only [hamb, if_true, Option.some.injEq] at h
          subst h
          have hw := weight_table_aux s .ambiguous (features lvl a).length
          simp only [contribution, hsk, hamb, get_incAll, cnt_of_nodup _ hnd]
          by_cases hf : f ∈ features lvl a
          · have hpos : 0 < (features lvl a).length := List.length_pos_of_mem hf
            have := hw hpos
            simp [codeWeight] at this
            simp [hf, ReadAssignmentType.is_unique, rat_is_unique_list, this, Rat.one_mul]
          · simp [hf, ReadAssignmentType.is_unique, rat_is_unique_list, Rat.zero_mul]
        · simp only [hamb, if_false] at h
          by_cases hinc : (typeOf lvl a).is_inconsistent = true
          · simp only [hinc, if_true] at h
            have hnu : (typeOf lvl a).is_unique = false := by
              revert hinc; cases typeOf lvl a <;> decide
            cases hpi : processInconsistent s (typeOf lvl a) (features lvl a).length with
            | none => simp [hpi] at h
            | some w =>
              simp only [hpi] at h
              have hdoc : 0 < (features lvl a).length → w = docWeight s (typeOf lvl a) (features lvl a).length := by
                intro hpos
                have := weight_table_aux s (typeOf lvl a) (features lvl a).length hpos
                simp [codeWeight, hamb, hinc, hpi] at this
                exact this
              by_cases hf : f ∈ features lvl a
              · have hpos : 0 < (features lvl a).length := List.length_pos_of_mem hf
                have hw := hdoc hpos
                have hnn := docWeight_nonneg s (typeOf lvl a) (features lvl a).length
                by_cases hwp : w > 0
                · simp only [hwp, if_true, Option.some.injEq] at h
                  subst h
                  simp [contribution, hsk, hnu, hf, get_incAll, cnt_of_nodup _ hnd, hw, Rat.one_mul]
                · simp only [hwp, if_false, Option.some.injEq] at h
                  subst h
                  have : w = 0 := by grind
                  simp [contribution, hsk, hnu, hf, ← hw, this, Rat.add_zero]
              · by_cases hwp : w > 0
                · simp only [hwp, if_true, Option.some.injEq] at h
                  subst h
                  simp [contribution, hsk, hnu, hf, get_incAll, cnt_of_nodup _ hnd, Rat.zero_mul, Rat.add_zero]
                · simp only [hwp, if_false, Option.some.injEq] at h
                  subst h
                  simp [contribution, hsk, hnu, hf, Rat.add_zero]
          · simp only [hinc, Bool.false_eq_true, if_false] at h
            by_cases hu : (typeOf lvl a).is_unique = true
            · simp only [hu, if_true] at h
              cases hfs : features lvl a with
              | nil => simp [hfs] at h
              | cons g rest =>
                simp only [hfs] at h
                cases hc : confirms lvl a with
                | none => simp [hc] at h
                | some c =>
                  simp only [hc, Option.some.injEq] at h
                  subst h
                  simp only [contribution, hsk, hu, hfs, get_inc, List.head?_cons, Option.some.injEq]
                  simp
            · simp only [hu, Bool.false_eq_true, if_false, Option.some.injEq] at h
              subst h
              have hz : docWeight s (typeOf lvl a) (features lvl a).length = 0 := by
                revert hamb hinc hu
                cases typeOf lvl a <;> simp [docWeight, ReadAssignmentType.is_inconsistent,
                  ReadAssignmentType.is_unique, rat_is_inconsistent_list, rat_is_unique_list]
              simp [contribution, hsk, hu, hz, Rat.add_zero]
  | raw noId fs =>
    simp only [step, Option.some.injEq] at h
    subst h
    cases noId with
    | true => simp [addReadInfoRaw, contribution, Rat.add_zero]
    | false =>
      match fs with
      | [] => simp [addReadInfoRaw, contribution, cnt_nil, Rat.zero_mul, Rat.add_zero]
      | [g] =>
        simp [addReadInfoRaw, contribution, get_inc, cnt_cons, cnt_nil, docWeight]
        split <;> simp [Rat.add_zero]
      | g :: g' :: rest =>
        have hw := weight_table_aux s .ambiguous (g :: g' :: rest).length (by simp)
        simp only [codeWeight, if_true, Option.some.injEq] at hw
        simp only [addReadInfoRaw, contribution, Bool.false_eq_true, if_false, get_incAll, hw]
  | unassigned n =>
    simp only [step, Option.some.injEq] at h
    subst h; simp [contribution, Rat.add_zero]
  | unaligned n =>
    simp only [step, Option.some.injEq] at h
    subst h; simp [contribution, Rat.add_zero]
  | confirm fs =>
    simp only [step, Option.some.injEq] at h
    subst h; simp [contribution, Rat.add_zero]

/-- a whole history: dictionary value = initial value + Σ documented contributions -/
theorem run_counts (s : CountingStrategy) (lvl : Level) (es : List (Event F)) (st0 st : CState F)
    (h : run s lvl st0 es = some st) (f : F) :
    cget st.counts f = cget st0.counts f + ratSum (es.map (fun e => contribution s lvl e f)) := by
  induction es generalizing st0 with
  | nil =>
    simp only [run, Option.some.injEq] at h
    subst h; simp [Rat.add_zero]
  | cons e es ih =>
    simp only [run] at h
    cases hs : step s lvl st0 e with
    | none => simp [hs] at h
    | some st1 =>
      simp only [hs] at h
      rw [ih st1 h, step_counts s lvl st0 st1 e hs f]
      simp only [List.map_cons, ratSum_cons]
      grind

theorem unique_not_other (t : ReadAssignmentType) (h : t.is_unique = true) :
    t ≠ .ambiguous ∧ t.is_inconsistent = false := by
  revert h; cases t <;> decide

theorem step_confirmed (s : CountingStrategy) (lvl : Level) (st st' : CState F) (e : Event F)
    (h : step s lvl st e = some st') (f : F) :
    f ∈ st'.confirmed ↔ f ∈ st.confirmed ∨ confirmsFeature lvl e f := by
  cases e with
  | read ra =>
    cases ra with
    | none =>
      simp only [step, addReadInfo, Option.some.injEq] at h
      subst h; simp [confirmsFeature]
    | some a =>
      simp only [step, addReadInfo] at h
      by_cases hsk : skipped a = true
      · simp only [hsk, if_true, Option.some.injEq] at h
        subst h; simp [confirmsFeature, hsk]
      · simp only [hsk, Bool.false_eq_true, if_false] at h
        by_cases hamb : typeOf lvl a = ReadAssignmentType.ambiguous
        · simp only [hamb, if_true, Option.some.injEq] at h
          subst h; simp [confirmsFeature, hamb]
        · simp only [hamb, if_false] at h
          by_cases hinc : (typeOf lvl a).is_inconsistent = true
          · simp only [hinc, if_true] at h
            have hnu : (typeOf lvl a).is_unique = false := by
              revert hinc; cases typeOf lvl a <;> decide
            cases hpi : processInconsistent s (typeOf lvl a) (features lvl a).length with
            | none => simp [hpi] at h
            | some w =>
              simp only [hpi] at h
              by_cases hwp : w > 0
              · simp only [hwp, if_true, Option.some.injEq] at h
                subst h; simp [confirmsFeature, hnu]
              · simp only [hwp, if_false, Option.some.injEq] at h
                subst h; simp [confirmsFeature, hnu]
          · simp only [hinc, Bool.false_eq_true, if_false] at h
            by_cases hu : (typeOf lvl a).is_unique = true
            · simp only [hu, if_true] at h
              cases hfs : features lvl a with
              | nil => simp [hfs] at h
              | cons g rest =>
                simp only [hfs] at h
                cases hc : confirms lvl a with
                | none => simp [hc] at h
                | some c =>
                  simp only [hc, Option.some.injEq] at h
                  subst h
                  have hsk' : skipped a = false := by simpa using hsk
                  cases c with
                  | true =>
                    simp only [if_true, mem_setAdd, confirmsFeature, hsk', hu, hfs, hc, List.head?_cons,
                      Option.some.injEq, ne_eq, hamb, not_false_eq_true, true_and, and_true]
                    constructor
                    · rintro (h1 | h1)
                      · exact Or.inl h1
                      · exact Or.inr h1.symm
                    · rintro (h1 | h1)
                      · exact Or.inl h1
                      · exact Or.inr h1.symm
                  | false =>
                    simp [confirmsFeature, hc]
            · simp only [hu, Bool.false_eq_true, if_false, Option.some.injEq] at h
              subst h; simp [confirmsFeature, hu]
  | raw noId fs =>
    simp only [step, Option.some.injEq] at h
    subst h
    cases noId with
    | true => simp [addReadInfoRaw, confirmsFeature]
    | false =>
      match fs with
      | [] => simp [addReadInfoRaw, confirmsFeature]
      | [g] => simp [addReadInfoRaw, confirmsFeature]
      | g :: g' :: rest => simp [addReadInfoRaw, confirmsFeature]
  | unassigned n =>
    simp only [step, Option.some.injEq] at h
    subst h; simp [confirmsFeature]
  | unaligned n =>
    simp only [step, Option.some.injEq] at h
    subst h; simp [confirmsFeature]
  | confirm fs =>
    simp only [step, Option.some.injEq] at h
    subst h; simp [confirmsFeature, mem_addAll]

theorem run_confirmed (s : CountingStrategy) (lvl : Level) (es : List (Event F)) (st0 st : CState F)
    (h : run s lvl st0 es = some st) (f : F) :
    f ∈ st.confirmed ↔ f ∈ st0.confirmed ∨ ∃ e ∈ es, confirmsFeature lvl e f := by
  induction es generalizing st0 with
  | nil =>
    simp only [run, Option.some.injEq] at h
    subst h; simp
  | cons e es ih =>
    simp only [run] at h
    cases hs : step s lvl st0 e with
    | none => simp [hs] at h
    | some st1 =>
      simp only [hs] at h
      rw [ih st1 h, step_confirmed s lvl st0 st1 e hs f]
      simp only [List.mem_cons, exists_eq_or_imp]
      grind

/-- `all_features` only grows, and every feature that receives a non-zero contribution is listed -/
theorem step_listed (s : CountingStrategy) (lvl : Level) (st st' : CState F) (e : Event F)
    (h : step s lvl st e = some st') (f : F)
    (hf : f ∈ st.allFeatures ∨ contribution s lvl e f ≠ 0) : f ∈ st'.allFeatures := by
  cases e with
  | read ra =>
    cases ra with
    | none =>
      simp only [step, addReadInfo, Option.some.injEq] at h
      subst h; simpa [contribution] using hf
    | some a =>
      simp only [step, addReadInfo] at h
      by_cases hsk : skipped a = true
      · simp only [hsk, if_true, Option.some.injEq] at h
        subst h; simpa [contribution, hsk] using hf
      · simp only [hsk, Bool.false_eq_true, if_false] at h
        by_cases hamb : typeOf lvl a = ReadAssignmentType.ambiguous
        · simp only [hamb, if_true, Option.some.injEq] at h
          subst h
          simp only [contribution, hsk, hamb, Bool.false_eq_true, if_false] at hf
          have hnu : ReadAssignmentType.ambiguous.is_unique = false := by decide
          simp only [hnu, Bool.false_eq_true, if_false] at hf
          rcases hf with hf | hf
          · simp only []
            split
            · exact (mem_addAll _ _ _).mpr (Or.inl hf)
            · exact hf
          · have hmem : f ∈ features lvl a := by
              by_cases hm : f ∈ features lvl a
              · exact hm
              · simp [hm] at hf
            have hpos : 0 < (features lvl a).length := List.length_pos_of_mem hmem
            have hw := weight_table_aux s .ambiguous (features lvl a).length hpos
            simp only [codeWeight, if_true, Option.some.injEq] at hw
            simp only [hmem, if_true] at hf
            have hnn := docWeight_nonneg s .ambiguous (features lvl a).length
            have : processAmbiguous s (features lvl a).length > 0 := by rw [hw]; grind
            simp only [this, if_true]
            exact (mem_addAll _ _ _).mpr (Or.inr hmem)
        · simp only [hamb, if_false] at h
          by_cases hinc : (typeOf lvl a).is_inconsistent = true
          · simp only [hinc, if_true] at h
            have hnu : (typeOf lvl a).is_unique = false := by
              revert hinc; cases typeOf lvl a <;> decide
            simp only [contribution, hsk, hnu, Bool.false_eq_true, if_false] at hf
            cases hpi : processInconsistent s (typeOf lvl a) (features lvl a).length with
            | none => simp [hpi] at h
            | some w =>
              simp only [hpi] at h
              by_cases hwp : w > 0
              · simp only [hwp, if_true, Option.some.injEq] at h
                subst h
                rcases hf with hf | hf
                · exact (mem_addAll _ _ _).mpr (Or.inl hf)
                · have hmem : f ∈ features lvl a := by
                    by_cases hm : f ∈ features lvl a
                    · exact hm
                    · simp [hm] at hf
                  exact (mem_addAll _ _ _).mpr (Or.inr hmem)
              · simp only [hwp, if_false, Option.some.injEq] at h
                subst h
                rcases hf with hf | hf
                · exact hf
                · exfalso
                  have hmem : f ∈ features lvl a := by
                    by_cases hm : f ∈ features lvl a
                    · exact hm
                    · simp [hm] at hf
                  have hpos : 0 < (features lvl a).length := List.length_pos_of_mem hmem
                  have hw := weight_table_aux s (typeOf lvl a) (features lvl a).length hpos
                  simp [codeWeight, hamb, hinc, hpi] at hw
                  have hnn := docWeight_nonneg s (typeOf lvl a) (features lvl a).length
                  simp only [hmem, if_true] at hf
                  grind
          · simp only [hinc, Bool.false_eq_true, if_false] at h
            by_cases hu : (typeOf lvl a).is_unique = true
            · simp only [hu, if_true] at h
              cases hfs : features lvl a with
              | nil => simp [hfs] at h
              | cons g rest =>
                simp only [hfs] at h
                cases hc : confirms lvl a with
                | none => simp [hc] at h
                | some c =>
                  simp only [hc, Option.some.injEq] at h
                  subst h
                  simp only [contribution, hsk, hu, hfs, List.head?_cons, Option.some.injEq, Bool.false_eq_true,
                    if_false, if_true] at hf
                  simp only [mem_setAdd]
                  rcases hf with hf | hf
                  · exact Or.inl hf
                  · by_cases hg : g = f
                    · exact Or.inr hg.symm
                    · simp [hg] at hf
            · simp only [hu, Bool.false_eq_true, if_false, Option.some.injEq] at h
              subst h
              have hz : docWeight s (typeOf lvl a) (features lvl a).length = 0 := by
                revert hamb hinc hu
                cases typeOf lvl a <;> simp [docWeight, ReadAssignmentType.is_inconsistent,
                  ReadAssignmentType.is_unique, rat_is_inconsistent_list, rat_is_unique_list]
              simpa [contribution, hsk, hu, hz] using hf
  | raw noId fs =>
    simp only [step, Option.some.injEq] at h
    subst h
    cases noId with
    | true => simpa [addReadInfoRaw, contribution] using hf
    | false =>
      have hmem : f ∈ st.allFeatures ∨ f ∈ fs := by
        rcases hf with hf | hf
        · exact Or.inl hf
        · right
          by_cases hm : f ∈ fs
          · exact hm
          · simp [contribution, cnt, List.count_eq_zero_of_not_mem hm, Rat.zero_mul] at hf
      match fs, hmem with
      | [], hmem => simpa [addReadInfoRaw] using hmem
      | [g], hmem => simpa [addReadInfoRaw, mem_setAdd] using hmem
      | g :: g' :: rest, hmem =>
        simp only [addReadInfoRaw, Bool.false_eq_true, if_false]
        exact (mem_addAll _ _ _).mpr hmem
  | unassigned n =>
    simp only [step, Option.some.injEq] at h
    subst h; simpa [contribution] using hf
  | unaligned n =>
    simp only [step, Option.some.injEq] at h
    subst h; simpa [contribution] using hf
  | confirm fs =>
    simp only [step, Option.some.injEq] at h
    subst h; simpa [contribution] using hf

theorem run_listed (s : CountingStrategy) (lvl : Level) (es : List (Event F)) (st0 st : CState F)
    (h : run s lvl st0 es = some st) (f : F)
    (hf : f ∈ st0.allFeatures ∨ ∃ e ∈ es, contribution s lvl e f ≠ 0) : f ∈ st.allFeatures := by
  induction es generalizing st0 with
  | nil =>
    simp only [run, Option.some.injEq] at h
    subst h; simpa using hf
  | cons e es ih =>
    simp only [run] at h
    cases hs : step s lvl st0 e with
    | none => simp [hs] at h
    | some st1 =>
      simp only [hs] at h
      apply ih st1 h
      rcases hf with hf | ⟨e', he', hc⟩
      · exact Or.inl (step_listed s lvl st0 st1 e hs f (Or.inl hf))
      · simp only [List.mem_cons] at he'
        rcases he' with rfl | he'
        · exact Or.inl (step_listed s lvl st0 st1 e' hs f (Or.inr hc))
        · exact Or.inr ⟨e', he', hc⟩

/-! ### dump -/

theorem mem_sortedFeatures (le : F → F → Bool) (st : CState F) (f : F) :
    f ∈ sortedFeatures le st ↔ f ∈ st.allFeatures := by
  simp [sortedFeatures, mem_isort, mem_dedup]

theorem sortedFeatures_nodup (le : F → F → Bool) (st : CState F) : (sortedFeatures le st).Nodup := by
  unfold sortedFeatures
  exact nodup_isort le _ (nodup_dedup _)

/-- rows of the dumped table (exact values): `f` has a row iff it is listed (and, with `output_zeroes` off, its
    value is non-zero); the value is the accumulated count if `f` is confirmed and 0 otherwise -/
theorem dump_row (le : F → F → Bool) (oz : Bool) (st : CState F) (f : F) (v : Rat) :
    (f, v) ∈ dumpRowsExact le oz st ↔
      f ∈ st.allFeatures ∧ v = (if f ∈ st.confirmed then cget st.counts f else 0) ∧ (oz = true ∨ v ≠ 0) := by
  have hz : ∀ g, g ∈ st.allFeatures →
      cget (zeroUnconfirmed st.confirmed (sortedFeatures le st) st.counts) g
        = (if g ∈ st.confirmed then cget st.counts g else 0) := by
    intro g hg
    rw [get_zeroUnconfirmed]
    by_cases hc : g ∈ st.confirmed <;> simp [mem_sortedFeatures, hg, hc]
  simp only [dumpRowsExact, List.mem_filterMap, mem_sortedFeatures]
  constructor
  · rintro ⟨g, hg, hrow⟩
    rw [hz g hg] at hrow
    generalize hwdef : (if g ∈ st.confirmed then cget st.counts g else 0) = w at hrow
    cases oz with
    | true =>
      simp only [Bool.not_true, Bool.false_and, Bool.false_eq_true, if_false, Option.some.injEq,
        Prod.mk.injEq] at hrow
      obtain ⟨rfl, rfl⟩ := hrow
      exact ⟨hg, hwdef.symm, Or.inl rfl⟩
    | false =>
      by_cases hw : w = 0
      · simp [hw] at hrow
      · simp only [Bool.not_false, Bool.true_and, beq_iff_eq, hw, if_false, Option.some.injEq,
          Prod.mk.injEq] at hrow
        obtain ⟨rfl, rfl⟩ := hrow
        exact ⟨hg, hwdef.symm, Or.inr hw⟩
  · rintro ⟨hg, hv, hzz⟩
    refine ⟨f, hg, ?_⟩
    rw [hz f hg, ← hv]
    rcases hzz with hzz | hzz
    · simp [hzz]
    · simp [hzz]

omit [DecidableEq F] in
theorem map_fst_filterMap (l : List F) (c : F → Rat) (p : F → Bool) :
    (l.filterMap (fun f => if p f = true then none else some (f, c f))).map Prod.fst
      = l.filter (fun f => !p f) := by
  induction l with
  | nil => simp
  | cons x xs ih =>
    by_cases hp : p x = true
    · simp [hp, ih]
    · simp [hp, ih]

/-- every feature has at most one row -/
theorem dump_keys_nodup (le : F → F → Bool) (oz : Bool) (st : CState F) :
    ((dumpRowsExact le oz st).map Prod.fst).Nodup := by
  simp only [dumpRowsExact]
  rw [map_fst_filterMap (sortedFeatures le st)
    (fun f => cget (zeroUnconfirmed st.confirmed (sortedFeatures le st) st.counts) f)
    (fun f => !oz && cget (zeroUnconfirmed st.confirmed (sortedFeatures le st) st.counts) f == 0)]
  exact List.Nodup.sublist List.filter_sublist (sortedFeatures_nodup le st)

/-! ### bounds on the documented weight -/

theorem docWeight_cases (s : CountingStrategy) (t : ReadAssignmentType) (k : Nat)
    (ht : t.is_unique = false) :
    docWeight s t k = 0 ∨ (k = 1 ∧ docWeight s t k = 1) ∨ (0 < k ∧ docWeight s t k = 1 / (k : Rat)) := by
  by_cases h0 : k = 0
  · left; simp [docWeight, h0]
  · by_cases h1 : k = 1
    · subst h1
      cases s <;> cases t <;> simp [docWeight] <;>
        simp [ReadAssignmentType.is_unique, rat_is_unique_list] at ht
    · have hk : 0 < k := by omega
      cases s <;> cases t <;> simp [docWeight, h0, h1, hk] <;>
        simp [ReadAssignmentType.is_unique, rat_is_unique_list] at ht

theorem docWeight_mul_le_one (s : CountingStrategy) (t : ReadAssignmentType) (k : Nat)
    (ht : t.is_unique = false) : docWeight s t k * (k : Rat) ≤ 1 := by
  rcases docWeight_cases s t k ht with h | ⟨rfl, h⟩ | ⟨hk, h⟩
  · rw [h, Rat.zero_mul]; decide +kernel
  · rw [h]; simp
  · rw [h, one_div_nat_mul k hk]; decide +kernel

/-! ### statistics, confirmation, rendering -/

theorem step_stats (s : CountingStrategy) (lvl : Level) (st st' : CState F) (e : Event F)
    (h : step s lvl st e = some st') :
    st'.ambiguousReads = st.ambiguousReads + ambiguousClass lvl e ∧
    st'.notAssigned = st.notAssigned + noFeatureClass e ∧
    st'.notAligned = st.notAligned + notAlignedClass e ∧
    st'.usable = st.usable + usableClass e := by
  cases e with
  | read ra =>
    cases ra with
    | none =>
      simp only [step, addReadInfo, Option.some.injEq] at h
      subst h; simp [ambiguousClass, noFeatureClass, notAlignedClass, usableClass]
    | some a =>
      simp only [step, addReadInfo] at h
      by_cases hsk : skipped a = true
      · simp only [hsk, if_true, Option.some.injEq] at h
        subst h; simp [ambiguousClass, noFeatureClass, notAlignedClass, usableClass, hsk]
      · simp only [hsk, Bool.false_eq_true, if_false] at h
        have hsk' : skipped a = false := by simpa using hsk
        by_cases hamb : typeOf lvl a = ReadAssignmentType.ambiguous
        · simp only [hamb, if_true, Option.some.injEq] at h
          subst h; simp [ambiguousClass, noFeatureClass, notAlignedClass, usableClass, hsk', hamb]
        · simp only [hamb, if_false] at h
          by_cases hinc : (typeOf lvl a).is_inconsistent = true
          · simp only [hinc, if_true] at h
            cases hpi : processInconsistent s (typeOf lvl a) (features lvl a).length with
            | none => simp [hpi] at h
            | some w =>
              simp only [hpi] at h
              by_cases hwp : w > 0
              · simp only [hwp, if_true, Option.some.injEq] at h
                subst h; simp [ambiguousClass, noFeatureClass, notAlignedClass, usableClass, hsk', hamb]
              · simp only [hwp, if_false, Option.some.injEq] at h
                subst h; simp [ambiguousClass, noFeatureClass, notAlignedClass, usableClass, hsk', hamb]
          · simp only [hinc, Bool.false_eq_true, if_false] at h
            by_cases hu : (typeOf lvl a).is_unique = true
            · simp only [hu, if_true] at h
              cases hfs : features lvl a with
              | nil => simp [hfs] at h
              | cons g rest =>
                simp only [hfs] at h
                cases hc : confirms lvl a with
                | none => simp [hc] at h
                | some c =>
                  simp only [hc, Option.some.injEq] at h
                  subst h; simp [ambiguousClass, noFeatureClass, notAlignedClass, usableClass, hsk', hamb]
            · simp only [hu, Bool.false_eq_true, if_false, Option.some.injEq] at h
              subst h; simp [ambiguousClass, noFeatureClass, notAlignedClass, usableClass, hsk', hamb]
  | raw noId fs =>
    simp only [step, Option.some.injEq] at h
    subst h
    cases noId with
    | true => simp [addReadInfoRaw, ambiguousClass, noFeatureClass, notAlignedClass, usableClass]
    | false =>
      match fs with
      | [] => simp [addReadInfoRaw, ambiguousClass, noFeatureClass, notAlignedClass, usableClass]
      | [g] => simp [addReadInfoRaw, ambiguousClass, noFeatureClass, notAlignedClass, usableClass]
      | g :: g' :: rest => simp [addReadInfoRaw, ambiguousClass, noFeatureClass, notAlignedClass, usableClass]
  | unassigned n =>
    simp only [step, Option.some.injEq] at h
    subst h; simp [ambiguousClass, noFeatureClass, notAlignedClass, usableClass]
  | unaligned n =>
    simp only [step, Option.some.injEq] at h
    subst h; simp [ambiguousClass, noFeatureClass, notAlignedClass, usableClass]
  | confirm fs =>
    simp only [step, Option.some.injEq] at h
    subst h; simp [ambiguousClass, noFeatureClass, notAlignedClass, usableClass]

theorem run_stats (s : CountingStrategy) (lvl : Level) (es : List (Event F)) (st0 st : CState F)
    (h : run s lvl st0 es = some st) :
    st.ambiguousReads = st0.ambiguousReads + natSum (es.map (ambiguousClass lvl)) ∧
    st.notAssigned = st0.notAssigned + natSum (es.map noFeatureClass) ∧
    st.notAligned = st0.notAligned + natSum (es.map notAlignedClass) ∧
    st.usable = st0.usable + natSum (es.map usableClass) := by
  induction es generalizing st0 with
  | nil =>
    simp only [run, Option.some.injEq] at h
    subst h; simp
  | cons e es ih =>
    simp only [run] at h
    cases hs : step s lvl st0 e with
    | none => simp [hs] at h
    | some st1 =>
      simp only [hs] at h
      have h1 := ih st1 h
      have h2 := step_stats s lvl st0 st1 e hs
      simp only [List.map_cons, natSum_cons]
      omega

/-- if the history ran, every call in it ran (from some intermediate state) -/
theorem run_mem_step (s : CountingStrategy) (lvl : Level) (es : List (Event F)) (st0 st : CState F)
    (h : run s lvl st0 es = some st) (e : Event F) (he : e ∈ es) :
    ∃ st1 st2, step s lvl st1 e = some st2 := by
  induction es generalizing st0 with
  | nil => simp at he
  | cons x xs ih =>
    simp only [run] at h
    cases hs : step s lvl st0 x with
    | none => simp [hs] at h
    | some st1 =>
      simp only [hs] at h
      simp only [List.mem_cons] at he
      rcases he with rfl | he
      · exact ⟨st0, st1, hs⟩
      · exact ih st1 h he

theorem step_unique_confirms (s : CountingStrategy) (lvl : Level) (st st' : CState F) (a : Assignment F)
    (h : step s lvl st (Event.read (some a)) = some st') (hsk : skipped a = false)
    (hu : (typeOf lvl a).is_unique = true) : ∃ c, confirms lvl a = some c := by
  obtain ⟨hamb, hinc⟩ := unique_not_other _ hu
  simp only [step, addReadInfo, hsk, Bool.false_eq_true, if_false, hamb, hinc, hu, if_true] at h
  cases hfs : features lvl a with
  | nil => simp [hfs] at h
  | cons g rest =>
    simp only [hfs] at h
    cases hc : confirms lvl a with
    | none => simp [hc] at h
    | some c => exact ⟨c, rfl⟩

theorem floor_le_roundHalfEven (q : Rat) : q.floor ≤ roundHalfEven q := by
  unfold roundHalfEven
  simp only []
  split
  · omega
  · split
    · omega
    · split <;> omega

theorem hundredths_ge (v : Rat) (hv : 1 ≤ v) : 100 ≤ hundredths v := by
  unfold hundredths
  have h1 : ((100 : Int) : Rat) ≤ v * 100 := by
    have : (100 : Rat) = ((100 : Int) : Rat) := by simp
    rw [← this]
    have := Rat.mul_le_mul_of_nonneg_right hv (show (0:Rat) ≤ 100 by decide +kernel)
    simpa [Rat.one_mul] using this
  have h2 : (100 : Int) ≤ (v * 100).floor := Rat.le_floor_iff.mpr h1
  have h3 := floor_le_roundHalfEven (v * 100)
  omega

theorem contribution_nonneg (s : CountingStrategy) (lvl : Level) (e : Event F) (f : F) :
    0 ≤ contribution s lvl e f := by
  unfold contribution
  split
  · split
    · decide +kernel
    · split
      · split <;> decide +kernel
      · split
        · exact docWeight_nonneg _ _ _
        · decide +kernel
  · exact Rat.mul_nonneg (cnt_nonneg _ _) (docWeight_nonneg _ _ _)
  · decide +kernel

/-- Σ_f cnt fs f · w over a duplicate-free list of features is at most |fs| · w -/
theorem weighted_cnt_sum_le (L : List F) (hL : L.Nodup) (fs : List F) (w : Rat) (hw : 0 ≤ w)
    (hk : w * (fs.length : Rat) ≤ 1) : ratSum (L.map (fun f => cnt fs f * w)) ≤ 1 := by
  rw [ratSum_map_mul_right]
  have h1 := cnt_sum_le L hL fs
  have h2 : ratSum (L.map (cnt fs)) * w ≤ (fs.length : Rat) * w := Rat.mul_le_mul_of_nonneg_right h1 hw
  grind

/-! ### merge / TPM helpers -/

omit [DecidableEq F] in
theorem natSum_flatMap_map {α} (chrs : List α) (g : α → List (Event F)) (cls : Event F → Nat) :
    natSum ((chrs.flatMap g).map cls) = natSum (chrs.map (fun c => natSum ((g c).map cls))) := by
  induction chrs with
  | nil => simp
  | cons c cs ih => simp [List.flatMap_cons, natSum_append, ih]

omit [DecidableEq F] in
theorem ratSum_flatMap_map {α} (chrs : List α) (g : α → List (Event F)) (w : Event F → Rat) :
    ratSum ((chrs.flatMap g).map w) = ratSum (chrs.map (fun c => ratSum ((g c).map w))) := by
  induction chrs with
  | nil => simp
  | cons c cs ih => simp [List.flatMap_cons, ratSum_append, ih]

omit [DecidableEq F] in
theorem scaleFactor_pos (norm : NormalizationMethod) (usable : Nat) (total : Rat) :
    0 < scaleFactor norm usable total := by
  unfold scaleFactor
  split
  · rename_i h
    have hu : 0 < usable := Nat.pos_of_ne_zero h.2
    have := one_div_nat_pos usable hu
    rw [Rat.div_def] at this ⊢
    rw [Rat.one_mul] at this
    exact Rat.mul_pos (by decide +kernel) this
  · split
    · rename_i hT
      rw [Rat.div_def]
      exact Rat.mul_pos (by decide +kernel) (Rat.inv_pos.mpr hT)
    · decide +kernel

omit [DecidableEq F] in
theorem ratSum_tpm_rows (sf : Rat) (oz : Bool) (inp : List (F × Int)) :
    ratSum ((inp.filterMap (fun r =>
        let tpm := sf * printedValue r.2
        if (!oz && tpm == 0) = true then none else some (r.1, tpm))).map Prod.snd)
      = sf * ratSum (inp.map (fun r => printedValue r.2)) := by
  induction inp with
  | nil => simp [Rat.mul_zero]
  | cons r rs ih =>
    by_cases hcond : (!oz && sf * printedValue r.2 == 0) = true
    · have hz : sf * printedValue r.2 = 0 := by
        simp only [Bool.and_eq_true, Bool.not_eq_true', beq_iff_eq] at hcond
        exact hcond.2
      simp only [List.filterMap_cons, hcond, if_true, List.map_cons, ratSum_cons]
      rw [ih]; grind
    · simp only [List.filterMap_cons, hcond, if_false, List.map_cons, ratSum_cons, Bool.false_eq_true]
      rw [ih]; grind

theorem roundHalfEven_close (x : Rat) :
    (roundHalfEven x : Rat) - 1/2 ≤ x ∧ x ≤ (roundHalfEven x : Rat) + 1/2 := by
  have h1 : ((x.floor : Int) : Rat) ≤ x := Rat.floor_le x
  have h2 : x < ((x.floor + 1 : Int) : Rat) := Rat.lt_floor_add_one x
  have h3 : ((x.floor + 1 : Int) : Rat) = (x.floor : Rat) + 1 := by simp [Rat.intCast_add]
  rw [h3] at h2
  unfold roundHalfEven
  simp only []
  split
  · rename_i h; constructor <;> grind
  · split
    · rename_i h h'; rw [h3]; constructor <;> grind
    · split
      · constructor <;> grind
      · rw [h3]; constructor <;> grind

theorem rat_zero_div_one : (0 / 1 : Rat) = 0 := by decide +kernel
theorem rat_one_div_one : (1 / 1 : Rat) = 1 := by decide +kernel

end IsoVerif.Lemmas.C02
