/-
C01, forward clause for reads that follow an annotated isoform with EXACT splice sites: from the geometry of the read
(`FollowsExact`) to the hypotheses of the profile lemmas (Lemmas/C01FollowIntron.lean, C01SplitSweep.lean,
C01FollowGene.lean).
-/
import IsoVerif.Lemmas.C01FollowGene
import IsoVerif.Props.C01Path

namespace IsoVerif.Lemmas.C01
open IsoVerif.Gen IsoVerif.Model IsoVerif.Model.C01 IsoVerif.Lemmas IsoVerif.Lemmas.C13
open IsoVerif.Props.C13Profiles IsoVerif.Props.C01Path

/-- the read (alignment blocks) is a contiguous sub-chain of the exon list `E` with EXACT splice sites: block `j` lies
    inside exon `a + j`, shares its start unless it is the first block and its end unless it is the last block
    (5' / 3' truncation: the first block may start, the last block may end, anywhere inside its exon) -/
def FollowsExact (E blocks : List Iv) : Prop :=
  ∃ a : Nat, ∀ (j : Nat) (b : Iv), blocks[j]? = some b →
    ∃ e, E[a + j]? = some e ∧ e.1 ≤ b.1 ∧ b.2 ≤ e.2 ∧ (0 < j → b.1 = e.1) ∧ (j + 1 < blocks.length → b.2 = e.2)

/-! ### gapped lists -/

theorem Gapped_SD : ∀ (l : List Iv), Gapped l → SD l := by
  intro l
  induction l with
  | nil => intro _; trivial
  | cons a t ih =>
    cases t with
    | nil => intro _; trivial
    | cons b t' =>
      intro h
      exact ⟨by have := h.2.1; omega, ih h.2.2⟩

theorem Gapped_get : ∀ (l : List Iv), Gapped l → ∀ (i : Nat) (a b : Iv), l[i]? = some a → l[i + 1]? = some b →
    a.2 + 1 < b.1 := by
  intro l
  induction l with
  | nil => intro _ i a b ha; simp at ha
  | cons x t ih =>
    cases t with
    | nil => intro _ i a b _ hb; simp at hb
    | cons y t' =>
      intro h i a b ha hb
      cases i with
      | zero => simp at ha hb; subst ha; subst hb; exact h.2.1
      | succ i =>
        simp only [List.getElem?_cons_succ] at ha hb
        exact ih h.2.2 i a b ha hb

/-- every junction of a gapped list is the gap between two consecutive elements -/
theorem junctions_mem_index (l : List Iv) (h : Gapped l) (r : Iv) (hr : r ∈ junctionsFromBlocks l) :
    ∃ (j : Nat) (a b : Iv), l[j]? = some a ∧ l[j + 1]? = some b ∧ r = (a.2 + 1, b.1 - 1) ∧
      (junctionsFromBlocks l)[j]? = some r := by
  obtain ⟨j, hj⟩ := List.mem_iff_getElem?.mp hr
  have hjl : j < (junctionsFromBlocks l).length := getElem?_lt hj
  rw [junctions_length l h] at hjl
  have h1 : j < l.length := by omega
  have h2 : j + 1 < l.length := by omega
  have ha : l[j]? = some l[j] := by simp [h1]
  have hb : l[j + 1]? = some l[j + 1] := by simp [h2]
  have := junctions_getElem l h j _ _ ha hb
  rw [hj] at this
  exact ⟨j, l[j], l[j + 1], ha, hb, Option.some.inj this, hj⟩

theorem junction_of_index (l : List Iv) (h : Gapped l) (j : Nat) (a b : Iv) (ha : l[j]? = some a)
    (hb : l[j + 1]? = some b) : (a.2 + 1, b.1 - 1) ∈ junctionsFromBlocks l :=
  List.mem_of_getElem? (junctions_getElem l h j a b ha hb)

/-! ### the intron half: `FollowsExact` gives `IntronFollow` -/

theorem followsExact_intronFollow (δ : Int) (hδ : 0 ≤ δ) (K E blocks : List Iv) (hE : Gapped E) (hB : Gapped blocks)
    (hf : FollowsExact E blocks) (hK : ∀ t ∈ junctionsFromBlocks E, t ∈ K)
    (f l : Iv) (hfirst : blocks.head? = some f) (hlast : blocks.getLast? = some l) :
    IntronFollow δ K (junctionsFromBlocks E) (junctionsFromBlocks blocks) (f.1, l.2) := by
  obtain ⟨a0, hfa⟩ := hf
  have hBsd := Gapped_SD blocks hB
  have hBw := Gapped_wf blocks hB
  have hEsd := Gapped_SD E hE
  have hEw := Gapped_wf E hE
  have hf0 : blocks[0]? = some f := by rw [← List.head?_eq_getElem?]; exact hfirst
  have hm : 0 < blocks.length := getElem?_lt hf0
  have hl0 : blocks[blocks.length - 1]? = some l := by rw [← List.getLast?_eq_getElem?]; exact hlast
  -- a read junction is a junction of E
  have key : ∀ (j : Nat) (a b : Iv), blocks[j]? = some a → blocks[j + 1]? = some b →
      ∃ e e', E[a0 + j]? = some e ∧ E[a0 + j + 1]? = some e' ∧ a.2 = e.2 ∧ b.1 = e'.1 := by
    intro j a b ha hb
    obtain ⟨e, he, _, _, _, h4⟩ := hfa j a ha
    obtain ⟨e', he', _, _, h3', _⟩ := hfa (j + 1) b hb
    exact ⟨e, e', he, he', h4 (getElem?_lt hb), h3' (by omega)⟩
  refine ⟨?_, ?_, ?_⟩
  · intro r hr
    obtain ⟨j, a, b, ha, hb, hrab, _⟩ := junctions_mem_index blocks hB r hr
    obtain ⟨e, e', he, he', h1, h2⟩ := key j a b ha hb
    have hmem := junction_of_index E hE (a0 + j) e e' he he'
    have hre : r = (e.2 + 1, e'.1 - 1) := by rw [hrab, h1, h2]
    rw [← hre] at hmem
    exact ⟨r, hmem, strictBest_exact δ hδ K r (hK r hmem)⟩
  · intro t ht
    obtain ⟨q, e, e', he, he', hte, _⟩ := junctions_mem_index E hE t ht
    obtain ⟨ef, hef, hf1, _, _, _⟩ := hfa 0 f hf0
    obtain ⟨el, hel, _, hl2, _, _⟩ := hfa (blocks.length - 1) l hl0
    by_cases h1 : q < a0
    · left
      have := (SD_get_le hEsd hEw he' hef (by omega)).1
      rw [hte]; show e'.1 - 1 < f.1; omega
    · by_cases h2 : a0 + (blocks.length - 1) ≤ q
      · right; left
        have := (SD_get_le hEsd hEw hel he h2).2
        rw [hte]; show l.2 < e.2 + 1; omega
      · right; right
        have hj1 : q - a0 < blocks.length := by omega
        have hj2 : q - a0 + 1 < blocks.length := by omega
        have ha : blocks[q - a0]? = some blocks[q - a0] := by simp [hj1]
        have hb : blocks[q - a0 + 1]? = some blocks[q - a0 + 1] := by simp [hj2]
        obtain ⟨e1, e1', he1, he1', h3, h4⟩ := key (q - a0) _ _ ha hb
        have eq1 : a0 + (q - a0) = q := by omega
        rw [eq1] at he1 he1'
        rw [he] at he1; cases he1
        rw [he'] at he1'; cases he1'
        have hmem := junction_of_index blocks hB (q - a0) _ _ ha hb
        rw [h3, h4, ← hte] at hmem
        exact ⟨t, hmem, strictBest_exact δ hδ K t (hK t ht)⟩
  · intro r hr
    obtain ⟨j, a, b, ha, hb, hrab, _⟩ := junctions_mem_index blocks hB r hr
    have h1 := (SD_get_le hBsd hBw hf0 ha (by omega)).1
    have h2 := (SD_get_le hBsd hBw hb hl0 (by have := getElem?_lt hb; omega)).2
    have := hBw a (List.mem_of_getElem? ha)
    have := hBw b (List.mem_of_getElem? hb)
    rw [hrab]
    constructor
    · show f.1 < a.2 + 1; omega
    · show b.1 - 1 < l.2; omega

/-! ### the split-exon half -/

theorem oalwo_iff (a b : Iv) (d : Int) : overlaps_at_least_when_overlap a b d = true ↔
    ((b.1 ≤ a.1 ∧ a.2 ≤ b.2) ∨
     (if a.2 < b.2 then (a.1 ≥ b.1 ∨ a.2 - b.1 + 1 ≥ d) else (a.1 ≤ b.1 ∨ b.2 - a.1 + 1 ≥ d))) := by
  simp only [overlaps_at_least_when_overlap]
  by_cases hc : b.1 ≤ a.1 ∧ a.2 ≤ b.2
  · simp [hc]
  · by_cases h : a.2 < b.2
    · simp [hc, h]
    · simp [hc, h]

/-- the comparator of the split-exon profile (`overlaps_at_least_when_overlap`) holds for a block inside an annotated
    exon and one of the atoms it overlaps, as soon as the block shares ONE of its ends with the exon (start or end — the
    symmetric form: since fix 48e5811 the comparator tests containment first, so a block inside an atom counts whichever
    end they share) or is at least `2·minimal_exon_overlap − 1` long -/
theorem block_has_atom {g : Gene} (ha : Atoms g) (meo : Int) (e : Iv) (he : e ∈ g.exons) (b : Iv) (hbw : b.1 ≤ b.2)
    (hin : e.1 ≤ b.1 ∧ b.2 ≤ e.2)
    (hyp : b.1 = e.1 ∨ b.2 = e.2 ∨ 2 * meo - 1 ≤ b.2 - b.1 + 1) :
    ∃ k ∈ g.splitExons, overlaps b k = true ∧ overlaps_at_least_when_overlap b k meo = true := by
  rcases hyp with hs | hs | hlong
  · -- the atom that starts the exon
    obtain ⟨k, hk, hk1, hk2, hk3, hk4⟩ := atom_at ha e he b.1 ⟨by omega, by omega⟩
    refine ⟨k, hk, by simp [overlaps]; omega, ?_⟩
    rw [oalwo_iff]; split <;> omega
  · -- the atom that ends the exon: it ends where the block ends
    obtain ⟨k, hk, hk1, hk2, hk3, hk4⟩ := atom_at ha e he b.2 ⟨by omega, by omega⟩
    refine ⟨k, hk, by simp [overlaps]; omega, ?_⟩
    rw [oalwo_iff]; split <;> omega
  · -- the atom that covers the last position of the block
    obtain ⟨k, hk, hk1, hk2, hk3, hk4⟩ := atom_at ha e he b.2 ⟨by omega, by omega⟩
    by_cases hc : k.1 ≤ b.1
    · -- the block lies inside this atom
      refine ⟨k, hk, by simp [overlaps]; omega, ?_⟩
      rw [oalwo_iff]; split <;> omega
    · -- the atom before it
      obtain ⟨kp, hkp, hp1, hp2, hp3, hp4⟩ := atom_at ha e he (k.1 - 1) ⟨by omega, by omega⟩
      have hne : kp ≠ k := by intro e'; subst e'; omega
      obtain ⟨ip, hip⟩ := List.mem_iff_getElem?.mp hkp
      obtain ⟨ik, hik⟩ := List.mem_iff_getElem?.mp hk
      have hlt : kp.2 < k.1 := by
        rcases Nat.lt_trichotomy ip ik with h | h | h
        · exact SD_get_lt ha.sd ha.wf hip hik h
        · subst h; rw [hip] at hik; cases hik; exact absurd rfl hne
        · have := SD_get_lt ha.sd ha.wf hik hip h
          have := ha.wf k hk
          omega
      by_cases hc2 : b.1 ≤ kp.1
      · refine ⟨kp, hkp, by simp [overlaps]; omega, ?_⟩
        rw [oalwo_iff]; split <;> omega
      · by_cases hc3 : b.2 < k.2
        · by_cases hc4 : meo ≤ kp.2 - b.1 + 1
          · refine ⟨kp, hkp, by simp [overlaps]; omega, ?_⟩
            rw [oalwo_iff]; split <;> omega
          · refine ⟨k, hk, by simp [overlaps]; omega, ?_⟩
            rw [oalwo_iff]; split <;> omega
        · refine ⟨k, hk, by simp [overlaps]; omega, ?_⟩
          rw [oalwo_iff]; split <;> omega

/-! ### the hypotheses of the exact forward clause -/

/-- everything the forward clause assumes (each item is decidable):
    the annotation is well formed with non-negative coordinates, every annotated intron is at least δ long;
    T's exons and the read's blocks are separated by at least one base; the read follows T exactly; consecutive read
    introns are more than δ apart (inner blocks at least δ long); a SINGLE-block read is at least
    `2·minimal_exon_overlap − 1` long or shares one of its ends with the exon of T it lies in (every block of a spliced
    read shares an end with its exon by `FollowsExact`: no length condition is left for spliced reads — the symmetric form
    of `block_has_atom` after fix 48e5811); no polyA / polyT position. -/
structure FollowHyp (ms : List Isoform) (g : Gene) (p : Params) (T : IsoInfo) (blocks : List Iv) (pa : PolyA) : Prop where
  hg : Gene.fromModels ms = some g
  hwf : WellFormed ms
  hnn : NonNeg ms
  hT : T ∈ g.isos
  hTg : Gapped T.exons
  hδ : 0 ≤ p.delta
  hmao : 0 ≤ p.min_abs_exon_overlap
  hlong : LongerThan p.delta g.introns
  hB : Gapped blocks
  hf : FollowsExact T.exons blocks
  hsep : SepBy p.delta (junctionsFromBlocks blocks)
  hsingle : ∀ b, blocks = [b] → 2 * p.minimal_exon_overlap - 1 ≤ b.2 - b.1 + 1 ∨
      ∃ e ∈ T.exons, e.1 ≤ b.1 ∧ b.2 ≤ e.2 ∧ (b.1 = e.1 ∨ b.2 = e.2)
  hA : pa.extA = -1
  hT' : pa.extT = -1

/-- the split-exon part of `constructProfiles` without polyA / polyT positions -/
theorem constructProfiles_split_nopolya (g : Gene) (p : Params) (blocks : List Iv) (pa : PolyA) (rp : ReadProf)
    (h : constructProfiles g p blocks pa = some rp) (hA : pa.extA = -1) (hT : pa.extT = -1) :
    rp.split.gene = (noSweep (fun a b => overlaps_at_least_when_overlap a b p.minimal_exon_overlap) g.splitExons 0 blocks 0
      { gene := g.splitExons.map (fun _ => 0), read := blocks.map (fun _ => 0) }).gene ∧
    rp.split.read = (noSweep (fun a b => overlaps_at_least_when_overlap a b p.minimal_exon_overlap) g.splitExons 0 blocks 0
      { gene := g.splitExons.map (fun _ => 0), read := blocks.map (fun _ => 0) }).read ∧
    rp.split.range = profileRange rp.split.gene := by
  unfold constructProfiles at h
  split at h
  · simp at h
  · simp only at h
    split at h
    · simp at h
    · rename_i sp hsp
      simp at h; subst h
      simp only [constructNonOverlapping, hA, hT] at hsp
      simp at hsp
      subst hsp
      exact ⟨rfl, rfl, rfl⟩

theorem regionOf_spec (l : List Iv) (reg : Iv) (h : regionOf l = some reg) :
    ∃ f t, l.head? = some f ∧ l.getLast? = some t ∧ reg = (f.1, t.2) := by
  unfold regionOf at h
  split at h
  · rename_i f t hf ht
    simp at h; exact ⟨f, t, hf, ht, h.symm⟩
  · simp at h

theorem follow_region {ms g p T blocks pa} (H : FollowHyp ms g p T blocks pa) (reg : Iv)
    (hreg : regionOf blocks = some reg) :
    ∃ f l, blocks.head? = some f ∧ blocks.getLast? = some l ∧ reg = (f.1, l.2) ∧
      T.region.1 ≤ f.1 ∧ l.2 ≤ T.region.2 := by
  obtain ⟨f, l, hf, hl, hr⟩ := regionOf_spec blocks reg hreg
  refine ⟨f, l, hf, hl, hr, ?_⟩
  obtain ⟨_, _, hisos⟩ := fromModels_spec ms g H.hg
  obtain ⟨m, hm, hio⟩ := hisos T H.hT
  have hTr : regionOf T.exons = some T.region := by rw [hio.exons]; exact hio.region
  obtain ⟨ef, el, hef, hel, hTreg⟩ := regionOf_spec T.exons T.region hTr
  obtain ⟨a0, hfa⟩ := H.hf
  have hf0 : blocks[0]? = some f := by rw [← List.head?_eq_getElem?]; exact hf
  have hl0 : blocks[blocks.length - 1]? = some l := by rw [← List.getLast?_eq_getElem?]; exact hl
  have hef0 : T.exons[0]? = some ef := by rw [← List.head?_eq_getElem?]; exact hef
  have hel0 : T.exons[T.exons.length - 1]? = some el := by rw [← List.getLast?_eq_getElem?]; exact hel
  obtain ⟨e1, he1, h11, _, _, _⟩ := hfa 0 f hf0
  obtain ⟨e2, he2, _, h22, _, _⟩ := hfa (blocks.length - 1) l hl0
  have hEsd := Gapped_SD T.exons H.hTg
  have hEw := Gapped_wf T.exons H.hTg
  have := (SD_get_le hEsd hEw hef0 he1 (by omega)).1
  have := (SD_get_le hEsd hEw he2 hel0 (by have := getElem?_lt he2; omega)).2
  rw [hTreg]
  constructor
  · show ef.1 ≤ f.1; omega
  · show l.2 ≤ el.2; omega

theorem exons_in_gene {ms g p T blocks pa} (H : FollowHyp ms g p T blocks pa) : ∀ e ∈ T.exons, e ∈ g.exons := by
  obtain ⟨_, _, hisos⟩ := fromModels_spec ms g H.hg
  obtain ⟨m, hm, hio⟩ := hisos T H.hT
  intro e he
  rw [hio.exons] at he
  exact exon_mem_gene ms g H.hg m hm e he

theorem introns_eq {ms g p T blocks pa} (H : FollowHyp ms g p T blocks pa) :
    T.introns = junctionsFromBlocks T.exons := by
  obtain ⟨_, _, hisos⟩ := fromModels_spec ms g H.hg
  obtain ⟨m, hm, hio⟩ := hisos T H.hT
  rw [hio.introns, hio.exons]

/-! ### intron half -/

theorem follow_hyp_intron {ms g p T blocks pa} (H : FollowHyp ms g p T blocks pa) :
    Hyp p.delta g.introns (junctionsFromBlocks blocks) := by
  obtain ⟨hK, _, _⟩ := fromModels_spec ms g H.hg
  have hBsd := Gapped_SD blocks H.hB
  have hBw := Gapped_wf blocks H.hB
  refine ⟨?_, H.hlong, H.hsep, ?_⟩
  · rw [hK]; exact LexSorted_SortedStarts _ (LexSorted_sortDedupIv _)
  · exact (junctions_SD_WFl blocks hBsd hBw).2

theorem follow_intron {ms g p T blocks pa} (H : FollowHyp ms g p T blocks pa) (rp : ReadProf)
    (hrp : constructProfiles g p blocks pa = some rp) :
    (∀ v ∈ rp.intron.read, v = 1) ∧
    equalProfilesInRange T.intronProf rp.intron.gene rp.intron.range = some true := by
  obtain ⟨_, hreg, _, _, hprof⟩ := constructProfiles_spec g p blocks pa rp hrp
  rw [H.hA, H.hT'] at hprof
  obtain ⟨f, l, hf, hl, hregeq, hr1, hr2⟩ := follow_region H rp.region hreg
  have hyp := follow_hyp_intron H
  have hTI := introns_eq H
  have hK : ∀ t ∈ junctionsFromBlocks T.exons, t ∈ g.introns := by
    intro t ht
    obtain ⟨i, hi⟩ := intron_mem_gene ms g H.hg T H.hT t (by rw [hTI]; exact ht)
    exact List.mem_of_getElem? hi
  have hIF := followsExact_intronFollow p.delta H.hδ g.introns T.exons blocks H.hTg H.hB H.hf hK f l hf hl
  rw [← hregeq] at hIF
  have spec := constructOverlapping_spec g.introns (g.start, g.stop) (fun a b => equal_ranges a b p.delta)
      (fun a b => overlaps_at_least a b p.minimal_intron_absence_overlap) p.delta (junctionsFromBlocks blocks)
      rp.region (-1) (-1)
  rw [← hprof] at spec
  constructor
  · intro v hv
    obtain ⟨j, hj⟩ := List.mem_iff_getElem?.mp hv
    have hjl : j < (junctionsFromBlocks blocks).length := by rw [← spec.rlen]; exact getElem?_lt hj
    have hr : (junctionsFromBlocks blocks)[j]? = some (junctionsFromBlocks blocks)[j] := by simp [hjl]
    obtain ⟨t, _, htK, hc, _⟩ := hIF.each _ (List.getElem_mem hjl)
    have := follow_read_marked g.introns (g.start, g.stop)
      (fun a b => overlaps_at_least a b p.minimal_intron_absence_overlap) p.delta (junctionsFromBlocks blocks)
      rp.region hyp j _ t hr htK hc
    rw [← hprof, hj] at this
    exact Option.some.inj this
  · have hrange : rp.intron.range = profileRange rp.intron.gene := by rw [hprof]; rfl
    have hb := profileRange_bounds rp.intron.gene
    apply equalProfilesInRange_intro _ _ _ (by rw [hrange]; exact hb.1)
    intro i hlo hhi
    have hil : i < rp.intron.gene.length := by rw [hrange] at hhi; omega
    obtain ⟨v, hv⟩ : ∃ v, rp.intron.gene[i]? = some v := ⟨rp.intron.gene[i], by simp [hil]⟩
    refine ⟨v, hv, ?_⟩
    by_cases hv0 : v = 0
    · left; exact hv0
    · right
      have hik : i < g.introns.length := by rw [← spec.glen]; exact hil
      obtain ⟨k, hk⟩ : ∃ k, g.introns[i]? = some k := ⟨g.introns[i], by simp [hik]⟩
      have hv' : (constructOverlapping g.introns (g.start, g.stop) (fun a b => equal_ranges a b p.delta)
          (fun a b => overlaps_at_least a b p.minimal_intron_absence_overlap) p.delta (junctionsFromBlocks blocks)
          rp.region (-1) (-1)).gene[i]? = some v := by rw [← hprof]; exact hv
      have hmarks := follow_gene_marks g.introns (g.start, g.stop) p.minimal_intron_absence_overlap p.delta
        (junctionsFromBlocks blocks) (junctionsFromBlocks T.exons) rp.region H.hδ hyp hIF i k v hk hv' hv0
      rcases hmarks with ⟨h1, hin⟩ | ⟨h1, hnin, hov⟩
      · rw [h1]
        exact (intronProf_one_iff ms g H.hg H.hwf T H.hT i k hk).mpr (by rw [hTI]; exact hin)
      · rw [h1]
        obtain ⟨_, hisos⟩ := fromModels_spec2 ms g H.hg
        obtain ⟨m, hm, hio⟩ := hisos T H.hT
        have hn1 : T.intronProf[i]? ≠ some 1 := by
          intro hone
          exact hnin (by rw [← hTI]; exact (intronProf_one_iff ms g H.hg H.hwf T H.hT i k hk).mp hone)
        rw [hio.base.intronProf] at hn1 ⊢
        apply prof_values _ _ _ _ i k hk hn1
        rw [hregeq] at hov
        simp only [overlaps, Bool.not_eq_true', Bool.or_eq_false_iff, decide_eq_false_iff_not] at hov ⊢
        omega

/-! ### split-exon half -/

theorem follow_split {ms g p T blocks pa} (H : FollowHyp ms g p T blocks pa) (rp : ReadProf)
    (hrp : constructProfiles g p blocks pa = some rp) :
    rp.split.read.length = blocks.length ∧ (∀ v ∈ rp.split.read, v = 1) ∧
    equalProfilesInRange T.splitProf rp.split.gene rp.split.range = some true ∧
    hasOverlappingFeatures T.splitProf rp.split.gene (overlap_intervals rp.split.range T.splitRange) = some true ∧
    (∃ i : Nat, rp.split.gene[i]? = some 1) := by
  obtain ⟨hsg, hsr, hrange⟩ := constructProfiles_split_nopolya g p blocks pa rp hrp H.hA H.hT'
  obtain ⟨_, hreg, _, _, _⟩ := constructProfiles_spec g p blocks pa rp hrp
  obtain ⟨f, l, hf, hl, hregeq, hr1, hr2⟩ := follow_region H rp.region hreg
  have ha := atoms_of_fromModels ms g H.hg H.hwf H.hnn
  have hBsd := Gapped_SD blocks H.hB
  have hBw := Gapped_wf blocks H.hB
  have hEsd := Gapped_SD T.exons H.hTg
  have hEw := Gapped_wf T.exons H.hTg
  have hEg := exons_in_gene H
  obtain ⟨_, hisos⟩ := fromModels_spec2 ms g H.hg
  obtain ⟨m, hm, hio⟩ := hisos T H.hT
  obtain ⟨a0, hfa⟩ := H.hf
  have hf0 : blocks[0]? = some f := by rw [← List.head?_eq_getElem?]; exact hf
  have hl0 : blocks[blocks.length - 1]? = some l := by rw [← List.getLast?_eq_getElem?]; exact hl
  generalize hst : noSweep (fun a b => overlaps_at_least_when_overlap a b p.minimal_exon_overlap) g.splitExons 0 blocks 0
      { gene := g.splitExons.map (fun _ => 0), read := blocks.map (fun _ => 0) } = st at hsg hsr
  have hglen : st.gene.length = g.splitExons.length := by rw [← hst, noSweep_gene_length]; simp
  have hrlen : st.read.length = blocks.length := by rw [← hst, noSweep_read_length]; simp
  -- every block is marked, together with an atom inside an exon of T
  have marks : ∀ (j : Nat) (b : Iv), blocks[j]? = some b →
      ∃ (i : Nat) (k : Iv), g.splitExons[i]? = some k ∧ st.gene[i]? = some 1 ∧ st.read[j]? = some 1 ∧
        ∃ e ∈ T.exons, contains e k = true := by
    intro j b hj
    obtain ⟨e, he, h1, h2, h3, h4⟩ := hfa j b hj
    have heT : e ∈ T.exons := List.mem_of_getElem? he
    have heg := hEg e heT
    have hbw := hBw b (List.mem_of_getElem? hj)
    -- the block shares an end with its exon (spliced read), or is a single block covered by `hsingle`
    have hyp : b.1 = e.1 ∨ b.2 = e.2 ∨ 2 * p.minimal_exon_overlap - 1 ≤ b.2 - b.1 + 1 := by
      by_cases hj0 : j = 0
      · subst hj0
        by_cases hone : blocks.length = 1
        · have hbl : blocks = [b] := by
            match blocks, hone, hj with
            | [x], _, hj => simp at hj; rw [hj]
          rcases H.hsingle b hbl with hl | ⟨e', he', g1, g2, g3⟩
          · right; right; exact hl
          · -- e' is the exon `e` the block lies in
            obtain ⟨q, hq⟩ := List.mem_iff_getElem?.mp he'
            have hee : e' = e := by
              rcases Nat.lt_trichotomy q (a0 + 0) with hlt | heq | hgt
              · have := SD_get_lt hEsd hEw hq he hlt; omega
              · rw [heq] at hq; rw [hq] at he; exact Option.some.inj he
              · have := SD_get_lt hEsd hEw he hq hgt; omega
            subst hee
            rcases g3 with g3 | g3
            · left; exact g3
            · right; left; exact g3
        · right; left; exact h4 (by have := getElem?_lt hj; omega)
      · left; exact h3 (by omega)
    obtain ⟨k, hk, hov, hc⟩ := block_has_atom ha p.minimal_exon_overlap e heg b hbw ⟨h1, h2⟩ hyp
    obtain ⟨i, hi⟩ := List.mem_iff_getElem?.mp hk
    have hm := noSweep_marks (fun a b => overlaps_at_least_when_overlap a b p.minimal_exon_overlap) g.splitExons blocks
      ha.sd ha.wf hBsd hBw i j k b hi hj hov hc g.splitExons 0 blocks 0
      { gene := g.splitExons.map (fun _ => 0), read := blocks.map (fun _ => 0) }
      (by simp) (by simp) (by simp) (by simp) (Nat.zero_le _) (Nat.zero_le _)
    rw [hst] at hm
    have hovek : overlaps e k = true := by
      simp only [overlaps, Bool.not_eq_true', Bool.or_eq_false_iff, decide_eq_false_iff_not] at hov ⊢
      omega
    obtain ⟨hc1, hc2⟩ := atom_in_exon ha e heg k hk hovek
    exact ⟨i, k, hi, hm.1, hm.2, e, heT, by simp [contains]; omega⟩
  -- soundness invariant of the final state
  have hinv : NoInv (fun a b => overlaps_at_least_when_overlap a b p.minimal_exon_overlap) g.splitExons blocks st := by
    rw [← hst]
    exact noSweep_inv _ g.splitExons blocks ha.sd ha.wf g.splitExons 0 blocks 0 _ (by simp) (by simp)
      (fun h => absurd h (by omega)) (noSweep_init_inv _ _ _)
  -- a block lies inside an exon of T
  have inside : ∀ (j : Nat) (b : Iv), blocks[j]? = some b → ∃ e ∈ T.exons, e.1 ≤ b.1 ∧ b.2 ≤ e.2 := by
    intro j b hj
    obtain ⟨e, he, h1, h2, _, _⟩ := hfa j b hj
    exact ⟨e, List.mem_of_getElem? he, h1, h2⟩
  have hsp1 : ∀ (i : Nat) (k : Iv), g.splitExons[i]? = some k → st.gene[i]? = some 1 → T.splitProf[i]? = some 1 := by
    intro i k hk h1
    obtain ⟨k', j, r, hk', hr, hov, _⟩ := hinv.gene1 i h1
    rw [hk] at hk'; cases hk'
    obtain ⟨e, heT, h1', h2'⟩ := inside j r hr
    have hrw := hBw r (List.mem_of_getElem? hr)
    have hovek : overlaps e k = true := by
      simp only [overlaps, Bool.not_eq_true', Bool.or_eq_false_iff, decide_eq_false_iff_not] at hov ⊢
      omega
    obtain ⟨hc1, hc2⟩ := atom_in_exon ha e (hEg e heT) k (List.mem_of_getElem? hk) hovek
    exact (splitProf_one_iff ms g H.hg H.hwf H.hnn T H.hT i k hk).mpr ⟨e, heT, by simp [contains]; omega⟩
  have hspN : ∀ (i : Nat) (k : Iv), g.splitExons[i]? = some k → st.gene[i]? = some (-1) →
      T.splitProf[i]? = some (-1) := by
    intro i k hk hn
    obtain ⟨k', j, r, r', hk', hr, hr', hlt1, hlt2⟩ := hinv.geneN i hn
    rw [hk] at hk'; cases hk'
    have hkw := ha.wf k (List.mem_of_getElem? hk)
    obtain ⟨e1, he1, _, _, _, h14⟩ := hfa j r hr
    obtain ⟨e2, he2, _, _, h23, _⟩ := hfa (j + 1) r' hr'
    have hre := h14 (getElem?_lt hr')
    have hre' := h23 (by omega)
    have hn1 : T.splitProf[i]? ≠ some 1 := by
      intro hone
      obtain ⟨e, heT, hc⟩ := (splitProf_one_iff ms g H.hg H.hwf H.hnn T H.hT i k hk).mp hone
      simp [contains] at hc
      obtain ⟨q, hq⟩ := List.mem_iff_getElem?.mp heT
      by_cases hqa : q ≤ a0 + j
      · have := (SD_get_le hEsd hEw hq he1 hqa).2
        omega
      · have he2' : T.exons[a0 + j + 1]? = some e2 := by
          have e : a0 + (j + 1) = a0 + j + 1 := by omega
          rw [← e]; exact he2
        have := (SD_get_le hEsd hEw he2' hq (by omega)).1
        omega
    have hrj := (SD_get_le hBsd hBw hf0 hr (Nat.zero_le _)).1
    have hrj' := (SD_get_le hBsd hBw hr' hl0 (by have := getElem?_lt hr'; omega)).2
    have hrw := hBw r (List.mem_of_getElem? hr)
    have hrw' := hBw r' (List.mem_of_getElem? hr')
    rw [hio.base.splitProf] at hn1 ⊢
    apply prof_values _ _ _ _ i k hk hn1
    simp only [overlaps, Bool.not_eq_true', Bool.or_eq_false_iff, decide_eq_false_iff_not]
    omega
  have hlenT : T.splitProf.length = g.splitExons.length := splitProf_length ms g H.hg T H.hT
  rw [hrange, hsg, hsr]
  refine ⟨hrlen, ?_, ?_, ?_, ?_⟩
  · intro v hv
    obtain ⟨j, hj⟩ := List.mem_iff_getElem?.mp hv
    have hjl : j < blocks.length := by rw [← hrlen]; exact getElem?_lt hj
    obtain ⟨b, hb⟩ : ∃ b, blocks[j]? = some b := ⟨blocks[j], by simp [hjl]⟩
    obtain ⟨_, _, _, _, hr1', _⟩ := marks j b hb
    rw [hj] at hr1'; exact Option.some.inj hr1'
  · have hb := profileRange_bounds st.gene
    apply equalProfilesInRange_intro _ _ _ hb.1
    intro i hlo hhi
    have hil : i < st.gene.length := by omega
    obtain ⟨v, hv⟩ : ∃ v, st.gene[i]? = some v := ⟨st.gene[i], by simp [hil]⟩
    obtain ⟨k, hk⟩ : ∃ k, g.splitExons[i]? = some k := ⟨g.splitExons[i]'(by omega), by simp [show i < g.splitExons.length by omega]⟩
    refine ⟨v, hv, ?_⟩
    rcases hinv.dom v (List.mem_of_getElem? hv) with h0 | h1 | hn
    · left; exact h0
    · right; subst h1; exact hsp1 i k hk hv
    · right; subst hn; exact hspN i k hk hv
  · obtain ⟨i, k, hi, hg1, _, hce⟩ := marks 0 f hf0
    have hT1 : T.splitProf[i]? = some 1 := (splitProf_one_iff ms g H.hg H.hwf H.hnn T H.hT i k hi).mpr hce
    have hr := nonzero_in_range st.gene i 1 hg1 (by omega)
    have hT1' := hT1
    rw [hio.base.splitProf] at hT1'
    have hrT := setProfiles_range _ _ _ _ i hT1'
    rw [← hio.splitRange] at hrT
    have hbT := setProfiles_range_bounds (fun a b => contains a b) g.splitExons m.exons T.region
    rw [← hio.splitRange, ← hio.base.splitProf] at hbT
    have hb := profileRange_bounds st.gene
    apply hasOverlappingFeatures_intro T.splitProf st.gene _ (by rw [hlenT, hglen]) ?_ ?_ i ?_ ?_ hT1 hg1
    · simp only [overlap_intervals]; omega
    · simp only [overlap_intervals]; omega
    · simp only [overlap_intervals]; omega
    · simp only [overlap_intervals]; omega
  · obtain ⟨i, _, _, hg1, _, _⟩ := marks 0 f hf0
    exact ⟨i, hg1⟩

end IsoVerif.Lemmas.C01
