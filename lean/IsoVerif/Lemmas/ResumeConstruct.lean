/-
C07: the model-construction stages of a run of the repaired code.
-/
import IsoVerif.Lemmas.ResumeCollect

namespace IsoVerif.Lemmas.Resume
open IsoVerif.Model.Resume

/-- final files -/
def Tfin : Path → Bool
  | .final _ => true
  | .finalLin _ => true
  | .tpm _ => true
  | .finalGz _ => true
  | _ => false

theorem Tfin_finalOf (cfg : Cfg) (s : Stream) : Tfin (finalOf cfg s) = true := by
  unfold finalOf; split <;> rfl

theorem finalOf_cases (cfg : Cfg) (s : Stream) : finalOf cfg s = .final s ∨ finalOf cfg s = .finalGz s := by
  unfold finalOf; split <;> simp

theorem mem_aggInit {cfg : Cfg} {main lin : Stream → Path} {e : Ev} (h : e ∈ aggInit cfg main lin) :
    ∃ s, e = .create (main s) ∨ e = .create (lin s) := by
  simp only [aggInit, List.mem_append, List.mem_map, List.mem_flatMap, List.mem_cons, List.not_mem_nil, or_false] at h
  rcases h with (((((((⟨s, _, rfl⟩ | ⟨s, _, rfl⟩) | ⟨s, _, rfl⟩) | ⟨s, _, rfl⟩) | ⟨s, _, rfl⟩) | ⟨s, _, rfl | rfl⟩) |
    ⟨s, _, rfl⟩) | ⟨s, _, rfl | rfl⟩) | ⟨s, _, rfl⟩
  · exact ⟨s, Or.inl rfl⟩
  · exact ⟨s, Or.inl rfl⟩
  · exact ⟨s, Or.inl rfl⟩
  · exact ⟨s, Or.inl rfl⟩
  · exact ⟨s, Or.inl rfl⟩
  · exact ⟨s, Or.inl rfl⟩
  · exact ⟨s, Or.inr rfl⟩
  · exact ⟨s, Or.inl rfl⟩
  · exact ⟨s, Or.inl rfl⟩
  · exact ⟨s, Or.inr rfl⟩
  · exact ⟨s, Or.inl rfl⟩

/-- the save files the model construction reads are complete -/
def SavesOK (cfg : Cfg) (fs : FS) : Prop :=
  fs.good .info = true ∧ ∀ c ∈ cfg.chrs, fs.good (.multimap c) = true ∧ fs.good (.save c) = true

theorem savesOK_of_lock {cfg : Cfg} {fs : FS} (h : J cfg fs) (hlock : fs.has .lock = true) : SavesOK cfg fs := by
  have hgl := h.2 .lock hlock
  refine ⟨hgl .info (by simp [guarded]), fun c hc => ⟨?_, ?_⟩⟩
  · exact hgl _ (by simp only [guarded, List.mem_cons, List.mem_flatMap, List.not_mem_nil, or_false]; exact Or.inr ⟨c, hc, Or.inl rfl⟩)
  · exact hgl _ (by simp only [guarded, List.mem_cons, List.mem_flatMap, List.not_mem_nil, or_false]; exact Or.inr ⟨c, hc, Or.inr rfl⟩)

theorem savesOK_frame {cfg : Cfg} {fs fs' : FS} (h : SavesOK cfg fs) (hi : fs' .info = fs .info)
    (hm : ∀ c, fs' (.multimap c) = fs (.multimap c)) (hs : ∀ c, fs' (.save c) = fs (.save c)) : SavesOK cfg fs' := by
  refine ⟨by simp only [FS.good, hi]; exact h.1, fun c hc => ⟨?_, ?_⟩⟩
  · simp only [FS.good, hm]; exact (h.2 c hc).1
  · simp only [FS.good, hs]; exact (h.2 c hc).2

theorem constructPre_stage {cfg : Cfg} {fs : FS} (h : J cfg fs) (hsv : SavesOK cfg fs) :
    Good cfg fs (runActs (constructPre cfg fs) fs) ∧
      (∀ p, Tfin p = false → (runActs (constructPre cfg fs) fs).fs p = fs p) := by
  unfold constructPre
  have hinfo : fs.good .info = true := hsv.1
  have hck : ChecksOK (Act.exist .info :: evs (aggInit cfg (finalOf cfg) Path.finalLin)) fs :=
    ⟨good_has hinfo, checks_evs _ _⟩
  have hev : eventsOf (Act.exist .info :: evs (aggInit cfg (finalOf cfg) Path.finalLin)) = aggInit cfg (finalOf cfg) Path.finalLin := by
    simp [eventsOf]
  have h1 : AllP (J cfg) fs (aggInit cfg (finalOf cfg) Path.finalLin) := by
    apply allJ_of_bodyOK (L := []) h
    · simp only [bodyOK, List.all_eq_true]
      intro e he; obtain ⟨s, rfl | rfl⟩ := mem_aggInit he
      · rcases finalOf_cases cfg s with e | e <;> simp [Ev.path, e, isLock, locksOf]
      · simp [Ev.path, isLock, locksOf]
    · intro l hl; simp at hl
  obtain ⟨hgood, hfs⟩ := good_of_checks hck (by rw [hev]; exact h1)
  rw [hev] at hfs
  refine ⟨hgood, fun p hp => ?_⟩
  rw [hfs]
  apply frame Tfin _ hp
  simp only [List.all_eq_true]
  intro e he; obtain ⟨s, rfl | rfl⟩ := mem_aggInit he
  · exact Tfin_finalOf cfg s
  · rfl

/-- the files a task opens before it reads the save file (aggregator, GFF printers, its own SQANTI-like printer) -/
def constructHead (cfg : Cfg) (c : Chr) : List Ev :=
  aggInit cfg (fun s => .part s c) (fun s => .partLin s c) ++ (sqStreams cfg).map (fun s => Ev.create (.part s c))

/-- what the recomputation of chromosome `c` writes after it read the save file, up to (excluding) the `_processed` lock -/
def constructTail (cfg : Cfg) (c : Chr) (t : Tok) : List Ev :=
  (ungroupedGlobal cfg).flatMap (dumpUngrouped c t) ++ (profileGlobal cfg).flatMap (dumpProfile c t)
            ++ (groupedGlobal cfg).flatMap (dumpGrouped c t) ++ (profileGrouped cfg).flatMap (dumpProfile c t)
            ++ [.create (.readStat c), .commit (.readStat c) t]
            ++ (modelUngrouped cfg).flatMap (dumpUngrouped c t) ++ (modelGrouped cfg).flatMap (dumpGrouped c t)
            ++ (trStatPaths cfg c).flatMap (fun p => [Ev.create p, Ev.commit p t])
            ++ (printerStreams cfg).map (fun s => Ev.commit (.part s c) t)

/-- the events of the recomputation of chromosome `c` up to (excluding) the `_processed` lock -/
def constructBody (cfg : Cfg) (c : Chr) (t : Tok) : List Ev := constructHead cfg c ++ constructTail cfg c t

theorem filter_const_true {α : Type} (l : List α) : l.filter (fun _ => true) = l := by
  induction l with
  | nil => rfl
  | cons a l ih => simp [ih]

theorem filter_const_false {α : Type} (l : List α) : l.filter (fun _ => false) = [] := by
  induction l with
  | nil => rfl
  | cons a l ih => simp [ih]

/-- the recomputation branch of a task of the repaired code -/
theorem constructChr_fixed (cfg : Cfg) (rs : Bool) (c : Chr) (fs : FS) (hb : (rs && fs.has (.processed c)) = false) :
    constructChr fixed cfg rs c fs =
      Act.load (.multimap c) :: evs (constructHead cfg c) ++ [Act.load (.save c)] ++
        evs (constructTail cfg c (tokOf (fs.good .info && refOK cfg fs)) ++ [Ev.create (.processed c)]) := by
  simp [constructChr, hb, fixed, constructHead, constructTail, filter_const_true, filter_const_false]

/-- paths written by the model construction of chromosome `c` -/
def Tcon (c : Chr) : Path → Bool
  | .part _ c' => c' == c
  | .partLin _ c' => c' == c
  | .partStats _ c' => c' == c
  | .readStat c' => c' == c
  | .trStat c' => c' == c
  | .processed c' => c' == c
  | _ => false

set_option maxRecDepth 4000 in
theorem constructBody_good (cfg : Cfg) (c : Chr) (fs : FS) :
    ∀ d ∈ chrOutputs cfg c, (applyAll fs (constructBody cfg c .good)).good d = true := by
  rw [← List.all_eq_true]
  rcases cfg with ⟨chrs, mchrs, bchrs, genedb, rg, keepTmp, unmapped, fromSaves, sqanti, carried, countExons, noModel, gz, hm⟩
  cases genedb <;> cases rg <;> cases sqanti <;> cases countExons <;> cases noModel <;>
    simp [chrOutputs, constructBody, constructHead, constructTail, sqStreams, sqOn, aggInit, printerStreams, aggPrinters, gffStreams, ungrouped, grouped, ungroupedGlobal,
          groupedGlobal, modelGrouped, modelUngrouped, profile, profileGlobal, profileGrouped, trStatPaths, dumpUngrouped, dumpGrouped, dumpProfile,
          applyAll, apply, FS.set, FS.good, Ev.path, Ev.val]

set_option maxRecDepth 4000 in
theorem constructBody_ok (cfg : Cfg) (c : Chr) (t : Tok) : bodyOK [.processed c] (constructBody cfg c t) = true := by
  rcases cfg with ⟨chrs, mchrs, bchrs, genedb, rg, keepTmp, unmapped, fromSaves, sqanti, carried, countExons, noModel, gz, hm⟩
  cases genedb <;> cases rg <;> cases sqanti <;> cases countExons <;> cases noModel <;>
    simp [bodyOK, constructBody, constructHead, constructTail, sqStreams, sqOn, aggInit, printerStreams, aggPrinters, gffStreams, ungroupedGlobal,
          groupedGlobal, modelGrouped, modelUngrouped, profileGlobal, profileGrouped, trStatPaths, dumpUngrouped, dumpGrouped, dumpProfile,
          isLock, locksOf, Ev.path]

set_option maxRecDepth 4000 in
theorem constructBody_T (cfg : Cfg) (c : Chr) (t : Tok) : (constructBody cfg c t).all (fun e => Tcon c e.path) = true := by
  rcases cfg with ⟨chrs, mchrs, bchrs, genedb, rg, keepTmp, unmapped, fromSaves, sqanti, carried, countExons, noModel, gz, hm⟩
  cases genedb <;> cases rg <;> cases sqanti <;> cases countExons <;> cases noModel <;>
    simp [constructBody, constructHead, constructTail, sqStreams, sqOn, aggInit, printerStreams, aggPrinters, gffStreams, ungroupedGlobal,
          groupedGlobal, modelGrouped, modelUngrouped, profileGlobal, profileGrouped, trStatPaths, dumpUngrouped, dumpGrouped, dumpProfile,
          Tcon, Ev.path]

theorem readStat_mem_chrOutputs (cfg : Cfg) (c : Chr) : Path.readStat c ∈ chrOutputs cfg c := by simp [chrOutputs]
theorem trStat_mem_chrOutputs (cfg : Cfg) (c : Chr) : ∀ p ∈ trStatPaths cfg c, p ∈ chrOutputs cfg c := by
  intro p hp; simp only [chrOutputs, List.mem_append, List.mem_cons]; exact Or.inr (Or.inr hp)

theorem checks_loads_nil {ps : List Path} {fs : FS} (h : ∀ p ∈ ps, fs.good p = true) : ChecksOK (ps.map Act.load) fs := by
  induction ps with
  | nil => trivial
  | cons p ps ih => exact ⟨h p (by simp), ih (fun q hq => h q (by simp [hq]))⟩

theorem eventsOf_loads_nil (ps : List Path) : eventsOf (ps.map Act.load) = [] := by
  induction ps with
  | nil => rfl
  | cons p ps ih => simpa [eventsOf] using ih

theorem constructChr_stage {cfg : Cfg} (rs : Bool) {fs : FS} (h : J cfg fs) {c : Chr} (hc : c ∈ cfg.chrs)
    (hsv : SavesOK cfg fs) (hnp : rs = false → fs.has (.processed c) = false) (href : refOK cfg fs = true) :
    Good cfg fs (runActs (constructChr fixed cfg rs c fs) fs) ∧
      (runActs (constructChr fixed cfg rs c fs) fs).fs.has (.processed c) = true ∧
      (∀ p, Tcon c p = false → (runActs (constructChr fixed cfg rs c fs) fs).fs p = fs p) := by
  have hinfo : fs.good .info = true := hsv.1
  have hmm : fs.good (.multimap c) = true := (hsv.2 c hc).1
  have hsave : fs.good (.save c) = true := (hsv.2 c hc).2
  by_cases hb : (rs && fs.has (.processed c)) = true
  · simp only [constructChr, hb, if_true]
    simp only [Bool.and_eq_true] at hb
    have hg := h.2 (.processed c) hb.2
    simp only [guarded, hc, if_true] at hg
    have hck : ChecksOK ([Act.load (.multimap c), Act.load (.readStat c)] ++ (trStatPaths cfg c).map Act.load) fs :=
      ⟨hmm, hg _ (readStat_mem_chrOutputs cfg c), checks_loads_nil (fun p hp => hg _ (trStat_mem_chrOutputs cfg c p hp))⟩
    have hev0 : eventsOf ([Act.load (.multimap c), Act.load (.readStat c)] ++ (trStatPaths cfg c).map Act.load) = [] := by
      simp [eventsOf, eventsOf_loads_nil]
    obtain ⟨hgood, hfs⟩ := good_of_checks hck (by rw [hev0]; exact h)
    simp only [hev0, applyAll] at hfs
    exact ⟨hgood, by rw [hfs]; exact hb.2, fun p _ => by rw [hfs]⟩
  · have hb' : (rs && fs.has (.processed c)) = false := by simpa using hb
    have hnproc : fs.has (.processed c) = false := by
      cases rs with
      | false => exact hnp rfl
      | true => simpa using hb
    rw [constructChr_fixed cfg rs c fs hb']
    have ht : tokOf (fs.good .info && refOK cfg fs) = .good := by simp [tokOf, hinfo, href]
    rw [ht]
    generalize hA : constructHead cfg c = A
    generalize hX : constructTail cfg c .good = X
    have hbody : constructBody cfg c .good = A ++ X := by subst hA; subst hX; rfl
    have hAT : A.all (fun e => Tcon c e.path) = true := by
      have := constructBody_T cfg c .good; rw [hbody, List.all_append, Bool.and_eq_true] at this; exact this.1
    have hck : ChecksOK (Act.load (.multimap c) :: evs A ++ [Act.load (.save c)] ++ evs (X ++ [Ev.create (.processed c)])) fs := by
      refine ⟨hmm, ?_⟩
      show ChecksOK ((evs A ++ [Act.load (.save c)]) ++ evs (X ++ [Ev.create (.processed c)])) fs
      rw [checks_append, checks_append]
      refine ⟨⟨checks_evs _ _, ?_, trivial⟩, checks_evs _ _⟩
      simp only [eventsOf_evs, FS.good]; rw [frame (Tcon c) hAT rfl]; exact hsave
    have hev : eventsOf (Act.load (.multimap c) :: evs A ++ [Act.load (.save c)] ++ evs (X ++ [Ev.create (.processed c)]))
        = constructBody cfg c .good ++ [Ev.create (.processed c)] := by
      simp [eventsOf, eventsOf_append, hbody]
    have h1 : AllP (J cfg) fs (constructBody cfg c .good) := by
      apply allJ_of_bodyOK (L := [.processed c]) h (constructBody_ok cfg c .good)
      intro l hl; simp only [List.mem_cons, List.not_mem_nil, or_false] at hl; subst hl; exact hnproc
    have h2 : AllP (J cfg) (applyAll fs (constructBody cfg c .good)) [Ev.create (.processed c)] := by
      apply AllP_single (AllP_last h1)
      apply J_create_lock (AllP_last h1) rfl
      intro d hd
      simp only [guarded, hc, if_true] at hd
      exact constructBody_good cfg c fs d hd
    obtain ⟨hgood, hfs⟩ := good_of_checks hck (by rw [hev, AllP_append]; exact ⟨h1, h2⟩)
    rw [hev] at hfs
    refine ⟨hgood, ?_, fun p hp => ?_⟩
    · rw [hfs, applyAll_append]; simp [applyAll, apply, FS.has, Ev.path, Ev.val]
    · rw [hfs]
      apply frame (Tcon c) _ hp
      rw [List.all_append, constructBody_T]; simp [Tcon, Ev.path]


theorem construct_loop {cfg : Cfg} (rs : Bool) (cs : List Chr) (hsub : ∀ c ∈ cs, c ∈ cfg.chrs) (nd : cs.Nodup)
    {fs : FS} (h : J cfg fs) (hsv : SavesOK cfg fs)
    (hnp : rs = false → ∀ c ∈ cs, fs.has (.processed c) = false) (href : refOK cfg fs = true) :
    Good cfg fs (runStages (cs.map (constructChr fixed cfg rs)) fs) ∧
      (∀ c ∈ cs, (runStages (cs.map (constructChr fixed cfg rs)) fs).fs.has (.processed c) = true) ∧
      (∀ p, (∀ c ∈ cs, Tcon c p = false) → (runStages (cs.map (constructChr fixed cfg rs)) fs).fs p = fs p) := by
  induction cs generalizing fs with
  | nil => exact ⟨⟨rfl, h⟩, fun c hc => by simp at hc, fun _ _ => rfl⟩
  | cons c cs ih =>
    have nd' := List.nodup_cons.mp nd
    obtain ⟨g1, p1, f1⟩ := constructChr_stage rs h (hsub c (by simp)) hsv (fun e => hnp e c (by simp)) href
    have href' : refOK cfg (runActs (constructChr fixed cfg rs c fs) fs).fs = true := by
      rw [refOK_frame (f1 _ rfl) (f1 _ rfl)]; exact href
    have hne : ∀ c' ∈ cs, c' ≠ c := fun c' hc' e => nd'.1 (e ▸ hc')
    have hsv' : SavesOK cfg (runActs (constructChr fixed cfg rs c fs) fs).fs :=
      savesOK_frame hsv (f1 _ rfl) (fun _ => f1 _ rfl) (fun _ => f1 _ rfl)
    have hnp' : rs = false → ∀ c' ∈ cs, (runActs (constructChr fixed cfg rs c fs) fs).fs.has (.processed c') = false := by
      intro e c' hc'
      simp only [FS.has]; rw [f1 _ (by simp [Tcon, hne c' hc'])]
      exact hnp e c' (by simp [hc'])
    obtain ⟨g2, p2, f2⟩ := ih (fun c' hc' => hsub c' (by simp [hc'])) nd'.2 (good_J_acts g1) hsv' hnp' href'
    simp only [List.map_cons]
    obtain ⟨g, hfs⟩ := good_cons g1 g2
    refine ⟨g, ?_, ?_⟩
    · intro c' hc'
      rw [hfs]
      simp only [List.mem_cons] at hc'
      rcases hc' with rfl | hc'
      · simp only [FS.has]
        rw [f2 _ (fun c'' hc'' => by simp [Tcon]; exact fun e => nd'.1 (e ▸ hc''))]
        exact p1
      · exact p2 c' hc'
    · intro p hp
      rw [hfs, f2 p (fun c' hc' => hp c' (by simp [hc'])), f1 p (hp c (by simp))]

/-- the `_processed` locks are dropped before merging -/
theorem drop_stage {cfg : Cfg} (wf : WF cfg) {fs : FS} (h : J cfg fs) :
    Good cfg fs (runActs (dropStage fixed cfg fs) fs) ∧
      (∀ c ∈ cfg.chrs, (runActs (dropStage fixed cfg fs) fs).fs.has (.processed c) = false) ∧
      (∀ p, (∀ c, p ≠ .processed c) → (runActs (dropStage fixed cfg fs) fs).fs p = fs p) := by
  unfold dropStage
  have hcond : (fixed.dropProcessed && (fixed.dropAtDumpPrefix || !cfg.fromSaves)) = true := by simp [fixed]
  rw [if_pos hcond]
  generalize hL : (cfg.chrs.filter (fun c => fs.has (.processed c))).map Path.processed = L
  have hnd : L.Nodup := by
    subst hL
    exact nodup_map_inj (List.Nodup.sublist List.filter_sublist wf.nd) (fun a b e => by injection e)
  have hmem : ∀ p, p ∈ L ↔ ∃ c ∈ cfg.chrs, fs.has (.processed c) = true ∧ p = .processed c := by
    subst hL; intro p; simp only [List.mem_map, List.mem_filter]
    constructor
    · rintro ⟨c, ⟨hc, hh⟩, rfl⟩; exact ⟨c, hc, hh, rfl⟩
    · rintro ⟨c, hc, hh, rfl⟩; exact ⟨c, ⟨hc, hh⟩, rfl⟩
  have hhas : ∀ p ∈ L, fs.has p = true := by
    intro p hp; obtain ⟨c, _, hh, rfl⟩ := (hmem p).mp hp; exact hh
  have hlk : ∀ p ∈ L, isLock p = true := by
    intro p hp; obtain ⟨c, _, _, rfl⟩ := (hmem p).mp hp; rfl
  obtain ⟨hg, hfs⟩ := good_of_checks (checks_rmAll hnd hhas) (by rw [eventsOf_rmAll]; exact allJ_removeLocks h hlk)
  rw [eventsOf_rmAll] at hfs
  refine ⟨hg, ?_, ?_⟩
  · intro c hc
    simp only [FS.has, hfs]
    cases hq : fs.has (.processed c) with
    | true => rw [applyAll_remove_mem ((hmem _).mpr ⟨c, hc, hq, rfl⟩)]; rfl
    | false =>
      rw [applyAll_remove_not_mem]
      · simpa [FS.has] using hq
      · intro hm; obtain ⟨c', _, hh, e⟩ := (hmem _).mp hm; injection e with e; subst e; simp [hq] at hh
  · intro p hp
    rw [hfs, applyAll_remove_not_mem]
    intro hm; obtain ⟨c, _, _, rfl⟩ := (hmem _).mp hm; exact hp c rfl

end IsoVerif.Lemmas.Resume
