import IsoVerif.Lemmas.Lists

/-!
`get_exon`, `get_preceding_exon_from_junctions`, `get_following_exon_from_junctions` on the junction list of a
gapped exon list, `extra_exon_percentage`, `truncate_read_to_polya`.
-/
namespace IsoVerif.Lemmas
open IsoVerif.Gen IsoVerif.Model

/-! ### Python indexing -/

theorem pyGet?_nat {α} (l : List α) (i : Nat) : pyGet? l (i : Int) = l[i]? := by
  simp [pyGet?]

theorem pyGet?_neg {α} (l : List α) (k : Nat) (h0 : 0 < k) (hk : k ≤ l.length) :
    pyGet? l (-(k : Int)) = l[l.length - k]? := by
  have h1 : ¬ (0 : Int) ≤ -(k : Int) := by omega
  have h2 : -(l.length : Int) ≤ -(k : Int) := by omega
  have h3 : ((l.length : Int) + -(k : Int)).toNat = l.length - k := by omega
  simp only [pyGet?, h1, h2, if_true, if_false, h3]

/-! ### the junctions of a gapped exon list -/

theorem Gapped_tail {a : Iv} {l : List Iv} (h : Gapped (a :: l)) : Gapped l := by
  cases l with
  | nil => trivial
  | cons b t => exact h.2.2

theorem junctions_length (ex : List Iv) (h : Gapped ex) : (junctionsFromBlocks ex).length = ex.length - 1 := by
  induction ex with
  | nil => rfl
  | cons a t ih =>
    cases t with
    | nil => rfl
    | cons b t' =>
      have := ih h.2.2
      simp only [junctionsFromBlocks, h.2.1, if_true, List.length_cons] at this ⊢
      omega

/-- the `k`-th junction is the gap between exon `k` and exon `k + 1` -/
theorem junctions_getElem (ex : List Iv) (h : Gapped ex) (k : Nat) (a b : Iv)
    (ha : ex[k]? = some a) (hb : ex[k + 1]? = some b) :
    (junctionsFromBlocks ex)[k]? = some (a.2 + 1, b.1 - 1) := by
  induction ex generalizing k with
  | nil => simp at ha
  | cons x t ih =>
    cases t with
    | nil => simp at hb
    | cons y t' =>
      simp only [junctionsFromBlocks, h.2.1, if_true]
      cases k with
      | zero => simp at ha hb; subst ha; subst hb; rfl
      | succ k =>
        simp only [List.getElem?_cons_succ] at ha hb ⊢
        exact ih h.2.2 k ha hb

theorem Gapped_wf (ex : List Iv) (h : Gapped ex) : WFl ex := by
  induction ex with
  | nil => intro r hr; cases hr
  | cons a t ih =>
    cases t with
    | nil => intro r hr; simp at hr; subst hr; exact h
    | cons b t' =>
      intro r hr
      rcases List.mem_cons.mp hr with rfl | hr'
      · exact h.1
      · exact ih h.2.2 r hr'

/-! ### the three branches of `get_exon` -/

theorem getExon_first (region : Iv) (J : List Iv) (j : Iv) (hJ : J[0]? = some j) :
    getExon region J 0 = some (region.1, j.1 - 1) := by
  have hp : ¬ ((0 : Int) > (J.length : Int)) := by omega
  have h0 : pyGet? J 0 = some j := by rw [← hJ]; exact pyGet?_nat J 0
  simp [getExon, h0]

theorem getExon_last (region : Iv) (J : List Iv) (j : Iv) (hpos : 0 < J.length) (hJ : J[J.length - 1]? = some j) :
    getExon region J (J.length : Int) = some (j.2 + 1, region.2) := by
  have h1 : pyGet? J (-1) = some j := by
    have := pyGet?_neg J 1 (by omega) (by omega)
    rw [← hJ]; simpa using this
  have h2 : ¬ ((J.length : Int) = 0) := by omega
  have h3 : ¬ ((J.length : Int) < 0) := by omega
  have h4 : ¬ ((J.length : Int) > (J.length : Int)) := by omega
  simp only [getExon, h1, h2, h3, h4, if_false, if_true, Option.map_some]

theorem getExon_mid (region : Iv) (J : List Iv) (i : Nat) (x y : Iv) (hi0 : 0 < i)
    (hx : J[i - 1]? = some x) (hy : J[i]? = some y) :
    getExon region J (i : Int) = some (x.2 + 1, y.1 - 1) := by
  have hlen : i < J.length := (List.getElem?_eq_some_iff.mp hy).1
  have h1 : ¬ ((i : Int) > (J.length : Int)) := by omega
  have h2 : ¬ ((i : Int) < 0) := by omega
  have h3 : ¬ ((i : Int) = 0) := by omega
  have h4 : ¬ ((i : Int) = (J.length : Int)) := by omega
  have e : (i : Int) - 1 = ((i - 1 : Nat) : Int) := by omega
  have hx' : pyGet? J ((i : Int) - 1) = some x := by rw [e, pyGet?_nat]; exact hx
  have hy' : pyGet? J (i : Int) = some y := by rw [pyGet?_nat]; exact hy
  simp only [getExon, h1, h2, h3, h4, if_false, hx', hy']

/-- `get_exon` with the negative-index convention: position `−k` (1 ≤ k ≤ n + 1) is position `n + 1 − k` -/
theorem getExon_neg (region : Iv) (J : List Iv) (k : Nat) (h0 : 0 < k) (hk : k ≤ J.length + 1) :
    getExon region J (-(k : Int)) = getExon region J ((J.length + 1 - k : Nat) : Int) := by
  have h1 : ¬ (-(k : Int) > (J.length : Int)) := by omega
  have h2 : (-(k : Int) < 0) := by omega
  have h3 : ¬ (((J.length + 1 - k : Nat) : Int) > (J.length : Int)) := by omega
  have h4 : ¬ (((J.length + 1 - k : Nat) : Int) < 0) := by omega
  have e : (J.length : Int) + -(k : Int) + 1 = ((J.length + 1 - k : Nat) : Int) := by omega
  simp only [getExon, h1, h2, h3, h4, if_true, if_false, e]

/-- exon `i` of a gapped exon list, recovered from its junctions -/
theorem getExon_junctions (ex : List Iv) (f t : Iv) (h : Gapped ex) (hf : ex.head? = some f) (ht : ex.getLast? = some t)
    (h2 : 2 ≤ ex.length) (i : Nat) (hi : i < ex.length) :
    getExon (f.1, t.2) (junctionsFromBlocks ex) (i : Int) = ex[i]? := by
  have hn := junctions_length ex h
  have hf0 : ex[0]? = some f := by rw [← List.head?_eq_getElem?]; exact hf
  have hlast := getElem?_last ex t ht
  by_cases hi0 : i = 0
  · subst hi0
    obtain ⟨b, hb⟩ : ∃ b, ex[1]? = some b := ⟨ex[1], List.getElem?_eq_getElem (by omega)⟩
    have hj := junctions_getElem ex h 0 f b hf0 hb
    have := getExon_first (f.1, t.2) _ _ hj
    simp only [Int.natCast_zero] at this ⊢
    rw [this, hf0]
    congr 1; ext <;> simp
  · by_cases hil : i = ex.length - 1
    · obtain ⟨a, ha⟩ : ∃ a, ex[ex.length - 2]? = some a := ⟨ex[ex.length - 2], List.getElem?_eq_getElem (by omega)⟩
      have hlast' : ex[ex.length - 2 + 1]? = some t := by
        have : ex.length - 2 + 1 = ex.length - 1 := by omega
        rw [this]; exact hlast
      have hj := junctions_getElem ex h (ex.length - 2) a t ha hlast'
      have hj' : (junctionsFromBlocks ex)[(junctionsFromBlocks ex).length - 1]? = some (a.2 + 1, t.1 - 1) := by
        rw [hn]; have : ex.length - 1 - 1 = ex.length - 2 := by omega
        rw [this]; exact hj
      have := getExon_last (f.1, t.2) _ _ (by omega) hj'
      rw [hn] at this
      rw [hil, this, hlast]
      congr 1; ext <;> simp
    · obtain ⟨a, ha⟩ : ∃ a, ex[i - 1]? = some a := ⟨ex[i - 1], List.getElem?_eq_getElem (by omega)⟩
      obtain ⟨b, hb⟩ : ∃ b, ex[i]? = some b := ⟨ex[i], List.getElem?_eq_getElem hi⟩
      obtain ⟨c, hc⟩ : ∃ c, ex[i + 1]? = some c := ⟨ex[i + 1], List.getElem?_eq_getElem (by omega)⟩
      have hb' : ex[i - 1 + 1]? = some b := by
        have : i - 1 + 1 = i := by omega
        rw [this]; exact hb
      have hj1 := junctions_getElem ex h (i - 1) a b ha hb'
      have hj2 := junctions_getElem ex h i b c hb hc
      rw [getExon_mid (f.1, t.2) _ i _ _ (by omega) hj1 hj2, hb]
      congr 1; ext <;> simp

/-! ### preceding / following exon of an intron -/

theorem getPrecedingExon_junctions (ex : List Iv) (f t : Iv) (h : Gapped ex) (hf : ex.head? = some f)
    (ht : ex.getLast? = some t) (i : Nat) (hi : i < ex.length) :
    getPrecedingExon (f.1, t.2) (junctionsFromBlocks ex) (i : Int) = ex[i]? := by
  have hn := junctions_length ex h
  have hf0 : ex[0]? = some f := by rw [← List.head?_eq_getElem?]; exact hf
  have hlast := getElem?_last ex t ht
  have h1 : ¬ ((i : Int) > ((junctionsFromBlocks ex).length : Int)) := by omega
  obtain ⟨b, hb⟩ : ∃ b, ex[i]? = some b := ⟨ex[i], List.getElem?_eq_getElem hi⟩
  -- the start of the exon
  have hstart : (if (i : Int) = 0 then some (f.1, t.2).1
      else (pyGet? (junctionsFromBlocks ex) ((i : Int) - 1)).map (fun j => j.2 + 1)) = some b.1 := by
    by_cases hi0 : i = 0
    · subst hi0; rw [hf0] at hb; injection hb with hb; subst hb; simp
    · have h3 : ¬ ((i : Int) = 0) := by omega
      obtain ⟨a, ha⟩ : ∃ a, ex[i - 1]? = some a := ⟨ex[i - 1], List.getElem?_eq_getElem (by omega)⟩
      have hb' : ex[i - 1 + 1]? = some b := by
        have : i - 1 + 1 = i := by omega
        rw [this]; exact hb
      have hj1 := junctions_getElem ex h (i - 1) a b ha hb'
      have e : (i : Int) - 1 = ((i - 1 : Nat) : Int) := by omega
      simp only [h3, if_false, e, pyGet?_nat, hj1, Option.map_some]
      congr 1; omega
  simp only [getPrecedingExon, h1, if_false, hstart]
  by_cases hil : i = ex.length - 1
  · have h4 : (i : Int) = ((junctionsFromBlocks ex).length : Int) := by omega
    simp only [h4, if_true]
    rw [hb]
    have : b = t := by rw [hil, hlast] at hb; injection hb with hb; exact hb.symm
    subst this; rfl
  · have h4 : ¬ ((i : Int) = ((junctionsFromBlocks ex).length : Int)) := by omega
    obtain ⟨c, hc⟩ : ∃ c, ex[i + 1]? = some c := ⟨ex[i + 1], List.getElem?_eq_getElem (by omega)⟩
    have hj2 := junctions_getElem ex h i b c hb hc
    simp only [h4, if_false, pyGet?_nat, hj2, Option.map_some, hb]
    congr 1; ext <;> simp

theorem getFollowingExon_junctions (ex : List Iv) (f t : Iv) (h : Gapped ex) (hf : ex.head? = some f)
    (ht : ex.getLast? = some t) (i : Nat) (hi : i + 1 < ex.length) :
    getFollowingExon (f.1, t.2) (junctionsFromBlocks ex) (i : Int) = ex[i + 1]? := by
  have hn := junctions_length ex h
  have hlast := getElem?_last ex t ht
  obtain ⟨a, ha⟩ : ∃ a, ex[i]? = some a := ⟨ex[i], List.getElem?_eq_getElem (by omega)⟩
  obtain ⟨b, hb⟩ : ∃ b, ex[i + 1]? = some b := ⟨ex[i + 1], List.getElem?_eq_getElem hi⟩
  have hj := junctions_getElem ex h i a b ha hb
  have hne : ¬ ((i : Int) = -1) := by omega
  by_cases hil : i + 1 = ex.length - 1
  · have h4 : (i : Int) = ((junctionsFromBlocks ex).length : Int) - 1 := by omega
    have : b = t := by rw [hil, hlast] at hb; injection hb with hb; exact hb.symm
    subst this
    simp only [getFollowingExon, h4, true_or, if_true]
    rw [← h4, pyGet?_nat, hj, hb]
    congr 1; ext <;> simp
  · have h4 : ¬ ((i : Int) = ((junctionsFromBlocks ex).length : Int) - 1) := by omega
    obtain ⟨c, hc⟩ : ∃ c, ex[i + 1 + 1]? = some c := ⟨ex[i + 1 + 1], List.getElem?_eq_getElem (by omega)⟩
    have hj2 := junctions_getElem ex h (i + 1) b c hb hc
    have e : (i : Int) + 1 = ((i + 1 : Nat) : Int) := by omega
    simp only [getFollowingExon, h4, hne, or_self, if_false, e, pyGet?_nat, hj, hj2, Option.map_some, hb]
    congr 1; ext <;> simp

/-! ### extra_exon_percentage -/

theorem extraExonLoop_eq (reg : Iv) (exons : List Iv) (w : WFl exons) :
    extraExonLoop reg exons =
      ((exons.map (fun e => lenBelow e reg.1 + lenAbove e reg.2)).sum, intervalsTotalLength exons) := by
  induction exons with
  | nil => rfl
  | cons a t ih =>
    have ha := WFl_head w
    simp only [extraExonLoop, ih (WFl_tail w), List.map_cons, List.sum_cons, intervalsTotalLength, interval_len,
      lenBelow, lenAbove]
    ext
    · simp only; split <;> split <;> omega
    · simp only; omega

theorem total_length_pos (l : List Iv) (w : WFl l) (hne : l ≠ []) : 0 < intervalsTotalLength l := by
  induction l with
  | nil => exact absurd rfl hne
  | cons a t ih =>
    have ha := WFl_head w
    simp only [intervalsTotalLength, interval_len]
    cases t with
    | nil => simp [intervalsTotalLength]; omega
    | cons b t' => have := ih (WFl_tail w) (by simp); omega

end IsoVerif.Lemmas
