/-
Helper lemmas for C16 (CIGAR walk): the loop state of `get_read_blocks` after any prefix `pre ++ seg`
(`seg` the currently open separator-free run) is a closed-form function of `(pre, seg)` (`absState`);
one loop iteration maps abstract states to abstract states (`step_nonsep`, `step_sep`).
-/
import IsoVerif.Model.Cigar

namespace IsoVerif.Lemmas.C16
open IsoVerif.Gen IsoVerif.Model IsoVerif.Model.C16

/-- all operation lengths are non-negative (BAM stores them as unsigned 28-bit numbers) -/
def NonNeg (ops : List CigarOp) : Prop := ∀ o ∈ ops, 0 ≤ o.2
/-- all operation lengths are positive (SAM: a CIGAR operation has length ≥ 1) -/
def Pos (ops : List CigarOp) : Prop := ∀ o ∈ ops, 0 < o.2
/-- no `N`/`S` -/
def SepFree (seg : List CigarOp) : Prop := ∀ o ∈ seg, isSep o.1 = false

theorem refLen_nil : refLen [] = 0 := rfl
theorem queryLen_nil : queryLen [] = 0 := rfl
theorem refLen_cons (o : CigarOp) (l : List CigarOp) :
    refLen (o :: l) = (if consumesRef o.1 then o.2 else 0) + refLen l := by simp [refLen]
theorem queryLen_cons (o : CigarOp) (l : List CigarOp) :
    queryLen (o :: l) = (if consumesQuery o.1 then o.2 else 0) + queryLen l := by simp [queryLen]
theorem refLen_append (a b : List CigarOp) : refLen (a ++ b) = refLen a + refLen b := by
  simp [refLen, List.sum_append]
theorem queryLen_append (a b : List CigarOp) : queryLen (a ++ b) = queryLen a + queryLen b := by
  simp [queryLen, List.sum_append]

theorem refLen_nonneg {l : List CigarOp} (h : NonNeg l) : 0 ≤ refLen l := by
  induction l with
  | nil => simp [refLen_nil]
  | cons o l ih =>
    have h1 : 0 ≤ o.2 := h o (by simp)
    have h2 := ih (fun x hx => h x (by simp [hx]))
    rw [refLen_cons]; split <;> omega

theorem queryLen_nonneg {l : List CigarOp} (h : NonNeg l) : 0 ≤ queryLen l := by
  induction l with
  | nil => simp [queryLen_nil]
  | cons o l ih =>
    have h1 : 0 ≤ o.2 := h o (by simp)
    have h2 := ih (fun x hx => h x (by simp [hx]))
    rw [queryLen_cons]; split <;> omega

/-- a separator-free run without block operations (only `H`/`P`) consumes nothing -/
theorem no_block_consumes_nothing {seg : List CigarOp} (hs : SepFree seg)
    (hb : seg.any (fun o => isBlockOp o.1) = false) : refLen seg = 0 ∧ queryLen seg = 0 := by
  induction seg with
  | nil => simp [refLen_nil, queryLen_nil]
  | cons o l ih =>
    have hso : isSep o.1 = false := hs o (by simp)
    have hl := ih (fun x hx => hs x (by simp [hx])) (by simp at hb ⊢; exact fun a b h => hb.2 a b h)
    have hbo : isBlockOp o.1 = false := by simp at hb; exact hb.1
    rw [refLen_cons, queryLen_cons]
    obtain ⟨k, n⟩ := o
    cases k <;> simp_all [isSep, isBlockOp, isAligned, consumesRef, consumesQuery]

theorem findIdx_of_none {α} (p : α → Bool) (l : List α) (h : l.any p = false) : l.findIdx p = l.length := by
  induction l with
  | nil => rfl
  | cons a l ih =>
    have h1 : p a = false := by simp at h; exact h.1
    have h2 : l.any p = false := by simp at h ⊢; exact h.2
    simp [List.findIdx_cons, h1, ih h2]

theorem findIdx_append_of_any {α} (p : α → Bool) (l m : List α) (h : l.any p = true) :
    (l ++ m).findIdx p = l.findIdx p := by
  induction l with
  | nil => simp at h
  | cons a l ih =>
    by_cases ha : p a = true
    · simp [List.findIdx_cons, ha]
    · have : l.any p = true := by simpa [ha] using h
      simp [List.findIdx_cons, ha, ih this]

/-- the open run contains a block operation (`M = X I D`) -/
def segHasBlock (seg : List CigarOp) : Bool := seg.any (fun o => isBlockOp o.1)
/-- index (inside the run) of its first block operation -/
def firstBlockIdx (seg : List CigarOp) : Nat := seg.findIdx (fun o => isBlockOp o.1)

theorem segHasBlock_nil : segHasBlock [] = false := rfl
theorem hasAligned_nil : hasAligned [] = false := rfl
theorem segHasBlock_snoc (seg : List CigarOp) (op : CigarOp) :
    segHasBlock (seg ++ [op]) = (segHasBlock seg || isBlockOp op.1) := by simp [segHasBlock]
theorem hasAligned_snoc (seg : List CigarOp) (op : CigarOp) :
    hasAligned (seg ++ [op]) = (hasAligned seg || isAligned op.1) := by simp [hasAligned]
theorem refLen_snoc (seg : List CigarOp) (op : CigarOp) :
    refLen (seg ++ [op]) = refLen seg + (if consumesRef op.1 then op.2 else 0) := by
  simp [refLen_append, refLen_cons, refLen_nil]
theorem queryLen_snoc (seg : List CigarOp) (op : CigarOp) :
    queryLen (seg ++ [op]) = queryLen seg + (if consumesQuery op.1 then op.2 else 0) := by
  simp [queryLen_append, queryLen_cons, queryLen_nil]
theorem firstBlockIdx_snoc_some (seg : List CigarOp) (op : CigarOp) (h : segHasBlock seg = true) :
    firstBlockIdx (seg ++ [op]) = firstBlockIdx seg := findIdx_append_of_any _ seg [op] h
theorem firstBlockIdx_snoc_none (seg : List CigarOp) (op : CigarOp) (h : segHasBlock seg = false)
    (ho : isBlockOp op.1 = true) : firstBlockIdx (seg ++ [op]) = seg.length := by
  have hfi := findIdx_of_none (fun o : CigarOp => isBlockOp o.1) seg h
  unfold firstBlockIdx
  rw [List.findIdx_append, hfi]
  simp [List.findIdx_cons, ho]

theorem hasAligned_imp_block {seg : List CigarOp} (h : hasAligned seg = true) : segHasBlock seg = true := by
  rw [hasAligned, List.any_eq_true] at h
  obtain ⟨o, hm, ha⟩ := h
  rw [segHasBlock, List.any_eq_true]
  exact ⟨o, hm, by simp [isBlockOp, ha]⟩

theorem hasAligned_false_of_no_block {seg : List CigarOp} (h : segHasBlock seg = false) : hasAligned seg = false := by
  cases h' : hasAligned seg with
  | false => rfl
  | true => rw [hasAligned_imp_block h'] at h; cases h

/-- closed form of the loop state after `pre ++ seg`, `seg` being the open separator-free run -/
def absState (s : Int) (pre seg : List CigarOp) (rb qb cb : List Iv) : RBState :=
  { readPos := queryLen pre + queryLen seg,
    refPos := s + 1 + refLen pre + refLen seg,
    idx := (pre.length : Int) + (seg.length : Int),
    cur := if segHasBlock seg then
             some (s + 1 + refLen pre, queryLen pre, (pre.length : Int) + (firstBlockIdx seg : Nat))
           else none,
    hasMatch := hasAligned seg,
    refBlocks := rb, readBlocks := qb, cigarBlocks := cb }

theorem rbInit_abs (s : Int) : rbInit s = absState s [] [] [] [] [] := by
  simp [rbInit, absState, refLen_nil, queryLen_nil, hasAligned_nil, segHasBlock_nil]

/-- a non-separator operation extends the open run -/
theorem step_nonsep (s : Int) (pre seg : List CigarOp) (rb qb cb : List Iv) (op : CigarOp)
    (hs : SepFree seg) (ho : isSep op.1 = false) :
    step (absState s pre seg rb qb cb) op = absState s pre (seg ++ [op]) rb qb cb := by
  obtain ⟨k, n⟩ := op
  cases hb : segHasBlock seg with
  | true =>
    have hf := firstBlockIdx_snoc_some seg (k, n) hb
    unfold absState
    rw [segHasBlock_snoc, hasAligned_snoc, refLen_snoc, queryLen_snoc, hf, hb]
    cases k <;>
      simp [step, stepBody, isSep, isBlockOp, isAligned, consumesRef, consumesQuery,
        CigarEvent.in_cigar_ins_del_match_events, CigarEvent.in_cigar_match_events, cigar_ins_del_match_events,
        cigar_match_events] at ho ⊢ <;> omega
  | false =>
    obtain ⟨hr, hq⟩ := no_block_consumes_nothing hs hb
    have hal := hasAligned_false_of_no_block hb
    unfold absState
    rw [segHasBlock_snoc, hasAligned_snoc, refLen_snoc, queryLen_snoc, hb, hal, hr, hq]
    have hf : isBlockOp k = true → firstBlockIdx (seg ++ [(k, n)]) = seg.length :=
      firstBlockIdx_snoc_none seg (k, n) hb
    cases k <;>
      simp [step, stepBody, isSep, isBlockOp, isAligned, consumesRef, consumesQuery,
        CigarEvent.in_cigar_ins_del_match_events, CigarEvent.in_cigar_match_events, cigar_ins_del_match_events,
        cigar_match_events] at ho hf ⊢ <;> omega

/-- a separator closes the open run: its contribution (if it has read support) is appended -/
theorem step_sep (s : Int) (pre seg : List CigarOp) (rb qb cb : List Iv) (op : CigarOp)
    (ho : isSep op.1 = true) (hpos : s + 1 + refLen pre ≠ 0) :
    step (absState s pre seg rb qb cb) op =
      absState s (pre ++ seg ++ [op]) [] (rb ++ (exonOf s (pre, seg)).toList)
        (qb ++ (queryBlockOf (pre, seg)).toList) (cb ++ (cigarBlockOf (pre, seg)).toList) := by
  obtain ⟨k, n⟩ := op
  have hfi : seg.findIdx (fun o : CigarOp => isBlockOp o.1) = firstBlockIdx seg := rfl
  unfold absState exonOf queryBlockOf cigarBlockOf
  simp only [refLen_cons, queryLen_cons, refLen_append, queryLen_append, refLen_nil, queryLen_nil, hasAligned_nil,
    segHasBlock_nil, hfi, List.length_append, List.length_nil, List.length_cons]
  cases ha : hasAligned seg with
  | true =>
    have hb := hasAligned_imp_block ha
    rw [hb]
    cases k <;>
      simp [step, stepBody, closeBlock, pushBlock, truthy, hpos, isSep, consumesRef, consumesQuery,
        CigarEvent.in_cigar_ins_del_match_events, CigarEvent.in_cigar_match_events, cigar_ins_del_match_events,
        cigar_match_events] at ho ⊢ <;> omega
  | false =>
    cases hb : segHasBlock seg <;> cases k <;>
      simp [step, stepBody, closeBlock, truthy, hpos, isSep, consumesRef, consumesQuery,
        CigarEvent.in_cigar_ins_del_match_events, CigarEvent.in_cigar_match_events, cigar_ins_del_match_events,
        cigar_match_events] at ho ⊢ <;> omega

theorem NonNeg_of_append_left {a b : List CigarOp} (h : NonNeg (a ++ b)) : NonNeg a :=
  fun o ho => h o (by simp [ho])

theorem start_pos {s : Int} {pre : List CigarOp} (hs : 0 ≤ s) (hp : NonNeg pre) : s + 1 + refLen pre ≠ 0 := by
  have := refLen_nonneg hp; omega

/-- the flush after the loop -/
theorem finish_abs (s : Int) (pre seg : List CigarOp) (rb qb cb : List Iv) (hpos : s + 1 + refLen pre ≠ 0) :
    (finish (absState s pre seg rb qb cb)).refBlocks = rb ++ (exonOf s (pre, seg)).toList ∧
    (finish (absState s pre seg rb qb cb)).readBlocks = qb ++ (queryBlockOf (pre, seg)).toList ∧
    (finish (absState s pre seg rb qb cb)).cigarBlocks = cb ++ (cigarBlockOf (pre, seg)).toList := by
  have hfi : seg.findIdx (fun o : CigarOp => isBlockOp o.1) = firstBlockIdx seg := rfl
  unfold absState exonOf queryBlockOf cigarBlockOf
  simp only [hfi]
  cases ha : hasAligned seg with
  | true =>
    have hb := hasAligned_imp_block ha
    rw [hb]
    simp [finish, pushBlock, truthy, hpos] <;> omega
  | false =>
    cases hb : segHasBlock seg <;> simp [finish, truthy]

/-- the whole loop from an abstract state: the remaining operations contribute exactly the cuts' blocks -/
theorem fold_abs (s : Int) (hs : 0 ≤ s) :
    ∀ (rest pre seg : List CigarOp) (rb qb cb : List Iv), SepFree seg → NonNeg (pre ++ seg ++ rest) →
      (finish (rest.foldl step (absState s pre seg rb qb cb))).refBlocks
          = rb ++ (cutsAux pre seg rest).filterMap (exonOf s) ∧
      (finish (rest.foldl step (absState s pre seg rb qb cb))).readBlocks
          = qb ++ (cutsAux pre seg rest).filterMap queryBlockOf ∧
      (finish (rest.foldl step (absState s pre seg rb qb cb))).cigarBlocks
          = cb ++ (cutsAux pre seg rest).filterMap cigarBlockOf := by
  intro rest
  induction rest with
  | nil =>
    intro pre seg rb qb cb _ hn
    have hpos := start_pos hs (NonNeg_of_append_left (NonNeg_of_append_left hn))
    have h := finish_abs s pre seg rb qb cb hpos
    simp only [List.foldl_nil, cutsAux, List.filterMap_cons, List.filterMap_nil]
    refine ⟨?_, ?_, ?_⟩
    · rw [h.1]; cases exonOf s (pre, seg) <;> rfl
    · rw [h.2.1]; cases queryBlockOf (pre, seg) <;> rfl
    · rw [h.2.2]; cases cigarBlockOf (pre, seg) <;> rfl
  | cons op rest ih =>
    intro pre seg rb qb cb hsf hn
    have hpos := start_pos hs (NonNeg_of_append_left (NonNeg_of_append_left hn))
    rw [List.foldl_cons]
    cases ho : isSep op.1 with
    | true =>
      rw [step_sep s pre seg rb qb cb op ho hpos]
      have hn' : NonNeg (pre ++ seg ++ [op] ++ [] ++ rest) := by
        intro o hm; exact hn o (by simp at hm ⊢; exact hm)
      have h := ih (pre ++ seg ++ [op]) [] (rb ++ (exonOf s (pre, seg)).toList)
        (qb ++ (queryBlockOf (pre, seg)).toList) (cb ++ (cigarBlockOf (pre, seg)).toList)
        (by intro o hm; cases hm) hn'
      simp only [cutsAux, ho, if_true, List.filterMap_cons]
      refine ⟨?_, ?_, ?_⟩
      · rw [h.1]; cases exonOf s (pre, seg) <;> simp
      · rw [h.2.1]; cases queryBlockOf (pre, seg) <;> simp
      · rw [h.2.2]; cases cigarBlockOf (pre, seg) <;> simp
    | false =>
      rw [step_nonsep s pre seg rb qb cb op hsf ho]
      have hsf' : SepFree (seg ++ [op]) := by
        intro o hm
        rcases List.mem_append.1 hm with h1 | h1
        · exact hsf o h1
        · simp at h1; subst h1; exact ho
      have hn' : NonNeg (pre ++ (seg ++ [op]) ++ rest) := by
        intro o hm; exact hn o (by simp at hm ⊢; exact hm)
      have h := ih pre (seg ++ [op]) rb qb cb hsf' hn'
      simp only [cutsAux, ho]
      exact h

/-! ### order, well-formedness and maximality of the specification's exons -/

/-- every interval starts at or after `lo`, is non-empty, and the next one starts after its end -/
def ChainFrom : Int → List Iv → Prop
  | _, [] => True
  | lo, e :: es => lo ≤ e.1 ∧ e.1 ≤ e.2 ∧ ChainFrom (e.2 + 1) es

theorem ChainFrom.mono {lo lo' : Int} {l : List Iv} (h : ChainFrom lo' l) (hle : lo ≤ lo') : ChainFrom lo l := by
  cases l with
  | nil => trivial
  | cons e es => exact ⟨by have := h.1; omega, h.2.1, h.2.2⟩

theorem ChainFrom.all_ge {lo : Int} {l : List Iv} (h : ChainFrom lo l) : ∀ e ∈ l, lo ≤ e.1 ∧ e.1 ≤ e.2 := by
  induction l generalizing lo with
  | nil => intro e he; cases he
  | cons x xs ih =>
    intro e he
    rcases List.mem_cons.1 he with h1 | h1
    · subst h1; exact ⟨h.1, h.2.1⟩
    · have := ih h.2.2 e h1
      have := h.1; have := h.2.1
      omega

/-- a chain is sorted and pairwise disjoint -/
theorem ChainFrom.pairwise {lo : Int} {l : List Iv} (h : ChainFrom lo l) : l.Pairwise (fun a b => a.2 < b.1) := by
  induction l generalizing lo with
  | nil => exact List.Pairwise.nil
  | cons x xs ih =>
    refine List.Pairwise.cons ?_ (ih h.2.2)
    intro b hb
    have := (ChainFrom.all_ge h.2.2 b hb).1
    omega

theorem refLen_pos_of_aligned {seg : List CigarOp} (hp : Pos seg) (ha : hasAligned seg = true) : 0 < refLen seg := by
  induction seg with
  | nil => simp [hasAligned] at ha
  | cons o l ih =>
    have ho : 0 < o.2 := hp o (by simp)
    have hl : Pos l := fun x hx => hp x (by simp [hx])
    have hnn : 0 ≤ refLen l := refLen_nonneg (fun x hx => Int.le_of_lt (hl x hx))
    rw [refLen_cons]
    by_cases hao : isAligned o.1 = true
    · have : consumesRef o.1 = true := by
        obtain ⟨k, n⟩ := o
        cases k <;> simp_all [isAligned, consumesRef]
      simp [this]; omega
    · have hal : hasAligned l = true := by
        simp only [hasAligned, List.any_cons, Bool.or_eq_true] at ha
        rcases ha with h | h
        · exact absurd h hao
        · exact h
      have := ih hl hal
      split <;> omega

theorem queryLen_pos_of_aligned {seg : List CigarOp} (hp : Pos seg) (ha : hasAligned seg = true) : 0 < queryLen seg := by
  induction seg with
  | nil => simp [hasAligned] at ha
  | cons o l ih =>
    have ho : 0 < o.2 := hp o (by simp)
    have hl : Pos l := fun x hx => hp x (by simp [hx])
    have hnn : 0 ≤ queryLen l := queryLen_nonneg (fun x hx => Int.le_of_lt (hl x hx))
    rw [queryLen_cons]
    by_cases hao : isAligned o.1 = true
    · have : consumesQuery o.1 = true := by
        obtain ⟨k, n⟩ := o
        cases k <;> simp_all [isAligned, consumesQuery]
      simp [this]; omega
    · have hal : hasAligned l = true := by
        simp only [hasAligned, List.any_cons, Bool.or_eq_true] at ha
        rcases ha with h | h
        · exact absurd h hao
        · exact h
      have := ih hl hal
      split <;> omega

theorem Pos.nonneg {l : List CigarOp} (h : Pos l) : NonNeg l := fun o ho => Int.le_of_lt (h o ho)

/-- the exons of the cuts form a chain starting after the reference consumed by `pre` -/
theorem exons_chain (s : Int) : ∀ (rest pre seg : List CigarOp), Pos seg → Pos rest →
    ChainFrom (s + 1 + refLen pre) ((cutsAux pre seg rest).filterMap (exonOf s)) := by
  intro rest
  induction rest with
  | nil =>
    intro pre seg hs _
    simp only [cutsAux, List.filterMap_cons, List.filterMap_nil, exonOf]
    cases ha : hasAligned seg with
    | false => simp [ChainFrom]
    | true =>
      have := refLen_pos_of_aligned hs ha
      simp only [if_true, ChainFrom]
      refine ⟨Int.le_refl _, ?_, trivial⟩
      show s + 1 + refLen pre ≤ s + refLen pre + refLen seg
      omega
  | cons op rest ih =>
    intro pre seg hs hr
    have hop : 0 < op.2 := hr op (by simp)
    have hr' : Pos rest := fun x hx => hr x (by simp [hx])
    have hsn := refLen_nonneg hs.nonneg
    cases ho : isSep op.1 with
    | true =>
      have h := ih (pre ++ seg ++ [op]) [] (by intro o hm; cases hm) hr'
      have hlen : refLen (pre ++ seg ++ [op]) = refLen pre + refLen seg + (if consumesRef op.1 then op.2 else 0) := by
        simp [refLen_append, refLen_cons, refLen_nil]; omega
      have hge : 0 ≤ (if consumesRef op.1 then op.2 else 0) := by split <;> omega
      simp only [cutsAux, ho, if_true, List.filterMap_cons, exonOf]
      cases ha : hasAligned seg with
      | false =>
        simp only [Bool.false_eq_true, if_false]
        exact h.mono (by rw [hlen]; omega)
      | true =>
        have := refLen_pos_of_aligned hs ha
        simp only [if_true, ChainFrom]
        refine ⟨Int.le_refl _, ?_, h.mono ?_⟩
        · show s + 1 + refLen pre ≤ s + refLen pre + refLen seg
          omega
        · show s + refLen pre + refLen seg + 1 ≤ s + 1 + refLen (pre ++ seg ++ [op])
          rw [hlen]; omega
    | false =>
      have hs' : Pos (seg ++ [op]) := by
        intro o hm
        rcases List.mem_append.1 hm with h1 | h1
        · exact hs o h1
        · simp at h1; subst h1; exact hop
      simp only [cutsAux, ho]
      exact ih pre (seg ++ [op]) hs' hr'

/-- the query blocks of the cuts form a chain starting after the query bases consumed by `pre` -/
theorem query_chain : ∀ (rest pre seg : List CigarOp), Pos seg → Pos rest →
    ChainFrom (queryLen pre) ((cutsAux pre seg rest).filterMap queryBlockOf) ∧
    ∀ b ∈ (cutsAux pre seg rest).filterMap queryBlockOf, b.2 < queryLen (pre ++ seg ++ rest) := by
  intro rest
  induction rest with
  | nil =>
    intro pre seg hs _
    simp only [cutsAux, List.filterMap_cons, List.filterMap_nil, queryBlockOf]
    cases ha : hasAligned seg with
    | false => simp [ChainFrom]
    | true =>
      have := queryLen_pos_of_aligned hs ha
      simp only [if_true, ChainFrom, List.append_nil, queryLen_append]
      refine ⟨⟨Int.le_refl _, ?_, trivial⟩, ?_⟩
      · show queryLen pre ≤ queryLen pre + queryLen seg - 1
        omega
      · intro b hb; simp at hb; subst hb
        show queryLen pre + queryLen seg - 1 < queryLen pre + queryLen seg
        omega
  | cons op rest ih =>
    intro pre seg hs hr
    have hop : 0 < op.2 := hr op (by simp)
    have hr' : Pos rest := fun x hx => hr x (by simp [hx])
    have hsn := queryLen_nonneg hs.nonneg
    have hrn := queryLen_nonneg hr'.nonneg
    have hge : 0 ≤ (if consumesQuery op.1 then op.2 else 0) := by split <;> omega
    cases ho : isSep op.1 with
    | true =>
      have h := ih (pre ++ seg ++ [op]) [] (by intro o hm; cases hm) hr'
      have hlen : queryLen (pre ++ seg ++ [op]) = queryLen pre + queryLen seg + (if consumesQuery op.1 then op.2 else 0) := by
        simp [queryLen_append, queryLen_cons, queryLen_nil]; omega
      have htot : queryLen (pre ++ seg ++ [op] ++ [] ++ rest) = queryLen (pre ++ seg ++ op :: rest) := by
        simp [queryLen_append, queryLen_cons]
      rw [htot] at h
      simp only [cutsAux, ho, if_true, List.filterMap_cons, queryBlockOf]
      cases ha : hasAligned seg with
      | false =>
        simp only [Bool.false_eq_true, if_false]
        exact ⟨h.1.mono (by rw [hlen]; omega), h.2⟩
      | true =>
        have := queryLen_pos_of_aligned hs ha
        simp only [if_true, ChainFrom]
        refine ⟨⟨Int.le_refl _, ?_, h.1.mono ?_⟩, ?_⟩
        · show queryLen pre ≤ queryLen pre + queryLen seg - 1
          omega
        · show queryLen pre + queryLen seg - 1 + 1 ≤ queryLen (pre ++ seg ++ [op])
          rw [hlen]; omega
        · intro b hb
          rcases List.mem_cons.1 hb with h1 | h1
          · subst h1
            show queryLen pre + queryLen seg - 1 < queryLen (pre ++ seg ++ op :: rest)
            simp only [queryLen_append, queryLen_cons]; omega
          · exact h.2 b h1
    | false =>
      have hs' : Pos (seg ++ [op]) := by
        intro o hm
        rcases List.mem_append.1 hm with h1 | h1
        · exact hs o h1
        · simp at h1; subst h1; exact hop
      have h := ih pre (seg ++ [op]) hs' hr'
      have htot : queryLen (pre ++ (seg ++ [op]) ++ rest) = queryLen (pre ++ seg ++ op :: rest) := by
        simp [queryLen_append, queryLen_cons]
      rw [htot] at h
      simp only [cutsAux, ho]
      exact h

/-! ### `cuts` = the maximal separator-free runs -/

/-- `pre` is empty or ends with a separator -/
def EndsWithSep (pre : List CigarOp) : Prop := ∀ o, pre.getLast? = some o → isSep o.1 = true
/-- `post` is empty or starts with a separator -/
def StartsWithSep (post : List CigarOp) : Prop := ∀ o, post.head? = some o → isSep o.1 = true

theorem sepfree_split_unique : ∀ (a c b d : List CigarOp) (x : CigarOp),
    a ++ x :: b = c ++ d → SepFree a → SepFree c → isSep x.1 = true → StartsWithSep d → a = c ∧ d = x :: b := by
  intro a
  induction a with
  | nil =>
    intro c b d x h _ hc hx hd
    cases c with
    | nil => simp at h; exact ⟨rfl, h.symm⟩
    | cons y c' =>
      simp at h
      have := hc y (by simp)
      rw [← h.1] at this; rw [hx] at this; cases this
  | cons a0 a' ih =>
    intro c b d x h ha hc hx hd
    cases c with
    | nil =>
      simp at h
      have h1 := hd a0 (by rw [← h]; rfl)
      have h2 := ha a0 (by simp)
      rw [h1] at h2; cases h2
    | cons c0 c' =>
      simp at h
      obtain ⟨h0, h1⟩ := h
      subst h0
      have := ih c' b d x h1 (fun o ho => ha o (by simp [ho])) (fun o ho => hc o (by simp [ho])) hx hd
      exact ⟨by rw [this.1], this.2⟩

/-- soundness: every cut is a maximal separator-free run of the CIGAR -/
theorem cutsAux_sound : ∀ (rest P S : List CigarOp), SepFree S → EndsWithSep P →
    ∀ pre seg, (pre, seg) ∈ cutsAux P S rest →
      ∃ post, P ++ S ++ rest = pre ++ seg ++ post ∧ SepFree seg ∧ EndsWithSep pre ∧ StartsWithSep post := by
  intro rest
  induction rest with
  | nil =>
    intro P S hS hP pre seg hm
    simp [cutsAux] at hm
    obtain ⟨rfl, rfl⟩ := hm
    exact ⟨[], by simp, hS, hP, by intro o ho; cases ho⟩
  | cons op rest ih =>
    intro P S hS hP pre seg hm
    cases ho : isSep op.1 with
    | true =>
      simp only [cutsAux, ho, if_true, List.mem_cons] at hm
      rcases hm with h | h
      · obtain ⟨rfl, rfl⟩ := Prod.mk.inj h
        exact ⟨op :: rest, rfl, hS, hP, by intro o h'; simp at h'; subst h'; exact ho⟩
      · obtain ⟨post, h1, h2, h3, h4⟩ := ih (P ++ S ++ [op]) [] (by intro o hm; cases hm)
          (by intro o h'; simp at h'; subst h'; exact ho) pre seg h
        exact ⟨post, by rw [← h1]; simp, h2, h3, h4⟩
    | false =>
      simp only [cutsAux, ho] at hm
      have hS' : SepFree (S ++ [op]) := by
        intro o hm'
        rcases List.mem_append.1 hm' with h1 | h1
        · exact hS o h1
        · simp at h1; subst h1; exact ho
      obtain ⟨post, h1, h2, h3, h4⟩ := ih P (S ++ [op]) hS' hP pre seg hm
      exact ⟨post, by rw [← h1]; simp, h2, h3, h4⟩

/-- completeness: every maximal separator-free run is a cut -/
theorem cutsAux_complete : ∀ (rest P S : List CigarOp), SepFree S →
    ∀ pre seg post, P ++ S ++ rest = pre ++ seg ++ post → SepFree seg → EndsWithSep pre → StartsWithSep post →
      (pre.length = P.length ∨ P.length + S.length < pre.length) → (pre, seg) ∈ cutsAux P S rest := by
  intro rest
  induction rest with
  | nil =>
    intro P S hS pre seg post h hseg hpre hpost hlen
    have hl : (P ++ S).length = (pre ++ seg ++ post).length := by rw [← h]; simp
    simp only [List.length_append] at hl
    rcases hlen with hlen | hlen
    · have h' : P ++ S = pre ++ (seg ++ post) := by simpa using h
      obtain ⟨hP, hSS⟩ := List.append_inj h' hlen.symm
      subst hP
      -- S = seg ++ post with post empty (its head would be a separator inside S)
      cases post with
      | nil => simp at hSS; subst hSS; simp [cutsAux]
      | cons p ps =>
        have := hpost p rfl
        have h2 := hS p (by rw [hSS]; simp)
        rw [this] at h2; cases h2
    · omega
  | cons op rest ih =>
    intro P S hS pre seg post h hseg hpre hpost hlen
    cases ho : isSep op.1 with
    | true =>
      simp only [cutsAux, ho, if_true, List.mem_cons]
      rcases hlen with hlen | hlen
      · left
        have h' : P ++ (S ++ op :: rest) = pre ++ (seg ++ post) := by simpa using h
        obtain ⟨hP, hSS⟩ := List.append_inj h' hlen.symm
        subst hP
        obtain ⟨h1, _⟩ := sepfree_split_unique S seg rest post op hSS hS hseg ho hpost
        rw [h1]
      · right
        apply ih (P ++ S ++ [op]) [] (by intro o hm; cases hm) pre seg post (by rw [← h]; simp) hseg hpre hpost
        simp only [List.length_append, List.length_cons, List.length_nil]
        omega
    | false =>
      simp only [cutsAux, ho]
      have hS' : SepFree (S ++ [op]) := by
        intro o hm'
        rcases List.mem_append.1 hm' with h1 | h1
        · exact hS o h1
        · simp at h1; subst h1; exact ho
      apply ih P (S ++ [op]) hS' pre seg post (by rw [← h]; simp) hseg hpre hpost
      rcases hlen with hlen | hlen
      · left; exact hlen
      · -- `pre` cannot end exactly with the non-separator `op`
        by_cases heq : pre.length = P.length + S.length + 1
        · exfalso
          have h' : (P ++ S ++ [op]) ++ rest = pre ++ (seg ++ post) := by rw [← List.append_assoc pre]; rw [← h]; simp
          have hl2 : (P ++ S ++ [op]).length = pre.length := by simp; omega
          obtain ⟨hP, _⟩ := List.append_inj h' hl2
          have := hpre op (by rw [← hP]; simp)
          rw [ho] at this; cases this
        · right; simp only [List.length_append, List.length_cons, List.length_nil]; omega

/-! ### separator-free prefixes, filtering -/

theorem cutsAux_append_sepfree : ∀ (a pre seg rest : List CigarOp), SepFree a →
    cutsAux pre seg (a ++ rest) = cutsAux pre (seg ++ a) rest := by
  intro a
  induction a with
  | nil => intro pre seg rest _; simp
  | cons x xs ih =>
    intro pre seg rest ha
    have hx : isSep x.1 = false := ha x (by simp)
    have := ih pre (seg ++ [x]) rest (fun o ho => ha o (by simp [ho]))
    simp only [List.cons_append, cutsAux, hx]
    rw [this]; simp

/-- operations that are transparent for the reference walk: `I`, `H`, `P` -/
def isRefTransparent (k : CigarEvent) : Bool := k == .insertion || k == .hard_clipping || k == .padding

def dropTransparent (ops : List CigarOp) : List CigarOp := ops.filter (fun o => !isRefTransparent o.1)

theorem refLen_dropTransparent (l : List CigarOp) : refLen (dropTransparent l) = refLen l := by
  induction l with
  | nil => rfl
  | cons o l ih =>
    obtain ⟨k, n⟩ := o
    cases k <;> simp_all [dropTransparent, isRefTransparent, refLen_cons, consumesRef]

theorem hasAligned_dropTransparent (l : List CigarOp) : hasAligned (dropTransparent l) = hasAligned l := by
  induction l with
  | nil => rfl
  | cons o l ih =>
    obtain ⟨k, n⟩ := o
    cases k <;> simp_all [dropTransparent, isRefTransparent, hasAligned, isAligned]

theorem dropTransparent_append (a b : List CigarOp) :
    dropTransparent (a ++ b) = dropTransparent a ++ dropTransparent b := by simp [dropTransparent]

theorem exons_dropTransparent (s : Int) : ∀ (rest pre seg : List CigarOp),
    (cutsAux (dropTransparent pre) (dropTransparent seg) (dropTransparent rest)).filterMap (exonOf s)
      = (cutsAux pre seg rest).filterMap (exonOf s) := by
  intro rest
  induction rest with
  | nil =>
    intro pre seg
    have h1 := refLen_dropTransparent pre
    have h2 := refLen_dropTransparent seg
    have h3 := hasAligned_dropTransparent seg
    have hnil : dropTransparent [] = [] := rfl
    rw [hnil]
    simp only [cutsAux, List.filterMap_cons, List.filterMap_nil, exonOf, h1, h2, h3]
  | cons op rest ih =>
    intro pre seg
    obtain ⟨k, n⟩ := op
    cases ho : isSep k with
    | true =>
      have hk : isRefTransparent k = false := by cases k <;> simp_all [isSep, isRefTransparent]
      have hd : dropTransparent ((k, n) :: rest) = (k, n) :: dropTransparent rest := by
        simp [dropTransparent, hk]
      have hpre : dropTransparent (pre ++ seg ++ [(k, n)]) = dropTransparent pre ++ dropTransparent seg ++ [(k, n)] := by
        simp [dropTransparent, hk]
      have h := ih (pre ++ seg ++ [(k, n)]) []
      rw [hpre] at h
      have hnil : dropTransparent [] = [] := rfl
      rw [hnil] at h
      rw [hd]
      simp only [cutsAux, ho, if_true, List.filterMap_cons, h]
      have h1 := refLen_dropTransparent pre
      have h2 := refLen_dropTransparent seg
      have h3 := hasAligned_dropTransparent seg
      simp only [exonOf, h1, h2, h3]
    | false =>
      cases hk : isRefTransparent k with
      | true =>
        have hd : dropTransparent ((k, n) :: rest) = dropTransparent rest := by
          simp [dropTransparent, hk]
        have hseg : dropTransparent (seg ++ [(k, n)]) = dropTransparent seg := by
          simp [dropTransparent, hk]
        have h := ih pre (seg ++ [(k, n)])
        rw [hseg] at h
        rw [hd]
        simp only [cutsAux, ho]
        exact h
      | false =>
        have hd : dropTransparent ((k, n) :: rest) = (k, n) :: dropTransparent rest := by
          simp [dropTransparent, hk]
        have hseg : dropTransparent (seg ++ [(k, n)]) = dropTransparent seg ++ [(k, n)] := by
          simp [dropTransparent, hk]
        have h := ih pre (seg ++ [(k, n)])
        rw [hseg] at h
        rw [hd]
        simp only [cutsAux, ho]
        exact h

end IsoVerif.Lemmas.C16
