/-
C04 (growth `c04split`) — helper lemmas about `drop_novel_chains_reported_elsewhere` and the loop over the constructors of one
chromosome task (IsoVerif/Model/ChromosomeModels.lean).
-/
import IsoVerif.Model.ChromosomeModels
import IsoVerif.Lemmas.ModelConstruction

namespace IsoVerif.Lemmas.C04
open IsoVerif.Gen IsoVerif.Model IsoVerif.Model.C04

/-! ### the class-level set -/

theorem mem_keyInsert {l : List ChainKey} {k x : ChainKey} : x ∈ keyInsert l k ↔ x ∈ l ∨ x = k := by
  unfold keyInsert
  split
  · rename_i h
    constructor
    · exact Or.inl
    · rintro (h' | rfl)
      · exact h'
      · exact h
  · simp

theorem mem_keyUnion {l ks : List ChainKey} {x : ChainKey} : x ∈ keyUnion l ks ↔ x ∈ l ∨ x ∈ ks := by
  unfold keyUnion
  induction ks generalizing l with
  | nil => simp
  | cons a t ih =>
    simp only [List.foldl_cons]
    rw [ih, mem_keyInsert]
    simp only [List.mem_cons]
    constructor
    · rintro ((h | h) | h)
      · exact Or.inl h
      · exact Or.inr (Or.inl h)
      · exact Or.inr (Or.inr h)
    · rintro (h | h | h)
      · exact Or.inl (Or.inl h)
      · exact Or.inl (Or.inr h)
      · exact Or.inr h

/-! ### the drop loop -/

/-- the keep test of `drop_novel_chains_reported_elsewhere` -/
def keepModel (reported : List ChainKey) (m : TModel) : Bool :=
  !(isSplicedNovel m && decide (chainKey m ∈ reported))

/-- which models the loop keeps does not depend on the bookkeeping: it is a list filter -/
theorem dropLoop_kept (reported : List ChainKey) (ms : List TModel) (s : Store) (kept : List TModel) (s' : Store)
    (kept' : List TModel) (h : filterLoopG (dropDec reported) ms s kept = some (s', kept')) :
    kept' = kept ++ ms.filter (keepModel reported) := by
  induction ms generalizing s kept with
  | nil =>
    simp only [filterLoopG, Option.some.injEq, Prod.mk.injEq] at h
    simp [h.2]
  | cons m t ih =>
    simp only [filterLoopG, dropDec] at h
    cases hb : (isSplicedNovel m && decide (chainKey m ∈ reported)) with
    | false =>
      simp only [hb, Bool.not_false] at h
      rw [ih _ _ h]
      simp [keepModel, hb]
    | true =>
      simp only [hb, Bool.not_true] at h
      split at h
      · simp at h
      · rw [ih _ _ h]
        simp [keepModel, hb]

/-- when every model is kept the loop changes nothing -/
theorem dropLoop_all_kept (reported : List ChainKey) (ms : List TModel) (s : Store) (kept : List TModel)
    (hall : ∀ m ∈ ms, keepModel reported m = true) :
    filterLoopG (dropDec reported) ms s kept = some (s, kept ++ ms) := by
  induction ms generalizing kept with
  | nil => simp [filterLoopG]
  | cons m t ih =>
    have hm := hall m (by simp)
    unfold keepModel at hm
    simp only [filterLoopG, dropDec, hm]
    rw [ih _ (fun x hx => hall x (by simp [hx]))]
    simp

theorem dropDec_touched {reported : List ChainKey} {s s1 : Store} {m : TModel} {k : Bool}
    (h : dropDec reported s m = some (k, s1)) : Touched s s1 := by
  simp only [dropDec, Option.some.injEq, Prod.mk.injEq] at h
  obtain ⟨_, rfl⟩ := h
  exact Touched.refl s

/-- `drop_novel_chains_reported_elsewhere`: the models kept, the new class-level set, and the bookkeeping -/
theorem dropReported_spec {s s' : Store} {reported rep' : List ChainKey} (h : s.dropReported reported = some (s', rep')) :
    s'.models = s.models.filter (keepModel reported) ∧ rep' = keyUnion reported (reportKeys s'.models) ∧
    ∃ D, (∀ m ∈ s.models, m ∈ s'.models ∨ m.tid ∈ D) ∧ Shrunk D s s' ∧
      ((ids s.models).Nodup → ∀ m ∈ s'.models, m.tid ∉ D) := by
  unfold Store.dropReported at h
  split at h
  · simp at h
  · rename_i s1 kept hl
    simp only [Option.some.injEq, Prod.mk.injEq] at h
    obtain ⟨rfl, rfl⟩ := h
    have hk := dropLoop_kept _ _ _ _ _ _ hl
    simp only [List.nil_append] at hk
    obtain ⟨new, D, hk2, _, _, hcov, hsh, hB⟩ :=
      filterLoopG_spec _ (fun _ _ => True) (fun _ _ _ _ h => dropDec_touched h) (fun _ _ _ _ => trivial) _ _ _ _ _ hl
    simp only [List.nil_append] at hk2
    subst hk2
    exact ⟨hk, rfl, D, hcov, ⟨hsh.counter, hsh.reads, hsh.entries⟩, fun hnd => (hB hnd).1⟩

theorem mem_reportKeys {ms : List TModel} {k : ChainKey} :
    k ∈ reportKeys ms ↔ ∃ m ∈ ms, isSplicedNovel m = true ∧ chainKey m = k := by
  simp [reportKeys, List.mem_map, List.mem_filter, and_assoc]

/-- the joiner's gene ids do not enter the chain keys -/
theorem reportKeys_map_gene (g : TModel → String) (ms : List TModel) :
    reportKeys (ms.map (fun m => { m with gene := g m })) = reportKeys ms := by
  induction ms with
  | nil => rfl
  | cons a t ih =>
    simp only [reportKeys, List.map_cons, List.filter_cons] at ih ⊢
    have h1 : isSplicedNovel { a with gene := g a } = isSplicedNovel a := rfl
    have h2 : chainKey { a with gene := g a } = chainKey a := rfl
    rw [h1]
    split
    · simp only [List.map_cons, h2, ih]
    · exact ih

/-- no key of a kept spliced novel model was in the set before -/
theorem reportKeys_filter_fresh (reported : List ChainKey) (ms : List TModel) :
    ∀ k ∈ reportKeys (ms.filter (keepModel reported)), k ∉ reported := by
  intro k hk
  obtain ⟨m, hm, hsn, rfl⟩ := mem_reportKeys.1 hk
  rw [List.mem_filter] at hm
  have := hm.2
  unfold keepModel at this
  simp only [hsn, Bool.true_and, Bool.not_eq_true', decide_eq_false_iff_not] at this
  exact this

theorem assignReads_models (s : Store) (ins : List AssignIn) : (s.assignReads ins).models = s.models :=
  (assignReads_grow s ins).models

/-! ### the tail of `process()` -/

/-- what the dumped storage of a repaired constructor holds and what it hands on -/
theorem regionTail_fixed_spec {reported rep' : List ChainKey} {r : RegionIn} {s5 s : Store}
    (h : regionTail true reported r s5 = some (s, rep')) :
    reportKeys s.models = reportKeys (s5.models.filter (keepModel reported)) ∧
    rep' = keyUnion reported (reportKeys s.models) ∧
    s.models = (s5.models.filter (keepModel reported)).map (fun m => { m with gene := r.newGene m }) := by
  unfold regionTail at h
  simp only [if_true] at h
  split at h
  · simp at h
  · rename_i s6 rep hd
    simp only [Option.some.injEq, Prod.mk.injEq] at h
    obtain ⟨rfl, rfl⟩ := h
    obtain ⟨hm, hr, _⟩ := dropReported_spec hd
    simp only [assignReads_models, reportKeys_map_gene]
    rw [hm] at hr ⊢
    exact ⟨rfl, hr, rfl⟩

theorem regionTail_orig_spec {reported rep' : List ChainKey} {r : RegionIn} {s5 s : Store}
    (h : regionTail false reported r s5 = some (s, rep')) :
    rep' = reported ∧ s.models = s5.models.map (fun m => { m with gene := r.newGene m }) := by
  unfold regionTail at h
  simp only [Bool.false_eq_true, if_false, Option.some.injEq, Prod.mk.injEq] at h
  obtain ⟨rfl, rfl⟩ := h
  simp [assignReads_models]

/-! ### the loop over the constructors -/

theorem chrKeys_append (a b : List Store) : chrKeys (a ++ b) = chrKeys a ++ chrKeys b := by
  simp [chrKeys]

theorem chrKeys_single (s : Store) : chrKeys [s] = reportKeys s.models := by
  simp [chrKeys]

/-- the reports already made are a prefix of the final list -/
theorem runChromosome_prefix (rp : Bool) (next : Nat → Nat) (regs : List RegionIn) (cs : ChrState) (acc : List Store)
    (cs' : ChrState) (reps : List Store) (h : runChromosome rp next regs cs acc = some (cs', reps)) :
    ∃ new, reps = acc ++ new ∧ new.length = regs.length := by
  induction regs generalizing cs acc with
  | nil =>
    simp only [runChromosome, Option.some.injEq, Prod.mk.injEq] at h
    exact ⟨[], by simp [h.2], rfl⟩
  | cons r t ih =>
    simp only [runChromosome] at h
    split at h
    · simp at h
    · rename_i cs1 s hp
      obtain ⟨new, hn, hl⟩ := ih _ _ h
      exact ⟨s :: new, by simp [hn], by simp [hl]⟩

/-- one repaired constructor: its keys are new, and the set it hands on is the old one plus its keys -/
theorem processRegion_fixed_keys {next : Nat → Nat} {cs cs' : ChrState} {r : RegionIn} {s : Store}
    (h : processRegion true next cs r = some (cs', s)) :
    (∀ k ∈ reportKeys s.models, k ∉ cs.reported) ∧ cs'.reported = keyUnion cs.reported (reportKeys s.models) := by
  unfold processRegion at h
  split at h
  · simp at h
  · rename_i st2 s5 hh
    split at h
    · simp at h
    · rename_i s0 rep ht
      simp only [Option.some.injEq, Prod.mk.injEq] at h
      obtain ⟨rfl, rfl⟩ := h
      obtain ⟨hk, hr, _⟩ := regionTail_fixed_spec ht
      refine ⟨?_, hr⟩
      rw [hk]
      exact reportKeys_filter_fresh _ _

/-- the invariant of the repaired loop: the class-level set is exactly the set of keys reported so far, and no key was
    reported by two constructors -/
theorem runChromosome_fixed_inv (next : Nat → Nat) (regs : List RegionIn) (cs : ChrState) (acc : List Store)
    (cs' : ChrState) (reps : List Store) (h : runChromosome true next regs cs acc = some (cs', reps))
    (hsub : ∀ k, k ∈ cs.reported ↔ k ∈ chrKeys acc) :
    (∀ k, k ∈ cs'.reported ↔ k ∈ chrKeys reps) ∧
    ((chrKeys acc).Nodup → (∀ s ∈ reps, (reportKeys s.models).Nodup) → (chrKeys reps).Nodup) := by
  induction regs generalizing cs acc with
  | nil =>
    simp only [runChromosome, Option.some.injEq, Prod.mk.injEq] at h
    obtain ⟨rfl, rfl⟩ := h
    exact ⟨hsub, fun hn _ => hn⟩
  | cons r t ih =>
    simp only [runChromosome] at h
    split at h
    · simp at h
    · rename_i cs1 s hp
      obtain ⟨hfresh, hrep⟩ := processRegion_fixed_keys hp
      have hsub1 : ∀ k, k ∈ cs1.reported ↔ k ∈ chrKeys (acc ++ [s]) := by
        intro k
        rw [hrep, mem_keyUnion, chrKeys_append, chrKeys_single, List.mem_append, hsub k]
      obtain ⟨h1, h2⟩ := ih _ _ h hsub1
      refine ⟨h1, fun hn hper => h2 ?_ hper⟩
      rw [chrKeys_append, chrKeys_single]
      obtain ⟨new, hnew, _⟩ := runChromosome_prefix _ _ _ _ _ _ _ h
      have hs : s ∈ reps := by rw [hnew]; simp
      rw [List.nodup_append]
      refine ⟨hn, hper s hs, ?_⟩
      intro a ha b hb hab
      subst hab
      exact hfresh a hb ((hsub a).2 ha)

end IsoVerif.Lemmas.C04
