/-
C04 (growth `c04split`) — helper lemmas about `drop_novel_chains_reported_elsewhere` and the loop over the constructors of one
chromosome task (IsoVerif/Model/ChromosomeModels.lean).
-/
import IsoVerif.Model.ChromosomeModels
import IsoVerif.Lemmas.ModelConstruction

namespace IsoVerif.Lemmas.C04
open IsoVerif.Gen IsoVerif.Model IsoVerif.Model.C04

/-! ### the class-level set -/

theorem mem_keyInsert {l : List ChainKey} {k x : ChainKey} : x ∈ keyInsert l k ↔ x ∈ l ∨ x = k := by
  unfold keyInsert
  split
  · rename_i h
    constructor
    · exact Or.inl
    · rintro (h' | rfl)
      · exact h'
      · exact h
  · simp

theorem mem_keyUnion {l ks : List ChainKey} {x : ChainKey} : x ∈ keyUnion l ks ↔ x ∈ l ∨ x ∈ ks := by
  unfold keyUnion
  induction ks generalizing l with
  | nil => simp
  | cons a t ih =>
    simp only [List.foldl_cons]
    rw [ih, mem_keyInsert]
    simp only [List.mem_cons]
    constructor
    · rintro ((h | h) | h)
      · exact Or.inl h
      · exact Or.inr (Or.inl h)
      · exact Or.inr (Or.inr h)
    · rintro (h | h | h)
      · exact Or.inl (Or.inl h)
      · exact Or.inl (Or.inr h)
      · exact Or.inr h

/-! ### the drop loop -/

/-- the keep test of `drop_novel_chains_reported_elsewhere` -/
def keepModel (reported : List ChainKey) (m : TModel) : Bool :=
  !(isSplicedNovel m && decide (chainKey m ∈ reported))

/-- which models the loop keeps does not depend on the bookkeeping: it is a list filter -/
theorem dropLoop_kept (reported : List ChainKey) (ms : List TModel) (s : Store) (kept : List TModel) (s' : Store)
    (kept' : List TModel) (h : filterLoopG (dropDec reported) ms s kept = some (s', kept')) :
    kept' = kept ++ ms.filter (keepModel reported) := by
  induction ms generalizing s kept with
  | nil =>
    simp only [filterLoopG, Option.some.injEq, Prod.mk.injEq] at h
    simp [h.2]
  | cons m t ih =>
    simp only [filterLoopG, dropDec] at h
    cases hb : (isSplicedNovel m && decide (chainKey m ∈ reported)) with
    | false =>
      simp only [hb, Bool.not_false] at h
      rw [ih _ _ h]
      simp [keepModel, hb]
    | true =>
      simp only [hb, Bool.not_true] at h
      split at h
      · simp at h
      · rw [ih _ _ h]
        simp [keepModel, hb]

/-- when every model is kept the loop changes nothing -/
theorem dropLoop_all_kept (reported : List ChainKey) (ms : List TModel) (s : Store) (kept : List TModel)
    (hall : ∀ m ∈ ms, keepModel reported m = true) :
    filterLoopG (dropDec reported) ms s kept = some (s, kept ++ ms) := by
  induction ms generalizing kept with
  | nil => simp [filterLoopG]
  | cons m t ih =>
    have hm := hall m (by simp)
    unfold keepModel at hm
    simp only [filterLoopG, dropDec, hm]
    rw [ih _ (fun x hx => hall x (by simp [hx]))]
    simp

theorem dropDec_touched {reported : List ChainKey} {s s1 : Store} {m : TModel} {k : Bool}
    (h : dropDec reported s m = some (k, s1)) : Touched s s1 := by
  simp only [dropDec, Option.some.injEq, Prod.mk.injEq] at h
  obtain ⟨_, rfl⟩ := h
  exact Touched.refl s

/-- `drop_novel_chains_reported_elsewhere`: the models kept, the new class-level set, and the bookkeeping -/
theorem dropReported_spec {s s' : Store} {reported rep' : List ChainKey} (h : s.dropReported reported = some (s', rep')) :
    s'.models = s.models.filter (keepModel reported) ∧ rep' = keyUnion reported (reportKeys s'.models) ∧
    ∃ D, (∀ m ∈ s.models, m ∈ s'.models ∨ m.tid ∈ D) ∧ Shrunk D s s' ∧
      ((ids s.models).Nodup → ∀ m ∈ s'.models, m.tid ∉ D) := by
  unfold Store.dropReported at h
  split at h
  · simp at h
  · rename_i s1 kept hl
    simp only [Option.some.injEq, Prod.mk.injEq] at h
    obtain ⟨rfl, rfl⟩ := h
    have hk := dropLoop_kept _ _ _ _ _ _ hl
    simp only [List.nil_append] at hk
    obtain ⟨new, D, hk2, _, _, hcov, hsh, hB⟩ :=
      filterLoopG_spec _ (fun _ _ => True) (fun _ _ _ _ h => dropDec_touched h) (fun _ _ _ _ => trivial) _ _ _ _ _ hl
    simp only [List.nil_append] at hk2
    subst hk2
    exact ⟨hk, rfl, D, hcov, ⟨hsh.counter, hsh.reads, hsh.entries⟩, fun hnd => (hB hnd).1⟩

theorem mem_reportKeys {ms : List TModel} {k : ChainKey} :
    k ∈ reportKeys ms ↔ ∃ m ∈ ms, isSplicedNovel m = true ∧ chainKey m = k := by
  simp [reportKeys, List.mem_map, List.mem_filter, and_assoc]

/-- the joiner's gene ids do not enter the chain keys -/
theorem reportKeys_map_gene (g : TModel → String) (ms : List TModel) :
    reportKeys (ms.map (fun m => { m with gene := g m })) = reportKeys ms := by
  induction ms with
  | nil => rfl
  | cons a t ih =>
    simp only [reportKeys, List.map_cons, List.filter_cons] at ih ⊢
    have h1 : isSplicedNovel { a with gene := g a } = isSplicedNovel a := rfl
    have h2 : chainKey { a with gene := g a } = chainKey a := rfl
    rw [h1]
    split
    · simp only [List.map_cons, h2, ih]
    · exact ih

/-- no key of a kept spliced novel model was in the set before -/
theorem reportKeys_filter_fresh (reported : List ChainKey) (ms : List TModel) :
    ∀ k ∈ reportKeys (ms.filter (keepModel reported)), k ∉ reported := by
  intro k hk
  obtain ⟨m, hm, hsn, rfl⟩ := mem_reportKeys.1 hk
  rw [List.mem_filter] at hm
  have := hm.2
  unfold keepModel at this
  simp only [hsn, Bool.true_and, Bool.not_eq_true', decide_eq_false_iff_not] at this
  exact this

theorem assignReads_models (s : Store) (ins : List AssignIn) : (s.assignReads ins).models = s.models :=
  (assignReads_grow s ins).models

/-! ### round `c04rep`: the dict `reported_novel_chains` and the loop that keeps the reads of a repeated chain -/

theorem mem_chainKeys {m : ChainMap} {k : ChainKey} : k ∈ chainKeys m ↔ ∃ v, (k, v) ∈ m := by
  simp [chainKeys]

theorem chainKeys_amGet? {m : ChainMap} {k : ChainKey} : k ∈ chainKeys m ↔ ∃ v, amGet? m k = some v := by
  constructor
  · intro h
    cases hg : amGet? m k with
    | some v => exact ⟨v, rfl⟩
    | none =>
      obtain ⟨v, hv⟩ := mem_chainKeys.1 h
      exact absurd rfl (amGet?_none hg _ hv)
  · rintro ⟨v, hv⟩
    exact mem_chainKeys.2 ⟨v, amGet?_mem hv⟩

theorem amGet?_none_iff {m : ChainMap} {k : ChainKey} : amGet? m k = none ↔ k ∉ chainKeys m := by
  rw [chainKeys_amGet?]
  cases amGet? m k <;> simp

theorem mem_chainKeys_amSet {m : ChainMap} {k x : ChainKey} {v : String} :
    x ∈ chainKeys (amSet m k v) ↔ x ∈ chainKeys m ∨ x = k := by
  constructor
  · intro h
    obtain ⟨w, hw⟩ := mem_chainKeys.1 h
    rcases mem_amSet hw with h1 | h1
    · exact Or.inr (by simpa using congrArg Prod.fst h1)
    · exact Or.inl (mem_chainKeys.2 ⟨w, h1⟩)
  · rintro (h | rfl)
    · induction m with
      | nil => simp [chainKeys] at h
      | cons a t ih =>
        obtain ⟨k', v'⟩ := a
        simp only [amSet]
        split
        · rename_i hk
          subst hk
          simp only [chainKeys, List.map_cons, List.mem_cons] at h ⊢
          exact h
        · simp only [chainKeys, List.map_cons, List.mem_cons] at h ⊢
          rcases h with h | h
          · exact Or.inl h
          · exact Or.inr (ih h)
    · exact mem_chainKeys.2 ⟨v, mem_amSet_self m x v⟩

theorem mem_chainKeys_foldl_amSet {ps m : ChainMap} {x : ChainKey} :
    x ∈ chainKeys (ps.foldl (fun l p => amSet l p.1 p.2) m) ↔ x ∈ chainKeys m ∨ x ∈ chainKeys ps := by
  induction ps generalizing m with
  | nil => simp [chainKeys]
  | cons a t ih =>
    simp only [List.foldl_cons]
    rw [ih, mem_chainKeys_amSet]
    simp only [chainKeys, List.map_cons, List.mem_cons]
    constructor
    · rintro ((h | h) | h)
      · exact Or.inl h
      · exact Or.inr (Or.inl h)
      · exact Or.inr (Or.inr h)
    · rintro (h | h | h)
      · exact Or.inl (Or.inl h)
      · exact Or.inl (Or.inr h)
      · exact Or.inr h

theorem mem_chainKeys_insertNew {l : ChainMap} {p : ChainKey × String} {x : ChainKey} :
    x ∈ chainKeys (mapInsertNew l p) ↔ x ∈ chainKeys l ∨ x = p.1 := by
  unfold mapInsertNew
  split
  · rename_i h
    constructor
    · exact Or.inl
    · rintro (h' | rfl)
      · exact h'
      · simp only [amHas, Option.isSome_iff_exists] at h
        exact chainKeys_amGet?.2 h
  · simp [chainKeys]

theorem mem_chainKeys_foldl_insertNew {ps l : ChainMap} {x : ChainKey} :
    x ∈ chainKeys (ps.foldl mapInsertNew l) ↔ x ∈ chainKeys l ∨ x ∈ chainKeys ps := by
  induction ps generalizing l with
  | nil => simp [chainKeys]
  | cons a t ih =>
    simp only [List.foldl_cons]
    rw [ih, mem_chainKeys_insertNew]
    simp only [chainKeys, List.map_cons, List.mem_cons]
    constructor
    · rintro ((h | h) | h)
      · exact Or.inl h
      · exact Or.inr (Or.inl h)
      · exact Or.inr (Or.inr h)
    · rintro (h | h | h)
      · exact Or.inl (Or.inl h)
      · exact Or.inl (Or.inr h)
      · exact Or.inr h

theorem chainKeys_reportPairs (ms : List TModel) : chainKeys (reportPairs ms) = reportKeys ms := by
  simp [chainKeys, reportPairs, reportKeys, List.map_map, Function.comp_def]

/-- the keys of `reported_novel_chains` after `update(own_chains)` -/
theorem mem_chainKeys_mapUpdate {reported : ChainMap} {ms : List TModel} {x : ChainKey} :
    x ∈ chainKeys (mapUpdate reported ms) ↔ x ∈ chainKeys reported ∨ x ∈ reportKeys ms := by
  unfold mapUpdate
  rw [mem_chainKeys_foldl_amSet, mem_chainKeys_foldl_insertNew, chainKeys_reportPairs]
  simp [chainKeys]

/-- every id the update stores is the id of a spliced novel model of the list, under that model's chain -/
theorem mem_mapUpdate {reported : ChainMap} {ms : List TModel} {p : ChainKey × String} (h : p ∈ mapUpdate reported ms) :
    p ∈ reported ∨ ∃ m ∈ ms, isSplicedNovel m = true ∧ chainKey m = p.1 ∧ m.tid = p.2 := by
  unfold mapUpdate at h
  have hown : ∀ (ps l : ChainMap) (q : ChainKey × String), q ∈ ps.foldl mapInsertNew l → q ∈ l ∨ q ∈ ps := by
    intro ps
    induction ps with
    | nil => intro l q hq; exact Or.inl hq
    | cons a t ih =>
      intro l q hq
      simp only [List.foldl_cons] at hq
      rcases ih _ _ hq with h1 | h1
      · unfold mapInsertNew at h1
        split at h1
        · exact Or.inl h1
        · rcases List.mem_append.1 h1 with h2 | h2
          · exact Or.inl h2
          · simp at h2; exact Or.inr (by simp [h2])
      · exact Or.inr (List.mem_cons_of_mem _ h1)
  have hupd : ∀ (ps l : ChainMap) (q : ChainKey × String), q ∈ ps.foldl (fun l p => amSet l p.1 p.2) l → q ∈ l ∨ q ∈ ps := by
    intro ps
    induction ps with
    | nil => intro l q hq; exact Or.inl hq
    | cons a t ih =>
      intro l q hq
      simp only [List.foldl_cons] at hq
      rcases ih _ _ hq with h1 | h1
      · rcases mem_amSet h1 with h2 | h2
        · exact Or.inr (by simp [h2])
        · exact Or.inl h2
      · exact Or.inr (List.mem_cons_of_mem _ h1)
  rcases hupd _ _ _ h with h1 | h1
  · exact Or.inl h1
  · rcases hown _ _ _ h1 with h2 | h2
    · simp at h2
    · simp only [reportPairs, List.mem_map, List.mem_filter] at h2
      obtain ⟨m, ⟨hm, hsn⟩, rfl⟩ := h2
      exact Or.inr ⟨m, hm, hsn, rfl, rfl⟩

/-- which models are DUMPED does not depend on the bookkeeping: the list filter of fix b2b4dd9 -/
theorem dropLoopR_final (reported : ChainMap) (ms : List TModel) (s : Store) (seen : List ChainKey)
    (kept : List (Bool × TModel)) (s' : Store) (kept' : List (Bool × TModel))
    (h : dropLoopR reported ms s seen kept = some (s', kept')) :
    finalModels kept' = finalModels kept ++ ms.filter (keepModel (chainKeys reported)) := by
  induction ms generalizing s seen kept with
  | nil =>
    simp only [dropLoopR, Option.some.injEq, Prod.mk.injEq] at h
    simp [h.2]
  | cons m t ih =>
    simp only [dropLoopR] at h
    cases hsn : isSplicedNovel m with
    | false =>
      simp only [hsn, Bool.false_eq_true, if_false] at h
      rw [ih _ _ _ h]
      simp [finalModels, keepModel, hsn]
    | true =>
      simp only [hsn, if_true] at h
      cases hg : amGet? reported (chainKey m) with
      | none =>
        simp only [hg] at h
        rw [ih _ _ _ h]
        have : chainKey m ∉ chainKeys reported := amGet?_none_iff.1 hg
        simp [finalModels, keepModel, hsn, this]
      | some first =>
        simp only [hg] at h
        have hin : chainKey m ∈ chainKeys reported := chainKeys_amGet?.2 ⟨first, hg⟩
        split at h
        · split at h
          · simp at h
          · rw [ih _ _ _ h]
            simp [keepModel, hsn, hin]
        · split at h
          · simp at h
          · rw [ih _ _ _ h]
            simp [finalModels, keepModel, hsn, hin]

/-- when no chain is repeated the loop changes nothing -/
theorem dropLoopR_all_kept (reported : ChainMap) (ms : List TModel) (s : Store) (seen : List ChainKey)
    (kept : List (Bool × TModel)) (hall : ∀ m ∈ ms, keepModel (chainKeys reported) m = true) :
    dropLoopR reported ms s seen kept = some (s, kept ++ ms.map (fun m => (false, m))) := by
  induction ms generalizing kept with
  | nil => simp [dropLoopR]
  | cons m t ih =>
    have hm := hall m (by simp)
    unfold keepModel at hm
    simp only [dropLoopR]
    cases hsn : isSplicedNovel m with
    | false =>
      simp only [Bool.false_eq_true, if_false]
      rw [ih _ (fun x hx => hall x (by simp [hx]))]
      simp
    | true =>
      simp only [hsn, Bool.true_and, Bool.not_eq_true', decide_eq_false_iff_not] at hm
      simp only [if_true, amGet?_none_iff.2 hm]
      rw [ih _ (fun x hx => hall x (by simp [hx]))]
      simp

/-- the current `drop_novel_chains_reported_elsewhere`: the dumped models and the new dict -/
theorem dropKeep_spec {s s6 : Store} {reported rep' : ChainMap} {final : List TModel}
    (h : s.dropKeep reported = some (s6, final, rep')) :
    final = s.models.filter (keepModel (chainKeys reported)) ∧ rep' = mapUpdate reported final := by
  unfold Store.dropKeep at h
  split at h
  · simp at h
  · rename_i s1 kept hl
    simp only [Option.some.injEq, Prod.mk.injEq] at h
    obtain ⟨_, rfl, rfl⟩ := h
    have := dropLoopR_final _ _ _ _ _ _ _ hl
    simp only [finalModels, List.filter_nil, List.map_nil, List.nil_append] at this
    exact ⟨this, rfl⟩

/-! ### round `c04rep2`: the dict of models -/

def modelKeys (mm : ModelMap) : List ChainKey := mm.map (·.1)

theorem chainKeys_idMapOf (mm : ModelMap) : chainKeys (idMapOf mm) = modelKeys mm := by
  simp [chainKeys, idMapOf, modelKeys, List.map_map, Function.comp_def]

theorem amGet?_idMapOf (mm : ModelMap) (k : ChainKey) : amGet? (idMapOf mm) k = (amGet? mm k).map (·.tid) := by
  induction mm with
  | nil => rfl
  | cons a t ih =>
    obtain ⟨k', v⟩ := a
    simp only [idMapOf, List.map_cons, amGet?] at ih ⊢
    split
    · rfl
    · exact ih

theorem amHas_idMapOf (mm : ModelMap) (k : ChainKey) : amHas (idMapOf mm) k = amHas mm k := by
  simp [amHas, amGet?_idMapOf]

theorem idMapOf_amSet (mm : ModelMap) (k : ChainKey) (v : TModel) : idMapOf (amSet mm k v) = amSet (idMapOf mm) k v.tid := by
  induction mm with
  | nil => rfl
  | cons a t ih =>
    obtain ⟨k', v'⟩ := a
    simp only [idMapOf, List.map_cons, amSet] at ih ⊢
    split
    · rfl
    · simp only [List.map_cons, ih]

theorem idMapOf_insertNew (l : ModelMap) (p : ChainKey × TModel) :
    idMapOf (modelInsertNew l p) = mapInsertNew (idMapOf l) (p.1, p.2.tid) := by
  unfold modelInsertNew mapInsertNew
  rw [amHas_idMapOf]
  split
  · rfl
  · simp [idMapOf]

theorem idMapOf_foldl_insertNew (ps l : ModelMap) :
    idMapOf (ps.foldl modelInsertNew l) = (idMapOf ps).foldl mapInsertNew (idMapOf l) := by
  induction ps generalizing l with
  | nil => rfl
  | cons a t ih =>
    simp only [List.foldl_cons, ih, idMapOf_insertNew]
    rfl

theorem idMapOf_foldl_amSet (ps l : ModelMap) :
    idMapOf (ps.foldl (fun l p => amSet l p.1 p.2) l) = (idMapOf ps).foldl (fun l p => amSet l p.1 p.2) (idMapOf l) := by
  induction ps generalizing l with
  | nil => rfl
  | cons a t ih =>
    simp only [List.foldl_cons, ih, idMapOf_amSet]
    rfl

theorem idMapOf_modelPairs (ms : List TModel) : idMapOf (modelPairs ms) = reportPairs ms := by
  simp [idMapOf, modelPairs, reportPairs, List.map_map, Function.comp_def]

/-- fix 0c8e711's dict is the id view of the current one -/
theorem idMapOf_mapUpdateM (reported : ModelMap) (ms : List TModel) :
    idMapOf (mapUpdateM reported ms) = mapUpdate (idMapOf reported) ms := by
  unfold mapUpdateM mapUpdate
  rw [idMapOf_foldl_amSet, idMapOf_foldl_insertNew, idMapOf_modelPairs]
  rfl

theorem mem_modelKeys_mapUpdateM {reported : ModelMap} {ms : List TModel} {x : ChainKey} :
    x ∈ modelKeys (mapUpdateM reported ms) ↔ x ∈ modelKeys reported ∨ x ∈ reportKeys ms := by
  rw [← chainKeys_idMapOf, idMapOf_mapUpdateM, mem_chainKeys_mapUpdate, chainKeys_idMapOf]

/-- every model the update stores is a spliced novel model of the list, under its own chain -/
theorem mem_mapUpdateM {reported : ModelMap} {ms : List TModel} {p : ChainKey × TModel} (h : p ∈ mapUpdateM reported ms) :
    p ∈ reported ∨ (p.2 ∈ ms ∧ isSplicedNovel p.2 = true ∧ chainKey p.2 = p.1) := by
  unfold mapUpdateM at h
  have hown : ∀ (ps l : ModelMap) (q : ChainKey × TModel), q ∈ ps.foldl modelInsertNew l → q ∈ l ∨ q ∈ ps := by
    intro ps
    induction ps with
    | nil => intro l q hq; exact Or.inl hq
    | cons a t ih =>
      intro l q hq
      simp only [List.foldl_cons] at hq
      rcases ih _ _ hq with h1 | h1
      · unfold modelInsertNew at h1
        split at h1
        · exact Or.inl h1
        · rcases List.mem_append.1 h1 with h2 | h2
          · exact Or.inl h2
          · simp at h2; exact Or.inr (by simp [h2])
      · exact Or.inr (List.mem_cons_of_mem _ h1)
  have hupd : ∀ (ps l : ModelMap) (q : ChainKey × TModel), q ∈ ps.foldl (fun l p => amSet l p.1 p.2) l → q ∈ l ∨ q ∈ ps := by
    intro ps
    induction ps with
    | nil => intro l q hq; exact Or.inl hq
    | cons a t ih =>
      intro l q hq
      simp only [List.foldl_cons] at hq
      rcases ih _ _ hq with h1 | h1
      · rcases mem_amSet h1 with h2 | h2
        · exact Or.inr (by simp [h2])
        · exact Or.inl h2
      · exact Or.inr (List.mem_cons_of_mem _ h1)
  rcases hupd _ _ _ h with h1 | h1
  · exact Or.inl h1
  · rcases hown _ _ _ h1 with h2 | h2
    · simp at h2
    · simp only [modelPairs, List.mem_map, List.mem_filter] at h2
      obtain ⟨m, ⟨hm, hsn⟩, rfl⟩ := h2
      exact Or.inr ⟨hm, hsn, rfl⟩

/-- the copies that join are values of the dict, in dict order -/
theorem mem_overlapping {span : Int × Int} {mm : ModelMap} {em : List TModel} (h : overlapping span mm = some em) {m : TModel} :
    m ∈ em ↔ ∃ k a b, (k, m) ∈ mm ∧ m.startPos = some a ∧ m.endPos = some b ∧ a ≤ span.2 ∧ span.1 ≤ b := by
  induction mm generalizing em with
  | nil =>
    simp only [overlapping, Option.some.injEq] at h
    subst h; simp
  | cons x t ih =>
    obtain ⟨k', m'⟩ := x
    simp only [overlapping] at h
    split at h
    · rename_i a b r ha hb hr
      simp only [Option.some.injEq] at h
      subst h
      have ih' := ih hr
      constructor
      · intro hm
        split at hm
        · rename_i hov
          rcases List.mem_cons.1 hm with rfl | hm'
          · exact ⟨k', a, b, by simp, ha, hb, hov.1, hov.2⟩
          · obtain ⟨k, a', b', hk, hx⟩ := ih'.1 hm'
            exact ⟨k, a', b', List.mem_cons_of_mem _ hk, hx⟩
        · obtain ⟨k, a', b', hk, hx⟩ := ih'.1 hm
          exact ⟨k, a', b', List.mem_cons_of_mem _ hk, hx⟩
      · rintro ⟨k, a', b', hk, ha', hb', h1, h2⟩
        rcases List.mem_cons.1 hk with heq | hk'
        · simp only [Prod.mk.injEq] at heq
          obtain ⟨_, rfl⟩ := heq
          rw [ha] at ha'; rw [hb] at hb'
          simp only [Option.some.injEq] at ha' hb'
          subst ha' hb'
          simp [h1, h2]
        · have := ih'.2 ⟨k, a', b', hk', ha', hb', h1, h2⟩
          split
          · exact List.mem_cons_of_mem _ this
          · exact this
    · simp at h

/-- the current `drop_novel_chains_reported_elsewhere`: dumped models, the storage of the second assignment, the new dict, and
    the bookkeeping (the deletion loop is the loop of fix b2b4dd9) -/
theorem dropJoin_spec {s s6 : Store} {reported rep' : ModelMap} {span : Option (Int × Int)} {final : List TModel}
    (h : s.dropJoin reported span = some (s6, final, rep')) :
    final = s.models.filter (keepModel (modelKeys reported)) ∧ rep' = mapUpdateM reported final ∧
    ∃ em s', earlierModels reported span = some em ∧ s6.models = final ++ em ∧
      s.dropReported (modelKeys reported) = some (s', keyUnion (modelKeys reported) (reportKeys final)) ∧ s'.models = final ∧
      s6.readIds = s'.readIds ∧ s6.counter = s'.counter ∧ s6.rcount = s'.rcount := by
  unfold Store.dropJoin at h
  rw [chainKeys_idMapOf] at h
  split at h
  · simp at h
  · rename_i s1 rk hd
    split at h
    · simp at h
    · rename_i em he
      simp only [Option.some.injEq, Prod.mk.injEq] at h
      obtain ⟨rfl, rfl, rfl⟩ := h
      obtain ⟨hm, hr, _⟩ := dropReported_spec hd
      refine ⟨hm, rfl, em, s1, he, rfl, ?_, rfl, rfl, rfl, rfl⟩
      rw [hd, hr]

/-! ### the tail of `process()` -/

/-- what the dumped storage of a current constructor holds and what it hands on -/
theorem regionTail_fixed_spec {reported rep' : ModelMap} {r : RegionIn} {s5 s : Store}
    (h : regionTail .joinEarlier reported r s5 = some (s, rep')) :
    reportKeys s.models = reportKeys (s5.models.filter (keepModel (modelKeys reported))) ∧
    (∀ k, k ∈ modelKeys rep' ↔ k ∈ modelKeys reported ∨ k ∈ reportKeys s.models) ∧
    s.models = (s5.models.filter (keepModel (modelKeys reported))).map (fun m => { m with gene := r.newGene m }) ∧
    rep' = mapUpdateM reported (s5.models.filter (keepModel (modelKeys reported))) := by
  unfold regionTail at h
  simp only at h
  split at h
  · simp at h
  · rename_i s6 final rep hd
    simp only [Option.some.injEq, Prod.mk.injEq] at h
    obtain ⟨rfl, rfl⟩ := h
    obtain ⟨hf, hr, _⟩ := dropJoin_spec hd
    subst hf
    refine ⟨reportKeys_map_gene _ _, ?_, rfl, hr⟩
    intro k
    rw [hr, mem_modelKeys_mapUpdateM]
    simp only [reportKeys_map_gene]

/-- the code of fix b2b4dd9 dumps the same models and hands on the same dict -/
theorem regionTail_b2b4_spec {reported rep' : ModelMap} {r : RegionIn} {s5 s : Store}
    (h : regionTail .dropOnly reported r s5 = some (s, rep')) :
    s.models = (s5.models.filter (keepModel (modelKeys reported))).map (fun m => { m with gene := r.newGene m }) ∧
    rep' = mapUpdateM reported (s5.models.filter (keepModel (modelKeys reported))) := by
  unfold regionTail at h
  simp only [chainKeys_idMapOf] at h
  split at h
  · simp at h
  · rename_i s6 rep hd
    simp only [Option.some.injEq, Prod.mk.injEq] at h
    obtain ⟨rfl, rfl⟩ := h
    obtain ⟨hm, _, _⟩ := dropReported_spec hd
    simp only [assignReads_models]
    rw [hm]
    exact ⟨rfl, rfl⟩

/-- … and so does the code of fix 0c8e711 -/
theorem regionTail_0c8e_spec {reported rep' : ModelMap} {r : RegionIn} {s5 s : Store}
    (h : regionTail .renameCopy reported r s5 = some (s, rep')) :
    s.models = (s5.models.filter (keepModel (modelKeys reported))).map (fun m => { m with gene := r.newGene m }) ∧
    rep' = mapUpdateM reported (s5.models.filter (keepModel (modelKeys reported))) := by
  unfold regionTail at h
  simp only at h
  split at h
  · simp at h
  · rename_i s6 final rep hd
    simp only [Option.some.injEq, Prod.mk.injEq] at h
    obtain ⟨rfl, rfl⟩ := h
    obtain ⟨hf, _⟩ := dropKeep_spec hd
    rw [chainKeys_idMapOf] at hf
    subst hf
    exact ⟨rfl, rfl⟩

theorem regionTail_orig_spec {reported rep' : ModelMap} {r : RegionIn} {s5 s : Store}
    (h : regionTail .none reported r s5 = some (s, rep')) :
    rep' = reported ∧ s.models = s5.models.map (fun m => { m with gene := r.newGene m }) := by
  unfold regionTail at h
  simp only [Option.some.injEq, Prod.mk.injEq] at h
  obtain ⟨rfl, rfl⟩ := h
  simp [assignReads_models]

/-! ### the loop over the constructors -/

theorem chrKeys_append (a b : List Store) : chrKeys (a ++ b) = chrKeys a ++ chrKeys b := by
  simp [chrKeys]

theorem chrKeys_single (s : Store) : chrKeys [s] = reportKeys s.models := by
  simp [chrKeys]

/-- the reports already made are a prefix of the final list -/
theorem runChromosome_prefix (rp : Repair) (next : Nat → Nat) (regs : List RegionIn) (cs : ChrState) (acc : List Store)
    (cs' : ChrState) (reps : List Store) (h : runChromosome rp next regs cs acc = some (cs', reps)) :
    ∃ new, reps = acc ++ new ∧ new.length = regs.length := by
  induction regs generalizing cs acc with
  | nil =>
    simp only [runChromosome, Option.some.injEq, Prod.mk.injEq] at h
    exact ⟨[], by simp [h.2], rfl⟩
  | cons r t ih =>
    simp only [runChromosome] at h
    split at h
    · simp at h
    · rename_i cs1 s hp
      obtain ⟨new, hn, hl⟩ := ih _ _ h
      exact ⟨s :: new, by simp [hn], by simp [hl]⟩

/-- the model a dumped model was before the joiner renamed its gene -/
def SameModel (a b : TModel) : Prop := a.tid = b.tid ∧ a.exons = b.exons ∧ a.strand = b.strand ∧ chainKey a = chainKey b

/-- one current constructor: its keys are new, the dict it hands on has the old keys plus its keys, and every new entry is a
    model it dumps (up to the gene id the joiner writes), stored under that model's chain -/
theorem processRegion_fixed_keys {next : Nat → Nat} {cs cs' : ChrState} {r : RegionIn} {s : Store}
    (h : processRegion .joinEarlier next cs r = some (cs', s)) :
    (∀ k ∈ reportKeys s.models, k ∉ modelKeys cs.reported) ∧
    (∀ k, k ∈ modelKeys cs'.reported ↔ k ∈ modelKeys cs.reported ∨ k ∈ reportKeys s.models) ∧
    (∀ p ∈ cs'.reported, p ∈ cs.reported ∨
      ∃ m ∈ s.models, isSplicedNovel m = true ∧ chainKey m = p.1 ∧ SameModel m p.2) := by
  unfold processRegion at h
  split at h
  · simp at h
  · rename_i st2 s5 hh
    split at h
    · simp at h
    · rename_i s0 rep ht
      simp only [Option.some.injEq, Prod.mk.injEq] at h
      obtain ⟨rfl, rfl⟩ := h
      obtain ⟨hk, hr, hms, hrep⟩ := regionTail_fixed_spec ht
      refine ⟨?_, hr, ?_⟩
      · rw [hk]
        exact reportKeys_filter_fresh _ _
      · intro p hp
        simp only at hp
        rw [hrep] at hp
        rcases mem_mapUpdateM hp with h1 | ⟨hm, hsn, hck⟩
        · exact Or.inl h1
        · refine Or.inr ⟨{ p.2 with gene := r.newGene p.2 }, ?_, hsn, hck, rfl, rfl, rfl, rfl⟩
          rw [hms]
          exact List.mem_map.2 ⟨p.2, hm, rfl⟩

/-- the invariant of the current loop: the keys of the class-level dict are exactly the keys reported so far, every entry is
    a model that IS in the output under that chain, and no key was reported by two constructors -/
theorem runChromosome_fixed_inv (next : Nat → Nat) (regs : List RegionIn) (cs : ChrState) (acc : List Store)
    (cs' : ChrState) (reps : List Store) (h : runChromosome .joinEarlier next regs cs acc = some (cs', reps))
    (hsub : ∀ k, k ∈ modelKeys cs.reported ↔ k ∈ chrKeys acc)
    (hids : ∀ p ∈ cs.reported, ∃ s ∈ acc, ∃ m ∈ s.models, isSplicedNovel m = true ∧ chainKey m = p.1 ∧ SameModel m p.2) :
    (∀ k, k ∈ modelKeys cs'.reported ↔ k ∈ chrKeys reps) ∧
    (∀ p ∈ cs'.reported, ∃ s ∈ reps, ∃ m ∈ s.models, isSplicedNovel m = true ∧ chainKey m = p.1 ∧ SameModel m p.2) ∧
    ((chrKeys acc).Nodup → (∀ s ∈ reps, (reportKeys s.models).Nodup) → (chrKeys reps).Nodup) := by
  induction regs generalizing cs acc with
  | nil =>
    simp only [runChromosome, Option.some.injEq, Prod.mk.injEq] at h
    obtain ⟨rfl, rfl⟩ := h
    exact ⟨hsub, hids, fun hn _ => hn⟩
  | cons r t ih =>
    simp only [runChromosome] at h
    split at h
    · simp at h
    · rename_i cs1 s hp
      obtain ⟨hfresh, hrep, hnew⟩ := processRegion_fixed_keys hp
      have hsub1 : ∀ k, k ∈ modelKeys cs1.reported ↔ k ∈ chrKeys (acc ++ [s]) := by
        intro k
        rw [hrep, chrKeys_append, chrKeys_single, List.mem_append, hsub k]
      have hids1 : ∀ p ∈ cs1.reported, ∃ s' ∈ acc ++ [s], ∃ m ∈ s'.models,
          isSplicedNovel m = true ∧ chainKey m = p.1 ∧ SameModel m p.2 := by
        intro p hp'
        rcases hnew p hp' with h1 | ⟨m, hm, hx⟩
        · obtain ⟨s', hs', hx⟩ := hids p h1
          exact ⟨s', by simp [hs'], hx⟩
        · exact ⟨s, by simp, m, hm, hx⟩
      obtain ⟨h1, h1b, h2⟩ := ih _ _ h hsub1 hids1
      refine ⟨h1, h1b, fun hn hper => h2 ?_ hper⟩
      rw [chrKeys_append, chrKeys_single]
      obtain ⟨new, hnew', _⟩ := runChromosome_prefix _ _ _ _ _ _ _ h
      have hs : s ∈ reps := by rw [hnew']; simp
      rw [List.nodup_append]
      refine ⟨hn, hper s hs, ?_⟩
      intro a ha b hb hab
      subst hab
      exact hfresh a hb ((hsub a).2 ha)

/-! ### round `c04rep`: what the renaming step does to the bookkeeping -/

/-- `transcript_read_ids[n] = transcript_read_ids.pop(o)`, `internal_counter[n] = internal_counter.pop(o)`:
    `read_assignment_counts` is NOT touched (fix b2b4dd9 went through `delete_from_storage`, which decrements it) -/
theorem renameTid_spec {s s' : Store} {o n : String} (h : s.renameTid o n = some s') :
    s'.models = s.models ∧ s'.rcount = s.rcount ∧
    (∀ t, cnt s'.counter t = if t = n then cnt s.counter o else if t = o then 0 else cnt s.counter t) ∧
    (∀ t, readsIn s'.readIds t = if t = n then readsIn s.readIds o else if t = o then [] else readsIn s.readIds t) := by
  unfold Store.renameTid at h
  split at h
  · simp only [Option.some.injEq] at h
    subst h
    refine ⟨rfl, rfl, fun t => ?_, fun t => ?_⟩
    · simp only [cnt_amSet, cnt_amErase]
    · simp only [readsIn_amSet, readsIn_amErase, readsOf_eq]
  · simp at h

theorem renameTid_counterLe {s s' : Store} {o n : String} (hc : CounterLe s) (h : s.renameTid o n = some s') :
    CounterLe s' := by
  obtain ⟨_, _, h1, h2⟩ := renameTid_spec h
  intro t
  rw [h1, h2]
  split
  · exact hc o
  · split
    · simp
    · exact hc t

theorem eq_of_nodup_ids {ms : List TModel} (hnd : (ids ms).Nodup) {a b : TModel} (ha : a ∈ ms) (hb : b ∈ ms)
    (h : a.tid = b.tid) : a = b := by
  induction ms with
  | nil => simp at ha
  | cons x t ih =>
    simp only [ids, List.map_cons, List.nodup_cons, List.mem_map, not_exists, not_and] at hnd
    simp only [List.mem_cons] at ha hb
    rcases ha with rfl | ha <;> rcases hb with rfl | hb
    · rfl
    · exact absurd h.symm (hnd.1 b hb)
    · exact absurd h (hnd.1 a ha)
    · exact ih hnd.2 ha hb

/-- the loop keeps `internal_counter[t] ≤ |transcript_read_ids[t]|` -/
theorem dropLoopR_counterLe (reported : ChainMap) (ms : List TModel) (s : Store) (seen : List ChainKey)
    (kept : List (Bool × TModel)) (s' : Store) (kept' : List (Bool × TModel))
    (h : dropLoopR reported ms s seen kept = some (s', kept')) (hc : CounterLe s) : CounterLe s' := by
  induction ms generalizing s seen kept with
  | nil =>
    simp only [dropLoopR, Option.some.injEq, Prod.mk.injEq] at h
    rw [← h.1]; exact hc
  | cons m t ih =>
    simp only [dropLoopR] at h
    split at h
    · split at h
      · exact ih _ _ _ h hc
      · split at h
        · split at h
          · simp at h
          · rename_i s1 hd
            exact ih _ _ _ h (deleteFromStorage_counterLe hc hd)
        · split at h
          · simp at h
          · rename_i s1 hr
            exact ih _ _ _ h (renameTid_counterLe hc hr)
    · exact ih _ _ _ h hc

/-- frame: a transcript id none of whose models is a repeated copy, and which no renaming of the loop writes to, keeps its
    counter and its read list through the loop -/
theorem dropLoopR_frameG (reported : ChainMap) (tid : String)
    (ms : List TModel) (s : Store) (seen : List ChainKey)
    (kept : List (Bool × TModel)) (s' : Store) (kept' : List (Bool × TModel))
    (h : dropLoopR reported ms s seen kept = some (s', kept'))
    (hnew : ∀ m ∈ ms, isSplicedNovel m = true → amGet? reported (chainKey m) ≠ some tid)
    (hkeep : ∀ m ∈ ms, m.tid = tid → keepModel (chainKeys reported) m = true) :
    cnt s'.counter tid = cnt s.counter tid ∧ readsIn s'.readIds tid = readsIn s.readIds tid := by
  induction ms generalizing s seen kept with
  | nil =>
    simp only [dropLoopR, Option.some.injEq, Prod.mk.injEq] at h
    rw [← h.1]; exact ⟨rfl, rfl⟩
  | cons m t ih =>
    have hrest : ∀ x ∈ t, x.tid = tid → keepModel (chainKeys reported) x = true :=
      fun x hx => hkeep x (List.mem_cons_of_mem _ hx)
    have hnrest : ∀ x ∈ t, isSplicedNovel x = true → amGet? reported (chainKey x) ≠ some tid :=
      fun x hx => hnew x (List.mem_cons_of_mem _ hx)
    simp only [dropLoopR] at h
    split at h
    · rename_i hsn
      split at h
      · exact ih _ _ _ h hnrest hrest
      · rename_i first hg
        have hin : chainKey m ∈ chainKeys reported := chainKeys_amGet?.2 ⟨first, hg⟩
        have hne : m.tid ≠ tid := by
          intro heq
          have := hkeep m (by simp) heq
          simp [keepModel, hsn, hin] at this
        have hf : first ≠ tid := by
          intro heq
          exact hnew m (by simp) hsn (by rw [hg, heq])
        split at h
        · split at h
          · simp at h
          · rename_i s1 hd
            obtain ⟨_, h1, h2, _⟩ := deleteFromStorage_spec hd
            obtain ⟨i1, i2⟩ := ih _ _ _ h hnrest hrest
            rw [i1, i2, h1, h2]
            simp [Ne.symm hne]
        · split at h
          · simp at h
          · rename_i s1 hr
            obtain ⟨_, _, h1, h2⟩ := renameTid_spec hr
            obtain ⟨i1, i2⟩ := ih _ _ _ h hnrest hrest
            rw [i1, i2, h1, h2]
            simp [Ne.symm hne, Ne.symm hf]
    · exact ih _ _ _ h hnrest hrest

/-- … in particular an id that is not the id of any model reported first -/
theorem dropLoopR_frame (reported : ChainMap) (tid : String) (hfirst : ∀ p ∈ reported, p.2 ≠ tid)
    (ms : List TModel) (s : Store) (seen : List ChainKey)
    (kept : List (Bool × TModel)) (s' : Store) (kept' : List (Bool × TModel))
    (h : dropLoopR reported ms s seen kept = some (s', kept'))
    (hkeep : ∀ m ∈ ms, m.tid = tid → keepModel (chainKeys reported) m = true) :
    cnt s'.counter tid = cnt s.counter tid ∧ readsIn s'.readIds tid = readsIn s.readIds tid :=
  dropLoopR_frameG reported tid ms s seen kept s' kept' h
    (fun m _ _ hg => hfirst (chainKey m, tid) (amGet?_mem hg) rfl) hkeep

/-- the reads of a repeated chain: if the constructor holds no chain twice and ids are what the shared distributor makes them
    (distinct in the storage, the ids in the dict not among them, different chains under different ids), then after the loop
    the id of the model reported first carries exactly the read list and the counter the local copy had -/
theorem dropLoopR_moves_reads (reported : ChainMap)
    (hinj : ∀ p ∈ reported, ∀ q ∈ reported, p.2 = q.2 → p.1 = q.1)
    (m : TModel) (first : String) (hsn : isSplicedNovel m = true) (hg : amGet? reported (chainKey m) = some first)
    (ms : List TModel) (s : Store) (seen : List ChainKey)
    (kept : List (Bool × TModel)) (s' : Store) (kept' : List (Bool × TModel))
    (h : dropLoopR reported ms s seen kept = some (s', kept'))
    (hm : m ∈ ms) (hnd : (ids ms).Nodup) (hkeys : (reportKeys ms).Nodup) (hseen : ∀ k ∈ reportKeys ms, k ∉ seen)
    (hfirst : ∀ p ∈ reported, p.2 ∉ ids ms) :
    cnt s'.counter first = cnt s.counter m.tid ∧ readsIn s'.readIds first = readsIn s.readIds m.tid := by
  induction ms generalizing s seen kept with
  | nil => simp at hm
  | cons x t ih =>
    have hndt : (ids t).Nodup := by
      simp only [ids, List.map_cons, List.nodup_cons] at hnd; exact hnd.2
    have hfirstt : ∀ p ∈ reported, p.2 ∉ ids t := by
      intro p hp hin
      exact hfirst p hp (by simp only [ids, List.map_cons, List.mem_cons]; exact Or.inr hin)
    by_cases hxm : x = m
    · -- the step of `m` itself renames; nothing after it touches `first`
      subst hxm
      have hk : reportKeys (x :: t) = chainKey x :: reportKeys t := by simp [reportKeys, hsn]
      rw [hk] at hkeys hseen
      simp only [List.nodup_cons] at hkeys
      have hns : chainKey x ∉ seen := hseen _ (by simp)
      simp only [dropLoopR, hsn, if_true, hg, hns, if_false] at h
      split at h
      · simp at h
      · rename_i s1 hr
        obtain ⟨_, _, h1, h2⟩ := renameTid_spec hr
        have hfr := dropLoopR_frameG reported first t s1 _ _ s' kept' h ?_ ?_
        · rw [hfr.1, hfr.2, h1, h2]; simp
        · intro y hy hysn hyg
          have : chainKey y = chainKey x :=
            hinj (chainKey y, first) (amGet?_mem hyg) (chainKey x, first) (amGet?_mem hg) rfl
          exact hkeys.1 (this ▸ mem_reportKeys.2 ⟨y, hy, hysn, rfl⟩)
        · intro y hy hyt
          exact absurd (by simp only [ids, List.map_cons, List.mem_cons]; exact Or.inr (List.mem_map.2 ⟨y, hy, hyt⟩))
            (hfirst (chainKey x, first) (amGet?_mem hg))
    · have hmt : m ∈ t := by
        rcases List.mem_cons.1 hm with h1 | h1
        · exact absurd h1.symm hxm
        · exact h1
      have hxt : x.tid ≠ m.tid := by
        intro heq
        exact hxm (eq_of_nodup_ids hnd (by simp) hm heq)
      have hmid : m.tid ∈ ids (x :: t) := List.mem_map.2 ⟨m, hm, rfl⟩
      simp only [dropLoopR] at h
      cases hxsn : isSplicedNovel x with
      | false =>
        have hk : reportKeys (x :: t) = reportKeys t := by simp [reportKeys, hxsn]
        rw [hk] at hkeys hseen
        simp only [hxsn, Bool.false_eq_true, if_false] at h
        exact ih _ _ _ h hmt hndt hkeys hseen hfirstt
      | true =>
        have hk : reportKeys (x :: t) = chainKey x :: reportKeys t := by simp [reportKeys, hxsn]
        rw [hk] at hkeys hseen
        simp only [List.nodup_cons] at hkeys
        simp only [hxsn, if_true] at h
        split at h
        · exact ih _ _ _ h hmt hndt hkeys.2 (fun k hk' => hseen k (List.mem_cons_of_mem _ hk')) hfirstt
        · rename_i fx hgx
          have hns : chainKey x ∉ seen := hseen _ (by simp)
          simp only [hns, if_false] at h
          split at h
          · simp at h
          · rename_i s1 hr
            obtain ⟨_, _, h1, h2⟩ := renameTid_spec hr
            have hfx : fx ≠ m.tid := fun heq => hfirst (chainKey x, fx) (amGet?_mem hgx) (heq ▸ hmid)
            have := ih _ _ _ h hmt hndt hkeys.2 (by
              intro k hk' hmem
              rcases List.mem_append.1 hmem with h3 | h3
              · exact hseen k (List.mem_cons_of_mem _ hk') h3
              · simp only [List.mem_singleton] at h3
                subst h3
                exact hkeys.1 hk') hfirstt
            rw [this.1, this.2, h1, h2]
            simp [Ne.symm hfx, Ne.symm hxt]

/-- when the constructor holds no chain twice, `read_assignment_counts` leaves the loop as it entered it: no listed read is
    turned into a `*` line by the step (fix b2b4dd9 decremented the count of every read of the repeated model) -/
theorem dropLoopR_rcount (reported : ChainMap) (ms : List TModel) (s : Store) (seen : List ChainKey)
    (kept : List (Bool × TModel)) (s' : Store) (kept' : List (Bool × TModel))
    (h : dropLoopR reported ms s seen kept = some (s', kept'))
    (hnd : (reportKeys ms).Nodup) (hseen : ∀ k ∈ reportKeys ms, k ∉ seen) : s'.rcount = s.rcount := by
  induction ms generalizing s seen kept with
  | nil =>
    simp only [dropLoopR, Option.some.injEq, Prod.mk.injEq] at h
    rw [← h.1]
  | cons m t ih =>
    simp only [dropLoopR] at h
    cases hsn : isSplicedNovel m with
    | false =>
      have hk : reportKeys (m :: t) = reportKeys t := by simp [reportKeys, hsn]
      rw [hk] at hnd hseen
      simp only [hsn, Bool.false_eq_true, if_false] at h
      exact ih _ _ _ h hnd hseen
    | true =>
      have hk : reportKeys (m :: t) = chainKey m :: reportKeys t := by simp [reportKeys, hsn]
      rw [hk] at hnd hseen
      simp only [List.nodup_cons] at hnd
      simp only [hsn, if_true] at h
      split at h
      · exact ih _ _ _ h hnd.2 (fun k hk' => hseen k (List.mem_cons_of_mem _ hk'))
      · have hns : chainKey m ∉ seen := hseen _ (by simp)
        simp only [hns, if_false] at h
        split at h
        · simp at h
        · rename_i s1 hr
          obtain ⟨_, hrc, _, _⟩ := renameTid_spec hr
          rw [← hrc]
          refine ih _ _ _ h hnd.2 ?_
          intro k hk' hmem
          rcases List.mem_append.1 hmem with h1 | h1
          · exact hseen k (List.mem_cons_of_mem _ hk') h1
          · simp only [List.mem_singleton] at h1
            subst h1
            exact hnd.1 hk'

/-! ### round `c04rep2`: what the second `assign_reads_to_models` does with a read that is still unassigned -/

theorem foldl_match_lists (read t : String) (ms : List String) (s : Store)
    (h : t ∈ ms ∨ read ∈ readsIn s.readIds t) :
    read ∈ readsIn (ms.foldl (fun s m => { s with rcount := amSet s.rcount read (cnt s.rcount read + 1),
                                                   readIds := amSet s.readIds m (readsOf s m ++ [read]) }) s).readIds t := by
  induction ms generalizing s with
  | nil =>
    rcases h with h | h
    · simp at h
    · exact h
  | cons m rest ih =>
    simp only [List.foldl_cons]
    apply ih
    by_cases hm : t = m
    · refine Or.inr ?_
      subst hm
      simp [readsIn_amSet]
    · rcases h with h | h
      · rcases List.mem_cons.1 h with h1 | h1
        · exact absurd h1 hm
        · exact Or.inl h1
      · refine Or.inr ?_
        simp only [readsIn_amSet, hm, if_false]
        exact h

/-- a read that is not assigned yet and that the assigner finds consistent is listed under every model the assigner names -/
theorem assignOne_lists (s : Store) (a : AssignIn) (t : String) (hun : ¬ cnt s.rcount a.read > 0)
    (hc : a.consistent = true) (ht : t ∈ a.matched) : a.read ∈ readsIn (assignOne s a).readIds t := by
  unfold assignOne
  simp only [hun, if_false, hc, if_true]
  exact foldl_match_lists a.read t a.matched _ (Or.inl ht)

theorem foldl_match_rcount_other (read r : String) (hne : r ≠ read) (ms : List String) (s : Store) :
    cnt (ms.foldl (fun s m => { s with rcount := amSet s.rcount read (cnt s.rcount read + 1),
                                        readIds := amSet s.readIds m (readsOf s m ++ [read]) }) s).rcount r = cnt s.rcount r := by
  induction ms generalizing s with
  | nil => rfl
  | cons m rest ih =>
    simp only [List.foldl_cons]
    rw [ih]
    simp [cnt_amSet, hne]

/-- `assign_reads_to_models` touches the count of the read it looks at only -/
theorem assignOne_rcount_other (s : Store) (a : AssignIn) (r : String) (hne : r ≠ a.read) :
    cnt (assignOne s a).rcount r = cnt s.rcount r := by
  unfold assignOne
  split
  · simp [cnt_touchInt]
  · split
    · rw [foldl_match_rcount_other a.read r hne]
      split <;> simp [cnt_touchInt]
    · simp [cnt_amSet, hne]

theorem foldl_assignOne_rcount_other (pre : List AssignIn) (s : Store) (r : String) (hne : ∀ b ∈ pre, b.read ≠ r) :
    cnt (pre.foldl assignOne s).rcount r = cnt s.rcount r := by
  induction pre generalizing s with
  | nil => rfl
  | cons b rest ih =>
    simp only [List.foldl_cons]
    rw [ih _ (fun x hx => hne x (List.mem_cons_of_mem _ hx))]
    exact assignOne_rcount_other s b r (fun h => hne b (by simp) h.symm)

theorem foldl_assignOne_grow (l : List AssignIn) (s : Store) : Grow s (l.foldl assignOne s) := by
  induction l generalizing s with
  | nil => exact Grow.refl _
  | cons a t ih => simp only [List.foldl_cons]; exact (assignOne_grow s a).trans (ih _)

/-- the second `assign_reads_to_models` on a NON-EMPTY storage: the first record of a read that is not assigned yet and that the
    assigner finds consistent puts the read under every model the assigner names, and the line stays -/
theorem assignReads_lists (s : Store) (pre post : List AssignIn) (a : AssignIn) (t : String)
    (hne : s.models ≠ []) (hpre : ∀ b ∈ pre, b.read ≠ a.read) (hun : ¬ cnt s.rcount a.read > 0)
    (hc : a.consistent = true) (ht : t ∈ a.matched) :
    (a.read, t) ∈ (s.assignReads (pre ++ a :: post)).dumpR2T := by
  unfold Store.assignReads
  have hemp : s.models.isEmpty = false := by
    cases hm : s.models with
    | nil => exact absurd hm hne
    | cons _ _ => rfl
  simp only [hemp, Bool.false_eq_true, if_false, List.foldl_append, List.foldl_cons]
  have h1 : ¬ cnt (pre.foldl assignOne s).rcount a.read > 0 := by
    rw [foldl_assignOne_rcount_other pre s a.read hpre]; exact hun
  have h2 := assignOne_lists (pre.foldl assignOne s) a t h1 hc ht
  exact mem_dump_of_reads ((foldl_assignOne_grow post _).reads t |>.subset h2)

end IsoVerif.Lemmas.C04
