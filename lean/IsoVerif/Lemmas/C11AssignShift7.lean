/-
C11 helper lemmas — translation of the assignment model, part 7: when the sentinel hypotheses hold
(finite checks for concrete reads; the genomic domain: non-negative coordinates before and after the shift).
-/
import IsoVerif.Lemmas.C11AssignShift6

namespace IsoVerif.Lemmas.C11.AssignShift
open IsoVerif.Gen IsoVerif.Model IsoVerif.Model.C01 IsoVerif.Model.C11

/-- `shift_polya` raises for more fake exons than blocks: only the counts up to the read length matter -/
theorem movedSafeA_of_le (k : Int) (read : List Iv) (pos : Int)
    (h : ∀ c, c ≤ read.length → ∀ r, C01.shiftPolya read c pos = some r → r ≠ -1 ∧ r + k ≠ -1) :
    MovedSafeA k read pos := by
  intro c r hr hp
  by_cases hc : c ≤ read.length
  · exact h c hc r hr
  · exfalso
    have h1 : ¬ (c = 0 ∨ c = read.length ∨ pos = -1) := by omega
    have h2 : c > read.length := by omega
    simp [C01.shiftPolya, h1, h2] at hr

theorem movedSafeT_of_le (k : Int) (read : List Iv) (pos : Int)
    (h : ∀ c, c ≤ read.length → ∀ r, C01.shiftPolyt read c pos = some r → r ≠ -1 ∧ r + k ≠ -1) :
    MovedSafeT k read pos := by
  intro c r hr hp
  by_cases hc : c ≤ read.length
  · exact h c hc r hr
  · exfalso
    have h1 : ¬ (c = 0 ∨ c = read.length ∨ pos = -1) := by omega
    have h2 : c > read.length := by omega
    simp [C01.shiftPolyt, h1, h2] at hr

theorem movedSafeA_absent (k : Int) (read : List Iv) : MovedSafeA k read (-1) := fun _ _ _ hp => absurd rfl hp
theorem movedSafeT_absent (k : Int) (read : List Iv) : MovedSafeT k read (-1) := fun _ _ _ hp => absurd rfl hp
theorem safePos_absent (k : Int) : SafePos k (-1) := fun hp => absurd rfl hp


/-! ## the genomic domain: non-negative coordinates before and after the shift -/

theorem pyGet?_mem {α} (l : List α) (i : Int) (b : α) (h : pyGet? l i = some b) : b ∈ l := by
  unfold pyGet? at h
  split at h
  · exact List.mem_of_getElem? h
  · split at h
    · exact List.mem_of_getElem? h
    · cases h

theorem c01_shiftPolyaLoop_ge (pos : Int) (l : List Iv) (d : Int) (hl : ∀ e ∈ l, e.1 ≤ e.2 + 1) :
    d ≤ C01.shiftPolyaLoop pos l d := by
  induction l generalizing d with
  | nil => exact Int.le_refl d
  | cons e es ih =>
    have ih' := fun d => ih d (fun x hx => hl x (List.mem_cons_of_mem _ hx))
    have he := hl e (by simp)
    simp only [C01.shiftPolyaLoop]
    split
    · exact ih' d
    · split
      · have := ih' (d + (pos - e.1)); omega
      · have := ih' (d + interval_len e); simp only [interval_len] at this ⊢; omega

theorem movedSafeA_of_nonneg (k : Int) (read : List Iv) (pos : Int)
    (hr : ∀ b ∈ read, 0 ≤ b.1 ∧ b.1 ≤ b.2 ∧ 0 ≤ b.1 + k) (hp : pos = -1 ∨ (0 ≤ pos ∧ 0 ≤ pos + k)) :
    MovedSafeA k read pos := by
  intro c r h hne
  have hpos : 0 ≤ pos ∧ 0 ≤ pos + k := by
    rcases hp with h1 | h1
    · exact absurd h1 hne
    · exact h1
  unfold C01.shiftPolya at h
  split at h
  · obtain rfl := Option.some.inj h; omega
  · split at h
    · cases h
    · split at h
      · cases h
      · rename_i b hb
        obtain rfl := Option.some.inj h
        have hbm := hr b (pyGet?_mem _ _ _ hb)
        have hloop := c01_shiftPolyaLoop_ge pos (read.reverse.take c) 0 (by
          intro e he
          have := hr e (List.mem_reverse.mp (List.mem_of_mem_take he))
          omega)
        omega

/-- the loop of `shift_polyt` over sorted disjoint blocks never counts more than the distance from the position to the
    end of the last block it visited (`X` = end of the last counted block) -/
theorem c01_shiftPolytLoop_bound (pos B : Int) (l : List Iv) (d X : Int)
    (hsd : l.Pairwise (fun a b => a.2 < b.1)) (hwf : ∀ e ∈ l, e.1 ≤ e.2) (hB : ∀ e ∈ l, e.2 < B)
    (hd : d = 0 ∨ (0 < d ∧ d ≤ X - pos ∧ (∀ e ∈ l, X < e.1) ∧ X < B)) :
    C01.shiftPolytLoop pos l d = 0 ∨
      (0 < C01.shiftPolytLoop pos l d ∧ C01.shiftPolytLoop pos l d ≤ B - 1 - pos) := by
  induction l generalizing d X with
  | nil =>
    simp only [C01.shiftPolytLoop]
    rcases hd with h | h
    · exact Or.inl h
    · right; omega
  | cons e es ih =>
    have hp := List.pairwise_cons.mp hsd
    have hwf' : ∀ x ∈ es, x.1 ≤ x.2 := fun x hx => hwf x (List.mem_cons_of_mem _ hx)
    have hB' : ∀ x ∈ es, x.2 < B := fun x hx => hB x (List.mem_cons_of_mem _ hx)
    have he := hwf e (by simp)
    have heB := hB e (by simp)
    simp only [C01.shiftPolytLoop]
    split
    · rename_i hlt
      rcases hd with h | h
      · exact ih d X hp.2 hwf' hB' (Or.inl h)
      · exfalso
        have := h.2.2.1 e (by simp)
        omega
    · rename_i hge
      split
      · rename_i hd0
        subst hd0
        by_cases hz : e.2 - pos = 0
        · have : (0 : Int) + (e.2 - pos) = 0 := by omega
          rw [this]
          exact ih 0 X hp.2 hwf' hB' (Or.inl rfl)
        · exact ih (0 + (e.2 - pos)) e.2 hp.2 hwf' hB'
            (Or.inr ⟨by omega, by omega, fun x hx => hp.1 x hx, heB⟩)
      · rename_i hd0
        rcases hd with h | h
        · exact absurd h hd0
        · have hX := h.2.2.1 e (by simp)
          exact ih (d + interval_len e) e.2 hp.2 hwf' hB'
            (Or.inr ⟨by simp only [interval_len]; omega, by simp only [interval_len]; omega,
              fun x hx => hp.1 x hx, heB⟩)

theorem pairwise_take_lt {α} (R : α → α → Prop) (l : List α) (c : Nat) (b : α) (hp : l.Pairwise R)
    (hb : l[c]? = some b) : ∀ e ∈ l.take c, R e b := by
  induction l generalizing c with
  | nil => simp at hb
  | cons x xs ih =>
    have hp' := List.pairwise_cons.mp hp
    cases c with
    | zero => intro e he; simp at he
    | succ n =>
      simp only [List.getElem?_cons_succ] at hb
      intro e he
      simp only [List.take_succ_cons, List.mem_cons] at he
      rcases he with rfl | he
      · exact hp'.1 b (List.mem_of_getElem? hb)
      · exact ih n hp'.2 hb e he

theorem movedSafeT_of_nonneg (k : Int) (read : List Iv) (pos : Int)
    (hr : ∀ b ∈ read, 0 ≤ b.1 ∧ b.1 ≤ b.2 ∧ 0 ≤ b.1 + k) (hs : read.Pairwise (fun a b => a.2 < b.1))
    (hp : pos = -1 ∨ (0 ≤ pos ∧ 0 ≤ pos + k)) :
    MovedSafeT k read pos := by
  intro c r h hne
  have hpos : 0 ≤ pos ∧ 0 ≤ pos + k := by
    rcases hp with h1 | h1
    · exact absurd h1 hne
    · exact h1
  unfold C01.shiftPolyt at h
  split at h
  · obtain rfl := Option.some.inj h; omega
  · split at h
    · cases h
    · split at h
      · cases h
      · rename_i b hb
        obtain rfl := Option.some.inj h
        have hbm := hr b (List.mem_of_getElem? hb)
        have hbound := c01_shiftPolytLoop_bound pos b.1 (read.take c) 0 0
          (List.Pairwise.sublist (List.take_sublist c read) hs)
          (fun e he => (hr e (List.mem_of_mem_take he)).2.1)
          (pairwise_take_lt _ read c b hs hb) (Or.inl rfl)
        omega

/-- the natural domain of the property: annotation and read at non-negative coordinates before and after the shift,
    well-formed exons, sorted disjoint read blocks, polyA / polyT positions absent or non-negative -/
structure Genomic (k : Int) (ms : List Isoform) (blocks : List Iv) (pa : PolyA) : Prop where
  exons : ∀ m ∈ ms, ∀ e ∈ m.exons, 0 ≤ e.1 ∧ e.1 ≤ e.2 ∧ 0 ≤ e.1 + k
  readBlocks : ∀ b ∈ blocks, 0 ≤ b.1 ∧ b.1 ≤ b.2 ∧ 0 ≤ b.1 + k
  readSorted : blocks.Pairwise (fun a b => a.2 < b.1)
  polya : ∀ x ∈ [pa.extA, pa.extT, pa.intA, pa.intT], x = -1 ∨ (0 ≤ x ∧ 0 ≤ x + k)

theorem safePos_of_nonneg (k x : Int) (h : x = -1 ∨ (0 ≤ x ∧ 0 ≤ x + k)) : SafePos k x := by
  intro hne
  rcases h with h | h
  · exact absurd h hne
  · omega

theorem noSentinel_of_genomic (k : Int) (ms : List Isoform) (blocks : List Iv) (pa : PolyA)
    (h : Genomic k ms blocks pa) : NoSentinel k ms blocks pa := by
  have hA := h.polya pa.extA (by simp)
  have hT := h.polya pa.extT (by simp)
  have hIA := h.polya pa.intA (by simp)
  have hIT := h.polya pa.intT (by simp)
  refine ⟨?_, safePos_of_nonneg k _ hA, safePos_of_nonneg k _ hT, ?_, ?_⟩
  · intro m hm e he
    have := h.exons m hm e he
    omega
  · intro m hm _
    refine ⟨safePos_of_nonneg k _ hA, safePos_of_nonneg k _ hIA, ?_, movedSafeA_of_nonneg k blocks _ h.readBlocks hA,
      movedSafeA_of_nonneg k blocks _ h.readBlocks hIA⟩
    intro e he
    have := h.exons m hm e (List.mem_of_getLast? he)
    omega
  · intro m hm _
    refine ⟨safePos_of_nonneg k _ hT, safePos_of_nonneg k _ hIT, ?_, movedSafeT_of_nonneg k blocks _ h.readBlocks h.readSorted hT,
      movedSafeT_of_nonneg k blocks _ h.readBlocks h.readSorted hIT⟩
    intro e he
    have := h.exons m hm e (List.mem_of_head? he)
    omega

end IsoVerif.Lemmas.C11.AssignShift
