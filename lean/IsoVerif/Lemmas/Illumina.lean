/-
Helper lemmas for the short-read corrector of C14 (`Model/Illumina.lean`): what one read intron can be replaced by,
the exon list `get_exons` builds from an intron list whose members may touch or overlap, and the junction container.
Core Lean only.
-/
import IsoVerif.Gen.Prims
import IsoVerif.Gen.Illumina
import IsoVerif.Model.Interval
import IsoVerif.Model.Illumina
import IsoVerif.Lemmas.Interval
import IsoVerif.Lemmas.Lists
import IsoVerif.Lemmas.Corrector

namespace IsoVerif.Lemmas.C14.Illumina
open IsoVerif.Gen IsoVerif.Model IsoVerif.Model.C14.Illumina IsoVerif.Lemmas IsoVerif.Lemmas.C14

/-! ### the two rules, declaratively -/

/-- the single-junction offset rule: the short-read junction shares one end with the read intron and differs by
    exactly 4 bp at the other (longer at the right end, or longer at the left end) -/
def SingleTol (i s : Iv) : Prop :=
  (s.1 = i.1 ∧ s.2 = i.2 + 4) ∨ (s.2 = i.2 ∧ s.1 = i.1 - 4)

/-- the skipped-exon rule: two short-read junctions `l` before `r`, both overlapping the read intron `i`, the exon
    between them at most 50 bp away from empty, the outer ends within 25 bp of the read intron's, not both equal -/
def PairTol (i l r : Iv) : Prop :=
  overlaps i l = true ∧ overlaps i r = true ∧ l.2 < r.1 ∧ r.1 - l.2 ≤ 50 ∧
  (-25 ≤ i.1 - l.1 ∧ i.1 - l.1 ≤ 25) ∧ (-25 ≤ r.2 - i.2 ∧ r.2 - i.2 ≤ 25) ∧ (l.1 ≠ i.1 ∨ r.2 ≠ i.2)

theorem mem_overlappingOf {short : List Iv} {i s : Iv} :
    s ∈ overlappingOf short i ↔ s ∈ short ∧ overlaps i s = true := by
  simp [overlappingOf]

theorem overlaps_iff (a b : Iv) : overlaps a b = true ↔ b.1 ≤ a.2 ∧ a.1 ≤ b.2 := by
  simp [overlaps] <;> omega

theorem overlaps_self {i : Iv} (h : i.1 ≤ i.2) : overlaps i i = true := by
  rw [overlaps_iff]; omega

/-! ### the best single match -/

theorem bestMatch_mem (i : Iv) : ∀ (ov : List Iv) (score : Int) (sh : Iv),
    bestMatch i ov score sh = sh ∨ bestMatch i ov score sh ∈ ov := by
  intro ov
  induction ov with
  | nil => intro _ sh; left; rfl
  | cons s ss ih =>
    intro score sh
    simp only [bestMatch]
    split
    · rcases ih (ill_site_distance i s) s with h | h
      · right; rw [h]; simp
      · right; exact List.mem_cons_of_mem _ h
    · rcases ih score sh with h | h
      · left; exact h
      · right; exact List.mem_cons_of_mem _ h

/-- the loop keeps the running minimum: the final match is at least as close as every junction of the list whose
    distance is below the initial score -/
theorem bestMatch_minimal (i : Iv) : ∀ (ov : List Iv) (score : Int) (sh : Iv),
    (bestMatch i ov score sh = sh ∧ ∀ s ∈ ov, score ≤ ill_site_distance i s) ∨
    (bestMatch i ov score sh ∈ ov ∧ ill_site_distance i (bestMatch i ov score sh) < score ∧
      ∀ s ∈ ov, ill_site_distance i (bestMatch i ov score sh) ≤ ill_site_distance i s) := by
  intro ov
  induction ov with
  | nil => intro _ sh; left; exact ⟨rfl, fun s hs => by cases hs⟩
  | cons s ss ih =>
    intro score sh
    simp only [bestMatch]
    split
    · rename_i hlt
      rcases ih (ill_site_distance i s) s with ⟨h, hall⟩ | ⟨hm, hlt2, hall⟩
      · right
        rw [h]
        refine ⟨by simp, hlt, ?_⟩
        intro t ht
        rcases List.mem_cons.mp ht with ht | ht
        · subst ht; omega
        · exact hall t ht
      · right
        refine ⟨List.mem_cons_of_mem _ hm, by omega, ?_⟩
        intro t ht
        rcases List.mem_cons.mp ht with ht | ht
        · subst ht; omega
        · exact hall t ht
    · rename_i hge
      rcases ih score sh with ⟨h, hall⟩ | ⟨hm, hlt2, hall⟩
      · left
        refine ⟨h, ?_⟩
        intro t ht
        rcases List.mem_cons.mp ht with ht | ht
        · subst ht; omega
        · exact hall t ht
      · right
        refine ⟨List.mem_cons_of_mem _ hm, hlt2, ?_⟩
        intro t ht
        rcases List.mem_cons.mp ht with ht | ht
        · subst ht; omega
        · exact hall t ht

/-- the generated acceptance test of the 4-bp rule, as a proposition -/
theorem single_rule_iff (i sh : Iv) (s e : Int) :
    ill_single_rule i sh s e = true ↔
      ((i.1 = sh.1 ∧ i.2 = sh.2 - 4) ∨ (i.2 = sh.2 ∧ sh.1 = i.1 - 4)) ∧ s < sh.1 ∧ sh.2 < e := by
  simp only [ill_single_rule, Bool.and_eq_true, Bool.or_eq_true, decide_eq_true_eq, gt_iff_lt, and_assoc]

theorem single_rule_absent (i : Iv) (s e : Int) (h : i.1 ≤ i.2) :
    ill_single_rule i ill_ABSENT_INTRON s e = false := by
  rw [Bool.eq_false_iff]
  intro h
  rw [single_rule_iff] at h
  simp only [ill_ABSENT_INTRON] at h
  omega

theorem single_rule_spec {i sh : Iv} {s e : Int} (h : ill_single_rule i sh s e = true) :
    SingleTol i sh ∧ s < sh.1 ∧ sh.2 < e := by
  rw [single_rule_iff] at h
  unfold SingleTol
  omega

/-! ### the skipped-exon search -/

/-- what the search state holds once it is not the initial one -/
def PairGood (i l r : Iv) : Prop :=
  l.2 < r.1 ∧ ill_right_length l r i = true ∧ ill_one_differs l r i = true

def PairInv (P : Iv → Prop) (i : Iv) (st : PairState) : Prop :=
  st.1 = ill_ABSENT_INTRON ∨ (P st.1 ∧ P st.2.1 ∧ PairGood i st.1 st.2.1)

theorem pairStep_inv (P : Iv → Prop) (i x y : Iv) (st : PairState) (hx : P x) (hy : P y)
    (h : PairInv P i st) : PairInv P i (pairStep i x y st) := by
  unfold pairStep
  split
  · rename_i h1
    split
    · rename_i h2
      split
      · right
        simp only [Bool.and_eq_true] at h2
        exact ⟨hx, hy, h1, h2.1, h2.2⟩
      · exact h
    · exact h
  · split
    · rename_i h1
      split
      · rename_i h2
        split
        · right
          simp only [Bool.and_eq_true] at h2
          exact ⟨hy, hx, by omega, h2.1, h2.2⟩
        · exact h
      · exact h
    · exact h

theorem pairInner_inv (P : Iv → Prop) (i x : Iv) (hx : P x) : ∀ (ys : List Iv) (st : PairState),
    (∀ y ∈ ys, P y) → PairInv P i st → PairInv P i (pairInner i x ys st) := by
  intro ys
  induction ys with
  | nil => intro st _ h; exact h
  | cons y ys ih =>
    intro st hys h
    simp only [pairInner]
    exact ih _ (fun z hz => hys z (List.mem_cons_of_mem _ hz))
      (pairStep_inv P i x y st hx (hys y (by simp)) h)

theorem pairOuter_inv (P : Iv → Prop) (i : Iv) : ∀ (l : List Iv) (st : PairState),
    (∀ y ∈ l, P y) → PairInv P i st → PairInv P i (pairOuter i l st) := by
  intro l
  induction l with
  | nil => intro st _ h; exact h
  | cons x t ih =>
    intro st hl h
    cases t with
    | nil => exact h
    | cons y rest =>
      simp only [pairOuter]
      exact ih _ (fun z hz => hl z (List.mem_cons_of_mem _ hz))
        (pairInner_inv P i x (hl x (by simp)) _ st hl h)

theorem pairGood_tol {i l r : Iv} (hl : overlaps i l = true) (hr : overlaps i r = true) (h : PairGood i l r) :
    PairTol i l r := by
  obtain ⟨h1, h2, h3⟩ := h
  simp [ill_right_length, ill_EXON_LENGTH, ill_SIDE_DIFF, iabs_le] at h2
  simp [ill_one_differs] at h3
  refine ⟨hl, hr, h1, by omega, ⟨by omega, by omega⟩, ⟨by omega, by omega⟩, ?_⟩
  exact h3

theorem pair_guard_spec {l r : Iv} {s e : Int} (h : ill_pair_guard l r s e = true) :
    l ≠ ill_ABSENT_INTRON ∧ s < l.1 ∧ r.2 < e := by
  simp [ill_pair_guard] at h
  exact ⟨h.1.1, by omega, by omega⟩

/-! ### one read intron -/

/-- the three outcomes of one iteration of the loop over the read's introns -/
theorem correctIntron_cases (short : List Iv) (s e : Int) (i : Iv) (hi : i.1 ≤ i.2) :
    correctIntron short s e i = [i] ∨
    (∃ c, correctIntron short s e i = [c] ∧ c ∈ short ∧ overlaps i c = true ∧ SingleTol i c ∧ s < c.1 ∧ c.2 < e) ∨
    (∃ l r, correctIntron short s e i = [l, r] ∧ l ∈ short ∧ r ∈ short ∧ PairTol i l r ∧ s < l.1 ∧ r.2 < e) := by
  unfold correctIntron
  simp only
  split
  · rename_i hs
    right; left
    rcases bestMatch_mem i (overlappingOf short i) ill_MAX_SCORE ill_ABSENT_INTRON with hb | hb
    · rw [hb, single_rule_absent i s e hi] at hs
      cases hs
    · obtain ⟨hm, ho⟩ := mem_overlappingOf.mp hb
      obtain ⟨ht, h1, h2⟩ := single_rule_spec hs
      exact ⟨_, rfl, hm, ho, ht, h1, h2⟩
  · split
    · split
      · rename_i hg
        right; right
        obtain ⟨hne, h1, h2⟩ := pair_guard_spec hg
        have hinv := pairOuter_inv (fun c => c ∈ overlappingOf short i) i (overlappingOf short i)
          (ill_ABSENT_INTRON, ill_ABSENT_INTRON, ill_MAX_SCORE) (fun y hy => hy) (Or.inl rfl)
        rcases hinv with habs | ⟨hl, hr, hgood⟩
        · exact absurd habs hne
        · obtain ⟨hlm, hlo⟩ := mem_overlappingOf.mp hl
          obtain ⟨hrm, hro⟩ := mem_overlappingOf.mp hr
          exact ⟨_, _, rfl, hlm, hrm, pairGood_tol hlo hro hgood, h1, h2⟩
      · left; rfl
    · left; rfl

/-- without an overlapping short-read junction the read intron is kept -/
theorem correctIntron_no_overlap (short : List Iv) (s e : Int) (i : Iv) (hi : i.1 ≤ i.2)
    (h : overlappingOf short i = []) : correctIntron short s e i = [i] := by
  unfold correctIntron
  simp only [h, bestMatch, single_rule_absent i s e hi]
  simp

/-- every member of the replacement overlaps the read intron -/
theorem correctIntron_overlaps (short : List Iv) (s e : Int) (i : Iv) (hi : i.1 ≤ i.2) :
    ∀ c ∈ correctIntron short s e i, overlaps i c = true := by
  intro c hc
  rcases correctIntron_cases short s e i hi with h | ⟨c', h, _, ho, _⟩ | ⟨l, r, h, _, _, ht, _⟩
  · rw [h] at hc; simp at hc; subst hc; exact overlaps_self hi
  · rw [h] at hc; simp at hc; subst hc; exact ho
  · rw [h] at hc; simp at hc
    rcases hc with hc | hc
    · subst hc; exact ht.1
    · subst hc; exact ht.2.1

/-- every member is the read intron itself or a short-read junction -/
theorem correctIntron_mem (short : List Iv) (s e : Int) (i : Iv) (hi : i.1 ≤ i.2) :
    ∀ c ∈ correctIntron short s e i, c = i ∨ c ∈ short := by
  intro c hc
  rcases correctIntron_cases short s e i hi with h | ⟨c', h, hm, _⟩ | ⟨l, r, h, hl, hr, _⟩
  · rw [h] at hc; simp at hc; left; exact hc
  · rw [h] at hc; simp at hc; subst hc; right; exact hm
  · rw [h] at hc; simp at hc
    rcases hc with hc | hc
    · subst hc; right; exact hl
    · subst hc; right; exact hr

/-- "each intron starts no later than one past the end of every later one": what `get_exons` needs -/
def Rel (c c' : Iv) : Prop := c.1 ≤ c'.2 + 1

theorem correctIntron_pairwise (short : List Iv) (s e : Int) (i : Iv) (hi : i.1 ≤ i.2) (hw : WFl short) :
    (correctIntron short s e i).Pairwise Rel := by
  rcases correctIntron_cases short s e i hi with h | ⟨c', h, _⟩ | ⟨l, r, h, hl, hr, ht, _⟩
  · rw [h]; simp
  · rw [h]; simp
  · rw [h]
    have := hw l hl
    have := hw r hr
    have := ht.2.2.1
    simp [Rel]; omega

theorem correctIntron_head (short : List Iv) (s e : Int) (i : Iv) (hi : i.1 ≤ i.2) (hs : s < i.1) :
    ∃ c t, correctIntron short s e i = c :: t ∧ s < c.1 := by
  rcases correctIntron_cases short s e i hi with h | ⟨c', h, _, _, _, h1, _⟩ | ⟨l, r, h, _, _, _, h1, _⟩
  · exact ⟨i, [], h, hs⟩
  · exact ⟨c', [], h, h1⟩
  · exact ⟨l, [r], h, h1⟩

theorem correctIntron_last (short : List Iv) (s e : Int) (i : Iv) (hi : i.1 ≤ i.2) (he : i.2 < e) :
    ∃ c, (correctIntron short s e i).getLast? = some c ∧ c.2 < e := by
  rcases correctIntron_cases short s e i hi with h | ⟨c', h, _, _, _, _, h2⟩ | ⟨l, r, h, _, _, _, _, h2⟩
  · exact ⟨i, by rw [h]; rfl, he⟩
  · exact ⟨c', by rw [h]; rfl, h2⟩
  · exact ⟨r, by rw [h]; rfl, h2⟩

/-! ### `get_exons` on intron lists whose members may touch or overlap -/

theorem junctions_wf : ∀ (l : List Iv), ∀ j ∈ junctionsFromBlocks l, j.1 ≤ j.2 := by
  intro l
  induction l with
  | nil => intro j hj; simp [junctionsFromBlocks] at hj
  | cons a t ih =>
    cases t with
    | nil => intro j hj; simp [junctionsFromBlocks] at hj
    | cons b t' =>
      intro j hj
      simp only [junctionsFromBlocks] at hj
      split at hj
      · rcases List.mem_cons.mp hj with h | h
        · subst h; simp; omega
        · exact ih j h
      · exact ih j hj

/-- every block that `junctions_from_blocks` builds between a first block `a`, the introns and a closing block `z`
    starts right after `a` or an intron and ends right before `z` or an intron (no hypothesis on the introns) -/
theorem junctions_sites (z : Iv) : ∀ (L : List Iv) (a : Iv), ∀ x ∈ junctionsFromBlocks (a :: L ++ [z]),
    (x.1 = a.2 + 1 ∨ ∃ c ∈ L, x.1 = c.2 + 1) ∧ (x.2 = z.1 - 1 ∨ ∃ c ∈ L, x.2 = c.1 - 1) := by
  intro L
  induction L with
  | nil =>
    intro a x hx
    simp only [List.cons_append, List.nil_append, junctionsFromBlocks] at hx
    split at hx
    · simp at hx; subst hx; exact ⟨Or.inl rfl, Or.inl rfl⟩
    · simp at hx
  | cons i rest ih =>
    intro a x hx
    simp only [List.cons_append, junctionsFromBlocks] at hx
    have htail : ∀ y ∈ junctionsFromBlocks (i :: rest ++ [z]),
        (y.1 = a.2 + 1 ∨ ∃ c ∈ i :: rest, y.1 = c.2 + 1) ∧ (y.2 = z.1 - 1 ∨ ∃ c ∈ i :: rest, y.2 = c.1 - 1) := by
      intro y hy
      obtain ⟨h1, h2⟩ := ih i y hy
      constructor
      · rcases h1 with h1 | ⟨c, hc, h1⟩
        · exact Or.inr ⟨i, by simp, h1⟩
        · exact Or.inr ⟨c, List.mem_cons_of_mem _ hc, h1⟩
      · rcases h2 with h2 | ⟨c, hc, h2⟩
        · exact Or.inl h2
        · exact Or.inr ⟨c, List.mem_cons_of_mem _ hc, h2⟩
    split at hx
    · rcases List.mem_cons.mp hx with h | h
      · subst h; exact ⟨Or.inl rfl, Or.inr ⟨i, by simp, rfl⟩⟩
      · exact htail x h
    · exact htail x hx

theorem SD_cons_all {e : Iv} {l : List Iv} (h : ∀ x ∈ l, e.2 < x.1) (hs : SD l) : SD (e :: l) := by
  cases l with
  | nil => trivial
  | cons b t => exact ⟨h b (by simp), hs⟩

/-- the blocks are well formed and sorted-disjoint as soon as every intron satisfies `c.1 ≤ c.2 + 1` and starts no
    later than one past the end of every later intron: touching or overlapping neighbours are merged -/
theorem junctions_valid (z : Iv) : ∀ (L : List Iv) (a : Iv), (∀ c ∈ L, c.1 ≤ c.2 + 1) → L.Pairwise Rel →
    SD (junctionsFromBlocks (a :: L ++ [z])) ∧ WFl (junctionsFromBlocks (a :: L ++ [z])) := by
  intro L
  induction L with
  | nil =>
    intro a _ _
    refine ⟨?_, fun r hr => junctions_wf _ r hr⟩
    simp only [List.cons_append, List.nil_append, junctionsFromBlocks]
    split
    · trivial
    · trivial
  | cons i rest ih =>
    intro a hw hp
    refine ⟨?_, fun r hr => junctions_wf _ r hr⟩
    have hp' := List.pairwise_cons.mp hp
    obtain ⟨ihsd, _⟩ := ih i (fun c hc => hw c (List.mem_cons_of_mem _ hc)) hp'.2
    simp only [List.cons_append, junctionsFromBlocks]
    simp only [List.cons_append] at ihsd
    split
    · apply SD_cons_all
      · intro x hx
        obtain ⟨h1, _⟩ := junctions_sites z rest i x (by simpa using hx)
        have hiw := hw i (by simp)
        rcases h1 with h1 | ⟨c, hc, h1⟩
        · simp; omega
        · have : i.1 ≤ c.2 + 1 := hp'.1 c hc
          simp; omega
      · exact ihsd
    · exact ihsd

theorem getExons_sites (s e : Int) (L : List Iv) : ∀ x ∈ getExons (s, e) L,
    (x.1 = s ∨ ∃ c ∈ L, x.1 = c.2 + 1) ∧ (x.2 = e ∨ ∃ c ∈ L, x.2 = c.1 - 1) := by
  intro x hx
  obtain ⟨h1, h2⟩ := junctions_sites (e + 1, 0) L (0, s - 1) x (by simpa [getExons] using hx)
  constructor
  · rcases h1 with h1 | h1
    · left; simp at h1; omega
    · right; exact h1
  · rcases h2 with h2 | h2
    · left; simp at h2; omega
    · right; exact h2

theorem getExons_valid (s e : Int) (L : List Iv) (hw : ∀ c ∈ L, c.1 ≤ c.2 + 1) (hp : L.Pairwise Rel) :
    SD (getExons (s, e) L) ∧ WFl (getExons (s, e) L) := by
  have := junctions_valid (e + 1, 0) L (0, s - 1) hw hp
  simpa [getExons] using this

theorem getExons_nil (s e : Int) (h : s ≤ e) : getExons (s, e) [] = [(s, e)] := by
  simp only [getExons, List.nil_append, List.cons_append, junctionsFromBlocks]
  split
  · simp
  · omega

theorem getExons_head (s e : Int) (c : Iv) (t : List Iv) (h : s < c.1) :
    (getExons (s, e) (c :: t)).head? = some (s, c.1 - 1) := by
  simp only [getExons, List.cons_append, junctionsFromBlocks]
  split
  · simp
  · rename_i hn; simp at hn; omega

theorem junctions_snoc (l : List Iv) (x y : Iv) :
    junctionsFromBlocks (l ++ [x, y]) =
      junctionsFromBlocks (l ++ [x]) ++ (if x.2 + 1 < y.1 then [(x.2 + 1, y.1 - 1)] else []) := by
  induction l with
  | nil => simp [junctionsFromBlocks]
  | cons a t ih =>
    cases t with
    | nil =>
      simp only [List.cons_append, List.nil_append, junctionsFromBlocks] at ih ⊢
      split <;> simp
    | cons b t' =>
      simp only [List.cons_append, junctionsFromBlocks] at ih ⊢
      split <;> simp [ih]

theorem getExons_last (s e : Int) (L : List Iv) (c : Iv) (hl : L.getLast? = some c) (h : c.2 < e) :
    (getExons (s, e) L).getLast? = some (c.2 + 1, e) := by
  obtain ⟨init, rfl⟩ : ∃ init, L = init ++ [c] := by
    rcases List.eq_nil_or_concat L with h0 | ⟨l', b, h0⟩
    · subst h0; simp at hl
    · subst h0
      simp only [List.concat_eq_append, List.getLast?_concat, Option.some.injEq] at hl
      subst hl
      exact ⟨l', by simp⟩
  have e1 : (0, s - 1) :: (init ++ [c]) ++ [(e + 1, 0)] = ((0, s - 1) :: init) ++ [c, (e + 1, 0)] := by simp
  simp only [getExons]
  rw [e1, junctions_snoc]
  have : c.2 + 1 < (e + 1, (0 : Int)).1 := by simp; omega
  rw [if_pos this]
  simp

/-! ### the whole intron list -/

theorem SD_pairwise : ∀ (l : List Iv), SD l → WFl l → l.Pairwise (fun a b => a.2 < b.1)
  | [], _, _ => List.Pairwise.nil
  | _ :: t, hs, hw =>
    List.pairwise_cons.mpr ⟨SD_all_right hs hw, SD_pairwise t (SD_tail hs) (WFl_tail hw)⟩

/-- the read's introns lie strictly inside the read -/
theorem read_introns_inside {exons : List Iv} (hsd : SD exons) (hw : WFl exons) {f l : Iv}
    (hf : exons.head? = some f) (hl : exons.getLast? = some l) :
    ∀ j ∈ junctionsFromBlocks exons, f.1 < j.1 ∧ j.2 < l.2 := by
  intro j hj
  obtain ⟨a, ha, b, hb, rfl⟩ := mem_junctions hj
  have h1 := SD_bounds hsd hw hf hl a ha
  have h2 := SD_bounds hsd hw hf hl b hb
  have := hw a ha
  have := hw b hb
  simp; omega

theorem flatMap_singleton_of {α} (g : α → List α) : ∀ (l : List α), (∀ a ∈ l, g a = [a]) → l.flatMap g = l
  | [], _ => rfl
  | a :: t, h => by
    rw [List.flatMap_cons, h a (by simp), flatMap_singleton_of g t (fun b hb => h b (List.mem_cons_of_mem _ hb))]
    rfl

/-- the corrected intron list of a well-formed read satisfies what `getExons_valid` asks for -/
theorem corrected_list_ok (short : List Iv) (s e : Int) (RI : List Iv) (hsd : SD RI) (hw : WFl RI)
    (hws : WFl short) :
    (∀ c ∈ correctedIntronList short s e RI, c.1 ≤ c.2 + 1) ∧ (correctedIntronList short s e RI).Pairwise Rel := by
  constructor
  · intro c hc
    simp only [correctedIntronList, List.mem_flatMap] at hc
    obtain ⟨i, hi, hc⟩ := hc
    rcases correctIntron_mem short s e i (hw i hi) c hc with h | h
    · subst h; have := hw c hi; omega
    · have := hws c h; omega
  · simp only [correctedIntronList]
    rw [List.pairwise_flatMap]
    refine ⟨fun i hi => correctIntron_pairwise short s e i (hw i hi) hws, ?_⟩
    refine List.Pairwise.imp_of_mem ?_ (SD_pairwise RI hsd hw)
    intro p q hp hq hpq x hx y hy
    have h1 := (overlaps_iff p x).mp (correctIntron_overlaps short s e p (hw p hp) x hx)
    have h2 := (overlaps_iff q y).mp (correctIntron_overlaps short s e q (hw q hq) y hy)
    simp only [Rel]; omega

theorem corrected_list_head (short : List Iv) (s e : Int) (i : Iv) (rest : List Iv) (hi : i.1 ≤ i.2) (hs : s < i.1) :
    ∃ c t, correctedIntronList short s e (i :: rest) = c :: t ∧ s < c.1 := by
  obtain ⟨c, t, h, hc⟩ := correctIntron_head short s e i hi hs
  exact ⟨c, t ++ correctedIntronList short s e rest, by simp [correctedIntronList, h], hc⟩

theorem corrected_list_last (short : List Iv) (s e : Int) (init : List Iv) (i : Iv) (hi : i.1 ≤ i.2) (he : i.2 < e) :
    ∃ c, (correctedIntronList short s e (init ++ [i])).getLast? = some c ∧ c.2 < e := by
  obtain ⟨c, h, hc⟩ := correctIntron_last short s e i hi he
  refine ⟨c, ?_, hc⟩
  simp only [correctedIntronList, List.flatMap_append, List.flatMap_cons, List.flatMap_nil, List.append_nil]
  rw [List.getLast?_append, h]
  rfl

theorem SD_adjacent : ∀ (l : List Iv) (k : Nat) (e e' : Iv), SD l → l[k]? = some e → l[k + 1]? = some e' → e.2 < e'.1
  | [], _, _, _, _, h1, _ => by simp at h1
  | [_], 0, _, _, _, _, h2 => by simp at h2
  | [_], _ + 1, _, _, _, h1, _ => by simp at h1
  | _ :: _ :: _, 0, _, _, h, h1, h2 => by
    simp at h1 h2; subst h1; subst h2; exact h.1
  | _ :: b :: t, k + 1, e, e', h, h1, h2 =>
    SD_adjacent (b :: t) k e e' h.2 (by simpa using h1) (by simpa using h2)

/-! ### the whole function -/

theorem correctExons_some {short exons out : List Iv} (h : correctExons short exons = some out) :
    ∃ f l, exons.head? = some f ∧ exons.getLast? = some l ∧
      out = getExons (f.1, l.2) (correctedIntronList short f.1 l.2 (junctionsFromBlocks exons)) := by
  unfold correctExons at h
  cases hf : exons.head? with
  | none => simp [hf] at h
  | some f =>
    cases hl : exons.getLast? with
    | none => simp [hf, hl] at h
    | some l =>
      simp only [hf, hl, Option.some.injEq] at h
      exact ⟨f, l, rfl, rfl, h.symm⟩

theorem correctExons_of_ends {short exons : List Iv} {f l : Iv} (hf : exons.head? = some f)
    (hl : exons.getLast? = some l) :
    correctExons short exons =
      some (getExons (f.1, l.2) (correctedIntronList short f.1 l.2 (junctionsFromBlocks exons))) := by
  simp only [correctExons, hf, hl]

theorem spaced_gapped : ∀ (l : List Iv), Spaced l → Gapped l
  | [], _ => trivial
  | [_], h => h
  | _ :: b :: t, h => ⟨h.1, h.2.1, spaced_gapped (b :: t) h.2.2⟩

/-! ### the junction container (`get_introns`) -/

theorem mergeCounts_keys (new : List (Iv × Int)) : ∀ (old : List (Iv × Int)) (k : Iv),
    k ∈ (mergeCounts old new).map (·.1) ↔ k ∈ old.map (·.1) ∨ k ∈ new.map (·.1) := by
  induction new with
  | nil => intro old k; simp [mergeCounts]
  | cons q rest ih =>
    intro old k
    obtain ⟨kq, v⟩ := q
    simp only [mergeCounts]
    split
    · rename_i w hw
      rw [ih]
      have hk : kq ∈ old.map (·.1) := by
        have := List.lookup_eq_some_iff.mp hw
        obtain ⟨l1, l2, rfl, _⟩ := this
        simp
      have hmap : (old.map (fun q => if q.1 = kq then (q.1, v + w) else q)).map (·.1) = old.map (·.1) := by
        rw [List.map_map]
        apply List.map_congr_left
        intro a _
        simp only [Function.comp]
        split <;> rfl
      rw [hmap]
      simp only [List.map_cons, List.mem_cons]
      constructor
      · rintro (h | h)
        · exact Or.inl h
        · exact Or.inr (Or.inr h)
      · rintro (h | h | h)
        · exact Or.inl h
        · subst h; exact Or.inl hk
        · exact Or.inr h
    · rw [ih]
      simp only [List.map_append, List.map_cons, List.map_nil, List.mem_append, List.mem_cons,
        List.not_mem_nil, or_false]
      constructor
      · rintro ((h | h) | h)
        · exact Or.inl h
        · exact Or.inr (Or.inl h)
        · exact Or.inr (Or.inr h)
      · rintro (h | h | h)
        · exact Or.inl (Or.inl h)
        · exact Or.inl (Or.inr h)
        · exact Or.inr h

theorem mergeFiles_keys (files : List (List (Iv × Int))) : ∀ (acc : List (Iv × Int)) (k : Iv),
    k ∈ (files.foldl mergeCounts acc).map (·.1) ↔ k ∈ acc.map (·.1) ∨ ∃ f ∈ files, k ∈ f.map (·.1) := by
  induction files with
  | nil => intro acc k; simp
  | cons f rest ih =>
    intro acc k
    simp only [List.foldl_cons]
    rw [ih, mergeCounts_keys]
    constructor
    · rintro ((h | h) | ⟨g, hg, h⟩)
      · exact Or.inl h
      · exact Or.inr ⟨f, by simp, h⟩
      · exact Or.inr ⟨g, List.mem_cons_of_mem _ hg, h⟩
    · rintro (h | ⟨g, hg, h⟩)
      · exact Or.inl (Or.inl h)
      · rcases List.mem_cons.mp hg with hg | hg
        · subst hg; exact Or.inl (Or.inr h)
        · exact Or.inr ⟨g, hg, h⟩

end IsoVerif.Lemmas.C14.Illumina
