/-
`compare_junctions` never raises (Model/JunctionCompare.lean): the index facts about the contradictory region pairs of
the sweep, and totality of every helper on valid indices.  Core Lean only.
-/
import IsoVerif.Model.JunctionCompare
import IsoVerif.Lemmas.Exons

namespace IsoVerif.Lemmas.C01Cmp
open IsoVerif.Gen IsoVerif.Model IsoVerif.Model.C01 IsoVerif.Lemmas

/-! ### exon look-ups on valid positions -/

theorem getElem?_some_of_lt {α} (l : List α) (i : Nat) (h : i < l.length) : ∃ a, l[i]? = some a :=
  ⟨l[i], by simp [h]⟩

theorem pyGet?_some_nat {α} (l : List α) (i : Nat) (h : i < l.length) : ∃ a, pyGet? l (i : Int) = some a := by
  rw [pyGet?_nat]; exact getElem?_some_of_lt l i h

theorem pyGet?_some_last {α} (l : List α) (h : 0 < l.length) : ∃ a, pyGet? l (-1) = some a := by
  have := pyGet?_neg l 1 (by omega) (by omega)
  simp only [Int.natCast_one] at this
  rw [this]; exact getElem?_some_of_lt l _ (by omega)

theorem getExon_some (reg : Iv) (J : List Iv) (pos : Nat) (hn : 0 < J.length) (hp : pos ≤ J.length) :
    ∃ e, getExon reg J (pos : Int) = some e := by
  unfold getExon
  have h1 : ¬ ((pos : Int) > (J.length : Int)) := by omega
  have h2 : ¬ ((pos : Int) < 0) := by omega
  simp only [h1, h2, if_false]
  by_cases h0 : (pos : Int) = 0
  · obtain ⟨a, ha⟩ := pyGet?_some_nat J 0 hn
    simp only [Int.natCast_zero] at ha
    simp [h0, ha]
  · simp only [h0, if_false]
    by_cases hl : (pos : Int) = (J.length : Int)
    · obtain ⟨a, ha⟩ := pyGet?_some_last J hn
      simp [hl, ha]
    · simp only [hl, if_false]
      have e1 : (pos : Int) - 1 = ((pos - 1 : Nat) : Int) := by omega
      obtain ⟨a, ha⟩ := pyGet?_some_nat J (pos - 1) (by omega)
      obtain ⟨b, hb⟩ := pyGet?_some_nat J pos (by omega)
      rw [e1, ha, hb]; exact ⟨_, rfl⟩

theorem getExon_some_succ (reg : Iv) (J : List Iv) (pos : Nat) (hp : pos < J.length) :
    ∃ e, getExon reg J ((pos : Int) + 1) = some e := by
  have := getExon_some reg J (pos + 1) (by omega) (by omega)
  simpa using this

theorem getExon_some_neg1 (reg : Iv) (J : List Iv) (hn : 0 < J.length) : ∃ e, getExon reg J (-1) = some e := by
  unfold getExon
  have h1 : ¬ ((-1 : Int) > (J.length : Int)) := by omega
  obtain ⟨a, ha⟩ := pyGet?_some_last J hn
  simp only [h1, if_false]
  have h2 : ((-1 : Int) < 0) := by omega
  simp only [h2, if_true]
  have h3 : ¬ ((J.length : Int) + -1 + 1 = 0) := by omega
  have h4 : (J.length : Int) + -1 + 1 = (J.length : Int) := by omega
  have hJ : J ≠ [] := by intro e; simp [e] at hn
  simp [h4, ha, hJ]

theorem getPrecedingExon_some (reg : Iv) (J : List Iv) (pos : Nat) (hn : 0 < J.length) (hp : pos ≤ J.length) :
    ∃ e, getPrecedingExon reg J (pos : Int) = some e := by
  unfold getPrecedingExon
  have h1 : ¬ ((pos : Int) > (J.length : Int)) := by omega
  simp only [h1, if_false]
  by_cases h0 : (pos : Int) = 0
  · simp only [h0, if_true]
    by_cases hl : (0 : Int) = (J.length : Int)
    · omega
    · obtain ⟨a, ha⟩ := pyGet?_some_nat J 0 hn
      simp only [Int.natCast_zero] at ha
      simp [hl, ha]
  · simp only [h0, if_false]
    have e1 : (pos : Int) - 1 = ((pos - 1 : Nat) : Int) := by omega
    obtain ⟨a, ha⟩ := pyGet?_some_nat J (pos - 1) (by omega)
    rw [e1, ha]
    simp only [Option.map_some]
    by_cases hl : (pos : Int) = (J.length : Int)
    · simp [hl]
    · obtain ⟨b, hb⟩ := pyGet?_some_nat J pos (by omega)
      simp [hl, hb]

theorem getFollowingExon_some (reg : Iv) (J : List Iv) (pos : Nat) (hp : pos < J.length) :
    ∃ e, getFollowingExon reg J (pos : Int) = some e := by
  unfold getFollowingExon
  dsimp only
  obtain ⟨b, hb⟩ := pyGet?_some_nat J pos hp
  by_cases hl : (pos : Int) = (J.length : Int) - 1 ∨ (pos : Int) = -1
  · rw [if_pos hl, hb]; exact ⟨_, rfl⟩
  · rw [if_neg hl]
    have e1 : (pos : Int) + 1 = ((pos + 1 : Nat) : Int) := by omega
    obtain ⟨a, ha⟩ := pyGet?_some_nat J (pos + 1) (by omega)
    rw [e1, ha, hb]; exact ⟨_, rfl⟩

theorem getFollowingExon_some_neg1 (reg : Iv) (J : List Iv) (hn : 0 < J.length) :
    ∃ e, getFollowingExon reg J (-1) = some e := by
  unfold getFollowingExon
  obtain ⟨b, hb⟩ := pyGet?_some_last J hn
  simp [hb]

/-! ### helpers of the comparator on valid index ranges -/

theorem sliceIncl_some {α} (l : List α) (a b : Nat) (hb : b < l.length) :
    ∃ s, sliceIncl l a b = some s := by
  unfold sliceIncl
  split
  · exact ⟨_, rfl⟩
  · simp [hb]

theorem knownIntrons_some (c : CmpCtx) (J : List Iv) (a b : Nat) (hb : b < J.length) :
    ∃ v, knownIntrons c J a b = some v := by
  obtain ⟨s, hs⟩ := sliceIncl_some J a b hb
  simp [knownIntrons, hs]

theorem precedingSum_some (rr : Iv) (J : List Iv) (hn : 0 < J.length) :
    ∀ (n cpos : Nat), cpos + n ≤ J.length + 1 → ∃ v, precedingSum rr J cpos n = some v := by
  intro n
  induction n with
  | zero => intro cpos _; exact ⟨0, rfl⟩
  | succ n ih =>
    intro cpos h
    obtain ⟨e, he⟩ := getPrecedingExon_some rr J cpos hn (by omega)
    obtain ⟨v, hv⟩ := ih (cpos + 1) (by omega)
    simp [precedingSum, he, hv]

theorem suspiciousIntrons_some (c : CmpCtx) (rr : Iv) (J : List Iv) (a b : Nat) (hab : a ≤ b) (hb : b < J.length) :
    ∃ v, suspiciousIntrons c rr J a b = some v := by
  unfold suspiciousIntrons
  dsimp only
  split
  · exact ⟨_, rfl⟩
  · have h1 : ¬ (a ≤ b ∧ J.length ≤ b) := by omega
    rw [if_neg h1]
    obtain ⟨s, hs⟩ := precedingSum_some rr J (by omega) (b + 1 - a) a (by omega)
    obtain ⟨f, hf⟩ := getFollowingExon_some rr J b hb
    rw [hs, hf]; exact ⟨_, rfl⟩

theorem skippedExonLen_some (J : List Iv) : ∀ (n i : Nat), i + n < J.length → ∃ v, skippedExonLen J i n = some v := by
  intro n
  induction n with
  | zero => intro i _; exact ⟨0, rfl⟩
  | succ n ih =>
    intro i h
    obtain ⟨a, ha⟩ := getElem?_some_of_lt J i (by omega)
    obtain ⟨b, hb⟩ := getElem?_some_of_lt J (i + 1) (by omega)
    obtain ⟨v, hv⟩ := ih (i + 1) (by omega)
    simp [skippedExonLen, ha, hb, hv]

theorem alternative_sites_some (known : Bool) :
    (∃ t, alternative_sites "right" known = some t) ∧ (∃ t, alternative_sites "left" known = some t) := by
  cases known
  · exact ⟨⟨.alt_right_site_novel, by decide⟩, ⟨.alt_left_site_novel, by decide⟩⟩
  · exact ⟨⟨.alt_right_site_known, by decide⟩, ⟨.alt_left_site_known, by decide⟩⟩

theorem classifySkipped_some (c : CmpCtx) (J : List Iv) (i0 i1 : Nat) (s k sb : Bool) (h0 : i0 ≤ i1) (h1 : i1 < J.length) :
    ∃ v, classifySkipped c J i0 i1 s k sb = some v := by
  obtain ⟨t, ht⟩ := skippedExonLen_some J (i1 - i0) i0 (by omega)
  unfold classifySkipped
  rw [ht]
  dsimp only
  repeat' split
  all_goals exact ⟨_, rfl⟩

theorem altSiteEvent_some (c : CmpCtx) (rr : Iv) (rj : List Iv) (ir : Iv) (ij : List Iv) (rc ic : Nat) (r kk : Iv)
    (k : Bool) (hr : rc < rj.length) (hi : ic < ij.length) : ∃ v, altSiteEvent c rr rj ir ij rc ic r kk k = some v := by
  obtain ⟨fr, hfr⟩ := getFollowingExon_some rr rj rc hr
  obtain ⟨fi, hfi⟩ := getFollowingExon_some ir ij ic hi
  obtain ⟨pr, hpr⟩ := getPrecedingExon_some rr rj rc (by omega) (by omega)
  obtain ⟨pi, hpi⟩ := getPrecedingExon_some ir ij ic (by omega) (by omega)
  obtain ⟨⟨ar, har⟩, ⟨al, hal⟩⟩ := alternative_sites_some k
  unfold altSiteEvent
  rw [hfr, hfi, hpr, hpi, har, hal]
  dsimp only
  repeat' split
  all_goals exact ⟨_, rfl⟩

theorem relabelSuspicious_some (c : CmpCtx) (rr : Iv) (rj : List Iv) (rc : Nat) (ev : MatchEventSubtype)
    (hr : rc < rj.length) : ∃ v, relabelSuspicious c rr rj rc ev = some v := by
  obtain ⟨su, hsu⟩ := suspiciousIntrons_some c rr rj rc rc (Nat.le_refl _) hr
  unfold relabelSuspicious
  rw [hsu]
  split
  · cases su <;> exact ⟨_, rfl⟩
  · exact ⟨_, rfl⟩

theorem classifySingle_some (c : CmpCtx) (rr : Iv) (rj : List Iv) (ir : Iv) (ij : List Iv) (rc ic : Nat) (s k : Bool)
    (hr : rc < rj.length) (hi : ic < ij.length) : ∃ v, classifySingle c rr rj ir ij rc ic s k = some v := by
  obtain ⟨r, hr'⟩ := getElem?_some_of_lt rj rc hr
  obtain ⟨kk, hk'⟩ := getElem?_some_of_lt ij ic hi
  unfold classifySingle
  rw [hr', hk']
  dsimp only
  split
  · repeat' split
    all_goals exact ⟨_, rfl⟩
  · obtain ⟨ev, hev⟩ := altSiteEvent_some c rr rj ir ij rc ic r kk k hr hi
    rw [hev]
    exact relabelSuspicious_some c rr rj rc ev hr

theorem classifyTerminal_some (c : CmpCtx) (rr : Iv) (rj : List Iv) (ir : Iv) (ij : List Iv) (r0 i0 : Nat) (k : Bool)
    (hr : 0 < rj.length) (hi : 0 < ij.length) : ∃ v, classifyTerminal c rr rj ir ij r0 i0 k = some v := by
  obtain ⟨a, ha⟩ := getPrecedingExon_some rr rj 0 hr (by omega)
  obtain ⟨b, hb⟩ := getPrecedingExon_some ir ij 0 hi (by omega)
  obtain ⟨a', ha'⟩ := getFollowingExon_some_neg1 rr rj hr
  obtain ⟨b', hb'⟩ := getFollowingExon_some_neg1 ir ij hi
  simp only [Int.natCast_zero] at ha hb
  unfold classifyTerminal
  rw [ha, hb, ha', hb']
  dsimp only
  by_cases h : r0 = 0 ∧ i0 = 0
  · rw [if_pos h]; dsimp only
    repeat' split
    all_goals exact ⟨_, rfl⟩
  · rw [if_neg h]; dsimp only
    repeat' split
    all_goals exact ⟨_, rfl⟩

theorem gatherBoth_some (c : CmpCtx) (rr : Iv) (rj : List Iv) (ir : Iv) (ij : List Iv) (r0 r1 i0 i1 : Nat)
    (h0 : r0 ≤ r1) (h1 : r1 < rj.length) (h2 : i0 ≤ i1) (h3 : i1 < ij.length) :
    ∃ d, gatherBoth c rr rj ir ij r0 r1 i0 i1 = some d := by
  obtain ⟨a1, e1⟩ := sliceIncl_some rj r0 r1 h1
  obtain ⟨a2, e2⟩ := sliceIncl_some ij i0 i1 h3
  obtain ⟨a3, e3⟩ := knownIntrons_some c rj r0 r1 h1
  obtain ⟨a4, e4⟩ := getExon_some rr rj r0 (by omega) (by omega)
  obtain ⟨a5, e5⟩ := getExon_some ir ij i0 (by omega) (by omega)
  obtain ⟨a6, e6⟩ := getExon_some_succ rr rj r1 h1
  obtain ⟨a7, e7⟩ := getExon_some_succ ir ij i1 h3
  obtain ⟨b1, f1⟩ := getElem?_some_of_lt rj r0 (by omega)
  obtain ⟨b2, f2⟩ := getElem?_some_of_lt rj r1 h1
  obtain ⟨b3, f3⟩ := getElem?_some_of_lt ij i0 (by omega)
  obtain ⟨b4, f4⟩ := getElem?_some_of_lt ij i1 h3
  unfold gatherBoth
  rw [e1, e2, e3, e4, e5, e6, e7, f1, f2, f3, f4]
  exact ⟨_, rfl⟩

theorem cascadeBoth_some (c : CmpCtx) (rr : Iv) (rj : List Iv) (ir : Iv) (ij : List Iv) (r0 r1 i0 i1 : Nat) (d : BothData)
    (h0 : r0 ≤ r1) (h1 : r1 < rj.length) (h2 : i0 ≤ i1) (h3 : i1 < ij.length) :
    ∃ v, cascadeBoth c rr rj ir ij r0 r1 i0 i1 d = some v := by
  unfold cascadeBoth
  dsimp only
  split
  · obtain ⟨v, hv⟩ := classifySingle_some c rr rj ir ij r0 i0 (intronLengthSimilar c.q d.rt d.it) d.known (by omega) (by omega)
    rw [hv]; exact ⟨_, rfl⟩
  · split
    · obtain ⟨v, hv⟩ := classifyTerminal_some c rr rj ir ij r0 i0 d.known (by omega) (by omega)
      rw [hv]; exact ⟨_, rfl⟩
    · split
      · split <;> exact ⟨_, rfl⟩
      · split
        · exact classifySkipped_some c ij i0 i1 _ _ _ h2 h3
        · split
          · split
            · exact ⟨_, rfl⟩
            · obtain ⟨su, hsu⟩ := suspiciousIntrons_some c rr rj r0 r1 h0 h1
              rw [hsu]; cases su <;> exact ⟨_, rfl⟩
          · split
            · split <;> exact ⟨_, rfl⟩
            · exact ⟨_, rfl⟩

theorem classifyBothTy_some (c : CmpCtx) (rr : Iv) (rj : List Iv) (ir : Iv) (ij : List Iv) (r0 r1 i0 i1 : Nat)
    (h0 : r0 ≤ r1) (h1 : r1 < rj.length) (h2 : i0 ≤ i1) (h3 : i1 < ij.length) :
    ∃ t, classifyBothTy c rr rj ir ij r0 r1 i0 i1 = some t := by
  obtain ⟨d, hd⟩ := gatherBoth_some c rr rj ir ij r0 r1 i0 i1 h0 h1 h2 h3
  obtain ⟨v, hv⟩ := cascadeBoth_some c rr rj ir ij r0 r1 i0 i1 d h0 h1 h2 h3
  obtain ⟨su, hsu⟩ := suspiciousIntrons_some c rr rj r0 r1 h0 h1
  unfold classifyBothTy
  rw [hd]; dsimp only
  rw [hv]
  cases v with
  | some t => exact ⟨_, rfl⟩
  | none =>
    dsimp only
    rw [hsu]
    cases su <;> dsimp only <;> (repeat' split) <;> exact ⟨_, rfl⟩

theorem classifyRetention_some (c : CmpCtx) (rr : Iv) (rj ij : List Iv) (rp ip : Nat)
    (hn : 0 < rj.length) (h1 : rp ≤ rj.length) (h2 : ip < ij.length) :
    ∃ v, classifyRetention c rr rj ij rp ip = some v := by
  obtain ⟨k, hk⟩ := getElem?_some_of_lt ij ip h2
  obtain ⟨e, he⟩ := getPrecedingExon_some rr rj rp hn h1
  unfold classifyRetention
  dsimp only
  rw [hk, he]
  dsimp only
  repeat' split
  all_goals exact ⟨_, rfl⟩

theorem fakeTerminalOfExtra_some (c : CmpCtx) (rr : Iv) (rj : List Iv) (rp : Nat) (reg : Int × Int)
    (hn : 0 < rj.length) : ∃ v, fakeTerminalOfExtra c rr rj rp reg = some v := by
  obtain ⟨e0, he0⟩ := getExon_some rr rj 0 hn (by omega)
  obtain ⟨e1, he1⟩ := getExon_some_neg1 rr rj hn
  simp only [Int.natCast_zero] at he0
  have hl : ∃ v, fakeLeftOfExtra c rr rj rp reg = some v := by
    unfold fakeLeftOfExtra
    rw [he0]
    dsimp only
    repeat' split
    all_goals exact ⟨_, rfl⟩
  have hr : ∃ v, fakeRightOfExtra c rr rj rp reg = some v := by
    unfold fakeRightOfExtra
    rw [he1]
    dsimp only
    repeat' split
    all_goals exact ⟨_, rfl⟩
  obtain ⟨vl, hvl⟩ := hl
  unfold fakeTerminalOfExtra
  rw [hvl]
  cases vl with
  | some e => exact ⟨_, rfl⟩
  | none => exact hr

theorem classifyExtra_some (c : CmpCtx) (rr : Iv) (rj : List Iv) (rp ip : Nat) (h1 : rp < rj.length) :
    ∃ v, classifyExtra c rr rj rp ip = some v := by
  obtain ⟨kn, hkn⟩ := knownIntrons_some c rj rp rp h1
  obtain ⟨su, hsu⟩ := suspiciousIntrons_some c rr rj rp rp (Nat.le_refl _) h1
  obtain ⟨ft, hft⟩ := fakeTerminalOfExtra_some c rr rj rp ((rp : Int), (rp : Int)) (by omega)
  unfold classifyExtra
  dsimp only
  rw [hkn, hsu, hft]
  cases kn
  · cases su
    · cases ft <;> exact ⟨_, rfl⟩
    · exact ⟨_, rfl⟩
  · exact ⟨_, rfl⟩

/-! ### index facts about the contradictory region pairs -/

/-- the indices of a pair are positions of the two junction lists (`N`, `M` = their lengths) -/
def PairOK (N M : Nat) : CPair → Prop
  | .retention rp ip => rp ≤ N ∧ ip < M
  | .extra rp ip => rp < N ∧ ip ≤ M
  | .both r0 r1 i0 i1 => r0 ≤ r1 ∧ r1 < N ∧ i0 ≤ i1 ∧ i1 < M

def CurOK (N M ri ki : Nat) : Cur → Prop
  | none => True
  | some (r0, r1, i0, i1) => r0 ≤ r1 ∧ r1 ≤ ri ∧ r1 < N ∧ i0 ≤ i1 ∧ i1 ≤ ki ∧ i1 < M

theorem classifyPair_some (c : CmpCtx) (rr : Iv) (rj : List Iv) (ir : Iv) (ij : List Iv) (pr : CPair)
    (hn : 0 < rj.length) (h : PairOK rj.length ij.length pr) : ∃ v, classifyPair c rr rj ir ij pr = some v := by
  cases pr with
  | retention rp ip => exact classifyRetention_some c rr rj ij rp ip hn h.1 h.2
  | extra rp ip =>
    obtain ⟨v, hv⟩ := classifyExtra_some c rr rj rp ip h.1
    simp [classifyPair, hv]
  | both r0 r1 i0 i1 =>
    obtain ⟨t, ht⟩ := classifyBothTy_some c rr rj ir ij r0 r1 i0 i1 h.1 h.2.1 h.2.2.1 h.2.2.2
    simp [classifyPair, ht]

theorem detectContradictions_some (c : CmpCtx) (rr : Iv) (rj : List Iv) (ir : Iv) (ij : List Iv) (hn : 0 < rj.length) :
    ∀ (prs : List CPair), (∀ pr ∈ prs, PairOK rj.length ij.length pr) →
      ∃ evs, detectContradictions c rr rj ir ij prs = some evs := by
  intro prs
  induction prs with
  | nil => intro _; exact ⟨[], rfl⟩
  | cons pr rest ih =>
    intro h
    obtain ⟨v, hv⟩ := classifyPair_some c rr rj ir ij pr hn (h pr (by simp))
    obtain ⟨es, hes⟩ := ih (fun q hq => h q (List.mem_cons_of_mem _ hq))
    simp only [detectContradictions, hv, hes]
    exact ⟨_, rfl⟩

theorem closeCur_ok {N M ri ki : Nat} {cur : Cur} (h : CurOK N M ri ki cur) : ∀ pr ∈ closeCur cur, PairOK N M pr := by
  intro pr hpr
  match cur, h with
  | none, _ => simp [closeCur] at hpr
  | some (r0, r1, i0, i1), h =>
    simp only [closeCur, List.mem_singleton] at hpr
    subst hpr
    exact ⟨h.1, h.2.2.1, h.2.2.2.1, h.2.2.2.2.2⟩

theorem extendCur_ok {N M ri ki : Nat} {cur : Cur} (h : CurOK N M ri ki cur) (hr : ri < N) (hk : ki < M) :
    CurOK N M ri ki (extendCur cur ri ki) := by
  match cur, h with
  | none, _ => exact ⟨Nat.le_refl _, Nat.le_refl _, hr, Nat.le_refl _, Nat.le_refl _, hk⟩
  | some (r0, r1, i0, i1), h =>
    obtain ⟨a, b, _, d, e, _⟩ := h
    exact ⟨by omega, Nat.le_refl _, hr, by omega, Nat.le_refl _, hk⟩

theorem CurOK_mono {N M ri ki ri' ki' : Nat} {cur : Cur} (h : CurOK N M ri ki cur) (h1 : ri ≤ ri') (h2 : ki ≤ ki') :
    CurOK N M ri' ki' cur := by
  match cur, h with
  | none, _ => trivial
  | some (r0, r1, i0, i1), h =>
    obtain ⟨a, b, c, d, e, f⟩ := h
    exact ⟨a, by omega, c, d, by omega, f⟩

theorem trailRead_ok (ir : Iv) (ki M : Nat) (hk : ki ≤ M) :
    ∀ (rs : List Iv) (ri : Nat) (rv : Int) (N : Nat), ri + rs.length = N →
      (trailRead ir ki rs ri rv).1.length = rs.length ∧ ∀ pr ∈ (trailRead ir ki rs ri rv).2, PairOK N M pr := by
  intro rs
  induction rs with
  | nil => intro ri rv N _; simp [trailRead]
  | cons r rs ih =>
    intro ri rv N hN
    simp only [trailRead]
    split
    · obtain ⟨h1, h2⟩ := ih (ri + 1) 0 N (by simp at hN; omega)
      refine ⟨by simp [h1], ?_⟩
      intro pr hpr
      simp only [List.mem_append] at hpr
      rcases hpr with hpr | hpr
      · split at hpr
        · simp only [List.mem_singleton] at hpr; subst hpr
          exact ⟨by simp at hN; omega, hk⟩
        · simp at hpr
      · exact h2 pr hpr
    · simp

theorem trailIso_ok (rr : Iv) (ri N : Nat) (hr : ri ≤ N) :
    ∀ (ks : List Iv) (ki : Nat) (kv : Int) (M : Nat), ki + ks.length = M →
      (trailIso rr ri ks ki kv).1.length = ks.length ∧ ∀ pr ∈ (trailIso rr ri ks ki kv).2, PairOK N M pr := by
  intro ks
  induction ks with
  | nil => intro ki kv M _; simp [trailIso]
  | cons k ks ih =>
    intro ki kv M hM
    simp only [trailIso]
    split
    · obtain ⟨h1, h2⟩ := ih (ki + 1) 0 M (by simp at hM; omega)
      refine ⟨by simp [h1], ?_⟩
      intro pr hpr
      simp only [List.mem_append] at hpr
      rcases hpr with hpr | hpr
      · split at hpr
        · simp only [List.mem_singleton] at hpr; subst hpr
          exact ⟨hr, by simp at hM; omega⟩
        · simp at hpr
      · exact h2 pr hpr
    · simp

/-- lengths of the two presence lists and validity of every pair of the sweep -/
theorem sweep_ok (δ : Int) (rr ir : Iv) (N M : Nat) (rs : List Iv) (ri : Nat) (rv : Int) (ks : List Iv) (ki : Nat)
    (kv : Int) (cur : Cur) (hN : ri + rs.length = N) (hM : ki + ks.length = M) (hc : CurOK N M ri ki cur) :
    (sweep δ rr ir rs ri rv ks ki kv cur).readProf.length = rs.length ∧
    (sweep δ rr ir rs ri rv ks ki kv cur).isoProf.length = ks.length ∧
    ∀ pr ∈ (sweep δ rr ir rs ri rv ks ki kv cur).pairs, PairOK N M pr := by
  fun_induction sweep δ rr ir rs ri rv ks ki kv cur with
  | case1 ri rv ks ki kv cur =>
    obtain ⟨h1, h2⟩ := trailIso_ok rr ri N (by simp at hN; omega) ks ki kv M hM
    refine ⟨rfl, h1, ?_⟩
    intro pr hpr
    simp only [List.mem_append] at hpr
    rcases hpr with hpr | hpr
    · exact closeCur_ok hc pr hpr
    · exact h2 pr hpr
  | case2 r rs ri rv ki kv cur =>
    obtain ⟨h1, h2⟩ := trailRead_ok ir ki M (by simp at hM; omega) (r :: rs) ri rv N hN
    refine ⟨h1, rfl, ?_⟩
    intro pr hpr
    simp only [List.mem_append] at hpr
    rcases hpr with hpr | hpr
    · exact closeCur_ok hc pr hpr
    · exact h2 pr hpr
  | case3 r rs ri rv k ks ki kv cur heq o ih =>
    simp only [o]
    simp only [List.length_cons] at hN hM
    obtain ⟨h1, h2, h3⟩ := ih (by omega) (by omega) trivial
    refine ⟨by simp [h1], by simp [h2], ?_⟩
    intro pr hpr
    simp only [List.mem_append] at hpr
    rcases hpr with hpr | hpr
    · exact closeCur_ok hc pr hpr
    · exact h3 pr hpr
  | case4 r rs ri rv k ks ki kv cur heq hov hlt o ih =>
    simp only [o]
    simp only [List.length_cons] at hN hM
    obtain ⟨h1, h2, h3⟩ := ih (by omega) (by simp only [List.length_cons]; omega)
      (CurOK_mono (extendCur_ok hc (by omega) (by omega)) (by omega) (Nat.le_refl _))
    exact ⟨by simp [h1], by simpa using h2, h3⟩
  | case5 r rs ri rv k ks ki kv cur heq hov hlt o ih =>
    simp only [o]
    simp only [List.length_cons] at hN hM
    obtain ⟨h1, h2, h3⟩ := ih (by simp only [List.length_cons]; omega) (by omega)
      (CurOK_mono (extendCur_ok hc (by omega) (by omega)) (Nat.le_refl _) (by omega))
    exact ⟨by simpa using h1, by simp [h2], h3⟩
  | case6 r rs ri rv k ks ki kv cur heq hov hl flag o ih =>
    simp only [o, flag]
    simp only [List.length_cons] at hN hM
    obtain ⟨h1, h2, h3⟩ := ih (by simp only [List.length_cons]; omega) (by omega) trivial
    refine ⟨by simpa using h1, by simp [h2], ?_⟩
    intro pr hpr
    simp only [List.mem_append] at hpr
    rcases hpr with (hpr | hpr) | hpr
    · exact closeCur_ok hc pr hpr
    · split at hpr
      · simp only [List.mem_singleton] at hpr; subst hpr
        exact ⟨by omega, by omega⟩
      · simp at hpr
    · exact h3 pr hpr
  | case7 r rs ri rv k ks ki kv cur heq hov hl flag o ih =>
    simp only [o, flag]
    simp only [List.length_cons] at hN hM
    obtain ⟨h1, h2, h3⟩ := ih (by omega) (by simp only [List.length_cons]; omega) trivial
    refine ⟨by simp [h1], by simpa using h2, ?_⟩
    intro pr hpr
    simp only [List.mem_append] at hpr
    rcases hpr with (hpr | hpr) | hpr
    · exact closeCur_ok hc pr hpr
    · split at hpr
      · simp only [List.mem_singleton] at hpr; subst hpr
        exact ⟨by omega, by omega⟩
      · simp at hpr
    · exact h3 pr hpr

/-! ### `add_extra_out_exon_events` and `compare_junctions` -/

theorem addExtraOut_some (c : CmpCtx) (prof : List Int) (rr : Iv) (rj : List Iv) (isoStart : Int)
    (hlen : prof.length = rj.length) (hn : 0 < rj.length) : ∃ evs, addExtraOut c prof rr rj isoStart = some evs := by
  obtain ⟨e0, he0⟩ := getExon_some rr rj 0 hn (by omega)
  obtain ⟨e1, he1⟩ := getExon_some rr rj rj.length hn (Nat.le_refl _)
  simp only [Int.natCast_zero] at he0
  have hs : ∃ v, extraSides prof rj isoStart = some v := by
    cases prof with
    | nil => simp at hlen; omega
    | cons f t =>
      cases rj with
      | nil => simp at hn
      | cons j0 js =>
        obtain ⟨l, hl⟩ : ∃ l, (f :: t).getLast? = some l := ⟨_, List.getLast?_eq_some_getLast (by simp)⟩
        unfold extraSides
        rw [hl]
        simp only [List.head?_cons, Option.map_some]
        split <;> exact ⟨_, rfl⟩
  have hl : ∃ v, leftFlank c prof rr rj = some v := by
    unfold leftFlank; rw [he0]; dsimp only; split <;> exact ⟨_, rfl⟩
  have hr : ∃ v, rightFlank c prof rr rj = some v := by
    unfold rightFlank; rw [hlen, he1]; dsimp only; split <;> exact ⟨_, rfl⟩
  obtain ⟨⟨el, er⟩, hs⟩ := hs
  obtain ⟨a, ha⟩ := hl
  obtain ⟨b, hb⟩ := hr
  unfold addExtraOut
  rw [hs]
  dsimp only
  cases el <;> cases er <;> simp [ha, hb]

theorem compareJunctions_some (c : CmpCtx) (rj : List Iv) (rr : Iv) (ij : List Iv) (ir : Iv) :
    ∃ evs, compareJunctions c rj rr ij ir = some evs := by
  unfold compareJunctions
  split
  · exact ⟨_, rfl⟩
  · rename_i hne
    have hn : 0 < rj.length := by
      cases rj with
      | nil => simp at hne
      | cons _ _ => simp
    obtain ⟨h1, h2, h3⟩ := sweep_ok c.p.delta rr ir rj.length ij.length rj 0 0 ij 0 0 none (by simp) (by simp) trivial
    obtain ⟨d, hd⟩ := detectContradictions_some c rr rj ir ij hn (sweepOf c rj rr ij ir).pairs h3
    obtain ⟨x, hx⟩ := addExtraOut_some c (sweepOf c rj rr ij ir).readProf rr rj ir.1 h1 hn
    dsimp only
    rw [hd, hx]
    repeat' split
    all_goals first | exact ⟨_, rfl⟩ |
      (exfalso; rename_i h; split at h <;> (try split at h) <;> simp at h)

end IsoVerif.Lemmas.C01Cmp
