/-
C11 helper lemmas — translation `x ↦ x + k` of the assignment model (Model/Assign.lean), part 1:
generic facts about the error-monad list helpers, gene construction, read profiles, candidate selection, scores.
-/
import IsoVerif.Model.Assign
import IsoVerif.Model.C11SymAssign
import IsoVerif.Lemmas.C11Shift
import IsoVerif.Lemmas.C11ShiftProfiles
import IsoVerif.Lemmas.C01Assign
import IsoVerif.Props.C11Lists
import IsoVerif.Props.C11Profiles

namespace IsoVerif.Lemmas.C11.AssignShift
open IsoVerif.Gen IsoVerif.Model IsoVerif.Model.C01 IsoVerif.Model.C11

/-! ## the error-monad list helpers under `List.map` -/

theorem filterOpt_map {α β} (g : α → β) (f : β → Option Bool) (l : List α) :
    filterOpt f (l.map g) = (filterOpt (fun x => f (g x)) l).map (List.map g) := by
  induction l with
  | nil => rfl
  | cons x xs ih =>
    simp only [List.map_cons, filterOpt, ih]
    cases f (g x) with
    | none => rfl
    | some b =>
      cases filterOpt (fun x => f (g x)) xs with
      | none => rfl
      | some r => cases b <;> simp

theorem mapOpt_map {α β γ} (g : α → β) (f : β → Option γ) (l : List α) :
    mapOpt f (l.map g) = mapOpt (fun x => f (g x)) l := by
  induction l with
  | nil => rfl
  | cons x xs ih => simp only [List.map_cons, mapOpt, ih]

theorem mapOpt_comp_map {α β γ} (f : α → Option β) (h : β → γ) (l : List α) :
    mapOpt (fun x => (f x).map h) l = (mapOpt f l).map (List.map h) := by
  induction l with
  | nil => rfl
  | cons x xs ih =>
    simp only [mapOpt, ih]
    cases f x with
    | none => rfl
    | some b => cases mapOpt f xs <;> rfl

theorem filterOpt_congr {α} (f g : α → Option Bool) (l : List α) (h : ∀ x ∈ l, f x = g x) :
    filterOpt f l = filterOpt g l := by
  induction l with
  | nil => rfl
  | cons x xs ih =>
    simp only [filterOpt, h x (by simp), ih (fun y hy => h y (List.mem_cons_of_mem _ hy))]

theorem mapOpt_congr {α β} (f g : α → Option β) (l : List α) (h : ∀ x ∈ l, f x = g x) :
    mapOpt f l = mapOpt g l := by
  induction l with
  | nil => rfl
  | cons x xs ih =>
    simp only [mapOpt, h x (by simp), ih (fun y hy => h y (List.mem_cons_of_mem _ hy))]

/-! ## the sentinel -/

/-- a (possibly absent) position is not moved ONTO the sentinel −1 -/
def SafePos (k x : Int) : Prop := x ≠ -1 → x + k ≠ -1

theorem shiftPos_of_ne (k x : Int) (h : x ≠ -1) : shiftPos k x = x + k := by simp [shiftPos, h]
theorem shiftPos_neg_one (k : Int) : shiftPos k (-1) = -1 := by simp [shiftPos]
theorem shiftPos_eq_neg_one_iff (k x : Int) (h : SafePos k x) : shiftPos k x = -1 ↔ x = -1 := by
  unfold SafePos at h
  by_cases c : x = -1
  · simp [shiftPos, c]
  · simp [shiftPos, c, h c]

/-! ## gene construction: `GeneInfo.from_models` -/

theorem shiftIv_inj (k : Int) (a b : Iv) : shiftIv k a = shiftIv k b ↔ a = b := by
  constructor
  · intro h
    have h1 := congrArg Prod.fst h
    have h2 := congrArg Prod.snd h
    simp only [shiftIv] at h1 h2
    ext <;> omega
  · intro h; rw [h]

theorem ivLt_shift (k : Int) (a b : Iv) : ivLt (shiftIv k a) (shiftIv k b) = ivLt a b := by
  simp only [ivLt, shiftIv]; grind

theorem insertIv_shift (k : Int) (x : Iv) (l : List Iv) :
    insertIv (shiftIv k x) (shiftL k l) = shiftL k (insertIv x l) := by
  induction l with
  | nil => rfl
  | cons y ys ih =>
    simp only [shiftL_cons, insertIv, ivLt_shift, shiftIv_inj, ih]
    split
    · rfl
    · split <;> rfl

theorem sortDedupIv_shift (k : Int) (l : List Iv) : sortDedupIv (shiftL k l) = shiftL k (sortDedupIv l) := by
  induction l with
  | nil => rfl
  | cons x xs ih => simp only [shiftL_cons, sortDedupIv, ih, insertIv_shift]

theorem regionOf_shift (k : Int) (l : List Iv) : regionOf (shiftL k l) = (regionOf l).map (shiftIv k) := by
  simp only [regionOf, shiftL_head?, shiftL_getLast?]
  cases l.head? <;> cases l.getLast? <;> rfl

theorem mkIso_shift (k : Int) (introns split : List Iv) (m : Isoform) (id : Nat) :
    mkIso (shiftL k introns) (shiftL k split) (shiftIsoform k m) id
      = (mkIso introns split m id).map (shiftIsoInfo k) := by
  simp only [mkIso, shiftIsoform, regionOf_shift]
  cases regionOf m.exons with
  | none => rfl
  | some reg =>
    simp only [Option.map_some, junctionsFromBlocks_shift,
      IsoVerif.Props.C11Profiles.shift_equivariant_setProfiles k _ (IsoVerif.Props.C11Profiles.shiftInv_equal_ranges k 0),
      IsoVerif.Props.C11Profiles.shift_equivariant_setProfiles k _ (IsoVerif.Props.C11Profiles.shiftInv_contains k)]
    rfl

theorem mkIsos_shift (k : Int) (introns split : List Iv) (ms : List Isoform) (i : Nat) :
    mkIsos (shiftL k introns) (shiftL k split) (ms.map (shiftIsoform k)) i
      = (mkIsos introns split ms i).map (List.map (shiftIsoInfo k)) := by
  induction ms generalizing i with
  | nil => rfl
  | cons m ms ih =>
    simp only [List.map_cons, mkIsos, mkIso_shift, ih]
    cases mkIso introns split m i <;> cases mkIsos introns split ms (i + 1) <;> rfl

theorem foldl_min_shift (k : Int) (regs : List Iv) (s : Int) :
    (regs.map (shiftIv k)).foldl (fun s r => min s r.1) (s + k) = regs.foldl (fun s r => min s r.1) s + k := by
  induction regs generalizing s with
  | nil => rfl
  | cons r rs ih =>
    simp only [List.map_cons, List.foldl_cons, shiftIv_fst]
    have : min (s + k) (r.1 + k) = min s r.1 + k := by omega
    rw [this, ih]

theorem foldl_max_shift (k : Int) (regs : List Iv) (s : Int) :
    (regs.map (shiftIv k)).foldl (fun s r => max s r.2) (s + k) = regs.foldl (fun s r => max s r.2) s + k := by
  induction regs generalizing s with
  | nil => rfl
  | cons r rs ih =>
    simp only [List.map_cons, List.foldl_cons, shiftIv_snd]
    have : max (s + k) (r.2 + k) = max s r.2 + k := by omega
    rw [this, ih]

theorem flatMap_exons_shift (k : Int) (ms : List Isoform) :
    (ms.map (shiftIsoform k)).flatMap (fun m => m.exons) = shiftL k (ms.flatMap (fun m => m.exons)) := by
  induction ms with
  | nil => rfl
  | cons m ms ih => simp only [List.map_cons, List.flatMap_cons, ih, shiftL_append, shiftIsoform]

theorem flatMap_junctions_shift (k : Int) (ms : List Isoform) :
    (ms.map (shiftIsoform k)).flatMap (fun m => junctionsFromBlocks m.exons)
      = shiftL k (ms.flatMap (fun m => junctionsFromBlocks m.exons)) := by
  induction ms with
  | nil => rfl
  | cons m ms ih =>
    simp only [List.map_cons, List.flatMap_cons, ih, shiftL_append, shiftIsoform, junctionsFromBlocks_shift]

/-- the hypothesis of `shift_equivariant_splitExons` for every annotated exon: well formed, and no block border
    (exon start, exon end + 1) is the loop's sentinel −1 before or after the shift -/
def ExonsSafe (k : Int) (ms : List Isoform) : Prop :=
  ∀ m ∈ ms, ∀ e ∈ m.exons, e.1 ≤ e.2 ∧ e.1 ≠ -1 ∧ e.1 + k ≠ -1 ∧ e.2 + 1 ≠ -1 ∧ e.2 + 1 + k ≠ -1

theorem fromModels_shift (k : Int) (ms : List Isoform) (h : ExonsSafe k ms) :
    Gene.fromModels (ms.map (shiftIsoform k)) = (Gene.fromModels ms).map (shiftGene k) := by
  unfold Gene.fromModels
  have e1 : mapOpt (fun m => regionOf m.exons) (ms.map (shiftIsoform k))
      = (mapOpt (fun m => regionOf m.exons) ms).map (List.map (shiftIv k)) := by
    rw [mapOpt_map, ← mapOpt_comp_map]
    apply mapOpt_congr
    intro m _
    simp only [shiftIsoform, regionOf_shift]
  rw [e1]
  cases mapOpt (fun m => regionOf m.exons) ms with
  | none => rfl
  | some regs =>
    cases regs with
    | nil => rfl
    | cons r0 regs =>
      simp only [Option.map_some, List.map_cons, shiftIv_fst, shiftIv_snd, foldl_min_shift, foldl_max_shift,
        flatMap_exons_shift, flatMap_junctions_shift, sortDedupIv_shift]
      have hw : ∀ e ∈ sortDedupIv (ms.flatMap (fun m => m.exons)), e.1 ≤ e.2 := by
        intro e he
        obtain ⟨m, hm, hem⟩ := List.mem_flatMap.mp ((IsoVerif.Lemmas.C01.mem_sortDedupIv _ e).mp he)
        exact (h m hm e hem).1
      have hs : ∀ e ∈ sortDedupIv (ms.flatMap (fun m => m.exons)),
          e.1 ≠ -1 ∧ e.1 + k ≠ -1 ∧ e.2 + 1 ≠ -1 ∧ e.2 + 1 + k ≠ -1 := by
        intro e he
        obtain ⟨m, hm, hem⟩ := List.mem_flatMap.mp ((IsoVerif.Lemmas.C01.mem_sortDedupIv _ e).mp he)
        exact (h m hm e hem).2
      rw [IsoVerif.Props.C11Profiles.shift_equivariant_splitExons k _ hw hs]
      cases IsoVerif.Model.splitExons (sortDedupIv (ms.flatMap (fun m => m.exons))) with
      | none => rfl
      | some split =>
        simp only [Option.map_some, mkIsos_shift]
        cases mkIsos (sortDedupIv (ms.flatMap (fun m => junctionsFromBlocks m.exons))) split ms 0 with
        | none => rfl
        | some isos => rfl

end IsoVerif.Lemmas.C11.AssignShift
