/-
Helper lemmas for C09 (core Lean only): association lists used as dicts, `sorted` on strings,
`enumerate`, sums of rationals.
-/
import IsoVerif.Model.C09

namespace IsoVerif.Lemmas.C09
open IsoVerif.Gen IsoVerif.Model.C09

/-! ### sorting strings -/

theorem insertStr_perm (x : String) : ∀ l, (insertStr x l).Perm (x :: l)
  | [] => List.Perm.refl _
  | y :: t => by
    simp only [insertStr]
    split
    · exact List.Perm.refl _
    · exact ((insertStr_perm x t).cons y).trans (List.Perm.swap x y t)

theorem sortStr_perm : ∀ l : List String, (sortStr l).Perm l
  | [] => List.Perm.refl _
  | x :: t => (insertStr_perm x (sortStr t)).trans ((sortStr_perm t).cons x)

theorem mem_sortStr {l : List String} {x : String} : x ∈ sortStr l ↔ x ∈ l := (sortStr_perm l).mem_iff

theorem sortStr_nodup {l : List String} (h : l.Nodup) : (sortStr l).Nodup :=
  (sortStr_perm l).nodup_iff.mpr h

theorem sortStr_length (l : List String) : (sortStr l).length = l.length := (sortStr_perm l).length_eq

theorem insertStr_sorted (x : String) : ∀ l : List String, l.Pairwise (fun a b => a ≤ b) →
    (insertStr x l).Pairwise (fun a b => a ≤ b)
  | [], _ => by simp [insertStr]
  | y :: t, h => by
    simp only [insertStr]
    split
    · rename_i hxy
      refine List.Pairwise.cons ?_ h
      intro z hz
      rcases List.mem_cons.mp hz with e | e
      · rw [e]; exact hxy
      · exact String.le_trans hxy (List.rel_of_pairwise_cons h e)
    · rename_i hxy
      have hyx : y ≤ x := by
        rcases String.le_total x y with h' | h'
        · exact absurd h' hxy
        · exact h'
      refine List.Pairwise.cons ?_ (insertStr_sorted x t (List.Pairwise.of_cons h))
      intro z hz
      rcases List.mem_cons.mp ((insertStr_perm x t).subset hz) with e | e
      · rw [e]; exact hyx
      · exact List.rel_of_pairwise_cons h e

theorem sortStr_sorted : ∀ l : List String, (sortStr l).Pairwise (fun a b => a ≤ b)
  | [] => List.Pairwise.nil
  | x :: t => insertStr_sorted x _ (sortStr_sorted t)

/-- two sorted lists with the same elements (as multisets) are equal -/
theorem eq_of_perm_of_sorted : ∀ {l₁ l₂ : List String}, l₁.Perm l₂ →
    l₁.Pairwise (fun a b => a ≤ b) → l₂.Pairwise (fun a b => a ≤ b) → l₁ = l₂
  | [], l₂, hp, _, _ => by simpa using hp.symm.eq_nil
  | a :: t, [], hp, _, _ => by simpa using hp.eq_nil
  | a :: t₁, b :: t₂, hp, h₁, h₂ => by
    have ha : a ∈ b :: t₂ := hp.subset (List.mem_cons_self)
    have hb : b ∈ a :: t₁ := hp.symm.subset (List.mem_cons_self)
    have hab : a = b := by
      rcases List.mem_cons.mp ha with h | h
      · exact h
      · rcases List.mem_cons.mp hb with h' | h'
        · exact h'.symm
        · exact String.le_antisymm (List.rel_of_pairwise_cons h₁ h') (List.rel_of_pairwise_cons h₂ h)
    subst hab
    have := eq_of_perm_of_sorted (List.Perm.cons_inv hp) (List.Pairwise.of_cons h₁) (List.Pairwise.of_cons h₂)
    rw [this]

/-- `sorted(set)` does not depend on the iteration order of the set -/
theorem sortStr_eq_of_perm {l₁ l₂ : List String} (h : l₁.Perm l₂) : sortStr l₁ = sortStr l₂ :=
  eq_of_perm_of_sorted ((sortStr_perm l₁).trans (h.trans (sortStr_perm l₂).symm)) (sortStr_sorted l₁) (sortStr_sorted l₂)

/-! ### `enumerate` as a dict: `l.zipIdx.lookup` -/

theorem lookup_zipIdx_aux : ∀ (l : List String) (n : Nat) (g : String) (i : Nat), l.Nodup →
    ((l.zipIdx n).lookup g = some i ↔ (n ≤ i ∧ l[i - n]? = some g))
  | [], n, g, i, _ => by simp
  | a :: t, n, g, i, hnd => by
    have hnd' := (List.nodup_cons.mp hnd)
    rw [List.zipIdx_cons, List.lookup_cons]
    by_cases hga : g = a
    · subst hga
      simp only [beq_self_eq_true]
      constructor
      · intro h; simp at h; subst h; simp
      · rintro ⟨hle, h⟩
        by_cases hi : i = n
        · simp [hi]
        · have : i - n = (i - n - 1) + 1 := by omega
          rw [this, List.getElem?_cons_succ] at h
          exact absurd (List.mem_of_getElem? h) hnd'.1
    · have : (g == a) = false := by simp [hga]
      simp only [this]
      rw [lookup_zipIdx_aux t (n + 1) g i hnd'.2]
      constructor
      · rintro ⟨hle, h⟩
        refine ⟨by omega, ?_⟩
        have : i - n = (i - (n + 1)) + 1 := by omega
        rw [this, List.getElem?_cons_succ]; exact h
      · rintro ⟨hle, h⟩
        by_cases hi : i = n
        · simp [hi] at h; exact absurd h.symm hga
        · refine ⟨by omega, ?_⟩
          have : i - n = (i - (n + 1)) + 1 := by omega
          rw [this, List.getElem?_cons_succ] at h; exact h

/-- for a duplicate-free list, `dict(enumerate-swapped)[g] == i` iff `l[i] == g` -/
theorem lookup_zipIdx {l : List String} (h : l.Nodup) (g : String) (i : Nat) :
    l.zipIdx.lookup g = some i ↔ l[i]? = some g := by
  simpa using lookup_zipIdx_aux l 0 g i h

theorem lookup_zipIdx_isSome {l : List String} (h : l.Nodup) {g : String} (hg : g ∈ l) :
    ∃ i, l.zipIdx.lookup g = some i ∧ l[i]? = some g := by
  obtain ⟨i, hi, hgi⟩ := List.getElem_of_mem hg
  exact ⟨i, (lookup_zipIdx h g i).mpr (by simp [List.getElem?_eq_getElem hi, hgi]), by simp [List.getElem?_eq_getElem hi, hgi]⟩

/-! ### IncrementalDict -/

theorem getD_incD (d : IDict) (k' : Nat) (v : Rat) (k : Nat) :
    getD (incD d k' v) k = getD d k + if k' = k then v else 0 := by
  induction d with
  | nil =>
    by_cases h : k' = k
    · subst h; simp [incD, getD, List.lookup, Rat.zero_add]
    · have : (k == k') = false := by simp; exact fun e => h e.symm
      simp [incD, getD, List.lookup, this, h, Rat.zero_add]
  | cons p t ih =>
    obtain ⟨k0, x⟩ := p
    simp only [incD]
    by_cases h0 : k0 = k'
    · subst h0
      simp only [if_true]
      by_cases h : k0 = k
      · subst h; simp [getD, List.lookup]
      · have : (k == k0) = false := by simp; exact fun e => h e.symm
        simp [getD, List.lookup, this, h, Rat.add_zero]
    · simp only [h0, if_false]
      by_cases h : k = k0
      · subst h
        have : ¬ k' = k := fun e => h0 e.symm
        simp [getD, List.lookup, this, Rat.add_zero]
      · have hb : (k == k0) = false := by simp [h]
        have := ih
        simp only [getD, List.lookup, hb] at this ⊢
        exact this

theorem keys_incD (d : IDict) (k : Nat) (v : Rat) :
    (incD d k v).map Prod.fst = if k ∈ d.map Prod.fst then d.map Prod.fst else d.map Prod.fst ++ [k] := by
  induction d with
  | nil => simp [incD]
  | cons p t ih =>
    obtain ⟨k0, x⟩ := p
    simp only [incD]
    by_cases h0 : k0 = k
    · subst h0; simp
    · have hne : ¬ k = k0 := fun e => h0 e.symm
      simp only [h0, if_false, List.map_cons, ih, List.mem_cons, hne, false_or]
      split <;> simp

theorem mem_incD {d : IDict} {k : Nat} {v : Rat} {kv : Nat × Rat} (h : kv ∈ incD d k v) :
    kv ∈ d ∨ kv.1 = k := by
  induction d with
  | nil => simp [incD] at h; right; rw [h]
  | cons p t ih =>
    obtain ⟨k0, x⟩ := p
    simp only [incD] at h
    by_cases h0 : k0 = k
    · simp only [h0, if_true, List.mem_cons] at h
      rcases h with h | h
      · right; rw [h]
      · left; exact List.mem_cons_of_mem _ h
    · simp only [h0, if_false, List.mem_cons] at h
      rcases h with h | h
      · left; rw [h]; exact List.mem_cons_self
      · rcases ih h with h' | h'
        · left; exact List.mem_cons_of_mem _ h'
        · right; exact h'

/-- with unique keys, membership and `get` coincide -/
theorem getD_of_mem : ∀ {d : IDict} {k : Nat} {v : Rat}, (d.map Prod.fst).Nodup → (k, v) ∈ d → getD d k = v
  | (k0, x) :: t, k, v, hnd, hm => by
    simp only [List.map_cons, List.nodup_cons] at hnd
    rcases List.mem_cons.mp hm with h | h
    · injection h with h1 h2; subst h1; subst h2; simp [getD, List.lookup]
    · have hne : k ≠ k0 := by
        intro e; subst e
        exact hnd.1 (List.mem_map.mpr ⟨(k, v), h, rfl⟩)
      have hb : (k == k0) = false := by simp [hne]
      have := getD_of_mem hnd.2 h
      simp only [getD, List.lookup, hb] at this ⊢
      exact this

theorem mem_of_getD_ne_zero : ∀ {d : IDict} {k : Nat}, getD d k ≠ 0 → (k, getD d k) ∈ d
  | [], k, h => by simp [getD, List.lookup] at h
  | (k0, x) :: t, k, h => by
    by_cases hk : k = k0
    · subst hk; simp [getD, List.lookup]
    · have hb : (k == k0) = false := by simp [hk]
      have h' : getD t k ≠ 0 := by simpa [getD, List.lookup, hb] using h
      have := mem_of_getD_ne_zero h'
      have e : getD ((k0, x) :: t) k = getD t k := by simp [getD, List.lookup, hb]
      rw [e]; exact List.mem_cons_of_mem _ this

/-! ### feature_counter -/

theorem dataOf_incF (fc : FC) (f' : String) (k : Nat) (v : Rat) (f : String) :
    dataOf (incF fc f' k v) f = if f' = f then incD (dataOf fc f) k v else dataOf fc f := by
  induction fc with
  | nil =>
    by_cases h : f' = f
    · subst h; simp [incF, dataOf, List.lookup, incD]
    · have : (f == f') = false := by simp; exact fun e => h e.symm
      simp [incF, dataOf, List.lookup, this, h]
  | cons p t ih =>
    obtain ⟨f0, d⟩ := p
    simp only [incF]
    by_cases h0 : f0 = f'
    · subst h0
      simp only [if_true]
      by_cases h : f0 = f
      · subst h; simp [dataOf, List.lookup]
      · have : (f == f0) = false := by simp; exact fun e => h e.symm
        simp [dataOf, List.lookup, this, h]
    · simp only [h0, if_false]
      by_cases h : f = f0
      · subst h
        have : ¬ f' = f := fun e => h0 e.symm
        simp [dataOf, List.lookup, this]
      · have hb : (f == f0) = false := by simp [h]
        have := ih
        simp only [dataOf, List.lookup, hb] at this ⊢
        exact this

theorem cell_incF (fc : FC) (f' : String) (k' : Nat) (v : Rat) (f : String) (k : Nat) :
    cell (incF fc f' k' v) f k = cell fc f k + if f' = f ∧ k' = k then v else 0 := by
  unfold cell
  rw [dataOf_incF]
  by_cases h : f' = f
  · simp only [h, if_true, true_and]; exact getD_incD _ _ _ _
  · simp [h, Rat.add_zero]

/-- total amount a list of `inc` statements adds to feature `f` -/
def incsVal : List (String × Rat × Bool) → String → Rat
  | [], _ => 0
  | (f', v, _) :: t, f => (if f' = f then v else 0) + incsVal t f

theorem cell_applyIncs (gid : Nat) (incs : List (String × Rat × Bool)) (fc : FC) (af : List String) (f : String) (k : Nat) :
    cell (applyIncs gid incs fc af).1 f k = cell fc f k + if gid = k then incsVal incs f else 0 := by
  induction incs generalizing fc af with
  | nil => simp [applyIncs, incsVal, Rat.add_zero]
  | cons p t ih =>
    obtain ⟨f', v, add⟩ := p
    simp only [applyIncs, incsVal]
    rw [ih, cell_incF]
    by_cases hk : gid = k <;> by_cases hf : f' = f <;> simp [hk, hf] <;> grind

/-- the `all_features` set after the `inc` statements does not depend on the numeric group id -/
theorem applyIncs_allFeatures (g1 g2 : Nat) (incs : List (String × Rat × Bool)) (fc1 fc2 : FC) (af : List String) :
    (applyIncs g1 incs fc1 af).2 = (applyIncs g2 incs fc2 af).2 := by
  induction incs generalizing fc1 fc2 af with
  | nil => simp [applyIncs]
  | cons p t ih =>
    obtain ⟨f', v, add⟩ := p
    simp only [applyIncs]
    exact ih _ _ _

/-- sum of `v x` over a list -/
def sumOver {α} : List α → (α → Rat) → Rat
  | [], _ => 0
  | x :: xs, v => v x + sumOver xs v

theorem sumOver_add {α} (l : List α) (a b : α → Rat) :
    sumOver l (fun x => a x + b x) = sumOver l a + sumOver l b := by
  induction l with
  | nil => simp [sumOver, Rat.add_zero]
  | cons x xs ih => simp only [sumOver, ih]; grind

theorem sumOver_zero {α} (l : List α) : sumOver l (fun _ => (0 : Rat)) = 0 := by
  induction l with
  | nil => simp [sumOver]
  | cons x xs ih => simp only [sumOver, ih]; grind

theorem sumOver_congr {α} (l : List α) (a b : α → Rat) (h : ∀ x ∈ l, a x = b x) : sumOver l a = sumOver l b := by
  induction l with
  | nil => simp [sumOver]
  | cons x xs ih =>
    simp only [sumOver]
    rw [h x List.mem_cons_self, ih (fun y hy => h y (List.mem_cons_of_mem _ hy))]

/-- a value attached to exactly one element of a duplicate-free list -/
theorem sumOver_indicator (l : List String) (hnd : l.Nodup) (g : String) (v : Rat) :
    sumOver l (fun g' => if g = g' then v else 0) = if g ∈ l then v else 0 := by
  induction l with
  | nil => simp [sumOver]
  | cons a t ih =>
    have hnd' := List.nodup_cons.mp hnd
    simp only [sumOver, ih hnd'.2, List.mem_cons]
    by_cases h : g = a
    · subst h; simp [hnd'.1, Rat.add_zero]
    · simp [h, Rat.zero_add]

/-- exchanging the order of summation: the calls of each group, summed over the groups, are all calls whose group
    is among the groups -/
theorem sumOver_groups {α} (groups : List String) (hnd : groups.Nodup) (calls : List α) (grp : α → String) (v : α → Rat) :
    sumOver groups (fun g => sumOver calls (fun x => if grp x = g then v x else 0)) =
      sumOver calls (fun x => if grp x ∈ groups then v x else 0) := by
  induction calls with
  | nil => simp [sumOver, sumOver_zero]
  | cons x xs ih =>
    simp only [sumOver]
    rw [sumOver_add, ih, sumOver_indicator groups hnd]

/-! ### one call, a stream of calls -/

/-- the group name under which a call is counted -/
def gnameOf (c : Counter) (x : Call) : String := if c.ignoreGroups then NA else (x.group.getD NA)

/-- what a call adds to feature `f` (in whatever group it is counted); the weight function is the same for the
    grouped and the ungrouped counter because it does not look at the group -/
def callVal (s : CountingStrategy) (x : Call) (f : String) : Rat :=
  match callEffect s x with
  | .ok e => incsVal e.incs f
  | .error _ => 0

/-- the configuration part of a counter (never changed by a call) -/
def SameCfg (c c' : Counter) : Prop :=
  c'.ids = c.ids ∧ c'.ordered = c.ordered ∧ c'.ignoreGroups = c.ignoreGroups ∧ c'.strategy = c.strategy ∧
  c'.outputZeroes = c.outputZeroes ∧ c'.fmt = c.fmt

theorem SameCfg.refl (c : Counter) : SameCfg c c := ⟨rfl, rfl, rfl, rfl, rfl, rfl⟩
theorem SameCfg.trans {a b c : Counter} (h1 : SameCfg a b) (h2 : SameCfg b c) : SameCfg a c := by
  unfold SameCfg at *; grind

theorem effect_incs_nil {s : CountingStrategy} {x : Call} {e : Effect} (h : callEffect s x = .ok e)
    (hn : e.needsGroup = false) : e.incs = [] := by
  cases x with
  | confirmFeatures fs => simp [callEffect] at h; subst h; rfl
  | raw r =>
    simp only [callEffect, rawEffect] at h
    injection h with h; subst h
    revert hn
    split
    · simp
    · split <;> simp
  | info r =>
    simp only [callEffect, readEffect] at h
    revert hn
    repeat' split at h
    all_goals (first | (injection h with h; subst h; simp [Effect.none]) | cases h)

theorem applyEffect_spec {c c' : Counter} {g : String} {e : Effect} (h : applyEffect c g e = .ok c') :
    SameCfg c c' ∧
    (∃ gid, (if e.needsGroup then c.ids.lookup (if c.ignoreGroups then NA else g) else some 0) = some gid ∧
      (∀ f k, cell c'.fc f k = cell c.fc f k + if gid = k then incsVal e.incs f else 0) ∧
      c'.allFeatures = (applyIncs gid e.incs c.fc c.allFeatures).2) ∧
    c'.confirmed = (match e.confirm with | some f => setInsert c.confirmed f | none => c.confirmed) ∧
    c'.ambiguousReads = c.ambiguousReads + e.dAmbiguous ∧ c'.forTpm = c.forTpm + e.dForTpm ∧
    c'.notAssigned = c.notAssigned + e.dNotAssigned ∧ c'.notAligned = c.notAligned + e.dNotAligned := by
  unfold applyEffect at h
  simp only at h
  split at h
  · cases h
  · rename_i gid hg
    injection h with h
    subst h
    refine ⟨⟨rfl, rfl, rfl, rfl, rfl, rfl⟩, ⟨gid, hg, ?_, rfl⟩, rfl, rfl, rfl, rfl, rfl⟩
    intro f k
    exact cell_applyIncs gid e.incs c.fc c.allFeatures f k

/-- one call: configuration unchanged; the cells change by the call's value in the column of its group -/
theorem step_spec {c c' : Counter} {x : Call} (h : step c x = .ok c') :
    SameCfg c c' ∧
    (∀ f k, cell c'.fc f k = cell c.fc f k + if c.ids.lookup (gnameOf c x) = some k then callVal c.strategy x f else 0) := by
  cases x with
  | confirmFeatures fs =>
    simp only [step] at h
    injection h with h; subst h
    refine ⟨⟨rfl, rfl, rfl, rfl, rfl, rfl⟩, ?_⟩
    intro f k
    simp [callVal, callEffect, Effect.none, incsVal, Rat.add_zero]
  | raw r =>
    simp only [step, addReadInfoRaw] at h
    obtain ⟨hc, ⟨gid, hg, hcell, _⟩, _⟩ := applyEffect_spec h
    refine ⟨hc, ?_⟩
    intro f k
    rw [hcell f k]
    have hne : (rawEffect c.strategy r).needsGroup = true := by
      unfold rawEffect; split
      · rfl
      · split <;> rfl
    simp only [hne, if_true] at hg
    simp only [gnameOf, Call.group, Option.getD, callVal, callEffect, hg]
    by_cases hk : gid = k <;> simp [hk]
  | info r =>
    simp only [step, addReadInfo] at h
    split at h
    · cases h
    · rename_i e he
      obtain ⟨hc, ⟨gid, hg, hcell, _⟩, _⟩ := applyEffect_spec h
      refine ⟨hc, ?_⟩
      intro f k
      rw [hcell f k]
      simp only [gnameOf, Call.group, Option.getD, callVal, callEffect, he]
      by_cases hn : e.needsGroup = true
      · simp only [hn, if_true] at hg
        rw [hg]
        by_cases hk : gid = k <;> simp [hk]
      · have hn' : e.needsGroup = false := by simpa using hn
        have : e.incs = [] := effect_incs_nil (x := .info r) (by simpa [callEffect] using he) hn'
        simp [this, incsVal, Rat.add_zero]

/-- a stream of calls: every cell is its initial value plus the values of the calls counted in its column -/
theorem run_spec {c c' : Counter} {calls : List Call} (h : run c calls = .ok c') :
    SameCfg c c' ∧
    (∀ f k, cell c'.fc f k = cell c.fc f k +
      sumOver calls (fun x => if c.ids.lookup (gnameOf c x) = some k then callVal c.strategy x f else 0)) := by
  induction calls generalizing c with
  | nil =>
    simp only [run] at h; injection h with h; subst h
    exact ⟨SameCfg.refl _, by intro f k; simp [sumOver, Rat.add_zero]⟩
  | cons x xs ih =>
    simp only [run] at h
    split at h
    · cases h
    · rename_i c1 h1
      obtain ⟨hc1, hcell1⟩ := step_spec h1
      obtain ⟨hc2, hcell2⟩ := ih h
      refine ⟨hc1.trans hc2, ?_⟩
      intro f k
      rw [hcell2 f k, hcell1 f k]
      have e1 : c1.ids = c.ids := hc1.1
      have e2 : c1.strategy = c.strategy := hc1.2.2.2.1
      have e3 : c1.ignoreGroups = c.ignoreGroups := hc1.2.2.1
      simp only [sumOver, gnameOf, e1, e2, e3]
      grind

/-! ### invariants of the counter state -/

theorem one_div_nat_nonneg (n : Nat) : (0 : Rat) ≤ 1 / (n : Rat) := by
  have h0 : (0 : Rat) ≤ (n : Rat) := Rat.natCast_nonneg
  have h1 := @Rat.inv_pos (n : Rat)
  rw [Rat.div_def]
  grind

theorem processAmbiguous_nonneg (s : CountingStrategy) (n : Nat) : 0 ≤ processAmbiguous s n := by
  unfold processAmbiguous
  split
  · decide
  · split
    · decide
    · split
      · exact one_div_nat_nonneg n
      · decide

theorem processInconsistent_nonneg {s : CountingStrategy} {t : ReadAssignmentType} {n : Nat} {v : Rat}
    (h : processInconsistent s t n = .ok v) : 0 ≤ v := by
  unfold processInconsistent at h
  repeat' split at h
  all_goals cases h
  all_goals (first | decide | exact one_div_nat_nonneg n)

theorem nonneg_nil : ∀ i ∈ ([] : List (String × Rat × Bool)), (0 : Rat) ≤ i.2.1 := by simp

theorem nonneg_map (fs : List String) (v : Rat) (b : Bool) (hv : 0 ≤ v) :
    ∀ i ∈ fs.map (fun f => (f, v, b)), (0 : Rat) ≤ i.2.1 := by
  intro i hi
  simp only [List.mem_map] at hi
  obtain ⟨f, _, rfl⟩ := hi
  exact hv

theorem nonneg_single (f : String) (b : Bool) : ∀ i ∈ [(f, (1 : Rat), b)], (0 : Rat) ≤ i.2.1 := by
  intro i hi
  simp only [List.mem_singleton] at hi
  subst hi
  show (0 : Rat) ≤ 1
  decide

theorem effect_nonneg {s : CountingStrategy} {x : Call} {e : Effect} (h : callEffect s x = .ok e) :
    ∀ i ∈ e.incs, (0 : Rat) ≤ i.2.1 := by
  cases x with
  | confirmFeatures fs => simp [callEffect] at h; subst h; exact nonneg_nil
  | raw r =>
    simp only [callEffect, rawEffect] at h
    injection h with h; subst h
    split
    · exact nonneg_nil
    · split
      · exact nonneg_nil
      · exact nonneg_single _ _
      · exact nonneg_map _ _ _ (processAmbiguous_nonneg _ _)
  | info r =>
    simp only [callEffect, readEffect] at h
    repeat' split at h
    all_goals cases h
    all_goals (first
      | exact nonneg_nil
      | exact nonneg_single _ _
      | exact nonneg_map _ _ _ (processAmbiguous_nonneg _ _)
      | (rename_i v hv _; exact nonneg_map _ _ _ (processInconsistent_nonneg hv)))

/-- an IncrementalDict of a counter with `n` groups: unique keys below `n`, non-negative values -/
def DInv (n : Nat) (d : IDict) : Prop := (d.map Prod.fst).Nodup ∧ ∀ kv ∈ d, kv.1 < n ∧ 0 ≤ kv.2

def FCInv (n : Nat) (fc : FC) : Prop := ∀ p ∈ fc, DInv n p.2

theorem DInv_nil (n : Nat) : DInv n [] := ⟨by simp, by simp⟩

theorem DInv_incD {n : Nat} {d : IDict} {k : Nat} {v : Rat} (h : DInv n d) (hk : k < n) (hv : 0 ≤ v) :
    DInv n (incD d k v) := by
  constructor
  · rw [keys_incD]
    split
    · exact h.1
    · rename_i hnm
      exact List.nodup_append.mpr ⟨h.1, by simp, by intro a ha b hb; simp at hb; subst hb; intro e; subst e; exact hnm ha⟩
  · have hvals := h.2
    clear h
    induction d with
    | nil => intro kv hkv; simp [incD] at hkv; subst hkv; exact ⟨hk, hv⟩
    | cons p t ih =>
      obtain ⟨k0, x⟩ := p
      intro kv hkv
      simp only [incD] at hkv
      by_cases h0 : k0 = k
      · simp only [h0, if_true, List.mem_cons] at hkv
        rcases hkv with e | e
        · subst e
          exact ⟨hk, Rat.add_nonneg (hvals (k0, x) List.mem_cons_self).2 hv⟩
        · exact hvals kv (List.mem_cons_of_mem _ e)
      · simp only [h0, if_false, List.mem_cons] at hkv
        rcases hkv with e | e
        · subst e; exact hvals (k0, x) List.mem_cons_self
        · exact ih (fun kv' h' => hvals kv' (List.mem_cons_of_mem _ h')) kv e

theorem FCInv_incF {n : Nat} {fc : FC} {f : String} {k : Nat} {v : Rat} (h : FCInv n fc) (hk : k < n) (hv : 0 ≤ v) :
    FCInv n (incF fc f k v) := by
  induction fc with
  | nil =>
    intro p hp
    simp [incF] at hp; subst hp
    exact DInv_incD (DInv_nil n) hk hv
  | cons q t ih =>
    obtain ⟨f0, d⟩ := q
    intro p hp
    simp only [incF] at hp
    by_cases h0 : f0 = f
    · simp only [h0, if_true, List.mem_cons] at hp
      rcases hp with e | e
      · subst e; exact DInv_incD (h (f0, d) List.mem_cons_self) hk hv
      · exact h p (List.mem_cons_of_mem _ e)
    · simp only [h0, if_false, List.mem_cons] at hp
      rcases hp with e | e
      · subst e; exact h (f0, d) List.mem_cons_self
      · exact ih (fun p' h' => h p' (List.mem_cons_of_mem _ h')) p e

theorem FCInv_applyIncs {n gid : Nat} (hg : gid < n) (incs : List (String × Rat × Bool)) (hnn : ∀ i ∈ incs, (0 : Rat) ≤ i.2.1)
    (fc : FC) (af : List String) (h : FCInv n fc) : FCInv n (applyIncs gid incs fc af).1 := by
  induction incs generalizing fc af with
  | nil => simpa [applyIncs] using h
  | cons p t ih =>
    obtain ⟨f', v, add⟩ := p
    simp only [applyIncs]
    exact ih (fun i hi => hnn i (List.mem_cons_of_mem _ hi)) _ _
      (FCInv_incF h hg (hnn (f', v, add) List.mem_cons_self))

theorem mem_of_lookup {α β} [BEq α] [LawfulBEq α] : ∀ {l : List (α × β)} {k : α} {v : β}, l.lookup k = some v → (k, v) ∈ l
  | [], _, _, h => by simp at h
  | (k0, v0) :: t, k, v, h => by
    rw [List.lookup_cons] at h
    by_cases hk : k = k0
    · subst hk; simp at h; subst h; exact List.mem_cons_self
    · have : (k == k0) = false := by simp [hk]
      simp only [this] at h
      exact List.mem_cons_of_mem _ (mem_of_lookup h)

theorem DInv_dataOf {n : Nat} {fc : FC} (h : FCInv n fc) (f : String) : DInv n (dataOf fc f) := by
  unfold dataOf
  split
  · rename_i d hd; exact h (f, d) (mem_of_lookup hd)
  · exact DInv_nil n

/-- state invariant of a counter built by the fixed `__init__`: numeric ids enumerate the duplicate-free
    `ordered_groups`, every IncrementalDict has unique keys below the number of groups and values ≥ 0 -/
def Inv (c : Counter) : Prop :=
  c.ordered.Nodup ∧ c.ids = c.ordered.zipIdx ∧ FCInv c.ordered.length c.fc

theorem lookup_lt {c : Counter} (h : Inv c) {g : String} {i : Nat} (hl : c.ids.lookup g = some i) :
    i < c.ordered.length ∧ c.ordered[i]? = some g := by
  rw [h.2.1] at hl
  have := (lookup_zipIdx h.1 g i).mp hl
  exact ⟨(List.getElem?_eq_some_iff.mp this).1, this⟩

theorem Inv_step {c c' : Counter} {x : Call} (hi : Inv c) (h : step c x = .ok c') : Inv c' := by
  have hcfg := (step_spec h).1
  obtain ⟨hids, hord, _, _, _, _⟩ := hcfg
  refine ⟨by rw [hord]; exact hi.1, by rw [hids, hord]; exact hi.2.1, ?_⟩
  rw [hord]
  cases x with
  | confirmFeatures fs => simp only [step] at h; injection h with h; subst h; exact hi.2.2
  | raw r =>
    simp only [step, addReadInfoRaw] at h
    unfold applyEffect at h
    simp only at h
    split at h
    · cases h
    · rename_i gid hg
      injection h with h; subst h
      have hne : (rawEffect c.strategy r).needsGroup = true := by
        unfold rawEffect; split
        · rfl
        · split <;> rfl
      simp only [hne, if_true] at hg
      exact FCInv_applyIncs (lookup_lt hi hg).1 _ (effect_nonneg (x := .raw r) (s := c.strategy) rfl) _ _ hi.2.2
  | info r =>
    simp only [step, addReadInfo] at h
    split at h
    · cases h
    · rename_i e he
      unfold applyEffect at h
      simp only at h
      split at h
      · cases h
      · rename_i gid hg
        injection h with h; subst h
        have hnn := effect_nonneg (x := .info r) (s := c.strategy) (by simpa [callEffect] using he)
        by_cases hn : e.needsGroup = true
        · simp only [hn, if_true] at hg
          exact FCInv_applyIncs (lookup_lt hi hg).1 _ hnn _ _ hi.2.2
        · have hn' : e.needsGroup = false := by simpa using hn
          have : e.incs = [] := effect_incs_nil (x := .info r) (by simpa [callEffect] using he) hn'
          simpa [this, applyIncs] using hi.2.2

theorem Inv_run {c c' : Counter} {calls : List Call} (hi : Inv c) (h : run c calls = .ok c') : Inv c' := by
  induction calls generalizing c with
  | nil => simp only [run] at h; injection h with h; subst h; exact hi
  | cons x xs ih =>
    simp only [run] at h
    split at h
    · cases h
    · rename_i c1 h1
      exact ih (Inv_step hi h1) h

/-! ### dump -/

/-- numeric id of a group name (0 when it has none; never used in that case) -/
def idOf (ids : List (String × Nat)) (g : String) : Nat :=
  match ids.lookup g with
  | some i => i
  | none => 0

theorem linearOf_spec (ordered : List String) (f : String) :
    ∀ (d : IDict), (∀ kv ∈ d, kv.1 < ordered.length) →
      ∃ lin, linearOf ordered f d = .ok lin ∧
        ∀ t, t ∈ lin ↔ ∃ kv ∈ d, ordered[kv.1]? = some t.2.1 ∧ t.1 = f ∧ t.2.2 = kv.2
  | [], _ => ⟨[], rfl, by simp⟩
  | (k, v) :: t, h => by
    have hk : k < ordered.length := (h (k, v) List.mem_cons_self)
    obtain ⟨lin, hl, hmem⟩ := linearOf_spec ordered f t (fun kv hkv => h kv (List.mem_cons_of_mem _ hkv))
    refine ⟨(f, ordered[k], v) :: lin, ?_, ?_⟩
    · simp [linearOf, List.getElem?_eq_getElem hk, hl]
    · intro tr
      simp only [List.mem_cons, hmem]
      constructor
      · rintro (e | ⟨kv, hkv, h1, h2, h3⟩)
        · subst e
          exact ⟨(k, v), Or.inl rfl, by simp [List.getElem?_eq_getElem hk], rfl, rfl⟩
        · exact ⟨kv, Or.inr hkv, h1, h2, h3⟩
      · rintro ⟨kv, hkv | hkv, h1, h2, h3⟩
        · left
          subst hkv
          simp only [List.getElem?_eq_getElem hk, Option.some.injEq] at h1
          obtain ⟨a, b, c⟩ := tr
          simp only at h1 h2 h3
          subst h1 h2 h3
          rfl
        · right; exact ⟨kv, hkv, h1, h2, h3⟩

theorem rowOf_spec (ids : List (String × Nat)) (d : IDict) :
    ∀ (gs : List String), (∀ g ∈ gs, ∃ i, ids.lookup g = some i) →
      rowOf ids d gs = .ok (gs.map (fun g => getD d (idOf ids g)))
  | [], _ => rfl
  | g :: gs, h => by
    obtain ⟨i, hi⟩ := h g List.mem_cons_self
    have := rowOf_spec ids d gs (fun g' hg' => h g' (List.mem_cons_of_mem _ hg'))
    simp [rowOf, hi, this, idOf]

theorem sumVals_nonneg : ∀ (d : IDict), (∀ kv ∈ d, (0 : Rat) ≤ kv.2) → 0 ≤ sumVals d
  | [], _ => by simp [sumVals]
  | (k, v) :: t, h => by
    simp only [sumVals]
    exact Rat.add_nonneg (h (k, v) List.mem_cons_self) (sumVals_nonneg t (fun kv hkv => h kv (List.mem_cons_of_mem _ hkv)))

/-- non-negative counts that sum to zero are all zero -/
theorem sumVals_eq_zero : ∀ (d : IDict), (∀ kv ∈ d, (0 : Rat) ≤ kv.2) → sumVals d = 0 → ∀ kv ∈ d, kv.2 = 0
  | [], _, _ => by simp
  | (k, v) :: t, h, hs => by
    simp only [sumVals] at hs
    have h1 : 0 ≤ v := h (k, v) List.mem_cons_self
    have h2 := sumVals_nonneg t (fun kv hkv => h kv (List.mem_cons_of_mem _ hkv))
    have hv : v = 0 := by grind
    have ht : sumVals t = 0 := by grind
    intro kv hkv
    rcases List.mem_cons.mp hkv with e | e
    · subst e; exact hv
    · exact sumVals_eq_zero t (fun kv hkv => h kv (List.mem_cons_of_mem _ hkv)) ht kv e

/-- the loop of `dump_grouped`: it cannot fail, the linear lines are the (key, value) pairs of every feature with
    the key replaced by `ordered_groups[key]`, the matrix rows are the `get`s in header order -/
theorem dumpGroupedRows_spec (c : Counter) (fc : FC)
    (hd : ∀ f, ∀ kv ∈ dataOf fc f, kv.1 < c.ordered.length)
    (hids : ∀ g ∈ c.ordered, ∃ i, c.ids.lookup g = some i) :
    ∀ (feats : List String), ∃ rows lins, dumpGroupedRows c fc feats = .ok (rows, lins) ∧
      (∀ t, t ∈ lins ↔ t.1 ∈ feats ∧ ∃ kv ∈ dataOf fc t.1, c.ordered[kv.1]? = some t.2.1 ∧ t.2.2 = kv.2) ∧
      (∀ f row, (f, row) ∈ rows ↔ f ∈ feats ∧ ¬ (c.outputZeroes = false ∧ sumVals (dataOf fc f) = 0) ∧
          row = c.ordered.map (fun g => getD (dataOf fc f) (idOf c.ids g)))
  | [] => ⟨[], [], rfl, by simp, by simp⟩
  | f :: fs => by
    obtain ⟨rows, lins, hr, hl, hm⟩ := dumpGroupedRows_spec c fc hd hids fs
    obtain ⟨lin, hlin, hlmem⟩ := linearOf_spec c.ordered f (dataOf fc f) (hd f)
    have hrow := rowOf_spec c.ids (dataOf fc f) c.ordered hids
    have hlins : ∀ t, t ∈ lin ++ lins ↔ t.1 ∈ f :: fs ∧ ∃ kv ∈ dataOf fc t.1, c.ordered[kv.1]? = some t.2.1 ∧ t.2.2 = kv.2 := by
      intro t
      simp only [List.mem_append, hl, hlmem, List.mem_cons]
      constructor
      · rintro (⟨kv, hkv, h1, h2, h3⟩ | ⟨h1, h2⟩)
        · exact ⟨Or.inl h2, kv, by rw [h2]; exact hkv, h1, h3⟩
        · exact ⟨Or.inr h1, h2⟩
      · rintro ⟨h1 | h1, kv, hkv, h2, h3⟩
        · left; exact ⟨kv, by rw [← h1]; exact hkv, h2, h1, h3⟩
        · right; exact ⟨h1, kv, hkv, h2, h3⟩
    by_cases hskip : c.outputZeroes = false ∧ sumVals (dataOf fc f) = 0
    · refine ⟨rows, lin ++ lins, ?_, hlins, ?_⟩
      · have : (!c.outputZeroes) = true ∧ sumVals (dataOf fc f) = 0 := by simpa using hskip
        simp only [dumpGroupedRows, hlin, hr]
        rw [if_pos this]
      · intro f' row
        rw [hm]
        simp only [List.mem_cons]
        constructor
        · rintro ⟨h1, h2, h3⟩; exact ⟨Or.inr h1, h2, h3⟩
        · rintro ⟨h1 | h1, h2, h3⟩
          · subst h1; exact absurd hskip h2
          · exact ⟨h1, h2, h3⟩
    · refine ⟨(f, c.ordered.map (fun g => getD (dataOf fc f) (idOf c.ids g))) :: rows, lin ++ lins, ?_, hlins, ?_⟩
      · have : ¬ ((!c.outputZeroes) = true ∧ sumVals (dataOf fc f) = 0) := by simpa using hskip
        simp only [dumpGroupedRows, hlin, hr, hrow]
        rw [if_neg this]
      · intro f' row
        simp only [List.mem_cons, hm, Prod.mk.injEq]
        constructor
        · rintro (⟨h1, h2⟩ | ⟨h1, h2, h3⟩)
          · subst h1; exact ⟨Or.inl rfl, hskip, h2⟩
          · exact ⟨Or.inr h1, h2, h3⟩
        · rintro ⟨h1 | h1, h2, h3⟩
          · left; subst h1; exact ⟨rfl, h3⟩
          · right; exact ⟨h1, h2, h3⟩

theorem mem_zip_map {α β} (l : List α) (h : α → β) (a : α) (b : β) :
    (a, b) ∈ l.zip (l.map h) ↔ a ∈ l ∧ b = h a := by
  induction l with
  | nil => simp
  | cons x xs ih =>
    simp only [List.map_cons, List.zip_cons_cons, List.mem_cons, Prod.mk.injEq, ih]
    constructor
    · rintro (⟨h1, h2⟩ | ⟨h1, h2⟩)
      · subst h1; exact ⟨Or.inl rfl, h2⟩
      · exact ⟨Or.inr h1, h2⟩
    · rintro ⟨h1 | h1, h2⟩
      · left; exact ⟨h1, by rw [h2, h1]⟩
      · right; exact ⟨h1, h2⟩

theorem mem_matrixTriples (header : List String) (rows : List (String × List Rat)) (t : String × String × Rat) :
    t ∈ matrixTriples header rows ↔ ∃ row, (t.1, row) ∈ rows ∧ (t.2.1, t.2.2) ∈ header.zip row := by
  unfold matrixTriples
  simp only [List.mem_flatMap, List.mem_map]
  constructor
  · rintro ⟨r, hr, gv, hgv, rfl⟩
    exact ⟨r.2, hr, hgv⟩
  · rintro ⟨row, hr, hz⟩
    exact ⟨(t.1, row), hr, (t.2.1, t.2.2), hz, rfl⟩

/-- zeroing the unconfirmed features, seen from one feature -/
theorem dataOf_zeroUnconfirmed (fc : FC) (feats confirmed : List String) (f : String) :
    dataOf (zeroUnconfirmed fc feats confirmed) f =
      zeroIf (feats.contains f && !confirmed.contains f) (dataOf fc f) := by
  unfold zeroUnconfirmed
  induction fc with
  | nil => simp [dataOf, List.lookup, zeroIf]
  | cons p t ih =>
    obtain ⟨f0, d⟩ := p
    by_cases h : f = f0
    · subst h
      simp [dataOf, List.lookup]
    · have hb : (f == f0) = false := by simp [h]
      simp only [List.map_cons, dataOf, List.lookup, hb] at ih ⊢
      exact ih

theorem DInv_zeroIf {n : Nat} {d : IDict} (b : Bool) (h : DInv n d) : DInv n (zeroIf b d) := by
  unfold zeroIf
  split
  · have hk : (d.map (fun kv => (kv.1, (0 : Rat)))).map Prod.fst = d.map Prod.fst := by
      rw [List.map_map]; rfl
    refine ⟨by rw [hk]; exact h.1, ?_⟩
    intro kv hkv
    simp only [List.mem_map] at hkv
    obtain ⟨kv0, h0, rfl⟩ := hkv
    refine ⟨(h.2 kv0 h0).1, ?_⟩
    show (0 : Rat) ≤ 0
    decide
  · exact h

/-! ### when a stream is accepted -/

theorem step_ok_iff (c : Counter) (x : Call) :
    (∃ c', step c x = .ok c') ↔
      ∃ e, callEffect c.strategy x = .ok e ∧ (e.needsGroup = true → ∃ k, c.ids.lookup (gnameOf c x) = some k) := by
  cases x with
  | confirmFeatures fs =>
    simp [step, callEffect, Effect.none]
  | raw r =>
    simp only [step, addReadInfoRaw, callEffect, applyEffect, gnameOf, Call.group, Option.getD]
    constructor
    · rintro ⟨c', h⟩
      refine ⟨_, rfl, ?_⟩
      intro hn
      simp only [hn, if_true] at h
      split at h
      · cases h
      · rename_i gid hg; exact ⟨gid, hg⟩
    · rintro ⟨e, he, hk⟩
      injection he with he; subst he
      by_cases hn : (rawEffect c.strategy r).needsGroup = true
      · obtain ⟨k, hk⟩ := hk hn
        simp only [hn, if_true, hk]
        exact ⟨_, rfl⟩
      · have hn' : (rawEffect c.strategy r).needsGroup = false := by simpa using hn
        simp only [hn', Bool.false_eq_true, if_false]
        exact ⟨_, rfl⟩
  | info r =>
    simp only [step, addReadInfo, callEffect, gnameOf, Call.group, Option.getD]
    constructor
    · rintro ⟨c', h⟩
      split at h
      · cases h
      · rename_i e he
        refine ⟨e, he, ?_⟩
        intro hn
        unfold applyEffect at h
        simp only [hn, if_true] at h
        split at h
        · cases h
        · rename_i gid hg; exact ⟨gid, hg⟩
    · rintro ⟨e, he, hk⟩
      rw [he]
      unfold applyEffect
      by_cases hn : e.needsGroup = true
      · obtain ⟨k, hk⟩ := hk hn
        simp only [hn, if_true, hk]
        exact ⟨_, rfl⟩
      · have hn' : e.needsGroup = false := by simpa using hn
        simp only [hn', Bool.false_eq_true, if_false]
        exact ⟨_, rfl⟩

/-- a stream is accepted iff every call has an effect (no IndexError / ZeroDivisionError inside the branch) and every
    call that looks its group up finds a numeric id (no KeyError) -/
theorem run_ok_iff (c : Counter) (calls : List Call) :
    (∃ c', run c calls = .ok c') ↔
      ∀ x ∈ calls, ∃ e, callEffect c.strategy x = .ok e ∧
        (e.needsGroup = true → ∃ k, c.ids.lookup (gnameOf c x) = some k) := by
  induction calls generalizing c with
  | nil => simp [run]
  | cons x xs ih =>
    constructor
    · rintro ⟨c', h⟩
      simp only [run] at h
      split at h
      · cases h
      · rename_i c1 h1
        have hcfg := (step_spec h1).1
        have hx := (step_ok_iff c x).mp ⟨c1, h1⟩
        have hxs := (ih c1).mp ⟨c', h⟩
        intro y hy
        rcases List.mem_cons.mp hy with e | e
        · subst e; exact hx
        · have := hxs y e
          simpa [gnameOf, hcfg.1, hcfg.2.2.1, hcfg.2.2.2.1] using this
    · intro hall
      obtain ⟨c1, h1⟩ := (step_ok_iff c x).mpr (hall x List.mem_cons_self)
      have hcfg := (step_spec h1).1
      have : ∀ y ∈ xs, ∃ e, callEffect c1.strategy y = .ok e ∧
          (e.needsGroup = true → ∃ k, c1.ids.lookup (gnameOf c1 y) = some k) := by
        intro y hy
        have := hall y (List.mem_cons_of_mem _ hy)
        simpa [gnameOf, hcfg.1, hcfg.2.2.1, hcfg.2.2.2.1] using this
      obtain ⟨c', h'⟩ := (ih c1).mpr this
      exact ⟨c', by simp [run, h1, h']⟩

/-- in an accepted stream, a call that contributes anything was counted under a known group -/
theorem run_contributing_known {c c' : Counter} {calls : List Call} (h : run c calls = .ok c') :
    ∀ x ∈ calls, ∀ f, callVal c.strategy x f ≠ 0 → ∃ k, c.ids.lookup (gnameOf c x) = some k := by
  intro x hx f hv
  obtain ⟨e, he, hk⟩ := (run_ok_iff c calls).mp ⟨c', h⟩ x hx
  by_cases hn : e.needsGroup = true
  · exact hk hn
  · have hn' : e.needsGroup = false := by simpa using hn
    have : e.incs = [] := effect_incs_nil he hn'
    simp [callVal, he, this, incsVal] at hv

/-- the feature sets and read counters evolve independently of the grouping -/
theorem step_sets {c1 c2 c1' c2' : Counter} {x : Call} (hs : c1.strategy = c2.strategy)
    (ha : c1.allFeatures = c2.allFeatures) (hc : c1.confirmed = c2.confirmed)
    (h1 : step c1 x = .ok c1') (h2 : step c2 x = .ok c2') :
    c1'.allFeatures = c2'.allFeatures ∧ c1'.confirmed = c2'.confirmed := by
  cases x with
  | confirmFeatures fs =>
    simp only [step] at h1 h2
    injection h1 with h1; injection h2 with h2; subst h1; subst h2
    exact ⟨ha, by simp [hc]⟩
  | raw r =>
    simp only [step, addReadInfoRaw] at h1 h2
    obtain ⟨_, ⟨g1, _, _, ha1⟩, hc1, _⟩ := applyEffect_spec h1
    obtain ⟨_, ⟨g2, _, _, ha2⟩, hc2, _⟩ := applyEffect_spec h2
    rw [ha1, ha2, hc1, hc2, hs, ha, hc]
    exact ⟨applyIncs_allFeatures _ _ _ _ _ _, rfl⟩
  | info r =>
    simp only [step, addReadInfo] at h1 h2
    rw [hs] at h1
    split at h1
    · cases h1
    · rename_i e he
      rw [he] at h2
      obtain ⟨_, ⟨g1, _, _, ha1⟩, hc1, _⟩ := applyEffect_spec h1
      obtain ⟨_, ⟨g2, _, _, ha2⟩, hc2, _⟩ := applyEffect_spec h2
      rw [ha1, ha2, hc1, hc2, ha, hc]
      exact ⟨applyIncs_allFeatures _ _ _ _ _ _, rfl⟩

theorem run_sets {c1 c2 c1' c2' : Counter} {calls : List Call} (hs : c1.strategy = c2.strategy)
    (ha : c1.allFeatures = c2.allFeatures) (hc : c1.confirmed = c2.confirmed)
    (h1 : run c1 calls = .ok c1') (h2 : run c2 calls = .ok c2') :
    c1'.allFeatures = c2'.allFeatures ∧ c1'.confirmed = c2'.confirmed := by
  induction calls generalizing c1 c2 with
  | nil =>
    simp only [run] at h1 h2
    injection h1 with h1; injection h2 with h2; subst h1; subst h2
    exact ⟨ha, hc⟩
  | cons x xs ih =>
    simp only [run] at h1 h2
    split at h1
    · cases h1
    · rename_i d1 e1
      split at h2
      · cases h2
      · rename_i d2 e2
        obtain ⟨ha', hc'⟩ := step_sets hs ha hc e1 e2
        have hs' : d1.strategy = d2.strategy := by
          rw [(step_spec e1).1.2.2.2.1, (step_spec e2).1.2.2.2.1, hs]
        exact ih hs' ha' hc' h1 h2

/-! ### row sums -/

def sumList : List Rat → Rat
  | [] => 0
  | x :: xs => x + sumList xs

theorem sumList_map {α} (l : List α) (h : α → Rat) : sumList (l.map h) = sumOver l h := by
  induction l with
  | nil => rfl
  | cons x xs ih => simp [sumList, sumOver, ih]

theorem getD_zeroIf (b : Bool) (d : IDict) (k : Nat) : getD (zeroIf b d) k = if b then 0 else getD d k := by
  cases b with
  | false => simp [zeroIf]
  | true =>
    simp only [zeroIf, if_true]
    induction d with
    | nil => simp [getD, List.lookup]
    | cons p t ih =>
      obtain ⟨k0, x⟩ := p
      by_cases h : k = k0
      · subst h; simp [getD, List.lookup]
      · have hb : (k == k0) = false := by simp [h]
        simp only [List.map_cons, getD, List.lookup, hb] at ih ⊢
        exact ih

theorem sumVals_zeroIf_true (d : IDict) : sumVals (zeroIf true d) = 0 := by
  simp only [zeroIf, if_true]
  induction d with
  | nil => rfl
  | cons p t ih => simp only [List.map_cons, sumVals, ih]; grind

/-- `row_count` of `dump_grouped` (sum over the keys of the IncrementalDict) is the sum of the printed row -/
theorem sumVals_eq_row {ordered : List String} (hnd : ordered.Nodup) :
    ∀ (d : IDict), (d.map Prod.fst).Nodup → (∀ kv ∈ d, kv.1 < ordered.length) →
      sumVals d = sumOver ordered (fun g => getD d (idOf ordered.zipIdx g))
  | [], _, _ => by
    simp only [sumVals]
    rw [sumOver_congr ordered _ (fun _ => (0 : Rat)) (by intro g _; simp [getD, List.lookup]), sumOver_zero]
  | (k, v) :: t, hk, hlt => by
    simp only [List.map_cons, List.nodup_cons] at hk
    have hklt : k < ordered.length := hlt (k, v) List.mem_cons_self
    have ih := sumVals_eq_row hnd t hk.2 (fun kv hkv => hlt kv (List.mem_cons_of_mem _ hkv))
    have hgk : getD t k = 0 := by
      by_cases h0 : getD t k = 0
      · exact h0
      · exact absurd (List.mem_map.mpr ⟨_, mem_of_getD_ne_zero h0, rfl⟩) hk.1
    simp only [sumVals, ih]
    rw [sumOver_congr ordered (fun g => getD ((k, v) :: t) (idOf ordered.zipIdx g))
      (fun g => (if ordered[k] = g then v else 0) + getD t (idOf ordered.zipIdx g))]
    · rw [sumOver_add, sumOver_indicator ordered hnd]
      simp [List.getElem_mem]
    · intro g hg
      obtain ⟨i, hi, hgi⟩ := lookup_zipIdx_isSome hnd hg
      have hid : idOf ordered.zipIdx g = i := by simp [idOf, hi]
      rw [hid]
      by_cases hik : i = k
      · subst hik
        have : ordered[i] = g := by
          have := List.getElem?_eq_getElem hklt
          rw [this] at hgi; exact Option.some.inj hgi
        simp [getD, List.lookup, this]
        have := hgk
        simp only [getD] at this
        rw [this]; grind
      · have hb : (i == k) = false := by simp [hik]
        have hne : ¬ ordered[k] = g := by
          intro e
          have h1 : ordered[k]? = some g := by rw [List.getElem?_eq_getElem hklt, e]
          have := (lookup_zipIdx hnd g k).mpr h1
          rw [hi] at this
          exact hik (Option.some.inj this)
        simp [getD, List.lookup, hb, hne, Rat.zero_add]

/-! ### the counter after `__init__` -/

theorem init_grouped {π : List String} (hne : π ≠ []) (s : CountingStrategy) (af : List String) (oz : Bool)
    (fmt : GroupedOutputFormat) :
    let c := initCounter false (some π) s af oz fmt
    c.ignoreGroups = false ∧ c.ordered = sortStr π ∧ c.ids = (sortStr π).zipIdx ∧ c.fc = [] ∧ c.strategy = s ∧
    c.outputZeroes = oz ∧ c.fmt = fmt ∧ c.confirmed = [] := by
  have : π.isEmpty = false := by cases π with | nil => exact absurd rfl hne | cons a t => rfl
  simp [initCounter, this]

theorem init_ungrouped (s : CountingStrategy) (af : List String) (oz : Bool) (fmt : GroupedOutputFormat) :
    let c := initCounter false none s af oz fmt
    c.ignoreGroups = true ∧ c.ordered = [NA] ∧ c.ids = [(NA, 0)] ∧ c.fc = [] ∧ c.strategy = s ∧
    c.outputZeroes = oz ∧ c.fmt = fmt ∧ c.confirmed = [] := by
  simp [initCounter]

theorem inv_init_grouped {π : List String} (hne : π ≠ []) (hnd : π.Nodup) (s : CountingStrategy) (af : List String)
    (oz : Bool) (fmt : GroupedOutputFormat) : Inv (initCounter false (some π) s af oz fmt) := by
  obtain ⟨_, h2, h3, h4, _⟩ := init_grouped hne s af oz fmt
  refine ⟨by rw [h2]; exact sortStr_nodup hnd, by rw [h3, h2], ?_⟩
  rw [h4]; intro p hp; cases hp

theorem inv_init_ungrouped (s : CountingStrategy) (af : List String) (oz : Bool) (fmt : GroupedOutputFormat) :
    Inv (initCounter false none s af oz fmt) := by
  obtain ⟨_, h2, h3, h4, _⟩ := init_ungrouped s af oz fmt
  refine ⟨by rw [h2]; simp, by rw [h3, h2]; rfl, ?_⟩
  rw [h4]; intro p hp; cases hp

/-! ### agreement of the two renderings -/

/-- the property of a pair (matrix rows, linear lines): identical non-zero (feature, group, value) triples -/
def Agree (header : List String) (rows : List (String × List Rat)) (lins : List (String × String × Rat)) : Prop :=
  ∀ f g v, v ≠ 0 → ((f, g, v) ∈ lins ↔ (f, g, v) ∈ matrixTriples header rows)

/-- the loop of `dump_grouped` on any state that satisfies the invariant: never fails, and the two renderings
    contain the same non-zero triples -/
theorem dumpGroupedRows_agree (c : Counter) (hinv : Inv c) (feats confirmed : List String) :
    ∃ rows lins, dumpGroupedRows c (zeroUnconfirmed c.fc feats confirmed) feats = .ok (rows, lins) ∧
      Agree c.ordered rows lins := by
  have hD : ∀ f, DInv c.ordered.length (dataOf (zeroUnconfirmed c.fc feats confirmed) f) := by
    intro f; rw [dataOf_zeroUnconfirmed]; exact DInv_zeroIf _ (DInv_dataOf hinv.2.2 f)
  have hids : ∀ g ∈ c.ordered, ∃ i, c.ids.lookup g = some i := by
    intro g hg
    obtain ⟨i, hi, _⟩ := lookup_zipIdx_isSome hinv.1 hg
    exact ⟨i, by rw [hinv.2.1]; exact hi⟩
  obtain ⟨rows, lins, hr, hl, hm⟩ := dumpGroupedRows_spec c (zeroUnconfirmed c.fc feats confirmed)
    (fun f kv hkv => ((hD f).2 kv hkv).1) hids feats
  refine ⟨rows, lins, hr, ?_⟩
  intro f g v hv
  rw [hl, mem_matrixTriples]
  simp only
  constructor
  · rintro ⟨hf, kv, hkv, hg, hval⟩
    have hD' := hD f
    have hget : getD (dataOf (zeroUnconfirmed c.fc feats confirmed) f) kv.1 = v := by
      rw [hval]; exact getD_of_mem hD'.1 (by simpa using hkv)
    refine ⟨c.ordered.map (fun g => getD (dataOf (zeroUnconfirmed c.fc feats confirmed) f) (idOf c.ids g)), ?_, ?_⟩
    · rw [hm]
      refine ⟨hf, ?_, rfl⟩
      rintro ⟨_, hsum⟩
      have := sumVals_eq_zero _ (fun kv hkv => (hD'.2 kv hkv).2) hsum kv hkv
      exact hv (by rw [hval]; exact this)
    · rw [mem_zip_map]
      refine ⟨List.mem_of_getElem? hg, ?_⟩
      have hid : idOf c.ids g = kv.1 := by
        have := (lookup_zipIdx hinv.1 g kv.1).mpr hg
        rw [← hinv.2.1] at this
        simp [idOf, this]
      rw [hid, hget]
  · rintro ⟨row, hrow, hz⟩
    rw [hm] at hrow
    obtain ⟨hf, _, rfl⟩ := hrow
    rw [mem_zip_map] at hz
    obtain ⟨hg, hval⟩ := hz
    obtain ⟨i, hi, hgi⟩ := lookup_zipIdx_isSome hinv.1 hg
    have hid : idOf c.ids g = i := by rw [hinv.2.1]; simp [idOf, hi]
    rw [hid] at hval
    have hne : getD (dataOf (zeroUnconfirmed c.fc feats confirmed) f) i ≠ 0 := by rw [← hval]; exact hv
    exact ⟨hf, (i, getD (dataOf (zeroUnconfirmed c.fc feats confirmed) f) i), mem_of_getD_ne_zero hne, hgi, hval⟩


theorem map_ok_injective {α} : ∀ (l₁ l₂ : List α), l₁.map (Except.ok (ε := Err)) = l₂.map Except.ok → l₁ = l₂
  | [], [], _ => rfl
  | [], _ :: _, h => by simp at h
  | _ :: _, [], h => by simp at h
  | a :: t₁, b :: t₂, h => by
    simp only [List.map_cons, List.cons.injEq] at h
    obtain ⟨h1, h2⟩ := h
    injection h1 with h1
    rw [h1, map_ok_injective t₁ t₂ h2]

end IsoVerif.Lemmas.C09
