/-
C19 (audit-2 G3): the split-exon read profile `NonOverlappingFeaturesProfileConstructor.construct_profile`
(Model/Profiles.lean `noSweep`) — what was still missing for an exact characterisation after `Lemmas/C01SplitSweep.lean`
(completeness of the mark 1: `noSweep_marks`; soundness of 1 and −1: `NoInv`):
  * a position the gene pointer has passed is never written again (`noSweep_gene_frozen`);
  * completeness of the mark −1: a block whose END lies strictly inside a gap between two consecutive read exons never
    keeps the initial 0 (`noSweep_gap_marked`).
Core Lean only.
-/
import IsoVerif.Lemmas.C01SplitSweep

namespace IsoVerif.Lemmas.C19NoSweep
open IsoVerif.Gen IsoVerif.Model IsoVerif.Lemmas IsoVerif.Lemmas.C01

/-- the sweep writes the gene profile at the current gene position only: everything before it is final -/
theorem noSweep_gene_frozen (cmp : Iv → Iv → Bool) (ks : List Iv) (gi : Nat) (rs : List Iv) (ri : Nat) (st : NoState)
    (i : Nat) (hi : i < gi) : (noSweep cmp ks gi rs ri st).gene[i]? = st.gene[i]? := by
  fun_induction noSweep cmp ks gi rs ri st with
  | case1 => rfl
  | case2 => rfl
  | case3 k ks gi r rs ri st hlt st' ih =>
    rw [ih hi]; simp only [st']; split <;> rfl
  | case4 k ks gi r rs ri st h1 hlt st' ih =>
    rw [ih (by omega)]; simp only [st']
    split
    · show (st.gene.set gi (-1))[i]? = st.gene[i]?
      exact List.getElem?_set_ne (by omega)
    · rfl
  | case5 k ks gi r rs ri st h1 h2 st' hlt ih =>
    rw [ih hi]; simp only [st']
    split
    · show (st.gene.set gi 1)[i]? = st.gene[i]?
      exact List.getElem?_set_ne (by omega)
    · rfl
  | case6 k ks gi r rs ri st h1 h2 st' hlt ih =>
    rw [ih (by omega)]; simp only [st']
    split
    · show (st.gene.set gi 1)[i]? = st.gene[i]?
      exact List.getElem?_set_ne (by omega)
    · rfl

/-- COMPLETENESS of the mark −1: if the end of block `K[i]` lies strictly between the end of read exon `R[j]` and the start
    of `R[j+1]`, the sweep reaches `K[i]` with the read pointer at `j+1 > 0` and takes the branch `gene_exon[1] < read_exon[0]`,
    so the block does not keep a 0 (it is −1, or 1 if an earlier read exon matched it) -/
theorem noSweep_gap_marked (cmp : Iv → Iv → Bool) (K R : List Iv) (hK : SD K) (hKw : WFl K) (hR : SD R) (hRw : WFl R)
    (i j : Nat) (k r r' : Iv) (hi : K[i]? = some k) (hj : R[j]? = some r) (hj' : R[j + 1]? = some r')
    (h1 : r.2 < k.2) (h2 : k.2 < r'.1)
    (ks : List Iv) (gi : Nat) (rs : List Iv) (ri : Nat) (st : NoState)
    (hKd : K.drop gi = ks) (hRd : R.drop ri = rs) (hgl : st.gene.length = K.length)
    (hgi : gi ≤ i) (hri : ri ≤ j + 1) :
    (noSweep cmp ks gi rs ri st).gene[i]? ≠ some 0 := by
  have hkw := hKw k (List.mem_of_getElem? hi)
  have hr'w := hRw r' (List.mem_of_getElem? hj')
  fun_induction noSweep cmp ks gi rs ri st with
  | case1 gi rs ri st =>
    exfalso
    have : K.length ≤ gi := by
      have := congrArg List.length hKd; simp at this; omega
    have := getElem?_lt hi; omega
  | case2 k0 ks gi ri st =>
    exfalso
    have : R.length ≤ ri := by
      have := congrArg List.length hRd; simp at this; omega
    have := getElem?_lt hj'; omega
  | case3 k0 ks gi r0 rs ri st hlt st' ih =>
    obtain ⟨hr0, hRd'⟩ := drop_cons_get hRd
    obtain ⟨hk0, _⟩ := drop_cons_get hKd
    have hne : ri ≠ j + 1 := by
      intro e; subst e
      rw [hj'] at hr0; cases hr0
      have := (SD_get_le hK hKw hk0 hi hgi).1
      omega
    apply ih hKd hRd' _ hgi (by omega)
    simp only [st']; split <;> simp [hgl]
  | case4 k0 ks gi r0 rs ri st h1' hlt st' ih =>
    obtain ⟨hr0, _⟩ := drop_cons_get hRd
    obtain ⟨hk0, hKd'⟩ := drop_cons_get hKd
    have hgl' : st'.gene.length = K.length := by simp only [st']; split <;> simp [hgl]
    by_cases e : gi = i
    · subst e
      rw [hi] at hk0; cases hk0
      -- the read pointer is past the first read exon
      have hpos : ri > 0 := by
        rcases Nat.eq_zero_or_pos ri with e0 | e0
        · subst e0
          have := (SD_get_le hR hRw hr0 hj (by omega)).1
          have := hRw r (List.mem_of_getElem? hj)
          omega
        · exact e0
      rw [noSweep_gene_frozen cmp ks (gi + 1) (r0 :: rs) ri st' gi (by omega)]
      have hgil : gi < st.gene.length := by rw [hgl]; exact getElem?_lt hi
      simp only [st']
      split
      · show (st.gene.set gi (-1))[gi]? ≠ some 0
        rw [List.getElem?_set_self hgil]; simp
      · rename_i hc
        simp only [Bool.and_eq_true, decide_eq_true_eq, beq_iff_eq, not_and] at hc
        have hv := hc hpos
        intro h0
        apply hv
        rw [List.getD_eq_getElem?_getD, h0]; rfl
    · exact ih hKd' hRd hgl' (by omega) hri
  | case5 k0 ks gi r0 rs ri st h1' h2' st' hlt ih =>
    obtain ⟨hr0, hRd'⟩ := drop_cons_get hRd
    obtain ⟨hk0, _⟩ := drop_cons_get hKd
    have hgl' : st'.gene.length = K.length := by simp only [st']; split <;> simp [hgl]
    have hne : ri ≠ j + 1 := by
      intro e; subst e
      rw [hj'] at hr0; cases hr0
      have := (SD_get_le hK hKw hk0 hi hgi).2
      omega
    exact ih hKd hRd' hgl' hgi (by omega)
  | case6 k0 ks gi r0 rs ri st h1' h2' st' hlt ih =>
    obtain ⟨hr0, _⟩ := drop_cons_get hRd
    obtain ⟨hk0, hKd'⟩ := drop_cons_get hKd
    have hgl' : st'.gene.length = K.length := by simp only [st']; split <;> simp [hgl]
    have hne : gi ≠ i := by
      intro e; subst e
      rw [hi] at hk0; cases hk0
      rcases Nat.lt_or_ge ri (j + 1) with hlt' | hge
      · have := (SD_get_le hR hRw hr0 hj (by omega)).2
        omega
      · have e2 : ri = j + 1 := by omega
        subst e2
        rw [hj'] at hr0; cases hr0
        omega
    exact ih hKd' hRd hgl' (by omega) hri

end IsoVerif.Lemmas.C19NoSweep
