/-
Helper lemmas for C08, the flow around the resolver: the insertion-ordered dict of per-read lists.  Core Lean only.
-/
import IsoVerif.Model.Resolver

namespace IsoVerif.Lemmas.ResolverFlow
open IsoVerif.Gen IsoVerif.Model.Resolver

abbrev Dict := List (Nat × List Rec)

def keys (d : Dict) : List Nat := d.map (·.1)

theorem dictAppend_of_not_mem (d : Dict) (r : Rec) (h : r.readId ∉ keys d) :
    dictAppend d r = d ++ [(r.readId, [r])] := by
  induction d with
  | nil => rfl
  | cons kv rest ih =>
    obtain ⟨k, v⟩ := kv
    simp only [keys, List.map_cons, List.mem_cons, not_or] at h
    have hk : (k == r.readId) = false := by
      rw [beq_eq_false_iff_ne]; exact fun e => h.1 e.symm
    simp only [dictAppend, hk, Bool.false_eq_true, ↓reduceIte, List.cons_append, List.cons.injEq, true_and]
    exact ih h.2

theorem dictAppend_of_mem (d : Dict) (r : Rec) (hnd : (keys d).Nodup) (h : r.readId ∈ keys d) :
    dictAppend d r = d.map (fun kv => if kv.1 == r.readId then (kv.1, kv.2 ++ [r]) else kv) := by
  induction d with
  | nil => simp [keys] at h
  | cons kv rest ih =>
    obtain ⟨k, v⟩ := kv
    simp only [keys, List.map_cons, List.nodup_cons] at hnd
    by_cases hk : k = r.readId
    · subst hk
      have : ∀ kv ∈ rest, (kv.1 == r.readId) = false := by
        intro kv hkv
        rw [beq_eq_false_iff_ne]
        intro e
        exact hnd.1 (List.mem_map.mpr ⟨kv, hkv, e⟩)
      simp only [dictAppend, beq_self_eq_true, ↓reduceIte, List.map_cons, List.cons.injEq, true_and]
      have : rest.map (fun kv => if kv.1 == r.readId then (kv.1, kv.2 ++ [r]) else kv) = rest.map id := by
        apply List.map_congr_left
        intro kv hkv
        simp [this kv hkv]
      rw [this, List.map_id]
    · have hk' : (k == r.readId) = false := by rw [beq_eq_false_iff_ne]; exact hk
      simp only [keys, List.map_cons, List.mem_cons] at h
      have hr : r.readId ∈ keys rest := by
        rcases h with h | h
        · exact absurd h.symm hk
        · exact h
      simp only [dictAppend, hk', Bool.false_eq_true, ↓reduceIte, List.map_cons, List.cons.injEq, true_and]
      exact ih hnd.2 hr

/-- invariant of `for r in records: d[r.read_id].append(r)` after the prefix `p` -/
structure Inv (d : Dict) (p : List Rec) : Prop where
  nodup : (keys d).Nodup
  vals : ∀ kv ∈ d, kv.2 = p.filter (fun r => r.readId == kv.1)
  cover : ∀ x ∈ p, x.readId ∈ keys d

theorem Inv.step {d : Dict} {p : List Rec} (h : Inv d p) (r : Rec) : Inv (dictAppend d r) (p ++ [r]) := by
  by_cases hm : r.readId ∈ keys d
  · rw [dictAppend_of_mem d r h.nodup hm]
    refine ⟨?_, ?_, ?_⟩
    · have : keys (d.map (fun kv => if kv.1 == r.readId then (kv.1, kv.2 ++ [r]) else kv)) = keys d := by
        simp only [keys, List.map_map]
        apply List.map_congr_left
        intro kv _
        simp only [Function.comp]
        split <;> rfl
      rw [this]; exact h.nodup
    · intro kv hkv
      obtain ⟨kv0, hkv0, rfl⟩ := List.mem_map.mp hkv
      have hv := h.vals kv0 hkv0
      by_cases hk : kv0.1 = r.readId
      · have hk' : (kv0.1 == r.readId) = true := by simpa using hk
        have hk'' : (r.readId == kv0.1) = true := by simpa using hk.symm
        simp only [hk', ↓reduceIte, List.filter_append, List.filter_cons, hk'', List.filter_nil]
        rw [hv]
      · have hk' : (kv0.1 == r.readId) = false := by rw [beq_eq_false_iff_ne]; exact hk
        have hk'' : (r.readId == kv0.1) = false := by rw [beq_eq_false_iff_ne]; exact fun e => hk e.symm
        simp only [hk', Bool.false_eq_true, ↓reduceIte, List.filter_append, List.filter_cons, hk'', List.filter_nil,
          List.append_nil]
        exact hv
    · intro x hx
      have hkeys : keys (d.map (fun kv => if kv.1 == r.readId then (kv.1, kv.2 ++ [r]) else kv)) = keys d := by
        simp only [keys, List.map_map]
        apply List.map_congr_left
        intro kv _
        simp only [Function.comp]
        split <;> rfl
      rw [hkeys]
      rcases List.mem_append.mp hx with hx | hx
      · exact h.cover x hx
      · simp only [List.mem_singleton] at hx; subst hx; exact hm
  · rw [dictAppend_of_not_mem d r hm]
    have hnone : p.filter (fun x => x.readId == r.readId) = [] := by
      rw [List.filter_eq_nil_iff]
      intro x hx hxe
      simp only [beq_iff_eq] at hxe
      exact hm (hxe ▸ h.cover x hx)
    refine ⟨?_, ?_, ?_⟩
    · simp only [keys, List.map_append, List.map_cons, List.map_nil]
      rw [List.nodup_append]
      refine ⟨h.nodup, by simp, ?_⟩
      intro a ha b hb
      simp only [List.mem_singleton] at hb; subst hb
      intro e; subst e; exact hm ha
    · intro kv hkv
      rcases List.mem_append.mp hkv with hkv | hkv
      · have hk : kv.1 ≠ r.readId := by
          intro e; exact hm (e ▸ List.mem_map.mpr ⟨kv, hkv, rfl⟩)
        have hk'' : (r.readId == kv.1) = false := by rw [beq_eq_false_iff_ne]; exact fun e => hk e.symm
        simp only [List.filter_append, List.filter_cons, hk'', Bool.false_eq_true, ↓reduceIte, List.filter_nil,
          List.append_nil]
        exact h.vals kv hkv
      · simp only [List.mem_singleton] at hkv; subst hkv
        simp [List.filter_append, hnone]
    · intro x hx
      simp only [keys, List.map_append, List.map_cons, List.map_nil, List.mem_append, List.mem_singleton]
      rcases List.mem_append.mp hx with hx | hx
      · exact Or.inl (h.cover x hx)
      · simp only [List.mem_singleton] at hx; subst hx; exact Or.inr rfl

theorem Inv.foldl {d : Dict} {p : List Rec} (h : Inv d p) (records : List Rec) :
    Inv (records.foldl dictAppend d) (p ++ records) := by
  induction records generalizing d p with
  | nil => simpa using h
  | cons r rest ih =>
    have := ih (h.step r)
    simpa [List.append_assoc] using this

theorem inv_groupAll (records : List Rec) : Inv (groupAll records) records := by
  have h0 : Inv [] [] := ⟨by simp [keys], by simp, by simp⟩
  simpa [groupAll] using h0.foldl records

/-- every entry of the dict holds exactly the records of its read id, in processing order -/
theorem groupAll_vals (records : List Rec) :
    ∀ kv ∈ groupAll records, kv.2 = records.filter (fun r => r.readId == kv.1) := (inv_groupAll records).vals

theorem groupAll_cover (records : List Rec) : ∀ x ∈ records, ∃ kv ∈ groupAll records, kv.1 = x.readId := by
  intro x hx
  obtain ⟨kv, hkv, e⟩ := List.mem_map.mp ((inv_groupAll records).cover x hx)
  exact ⟨kv, hkv, e⟩

/-- filtering the dict by a property of the key = building it from the records with that property -/
theorem dictAppend_filter (Q : Nat → Bool) (d : Dict) (r : Rec) :
    (dictAppend d r).filter (fun kv => Q kv.1) =
      if Q r.readId then dictAppend (d.filter (fun kv => Q kv.1)) r else d.filter (fun kv => Q kv.1) := by
  induction d with
  | nil =>
    simp only [dictAppend, List.filter_cons, List.filter_nil]
  | cons kv rest ih =>
    obtain ⟨k, v⟩ := kv
    by_cases hk : k = r.readId
    · subst hk
      simp only [dictAppend, beq_self_eq_true, ↓reduceIte, List.filter_cons]
      cases hq : Q r.readId <;> simp [dictAppend]
    · have hk' : (k == r.readId) = false := by rw [beq_eq_false_iff_ne]; exact hk
      simp only [dictAppend, hk', Bool.false_eq_true, ↓reduceIte, List.filter_cons]
      rw [ih]
      cases hq : Q r.readId <;> cases hqk : Q k <;> simp [dictAppend, hk']

theorem foldl_dictAppend_filter (Q : Nat → Bool) (records : List Rec) (d : Dict) :
    (records.foldl dictAppend d).filter (fun kv => Q kv.1) =
      (records.filter (fun r => Q r.readId)).foldl dictAppend (d.filter (fun kv => Q kv.1)) := by
  induction records generalizing d with
  | nil => rfl
  | cons r rest ih =>
    simp only [List.foldl_cons, List.filter_cons]
    rw [ih, dictAppend_filter]
    cases Q r.readId <;> simp

/-- the record with `ra`'s (assignment id, chromosome) is found when that pair is unique among the verdicts -/
theorem lookupVerdict_unique (vs : List Rec) (ra : Full) (a : Rec) (ha : a ∈ vs)
    (hm : a.aid = ra.aid ∧ a.chr = ra.chr)
    (huniq : ∀ b ∈ vs, b.aid = ra.aid ∧ b.chr = ra.chr → b = a) :
    lookupVerdict vs ra = some a := by
  unfold lookupVerdict
  have gen : ∀ (vs : List Rec) (acc : Option Rec),
      (∀ b ∈ vs, b.aid = ra.aid ∧ b.chr = ra.chr → b = a) →
      (a ∈ vs ∨ acc = some a) →
      vs.foldl (fun acc a => if a.aid == ra.aid && a.chr == ra.chr then some a else acc) acc = some a := by
    intro vs
    induction vs with
    | nil => intro acc _ h; rcases h with h | h; cases h; simpa using h
    | cons b rest ih =>
      intro acc hu h
      simp only [List.foldl_cons]
      apply ih
      · exact fun c hc => hu c (List.mem_cons_of_mem _ hc)
      · by_cases hb : b.aid = ra.aid ∧ b.chr = ra.chr
        · have : b = a := hu b (by simp) hb
          subst this
          right; simp [hb.1, hb.2]
        · have hb' : (b.aid == ra.aid && b.chr == ra.chr) = false := by
            rw [Bool.and_eq_false_iff]
            by_cases h1 : b.aid = ra.aid
            · right; rw [beq_eq_false_iff_ne]; exact fun h2 => hb ⟨h1, h2⟩
            · left; rw [beq_eq_false_iff_ne]; exact h1
          rcases h with h | h
          · rcases List.mem_cons.mp h with h | h
            · subst h; exact absurd hm hb
            · left; exact h
          · right; simp [hb', h]
  exact gen vs none huniq (Or.inl ha)

end IsoVerif.Lemmas.ResolverFlow
