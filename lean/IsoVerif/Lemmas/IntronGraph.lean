/-
Helper lemmas for C04: association lists, the "nothing is invented" invariant of the intron collector / graph.
Core Lean only.
-/
import IsoVerif.Model.IntronGraph

namespace IsoVerif.Lemmas.C04
open IsoVerif.Gen IsoVerif.Model IsoVerif.Model.C04

/-! ### association lists -/

theorem mem_amSet {α β} [DecidableEq α] {m : List (α × β)} {k : α} {v : β} {p : α × β}
    (h : p ∈ amSet m k v) : p = (k, v) ∨ p ∈ m := by
  induction m with
  | nil => simp [amSet] at h; exact Or.inl h
  | cons a t ih =>
    obtain ⟨k', v'⟩ := a
    simp only [amSet] at h
    split at h
    · simp at h; rcases h with h | h
      · exact Or.inl h
      · exact Or.inr (List.mem_cons_of_mem _ h)
    · simp at h; rcases h with h | h
      · exact Or.inr (by simp [h])
      · rcases ih h with h | h
        · exact Or.inl h
        · exact Or.inr (List.mem_cons_of_mem _ h)

theorem mem_amSet_self {α β} [DecidableEq α] (m : List (α × β)) (k : α) (v : β) : (k, v) ∈ amSet m k v := by
  induction m with
  | nil => simp [amSet]
  | cons a t ih =>
    obtain ⟨k', v'⟩ := a
    simp only [amSet]
    split <;> simp [ih]

theorem mem_amErase {α β} [DecidableEq α] {m : List (α × β)} {k : α} {p : α × β}
    (h : p ∈ amErase m k) : p ∈ m ∧ p.1 ≠ k := by
  simpa [amErase] using h

theorem amGet?_mem {α β} [DecidableEq α] {m : List (α × β)} {k : α} {v : β}
    (h : amGet? m k = some v) : (k, v) ∈ m := by
  induction m with
  | nil => simp [amGet?] at h
  | cons a t ih =>
    obtain ⟨k', v'⟩ := a
    simp only [amGet?] at h
    split at h
    · rename_i hk; simp at h; subst hk; subst h; simp
    · exact List.mem_cons_of_mem _ (ih h)

theorem amGet?_none {α β} [DecidableEq α] {m : List (α × β)} {k : α}
    (h : amGet? m k = none) : ∀ p ∈ m, p.1 ≠ k := by
  induction m with
  | nil => simp
  | cons a t ih =>
    obtain ⟨k', v'⟩ := a
    simp only [amGet?] at h
    split at h
    · simp at h
    · rename_i hk
      intro p hp
      simp at hp
      rcases hp with hp | hp
      · subst hp; exact hk
      · exact ih h p hp

theorem amGet?_isSome_of_key {α β} [DecidableEq α] {m : List (α × β)} {k : α}
    (h : k ∈ amKeys m) : ∃ v, amGet? m k = some v := by
  cases hg : amGet? m k with
  | some v => exact ⟨v, rfl⟩
  | none =>
    simp [amKeys] at h
    obtain ⟨b, hb⟩ := h
    exact absurd rfl (amGet?_none hg _ hb)

theorem mem_setAdd {α} [DecidableEq α] {s : List α} {a x : α} : x ∈ setAdd s a ↔ x ∈ s ∨ x = a := by
  unfold setAdd
  split
  · rename_i h
    constructor
    · intro hx; exact Or.inl hx
    · rintro (hx | hx)
      · exact hx
      · subst hx; exact h
  · simp

theorem mem_insSorted {α} (le : α → α → Bool) (a x : α) (l : List α) : x ∈ insSorted le a l ↔ x = a ∨ x ∈ l := by
  induction l with
  | nil => simp [insSorted]
  | cons b t ih =>
    simp only [insSorted]
    split
    · simp
    · simp [ih]; constructor
      · rintro (h | h | h)
        · exact Or.inr (Or.inl h)
        · exact Or.inl h
        · exact Or.inr (Or.inr h)
      · rintro (h | h | h)
        · exact Or.inr (Or.inl h)
        · exact Or.inl h
        · exact Or.inr (Or.inr h)

theorem mem_insSort {α} (le : α → α → Bool) (x : α) (l : List α) : x ∈ insSort le l ↔ x ∈ l := by
  induction l with
  | nil => simp [insSort]
  | cons a t ih => simp [insSort, mem_insSorted, ih]

theorem insSorted_perm {α} (le : α → α → Bool) (a : α) (l : List α) : (insSorted le a l).Perm (a :: l) := by
  induction l with
  | nil => simp [insSorted]
  | cons b t ih =>
    simp only [insSorted]
    split
    · exact List.Perm.refl _
    · exact (List.Perm.cons b ih).trans (List.Perm.swap a b t)

theorem insSort_perm {α} (le : α → α → Bool) (l : List α) : (insSort le l).Perm l := by
  induction l with
  | nil => simp [insSort]
  | cons a t ih => exact (insSorted_perm le a _).trans (List.Perm.cons a ih)

theorem mem_sortIv {l : List Iv} {x : Iv} : x ∈ sortIv l ↔ x ∈ l := by
  simp [sortIv, mem_insSort]


/-! ### every intron the collector / graph mentions satisfies `P` -/

structure CSub (c : Collector) (P : Iv → Prop) : Prop where
  cl : ∀ p ∈ c.clustered, P p.1
  co : ∀ p ∈ c.corr, P p.1 ∧ P p.2
  di : ∀ v ∈ c.discarded, P v

def ESub (e : List (Iv × Iv)) (P : Iv → Prop) : Prop :=
  ∀ p ∈ e, (isIntronVertex p.1 = true → P p.1) ∧ (isIntronVertex p.2 = true → P p.2)

structure GSub (g : Graph) (P : Iv → Prop) : Prop where
  col : CSub g.col P
  out : ESub g.out P
  inc : ESub g.inc P

theorem csub_iff (c : Collector) (P : Iv → Prop) : CSub c P ↔ ∀ v ∈ c.verts, P v := by
  constructor
  · intro h v hv
    simp only [Collector.verts, amKeys, amVals, List.mem_append, List.mem_map] at hv
    rcases hv with ((⟨p, hp, rfl⟩ | ⟨p, hp, rfl⟩) | ⟨p, hp, rfl⟩) | hv
    · exact h.cl p hp
    · exact (h.co p hp).1
    · exact (h.co p hp).2
    · exact h.di v hv
  · intro h
    refine ⟨?_, ?_, ?_⟩
    · intro p hp; apply h; simp only [Collector.verts, amKeys, amVals, List.mem_append, List.mem_map]
      exact Or.inl (Or.inl (Or.inl ⟨p, hp, rfl⟩))
    · intro p hp; constructor <;> apply h <;> simp only [Collector.verts, amKeys, amVals, List.mem_append, List.mem_map]
      · exact Or.inl (Or.inl (Or.inr ⟨p, hp, rfl⟩))
      · exact Or.inl (Or.inr ⟨p, hp, rfl⟩)
    · intro v hv; apply h; simp only [Collector.verts, List.mem_append]
      exact Or.inr hv

theorem gsub_iff (g : Graph) (P : Iv → Prop) : GSub g P ↔ ∀ v ∈ g.verts, P v := by
  constructor
  · intro h v hv
    simp only [Graph.verts, List.mem_append, List.mem_filter, amKeys, amVals, List.mem_map] at hv
    rcases hv with hv | ⟨(((⟨p, hp, rfl⟩ | ⟨p, hp, rfl⟩) | ⟨p, hp, rfl⟩) | ⟨p, hp, rfl⟩), hi⟩
    · exact (csub_iff _ _).1 h.col v hv
    · exact (h.out p hp).1 hi
    · exact (h.out p hp).2 hi
    · exact (h.inc p hp).1 hi
    · exact (h.inc p hp).2 hi
  · intro h
    refine ⟨(csub_iff _ _).2 (fun v hv => h v ?_), ?_, ?_⟩
    · simp only [Graph.verts, List.mem_append]; exact Or.inl hv
    · intro p hp
      constructor <;> intro hi <;> apply h <;>
        simp only [Graph.verts, List.mem_append, List.mem_filter, amKeys, amVals, List.mem_map]
      · exact Or.inr ⟨Or.inl (Or.inl (Or.inl ⟨p, hp, rfl⟩)), hi⟩
      · exact Or.inr ⟨Or.inl (Or.inl (Or.inr ⟨p, hp, rfl⟩)), hi⟩
    · intro p hp
      constructor <;> intro hi <;> apply h <;>
        simp only [Graph.verts, List.mem_append, List.mem_filter, amKeys, amVals, List.mem_map]
      · exact Or.inr ⟨Or.inl (Or.inr ⟨p, hp, rfl⟩), hi⟩
      · exact Or.inr ⟨Or.inr ⟨p, hp, rfl⟩, hi⟩


/-! ### collector: collect / cluster -/

theorem countAdd_keys {m : List (Iv × Int)} {k : Iv} {P : Iv → Prop} (hm : ∀ p ∈ m, P p.1) (hk : P k) :
    ∀ p ∈ countAdd m k, P p.1 := by
  intro p hp
  rcases mem_amSet hp with h | h
  · subst h; exact hk
  · exact hm p h

theorem foldl_countAdd_keys {P : Iv → Prop} (l : List Iv) (m : List (Iv × Int)) (hm : ∀ p ∈ m, P p.1)
    (hl : ∀ i ∈ l, P i) : ∀ p ∈ l.foldl countAdd m, P p.1 := by
  induction l generalizing m with
  | nil => simpa using hm
  | cons a t ih =>
    simp only [List.foldl_cons]
    exact ih _ (countAdd_keys hm (hl a (by simp))) (fun i hi => hl i (by simp [hi]))

theorem collectIntrons_keys_aux {P : Iv → Prop} (reads : List Read) (m : List (Iv × Int)) (hm : ∀ p ∈ m, P p.1)
    (hr : ∀ r ∈ reads, r.multimapper = false → ∀ i ∈ r.introns, P i) :
    ∀ p ∈ reads.foldl (fun m r => if r.introns.isEmpty || r.multimapper then m else r.introns.foldl countAdd m) m,
      P p.1 := by
  induction reads generalizing m with
  | nil => simpa using hm
  | cons r t ih =>
    simp only [List.foldl_cons]
    apply ih
    · split
      · exact hm
      · rename_i hc
        have hmm : r.multimapper = false := by
          cases h : r.multimapper <;> simp [h] at hc ⊢
        exact foldl_countAdd_keys _ _ hm (hr r (by simp) hmm)
    · intro r' hr'; exact hr r' (by simp [hr'])

theorem mem_obsIntrons {reads : List Read} {v : Iv} :
    v ∈ obsIntrons reads ↔ ∃ r ∈ reads, r.multimapper = false ∧ v ∈ r.introns := by
  simp only [obsIntrons, List.mem_flatMap, List.mem_filter]
  constructor
  · rintro ⟨r, ⟨hr, hm⟩, hv⟩
    refine ⟨r, hr, ?_, hv⟩
    cases h : r.multimapper <;> simp [h] at hm ⊢
  · rintro ⟨r, hr, hm, hv⟩
    exact ⟨r, ⟨hr, by simp [hm]⟩, hv⟩

theorem collectIntrons_keys (reads : List Read) : ∀ p ∈ collectIntrons reads, p.1 ∈ obsIntrons reads := by
  apply collectIntrons_keys_aux (P := fun v => v ∈ obsIntrons reads)
  · simp
  · intro r hr hm i hi
    exact mem_obsIntrons.2 ⟨r, hr, hm, hi⟩

theorem maxIv?_mem {l : List Iv} {a : Iv} (h : maxIv? l = some a) : a ∈ l := by
  induction l generalizing a with
  | nil => simp [maxIv?] at h
  | cons x t ih =>
    simp only [maxIv?] at h
    cases hm : maxIv? t with
    | none => simp [hm] at h; subst h; simp
    | some b =>
      simp only [hm] at h
      split at h
      · simp at h; subst h; exact List.mem_cons_of_mem _ (ih hm)
      · simp at h; subst h; simp

theorem simAfter_mem {δ : Int} {x o : Iv} {rest : List Iv} (h : o ∈ simAfter δ x rest) : o ∈ rest := by
  simp only [simAfter, List.mem_filter] at h
  exact (List.takeWhile_prefix _).subset h.1

theorem simPairs_mem {δ : Int} {l : List Iv} {p : Iv × Iv} (h : p ∈ simPairs δ l) : p.1 ∈ l ∧ p.2 ∈ l := by
  induction l with
  | nil => simp [simPairs] at h
  | cons x rest ih =>
    simp only [simPairs, List.mem_append, List.mem_map] at h
    rcases h with ⟨o, ho, rfl⟩ | h
    · exact ⟨by simp, List.mem_cons_of_mem _ (simAfter_mem ho)⟩
    · have := ih h
      exact ⟨List.mem_cons_of_mem _ this.1, List.mem_cons_of_mem _ this.2⟩

theorem similarOf_mem {pairs : List (Iv × Iv)} {x y : Iv} (h : y ∈ similarOf pairs x) :
    ∃ p ∈ pairs, y = p.1 ∨ y = p.2 := by
  simp only [similarOf, List.mem_filterMap] at h
  obtain ⟨p, hp, hy⟩ := h
  refine ⟨p, hp, ?_⟩
  split at hy
  · simp at hy; exact Or.inr hy.symm
  · split at hy
    · simp at hy; exact Or.inl hy.symm
    · simp at hy

theorem clusterStep_csub {P : Iv → Prop} {pairs : List (Iv × Iv)} {minCount : Int} {c : Collector} {ci : Int × Iv}
    (hc : CSub c P) (hi : P ci.2) (hp : ∀ p ∈ pairs, P p.1 ∧ P p.2) : CSub (clusterStep pairs minCount c ci) P := by
  unfold clusterStep
  simp only
  split
  · exact ⟨fun p hp' => by rcases mem_amSet hp' with h | h; (subst h; exact hi); exact hc.cl p h, hc.co, hc.di⟩
  · split
    · split
      · rename_i s hs
        have hs' := maxIv?_mem hs
        simp only [List.mem_filter] at hs'
        obtain ⟨q, hq, hsq⟩ := similarOf_mem hs'.1
        have hPs : P s := by rcases hsq with h | h <;> (subst h; first | exact (hp q hq).1 | exact (hp q hq).2)
        refine ⟨fun p hp' => ?_, fun p hp' => ?_, hc.di⟩
        · rcases mem_amSet hp' with h | h
          · subst h; exact hPs
          · exact hc.cl p h
        · rcases mem_amSet hp' with h | h
          · subst h; exact ⟨hi, hPs⟩
          · exact hc.co p h
      · exact ⟨fun p hp' => by rcases mem_amSet hp' with h | h; (subst h; exact hi); exact hc.cl p h, hc.co, hc.di⟩
    · split
      · refine ⟨hc.cl, hc.co, fun v hv => ?_⟩
        rcases mem_setAdd.1 hv with h | h
        · exact hc.di v h
        · subst h; exact hi
      · exact ⟨fun p hp' => by rcases mem_amSet hp' with h | h; (subst h; exact hi); exact hc.cl p h, hc.co, hc.di⟩

theorem foldl_clusterStep_csub {P : Iv → Prop} {pairs : List (Iv × Iv)} {minCount : Int} (l : List (Int × Iv))
    (c : Collector) (hc : CSub c P) (hl : ∀ ci ∈ l, P ci.2) (hp : ∀ p ∈ pairs, P p.1 ∧ P p.2) :
    CSub (l.foldl (clusterStep pairs minCount) c) P := by
  induction l generalizing c with
  | nil => simpa using hc
  | cons a t ih =>
    simp only [List.foldl_cons]
    exact ih _ (clusterStep_csub hc (hl a (by simp)) hp) (fun ci h => hl ci (by simp [h]))

theorem clusterIntrons_csub {P : Iv → Prop} (c : Collector) (δ : Int) (allIntrons : List (Iv × Int)) (minCount : Int)
    (hc : CSub c P) (ha : ∀ p ∈ allIntrons, P p.1) : CSub (clusterIntrons c δ allIntrons minCount) P := by
  unfold clusterIntrons
  apply foldl_clusterStep_csub _ _ hc
  · intro ci hci
    simp only [sortedByCount, List.mem_reverse, mem_insSort, List.mem_map] at hci
    obtain ⟨p, hp, rfl⟩ := hci
    exact ha p hp
  · intro p hp
    have := simPairs_mem hp
    simp only [mem_sortIv, amKeys, List.mem_map] at this
    obtain ⟨⟨a, ha', e1⟩, ⟨b, hb', e2⟩⟩ := this
    exact ⟨e1 ▸ ha a ha', e2 ▸ ha b hb'⟩

theorem collectorProcess_csub (known : List Iv) (δ : Int) (reads : List Read) (minCount : Int) :
    CSub (collectorProcess known δ reads minCount) (fun v => v ∈ obsIntrons reads) := by
  unfold collectorProcess
  apply clusterIntrons_csub
  · exact ⟨by simp [Collector.empty], by simp [Collector.empty], by simp [Collector.empty]⟩
  · exact collectIntrons_keys reads


/-! ### collector operations -/

theorem substitute_sub {P : Iv → Prop} {c : Collector} (hc : CSub c P) {v : Iv} (hv : P v) : P (c.substitute v) := by
  unfold Collector.substitute
  split
  · rename_i s hs; exact (hc.co _ (amGet?_mem hs)).2
  · exact hv

theorem addSubstitute_csub {P : Iv → Prop} {c : Collector} (hc : CSub c P) {o s : Iv} (ho : P o) (hs : P s) :
    CSub (c.addSubstitute o s) P := by
  refine ⟨fun p hp => ?_, fun p hp => ?_, hc.di⟩
  · have := (mem_amErase hp).1
    rcases mem_amSet this with h | h
    · subst h; exact hs
    · exact hc.cl p h
  · rcases mem_amSet hp with h | h
    · subst h; exact ⟨ho, hs⟩
    · exact hc.co p h

theorem discard_csub {P : Iv → Prop} {c : Collector} (hc : CSub c P) {v : Iv} (hv : P v) : CSub (c.discard v) P := by
  refine ⟨fun p hp => hc.cl p (mem_amErase hp).1, hc.co, fun x hx => ?_⟩
  rcases mem_setAdd.1 hx with h | h
  · exact hc.di x h
  · subst h; exact hv

theorem touch_csub {P : Iv → Prop} {c : Collector} (hc : CSub c P) {v : Iv} (hv : P v) : CSub (c.touch v) P := by
  unfold Collector.touch
  split
  · exact hc
  · refine ⟨fun p hp => ?_, hc.co, hc.di⟩
    rcases mem_amSet hp with h | h
    · subst h; exact hv
    · exact hc.cl p h

theorem chase_sub {P : Iv → Prop} {m : List (Iv × Iv)} (hm : ∀ p ∈ m, P p.1 ∧ P p.2) (fuel : Nat) (s e : Iv)
    (hs : P s) (h : chase m fuel s = some e) : P e := by
  induction fuel generalizing s with
  | zero => simp [chase] at h
  | succ n ih =>
    simp only [chase] at h
    split at h
    · simp at h; subst h; exact hs
    · rename_i s' hs'
      exact ih s' (hm _ (amGet?_mem hs')).2 h

theorem simplifyStep_sub {P : Iv → Prop} {disc : List Iv} {st st' : List (Iv × Iv) × List Iv} {i : Iv}
    (hm : ∀ p ∈ st.1, P p.1 ∧ P p.2) (hr : ∀ v ∈ st.2, P v) (h : simplifyStep disc st i = some st') :
    (∀ p ∈ st'.1, P p.1 ∧ P p.2) ∧ (∀ v ∈ st'.2, P v) := by
  unfold simplifyStep at h
  split at h
  · simp at h
  · rename_i subs hsubs
    have hPi := (hm _ (amGet?_mem hsubs)).1
    have hPs := (hm _ (amGet?_mem hsubs)).2
    have hadd : ∀ v ∈ setAdd st.2 i, P v := by
      intro v hv
      rcases mem_setAdd.1 hv with h' | h'
      · exact hr v h'
      · subst h'; exact hPi
    split at h
    · simp at h; subst h; exact ⟨hm, hadd⟩
    · split at h
      · simp at h; subst h; exact ⟨hm, hr⟩
      · split at h
        · simp at h
        · rename_i e he
          have hPe := chase_sub hm _ _ _ hPs he
          split at h
          · simp at h; subst h; exact ⟨hm, hadd⟩
          · simp at h; subst h
            refine ⟨fun p hp => ?_, hr⟩
            rcases mem_amSet hp with h' | h'
            · subst h'; exact ⟨hPi, hPe⟩
            · exact hm p h'

theorem simplifyLoop_sub {P : Iv → Prop} {disc : List Iv} (l : List Iv) {st st' : List (Iv × Iv) × List Iv}
    (hm : ∀ p ∈ st.1, P p.1 ∧ P p.2) (hr : ∀ v ∈ st.2, P v) (h : simplifyLoop disc l st = some st') :
    (∀ p ∈ st'.1, P p.1 ∧ P p.2) ∧ (∀ v ∈ st'.2, P v) := by
  induction l generalizing st with
  | nil => simp [simplifyLoop] at h; subst h; exact ⟨hm, hr⟩
  | cons i t ih =>
    simp only [simplifyLoop] at h
    split at h
    · simp at h
    · rename_i st1 hst1
      have := simplifyStep_sub hm hr hst1
      exact ih this.1 this.2 h

theorem foldl_discardErase_csub {P : Iv → Prop} (l : List Iv) (c : Collector) (hc : CSub c P) (hl : ∀ v ∈ l, P v) :
    CSub (l.foldl (fun c i => { c.discard i with corr := amErase (c.discard i).corr i }) c) P := by
  induction l generalizing c with
  | nil => simpa using hc
  | cons a t ih =>
    simp only [List.foldl_cons]
    apply ih
    · have hd := discard_csub hc (hl a (by simp))
      exact ⟨hd.cl, fun p hp => hd.co p (mem_amErase hp).1, hd.di⟩
    · intro v hv; exact hl v (by simp [hv])

theorem simplifyCorrectionMap_csub {P : Iv → Prop} {c c' : Collector} (hc : CSub c P)
    (h : c.simplifyCorrectionMap = some c') : CSub c' P := by
  unfold Collector.simplifyCorrectionMap at h
  split at h
  · simp at h
  · rename_i m toRemove hloop
    simp at h; subst h
    have := simplifyLoop_sub (P := P) _ (st := (c.corr, [])) hc.co (by simp) hloop
    exact foldl_discardErase_csub _ _ ⟨hc.cl, this.1, hc.di⟩ this.2

/-! ### graph operations -/

theorem esub_setAdd {P : Iv → Prop} {e : List (Iv × Iv)} (he : ESub e P) {a b : Iv}
    (ha : isIntronVertex a = true → P a) (hb : isIntronVertex b = true → P b) : ESub (setAdd e (a, b)) P := by
  intro p hp
  rcases mem_setAdd.1 hp with h | h
  · exact he p h
  · subst h; exact ⟨ha, hb⟩

theorem esub_filter {P : Iv → Prop} {e : List (Iv × Iv)} (he : ESub e P) (f : Iv × Iv → Bool) : ESub (e.filter f) P :=
  fun p hp => he p (List.mem_filter.1 hp).1

theorem addEdge_gsub {P : Iv → Prop} {g : Graph} (hg : GSub g P) {v1 v2 : Iv} (h1 : P v1) (h2 : P v2) :
    GSub (g.addEdge v1 v2) P := by
  have a := substitute_sub hg.col h1
  have b := substitute_sub hg.col h2
  exact ⟨hg.col, esub_setAdd hg.out (fun _ => a) (fun _ => b), esub_setAdd hg.inc (fun _ => b) (fun _ => a)⟩

theorem replaceMember_esub {P : Iv → Prop} {m m' : List (Iv × Iv)} {k c s : Iv} (hm : ESub m P)
    (hs : isIntronVertex s = true → P s) (h : replaceMember m k c s = some m') : ESub m' P := by
  unfold replaceMember at h
  split at h
  · rename_i hk
    simp at h; subst h
    exact esub_setAdd (esub_filter hm _) (hm _ hk).1 hs
  · simp at h

theorem replaceMembers_esub {P : Iv → Prop} (ks : List Iv) {m m' : List (Iv × Iv)} {c s : Iv} (hm : ESub m P)
    (hs : isIntronVertex s = true → P s) (h : replaceMembers m c s ks = some m') : ESub m' P := by
  induction ks generalizing m with
  | nil => simp [replaceMembers] at h; subst h; exact hm
  | cons k t ih =>
    simp only [replaceMembers] at h
    split at h
    · simp at h
    · rename_i m1 hm1
      exact ih (replaceMember_esub hm hs hm1) h

theorem foldl_setAdd_esub {P : Iv → Prop} (l : List Iv) (s : Iv) (m : List (Iv × Iv)) (hm : ESub m P)
    (hs : isIntronVertex s = true → P s) (hl : ∀ i ∈ l, isIntronVertex i = true → P i) :
    ESub (l.foldl (fun m i => setAdd m (s, i)) m) P := by
  induction l generalizing m with
  | nil => simpa using hm
  | cons a t ih =>
    simp only [List.foldl_cons]
    exact ih _ (esub_setAdd hm hs (hl a (by simp))) (fun i hi => hl i (by simp [hi]))

theorem members_sub {P : Iv → Prop} {e : List (Iv × Iv)} (he : ESub e P) (c : Iv) :
    ∀ i ∈ (e.filter (fun p => p.1 = c)).map (·.2), isIntronVertex i = true → P i := by
  intro i hi
  simp only [List.mem_map, List.mem_filter] at hi
  obtain ⟨p, ⟨hp, _⟩, rfl⟩ := hi
  exact (he p hp).2

theorem collapseVertex_gsub {P : Iv → Prop} {g g' : Graph} (hg : GSub g P) {c s : Iv} (hc : P c) (hs : P s)
    (h : g.collapseVertex c s = some g') : GSub g' P := by
  unfold Graph.collapseVertex at h
  simp only at h
  split at h
  · simp at h
  · rename_i inc1 hinc1
    split at h
    · simp at h
    · rename_i out2 hout2
      simp at h; subst h
      have hinc1' : ESub inc1 P := replaceMembers_esub _ hg.inc (fun _ => hs) hinc1
      have hout1 : ESub ((outOf g c).foldl (fun m i => setAdd m (s, i)) g.out) P :=
        foldl_setAdd_esub _ _ _ hg.out (fun _ => hs) (members_sub hg.out c)
      refine ⟨addSubstitute_csub hg.col hc hs, replaceMembers_esub _ hout1 (fun _ => hs) hout2, ?_⟩
      exact foldl_setAdd_esub _ _ _ hinc1' (fun _ => hs) (members_sub hinc1' c)

theorem applyOp_gsub {P : Iv → Prop} {g g' : Graph} (hg : GSub g P) (op : Op)
    (hscope : match op with
      | .addEdge v1 v2 => P v1 ∧ P v2
      | .collapse c s => P c ∧ P s
      | .discard v => P v
      | .touch v => P v
      | .attachOut v t => P v ∧ isIntronVertex t = false
      | .attachInc v t => P v ∧ isIntronVertex t = false
      | _ => True)
    (h : applyOp g op = some g') : GSub g' P := by
  cases op with
  | addEdge v1 v2 => simp [applyOp] at h; subst h; exact addEdge_gsub hg hscope.1 hscope.2
  | collapse c s => exact collapseVertex_gsub hg hscope.1 hscope.2 h
  | delVertex v => simp [applyOp] at h; subst h; exact ⟨hg.col, esub_filter hg.out _, esub_filter hg.inc _⟩
  | delOut v => simp [applyOp] at h; subst h; exact ⟨hg.col, esub_filter hg.out _, hg.inc⟩
  | delInc v => simp [applyOp] at h; subst h; exact ⟨hg.col, hg.out, esub_filter hg.inc _⟩
  | discard v => simp [applyOp] at h; subst h; exact ⟨discard_csub hg.col hscope, hg.out, hg.inc⟩
  | touch v => simp [applyOp] at h; subst h; exact ⟨touch_csub hg.col hscope, hg.out, hg.inc⟩
  | simplifyMap =>
    simp only [applyOp, Option.map_eq_some_iff] at h
    obtain ⟨c', hc', rfl⟩ := h
    exact ⟨simplifyCorrectionMap_csub hg.col hc', hg.out, hg.inc⟩
  | attachOut v t =>
    simp [applyOp] at h; subst h
    exact ⟨hg.col, esub_setAdd hg.out (fun _ => hscope.1) (fun ht => by simp [hscope.2] at ht), hg.inc⟩
  | attachInc v t =>
    simp [applyOp] at h; subst h
    exact ⟨hg.col, hg.out, esub_setAdd hg.inc (fun _ => hscope.1) (fun ht => by simp [hscope.2] at ht)⟩

theorem runOps_gsub {obs : List Iv} (ops : List Op) {g g' : Graph} (hg : GSub g (fun v => v ∈ obs))
    (h : runOps obs g ops = some g') : GSub g' (fun v => v ∈ obs) := by
  induction ops generalizing g with
  | nil => simp [runOps] at h; subst h; exact hg
  | cons op t ih =>
    simp only [runOps] at h
    split at h
    · rename_i hsc
      split at h
      · simp at h
      · rename_i g1 hg1
        refine ih (applyOp_gsub hg op ?_ hg1) h
        have hv := (gsub_iff g (fun v => v ∈ obs)).1 hg
        cases op <;> simp [opScoped] at hsc ⊢
        · exact hsc
        · exact ⟨hv _ hsc.1, hv _ hsc.2⟩
        · exact hv _ hsc
        · exact hv _ hsc
        · exact ⟨hv _ hsc.1, hsc.2⟩
        · exact ⟨hv _ hsc.1, hsc.2⟩
    · simp at h


/-! ### construct(): every `add_edge` call is scoped, so construction never fails -/

theorem readEdgeOps_scoped {obs : List Iv} (l : List Iv) (hl : ∀ i ∈ l, i ∈ obs) :
    ∀ op ∈ readEdgeOps l, ∃ v1 v2, op = Op.addEdge v1 v2 ∧ v1 ∈ obs ∧ v2 ∈ obs := by
  induction l with
  | nil => simp [readEdgeOps]
  | cons a t ih =>
    cases t with
    | nil => simp [readEdgeOps]
    | cons b u =>
      intro op hop
      simp only [readEdgeOps, List.mem_cons] at hop
      rcases hop with h | h
      · exact ⟨a, b, h, hl a (by simp), hl b (by simp)⟩
      · exact ih (fun i hi => hl i (by simp [hi])) op h

theorem constructOps_scoped (col : Collector) (reads : List Read) :
    ∀ op ∈ constructOps col reads, ∃ v1 v2, op = Op.addEdge v1 v2 ∧ v1 ∈ obsIntrons reads ∧ v2 ∈ obsIntrons reads := by
  intro op hop
  simp only [constructOps, List.mem_flatMap] at hop
  obtain ⟨r, hr, hop⟩ := hop
  split at hop
  · simp at hop
  · rename_i hc
    have hmm : r.multimapper = false := by
      cases h : r.multimapper <;> simp [h] at hc ⊢
    exact readEdgeOps_scoped _ (fun i hi => mem_obsIntrons.2 ⟨r, hr, hmm, hi⟩) op hop

theorem runOps_addEdges_isSome {obs : List Iv} (ops : List Op) (g : Graph)
    (h : ∀ op ∈ ops, ∃ v1 v2, op = Op.addEdge v1 v2 ∧ v1 ∈ obs ∧ v2 ∈ obs) : ∃ g', runOps obs g ops = some g' := by
  induction ops generalizing g with
  | nil => exact ⟨g, rfl⟩
  | cons op t ih =>
    obtain ⟨v1, v2, rfl, h1, h2⟩ := h op (by simp)
    simp only [runOps, opScoped, h1, h2, decide_true, Bool.and_self, if_true, applyOp]
    exact ih _ (fun op' h' => h op' (by simp [h']))

theorem runOps_append {obs : List Iv} (a b : List Op) (g : Graph) :
    runOps obs g (a ++ b) = (runOps obs g a).bind (fun g' => runOps obs g' b) := by
  induction a generalizing g with
  | nil => simp [runOps]
  | cons op t ih =>
    simp only [List.cons_append, runOps]
    split
    · split
      · simp
      · rename_i g1 _; simpa using ih g1
    · simp

/-! ### thread_introns -/

theorem threadIntrons_sub {P : Iv → Prop} {c : Collector} (hc : CSub c P) (l : List Iv) (hl : ∀ i ∈ l, P i)
    {path : List Iv} (h : threadIntrons c l = some path) : ∀ p ∈ path, P p := by
  induction l generalizing path with
  | nil => simp [threadIntrons] at h; subst h; simp
  | cons i t ih =>
    simp only [threadIntrons] at h
    split at h
    · simp at h
    · split at h
      · simp at h
      · rename_i p hp
        simp at h; subst h
        intro x hx
        simp at hx
        rcases hx with hx | hx
        · subst hx; exact substitute_sub hc (hl i (by simp))
        · exact ih (fun j hj => hl j (by simp [hj])) hp x hx

theorem threadIntrons_eq_map {c : Collector} (l : List Iv) {path : List Iv} (h : threadIntrons c l = some path) :
    path = l.map c.substitute ∧ ∀ i ∈ l, i ∉ c.discarded := by
  induction l generalizing path with
  | nil => simp [threadIntrons] at h; subst h; simp
  | cons i t ih =>
    simp only [threadIntrons] at h
    split at h
    · simp at h
    · rename_i hd
      split at h
      · simp at h
      · rename_i p hp
        simp at h; subst h
        have := ih hp
        refine ⟨by simp [this.1], ?_⟩
        intro j hj
        simp at hj
        rcases hj with hj | hj
        · subst hj; exact hd
        · exact this.2 j hj

theorem threadIntrons_of_clean {c : Collector} (l : List Iv) (hd : ∀ i ∈ l, i ∉ c.discarded)
    (hk : ∀ i ∈ l, amGet? c.corr i = none) : threadIntrons c l = some l := by
  induction l with
  | nil => simp [threadIntrons]
  | cons i t ih =>
    simp only [threadIntrons]
    rw [if_neg (hd i (by simp))]
    rw [ih (fun j hj => hd j (by simp [hj])) (fun j hj => hk j (by simp [hj]))]
    simp [Collector.substitute, hk i (by simp)]


/-! ### simplify_correction_map leaves a map whose images are neither keys nor discarded -/

theorem amGet?_amSet_self {α β} [DecidableEq α] (m : List (α × β)) (k : α) (v : β) : amGet? (amSet m k v) k = some v := by
  induction m with
  | nil => simp [amSet, amGet?]
  | cons a t ih =>
    obtain ⟨k', v'⟩ := a
    simp only [amSet]
    split
    · simp [amGet?]
    · rename_i hk; simp [amGet?, hk, ih]

theorem amGet?_amSet_ne {α β} [DecidableEq α] (m : List (α × β)) (k j : α) (v : β) (h : j ≠ k) :
    amGet? (amSet m k v) j = amGet? m j := by
  induction m with
  | nil => simp [amSet, amGet?, Ne.symm h]
  | cons a t ih =>
    obtain ⟨k', v'⟩ := a
    simp only [amSet]
    split
    · rename_i hk; subst hk; simp [amGet?, Ne.symm h]
    · simp only [amGet?]; split
      · rfl
      · exact ih

theorem amGet?_amErase {α β} [DecidableEq α] (m : List (α × β)) (x k : α) :
    amGet? (amErase m x) k = if k = x then none else amGet? m k := by
  induction m with
  | nil => simp [amErase, amGet?]
  | cons a t ih =>
    obtain ⟨k', v'⟩ := a
    unfold amErase at ih ⊢
    simp only [List.filter_cons]
    by_cases hk' : k' = x
    · subst hk'
      simp only [ne_eq, not_true_eq_false, decide_false, Bool.false_eq_true, if_false]
      rw [ih]
      by_cases hk : k = k'
      · simp [hk]
      · simp [amGet?, hk, Ne.symm hk]
    · simp only [ne_eq, hk', not_false_eq_true, decide_true, if_true, amGet?]
      by_cases hkk : k' = k
      · subst hkk; simp [hk']
      · simp only [hkk, if_false]; exact ih

theorem chase_end {m : List (Iv × Iv)} (fuel : Nat) (s e : Iv) (h : chase m fuel s = some e) : amGet? m e = none := by
  induction fuel generalizing s with
  | zero => simp [chase] at h
  | succ n ih =>
    simp only [chase] at h
    split at h
    · rename_i hs; simp at h; subst h; exact hs
    · rename_i s' _; exact ih s' h

/-- loop invariant of `simplify_correction_map` for the processed keys -/
structure SimpInv (disc : List Iv) (st : List (Iv × Iv) × List Iv) (processed : List Iv) : Prop where
  rem : ∀ i ∈ st.2, (amGet? st.1 i).isSome = true
  done : ∀ i ∈ processed, i ∈ st.2 ∨ ∃ v, amGet? st.1 i = some v ∧ amGet? st.1 v = none ∧ v ∉ disc

theorem simplifyStep_inv {disc : List Iv} {st st' : List (Iv × Iv) × List Iv} {i : Iv} {processed : List Iv}
    (hinv : SimpInv disc st processed) (h : simplifyStep disc st i = some st') :
    SimpInv disc st' (i :: processed) ∧ (∀ k, (amGet? st.1 k).isSome = true → (amGet? st'.1 k).isSome = true) ∧
      (∀ k, amGet? st.1 k = none → amGet? st'.1 k = none) := by
  unfold simplifyStep at h
  split at h
  · simp at h
  · rename_i subs hsubs
    have hremadd : ∀ j ∈ setAdd st.2 i, (amGet? st.1 j).isSome = true := by
      intro j hj
      rcases mem_setAdd.1 hj with h' | h'
      · exact hinv.rem j h'
      · subst h'; simp [hsubs]
    have hdone_add : ∀ j ∈ i :: processed, j ∈ setAdd st.2 i ∨ ∃ v, amGet? st.1 j = some v ∧ amGet? st.1 v = none ∧ v ∉ disc := by
      intro j hj
      simp at hj
      rcases hj with hj | hj
      · subst hj; exact Or.inl (mem_setAdd.2 (Or.inr rfl))
      · rcases hinv.done j hj with h' | h'
        · exact Or.inl (mem_setAdd.2 (Or.inl h'))
        · exact Or.inr h'
    split at h
    · simp at h; subst h
      exact ⟨⟨hremadd, hdone_add⟩, fun k hk => hk, fun k hk => hk⟩
    · rename_i hnd
      split at h
      · rename_i hnk
        simp at h; subst h
        refine ⟨⟨hinv.rem, ?_⟩, fun k hk => hk, fun k hk => hk⟩
        intro j hj
        simp at hj
        rcases hj with hj | hj
        · subst hj
          refine Or.inr ⟨subs, hsubs, ?_, hnd⟩
          simp [amHas] at hnk
          exact hnk
        · exact hinv.done j hj
      · split at h
        · simp at h
        · rename_i e he
          have hee := chase_end _ _ _ he
          split at h
          · simp at h; subst h
            exact ⟨⟨hremadd, hdone_add⟩, fun k hk => hk, fun k hk => hk⟩
          · rename_i hed
            simp at h; subst h
            have hei : e ≠ i := by
              intro hc; subst hc; simp [hsubs] at hee
            have hsome : ∀ k, (amGet? st.1 k).isSome = true → (amGet? (amSet st.1 i e) k).isSome = true := by
              intro k hk
              by_cases hki : k = i
              · subst hki; simp [amGet?_amSet_self]
              · rw [amGet?_amSet_ne _ _ _ _ hki]; exact hk
            have hnone : ∀ k, amGet? st.1 k = none → amGet? (amSet st.1 i e) k = none := by
              intro k hk
              have hki : k ≠ i := by intro hc; subst hc; simp [hsubs] at hk
              rw [amGet?_amSet_ne _ _ _ _ hki]; exact hk
            refine ⟨⟨fun j hj => hsome j (hinv.rem j hj), ?_⟩, hsome, hnone⟩
            intro j hj
            simp at hj
            rcases hj with hj | hj
            · subst hj
              exact Or.inr ⟨e, amGet?_amSet_self _ _ _, hnone e hee, hed⟩
            · by_cases hji : j = i
              · subst hji
                exact Or.inr ⟨e, amGet?_amSet_self _ _ _, hnone e hee, hed⟩
              · rcases hinv.done j hj with h' | ⟨v, hv1, hv2, hv3⟩
                · exact Or.inl h'
                · exact Or.inr ⟨v, by rw [amGet?_amSet_ne _ _ _ _ hji]; exact hv1, hnone v hv2, hv3⟩

theorem simplifyLoop_inv {disc : List Iv} (l : List Iv) {st st' : List (Iv × Iv) × List Iv} {processed : List Iv}
    (hinv : SimpInv disc st processed) (h : simplifyLoop disc l st = some st') :
    SimpInv disc st' (l.reverse ++ processed) ∧ (∀ k, (amGet? st.1 k).isSome = true → (amGet? st'.1 k).isSome = true) ∧
      (∀ k, amGet? st.1 k = none → amGet? st'.1 k = none) := by
  induction l generalizing st processed with
  | nil => simp [simplifyLoop] at h; subst h; exact ⟨by simpa using hinv, fun k hk => hk, fun k hk => hk⟩
  | cons i t ih =>
    simp only [simplifyLoop] at h
    split at h
    · simp at h
    · rename_i st1 hst1
      obtain ⟨h1, h2, h3⟩ := simplifyStep_inv hinv hst1
      obtain ⟨k1, k2, k3⟩ := ih h1 h
      refine ⟨?_, fun k hk => k2 k (h2 k hk), fun k hk => k3 k (h3 k hk)⟩
      simpa [List.reverse_cons, List.append_assoc] using k1

theorem foldl_discardErase_spec (l : List Iv) (c : Collector) :
    let r := l.foldl (fun c i => { c.discard i with corr := amErase (c.discard i).corr i }) c
    (∀ k v, amGet? r.corr k = some v → k ∉ l ∧ amGet? c.corr k = some v) ∧
    (∀ v, amGet? c.corr v = none → amGet? r.corr v = none) ∧
    (∀ v, v ∈ r.discarded → v ∈ c.discarded ∨ v ∈ l) := by
  induction l generalizing c with
  | nil => simp
  | cons a t ih =>
    simp only [List.foldl_cons]
    have := ih ({ c.discard a with corr := amErase (c.discard a).corr a })
    simp only at this
    obtain ⟨h1, h2, h3⟩ := this
    refine ⟨?_, ?_, ?_⟩
    · intro k v hkv
      have := h1 k v hkv
      rw [amGet?_amErase] at this
      by_cases hka : k = a
      · simp [hka] at this
      · simp only [hka, if_false] at this
        simp only [Collector.discard] at this
        exact ⟨by simp [hka, this.1], this.2⟩
    · intro v hv
      apply h2
      rw [amGet?_amErase]
      split
      · rfl
      · simpa [Collector.discard] using hv
    · intro v hv
      rcases h3 v hv with h | h
      · simp only [Collector.discard] at h
        rcases mem_setAdd.1 h with h' | h'
        · exact Or.inl h'
        · exact Or.inr (by simp [h'])
      · exact Or.inr (by simp [h])

/-- images of the correction map are neither keys of it nor discarded -/
def MapClean (c : Collector) : Prop :=
  ∀ k v, amGet? c.corr k = some v → amGet? c.corr v = none ∧ v ∉ c.discarded

theorem simplifyCorrectionMap_clean {c c' : Collector} (h : c.simplifyCorrectionMap = some c') : MapClean c' := by
  unfold Collector.simplifyCorrectionMap at h
  split at h
  · simp at h
  · rename_i m toRemove hloop
    simp at h; subst h
    have hinv0 : SimpInv c.discarded (c.corr, []) [] := ⟨by simp, by simp⟩
    obtain ⟨hinv, hsome, _⟩ := simplifyLoop_inv _ hinv0 hloop
    obtain ⟨h1, h2, h3⟩ := foldl_discardErase_spec toRemove { c with corr := m }
    simp only at h1 h2 h3
    intro k v hkv
    obtain ⟨hk, hmk⟩ := h1 k v hkv
    -- k is a key of the original map, hence processed
    have hkey : k ∈ (sortIv (amKeys c.corr)).reverse ++ [] := by
      simp only [List.append_nil, List.mem_reverse, mem_sortIv]
      -- keys never disappear during the loop, and `k` is a key of `m`; it was a key of c.corr as well:
      by_cases hc : (amGet? c.corr k).isSome = true
      · cases hg : amGet? c.corr k with
        | none => simp [hg] at hc
        | some w => simp only [amKeys, List.mem_map]; exact ⟨(k, w), amGet?_mem hg, rfl⟩
      · have hn : amGet? c.corr k = none := by
          cases hg : amGet? c.corr k with
          | none => rfl
          | some w => simp [hg] at hc
        have := (simplifyLoop_inv _ hinv0 hloop).2.2 k hn
        simp [hmk] at this
    rcases hinv.done k hkey with hrem | ⟨v', hv1, hv2, hv3⟩
    · exact absurd hrem hk
    · simp only at hv1 hv2
      have hvv : v' = v := by rw [hmk] at hv1; simpa using hv1.symm
      subst hvv
      refine ⟨h2 _ hv2, ?_⟩
      intro hd
      rcases h3 _ hd with h | h
      · exact hv3 h
      · have := hinv.rem _ h
        simp [hv2] at this


/-! ### IntronPathStorage.fill -/

theorem readPath_spec {g : Graph} {p : ThreadParams} {a : Read} {path : List Iv} {fl : Bool}
    (h : readPath g p a = some (path, fl)) :
    a.multimapper = false ∧ ∃ ip, threadIntrons g.col a.introns = some ip ∧ ip ≠ [] ∧
      (fl = true → ∃ s e, path = s :: ip ++ [e]) := by
  unfold readPath at h
  split at h
  · simp at h
  · rename_i hmm
    refine ⟨by simpa using hmm, ?_⟩
    split at h
    · simp at h
    · simp at h
    · rename_i i t hthread
      refine ⟨i :: t, hthread, by simp, ?_⟩
      split at h
      · rename_i firstExon lastExon lastIntron _ _ _
        simp only [Option.some.injEq, Prod.mk.injEq] at h
        obtain ⟨hp, hf⟩ := h
        intro hfl
        rw [hfl] at hf
        cases hte : p.ends lastIntron lastExon.2 (decide (a.strand = "+") && a.polya) with
        | none => simp [hte] at hf
        | some tv =>
          cases hts : p.starts i firstExon.1 (decide (a.strand = "-") && a.polyt) with
          | none => simp [hte, hts] at hf
          | some sv =>
            simp only [hte, hts] at hp
            exact ⟨sv, tv, by rw [← hp]; simp⟩
      · simp at h

theorem fillPaths_inv (g : Graph) (p : ThreadParams) (reads : List Read) (ps : PathStore)
    (hfl : ∀ path ∈ ps.fl, ∃ a ∈ reads, readPath g p a = some (path, true))
    (hto : ∀ q ∈ ps.toReads, ∀ a ∈ q.2, a ∈ reads ∧ ∃ fl, readPath g p a = some (q.1, fl))
    (rest : List Read) (hrest : ∀ a ∈ rest, a ∈ reads) :
    (∀ path ∈ (rest.foldl (fillStep g p) ps).fl, ∃ a ∈ reads, readPath g p a = some (path, true)) ∧
    (∀ q ∈ (rest.foldl (fillStep g p) ps).toReads, ∀ a ∈ q.2, a ∈ reads ∧ ∃ fl, readPath g p a = some (q.1, fl)) := by
  induction rest generalizing ps with
  | nil => exact ⟨hfl, hto⟩
  | cons a t ih =>
    simp only [List.foldl_cons]
    apply ih
    · intro path hp
      unfold fillStep at hp
      split at hp
      · exact hfl path hp
      · rename_i pth fl hrp
        simp only at hp
        split at hp
        · rename_i hflt
          rcases mem_setAdd.1 hp with h' | h'
          · exact hfl path h'
          · subst h'; exact ⟨a, hrest a (by simp), by rw [hrp, hflt]⟩
        · exact hfl path hp
    · intro q hq b hb
      unfold fillStep at hq
      split at hq
      · exact hto q hq b hb
      · rename_i pth fl hrp
        simp only at hq
        rcases mem_amSet hq with h' | h'
        · subst h'
          simp only [List.mem_append, List.mem_singleton] at hb
          rcases hb with hb | hb
          · cases hg : amGet? ps.toReads pth with
            | none => simp [hg] at hb
            | some rs =>
              simp only [hg, Option.getD_some] at hb
              exact hto (pth, rs) (amGet?_mem hg) b hb
          · subst hb; exact ⟨hrest b (by simp), fl, hrp⟩
        · exact hto q h' b hb
    · intro b hb; exact hrest b (by simp [hb])

theorem fillPaths_spec (g : Graph) (p : ThreadParams) (reads : List Read) :
    (∀ path ∈ (fillPaths g p reads).fl, ∃ a ∈ reads, readPath g p a = some (path, true)) ∧
    (∀ q ∈ (fillPaths g p reads).toReads, ∀ a ∈ q.2, a ∈ reads ∧ ∃ fl, readPath g p a = some (q.1, fl)) := by
  unfold fillPaths
  exact fillPaths_inv g p reads PathStore.empty (by simp [PathStore.empty]) (by simp [PathStore.empty]) reads (fun a h => h)

end IsoVerif.Lemmas.C04
