/-
C07: the options a resume command line may change (`resumeCfg`, Model/Resume.lean: `--high_memory`, `--keep_tmp`) do not
touch anything the lock/data invariant, the save files or the final files depend on.
-/
import IsoVerif.Lemmas.ResumeHistory

namespace IsoVerif.Lemmas.Resume
open IsoVerif.Model.Resume

theorem guarded_resumeCfg (cfg : Cfg) (hm kt : Bool) (l : Path) : guarded (resumeCfg cfg hm kt) l = guarded cfg l := by
  cases l <;> rfl

theorem finalPaths_resumeCfg (cfg : Cfg) (hm kt : Bool) : finalPaths (resumeCfg cfg hm kt) = finalPaths cfg := rfl

theorem WF_resumeCfg {cfg : Cfg} (hm kt : Bool) (wf : WF cfg) : WF (resumeCfg cfg hm kt) :=
  ⟨wf.nd, wf.mnd, wf.bnd, wf.m_iff, wf.b_sub⟩

theorem J_resumeCfg {cfg : Cfg} (hm kt : Bool) {fs : FS} : J (resumeCfg cfg hm kt) fs ↔ J cfg fs := by
  simp only [J, guarded_resumeCfg]

/-- the resume command line without `--high_memory --keep_tmp` changes nothing when the killed run had neither -/
theorem resumeCfg_same (cfg : Cfg) : resumeCfg cfg cfg.highMemory false = cfg := by
  cases cfg; simp [resumeCfg]

/-- `--high_memory` removes checks (the save files are not read back), never a file-system event -/
theorem collectPost_events_high_memory (cfg : Cfg) (b sk : Bool) (fs : FS) :
    eventsOf (collectPost { cfg with highMemory := b } sk fs) = eventsOf (collectPost cfg sk fs) := by
  unfold collectPost
  cases sk with
  | true => rfl
  | false =>
    simp only [Bool.false_eq_true, if_false, eventsOf_append, eventsOf_evs]
    have hl : ∀ (x : Bool) (l : List Chr), eventsOf (if x = true then [] else l.map (fun c => Act.load (Path.save c))) = [] := by
      intro x l; split
      · rfl
      · have := eventsOf_loads_nil (l.map Path.save); rwa [List.map_map] at this
    rw [hl, hl]

end IsoVerif.Lemmas.Resume
