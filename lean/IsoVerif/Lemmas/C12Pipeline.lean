/-
Helper lemmas for the end-to-end part of C12 (Model/BamPipeline.lean):
  A. the records come in blocks; two representations give block-wise permuted streams
  B. the loaded records of one read, position-free (`readOut`) and of one chromosome (`specRecords`)
  C. the loader on one record = membership in the resolver's kept records
  D. the verdict dictionaries by look-up
  E. loader ∘ resolver on a stamped stream = `specRecords` (as multisets)
  F. assignment ids are invisible
  G. `specRecords` is invariant under block-wise permutations
-/
import IsoVerif.Model.BamPipeline
import IsoVerif.Lemmas.BamRecords
import IsoVerif.Lemmas.C12Lists
import IsoVerif.Lemmas.C12Resolve
import IsoVerif.Lemmas.CounterPerm

namespace IsoVerif.Lemmas.C12
open IsoVerif.Gen IsoVerif.Model.C12 IsoVerif.Model.Resolver IsoVerif.Lemmas.Resolver IsoVerif.Lemmas.ResolverSpec
open IsoVerif.Lemmas.ResolverFlow IsoVerif.Props.C08 IsoVerif.Props.C08Flow
open List

/-! ## A. blocks -/

theorem collect_eq_flatten {R : Type} (split : SplitFn) (assign : Assign R) (files : List (List Aln)) :
    collect split assign files = (collectBlocks split assign files).flatten := by
  simp only [collect, collectBlocks, List.flatMap_def, List.flatten_flatten, List.map_map, Function.comp_def]

theorem collectMem_eq_flatten {R : Type} (split : SplitFn) (assign : Assign R) (files : List (List Aln)) :
    collectMem split assign files = (collectBlocksMem split assign files).flatten := by
  simp only [collectMem, collectBlocksMem, List.flatMap_def, List.flatten_flatten, List.map_map, Function.comp_def]

/-- two representations of the same alignments give the same sequence of blocks, each block permuted -/
theorem collectBlocks_forall2 {R : Type} (split : SplitFn) (assign : Assign R) (files1 files2 : List (List Aln))
    (s1 : ∀ f ∈ files1, SortedStart f) (s2 : ∀ f ∈ files2, SortedStart f)
    (wf : ∀ a ∈ files1.flatten, a.start < a.stop) (hp : files1.flatten ~ files2.flatten)
    (hidx : ∀ r i j a, assign r i a = assign r j a) :
    Forall2 (fun b b' => b ~ b') (collectBlocks split assign files1) (collectBlocks split assign files2) := by
  have hce := merged_cluster_equiv files1 files2 s1 s2 wf hp
  have e : ∀ (files : List (List Aln)) (C : List (Iv × List Entry)),
      C.flatMap (fun rc => (subRegions split rc.1 (rc.2.map Prod.snd)).map (regionRecords assign files)) =
      (C.map strip).flatMap (fun rc => (subRegions split rc.1 rc.2).map (regionRecords assign files)) := by
    intro files C
    simp [List.flatMap_map, strip]
  unfold collectBlocks
  rw [e, e]
  refine forall2_flatMap _ _ hce ?_
  intro x y hxy
  obtain ⟨hr, hc⟩ := hxy
  rw [hr, subRegions_perm split y.1 hc]
  exact forall2_map _ _ (forall2_refl_of _ (fun _ _ => rfl))
    (fun a b hab => by subst hab; exact regionRecords_perm assign files1 files2 hp hidx a)

theorem collectBlocksMem_forall2 {R : Type} (split : SplitFn) (assign : Assign R) (files1 files2 : List (List Aln))
    (s1 : ∀ f ∈ files1, SortedStart f) (s2 : ∀ f ∈ files2, SortedStart f)
    (wf : ∀ a ∈ files1.flatten, a.start < a.stop) (hp : files1.flatten ~ files2.flatten)
    (hidx : ∀ r i j a, assign r i a = assign r j a) :
    Forall2 (fun b b' => b ~ b') (collectBlocksMem split assign files1) (collectBlocksMem split assign files2) := by
  have hce := merged_cluster_equiv files1 files2 s1 s2 wf hp
  have key : ∀ (r : Iv) (c : List Entry) (sub : Iv),
      (memAlignments r c sub).filterMap (fun e => assign sub e.1 e.2) =
      (memAlns r (c.map Prod.snd) sub).filterMap (assign sub 0) := by
    intro r c sub
    rw [← memAlignments_strip, List.filterMap_map]
    congr 1
    funext e
    exact hidx sub e.1 0 e.2
  have e : ∀ (C : List (Iv × List Entry)),
      C.flatMap (fun rc => (subRegions split rc.1 (rc.2.map Prod.snd)).map (fun sub =>
        (memAlignments rc.1 rc.2 sub).filterMap (fun e => assign sub e.1 e.2))) =
      (C.map strip).flatMap (fun rc => (subRegions split rc.1 rc.2).map (fun sub =>
        (memAlns rc.1 rc.2 sub).filterMap (assign sub 0))) := by
    intro C
    simp [List.flatMap_map, strip, key]
  unfold collectBlocksMem
  rw [e, e]
  refine forall2_flatMap _ _ hce ?_
  intro x y hxy
  obtain ⟨hr, hc⟩ := hxy
  rw [hr, subRegions_perm split y.1 hc]
  refine forall2_map _ _ (forall2_refl_of _ (fun _ _ => rfl)) (fun a b hab => ?_)
  subst hab
  refine Perm.filterMap _ ?_
  unfold memAlns
  split
  · exact hc
  · exact Perm.filter _ hc

/-! ## B. the loaded records of one read / one chromosome, position-free -/

/-- `BasicReadAssignment.__eq__` on the compact views -/
def eqP (a b : PRec) : Bool := recEq a.basic b.basic

/-- the records of one read (`T`, in processing order) the resolver keeps: the first of every `__eq__`-class of
    `Winner` records -/
noncomputable def keptP (T : List PRec) : List PRec :=
  open Classical in firstWins eqP (T.filter (fun p => decide (Winner (T.map (·.basic)) p.basic)))

-- (c08x) `several_kept and ...`: a read kept on ONE record is not re-flagged (audit-2 GAP C08-1, `fix:` commit)
def cTP (K : List PRec) : Bool := decide (1 < K.length) && decide (1 < setSize (K.flatMap (fun p => p.basic.isoforms)))
def cGP (K : List PRec) : Bool := decide (1 < K.length) && decide (1 < setSize (K.flatMap (fun p => p.basic.genes)))

/-- the record with the resolver's re-flagging applied -/
def flagged (a b : Bool) (p : PRec) : PRec := { p with basic := flag a b p.basic }

/-- what reaches the consumers of the records `T` of one read -/
noncomputable def readOut (T : List PRec) : List PRec :=
  if T.length ≤ 1 then T else (keptP T).map (flagged (cTP (keptP T)) (cGP (keptP T)))

def onChr (c : Nat) (p : PRec) : Bool := p.basic.chr == c
def ofRead (r : Nat) (p : PRec) : Bool := p.basic.readId == r

/-- what reaches the consumers on chromosome `c`, read by read (`S` = the records of the whole experiment) -/
noncomputable def specRecords (c : Nat) (S : List PRec) : List PRec :=
  (keysOf (fun p => p.basic.readId) (S.filter (onChr c))).flatMap (fun r =>
    (readOut (S.filter (ofRead r))).filter (onChr c))

/-! ## C. the loader on one record -/

theorem flag_aid (a b : Bool) (r : Rec) : (flag a b r).aid = r.aid := by cases a <;> cases b <;> rfl
theorem flag_chr (a b : Bool) (r : Rec) : (flag a b r).chr = r.chr := by cases a <;> cases b <;> rfl
theorem flag_readId (a b : Bool) (r : Rec) : (flag a b r).readId = r.readId := by cases a <;> cases b <;> rfl

theorem withVerdict_flag (a b : Bool) (p : PRec) :
    p.withVerdict { p.toFull with atype := (flag a b p.basic).atype, gtype := (flag a b p.basic).gtype,
                                  multimapper := (flag a b p.basic).multimapper } = flagged a b p := by
  cases a <;> cases b <;> rfl

theorem withVerdict_self (p : PRec) : p.withVerdict p.toFull = p := rfl

theorem length_le_one_of_pairwise {α : Type} {R : α → α → Prop} {l : List α} (hp : l.Pairwise R)
    (h : ∀ a ∈ l, ∀ b ∈ l, ¬ R a b) : l.length ≤ 1 := by
  match l, hp, h with
  | [], _, _ => simp
  | [_], _, _ => simp
  | a :: b :: t, hp, h =>
    exact absurd ((List.pairwise_cons.mp hp).1 b (by simp)) (h a (by simp) b (by simp))

/-- the (assignment id, chromosome) pairs of the resolver's output are those of its input, position by position -/
theorem applyKeep_ids (l : List Rec) (kept : List IRec) :
    (applyKeep l kept).map (fun r => (r.aid, r.chr)) = l.map (fun r => (r.aid, r.chr)) := by
  apply List.ext_getElem?
  intro i
  simp only [List.getElem?_map, getElem?_applyKeep, Option.map_map]
  cases l[i]? with
  | none => rfl
  | some r =>
    simp only [Option.map_some, Function.comp, Option.some.injEq]
    split
    · rw [flag_aid, flag_chr]
    · rfl

theorem nodup_of_distinct {l : List Rec} (h : l.Pairwise (fun a b => ¬ (a.aid = b.aid ∧ a.chr = b.chr))) : l.Nodup :=
  h.imp (fun hab e => hab (by subst e; exact ⟨rfl, rfl⟩))

/-- **the loader on one record of a multi-record read**: with pairwise different (assignment id, chromosome), the
    record is dropped iff it is not among the resolver's kept records; a kept one is loaded with the re-flagged types -/
theorem loadOne_multi (l : List Rec) (h2 : 2 ≤ l.length) (hin : NoSuspendedInput l)
    (huniq : l.Pairwise (fun a b => ¬ (a.aid = b.aid ∧ a.chr = b.chr)))
    (c : Nat) (dict : List (Nat × List Rec)) (p : PRec) (hp : p.basic ∈ l) (hc : p.basic.chr = c)
    (hdict : dict.lookup p.basic.readId = some ((applyKeep l (keptI l)).filter (fun r => r.chr == c))) :
    raisesFor dict p.toFull = false ∧
    (loadOne dict p.toFull).map p.withVerdict =
      if p.basic ∈ (keptI l).map Prod.fst then some (flagged (changeT (keptI l)) (changeG (keptI l)) p) else none := by
  obtain ⟨hres, hsub⟩ := keptI_spec l h2
  obtain ⟨i, hi⟩ := List.mem_iff_getElem?.mp hp
  have hnd := nodup_of_distinct huniq
  constructor
  · -- no second verdict with the same (assignment id, chromosome)
    have hlen : ((applyKeep l (keptI l)).filter (fun a => a.aid == p.basic.aid && a.chr == p.basic.chr)).length ≤ 1 := by
      have e : ((applyKeep l (keptI l)).filter (fun a => a.aid == p.basic.aid && a.chr == p.basic.chr)).length =
          ((l.map (fun r => (r.aid, r.chr))).filter (fun k => k.1 == p.basic.aid && k.2 == p.basic.chr)).length := by
        rw [← applyKeep_ids l (keptI l), List.filter_map, List.length_map]
        rfl
      rw [e]
      apply length_le_one_of_pairwise (R := fun a b : Nat × Nat => a ≠ b)
      · exact List.Pairwise.filter _ (List.pairwise_map.mpr (huniq.imp (fun hab e => hab (by
          simp only [Prod.mk.injEq] at e; exact e))))
      · intro a ha b hb
        simp only [List.mem_filter, Bool.and_eq_true, beq_iff_eq] at ha hb
        intro hne
        exact hne (Prod.ext (ha.2.1.trans hb.2.1.symm) (ha.2.2.trans hb.2.2.symm))
    have hfin : (((applyKeep l (keptI l)).filter (fun r => r.chr == c)).filter
        (fun a => a.aid == p.basic.aid && a.chr == p.basic.chr)).length ≤ 1 :=
      Nat.le_trans ((List.filter_sublist (l := applyKeep l (keptI l)) (p := fun r => r.chr == c)).filter
        (fun a => a.aid == p.basic.aid && a.chr == p.basic.chr)).length_le hlen
    simp only [raisesFor, PRec.toFull, hdict, dupVerdict]
    exact decide_eq_false (by omega)
  · have hil : i < l.length := by
      apply Classical.byContradiction; intro h
      rw [List.getElem?_eq_none (Nat.le_of_not_lt h)] at hi; cases hi
    have hout : (applyKeep l (keptI l))[i]? = some (if ((keptI l).map (·.2)).contains i
        then flag (changeT (keptI l)) (changeG (keptI l)) p.basic else suspend p.basic) := by
      rw [getElem?_applyKeep, hi]; rfl
    have hra : p.toFull.aid = p.basic.aid ∧ p.toFull.chr = p.basic.chr := ⟨rfl, rfl⟩
    obtain ⟨hlose, hwin⟩ := losers_never_loaded l h2 hin huniq _ hres c dict p.toFull hdict i p.basic _ hi hout hc hra
    by_cases hk : ((keptI l).map (·.2)).contains i = true
    · -- kept
      have hmem : p.basic ∈ (keptI l).map Prod.fst := by
        rw [List.contains_iff_mem, List.mem_map] at hk
        obtain ⟨y, hy, hyi⟩ := hk
        have hyz := hsub.subset hy
        have := List.mem_zipIdx_iff_getElem?.mp hyz
        rw [hyi, hi] at this
        exact List.mem_map.mpr ⟨y, hy, (Option.some.inj this).symm⟩
      simp only [hk, if_true] at hwin hout
      have hret : flag (changeT (keptI l)) (changeG (keptI l)) p.basic ∈ retained (applyKeep l (keptI l)) :=
        mem_retained.mpr ⟨List.mem_of_getElem? hout, flag_atype_ne_suspended _ _ _ (hin _ hp)⟩
      rw [hwin hret, if_pos hmem, Option.map_some, withVerdict_flag]
    · have hk' : ((keptI l).map (·.2)).contains i = false := by simpa using hk
      have hmem : p.basic ∉ (keptI l).map Prod.fst := by
        intro hm
        obtain ⟨y, hy, hy1⟩ := List.mem_map.mp hm
        have hyz := hsub.subset hy
        have hj := List.mem_zipIdx_iff_getElem?.mp hyz
        rw [hy1] at hj
        -- l[y.2] = l[i] = p.basic, and l has no duplicates: y.2 = i
        have hjl : y.2 < l.length := by
          apply Classical.byContradiction; intro h
          rw [List.getElem?_eq_none (Nat.le_of_not_lt h)] at hj; cases hj
        have e1 : l[y.2] = p.basic := by
          have := List.getElem?_eq_getElem hjl; rw [this] at hj; exact Option.some.inj hj
        have e2 : l[i] = p.basic := by
          have := List.getElem?_eq_getElem hil; rw [this] at hi; exact Option.some.inj hi
        have hji : y.2 = i := (List.getElem_inj hnd).mp (e1.trans e2.symm)
        apply hk
        rw [List.contains_iff_mem, List.mem_map]
        exact ⟨y, hy, hji⟩
      simp only [hk', Bool.false_eq_true, if_false] at hlose hout
      have hnr : suspend p.basic ∉ retained (applyKeep l (keptI l)) := by
        intro h; exact (mem_retained.mp h).2 (suspend_atype _)
      rw [hlose hnr, if_neg hmem]; rfl

/-! ## D. the verdict dictionaries by look-up -/

/-- the records of read `r` in the stream, in processing order: the list the resolver is called on -/
def lr (recs : List Rec) (r : Nat) : List Rec := recs.filter (fun x => x.readId == r)

/-- what the resolver returns for the records `l` of one read with at least two records -/
def outOf (l : List Rec) : List Rec := applyKeep l (keptI l)

theorem mapM_map_some {α β γ : Type} (g : α → β) (f : β → Option γ) (h : α → γ) (L : List α)
    (hf : ∀ x ∈ L, f (g x) = some (h x)) : (L.map g).mapM f = some (L.map h) := by
  induction L with
  | nil => rfl
  | cons x t ih =>
    rw [List.map_cons, List.mapM_cons, hf x (by simp), ih (fun y hy => hf y (List.mem_cons_of_mem _ hy))]
    rfl

/-- both memory modes resolve every read with at least two records, once, and nothing else -/
theorem resolveStream_spec (hm : Bool) (recs : List Rec) :
    ∃ resolved, resolveStream hm recs = some resolved ∧ (resolved.map Prod.fst).Nodup ∧
      (∀ r, 2 ≤ (lr recs r).length → (r, outOf (lr recs r)) ∈ resolved) ∧
      (∀ kv ∈ resolved, 2 ≤ (lr recs kv.1).length ∧ kv.2 = outOf (lr recs kv.1)) := by
  have hd : resolveAll .take_best (if hm then groupAll recs else groupMulti recs) =
      resolveAll .take_best (groupAll recs) := by
    cases hm with
    | true => rfl
    | false => exact memory_paths_agree .take_best recs
  have hvals := groupAll_vals recs
  refine ⟨((groupAll recs).filter (fun kv => 1 < kv.2.length)).map (fun kv => (kv.1, outOf kv.2)), ?_, ?_, ?_, ?_⟩
  · show (resolveAll .take_best (if hm then groupAll recs else groupMulti recs)).mapM _ = _
    rw [hd]
    simp only [resolveAll]
    apply mapM_map_some
    intro kv hkv
    have h2 : 2 ≤ kv.2.length := by
      have := (List.mem_filter.mp hkv).2
      simp only [decide_eq_true_eq] at this; omega
    simp only [(keptI_spec kv.2 h2).1, Option.map_some, outOf]
  · have : (((groupAll recs).filter (fun kv => 1 < kv.2.length)).map (fun kv => (kv.1, outOf kv.2))).map Prod.fst =
        ((groupAll recs).filter (fun kv => 1 < kv.2.length)).map Prod.fst := by
      simp [List.map_map, Function.comp_def]
    rw [this]
    exact List.Nodup.sublist (List.filter_sublist.map _) (inv_groupAll recs).nodup
  · intro r hr
    have hne : lr recs r ≠ [] := by intro h; simp [h] at hr
    obtain ⟨x, hx⟩ := List.exists_mem_of_ne_nil _ hne
    obtain ⟨hx1, hx2⟩ := List.mem_filter.mp hx
    obtain ⟨kv, hkv, hk⟩ := groupAll_cover recs x hx1
    have hkr : kv.1 = r := by simpa using hk.trans (by simpa using hx2)
    have hv : kv.2 = lr recs r := by rw [hvals kv hkv, hkr]; rfl
    refine List.mem_map.mpr ⟨kv, List.mem_filter.mpr ⟨hkv, ?_⟩, ?_⟩
    · rw [hv]; simp only [decide_eq_true_eq]; omega
    · rw [hv, hkr]
  · intro kv hkv
    obtain ⟨kv0, hkv0, rfl⟩ := List.mem_map.mp hkv
    obtain ⟨h1, h2⟩ := List.mem_filter.mp hkv0
    have hv : kv0.2 = lr recs kv0.1 := hvals kv0 h1
    simp only
    rw [← hv]
    exact ⟨by simp only [decide_eq_true_eq] at h2; omega, rfl⟩

theorem verdictsFor_keys (c : Nat) (resolved : List (Nat × List Rec)) (h : (resolved.map Prod.fst).Nodup) :
    ((verdictsFor c resolved).map Prod.fst).Nodup := by
  unfold verdictsFor
  refine List.Nodup.sublist (List.filter_sublist.map _) ?_
  simpa [List.map_map, Function.comp_def] using h

/-- the verdict dictionary of chromosome `c` holds, for a read with at least two records of which one lies on `c`,
    the resolver's output restricted to `c` -/
theorem verdictsFor_lookup_multi (c : Nat) (recs : List Rec) (resolved : List (Nat × List Rec))
    (hnd : (resolved.map Prod.fst).Nodup) (hmem : ∀ r, 2 ≤ (lr recs r).length → (r, outOf (lr recs r)) ∈ resolved)
    (r : Nat) (h2 : 2 ≤ (lr recs r).length) (hne : (outOf (lr recs r)).filter (fun x => x.chr == c) ≠ []) :
    (verdictsFor c resolved).lookup r = some ((outOf (lr recs r)).filter (fun x => x.chr == c)) := by
  apply lookup_of_mem_nodup (verdictsFor_keys c resolved hnd)
  unfold verdictsFor
  refine List.mem_filter.mpr ⟨List.mem_map.mpr ⟨_, hmem r h2, rfl⟩, ?_⟩
  cases h : (outOf (lr recs r)).filter (fun x => x.chr == c) with
  | nil => exact absurd h hne
  | cons _ _ => rfl

theorem verdictsFor_lookup_single (c : Nat) (recs : List Rec) (resolved : List (Nat × List Rec))
    (hall : ∀ kv ∈ resolved, 2 ≤ (lr recs kv.1).length ∧ kv.2 = outOf (lr recs kv.1))
    (r : Nat) (h1 : (lr recs r).length ≤ 1) : (verdictsFor c resolved).lookup r = none := by
  apply lookup_none_of_not_mem
  intro hmem
  obtain ⟨kv, hkv, hk⟩ := List.mem_map.mp hmem
  unfold verdictsFor at hkv
  obtain ⟨kv0, hkv0, rfl⟩ := List.mem_map.mp (List.mem_filter.mp hkv).1
  have := (hall kv0 hkv0).1
  simp only at hk
  rw [hk] at this
  omega

/-! ## E. loader ∘ resolver on a stamped stream -/

/-- what the loader does with record `p` of the stream, as a function of the stream's compact records -/
def loadSpec (recs : List Rec) (p : PRec) : Option PRec :=
  let l := lr recs p.basic.readId
  if l.length ≤ 1 then some p
  else if p.basic ∈ (keptI l).map Prod.fst then some (flagged (changeT (keptI l)) (changeG (keptI l)) p)
  else none

theorem mem_lr_self {recs : List Rec} {x : Rec} (h : x ∈ recs) : x ∈ lr recs x.readId :=
  List.mem_filter.mpr ⟨h, by simp⟩

/-- **loader ∘ resolver, record by record**: on a stream without `suspended` input records whose
    (assignment id, chromosome) pairs are pairwise different, resolution never raises, the loader of every
    chromosome never raises and returns `loadSpec` of the chromosome's records -/
theorem loadChr_spec (hm : Bool) (S : List PRec)
    (hU : (S.map (·.basic)).Pairwise (fun a b => ¬ (a.aid = b.aid ∧ a.chr = b.chr)))
    (hNS : NoSuspendedInput (S.map (·.basic))) :
    ∃ resolved, resolveStream hm (S.map (·.basic)) = some resolved ∧
      ∀ c, loadChr (verdictsFor c resolved) (S.filter (onChr c)) =
        some ((S.filter (onChr c)).filterMap (loadSpec (S.map (·.basic)))) := by
  obtain ⟨resolved, hres, hnd, hmem, hall⟩ := resolveStream_spec hm (S.map (·.basic))
  refine ⟨resolved, hres, ?_⟩
  intro c
  have key : ∀ p ∈ S.filter (onChr c),
      raisesFor (verdictsFor c resolved) p.toFull = false ∧
      (loadOne (verdictsFor c resolved) p.toFull).map p.withVerdict = loadSpec (S.map (·.basic)) p := by
    intro p hp
    obtain ⟨hpS, hpc⟩ := List.mem_filter.mp hp
    have hpc' : p.basic.chr = c := by simpa [onChr] using hpc
    have hprec : p.basic ∈ S.map (·.basic) := List.mem_map.mpr ⟨p, hpS, rfl⟩
    have hpl := mem_lr_self hprec
    by_cases h1 : (lr (S.map (·.basic)) p.basic.readId).length ≤ 1
    · have hlk := verdictsFor_lookup_single c _ resolved hall p.basic.readId h1
      have hlk' : (verdictsFor c resolved).lookup p.toFull.readId = none := hlk
      refine ⟨by simp [raisesFor, hlk'], ?_⟩
      simp only [loadOne, hlk', loadSpec, h1, if_true, Option.map_some]
      rfl
    · have h2 : 2 ≤ (lr (S.map (·.basic)) p.basic.readId).length := by omega
      have hin : NoSuspendedInput (lr (S.map (·.basic)) p.basic.readId) :=
        fun x hx => hNS x (List.mem_filter.mp hx).1
      have huniq := List.Pairwise.filter (fun x : Rec => x.readId == p.basic.readId) hU
      -- the verdict of `p` itself lies on chromosome `c`, so the entry of the read is not empty
      have hne : (outOf (lr (S.map (·.basic)) p.basic.readId)).filter (fun x => x.chr == c) ≠ [] := by
        obtain ⟨i, hi⟩ := List.mem_iff_getElem?.mp hpl
        have hout := getElem?_applyKeep (lr (S.map (·.basic)) p.basic.readId)
          (keptI (lr (S.map (·.basic)) p.basic.readId)) i
        rw [hi] at hout
        intro hnil
        have hmem' := List.mem_of_getElem? hout
        have hchr : (if ((keptI (lr (S.map (·.basic)) p.basic.readId)).map (·.2)).contains i
            then flag (changeT (keptI (lr (S.map (·.basic)) p.basic.readId)))
              (changeG (keptI (lr (S.map (·.basic)) p.basic.readId))) p.basic else suspend p.basic).chr = c := by
          split
          · rw [flag_chr]; exact hpc'
          · exact hpc'
        have : _ ∈ (outOf (lr (S.map (·.basic)) p.basic.readId)).filter (fun x => x.chr == c) :=
          List.mem_filter.mpr ⟨hmem', by simpa using hchr⟩
        rw [hnil] at this; cases this
      have hlk := verdictsFor_lookup_multi c _ resolved hnd hmem p.basic.readId h2 hne
      obtain ⟨hr, hl⟩ := loadOne_multi _ h2 hin huniq c (verdictsFor c resolved) p hpl hpc' hlk
      refine ⟨hr, ?_⟩
      rw [hl]
      simp only [loadSpec, h1, if_false]
  unfold loadChr
  have hany : (S.filter (onChr c)).any (fun p => raisesFor (verdictsFor c resolved) p.toFull) = false := by
    rw [List.any_eq_false]
    intro p hp
    simp [(key p hp).1]
  rw [hany]
  simp only [Bool.false_eq_true, if_false, Option.some.injEq]
  exact IsoVerif.Lemmas.C02.filterMap_congr_mem (fun p hp => (key p hp).2)

/-! ### from positions to multisets -/

theorem filterMap_flatMap' {α β γ : Type} (K : List α) (f : α → List β) (g : β → Option γ) :
    (K.flatMap f).filterMap g = K.flatMap (fun k => (f k).filterMap g) := by
  induction K with
  | nil => rfl
  | cons k ks ih => simp [List.flatMap_cons, List.filterMap_append, ih]

theorem filterMap_ite {α β : Type} (q : α → Bool) (f : α → β) (l : List α) :
    l.filterMap (fun x => if q x then some (f x) else none) = (l.filter q).map f := by
  induction l with
  | nil => rfl
  | cons x t ih =>
    by_cases h : q x = true
    · simp [List.filterMap_cons, List.filter_cons, h, ih]
    · simp [List.filterMap_cons, List.filter_cons, h, ih]

theorem filter_comm' {α : Type} (p q : α → Bool) (l : List α) : (l.filter p).filter q = (l.filter q).filter p := by
  rw [List.filter_filter, List.filter_filter]
  apply List.filter_congr
  intro x _
  exact Bool.and_comm _ _

theorem onChr_flagged (c : Nat) (a b : Bool) (p : PRec) : onChr c (flagged a b p) = onChr c p := by
  simp [onChr, flagged, flag_chr]

/-- the kept records of one read at the level of full records: their compact views are the resolver's kept records,
    and (the compact views being pairwise different) they are exactly the records whose compact view is kept -/
theorem keptP_spec (T : List PRec) (hT : (T.map (·.basic)).Nodup) :
    (keptP T).map (·.basic) = keptRecs (T.map (·.basic)) ∧
    keptP T = T.filter (fun p => decide (p.basic ∈ keptRecs (T.map (·.basic)))) := by
  classical
  have hmap : (keptP T).map (·.basic) = keptRecs (T.map (·.basic)) := by
    unfold keptP keptRecs winnersR eqP
    rw [firstWins_map (f := fun p : PRec => p.basic) (eqb := recEq)]
    congr 1
    rw [List.filter_map]
    rfl
  refine ⟨hmap, ?_⟩
  have hTn : T.Nodup := List.Pairwise.of_map (fun p : PRec => p.basic) (fun a b h e => h (congrArg _ e)) hT
  apply sublist_eq_filter _ _ hTn
  · intro x hx
    simp only [decide_eq_true_eq]
    constructor
    · intro h
      rw [← hmap]
      exact List.mem_map.mpr ⟨x, h, rfl⟩
    · intro h
      rw [← hmap] at h
      obtain ⟨y, hy, hyx⟩ := List.mem_map.mp h
      have hyT : y ∈ T := (List.filter_sublist.subset (mem_of_mem_firstWins _ hy))
      have : y = x := eq_of_nodup_map (fun p : PRec => p.basic) hT hyT hx hyx
      rw [← this]; exact hy
  · exact (firstWins_sublist _ _).trans List.filter_sublist

/-- **one read, one chromosome**: the loader's result on the read's records of chromosome `c` is `readOut` of all
    the read's records, restricted to `c` -/
theorem readOut_spec (S : List PRec)
    (hU : (S.map (·.basic)).Pairwise (fun a b => ¬ (a.aid = b.aid ∧ a.chr = b.chr))) (c r : Nat) :
    ((S.filter (onChr c)).filter (ofRead r)).filterMap (loadSpec (S.map (·.basic))) =
      (readOut (S.filter (ofRead r))).filter (onChr c) := by
  have hl : lr (S.map (·.basic)) r = (S.filter (ofRead r)).map (·.basic) := by
    unfold lr; rw [List.filter_map]; rfl
  have hTU : ((S.filter (ofRead r)).map (·.basic)).Pairwise (fun a b => ¬ (a.aid = b.aid ∧ a.chr = b.chr)) := by
    rw [← hl]; exact List.Pairwise.filter _ hU
  have hTn := nodup_of_distinct hTU
  rw [filter_comm']
  -- on the read's records `loadSpec` only looks at the read's own list
  have hcongr : ((S.filter (ofRead r)).filter (onChr c)).filterMap (loadSpec (S.map (·.basic))) =
      ((S.filter (ofRead r)).filter (onChr c)).filterMap (fun p =>
        if ((S.filter (ofRead r)).map (·.basic)).length ≤ 1 then some p
        else if decide (p.basic ∈ (keptI ((S.filter (ofRead r)).map (·.basic))).map Prod.fst) then
          some (flagged (changeT (keptI ((S.filter (ofRead r)).map (·.basic))))
            (changeG (keptI ((S.filter (ofRead r)).map (·.basic)))) p)
        else none) := by
    apply IsoVerif.Lemmas.C02.filterMap_congr_mem
    intro p hp
    have hpr : p.basic.readId = r := by
      have := (List.mem_filter.mp (List.mem_filter.mp hp).1).2
      simpa [ofRead] using this
    simp only [loadSpec, hpr, hl, decide_eq_true_eq]
  rw [hcongr]
  by_cases h1 : ((S.filter (ofRead r)).map (·.basic)).length ≤ 1
  · have h1' : (S.filter (ofRead r)).length ≤ 1 := by simpa using h1
    simp only [h1, if_true, readOut, h1']
    simp
  · have h1' : ¬ (S.filter (ofRead r)).length ≤ 1 := by simpa using h1
    have hne : (S.filter (ofRead r)).map (·.basic) ≠ [] := by
      intro h; rw [h] at h1; simp at h1
    have hread : ∀ a ∈ (S.filter (ofRead r)).map (·.basic), ∀ b ∈ (S.filter (ofRead r)).map (·.basic),
        a.readId = b.readId := by
      intro a ha b hb
      obtain ⟨x, hx, rfl⟩ := List.mem_map.mp ha
      obtain ⟨y, hy, rfl⟩ := List.mem_map.mp hb
      have hx' := (List.mem_filter.mp hx).2
      have hy' := (List.mem_filter.mp hy).2
      simp only [ofRead, beq_iff_eq] at hx' hy'
      rw [hx', hy']
    have hK := keptI_map_fst _ hne hread
    obtain ⟨hmap, hfilt⟩ := keptP_spec (S.filter (ofRead r)) hTn
    have hKlen : (keptI ((S.filter (ofRead r)).map (·.basic))).length = (keptP (S.filter (ofRead r))).length := by
      have h := congrArg List.length hK
      rw [← hmap] at h
      simpa using h
    have hT : changeT (keptI ((S.filter (ofRead r)).map (·.basic))) = cTP (keptP (S.filter (ofRead r))) := by
      unfold changeT cTP
      have : (keptI ((S.filter (ofRead r)).map (·.basic))).flatMap (fun x => x.1.isoforms) =
          ((keptI ((S.filter (ofRead r)).map (·.basic))).map Prod.fst).flatMap (fun x => x.isoforms) := by
        rw [List.flatMap_map]
      rw [this, hK, ← hmap, List.flatMap_map, hKlen]
    have hG : changeG (keptI ((S.filter (ofRead r)).map (·.basic))) = cGP (keptP (S.filter (ofRead r))) := by
      unfold changeG cGP
      have : (keptI ((S.filter (ofRead r)).map (·.basic))).flatMap (fun x => x.1.genes) =
          ((keptI ((S.filter (ofRead r)).map (·.basic))).map Prod.fst).flatMap (fun x => x.genes) := by
        rw [List.flatMap_map]
      rw [this, hK, ← hmap, List.flatMap_map, hKlen]
    simp only [h1, if_false, readOut, h1']
    rw [filterMap_ite, hK, hT, hG, filter_comm', ← hfilt, List.filter_map]
    congr 1
    apply List.filter_congr
    intro p _
    exact (onChr_flagged c _ _ p).symm

/-- **loader ∘ resolver as a multiset**: the loaded records of chromosome `c` are `specRecords c` of the stream -/
theorem loadSpec_perm (S : List PRec)
    (hU : (S.map (·.basic)).Pairwise (fun a b => ¬ (a.aid = b.aid ∧ a.chr = b.chr))) (c : Nat) :
    (S.filter (onChr c)).filterMap (loadSpec (S.map (·.basic))) ~ specRecords c S := by
  have hg := perm_group_keys (fun p : PRec => p.basic.readId) (S.filter (onChr c))
  have h1 := hg.filterMap (loadSpec (S.map (·.basic)))
  rw [filterMap_flatMap'] at h1
  refine h1.trans (Perm.of_eq ?_)
  unfold specRecords
  rw [List.flatMap_def, List.flatMap_def]
  congr 1
  apply List.map_congr_left
  intro r _
  exact readOut_spec S hU c r

/-! ## F. assignment ids are invisible -/

/-- the compact record with its assignment id forgotten -/
def eraseAidR (r : Rec) : Rec := { r with aid := 0 }

theorem eraseAid_basic (p : PRec) : p.eraseAid.basic = eraseAidR p.basic := rfl

theorem winner_eraseAid (l : List Rec) (r : Rec) : Winner (l.map eraseAidR) (eraseAidR r) ↔ Winner l r := by
  have hPU : ∀ q, PU (eraseAidR q) ↔ PU q := fun _ => Iff.rfl
  have hC : ∀ q, Cons (eraseAidR q) ↔ Cons q := fun _ => Iff.rfl
  have hPI : ∀ q, PInc (eraseAidR q) ↔ PInc q := fun _ => Iff.rfl
  have hI : ∀ q, Inc (eraseAidR q) ↔ Inc q := fun _ => Iff.rfl
  have hHas : ∀ (P : Rec → Prop), (∀ q, P (eraseAidR q) ↔ P q) → (Has P (l.map eraseAidR) ↔ Has P l) := by
    intro P hP
    simp only [Has, List.mem_map]
    constructor
    · rintro ⟨q, ⟨q0, hq0, rfl⟩, h⟩; exact ⟨q0, hq0, (hP q0).mp h⟩
    · rintro ⟨q, hq, h⟩; exact ⟨eraseAidR q, ⟨q, hq, rfl⟩, (hP q).mpr h⟩
  have hMin : ∀ (P : Rec → Prop), (∀ q, P (eraseAidR q) ↔ P q) →
      (MinPenaltyAmong P (l.map eraseAidR) (eraseAidR r) ↔ MinPenaltyAmong P l r) := by
    intro P hP
    simp only [MinPenaltyAmong, List.mem_map]
    constructor
    · intro h q hq hPq; exact h (eraseAidR q) ⟨q, hq, rfl⟩ ((hP q).mpr hPq)
    · rintro h q ⟨q0, hq0, rfl⟩ hPq; exact h q0 hq0 ((hP q0).mp hPq)
  have hBest : BestUninformative (l.map eraseAidR) (eraseAidR r) ↔ BestUninformative l r := by
    simp only [BestUninformative, List.mem_map]
    constructor
    · rintro ⟨h1, h2⟩
      exact ⟨fun q hq => h1 (eraseAidR q) ⟨q, hq, rfl⟩, fun q hq ho => h2 (eraseAidR q) ⟨q, hq, rfl⟩ ho⟩
    · rintro ⟨h1, h2⟩
      refine ⟨?_, ?_⟩
      · rintro q ⟨q0, hq0, rfl⟩; exact h1 q0 hq0
      · rintro q ⟨q0, hq0, rfl⟩ ho; exact h2 q0 hq0 ho
  unfold Winner
  rw [hHas PU hPU, hHas Cons hC, hHas PInc hPI, hHas Inc hI, hMin PInc hPI, hMin Inc hI, hBest]
  exact Iff.rfl

theorem eqP_eraseAid (a b : PRec) : eqP a.eraseAid b.eraseAid = eqP a b := rfl

theorem flagged_eraseAid (a b : Bool) (p : PRec) : flagged a b p.eraseAid = (flagged a b p).eraseAid := by
  cases a <;> cases b <;> rfl

theorem keptP_eraseAid (T : List PRec) : keptP (T.map PRec.eraseAid) = (keptP T).map PRec.eraseAid := by
  classical
  unfold keptP
  have hfil : (T.map PRec.eraseAid).filter
        (fun p => decide (Winner ((T.map PRec.eraseAid).map (·.basic)) p.basic)) =
      (T.filter (fun p => decide (Winner (T.map (·.basic)) p.basic))).map PRec.eraseAid := by
    rw [List.filter_map]
    congr 1
    apply List.filter_congr
    intro p _
    have e : (T.map PRec.eraseAid).map (·.basic) = (T.map (·.basic)).map eraseAidR := by
      simp [List.map_map, Function.comp_def, eraseAid_basic]
    simp only [Function.comp, eraseAid_basic, e, winner_eraseAid]
  rw [hfil]
  have := firstWins_map (f := PRec.eraseAid) (eqb := eqP)
    (T.filter (fun p => decide (Winner (T.map (·.basic)) p.basic)))
  rw [← this]
  rfl

theorem cTP_eraseAid (K : List PRec) : cTP (K.map PRec.eraseAid) = cTP K := by
  unfold cTP; rw [List.flatMap_map, List.length_map]; rfl
theorem cGP_eraseAid (K : List PRec) : cGP (K.map PRec.eraseAid) = cGP K := by
  unfold cGP; rw [List.flatMap_map, List.length_map]; rfl

theorem readOut_eraseAid (T : List PRec) : readOut (T.map PRec.eraseAid) = (readOut T).map PRec.eraseAid := by
  unfold readOut
  simp only [List.length_map, keptP_eraseAid, cTP_eraseAid, cGP_eraseAid]
  split
  · rfl
  · simp only [List.map_map]
    apply List.map_congr_left
    intro p _
    exact flagged_eraseAid _ _ p

/-- no output depends on the assignment ids: forgetting them commutes with everything downstream of the loader -/
theorem specRecords_eraseAid (c : Nat) (S : List PRec) :
    (specRecords c S).map PRec.eraseAid = specRecords c (S.map PRec.eraseAid) := by
  unfold specRecords
  have hk : keysOf (fun p : PRec => p.basic.readId) ((S.map PRec.eraseAid).filter (onChr c)) =
      keysOf (fun p : PRec => p.basic.readId) (S.filter (onChr c)) := by
    unfold keysOf
    rw [List.filter_map, List.map_map]
    rfl
  rw [hk, List.map_flatMap]
  rw [List.flatMap_def, List.flatMap_def]
  congr 1
  apply List.map_congr_left
  intro r _
  have hf : (S.map PRec.eraseAid).filter (ofRead r) = (S.filter (ofRead r)).map PRec.eraseAid := by
    rw [List.filter_map]; rfl
  rw [hf, readOut_eraseAid, List.filter_map]
  rfl

/-! ## G. block-wise permutations -/

theorem cTP_perm {K K' : List PRec} (h : K ~ K') : cTP K = cTP K' := by
  unfold cTP
  have hm := (h.flatMap_right (fun p : PRec => p.basic.isoforms))
  rw [h.length_eq]
  congr 1
  rw [Bool.eq_iff_iff, decide_eq_true_eq, decide_eq_true_eq, setSize_gt_one_iff, setSize_gt_one_iff]
  constructor <;> rintro ⟨a, ha, b, hb, hab⟩
  · exact ⟨a, hm.mem_iff.mp ha, b, hm.mem_iff.mp hb, hab⟩
  · exact ⟨a, hm.mem_iff.mpr ha, b, hm.mem_iff.mpr hb, hab⟩

theorem cGP_perm {K K' : List PRec} (h : K ~ K') : cGP K = cGP K' := by
  unfold cGP
  have hm := (h.flatMap_right (fun p : PRec => p.basic.genes))
  rw [h.length_eq]
  congr 1
  rw [Bool.eq_iff_iff, decide_eq_true_eq, decide_eq_true_eq, setSize_gt_one_iff, setSize_gt_one_iff]
  constructor <;> rintro ⟨a, ha, b, hb, hab⟩
  · exact ⟨a, hm.mem_iff.mp ha, b, hm.mem_iff.mp hb, hab⟩
  · exact ⟨a, hm.mem_iff.mpr ha, b, hm.mem_iff.mpr hb, hab⟩

/-- inside one block, records that `__eq__` identifies are identical -/
def BlockDupOK (B : List (List PRec)) : Prop := ∀ b ∈ B, ∀ x ∈ b, ∀ y ∈ b, eqP x y = true → x = y

theorem eqP_symm (a b : PRec) : eqP a b = eqP b a := recEq_symm _ _

theorem readOut_blocks {B B' : List (List PRec)} (hB : Forall2 (fun b b' => b ~ b') B B') (H : BlockDupOK B) :
    readOut B.flatten ~ readOut B'.flatten := by
  classical
  have hp := forall2_flatten_perm hB
  unfold readOut
  rw [hp.length_eq]
  split
  · exact hp
  · -- the winners are the same predicate on both sides
    have hW : (fun p : PRec => decide (Winner (B.flatten.map (·.basic)) p.basic)) =
        (fun p : PRec => decide (Winner (B'.flatten.map (·.basic)) p.basic)) := by
      funext p
      rw [decide_eq_decide]
      exact winner_perm (hp.map _) p.basic
    have hk : keptP B.flatten ~ keptP B'.flatten := by
      unfold keptP
      rw [← hW, List.filter_flatten, List.filter_flatten]
      apply firstWins_blocks eqP eqP_symm
      · exact forall2_map _ _ hB (fun a b hab => hab.filter _)
      · intro b hb x hx y hy hxy
        obtain ⟨b0, hb0, rfl⟩ := List.mem_map.mp hb
        exact H b0 hb0 x (List.mem_filter.mp hx).1 y (List.mem_filter.mp hy).1 hxy
    rw [cTP_perm hk, cGP_perm hk]
    exact hk.map _

/-- **`specRecords` is invariant under block-wise permutations** (of a stream in which, inside one block, records
    that `__eq__` identifies are identical) -/
theorem specRecords_blocks (c : Nat) {B B' : List (List PRec)} (hB : Forall2 (fun b b' => b ~ b') B B')
    (H : BlockDupOK B) : specRecords c B.flatten ~ specRecords c B'.flatten := by
  have hp := forall2_flatten_perm hB
  unfold specRecords
  apply flatMap_perm_keys (keysOf_perm _ (hp.filter _))
  intro r _
  refine Perm.filter _ ?_
  rw [List.filter_flatten, List.filter_flatten]
  apply readOut_blocks
  · exact forall2_map _ _ hB (fun a b hab => hab.filter _)
  · intro b hb x hx y hy hxy
    obtain ⟨b0, hb0, rfl⟩ := List.mem_map.mp hb
    exact H b0 hb0 x (List.mem_filter.mp hx).1 y (List.mem_filter.mp hy).1 hxy

end IsoVerif.Lemmas.C12
