/-
Lemmas for the natural sort key of `merge_files` (C06): linear comparisons, lexicographic lifting, the
alternation invariant of `re.split('(\d+)', s)`.
-/
import IsoVerif.Model.Schedule
import IsoVerif.Lemmas.Schedule

namespace IsoVerif.Lemmas.C06
open IsoVerif.Model.C06

/-- an `Ordering`-valued comparison that is a linear order -/
structure LinCmp {α : Type} (cmp : α → α → Ordering) : Prop where
  eq_iff : ∀ a b, cmp a b = .eq ↔ a = b
  swap : ∀ a b, cmp b a = (cmp a b).swap
  trans : ∀ a b c, cmp a b = .lt → cmp b c = .lt → cmp a c = .lt

theorem cmpNat_lin : LinCmp cmpNat where
  eq_iff a b := by
    unfold cmpNat
    by_cases h1 : a < b
    · simp [h1]; omega
    · by_cases h2 : a = b
      · simp [h2]
      · simp [h1, h2]
  swap a b := by
    unfold cmpNat
    by_cases h1 : a < b
    · have : ¬ b < a := by omega
      have : ¬ b = a := by omega
      simp [*]
    · by_cases h2 : a = b
      · subst h2; simp
      · have : b < a := by omega
        simp [*]
  trans a b c := by
    unfold cmpNat
    intro h1 h2
    have : a < b := by
      by_cases h : a < b
      · exact h
      · simp [h] at h1; split at h1 <;> simp at h1
    have : b < c := by
      by_cases h : b < c
      · exact h
      · simp [h] at h2; split at h2 <;> simp at h2
    have : a < c := by omega
    simp [this]

theorem lexCmp_self {α : Type} {cmp : α → α → Ordering} (h : LinCmp cmp) : ∀ l : List α, lexCmp cmp l l = .eq
  | [] => rfl
  | a :: as => by
    have : cmp a a = .eq := (h.eq_iff a a).2 rfl
    simp [lexCmp, this, lexCmp_self h as]

theorem lexCmp_lin {α : Type} {cmp : α → α → Ordering} (h : LinCmp cmp) : LinCmp (lexCmp cmp) where
  eq_iff := by
    intro a
    induction a with
    | nil => intro b; cases b <;> simp [lexCmp]
    | cons x xs ih =>
      intro b
      cases b with
      | nil => simp [lexCmp]
      | cons y ys =>
        unfold lexCmp
        cases hxy : cmp x y with
        | eq =>
          have := (h.eq_iff x y).1 hxy
          subst this
          simp [ih ys]
        | lt =>
          have : x ≠ y := by intro e; rw [(h.eq_iff x y).2 e] at hxy; cases hxy
          simp [this]
        | gt =>
          have : x ≠ y := by intro e; rw [(h.eq_iff x y).2 e] at hxy; cases hxy
          simp [this]
  swap := by
    intro a
    induction a with
    | nil => intro b; cases b <;> simp [lexCmp, Ordering.swap]
    | cons x xs ih =>
      intro b
      cases b with
      | nil => simp [lexCmp, Ordering.swap]
      | cons y ys =>
        unfold lexCmp
        rw [h.swap x y]
        cases hxy : cmp x y <;> simp [Ordering.swap, ih ys]
  trans := by
    intro a
    induction a with
    | nil =>
      intro b c h1 h2
      cases b with
      | nil => simp [lexCmp] at h1
      | cons y ys =>
        cases c with
        | nil => simp [lexCmp] at h2
        | cons z zs => simp [lexCmp]
    | cons x xs ih =>
      intro b c h1 h2
      cases b with
      | nil => simp [lexCmp] at h1
      | cons y ys =>
        cases c with
        | nil => simp [lexCmp] at h2
        | cons z zs =>
          unfold lexCmp at h1 h2 ⊢
          cases hxy : cmp x y with
          | gt => simp [hxy] at h1
          | eq =>
            have e := (h.eq_iff x y).1 hxy
            subst e
            simp only [hxy] at h1
            cases hyz : cmp x z with
            | gt => simp [hyz] at h2
            | lt => simp
            | eq =>
              simp only [hyz] at h2 ⊢
              exact ih ys zs h1 h2
          | lt =>
            cases hyz : cmp y z with
            | gt => simp [hyz] at h2
            | eq =>
              have e := (h.eq_iff y z).1 hyz
              subst e
              simp [hxy]
            | lt =>
              have := h.trans x y z hxy hyz
              simp [this]

/-- "not greater" is a total preorder -/
theorem LinCmp.le_total {α : Type} {cmp : α → α → Ordering} (h : LinCmp cmp) (a b : α) :
    cmp a b ≠ .gt ∨ cmp b a ≠ .gt := by
  rw [h.swap a b]
  cases cmp a b <;> simp [Ordering.swap]

theorem LinCmp.le_trans {α : Type} {cmp : α → α → Ordering} (h : LinCmp cmp) (a b c : α)
    (h1 : cmp a b ≠ .gt) (h2 : cmp b c ≠ .gt) : cmp a c ≠ .gt := by
  cases hab : cmp a b with
  | gt => exact absurd hab h1
  | eq =>
    have e := (h.eq_iff a b).1 hab
    subst e; exact h2
  | lt =>
    cases hbc : cmp b c with
    | gt => exact absurd hbc h2
    | eq =>
      have e := (h.eq_iff b c).1 hbc
      subst e; rw [hab]; simp
    | lt => rw [h.trans a b c hab hbc]; simp

/-- total comparison of tokens (a `str` below an `int`): agrees with Python wherever Python does not raise -/
def cmpTokT : Tok → Tok → Ordering
  | .str a, .str b => lexCmp cmpNat a b
  | .num a, .num b => cmpNat a b
  | .str _, .num _ => .lt
  | .num _, .str _ => .gt

theorem cmpTokT_lin : LinCmp cmpTokT where
  eq_iff a b := by
    cases a with
    | str x =>
      cases b with
      | str y => simp only [cmpTokT, (lexCmp_lin cmpNat_lin).eq_iff, Tok.str.injEq]
      | num y => simp [cmpTokT]
    | num x =>
      cases b with
      | str y => simp [cmpTokT]
      | num y => simp only [cmpTokT, cmpNat_lin.eq_iff, Tok.num.injEq]
  swap a b := by
    cases a with
    | str x =>
      cases b with
      | str y => simp only [cmpTokT]; exact (lexCmp_lin cmpNat_lin).swap _ _
      | num y => simp [cmpTokT, Ordering.swap]
    | num x =>
      cases b with
      | str y => simp [cmpTokT, Ordering.swap]
      | num y => simp only [cmpTokT]; exact cmpNat_lin.swap _ _
  trans a b c := by
    cases a <;> cases b <;> cases c <;> simp [cmpTokT]
    · exact (lexCmp_lin cmpNat_lin).trans _ _ _
    · exact cmpNat_lin.trans _ _ _

def cmpKeyT : List Tok → List Tok → Ordering := lexCmp cmpTokT

theorem cmpKeyT_lin : LinCmp cmpKeyT := lexCmp_lin cmpTokT_lin

/-- shape of `re.split('(\d+)', s)`: text, number, text, …, text -/
inductive AltS : List Tok → Prop
  | last (s : List Nat) : AltS [Tok.str s]
  | cons (s : List Nat) (n : Nat) (rest : List Tok) : AltS rest → AltS (Tok.str s :: Tok.num n :: rest)

theorem scan_alt : ∀ (cs : List Char),
    (∀ cur, AltS (scanStr cs cur)) ∧ (∀ n, ∃ n' rest, scanNum cs n = Tok.num n' :: rest ∧ AltS rest)
  | [] => by
    constructor
    · intro cur; simp [scanStr]; exact AltS.last _
    · intro n; exact ⟨n, [Tok.str []], by simp [scanNum], AltS.last _⟩
  | c :: cs => by
    have ih := scan_alt cs
    constructor
    · intro cur
      unfold scanStr
      by_cases hd : c.isDigit = true
      · simp only [hd, if_true]
        obtain ⟨n', rest, e, hr⟩ := ih.2 (digitVal c)
        rw [e]
        exact AltS.cons _ _ _ hr
      · simp only [hd]
        exact ih.1 _
    · intro n
      unfold scanNum
      by_cases hd : c.isDigit = true
      · simp only [hd, if_true]
        exact ih.2 _
      · simp only [hd]
        exact ⟨n, _, rfl, ih.1 _⟩

theorem naturalKey_alt (s : String) : AltS (naturalKey s) := (scan_alt s.toList).1 []

def SameKind : Tok → Tok → Prop
  | .str _, .str _ => True
  | .num _, .num _ => True
  | _, _ => False

theorem cmpTok_same {x y : Tok} (h : SameKind x y) : cmpTok x y = some (cmpTokT x y) := by
  cases x <;> cases y <;> simp_all [SameKind, cmpTok, cmpTokT]

theorem cmpKey_cons {x y : Tok} {as bs : List Tok} (h : SameKind x y) :
    cmpKey (x :: as) (y :: bs) = (match cmpTokT x y with | .eq => cmpKey as bs | o => some o) := by
  by_cases e : x = y
  · subst e
    have : cmpTokT x x = .eq := (cmpTokT_lin.eq_iff _ _).2 rfl
    simp only [cmpKey, if_true, this]
  · have ne : cmpTokT x y ≠ .eq := fun h' => e ((cmpTokT_lin.eq_iff _ _).1 h')
    simp only [cmpKey, e, if_false, cmpTok_same h]
    first | done | (cases h' : cmpTokT x y <;> simp_all)

theorem cmpKeyT_cons (x y : Tok) (as bs : List Tok) :
    cmpKeyT (x :: as) (y :: bs) = (match cmpTokT x y with | .eq => cmpKeyT as bs | o => o) := by
  unfold cmpKeyT
  rw [lexCmp]
  cases cmpTokT x y <;> rfl

/-- on keys of that shape the Python comparison never meets a str/int pair and equals the total comparison -/
theorem cmpKey_eq_of_alt : ∀ {a b : List Tok}, AltS a → AltS b → cmpKey a b = some (cmpKeyT a b) := by
  intro a b ha
  induction ha generalizing b with
  | last s =>
    intro hb
    cases hb with
    | last s' =>
      rw [cmpKey_cons (by simp [SameKind]), cmpKeyT_cons]
      cases cmpTokT (Tok.str s) (Tok.str s') <;> simp [cmpKey, cmpKeyT, lexCmp]
    | cons s' n' rest' hr' =>
      rw [cmpKey_cons (by simp [SameKind]), cmpKeyT_cons]
      cases cmpTokT (Tok.str s) (Tok.str s') <;> simp [cmpKey, cmpKeyT, lexCmp]
  | cons s n rest hr ih =>
    intro hb
    cases hb with
    | last s' =>
      rw [cmpKey_cons (by simp [SameKind]), cmpKeyT_cons]
      cases cmpTokT (Tok.str s) (Tok.str s') <;> simp [cmpKey, cmpKeyT, lexCmp]
    | cons s' n' rest' hr' =>
      rw [cmpKey_cons (by simp [SameKind]), cmpKeyT_cons]
      cases cmpTokT (Tok.str s) (Tok.str s') <;> simp only []
      rw [cmpKey_cons (by simp [SameKind]), cmpKeyT_cons]
      cases cmpTokT (Tok.num n) (Tok.num n') <;> simp only []
      exact ih hr'

theorem keyLe_iff (a b : String) : keyLe a b = true ↔ cmpKeyT (naturalKey a) (naturalKey b) ≠ .gt := by
  unfold keyLe
  rw [cmpKey_eq_of_alt (naturalKey_alt a) (naturalKey_alt b)]
  cases cmpKeyT (naturalKey a) (naturalKey b) <;> simp

end IsoVerif.Lemmas.C06
