/-
C04 (closure `p04chain`) — helper lemmas: `assign_reads_to_models` as a RELATION (which read ends up under which id: an iff, not only
the forward direction of `assignReads_lists`), the read counts after the deletion loop of `drop_novel_chains_reported_elsewhere`, and
the content-based assigner of IsoVerif/Model/ChainAssigner.lean.
-/
import IsoVerif.Model.ChainAssigner
import IsoVerif.Lemmas.ChromosomeModels

namespace IsoVerif.Lemmas.C04
open IsoVerif.Gen IsoVerif.Model IsoVerif.Model.C04

/-! ### `assign_reads_to_models`: exactly which lines it adds -/

theorem mem_foldl_match (read r t : String) (ms : List String) (s : Store) :
    r ∈ readsIn (ms.foldl (fun s m => { s with rcount := amSet s.rcount read (cnt s.rcount read + 1),
                                               readIds := amSet s.readIds m (readsOf s m ++ [read]) }) s).readIds t ↔
      r ∈ readsIn s.readIds t ∨ (r = read ∧ t ∈ ms) := by
  induction ms generalizing s with
  | nil => simp
  | cons m rest ih =>
    simp only [List.foldl_cons]
    rw [ih]
    simp only [readsIn_amSet, readsOf_eq, List.mem_cons]
    by_cases hm : t = m
    · subst hm
      simp only [if_true, List.mem_append, List.mem_singleton]
      constructor
      · rintro ((h | h) | h)
        · exact Or.inl h
        · exact Or.inr ⟨h, Or.inl trivial⟩
        · exact Or.inr ⟨h.1, Or.inr h.2⟩
      · rintro (h | ⟨h1, h2⟩)
        · exact Or.inl (Or.inl h)
        · rcases h2 with _ | h2
          · exact Or.inl (Or.inr h1)
          · exact Or.inr ⟨h1, h2⟩
    · simp only [hm, if_false]
      constructor
      · rintro (h | h)
        · exact Or.inl h
        · exact Or.inr ⟨h.1, Or.inr h.2⟩
      · rintro (h | ⟨h1, h2⟩)
        · exact Or.inl h
        · rcases h2 with h2 | h2
          · exact h2.elim
          · exact Or.inr ⟨h1, h2⟩

/-- one read: it is added under exactly the ids the assigner names, and only when it was unassigned and found consistent -/
theorem mem_readsIn_assignOne (s : Store) (a : AssignIn) (r t : String) :
    r ∈ readsIn (assignOne s a).readIds t ↔
      r ∈ readsIn s.readIds t ∨ (r = a.read ∧ ¬ cnt s.rcount a.read > 0 ∧ a.consistent = true ∧ t ∈ a.matched) := by
  unfold assignOne
  by_cases h1 : cnt s.rcount a.read > 0
  · simp [h1]
  · by_cases h2 : a.consistent = true
    · simp only [h1, if_false, h2, if_true]
      rw [mem_foldl_match]
      split <;> simp
    · simp [h1, h2]

/-- the loop of `assign_reads_to_models` over records with pairwise different read ids -/
theorem mem_readsIn_foldl_assignOne (ins : List AssignIn) (hnd : (ins.map (·.read)).Nodup) (s : Store) (r t : String) :
    r ∈ readsIn (ins.foldl assignOne s).readIds t ↔
      r ∈ readsIn s.readIds t ∨ ∃ a ∈ ins, a.read = r ∧ ¬ cnt s.rcount r > 0 ∧ a.consistent = true ∧ t ∈ a.matched := by
  induction ins generalizing s with
  | nil => simp
  | cons a rest ih =>
    simp only [List.map_cons, List.nodup_cons] at hnd
    simp only [List.foldl_cons]
    rw [ih hnd.2, mem_readsIn_assignOne]
    have hne : ∀ b ∈ rest, b.read = r → r ≠ a.read := by
      intro b hb hbr he
      apply hnd.1
      rw [← he, ← hbr]
      exact List.mem_map.2 ⟨b, hb, rfl⟩
    constructor
    · rintro ((h | ⟨h1, h2, h3, h4⟩) | ⟨b, hb, hbr, hc, h3, h4⟩)
      · exact Or.inl h
      · subst h1
        exact Or.inr ⟨a, by simp, rfl, h2, h3, h4⟩
      · rw [assignOne_rcount_other s a r (hne b hb hbr)] at hc
        exact Or.inr ⟨b, List.mem_cons_of_mem _ hb, hbr, hc, h3, h4⟩
    · rintro (h | ⟨b, hb, hbr, hc, h3, h4⟩)
      · exact Or.inl (Or.inl h)
      · rcases List.mem_cons.1 hb with rfl | hb'
        · exact Or.inl (Or.inr ⟨hbr.symm, by rw [hbr]; exact hc, h3, h4⟩)
        · exact Or.inr ⟨b, hb', hbr, by rw [assignOne_rcount_other s a r (hne b hb' hbr)]; exact hc, h3, h4⟩

theorem foldl_zero_readIds (l : List AssignIn) (s0 : Store) :
    (l.foldl (fun s a => { s with rcount := amSet s.rcount a.read 0 }) s0).readIds = s0.readIds := by
  induction l generalizing s0 with
  | nil => rfl
  | cons a t ih => simp only [List.foldl_cons]; rw [ih]

/-- **`assign_reads_to_models` as a relation.**  After the call a read is listed under an id iff it was listed there before, or the
    storage is not empty, the read was offered, was unassigned, was found consistent and the assigner named that id. -/
theorem mem_readsIn_assignReads (s : Store) (ins : List AssignIn) (hnd : (ins.map (·.read)).Nodup) (r t : String) :
    r ∈ readsIn (s.assignReads ins).readIds t ↔
      r ∈ readsIn s.readIds t ∨
      (s.models ≠ [] ∧ ∃ a ∈ ins, a.read = r ∧ ¬ cnt s.rcount r > 0 ∧ a.consistent = true ∧ t ∈ a.matched) := by
  unfold Store.assignReads
  by_cases hm : s.models = []
  · simp only [hm, List.isEmpty_nil, if_true, ne_eq, not_true_eq_false, false_and, or_false]
    rw [foldl_zero_readIds]
  · have he : s.models.isEmpty = false := by
      cases hms : s.models with
      | nil => exact absurd hms hm
      | cons _ _ => rfl
    simp only [he, Bool.false_eq_true, if_false]
    rw [mem_readsIn_foldl_assignOne ins hnd]
    simp [hm]

/-! ### the content-based assigner -/

theorem mem_modelsAt {ms : List TModel} {ix : List Nat} {m : TModel} (h : m ∈ modelsAt ms ix) : m ∈ ms := by
  simp only [modelsAt, List.mem_filterMap] at h
  obtain ⟨i, _, hi⟩ := h
  exact List.mem_of_getElem? hi

theorem insOf_reads (A : CAssigner) (reads : List String) (ms : List TModel) : (insOf A reads ms).map (·.read) = reads := by
  simp [insOf, relabel, Function.comp_def]

/-- the answers name models of the storage only (`sopScoped`): the real assigner is built from the storage -/
theorem insOf_scoped (A : CAssigner) (reads : List String) (ms : List TModel) :
    ∀ a ∈ insOf A reads ms, ∀ t ∈ a.matched, t ∈ ids ms := by
  intro a ha t ht
  simp only [insOf, List.mem_map] at ha
  obtain ⟨r, _, rfl⟩ := ha
  simp only [relabel, List.mem_map] at ht
  obtain ⟨m, hm, rfl⟩ := ht
  exact List.mem_map.2 ⟨m, mem_modelsAt hm, rfl⟩

/-- **the second assignment as a relation read → (strand, chain).**  With the assigner a function of (read, contents), a read is
    listed under a novel spliced model of chain `k` after the call iff it was before, or it was offered, unassigned, and `k` is the
    chain of a novel spliced model the (consistent) answer names. -/
theorem assignContent_chains (A : CAssigner) (s : Store) (reads : List String) (hnd : reads.Nodup) (hids : (ids s.models).Nodup)
    (r : String) (k : ChainKey) :
    (∃ m ∈ s.models, isSplicedNovel m = true ∧ chainKey m = k ∧
        r ∈ readsIn (s.assignReads (insOf A reads s.models)).readIds m.tid) ↔
      (∃ m ∈ s.models, isSplicedNovel m = true ∧ chainKey m = k ∧ r ∈ readsIn s.readIds m.tid) ∨
      (r ∈ reads ∧ ¬ cnt s.rcount r > 0 ∧ k ∈ ansChains s.models (A r (s.models.map TModel.content))) := by
  have hnd' : ((insOf A reads s.models).map (·.read)).Nodup := by rw [insOf_reads]; exact hnd
  constructor
  · rintro ⟨m, hm, hsn, hk, hr⟩
    rw [mem_readsIn_assignReads _ _ hnd'] at hr
    rcases hr with hr | ⟨_, a, ha, har, hc, hcons, ht⟩
    · exact Or.inl ⟨m, hm, hsn, hk, hr⟩
    · refine Or.inr ?_
      simp only [insOf, List.mem_map] at ha
      obtain ⟨r', hr', rfl⟩ := ha
      simp only [relabel] at har hcons ht
      subst har
      refine ⟨hr', hc, ?_⟩
      unfold ansChains
      rw [if_pos hcons]
      obtain ⟨m', hm', hmt⟩ := List.mem_map.1 ht
      have := eq_of_nodup_ids hids (mem_modelsAt hm') hm hmt
      subst this
      exact mem_reportKeys.2 ⟨m', hm', hsn, hk⟩
  · rintro (⟨m, hm, hsn, hk, hr⟩ | ⟨hr, hc, hk⟩)
    · exact ⟨m, hm, hsn, hk, by rw [mem_readsIn_assignReads _ _ hnd']; exact Or.inl hr⟩
    · unfold ansChains at hk
      split at hk
      · rename_i hcons
        obtain ⟨m, hm, hsn, hkk⟩ := mem_reportKeys.1 hk
        have hms := mem_modelsAt hm
        refine ⟨m, hms, hsn, hkk, ?_⟩
        rw [mem_readsIn_assignReads _ _ hnd']
        refine Or.inr ⟨List.ne_nil_of_mem hms, relabel s.models r (A r (s.models.map TModel.content)), ?_, rfl, hc, hcons,
          List.mem_map.2 ⟨m, hm, rfl⟩⟩
        exact List.mem_map.2 ⟨r, hr, rfl⟩
      · simp at hk

/-! ### `read_assignment_counts` after the deletion loop -/

theorem foldl_dec_cnt (l : List String) (rc : List (String × Int)) (r : String) :
    cnt (l.foldl (fun rc a => amSet rc a (cnt rc a - 1)) rc) r ≤ cnt rc r ∧
    (r ∈ l → cnt (l.foldl (fun rc a => amSet rc a (cnt rc a - 1)) rc) r ≤ cnt rc r - 1) ∧
    (r ∉ l → cnt (l.foldl (fun rc a => amSet rc a (cnt rc a - 1)) rc) r = cnt rc r) := by
  induction l generalizing rc with
  | nil => simp
  | cons a t ih =>
    simp only [List.foldl_cons]
    obtain ⟨i1, i2, i3⟩ := ih (amSet rc a (cnt rc a - 1))
    have h0 : cnt (amSet rc a (cnt rc a - 1)) r = if r = a then cnt rc a - 1 else cnt rc r := cnt_amSet _ _ _ _
    by_cases h : r = a
    · subst h
      simp only [if_true] at h0
      refine ⟨by clear i2 i3; omega, fun _ => by clear i2 i3; omega, fun hn => absurd (List.mem_cons_self) hn⟩
    · simp only [h, if_false] at h0
      refine ⟨by clear i2 i3; omega, fun hm => ?_, fun hn => ?_⟩
      · have hrt : r ∈ t := by
          rcases List.mem_cons.1 hm with h' | h'
          · exact absurd h' h
          · exact h'
        have := i2 hrt
        clear i2 i3
        omega
      · have hrt : r ∉ t := fun x => hn (List.mem_cons_of_mem _ x)
        rw [i3 hrt, h0]

/-- `delete_from_storage`: the count of every read of the deleted model goes down by at least one, no other count moves -/
theorem delete_rcount {s s1 : Store} {tid : String} (h : s.deleteFromStorage tid = some s1) (r : String) :
    cnt s1.rcount r ≤ cnt s.rcount r ∧ (r ∈ readsIn s.readIds tid → cnt s1.rcount r ≤ cnt s.rcount r - 1) ∧
    (r ∉ readsIn s.readIds tid → cnt s1.rcount r = cnt s.rcount r) ∧
    (∀ t, readsIn s1.readIds t = if t = tid then [] else readsIn s.readIds t) := by
  unfold Store.deleteFromStorage at h
  split at h
  · simp only [Option.some.injEq] at h
    subst h
    exact ⟨(foldl_dec_cnt _ _ r).1, (foldl_dec_cnt _ _ r).2.1, (foldl_dec_cnt _ _ r).2.2, fun t => readsIn_amErase _ _ _⟩
  · simp at h

/-- the deletion loop of `drop_novel_chains_reported_elsewhere` and `read_assignment_counts` -/
theorem dropLoop_rcount (reported : List ChainKey) (ms : List TModel) (s : Store) (kept : List TModel) (s' : Store)
    (kept' : List TModel) (h : filterLoopG (dropDec reported) ms s kept = some (s', kept')) (r : String) :
    cnt s'.rcount r ≤ cnt s.rcount r ∧
    ((∀ m ∈ ms, keepModel reported m = false → r ∉ readsIn s.readIds m.tid) → cnt s'.rcount r = cnt s.rcount r) ∧
    ((ids ms).Nodup → ∀ m ∈ ms, keepModel reported m = false → r ∈ readsIn s.readIds m.tid →
        cnt s'.rcount r ≤ cnt s.rcount r - 1) := by
  induction ms generalizing s kept with
  | nil =>
    simp only [filterLoopG, Option.some.injEq, Prod.mk.injEq] at h
    obtain ⟨rfl, _⟩ := h
    exact ⟨Int.le_refl _, fun _ => rfl, fun _ m hm => by simp at hm⟩
  | cons m t ih =>
    simp only [filterLoopG, dropDec] at h
    cases hb : (isSplicedNovel m && decide (chainKey m ∈ reported)) with
    | false =>
      simp only [hb, Bool.not_false] at h
      have hk : keepModel reported m = true := by simp [keepModel, hb]
      obtain ⟨i1, i2, i3⟩ := ih _ _ h
      refine ⟨i1, fun hall => i2 (fun x hx => hall x (List.mem_cons_of_mem _ hx)), fun hnd x hx hkx hrx => ?_⟩
      simp only [ids, List.map_cons, List.nodup_cons] at hnd
      rcases List.mem_cons.1 hx with rfl | hx'
      · rw [hk] at hkx; simp at hkx
      · exact i3 hnd.2 x hx' hkx hrx
    | true =>
      simp only [hb, Bool.not_true] at h
      have hk : keepModel reported m = false := by simp [keepModel, hb]
      split at h
      · simp at h
      · rename_i s1 hd
        obtain ⟨d1, d2, d3, d4⟩ := delete_rcount hd r
        obtain ⟨i1, i2, i3⟩ := ih _ _ h
        refine ⟨Int.le_trans i1 d1, fun hall => ?_, fun hnd x hx hkx hrx => ?_⟩
        · rw [i2 ?_, d3 (hall m (by simp) hk)]
          intro x hx hkx
          rw [d4]
          split
          · simp
          · exact hall x (List.mem_cons_of_mem _ hx) hkx
        · simp only [ids, List.map_cons, List.nodup_cons] at hnd
          rcases List.mem_cons.1 hx with rfl | hx'
          · have := d2 hrx
            clear d2 d3 i2 i3 ih
            omega
          · have hne : x.tid ≠ m.tid := by
              intro e
              apply hnd.1
              rw [← e]
              exact List.mem_map.2 ⟨x, hx', rfl⟩
            have := i3 hnd.2 x hx' hkx (by rw [d4, if_neg hne]; exact hrx)
            clear d2 d3 i2 i3 ih
            omega

/-- … for the step itself -/
theorem dropReported_rcount {s s' : Store} {reported rep' : List ChainKey} (h : s.dropReported reported = some (s', rep'))
    (r : String) :
    cnt s'.rcount r ≤ cnt s.rcount r ∧
    ((∀ m ∈ s.models, keepModel reported m = false → r ∉ readsIn s.readIds m.tid) → cnt s'.rcount r = cnt s.rcount r) ∧
    ((ids s.models).Nodup → ∀ m ∈ s.models, keepModel reported m = false → r ∈ readsIn s.readIds m.tid →
        cnt s'.rcount r ≤ cnt s.rcount r - 1) := by
  unfold Store.dropReported at h
  split at h
  · simp at h
  · rename_i s1 kept hl
    simp only [Option.some.injEq, Prod.mk.injEq] at h
    obtain ⟨rfl, _⟩ := h
    exact dropLoop_rcount _ _ _ _ _ _ hl r

/-! ### the chromosome run with the computed assigner -/

theorem regionHead_congr (next : Nat → Nat) (cs cs' : ChrState) (r : RegionIn) (h1 : cs.detected = cs'.detected)
    (h2 : cs.idv = cs'.idv) : regionHead next cs r = regionHead next cs' r := by
  unfold regionHead
  rw [h1, h2]

/-- the tail of the current `process()` with the computed assigner: the storage of the second assignment, what is dumped -/
theorem regionTailC_fixed_spec {A : CAssigner} {reported rep' : ModelMap} {r : RegionIn} {s5 s : Store}
    (h : regionTailC .joinEarlier A reported r s5 = some (s, rep')) :
    ∃ s6 final em, s5.dropJoin reported r.span = some (s6, final, rep') ∧ earlierModels reported r.span = some em ∧
      s6.models = final ++ em ∧ s.models = final.map (fun m => { m with gene := r.newGene m }) ∧
      s.readIds = (s6.assignReads (insOf A (r.ins2.map (·.read)) s6.models)).readIds := by
  unfold regionTailC at h
  simp only at h
  split at h
  · simp at h
  · rename_i s6 f0 r0 hd
    unfold regionTail at h
    simp only [hd, Option.some.injEq, Prod.mk.injEq] at h
    obtain ⟨rfl, rfl⟩ := h
    obtain ⟨_, _, em, s', he, hms, _⟩ := dropJoin_spec hd
    exact ⟨s6, f0, em, hd, he, hms, rfl, rfl⟩

theorem regionTailC_orig_spec {A : CAssigner} {reported rep' : ModelMap} {r : RegionIn} {s5 s : Store}
    (h : regionTailC .none A reported r s5 = some (s, rep')) :
    rep' = reported ∧ s.models = s5.models.map (fun m => { m with gene := r.newGene m }) ∧
    s.readIds = (s5.assignReads (insOf A (r.ins2.map (·.read)) s5.models)).readIds := by
  unfold regionTailC at h
  simp only at h
  unfold regionTail at h
  simp only [Option.some.injEq, Prod.mk.injEq] at h
  obtain ⟨rfl, rfl⟩ := h
  exact ⟨rfl, by simp [assignReads_models], rfl⟩

/-- the joiner rewrites gene ids only: id, novelty, chain of a model stay -/
theorem exists_mem_map_gene (g : TModel → String) (ms : List TModel) (s : Store) (r : String) (k : ChainKey) :
    (∃ m ∈ ms.map (fun m => { m with gene := g m }), isSplicedNovel m = true ∧ chainKey m = k ∧ r ∈ readsIn s.readIds m.tid) ↔
    (∃ m ∈ ms, isSplicedNovel m = true ∧ chainKey m = k ∧ r ∈ readsIn s.readIds m.tid) := by
  constructor
  · rintro ⟨m, hm, h1, h2, h3⟩
    obtain ⟨m0, hm0, rfl⟩ := List.mem_map.1 hm
    exact ⟨m0, hm0, h1, h2, h3⟩
  · rintro ⟨m, hm, h1, h2, h3⟩
    exact ⟨{ m with gene := g m }, List.mem_map.2 ⟨m, hm, rfl⟩, h1, h2, h3⟩

theorem exists_mem_append {α} (a b : List α) (P : α → Prop) : (∃ m ∈ a ++ b, P m) ↔ (∃ m ∈ a, P m) ∨ (∃ m ∈ b, P m) := by
  constructor
  · rintro ⟨m, hm, hp⟩
    rcases List.mem_append.1 hm with h | h
    · exact Or.inl ⟨m, h, hp⟩
    · exact Or.inr ⟨m, h, hp⟩
  · rintro (⟨m, h, hp⟩ | ⟨m, h, hp⟩)
    · exact ⟨m, List.mem_append_left _ h, hp⟩
    · exact ⟨m, List.mem_append_right _ h, hp⟩

/-- the run with the computed assigner IS a run of `runChromosome` (on records that carry the computed answers): every theorem of
    Props/C04Chromosome.lean about `runChromosomeFixed` speaks about it -/
theorem regionTailC_eq (v : Repair) (A : CAssigner) (reported : ModelMap) (r : RegionIn) (s5 : Store) :
    ∃ ins, regionTailC v A reported r s5 = regionTail v reported { r with ins2 := ins } s5 := by
  cases v with
  | none => exact ⟨_, rfl⟩
  | dropOnly =>
    cases hd : s5.dropReported (chainKeys (idMapOf reported)) with
    | none => exact ⟨r.ins2, by simp only [regionTailC, regionTail, hd]⟩
    | some p => exact ⟨insOf A (r.ins2.map (·.read)) p.1.models, by simp only [regionTailC, hd]⟩
  | renameCopy =>
    cases hd : s5.dropKeep (idMapOf reported) with
    | none => exact ⟨r.ins2, by simp only [regionTailC, regionTail, hd]⟩
    | some p => exact ⟨insOf A (r.ins2.map (·.read)) p.1.models, by simp only [regionTailC, hd]⟩
  | joinEarlier =>
    cases hd : s5.dropJoin reported r.span with
    | none => exact ⟨r.ins2, by simp only [regionTailC, regionTail, hd]⟩
    | some p => exact ⟨insOf A (r.ins2.map (·.read)) p.1.models, by simp only [regionTailC, hd]⟩

theorem processRegionC_eq (v : Repair) (A : CAssigner) (next : Nat → Nat) (cs : ChrState) (r : RegionIn) :
    ∃ ins, processRegionC v A next cs r = processRegion v next cs { r with ins2 := ins } := by
  unfold processRegionC processRegion
  cases hh : regionHead next cs r with
  | none => exact ⟨r.ins2, by rw [show regionHead next cs { r with ins2 := r.ins2 } = regionHead next cs r from rfl, hh]⟩
  | some p =>
    obtain ⟨st2, s5⟩ := p
    obtain ⟨ins, hins⟩ := regionTailC_eq v A cs.reported r s5
    refine ⟨ins, ?_⟩
    rw [show regionHead next cs { r with ins2 := ins } = regionHead next cs r from rfl, hh]
    simp only []
    rw [hins]
    rfl

theorem runChromosomeC_is_run (v : Repair) (A : CAssigner) (next : Nat → Nat) (regs : List RegionIn) (cs : ChrState)
    (acc : List Store) :
    ∃ regs', regs'.length = regs.length ∧ runChromosome v next regs' cs acc = runChromosomeC v A next regs cs acc := by
  induction regs generalizing cs acc with
  | nil => exact ⟨[], rfl, rfl⟩
  | cons r t ih =>
    obtain ⟨ins, hins⟩ := processRegionC_eq v A next cs r
    cases hp : processRegionC v A next cs r with
    | none =>
      refine ⟨{ r with ins2 := ins } :: t, by simp, ?_⟩
      simp only [runChromosome, runChromosomeC, hp, ← hins]
    | some p =>
      obtain ⟨cs', s⟩ := p
      obtain ⟨regs', hl, hr⟩ := ih cs' (acc ++ [s])
      refine ⟨{ r with ins2 := ins } :: regs', by simp [hl], ?_⟩
      simp only [runChromosome, runChromosomeC, hp, ← hins, hr]

/-! ### decidable pieces of the residual predicate of Props/C04Chain.lean -/

/-- equality of two key lists as sets -/
def sameKeys (a b : List ChainKey) : Bool := a.all (fun k => decide (k ∈ b)) && b.all (fun k => decide (k ∈ a))

theorem sameKeys_iff {a b : List ChainKey} (h : sameKeys a b = true) (k : ChainKey) : k ∈ a ↔ k ∈ b := by
  simp only [sameKeys, Bool.and_eq_true, List.all_eq_true, decide_eq_true_eq] at h
  exact ⟨h.1 k, h.2 k⟩

/-- the local copies the step withholds -/
def withheld (keys : List ChainKey) (s5 : Store) : List TModel := s5.models.filter (fun m => !keepModel keys m)

/-- the reads listed under a withheld copy -/
def freedReads (keys : List ChainKey) (s5 : Store) : List String := (withheld keys s5).flatMap (fun m => readsIn s5.readIds m.tid)

theorem mem_freedReads {keys : List ChainKey} {s5 : Store} {r : String} :
    r ∈ freedReads keys s5 ↔ ∃ m ∈ s5.models, keepModel keys m = false ∧ r ∈ readsIn s5.readIds m.tid := by
  simp [freedReads, withheld, List.mem_flatMap, List.mem_filter, and_assoc]

/-- `transcript_read_ids` names stored models only (the decidable form of `R2TInv`) -/
def listsOnlyModels (s : Store) : Bool := s.readIds.all (fun p => p.2.isEmpty || decide (p.1 ∈ ids s.models))

theorem listsOnlyModels_spec {s : Store} (h : listsOnlyModels s = true) :
    ∀ t, t ∉ ids s.models → readsIn s.readIds t = [] := by
  intro t ht
  unfold readsIn
  cases hg : amGet? s.readIds t with
  | none => rfl
  | some l =>
    have hmem := amGet?_mem hg
    simp only [listsOnlyModels, List.all_eq_true, Bool.or_eq_true, decide_eq_true_eq, List.isEmpty_iff] at h
    rcases h _ hmem with e | e
    · simpa using e
    · exact absurd e ht

end IsoVerif.Lemmas.C04
