/-
Helper lemmas for C05 (growth): experiments made of several BAM files (`Model/RegionsMulti.lean`).
Composition of the C12 merger lemmas (`Lemmas/BamMerge.lean`, `Lemmas/BamOrder.lean`) with the C05 storage /
splitting lemmas (`Lemmas/Regions.lean`, `Props/C05.lean`).
-/
import IsoVerif.Model.RegionsMulti
import IsoVerif.Lemmas.Regions
import IsoVerif.Lemmas.BamMerge
import IsoVerif.Lemmas.BamOrder
import IsoVerif.Lemmas.BamClusters
import IsoVerif.Props.C05

namespace IsoVerif.Lemmas.RegionsMulti
open IsoVerif.Gen IsoVerif.Model IsoVerif.Model.Regions IsoVerif.Model.RegionsMulti IsoVerif.Lemmas.Regions
open List

/-! ### records, fetch -/

/-- what pysam's `fetch(chr, r.1, r.2 + 1)` keeps -/
def inR (r : Iv) (b : C12.Aln) : Bool := decide (b.start ≤ r.2) && decide (r.1 ≤ b.stop - 1)

theorem fetch_eq (r : Iv) (f : List C12.Aln) : C12.fetch r f = f.filter (inR r) := rfl

theorem ov_full (rest : Nat → Aln) (r : Iv) (b : C12.Aln) : overlaps r (full rest b).iv = inR r b := by
  rw [Bool.eq_iff_iff, overlaps_true_iff]
  simp [inR, Aln.iv, full]

/-- the files of one chromosome of an experiment: every file coordinate-sorted (by start; nothing about ends or
    ties), every record with at least one reference base and inside the reference of length `L` -/
def ValidFiles (files : List (List C12.Aln)) (L : Int) : Prop :=
  (∀ f ∈ files, Lemmas.C12.SortedStart f) ∧ ∀ a ∈ files.flatten, 0 ≤ a.start ∧ a.start < a.stop ∧ a.stop ≤ L

theorem fetch_whole {files : List (List C12.Aln)} {L : Int} (h : ValidFiles files L) :
    files.map (C12.fetch (0, L)) = files := by
  have hf : ∀ f ∈ files, C12.fetch (0, L) f = id f := by
    intro f hf
    unfold C12.fetch
    show List.filter _ f = f
    rw [List.filter_eq_self]
    intro a ha
    have := h.2 a (List.mem_flatten.2 ⟨f, hf, ha⟩)
    simp only [Bool.and_eq_true, decide_eq_true_eq]
    omega
  rw [List.map_congr_left hf, List.map_id]

theorem scan_eq {files : List (List C12.Aln)} {L : Int} (rest : Nat → Aln) (h : ValidFiles files L) :
    scanStream rest files L = (C12.merge files).map (label rest) := by
  unfold scanStream regionStream
  rw [fetch_whole h]

theorem scan_valid {files : List (List C12.Aln)} {L : Int} (rest : Nat → Aln) (h : ValidFiles files L) :
    Props.C05.ValidInput ((scanStream rest files L).map Prod.snd) := by
  rw [scan_eq rest h]
  constructor
  · unfold SortedByStart
    rw [List.map_map, List.pairwise_map]
    exact (Lemmas.C12.merge_sorted_aux files h.1).imp (fun hxy => by simpa [label, full] using hxy)
  · intro x hx
    rw [List.map_map] at hx
    obtain ⟨e, he, rfl⟩ := List.mem_map.1 hx
    have hmem : e.2 ∈ files.flatten :=
      (Lemmas.C12.merge_perm_aux files).subset (List.mem_map.2 ⟨e, he, rfl⟩)
    have := h.2 e.2 hmem
    simp only [WFA, Function.comp, label, full]
    omega

/-! ### the collector loop on pairs simulates the loop on alignments -/

def toP (st : MPState) : PState := ⟨st.store.base, st.out.map (·.base), st.stats⟩

theorem toP_step (st : MPState) (e : FAln) : toP (mProcessStep st e) = processStep (toP st) e.2 := by
  unfold mProcessStep processStep toP
  by_cases h : notAdjacent st.store.base.region e.2 = true
  · simp [h, MStore.add, MStore.empty]
  · simp [h, MStore.add]

theorem toP_foldl (l : List FAln) (st : MPState) :
    toP (l.foldl mProcessStep st) = (l.map Prod.snd).foldl processStep (toP st) := by
  induction l generalizing st with
  | nil => rfl
  | cons e l ih => simp only [List.foldl_cons, List.map_cons, ih, toP_step]

theorem toP_init : toP MPState.init = PState.init := rfl

theorem stores_base (l : List FAln) : (mProcessStores l).map (·.base) = processStores (l.map Prod.snd) := by
  unfold mProcessStores processStores
  rw [← toP_init, ← toP_foldl]
  generalize l.foldl mProcessStep MPState.init = st
  unfold mProcessFinish processFinish toP
  by_cases h : st.store.base.region.isSome = true
  · simp [h]
  · simp [h]

theorem stats_eq (l : List FAln) : mProcessStats l = processStats (l.map Prod.snd) := by
  unfold mProcessStats processStats
  rw [← toP_init, ← toP_foldl]
  rfl

/-- the stored pairs are the stored alignments with their file indices -/
structure MInv (st : MPState) : Prop where
  outOk : ∀ ms, ms ∈ st.out → ms.pairs.map Prod.snd = ms.base.alns
  curOk : st.store.pairs.map Prod.snd = st.store.base.alns
  curNone : st.store.base.region = none → st.store.pairs = []

theorem mInv_init : MInv MPState.init := ⟨fun _ h => (by cases h), rfl, fun _ => rfl⟩

theorem mInv_step {st : MPState} (h : MInv st) (e : FAln) : MInv (mProcessStep st e) := by
  unfold mProcessStep
  split
  · refine ⟨?_, ?_, ?_⟩
    · intro ms hms
      rcases List.mem_append.1 hms with hms | hms
      · exact h.outOk ms hms
      · simp at hms; subst hms; exact h.curOk
    · simp [MStore.add, MStore.empty, Store.add, Store.empty]
    · intro hn; simp [MStore.add, Store.add] at hn
  · refine ⟨h.outOk, ?_, ?_⟩
    · simp [MStore.add, Store.add, h.curOk]
    · intro hn; simp [MStore.add, Store.add] at hn

theorem flat_step (st : MPState) (e : FAln) :
    ((mProcessStep st e).out.map (·.pairs)).flatten ++ (mProcessStep st e).store.pairs =
      (st.out.map (·.pairs)).flatten ++ st.store.pairs ++ [e] := by
  unfold mProcessStep
  split
  · simp [MStore.add, MStore.empty]
  · simp [MStore.add]

theorem mFold_spec (l : List FAln) (st : MPState) (h : MInv st) :
    MInv (l.foldl mProcessStep st) ∧
    ((l.foldl mProcessStep st).out.map (·.pairs)).flatten ++ (l.foldl mProcessStep st).store.pairs =
      (st.out.map (·.pairs)).flatten ++ st.store.pairs ++ l := by
  induction l generalizing st with
  | nil => exact ⟨h, by simp⟩
  | cons e l ih =>
    obtain ⟨h1, h2⟩ := ih (mProcessStep st e) (mInv_step h e)
    refine ⟨h1, ?_⟩
    simp only [List.foldl_cons]
    rw [h2, flat_step]
    simp

/-- every forwarded storage holds its alignments with their indices; nothing of the stream is lost or repeated -/
theorem mStores_spec (l : List FAln) :
    (∀ ms, ms ∈ mProcessStores l → ms.pairs.map Prod.snd = ms.base.alns) ∧
    ((mProcessStores l).map (·.pairs)).flatten = l := by
  obtain ⟨h1, h2⟩ := mFold_spec l MPState.init mInv_init
  unfold mProcessStores mProcessFinish
  generalize l.foldl mProcessStep MPState.init = st at h1 h2
  have h2' : (st.out.map (·.pairs)).flatten ++ st.store.pairs = l := by simpa [MPState.init, MStore.empty] using h2
  cases hr : st.store.base.region with
  | none =>
    simp only [Option.isSome_none, Bool.false_eq_true, if_false]
    refine ⟨h1.outOk, ?_⟩
    have := h1.curNone hr
    rw [this] at h2'
    simpa using h2'
  | some R =>
    simp only [Option.isSome_some, if_true]
    refine ⟨?_, ?_⟩
    · intro ms hms
      rcases List.mem_append.1 hms with hms | hms
      · exact h1.outOk ms hms
      · simp at hms; subst hms; exact h1.curOk
    · simpa using h2'

/-! ### what a storage is forwarded for -/

/-- the sub-regions a storage is forwarded for: the cluster region itself when `split_coverage_regions` returns
    one region, else what it returns -/
def subRegionsOf (s : Store) : List Iv :=
  match s.region with
  | none => []
  | some R =>
    match splitCoverageRegions R s.alns.length s.cov with
    | none => []
    | some [_] => [R]
    | some regs => regs

theorem mapRegionsM_of_forall {get : Iv → Option (List FAln)} {f : Iv → List FAln} :
    ∀ (regs : List Iv), (∀ r, r ∈ regs → get r = some (f r)) →
      mapRegionsM get regs = some (regs.map (fun r => (r, f r))) := by
  intro regs
  induction regs with
  | nil => intro _; rfl
  | cons r rs ih =>
    intro h
    simp only [mapRegionsM, h r (by simp), ih (fun r' hr' => h r' (by simp [hr'])), List.map_cons]

theorem forwardM_of {m : Mode} {rest : Nat → Aln} {files : List (List C12.Aln)} {ms : MStore} {R : Iv} {regs : List Iv}
    {g : Iv → List FAln} (hreg : ms.base.region = some R)
    (hsplit : splitCoverageRegions R ms.base.alns.length ms.base.cov = some regs)
    (hall : getAlignmentsM m rest files ms none = some (g R))
    (hsub : ∀ r, r ∈ regs → getAlignmentsM m rest files ms (some r) = some (g r)) :
    forwardM m rest files ms = some ((subRegionsOf ms.base).map (fun r => (r, g r))) := by
  unfold forwardM subRegionsOf
  rw [hreg]
  simp only [hsplit]
  match regs, hsub with
  | [], _ => rfl
  | [r], _ => simp [hall]
  | r :: r' :: rs, hsub => exact mapRegionsM_of_forall (get := fun r => getAlignmentsM m rest files ms (some r)) _ hsub

theorem collectStoresM_of_forall {f : MStore → Option (List (Iv × List FAln))} {g : MStore → List (Iv × List FAln)} :
    ∀ (ss : List MStore), (∀ s, s ∈ ss → f s = some (g s)) → collectStoresM f ss = some (ss.flatMap g) := by
  intro ss
  induction ss with
  | nil => intro _; rfl
  | cons s ss ih =>
    intro h
    simp only [collectStoresM, h s (by simp), ih (fun s' hs' => h s' (by simp [hs'])), List.flatMap_cons]

/-- everything the C05 theorems say about one forwarded storage of a valid stream -/
structure StoreFacts (s : Store) (R : Iv) (regs : List Iv) : Prop where
  built : s = buildStore s.alns
  sorted : SortedByStart s.alns
  wf : ∀ x, x ∈ s.alns → WFA x
  reg : s.region = some R
  split : splitCoverageRegions R s.alns.length s.cov = some regs
  tiles : Props.C05.Tiles R regs
  hull : ∀ x, x ∈ s.alns → R.1 ≤ x.start ∧ x.start ≤ x.stop - 1 ∧ x.stop - 1 ≤ R.2
  lo : ∃ x, x ∈ s.alns ∧ x.start = R.1
  hi : ∃ x, x ∈ s.alns ∧ x.stop - 1 = R.2

theorem storeFacts {A : List Aln} (h : Props.C05.ValidInput A) {s : Store} (hs : s ∈ processStores A) :
    ∃ R regs, StoreFacts s R regs := by
  obtain ⟨hb, hflat, _⟩ := processStores_spec A h.1 h.2
  obtain ⟨hbuilt, hne⟩ := hb s hs
  obtain ⟨_, R, regs, hreg, hsplit, htiles, hhull⟩ := Props.C05.forward_eq .bam A h s hs
  obtain ⟨S1, S2, hS⟩ := List.append_of_mem hs
  have hall : A = (S1.map (·.alns)).flatten ++ s.alns ++ (S2.map (·.alns)).flatten := by
    rw [← hflat, hS]; simp
  have hsub : ∀ x, x ∈ s.alns → x ∈ A := by
    intro x hx; rw [hall]; simp [hx]
  have hcs : SortedByStart s.alns := by
    have := h.1
    unfold SortedByStart at this ⊢
    rw [hall, List.pairwise_append, List.pairwise_append] at this
    exact this.1.2.1
  have hR : (buildStore s.alns).region = some R := by rw [← hbuilt]; exact hreg
  obtain ⟨_, _, hlo, hhi⟩ := buildStore_region_spec hR
  exact ⟨R, regs, hbuilt, hcs, fun x hx => h.2 x (hsub x hx), hreg, hsplit, htiles, hhull, hlo, hhi⟩

theorem subRegionsOf_sub {s : Store} {R : Iv} {regs : List Iv} (hf : StoreFacts s R regs) :
    ∀ r, r ∈ subRegionsOf s → R.1 ≤ r.1 ∧ r.1 ≤ r.2 ∧ r.2 ≤ R.2 := by
  intro r hr
  have hRwf : R.1 ≤ R.2 := by
    obtain ⟨x, hx, hx1⟩ := hf.lo
    have := hf.hull x hx
    omega
  unfold subRegionsOf at hr
  rw [hf.reg] at hr
  simp only [hf.split] at hr
  match regs, hf.tiles, hr with
  | [], _, hr => cases hr
  | [r0], _, hr => simp at hr; subst hr; omega
  | r0 :: r1 :: rs, ht, hr => exact tilesFrom_sub ht.2 r hr

/-- every position of the cluster region lies in one of the sub-regions the storage is forwarded for -/
theorem subRegionsOf_cover {s : Store} {R : Iv} {regs : List Iv} (hf : StoreFacts s R regs) (p : Int)
    (h1 : R.1 ≤ p) (h2 : p ≤ R.2) : ∃ r, r ∈ subRegionsOf s ∧ r.1 ≤ p ∧ p ≤ r.2 := by
  unfold subRegionsOf
  rw [hf.reg]
  simp only [hf.split]
  match regs, hf.tiles with
  | [], ht => exact absurd rfl ht.1
  | [r0], _ => exact ⟨R, by simp, h1, h2⟩
  | r0 :: r1 :: rs, ht => exact tilesFrom_cover ht.2 p h1 h2

/-! ### the in-memory storage on pairs returns the pairs of what it returns on alignments -/

theorem fillIndex_alns {s s' : Store} (h : s.fillIndex = some s') : s'.alns = s.alns := by
  unfold Store.fillIndex at h
  split at h
  · cases h
  · injection h with h; subst h; rfl

theorem filter_pairs_map (p : Aln → Bool) (l : List FAln) :
    (l.filter (fun e => p e.2)).map Prod.snd = (l.map Prod.snd).filter p := by
  rw [List.filter_map]; rfl

theorem sub_filter_eq {p : Aln → Bool} {sub l : List FAln} (hs : sub.Sublist l)
    (h : (sub.map Prod.snd).filter p = (l.map Prod.snd).filter p) :
    sub.filter (fun e => p e.2) = l.filter (fun e => p e.2) := by
  apply (hs.filter _).eq_of_length
  have := congrArg List.length h
  rw [← filter_pairs_map, ← filter_pairs_map, List.length_map, List.length_map] at this
  exact this

theorem memGetM_some {ms : MStore} (hc : ms.pairs.map Prod.snd = ms.base.alns) {r : Iv}
    (h : ms.base.memGet (some r) = some (ms.base.alns.filter (fun a => overlaps r a.iv))) :
    ms.memGet (some r) = some (ms.pairs.filter (fun e => overlaps r e.2.iv)) := by
  have hlen : ms.pairs.length = ms.base.alns.length := by rw [← hc, List.length_map]
  simp only [Store.memGet, Store.memGetOff] at h
  simp only [MStore.memGet]
  by_cases heq : some r = ms.base.region
  · rw [if_pos heq] at h ⊢
    injection h with h
    congr 1
    symm
    apply (List.filter_sublist (l := ms.pairs)).eq_of_length
    have h2 := congrArg List.length h
    rw [← hc, ← filter_pairs_map, List.length_map, List.length_map] at h2
    exact h2.symm
  · rw [if_neg heq] at h ⊢
    cases hfi : ms.base.fillIndex with
    | none => rw [hfi] at h; cases h
    | some s' =>
      rw [hfi] at h
      simp only at h ⊢
      have ha := fillIndex_alns hfi
      cases he : s'.endIdx.get (bin r.1) with
      | none => rw [he] at h; cases h
      | some si =>
        cases hst : s'.startIdx.get (bin r.2 + 1) with
        | none => rw [he, hst] at h; cases h
        | some ei =>
          rw [he, hst] at h
          simp only at h ⊢
          rw [ha] at h
          by_cases hle : ei ≤ ms.base.alns.length
          · rw [if_pos hle] at h
            rw [if_pos (by omega)]
            injection h with h
            congr 1
            apply sub_filter_eq (p := fun a => overlaps r a.iv) ((List.drop_sublist _ _).trans (List.take_sublist _ _))
            rw [List.map_drop, List.map_take, hc]
            exact h
          · rw [if_neg hle] at h; cases h

/-! ### what is handed to `process_alignments_in_region`, per storage and sub-region -/

/-- `--high_memory`: the stored pairs overlapping the sub-region; default mode: the re-fetched, re-merged stream -/
def handed (m : Mode) (rest : Nat → Aln) (files : List (List C12.Aln)) (ms : MStore) (r : Iv) : List FAln :=
  match m with
  | .memory => ms.pairs.filter (fun e => overlaps r e.2.iv)
  | .bam => regionStream rest files r

theorem base_mem {l : List FAln} {ms : MStore} (hms : ms ∈ mProcessStores l) :
    ms.base ∈ processStores (l.map Prod.snd) := by
  rw [← stores_base]; exact List.mem_map_of_mem hms

theorem forwardM_eq (m : Mode) {rest : Nat → Aln} {files : List (List C12.Aln)} {l : List FAln}
    (hA : Props.C05.ValidInput (l.map Prod.snd)) {ms : MStore} (hms : ms ∈ mProcessStores l) :
    forwardM m rest files ms = some ((subRegionsOf ms.base).map (fun r => (r, handed m rest files ms r))) := by
  obtain ⟨R, regs, hf⟩ := storeFacts hA (base_mem hms)
  have hc := (mStores_spec l).1 ms hms
  have hR : (buildStore ms.base.alns).region = some R := by rw [← hf.built]; exact hf.reg
  apply forwardM_of hf.reg hf.split
  · cases m with
    | memory =>
      simp only [getAlignmentsM, MStore.memGet, handed]
      congr 1
      symm
      rw [List.filter_eq_self]
      intro e he
      have hea : e.2 ∈ ms.base.alns := by rw [← hc]; exact List.mem_map_of_mem he
      have := hf.hull e.2 hea
      rw [overlaps_true_iff]; simp only [Aln.iv]; omega
    | bam => simp [getAlignmentsM, hf.reg, handed]
  · intro r hr
    cases m with
    | memory =>
      simp only [getAlignmentsM, handed]
      obtain ⟨hr1, hr2, hr3⟩ := tilesFrom_sub hf.tiles.2 r hr
      have hm := memGet_exact ms.base.alns hf.sorted hf.wf R hR r hr1 hr2 hr3
      rw [← hf.built] at hm
      exact memGetM_some hc hm
    | bam => simp [getAlignmentsM, handed]

theorem collectM_eq (m : Mode) {rest : Nat → Aln} {files : List (List C12.Aln)} {L : Int} (hv : ValidFiles files L) :
    collectM m rest files L = some ((mProcessStores (scanStream rest files L)).flatMap (fun ms =>
      (subRegionsOf ms.base).map (fun r => (r, handed m rest files ms r)))) := by
  unfold collectM
  exact collectStoresM_of_forall _ (fun ms hms => forwardM_eq m (scan_valid rest hv) hms)

/-- records of other clusters never overlap a sub-region of this cluster -/
theorem scan_filter_cluster {l : List FAln} (hA : Props.C05.ValidInput (l.map Prod.snd)) {ms : MStore}
    (hms : ms ∈ mProcessStores l) {R : Iv} {regs : List Iv} (hf : StoreFacts ms.base R regs) {r : Iv}
    (h1 : R.1 ≤ r.1) (h2 : r.2 ≤ R.2) :
    l.filter (fun e => overlaps r e.2.iv) = ms.pairs.filter (fun e => overlaps r e.2.iv) := by
  obtain ⟨hc, hflat⟩ := mStores_spec l
  obtain ⟨_, _, hpw⟩ := processStores_spec _ hA.1 hA.2
  rw [← stores_base] at hpw
  obtain ⟨T1, T2, hT⟩ := List.append_of_mem hms
  rw [hT] at hflat hpw hc
  rw [List.map_append, List.map_cons, List.pairwise_append] at hpw
  obtain ⟨_, hpw2, hpw3⟩ := hpw
  obtain ⟨x1, hx1, hx1'⟩ := hf.lo
  obtain ⟨x2, hx2, hx2'⟩ := hf.hi
  have e1 : ((T1.map (·.pairs)).flatten).filter (fun e => overlaps r e.2.iv) = [] := by
    rw [List.filter_eq_nil_iff]
    intro e he
    obtain ⟨ps, hps, hep⟩ := List.mem_flatten.1 he
    obtain ⟨m1, hm1, rfl⟩ := List.mem_map.1 hps
    have hea : e.2 ∈ m1.base.alns := by
      rw [← hc m1 (by simp [hm1])]; exact List.mem_map_of_mem hep
    have := hpw3 m1.base (List.mem_map_of_mem hm1) ms.base (by simp) e.2 hea x1 hx1
    have : overlaps r e.2.iv = false := by rw [overlaps_false_iff]; simp only [Aln.iv]; omega
    simp [this]
  have e2 : ((T2.map (·.pairs)).flatten).filter (fun e => overlaps r e.2.iv) = [] := by
    rw [List.filter_eq_nil_iff]
    intro e he
    obtain ⟨ps, hps, hep⟩ := List.mem_flatten.1 he
    obtain ⟨m2, hm2, rfl⟩ := List.mem_map.1 hps
    have hea : e.2 ∈ m2.base.alns := by
      rw [← hc m2 (by simp [hm2])]; exact List.mem_map_of_mem hep
    have := (List.pairwise_cons.1 hpw2).1 m2.base (List.mem_map_of_mem hm2) x2 hx2 e.2 hea
    have : overlaps r e.2.iv = false := by rw [overlaps_false_iff]; simp only [Aln.iv]; omega
    simp [this]
  rw [← hflat]
  simp [List.filter_append, e1, e2]

theorem label_idx_snd (rest : Nat → Aln) (l : List C12.Entry) (i : Nat) :
    ((l.map (label rest)).filter (fun e => e.1 == i)).map Prod.snd =
      ((l.filter (fun e => e.1 == i)).map Prod.snd).map (full rest) := by
  induction l with
  | nil => rfl
  | cons e l ih =>
    by_cases h : e.1 = i
    · simp [label, h, ih]
    · simp [label, h, ih]

theorem getD_map_fetch (files : List (List C12.Aln)) (r : Iv) (i : Nat) :
    (files.map (C12.fetch r))[i]?.getD [] = C12.fetch r (files[i]?.getD []) := by
  rw [List.getElem?_map]
  cases files[i]? <;> rfl

/-- **per region and per file**: the alignments handed over with bam index `i` are exactly the records of file `i`
    that `fetch` returns for the region, in file order — in both memory modes -/
theorem handed_spec (m : Mode) {rest : Nat → Aln} {files : List (List C12.Aln)} {L : Int} (hv : ValidFiles files L)
    {ms : MStore} (hms : ms ∈ mProcessStores (scanStream rest files L)) {r : Iv} (hr : r ∈ subRegionsOf ms.base)
    (i : Nat) :
    ((handed m rest files ms r).filter (fun e => e.1 == i)).map Prod.snd =
      (C12.fetch r (files[i]?.getD [])).map (full rest) := by
  cases m with
  | bam =>
    simp only [handed, regionStream]
    rw [label_idx_snd, Lemmas.C12.merge_file_order_aux, getD_map_fetch]
  | memory =>
    have hA := scan_valid rest hv
    obtain ⟨R, regs, hf⟩ := storeFacts hA (base_mem hms)
    obtain ⟨hr1, _, hr3⟩ := subRegionsOf_sub hf r hr
    simp only [handed]
    rw [← scan_filter_cluster hA hms hf hr1 hr3, scan_eq rest hv]
    have e1 : ((C12.merge files).map (label rest)).filter (fun e => overlaps r e.2.iv) =
        ((C12.merge files).filter (fun e => inR r e.2)).map (label rest) := by
      rw [List.filter_map]
      congr 1
      apply List.filter_congr
      intro e _
      simp only [Function.comp, label]
      exact ov_full rest r e.2
    rw [e1, label_idx_snd, List.filter_filter]
    have e2 : (C12.merge files).filter (fun a => (a.1 == i) && inR r a.2) =
        ((C12.merge files).filter (fun e => e.1 == i)).filter (fun e => inR r e.2) := by
      rw [List.filter_filter]
      apply List.filter_congr
      intro e _
      exact Bool.and_comm _ _
    have e3 : ∀ q : List C12.Entry, (q.filter (fun e => inR r e.2)).map Prod.snd = (q.map Prod.snd).filter (inR r) := by
      intro q; rw [List.filter_map]; rfl
    rw [e2, e3, Lemmas.C12.merge_file_order_aux]
    rfl

/-- every record of every file overlaps one of the sub-regions its cluster is forwarded for -/
theorem covered {rest : Nat → Aln} {files : List (List C12.Aln)} {L : Int} (hv : ValidFiles files L)
    {b : C12.Aln} (hb : b ∈ files.flatten) :
    ∃ ms, ms ∈ mProcessStores (scanStream rest files L) ∧ ∃ r, r ∈ subRegionsOf ms.base ∧ inR r b = true := by
  have hA := scan_valid rest hv
  obtain ⟨hc, hflat⟩ := mStores_spec (scanStream rest files L)
  have hmem : b ∈ (C12.merge files).map Prod.snd := (Lemmas.C12.merge_perm_aux files).symm.subset hb
  obtain ⟨e, he, rfl⟩ := List.mem_map.1 hmem
  have hS : label rest e ∈ scanStream rest files L := by
    rw [scan_eq rest hv]; exact List.mem_map_of_mem he
  rw [← hflat] at hS
  obtain ⟨ps, hps, hep⟩ := List.mem_flatten.1 hS
  obtain ⟨ms, hms, rfl⟩ := List.mem_map.1 hps
  obtain ⟨R, regs, hf⟩ := storeFacts hA (base_mem hms)
  have hea : full rest e.2 ∈ ms.base.alns := by
    rw [← hc ms hms]; exact List.mem_map.2 ⟨_, hep, rfl⟩
  have hh := hf.hull _ hea
  simp only [full] at hh
  obtain ⟨r, hr, hr1, hr2⟩ := subRegionsOf_cover hf e.2.start hh.1 (by omega)
  refine ⟨ms, hms, r, hr, ?_⟩
  simp only [inR, Bool.and_eq_true, decide_eq_true_eq]
  omega

/-! ### multisets of pairs from per-index lists -/

theorem count_pair (l : List FAln) (i : Nat) (a : Aln) :
    l.count (i, a) = ((l.filter (fun e => e.1 == i)).map Prod.snd).count a := by
  induction l with
  | nil => rfl
  | cons e l ih =>
    obtain ⟨j, b⟩ := e
    by_cases hj : j = i
    · subst hj
      simp [List.count_cons, ih]
    · simp [ih, hj]

theorem perm_of_idx_eq {l1 l2 : List FAln}
    (h : ∀ i, (l1.filter (fun e => e.1 == i)).map Prod.snd = (l2.filter (fun e => e.1 == i)).map Prod.snd) :
    l1.Perm l2 := by
  rw [List.perm_iff_count]
  intro ⟨i, a⟩
  rw [count_pair, count_pair, h i]

/-! ### `Forall2` over the forwarded list -/

open IsoVerif.Lemmas.C12 (Forall2)

theorem forall2_append {α β : Type} {R : α → β → Prop} {a1 a2 : List α} {b1 b2 : List β}
    (h1 : Forall2 R a1 b1) (h2 : Forall2 R a2 b2) : Forall2 R (a1 ++ a2) (b1 ++ b2) := by
  induction h1 with
  | nil => exact h2
  | cons hab _ ih => exact Forall2.cons hab ih

theorem forall2_map {α β γ : Type} {R : β → γ → Prop} {l : List α} {f : α → β} {g : α → γ}
    (h : ∀ x, x ∈ l → R (f x) (g x)) : Forall2 R (l.map f) (l.map g) := by
  induction l with
  | nil => exact Forall2.nil
  | cons x l ih =>
    exact Forall2.cons (h x (by simp)) (ih (fun y hy => h y (by simp [hy])))

theorem forall2_flatMap {α β γ : Type} {R : β → γ → Prop} {l : List α} {f : α → List β} {g : α → List γ}
    (h : ∀ x, x ∈ l → Forall2 R (f x) (g x)) : Forall2 R (l.flatMap f) (l.flatMap g) := by
  induction l with
  | nil => exact Forall2.nil
  | cons x l ih =>
    simp only [List.flatMap_cons]
    exact forall2_append (h x (by simp)) (ih (fun y hy => h y (by simp [hy])))

/-! ### statistics of the experiment -/

theorem addUnaligned_apply (s : Stats) (unmapped : List Nat) (t : AlignmentType) :
    addUnaligned s unmapped t = if t = AlignmentType.unaligned then s t + unmapped.sum else s t := by
  unfold addUnaligned
  induction unmapped generalizing s with
  | nil => simp
  | cons u us ih =>
    simp only [List.foldl_cons, ih, List.sum_cons]
    by_cases h : t = AlignmentType.unaligned
    · simp [h]; omega
    · simp [h]

theorem mergeFold_apply {γ : Type} (F : γ → Stats) (l : List γ) (s0 : Stats) (t : AlignmentType) :
    (l.foldl (fun s c => statsMerge s (F c)) s0) t = s0 t + (l.map (fun c => F c t)).sum := by
  induction l generalizing s0 with
  | nil => simp
  | cons c l ih =>
    simp only [List.foldl_cons, ih, List.map_cons, List.sum_cons, statsMerge]
    omega

/-! ### tagging files of full alignments -/

theorem full_tag (rest : Nat → Aln) (a : Aln) (n : Nat) (h : rest n = a) : full rest ⟨a.start, a.stop, n⟩ = a := by
  unfold full
  simp only [h]

theorem tagList_full (f pre post : List Aln) :
    (tagList pre.length f).map (full (restOf (pre ++ f ++ post).toArray)) = f := by
  induction f generalizing pre with
  | nil => rfl
  | cons a t ih =>
    simp only [tagList, List.map_cons]
    congr 1
    · apply full_tag
      simp [restOf]
    · have := ih (pre ++ [a])
      simpa [List.append_assoc] using this

theorem tagFiles_full (files : List (List Aln)) (pre post : List Aln) :
    (tagFiles pre.length files).map (fun f => f.map (full (restOf (pre ++ files.flatten ++ post).toArray))) = files := by
  induction files generalizing pre with
  | nil => rfl
  | cons f fs ih =>
    simp only [tagFiles, List.map_cons, List.flatten_cons]
    congr 1
    · have := tagList_full f pre (fs.flatten ++ post)
      simpa [List.append_assoc] using this
    · have := ih (pre ++ f)
      simpa [List.append_assoc] using this

def coords (b : C12.Aln) : Int × Int := (b.start, b.stop)

theorem tagList_coords (n : Nat) (f : List Aln) : (tagList n f).map coords = f.map (fun a => (a.start, a.stop)) := by
  induction f generalizing n with
  | nil => rfl
  | cons a t ih => simp [tagList, coords, ih]

theorem tagFiles_coords (n : Nat) (files : List (List Aln)) :
    (tagFiles n files).flatten.map coords = files.flatten.map (fun a => (a.start, a.stop)) := by
  induction files generalizing n with
  | nil => rfl
  | cons f fs ih => simp [tagFiles, tagList_coords, ih]

theorem validFiles_tag (files : List (List Aln)) (L : Int) (hs : ∀ f, f ∈ files → SortedByStart f)
    (hb : ∀ a, a ∈ files.flatten → 0 ≤ a.start ∧ a.start < a.stop ∧ a.stop ≤ L) :
    ValidFiles (tagFiles 0 files) L := by
  constructor
  · have key : ∀ (n : Nat) (fl : List (List Aln)), (∀ f, f ∈ fl → SortedByStart f) →
        ∀ g, g ∈ tagFiles n fl → Lemmas.C12.SortedStart g := by
      intro n fl
      induction fl generalizing n with
      | nil => intro _ g hg; simp [tagFiles] at hg
      | cons f fs ih =>
        intro hsf g hg
        simp only [tagFiles, List.mem_cons] at hg
        rcases hg with rfl | hg
        · have h1 := hsf f (by simp)
          unfold SortedByStart at h1
          have h2 : (f.map (fun a => (a.start, a.stop))).Pairwise (fun p q => p.1 ≤ q.1) :=
            List.pairwise_map.2 h1
          rw [← tagList_coords n f] at h2
          exact (List.pairwise_map (f := coords) (R := fun p q => p.1 ≤ q.1)).1 h2
        · exact ih _ (fun f' hf' => hsf f' (by simp [hf'])) g hg
    exact key 0 files hs
  · intro b hbm
    have h1 : coords b ∈ (tagFiles 0 files).flatten.map coords := List.mem_map_of_mem hbm
    rw [tagFiles_coords] at h1
    obtain ⟨a, ha, hab⟩ := List.mem_map.1 h1
    have := hb a ha
    simp only [coords, Prod.mk.injEq] at hab
    omega

end IsoVerif.Lemmas.RegionsMulti
