/-
C07: runs that do not start in an empty output folder (leftovers of an earlier run; `--read_assignments` save files):
the lock-removal step of a fresh run, and the fact that a `--read_assignments` run never writes the save files it reads.
-/
import IsoVerif.Lemmas.ResumeRun

namespace IsoVerif.Lemmas.Resume
open IsoVerif.Model.Resume

theorem runActs_evs_sub (as : List Act) (fs : FS) : ∀ e ∈ (runActs as fs).evs, e ∈ eventsOf as := by
  induction as generalizing fs with
  | nil => intro e he; simp [runActs] at he
  | cons a as ih =>
    intro e he
    cases a with
    | ev e0 =>
      simp only [runActs, List.mem_cons] at he
      simp only [eventsOf, List.mem_cons]
      rcases he with rfl | he
      · exact Or.inl rfl
      · exact Or.inr (ih _ e he)
    | exist p =>
      simp only [runActs] at he; simp only [eventsOf]
      split at he
      · exact ih _ e he
      · simp at he
    | load p =>
      simp only [runActs] at he; simp only [eventsOf]
      split at he
      · exact ih _ e he
      · simp at he
    | rm p =>
      simp only [runActs] at he; simp only [eventsOf, List.mem_cons]
      split at he
      · simp only [List.mem_cons] at he
        rcases he with rfl | he
        · exact Or.inl rfl
        · exact Or.inr (ih _ e he)
      · simp at he

theorem runStages_evs_all (T : Path → Bool) (ss : List Stage)
    (h : ∀ s ∈ ss, ∀ fs, ∀ e ∈ eventsOf (s fs), T e.path = true) (fs : FS) :
    ∀ e ∈ (runStages ss fs).evs, T e.path = true := by
  induction ss generalizing fs with
  | nil => intro e he; simp [runStages] at he
  | cons s ss ih =>
    intro e he
    simp only [runStages] at he
    split at he
    · simp only [List.mem_append] at he
      rcases he with he | he
      · exact h s (by simp) fs e (runActs_evs_sub _ _ e he)
      · exact ih (fun s' hs' => h s' (by simp [hs'])) _ e he
    · exact h s (by simp) fs e (runActs_evs_sub _ _ e he)

/-- every path except the save files a `--read_assignments` run reads -/
def notSaves : Path → Bool
  | .info => false
  | .multimap _ => false
  | .save _ => false
  | _ => true

theorem allP_frame (T : Path → Bool) (fs0 : FS) {fs : FS} {es : List Ev} (h : ∀ e ∈ es, T e.path = true)
    (h0 : ∀ p, T p = false → fs p = fs0 p) : AllP (fun fs' => ∀ p, T p = false → fs' p = fs0 p) fs es := by
  induction es generalizing fs with
  | nil => exact h0
  | cons e es ih =>
    refine ⟨h0, ih (fun e' he' => h e' (by simp [he'])) ?_⟩
    intro p hp
    have hne : p ≠ e.path := by intro e'; have := h e (by simp); rw [← e', hp] at this; exact absurd this (by simp)
    simp only [apply]; rw [set_other _ _ hne]; exact h0 p hp

/-! ### the stages of a `--read_assignments` run leave the save files alone -/

theorem rmAll_paths (T : Path → Bool) (L : List Path) (h : ∀ p ∈ L, T p = true) : ∀ e ∈ eventsOf (rmAll L), T e.path = true := by
  rw [eventsOf_rmAll]; intro e he; simp only [List.mem_map] at he; obtain ⟨p, hp, rfl⟩ := he; exact h p hp

theorem lockList_isLock (cfg : Cfg) (fs : FS) : ∀ p ∈ lockList cfg fs, isLock p = true := by
  intro p hp
  simp only [lockList, List.mem_append, List.mem_map, List.mem_filter] at hp
  rcases hp with (⟨hp, _⟩ | ⟨c, _, rfl⟩) | ⟨c, _, rfl⟩
  · split at hp <;> simp only [List.mem_cons, List.not_mem_nil, or_false] at hp
    · subst hp; rfl
    · rcases hp with rfl | rfl <;> rfl
  · rfl
  · rfl

theorem isLock_notSaves {p : Path} (h : isLock p = true) : notSaves p = true := by
  cases p <;> simp_all [isLock, notSaves]

theorem constructChr_T (cfg : Cfg) (rs : Bool) (c : Chr) (fs : FS) :
    (eventsOf (constructChr fixed cfg rs c fs)).all (fun e => Tcon c e.path) = true := by
  by_cases hb : (rs && fs.has (.processed c)) = true
  · simp [constructChr, hb, eventsOf, eventsOf_append, eventsOf_loads_nil]
  · rw [constructChr_fixed cfg rs c fs (by simpa using hb)]
    have h1 := constructBody_T cfg c (tokOf (fs.good .info && refOK cfg fs))
    simp only [constructBody, List.all_append, Bool.and_eq_true] at h1
    have e : eventsOf (Act.load (.multimap c) :: evs (constructHead cfg c) ++ [Act.load (.save c)] ++
        evs (constructTail cfg c (tokOf (fs.good .info && refOK cfg fs)) ++ [Ev.create (.processed c)]))
        = constructHead cfg c ++ (constructTail cfg c (tokOf (fs.good .info && refOK cfg fs)) ++ [Ev.create (.processed c)]) := by
      simp [eventsOf, eventsOf_append]
    rw [e, List.all_append, List.all_append, h1.1, h1.2]
    simp [Tcon, Ev.path]

set_option maxRecDepth 4000 in
theorem stages_notSaves {cfg : Cfg} (wf : WF cfg) (hm : cfg.fromSaves = true) (ord : List Path) (rs sk : Bool) :
    ∀ s ∈ forceClean fixed cfg rs :: stages fixed cfg ord rs sk, ∀ fs, ∀ e ∈ eventsOf (s fs), notSaves e.path = true := by
  intro s hs fs'
  rw [stages_eq] at hs
  simp only [hm, Bool.or_true, restStages, List.mem_cons, List.mem_append, List.mem_map, Bool.true_or, if_true,
    List.not_mem_nil, or_false] at hs
  rcases hs with rfl | rfl | rfl | rfl | rfl | ⟨c, _, rfl⟩ | rfl | rfl | ⟨c, _, rfl⟩ | rfl | rfl
  · -- forceClean
    unfold forceClean; split
    · intro e he; simp [eventsOf] at he
    · exact rmAll_paths _ _ (fun p hp => isLock_notSaves (lockList_isLock cfg fs' p hp))
  · -- params
    intro e he; unfold paramsStage paramsEvs at he
    cases rs <;> simp [fixed, eventsOf, evs] at he <;> rcases he with rfl | rfl | rfl | rfl <;> rfl
  · -- reference unpacked
    intro e he
    have hp := refStage_paths fixed cfg rs fs' e he
    revert hp; cases e.path <;> simp [isRefAux, notSaves]
  · -- read-group split
    intro e he
    unfold rgStage at he
    split at he
    · simp [eventsOf] at he
    · simp only [eventsOf_append, eventsOf_rmAll, eventsOf_evs, List.mem_append, List.mem_map] at he
      rcases he with (⟨p, hp, rfl⟩ | he) | he
      · split at hp <;> simp at hp; subst hp; rfl
      · split at he
        · simp only [eventsOf_evs, List.mem_append, List.mem_map] at he
          rcases he with ⟨c, _, rfl⟩ | ⟨c, _, rfl⟩ <;> rfl
        · simp [eventsOf] at he
      · simp only [List.mem_cons, List.not_mem_nil, or_false] at he; subst he; rfl
  · intro e he; simp [collectPre, eventsOf] at he
  · intro e he; simp [collectChr, eventsOf] at he
  · intro e he; simp [collectPost, eventsOf] at he
  · -- final files opened
    intro e he
    simp only [constructPre, eventsOf, eventsOf_evs] at he
    obtain ⟨s, rfl | rfl⟩ := mem_aggInit he
    · rcases finalOf_cases cfg s with e | e <;> simp only [Ev.path, e] <;> rfl
    · rfl
  · -- model construction
    intro e he
    have hT : Tcon c e.path = true := by
      have := constructChr_T cfg rs c fs'
      simp only [List.all_eq_true] at this
      exact this e he
    revert hT; cases e.path <;> simp [Tcon, notSaves]
  · -- processed locks dropped
    intro e he
    unfold dropStage at he
    split at he
    · rw [eventsOf_rmAll] at he; simp only [List.mem_map, List.mem_filter] at he
      obtain ⟨p, ⟨c, _, rfl⟩, rfl⟩ := he; rfl
    · simp [eventsOf] at he
  · -- merging
    intro e he
    have hT : Tmerge e.path = true := by
      unfold mergeStage at he
      simp only [eventsOf_append, eventsOf_evs, List.mem_append, List.mem_map] at he
      rcases he with (he | he) | ⟨s, _, rfl⟩
      · rw [eventsOf_flatMap] at he; simp only [List.mem_flatMap] at he
        obtain ⟨st, _, he⟩ := he
        exact mergeEv_T (step_mergeEv wf true fs' st e he)
      · exact mergeEv_T (sqMerge_mergeEv wf e he)
      · rcases finalOf_cases cfg s with e | e <;> simp only [Ev.path, e] <;> rfl
    revert hT; cases e.path <;> simp [Tmerge, notSaves]

theorem saves_untouched {cfg : Cfg} (wf : WF cfg) (hm : cfg.fromSaves = true) (ord : List Path) (rs sk : Bool) (fs : FS) :
    ∀ e ∈ (runStages (forceClean fixed cfg rs :: stages fixed cfg ord rs sk) fs).evs, notSaves e.path = true :=
  runStages_evs_all _ _ (stages_notSaves wf hm ord rs sk) fs


/-! ### the lock-removal step of a fresh run -/

theorem lockList_nodup {cfg : Cfg} (wf : WF cfg) (fs : FS) : (lockList cfg fs).Nodup := by
  unfold lockList
  apply nodup_lock_list wf
  refine List.Sublist.trans List.filter_sublist ?_
  split
  · exact List.Sublist.cons _ (List.Sublist.refl _)
  · exact List.Sublist.refl _

theorem lockList_has (cfg : Cfg) (fs : FS) : ∀ p ∈ lockList cfg fs, fs.has p = true := by
  intro p hp
  simp only [lockList, List.mem_append, List.mem_map, List.mem_filter, Bool.and_eq_true] at hp
  rcases hp with (⟨_, hh⟩ | ⟨c, ⟨_, _, hh⟩, rfl⟩) | ⟨c, ⟨_, hh⟩, rfl⟩ <;> exact hh

/-- the file system after the lock removal -/
def cleaned (cfg : Cfg) (fs : FS) : FS := applyAll fs ((lockList cfg fs).map Ev.remove)

theorem cleaned_val (cfg : Cfg) (fs : FS) (p : Path) : cleaned cfg fs p = if p ∈ lockList cfg fs then none else fs p := by
  unfold cleaned; split
  · rename_i h; exact applyAll_remove_mem h
  · rename_i h; exact applyAll_remove_not_mem h

theorem cleaned_other (cfg : Cfg) (fs : FS) {p : Path} (h : isLock p = false) : cleaned cfg fs p = fs p := by
  rw [cleaned_val]; split
  · rename_i hm; have := lockList_isLock cfg fs p hm; simp [h] at this
  · rfl

theorem cleaned_has_le (cfg : Cfg) (fs : FS) (p : Path) (h : (cleaned cfg fs).has p = true) : fs.has p = true := by
  rw [FS.has, cleaned_val] at h; split at h
  · simp at h
  · exact h

theorem cleaned_processed {cfg : Cfg} (fs : FS) {c : Chr} (hc : c ∈ cfg.chrs) : (cleaned cfg fs).has (.processed c) = false := by
  rw [FS.has, cleaned_val]; split
  · rfl
  · rename_i hm
    cases hq : fs.has (.processed c) with
    | false => simpa [FS.has] using hq
    | true =>
      exfalso; apply hm
      simp only [lockList, List.mem_append, List.mem_map, List.mem_filter]
      exact Or.inr ⟨c, ⟨hc, hq⟩, rfl⟩

theorem cleaned_rgLock (cfg : Cfg) (fs : FS) : (cleaned cfg fs).has .rgLock = false := by
  rw [FS.has, cleaned_val]; split
  · rfl
  · rename_i hm
    cases hq : fs.has .rgLock with
    | false => simpa [FS.has] using hq
    | true =>
      exfalso; apply hm
      simp only [lockList, List.mem_append, List.mem_filter]
      refine Or.inl (Or.inl ⟨?_, hq⟩)
      split <;> simp

theorem cleaned_bam_locks {cfg : Cfg} (hm : cfg.fromSaves = false) (fs : FS) :
    (cleaned cfg fs).has .lock = false ∧ ∀ c ∈ cfg.chrs, (cleaned cfg fs).has (.collected c) = false := by
  constructor
  · rw [FS.has, cleaned_val]; split
    · rfl
    · rename_i hn
      cases hq : fs.has .lock with
      | false => simpa [FS.has] using hq
      | true =>
        exfalso; apply hn
        simp only [lockList, hm, List.mem_append, List.mem_filter]
        exact Or.inl (Or.inl ⟨by simp, hq⟩)
  · intro c hc
    rw [FS.has, cleaned_val]; split
    · rfl
    · rename_i hn
      cases hq : fs.has (.collected c) with
      | false => simpa [FS.has] using hq
      | true =>
        exfalso; apply hn
        simp only [lockList, hm, List.mem_append, List.mem_map, List.mem_filter]
        exact Or.inl (Or.inr ⟨c, ⟨hc, by simp [hq]⟩, rfl⟩)

theorem lockList_cleaned (cfg : Cfg) (fs : FS) : lockList cfg (cleaned cfg fs) = [] := by
  have hno : ∀ p ∈ lockList cfg (cleaned cfg fs), False := by
    intro p hp
    have h1 := lockList_has cfg _ p hp
    have h2 := cleaned_has_le cfg fs p h1
    -- p is a candidate that existed in fs, hence was removed
    have hin : p ∈ lockList cfg fs := by
      simp only [lockList, List.mem_append, List.mem_map, List.mem_filter, Bool.and_eq_true] at hp ⊢
      rcases hp with (⟨hp, _⟩ | ⟨c, ⟨hc, hf, _⟩, rfl⟩) | ⟨c, ⟨hc, _⟩, rfl⟩
      · exact Or.inl (Or.inl ⟨hp, h2⟩)
      · exact Or.inl (Or.inr ⟨c, ⟨hc, hf, h2⟩, rfl⟩)
      · exact Or.inr ⟨c, ⟨hc, h2⟩, rfl⟩
    rw [FS.has, cleaned_val, if_pos hin] at h1
    simp at h1
  cases hq : lockList cfg (cleaned cfg fs) with
  | nil => rfl
  | cons a l => exact absurd (hno a (by rw [hq]; simp)) id

/-- a fresh run = the removal of the lock files found, then the run on the cleaned folder -/
theorem run_split {cfg : Cfg} (wf : WF cfg) (ord : List Path) (fs : FS) :
    (run fixed cfg ord false fs).evs = (lockList cfg fs).map Ev.remove ++ (run fixed cfg ord false (cleaned cfg fs)).evs ∧
    (run fixed cfg ord false fs).ok = (run fixed cfg ord false (cleaned cfg fs)).ok ∧
    (run fixed cfg ord false fs).fs = (run fixed cfg ord false (cleaned cfg fs)).fs := by
  have hck := checks_rmAll (lockList_nodup wf fs) (lockList_has cfg fs)
  obtain ⟨hok, hevs⟩ := runActs_of_checks hck
  have hfs : (runActs (rmAll (lockList cfg fs)) fs).fs = cleaned cfg fs := by
    rw [runActs_fs, hevs, eventsOf_rmAll]; rfl
  have h0 : forceClean fixed cfg false fs = rmAll (lockList cfg fs) := by simp [forceClean, fixed]
  have h1 : forceClean fixed cfg false (cleaned cfg fs) = [] := by
    simp [forceClean, fixed, lockList_cleaned, rmAll]
  simp only [run, runStages, h0, h1, hok, if_true, hevs, eventsOf_rmAll, hfs, runActs, Bool.false_and, List.nil_append]
  exact ⟨trivial, trivial, trivial⟩

theorem run_resume_eq (cfg : Cfg) (ord : List Path) (fs : FS) :
    run fixed cfg ord true fs = runStages (stages fixed cfg ord true (fs.has .lock)) fs := by
  simp [run, runStages, forceClean, runActs]

theorem run_fresh_eq (cfg : Cfg) (ord : List Path) {fs : FS} (h : lockList cfg fs = []) :
    run fixed cfg ord false fs = runStages (stages fixed cfg ord false false) fs := by
  simp [run, runStages, forceClean, fixed, h, rmAll, runActs]

end IsoVerif.Lemmas.Resume
