/-
C07: nothing after the reference stage writes a file of the reference stage.

Every stage of a run after `refStage` (`restStages`: read-group split, read collection, model construction, merging,
clean-up — for every configuration, every directory order, first run or resumed) performs no event on the unpacked copy of
a plain-gzip reference, on the index inside the folder (file / content) or on a temporary index (`isRefAux`).  This is a
fact about the stage definitions of Model/Resume.lean (no hypothesis on the file system).  It is what lets several
experiments of one invocation share the files of the reference stage (Model/ResumeMulti.lean): the stages of one experiment
leave them as the reference stage wrote them.
-/
import IsoVerif.Lemmas.ResumePoolIndep
import IsoVerif.Lemmas.ResumeRun

namespace IsoVerif.Lemmas.Resume
open IsoVerif.Model.Resume

/-- the actions perform no event on a file of the reference stage -/
def NoRef (as : List Act) : Prop := (eventsOf as).all (fun e => !isRefAux e.path) = true

theorem runActs_noref {as : List Act} (h : NoRef as) (fs : FS) : ∀ e ∈ (runActs as fs).evs, isRefAux e.path = false := by
  intro e he
  have := List.all_eq_true.mp h e (runActs_evs_sub as fs e he)
  simpa using this

theorem runStages_noref {ss : List Stage} (h : ∀ s ∈ ss, ∀ fs, NoRef (s fs)) (fs : FS) :
    ∀ e ∈ (runStages ss fs).evs, isRefAux e.path = false := by
  induction ss generalizing fs with
  | nil => intro e he; simp [runStages] at he
  | cons s ss ih =>
    intro e he
    simp only [runStages] at he
    split at he
    · simp only [List.mem_append] at he
      rcases he with he | he
      · exact runActs_noref (h s (by simp) fs) fs e he
      · exact ih (fun s' hs' => h s' (by simp [hs'])) _ e he
    · exact runActs_noref (h s (by simp) fs) fs e he

theorem noRef_of_T {as : List Act} (T : Path → Bool) (hT : ∀ p, T p = true → isRefAux p = false)
    (h : (eventsOf as).all (fun e => T e.path) = true) : NoRef as := by
  simp only [NoRef, List.all_eq_true] at h ⊢
  intro e he; simp [hT _ (h e he)]

/-! ### the stages -/

theorem rgStage_noref (cfg : Cfg) (rs : Bool) (fs : FS) : NoRef (rgStage cfg rs fs) := by
  unfold rgStage NoRef
  split
  · rfl
  · by_cases hf : cfg.rg = RG.file <;> by_cases hl : fs.has .rgLock = true <;>
      simp [hf, hl, eventsOf_append, eventsOf_evs, eventsOf_rmAll, Ev.path, isRefAux, List.all_append, List.all_map,
        Function.comp_def]

theorem collectPre_noref (cfg : Cfg) (rs sk : Bool) (fs : FS) : NoRef (collectPre cfg rs sk fs) := by
  unfold collectPre NoRef
  split
  · rfl
  · by_cases hl : fs.has .lock = true <;>
      simp [hl, eventsOf_rmAll, Ev.path, isRefAux, List.all_append, List.all_map, List.all_filter, Function.comp_def]

theorem collectChr_noref (cfg : Cfg) (rs sk : Bool) (c : Chr) (fs : FS) : NoRef (collectChr fixed cfg rs sk c fs) :=
  noRef_of_T (Tcol c) (by intro p hp; cases p <;> simp [Tcol] at hp <;> rfl) (collectChr_T_any fixed cfg rs sk c fs)

theorem collectPost_noref (cfg : Cfg) (sk : Bool) (fs : FS) : NoRef (collectPost cfg sk fs) := by
  unfold collectPost NoRef
  split
  · rfl
  · have hl : ∀ l : List Chr, eventsOf (l.map (fun c => Act.load (Path.save c))) = [] := by
      intro l; induction l with
      | nil => rfl
      | cons c l ih => simpa [eventsOf] using ih
    by_cases hm : cfg.highMemory = true <;>
      simp [hm, hl, eventsOf_append, eventsOf_evs, Ev.path, isRefAux, List.all_append, List.all_map, Function.comp_def]

theorem constructChr_noref (cfg : Cfg) (rs : Bool) (c : Chr) (fs : FS) : NoRef (constructChr fixed cfg rs c fs) :=
  noRef_of_T (Tcon c) (by intro p hp; cases p <;> simp [Tcon] at hp <;> rfl) (constructChr_T_any fixed cfg rs c fs)

theorem isRefAux_finalOf (cfg : Cfg) (s : Stream) : isRefAux (finalOf cfg s) = false := by
  unfold finalOf; split <;> rfl

theorem constructPre_noref (cfg : Cfg) (fs : FS) : NoRef (constructPre cfg fs) := by
  unfold constructPre NoRef
  simp [eventsOf, eventsOf_evs, aggInit, Ev.path, isRefAux_finalOf, List.all_append, List.all_map, List.all_flatMap,
    Function.comp_def]
  simp [isRefAux]

theorem dropStage_noref (cfg : Cfg) (fs : FS) : NoRef (dropStage fixed cfg fs) := by
  unfold dropStage NoRef
  split
  · simp [eventsOf_rmAll, Ev.path, isRefAux, List.all_map, List.all_filter, Function.comp_def]
  · rfl

theorem cleanupLocks_noref (cfg : Cfg) (fs : FS) : NoRef (cleanupLocks fixed cfg fs) := by
  unfold cleanupLocks NoRef
  split
  · by_cases h1 : fs.has .lock = true <;> by_cases h2 : fs.has .rgLock = true <;>
      simp [h1, h2, eventsOf_rmAll, Ev.path, isRefAux, List.all_append, List.all_map, List.all_filter,
        Function.comp_def]
  · rfl

theorem globStage_noref (sel : Path → Bool) (hsel : ∀ p, sel p = true → isRefAux p = false) (ord : List Path) (fs : FS) :
    NoRef (globStage sel ord fs) := by
  unfold globStage NoRef
  rw [eventsOf_rmAll]
  simp only [List.all_eq_true, List.mem_map, List.mem_filter, Bool.and_eq_true]
  rintro e ⟨p, ⟨_, hp, _⟩, rfl⟩
  simp [Ev.path, hsel p hp]

theorem stepActs_noref (cfg : Cfg) (unal : Bool) (fs : FS) (st : MStep) : NoRef (stepActs cfg unal fs st) := by
  unfold NoRef
  cases st <;>
    simp [stepActs, mergeUngrouped, mergeGrouped, mergeProfile, rmParts, eventsOf, eventsOf_append, eventsOf_evs, eventsOf_rmAll,
      eventsOf_flatMap, Ev.path, isRefAux, List.all_append, List.all_map, List.all_flatMap, Function.comp_def]

theorem mergeStage_noref (cfg : Cfg) (unal : Bool) (fs : FS) : NoRef (mergeStage cfg unal fs) := by
  unfold mergeStage NoRef
  rw [eventsOf_append, eventsOf_append, List.all_append, List.all_append, Bool.and_eq_true, Bool.and_eq_true]
  refine ⟨⟨?_, ?_⟩, ?_⟩
  · rw [eventsOf_flatMap, List.all_flatMap, List.all_eq_true]
    intro st _; exact stepActs_noref cfg unal fs st
  · simp [sqMerge, rmParts, eventsOf, eventsOf_flatMap, eventsOf_rmAll, Ev.path, isRefAux, List.all_map, List.all_flatMap,
      Function.comp_def]
  · simp [eventsOf_evs, List.all_map, Function.comp_def, Ev.path, isRefAux_finalOf]

/-- **no stage after the reference stage writes a file of the reference stage** (every configuration, every directory
    order, first run or resumed, whatever the file system holds) -/
theorem restStages_noref (cfg : Cfg) (ord : List Path) (rs skc : Bool) (fs : FS) :
    ∀ e ∈ (runStages (restStages cfg ord rs skc) fs).evs, isRefAux e.path = false := by
  apply runStages_noref
  intro s hs fs'
  simp only [restStages, List.mem_cons, List.mem_append, List.mem_map] at hs
  rcases hs with rfl | rfl | ⟨c, _, rfl⟩ | rfl | rfl | ⟨c, _, rfl⟩ | rfl | rfl | hs
  · exact rgStage_noref cfg rs fs'
  · exact collectPre_noref cfg rs skc fs'
  · exact collectChr_noref cfg rs skc c fs'
  · exact collectPost_noref cfg skc fs'
  · exact constructPre_noref cfg fs'
  · exact constructChr_noref cfg rs c fs'
  · exact dropStage_noref cfg fs'
  · exact mergeStage_noref cfg true fs'
  · split at hs
    · simp at hs
    · simp only [List.mem_cons, List.not_mem_nil, or_false] at hs
      rcases hs with rfl | rfl | rfl
      · exact cleanupLocks_noref cfg fs'
      · exact globStage_noref _ (by intro p hp; cases p <;> simp [isSaveAux] at hp <;> rfl) ord fs'
      · exact globStage_noref _ (by intro p hp; cases p <;> simp [isRgAux] at hp <;> rfl) ord fs'

/-- the final state agrees with the initial one on the files of the reference stage -/
theorem restStages_ref_frame (cfg : Cfg) (ord : List Path) (rs skc : Bool) (fs : FS) {p : Path} (hp : isRefAux p = true) :
    (runStages (restStages cfg ord rs skc) fs).fs p = fs p := by
  rw [runStages_fs]
  exact applyAll_outside isRefAux fs _ (restStages_noref cfg ord rs skc fs) p hp

end IsoVerif.Lemmas.Resume
