/-
Helper lemmas about Model/Assign.lean (C01): the error-monad list helpers, candidate selection, the gene model.
Core Lean only.
-/
import IsoVerif.Model.Assign
import IsoVerif.Lemmas.Interval
import IsoVerif.Lemmas.Profiles
import IsoVerif.Lemmas.C01Sweep

namespace IsoVerif.Lemmas.C01
open IsoVerif.Gen IsoVerif.Model IsoVerif.Model.C01 IsoVerif.Lemmas

/-! ### error-monad list helpers -/

theorem filterOpt_spec {α} (f : α → Option Bool) : ∀ (l r : List α), filterOpt f l = some r →
    (∀ x ∈ r, x ∈ l ∧ f x = some true) ∧ (∀ x ∈ l, f x = some true → x ∈ r) ∧ r.Sublist l ∧
    (∀ x ∈ l, ∃ b, f x = some b) := by
  intro l
  induction l with
  | nil => intro r h; simp [filterOpt] at h; subst h; simp
  | cons a t ih =>
    intro r h
    simp only [filterOpt] at h
    cases hfa : f a with
    | none => simp [hfa] at h
    | some b =>
      rw [hfa] at h
      cases ht : filterOpt f t with
      | none => simp [ht] at h
      | some r' =>
        rw [ht] at h
        simp at h
        obtain ⟨h1, h2, h3, h4⟩ := ih r' ht
        cases b with
        | true =>
          simp at h; subst h
          refine ⟨?_, ?_, ?_, ?_⟩
          · intro x hx
            rcases List.mem_cons.mp hx with hx | hx
            · subst hx; exact ⟨by simp, hfa⟩
            · exact ⟨List.mem_cons_of_mem _ (h1 x hx).1, (h1 x hx).2⟩
          · intro x hx hfx
            rcases List.mem_cons.mp hx with hx | hx
            · subst hx; simp
            · exact List.mem_cons_of_mem _ (h2 x hx hfx)
          · exact h3.cons₂ a
          · intro x hx
            rcases List.mem_cons.mp hx with hx | hx
            · subst hx; exact ⟨true, hfa⟩
            · exact h4 x hx
        | false =>
          simp at h; subst h
          refine ⟨?_, ?_, ?_, ?_⟩
          · intro x hx; exact ⟨List.mem_cons_of_mem _ (h1 x hx).1, (h1 x hx).2⟩
          · intro x hx hfx
            rcases List.mem_cons.mp hx with hx | hx
            · subst hx; rw [hfa] at hfx; simp at hfx
            · exact h2 x hx hfx
          · exact h3.cons a
          · intro x hx
            rcases List.mem_cons.mp hx with hx | hx
            · subst hx; exact ⟨false, hfa⟩
            · exact h4 x hx

/-- pointwise relation between two lists of the same length -/
inductive Zip2 {α β} (P : α → β → Prop) : List α → List β → Prop
  | nil : Zip2 P [] []
  | cons {a b l r} : P a b → Zip2 P l r → Zip2 P (a :: l) (b :: r)

theorem mapOpt_spec {α β} (f : α → Option β) : ∀ (l : List α) (r : List β), mapOpt f l = some r →
    Zip2 (fun x y => f x = some y) l r := by
  intro l
  induction l with
  | nil => intro r h; simp [mapOpt] at h; subst h; exact Zip2.nil
  | cons a t ih =>
    intro r h
    simp only [mapOpt] at h
    cases hfa : f a with
    | none => simp [hfa] at h
    | some b =>
      rw [hfa] at h
      cases ht : mapOpt f t with
      | none => simp [ht] at h
      | some r' =>
        rw [ht] at h
        simp at h; subst h
        exact Zip2.cons hfa (ih r' ht)

theorem forall₂_mem_right {α β} {P : α → β → Prop} {l : List α} {r : List β} (h : Zip2 P l r) :
    ∀ y ∈ r, ∃ x ∈ l, P x y := by
  induction h with
  | nil => intro y hy; cases hy
  | cons hp _ ih =>
    intro y hy
    rcases List.mem_cons.mp hy with hy | hy
    · subst hy; exact ⟨_, by simp, hp⟩
    · obtain ⟨x, hx, hxy⟩ := ih y hy
      exact ⟨x, List.mem_cons_of_mem _ hx, hxy⟩

theorem forall₂_mem_left {α β} {P : α → β → Prop} {l : List α} {r : List β} (h : Zip2 P l r) :
    ∀ x ∈ l, ∃ y ∈ r, P x y := by
  induction h with
  | nil => intro y hy; cases hy
  | cons hp _ ih =>
    intro y hy
    rcases List.mem_cons.mp hy with hy | hy
    · subst hy; exact ⟨_, by simp, hp⟩
    · obtain ⟨x, hx, hxy⟩ := ih y hy
      exact ⟨x, List.mem_cons_of_mem _ hx, hxy⟩

theorem forall₂_length {α β} {P : α → β → Prop} {l : List α} {r : List β} (h : Zip2 P l r) :
    l.length = r.length := by
  induction h with
  | nil => rfl
  | cons _ _ ih => simp [ih]

theorem allRange_true (p : Int → Option Bool) : ∀ (n : Nat) (s : Int), allRange p s n = some true →
    ∀ k : Nat, k < n → p (s + k) = some true := by
  intro n
  induction n with
  | zero => intro s _ k hk; omega
  | succ n ih =>
    intro s h k hk
    simp only [allRange] at h
    cases hp : p s with
    | none => simp [hp] at h
    | some b =>
      cases b with
      | false => simp [hp] at h
      | true =>
        simp [hp] at h
        cases k with
        | zero => simpa using hp
        | succ k =>
          have := ih (s + 1) h k (by omega)
          have e : s + 1 + (k : Int) = s + ((k + 1 : Nat) : Int) := by omega
          rw [e] at this; exact this

theorem anyRange_true (p : Int → Option Bool) : ∀ (n : Nat) (s : Int), anyRange p s n = some true →
    ∃ k : Nat, k < n ∧ p (s + k) = some true := by
  intro n
  induction n with
  | zero => intro s h; simp [anyRange] at h
  | succ n ih =>
    intro s h
    simp only [anyRange] at h
    cases hp : p s with
    | none => simp [hp] at h
    | some b =>
      cases b with
      | true => exact ⟨0, by omega, by simpa using hp⟩
      | false =>
        simp [hp] at h
        obtain ⟨k, hk, hpk⟩ := ih (s + 1) h
        refine ⟨k + 1, by omega, ?_⟩
        have e : s + 1 + (k : Int) = s + ((k + 1 : Nat) : Int) := by omega
        rw [← e]; exact hpk

/-- what `equal_profiles_in_range … = True` says position by position -/
theorem equalProfilesInRange_true (iso read : List Int) (rng : Int × Int)
    (h : equalProfilesInRange iso read rng = some true) (i : Nat) (hlo : rng.1 ≤ (i : Int)) (hhi : (i : Int) < rng.2)
    (h0 : 0 ≤ rng.1) (v : Int) (hv : read[i]? = some v) (hv0 : v ≠ 0) : iso[i]? = some v := by
  unfold equalProfilesInRange at h
  have hk := allRange_true _ _ _ h (i - rng.1).toNat (by omega)
  have e : rng.1 + ((i - rng.1).toNat : Int) = (i : Int) := by omega
  rw [e] at hk
  have hg : pyGet? read (i : Int) = some v := by
    simp [pyGet?, hv]
  rw [hg] at hk
  simp only [hv0, if_false] at hk
  cases hi : pyGet? iso (i : Int) with
  | none => simp [hi] at hk
  | some a =>
    simp [hi] at hk
    subst hk
    simpa [pyGet?] using hi

/-! ### candidate selection only ever narrows the candidate list -/

theorem resolveByScore_sub (score : IsoInfo → Option Rat) (factor : Option Rat) (matched r : List IsoInfo)
    (h : resolveByScore score factor matched = some r) : ∀ x ∈ r, x ∈ matched := by
  unfold resolveByScore at h
  split at h
  · simp at h; subst h; simp
  · split at h
    · simp at h
    · rename_i scores hsc
      have hf := mapOpt_spec _ _ _ hsc
      split at h
      · simp at h
      · have key : ∀ (q : IsoInfo × Rat → Bool), ∀ x ∈ (scores.filter q).map (·.1), x ∈ matched := by
          intro q x hx
          simp only [List.mem_map, List.mem_filter] at hx
          obtain ⟨y, ⟨hy, _⟩, hyx⟩ := hx
          obtain ⟨I, hI, hIy⟩ := forall₂_mem_right hf y hy
          cases hs : score I with
          | none => simp [hs] at hIy
          | some sc =>
            simp [hs] at hIy
            rw [← hyx, ← hIy]; exact hI
        split at h <;> (simp at h; subst h) <;> exact key _

theorem anyOpt_irrelevant : True := trivial

theorem selectSpliced_sub (p : Params) (rp : ReadProf) (cons r : List IsoInfo)
    (h : selectSpliced p rp cons = some r) : ∀ x ∈ r, x ∈ cons := by
  unfold selectSpliced at h
  simp only at h
  -- step1
  have step1 : ∀ m, (if cons.length > 1 then
      (findMatchingSplit rp cons).map (fun em => if em.length ≠ 0 then em else cons) else some cons) = some m →
      ∀ x ∈ m, x ∈ cons := by
    intro m hm
    split at hm
    · cases hfm : findMatchingSplit rp cons with
      | none => simp [hfm] at hm
      | some em =>
        simp [hfm] at hm
        have hsub := (filterOpt_spec _ _ _ hfm).1
        split at hm
        · subst hm; simp
        · subst hm; intro x hx; exact (hsub x hx).1
    · simp at hm; subst hm; simp
  split at h
  · simp at h
  · rename_i matched hm
    have hsub := step1 matched hm
    split at h
    · split at h
      · intro x hx; exact hsub x (resolveByScore_sub _ _ _ _ h x hx)
      · split at h
        · simp at h
        · intro x hx; exact hsub x (resolveByScore_sub _ _ _ _ h x hx)
        · simp at h; subst h; exact hsub
      · simp at h; subst h; exact hsub
    · simp at h; subst h; exact hsub

theorem selectUnspliced_sub (p : Params) (rp : ReadProf) (cons r : List IsoInfo)
    (h : selectUnspliced p rp cons = some r) : ∀ x ∈ r, x ∈ cons := by
  unfold selectUnspliced at h
  split at h
  · exact resolveByScore_sub _ _ _ _ h
  · simp at h; subst h; simp

/-- the candidates of `match_consistent` passed the three tests -/
theorem consistentIsoforms_mem (g : Gene) (p : Params) (rp : ReadProf) (l : List IsoInfo)
    (h : consistentIsoforms g p rp = some (some l)) :
    ∀ I ∈ l, I ∈ g.isos ∧ contains_approx I.region rp.region p.min_abs_exon_overlap = true ∧
      hasOverlappingFeatures I.splitProf rp.split.gene (overlap_intervals rp.split.range I.splitRange) = some true ∧
      equalProfilesInRange I.intronProf rp.intron.gene rp.intron.range = some true := by
  unfold consistentIsoforms at h
  simp only at h
  split at h
  · simp at h
  · split at h
    · simp at h
    · rename_i ov hov
      split at h
      · simp at h
      · cases hfm : findMatchingIntron rp ov with
        | none => simp [hfm] at h
        | some m =>
          simp [hfm] at h; subst h
          intro I hI
          obtain ⟨hIov, heq⟩ := (filterOpt_spec _ _ _ hfm).1 I hI
          obtain ⟨hIc, hovl⟩ := (filterOpt_spec _ _ _ hov).1 I hIov
          simp only [findContaining, List.mem_filter] at hIc
          exact ⟨hIc.1, hIc.2, hovl, heq⟩

/-- conversely: an isoform that passes the three tests is among the candidates -/
theorem consistentIsoforms_complete (g : Gene) (p : Params) (rp : ReadProf) (r : Option (List IsoInfo))
    (h : consistentIsoforms g p rp = some r) (I : IsoInfo) (hI : I ∈ g.isos)
    (h1 : contains_approx I.region rp.region p.min_abs_exon_overlap = true)
    (h2 : hasOverlappingFeatures I.splitProf rp.split.gene (overlap_intervals rp.split.range I.splitRange) = some true)
    (h3 : equalProfilesInRange I.intronProf rp.intron.gene rp.intron.range = some true) :
    ∃ l, r = some l ∧ I ∈ l := by
  unfold consistentIsoforms at h
  simp only at h
  have hc : I ∈ findContaining p rp g.isos := by
    simp only [findContaining, List.mem_filter]; exact ⟨hI, h1⟩
  split at h
  · rename_i he
    simp [List.isEmpty_iff] at he
    rw [he] at hc; simp at hc
  · split at h
    · simp at h
    · rename_i ov hov
      have hIov := (filterOpt_spec _ _ _ hov).2.1 I hc h2
      split at h
      · rename_i he
        simp [List.isEmpty_iff] at he
        rw [he] at hIov; simp at hIov
      · cases hfm : findMatchingIntron rp ov with
        | none => simp [hfm] at h
        | some m =>
          simp [hfm] at h; subst h
          exact ⟨m, rfl, (filterOpt_spec _ _ _ hfm).2.1 I hIov h3⟩

/-! ### `sorted(list(set(...)))` -/

theorem ivLt_iff (a b : Iv) : ivLt a b = true ↔ lexLt a b := by
  simp [ivLt, lexLt]

theorem lex_trichotomy (a b : Iv) (h1 : ¬ lexLt a b) (h2 : a ≠ b) : lexLt b a := by
  unfold lexLt at *
  have : a.1 ≠ b.1 ∨ a.2 ≠ b.2 := by
    by_cases e1 : a.1 = b.1
    · right; intro e2; exact h2 (Prod.ext e1 e2)
    · left; exact e1
  omega

theorem mem_insertIv (x : Iv) : ∀ (l : List Iv) (y : Iv), y ∈ insertIv x l ↔ (y = x ∨ y ∈ l) := by
  intro l
  induction l with
  | nil => intro y; simp [insertIv]
  | cons a t ih =>
    intro y
    simp only [insertIv]
    split
    · simp
    · split
      · rename_i _ e; subst e; simp
      · simp only [List.mem_cons, ih]
        constructor
        · rintro (h | h | h)
          · right; left; exact h
          · left; exact h
          · right; right; exact h
        · rintro (h | h | h)
          · right; left; exact h
          · left; exact h
          · right; right; exact h

theorem mem_sortDedupIv : ∀ (l : List Iv) (y : Iv), y ∈ sortDedupIv l ↔ y ∈ l := by
  intro l
  induction l with
  | nil => intro y; simp [sortDedupIv]
  | cons a t ih => intro y; simp [sortDedupIv, mem_insertIv, ih]

theorem LexSorted_cons {a : Iv} {l : List Iv} (h1 : ∀ r ∈ l, lexLt a r) (h2 : LexSorted l) : LexSorted (a :: l) := by
  cases l with
  | nil => trivial
  | cons b t => exact ⟨h1 b (by simp), h2⟩

theorem LexSorted_insertIv (x : Iv) : ∀ (l : List Iv), LexSorted l → LexSorted (insertIv x l) := by
  intro l
  induction l with
  | nil => intro _; trivial
  | cons a t ih =>
    intro h
    simp only [insertIv]
    split
    · rename_i hlt
      exact ⟨(ivLt_iff x a).mp hlt, h⟩
    · rename_i hnlt
      split
      · exact h
      · rename_i hne
        have hax : lexLt a x := lex_trichotomy x a (fun hh => hnlt ((ivLt_iff x a).mpr hh)) hne
        apply LexSorted_cons
        · intro r hr
          rcases (mem_insertIv x t r).mp hr with hr | hr
          · subst hr; exact hax
          · exact LexSorted_head_lt h r hr
        · exact ih (LexSorted_tail h)

theorem LexSorted_sortDedupIv : ∀ (l : List Iv), LexSorted (sortDedupIv l) := by
  intro l
  induction l with
  | nil => trivial
  | cons a t ih => exact LexSorted_insertIv a _ ih

/-! ### introns of an isoform -/

theorem junction_start (l : List Iv) : ∀ j ∈ junctionsFromBlocks l, ∃ c ∈ l, j.1 = c.2 + 1 := by
  induction l with
  | nil => intro j hj; simp [junctionsFromBlocks] at hj
  | cons a t ih =>
    cases t with
    | nil => intro j hj; simp [junctionsFromBlocks] at hj
    | cons b t' =>
      intro j hj
      simp only [junctionsFromBlocks] at hj
      split at hj
      · rcases List.mem_cons.mp hj with hj | hj
        · subst hj; exact ⟨a, by simp, rfl⟩
        · obtain ⟨c, hc, hjc⟩ := ih j hj
          exact ⟨c, List.mem_cons_of_mem _ hc, hjc⟩
      · obtain ⟨c, hc, hjc⟩ := ih j hj
        exact ⟨c, List.mem_cons_of_mem _ hc, hjc⟩

theorem LexSorted_junctions : ∀ (l : List Iv), SD l → WFl l → LexSorted (junctionsFromBlocks l) := by
  intro l
  induction l with
  | nil => intro _ _; trivial
  | cons a t ih =>
    cases t with
    | nil => intro _ _; trivial
    | cons b t' =>
      intro hsd hwf
      simp only [junctionsFromBlocks]
      have ih' := ih (SD_tail hsd) (WFl_tail hwf)
      split
      · apply LexSorted_cons _ ih'
        intro r hr
        obtain ⟨c, hc, hrc⟩ := junction_start _ r hr
        have hac : a.2 < c.1 := SD_all_right hsd hwf c hc
        have hcw : c.1 ≤ c.2 := hwf c (List.mem_cons_of_mem _ hc)
        left
        show a.2 + 1 < r.1
        omega
      · exact ih'

/-! ### the gene model -/

theorem mkIsos_mem (introns split : List Iv) : ∀ (ms : List Isoform) (i : Nat) (isos : List IsoInfo),
    mkIsos introns split ms i = some isos → ∀ I ∈ isos, ∃ m ∈ ms, ∃ id, mkIso introns split m id = some I := by
  intro ms
  induction ms with
  | nil => intro i isos h I hI; simp [mkIsos] at h; subst h; simp at hI
  | cons m t ih =>
    intro i isos h I hI
    simp only [mkIsos] at h
    cases h1 : mkIso introns split m i with
    | none => simp [h1] at h
    | some a =>
      cases h2 : mkIsos introns split t (i + 1) with
      | none => simp [h1, h2] at h
      | some r =>
        simp [h1, h2] at h; subst h
        rcases List.mem_cons.mp hI with hI | hI
        · subst hI; exact ⟨m, by simp, i, h1⟩
        · obtain ⟨m', hm', id, hid⟩ := ih (i + 1) r h2 I hI
          exact ⟨m', List.mem_cons_of_mem _ hm', id, hid⟩

/-- what `GeneInfo.from_models` records about one isoform -/
structure IsoOf (g : Gene) (m : Isoform) (I : IsoInfo) : Prop where
  exons : I.exons = m.exons
  introns : I.introns = junctionsFromBlocks m.exons
  region : regionOf m.exons = some I.region
  strand : I.strand = m.strand
  intronProf : I.intronProf = (setProfiles g.introns I.introns I.region (fun a b => equal_ranges a b 0)).1
  splitProf : I.splitProf = (setProfiles g.splitExons m.exons I.region (fun a b => contains a b)).1

theorem fromModels_spec (ms : List Isoform) (g : Gene) (h : Gene.fromModels ms = some g) :
    g.introns = sortDedupIv (ms.flatMap (fun m => junctionsFromBlocks m.exons)) ∧
    g.exons = sortDedupIv (ms.flatMap (fun m => m.exons)) ∧
    ∀ I ∈ g.isos, ∃ m ∈ ms, IsoOf g m I := by
  unfold Gene.fromModels at h
  split at h
  · simp at h
  · simp at h
  · simp only at h
    split at h
    · simp at h
    · rename_i split hsplit
      split at h
      · simp at h
      · rename_i isos hisos
        simp at h; subst h
        refine ⟨rfl, rfl, ?_⟩
        intro I hI
        obtain ⟨m, hm, id, hid⟩ := mkIsos_mem _ _ ms 0 isos hisos I hI
        refine ⟨m, hm, ?_⟩
        unfold mkIso at hid
        split at hid
        · simp at hid
        · rename_i reg hreg
          simp at hid; subst hid
          exact ⟨rfl, rfl, hreg, rfl, rfl, rfl⟩

/-- annotation well-formedness: every isoform is a non-empty list of well-formed, sorted, disjoint exons -/
def WellFormed (ms : List Isoform) : Prop := ∀ m ∈ ms, SD m.exons ∧ WFl m.exons

/-- the intron profile of an isoform marks exactly its own introns with 1 -/
theorem intronProf_one_iff (ms : List Isoform) (g : Gene) (h : Gene.fromModels ms = some g) (hwf : WellFormed ms)
    (I : IsoInfo) (hI : I ∈ g.isos) (i : Nat) (k : Iv) (hk : g.introns[i]? = some k) :
    I.intronProf[i]? = some 1 ↔ k ∈ I.introns := by
  obtain ⟨hintr, _, hisos⟩ := fromModels_spec ms g h
  obtain ⟨m, hm, hio⟩ := hisos I hI
  rw [hio.intronProf]
  constructor
  · intro h1
    obtain ⟨f, hf, hfk⟩ := setProfiles_sound _ _ _ _ i k hk h1
    have := (eq0_iff f k).mp hfk
    subst this; exact hf
  · intro hin
    apply setProfiles_complete_eq g.introns I.introns I.region _ _ _ i k hk hin
    · rw [hintr]; exact LexSorted_sortDedupIv _
    · rw [hio.introns]; exact LexSorted_junctions _ (hwf m hm).1 (hwf m hm).2
    · intro f hf
      rw [hintr, mem_sortDedupIv]
      simp only [List.mem_flatMap]
      exact ⟨m, hm, by rw [← hio.introns]; exact hf⟩

theorem intron_mem_gene (ms : List Isoform) (g : Gene) (h : Gene.fromModels ms = some g)
    (I : IsoInfo) (hI : I ∈ g.isos) (k : Iv) (hk : k ∈ I.introns) : ∃ i : Nat, g.introns[i]? = some k := by
  obtain ⟨hintr, _, hisos⟩ := fromModels_spec ms g h
  obtain ⟨m, hm, hio⟩ := hisos I hI
  apply List.mem_iff_getElem?.mp
  rw [hintr, mem_sortDedupIv]
  simp only [List.mem_flatMap]
  exact ⟨m, hm, by rw [← hio.introns]; exact hk⟩

end IsoVerif.Lemmas.C01
