/-
C11 helper lemmas — the micro-intron restoration of `process_events` (repaired code: every read exon `0 … n`, any
number of retained isoform micro introns per exon) under reflection.

`weave f cs i = f i ++ c₀ :: f (i+1) ++ c₁ :: … ++ f (i+n)`: what the `while` loop computes on an event map without
index-keyed events (`f j` = the micro introns restored in read exon `j`, `cs` = the corrected read introns).  Its
mirror image is the weave of the mirrored pieces read from the other end (`weave_mirror`).
-/
import IsoVerif.Gen.Prims
import IsoVerif.Model.Interval
import IsoVerif.Model.Corrector
import IsoVerif.Model.C11Symmetry
import IsoVerif.Model.C11SymBedCorr
import IsoVerif.Lemmas.Corrector
import IsoVerif.Lemmas.CorrectorLoop
import IsoVerif.Lemmas.C11Mirror
import IsoVerif.Lemmas.C11CorrectorMirror

namespace IsoVerif.Lemmas.C11
open IsoVerif.Gen IsoVerif.Model IsoVerif.Model.C14 IsoVerif.Model.C11 IsoVerif.Lemmas IsoVerif.Lemmas.C14

/-! ### interleaving -/

def weave (f : Nat → List Iv) : List Iv → Nat → List Iv
  | [], i => f i
  | c :: cs, i => f i ++ c :: weave f cs (i + 1)

theorem weave_snoc (f : Nat → List Iv) (cs : List Iv) (c : Iv) (i : Nat) :
    weave f (cs ++ [c]) i = weave f cs i ++ c :: f (i + cs.length + 1) := by
  induction cs generalizing i with
  | nil => simp [weave]
  | cons d cs ih =>
    have e : i + 1 + cs.length + 1 = i + (d :: cs).length + 1 := by simp only [List.length_cons]; omega
    simp only [List.cons_append, weave, ih (i + 1), e, List.append_assoc, List.cons_append]

theorem weave_congr (f g : Nat → List Iv) (cs : List Iv) (i : Nat)
    (h : ∀ j, i ≤ j → j ≤ i + cs.length → f j = g j) : weave f cs i = weave g cs i := by
  induction cs generalizing i with
  | nil => simp only [weave]; exact h i (Nat.le_refl _) (by simp)
  | cons d cs ih =>
    simp only [weave]
    rw [h i (Nat.le_refl _) (by simp), ih (i + 1) (fun j h1 h2 => h j (by omega) (by simp at h2 ⊢; omega))]

/-- the mirror image of an interleaving is the interleaving of the mirrored pieces, counted from the other end -/
theorem weave_mirror (L : Int) (f : Nat → List Iv) (cs : List Iv) (i : Nat) :
    mirrorL L (weave f cs i) = weave (fun j => mirrorL L (f (i + cs.length - j))) (mirrorL L cs) 0 := by
  induction cs generalizing i with
  | nil => simp [weave, mirrorL_nil]
  | cons d cs ih =>
    simp only [weave]
    rw [mirrorL_append, mirrorL_cons, ih (i + 1), mirrorL_cons, weave_snoc, mirrorL_length]
    simp only [List.length_cons, List.append_assoc, List.singleton_append, Nat.zero_add]
    have e0 : i + (cs.length + 1) - (cs.length + 1) = i := by omega
    rw [e0]
    congr 1
    apply weave_congr
    intro j _ _
    congr 2
    omega

/-! ### `[l[j] for j in js]` on in-range indices -/

theorem getAll_eq (l : List Iv) (js : List Int) (h : ∀ j ∈ js, 0 ≤ j ∧ j < l.length) :
    getAll l js = some (js.filterMap (pyGet? l)) := by
  induction js with
  | nil => rfl
  | cons j js ih =>
    obtain ⟨x, hx, _⟩ := pyGet_inrange l j (h j (by simp)).1 (h j (by simp)).2
    simp only [getAll, hx, ih (fun j' hj' => h j' (List.mem_cons_of_mem _ hj')), List.filterMap_cons]

/-- the micro introns restored in read exon `i` (well-formed bindings: no IndexError) -/
def microOf (mm : List (Int × Int)) (isoI : List Iv) (i : Nat) : List Iv :=
  (microAt mm (i : Int)).filterMap (pyGet? isoI)

theorem microAt_inrange {n m : Nat} {mm : List (Int × Int)} (hw : MicroWF n m mm) (i : Int) :
    ∀ j ∈ microAt mm i, 0 ≤ j ∧ j < m := by
  intro j hj
  simp only [microAt, List.mem_map, List.mem_filter] at hj
  obtain ⟨q, ⟨hq, _⟩, hqj⟩ := hj
  have := hw q hq
  omega

theorem microStep_wf {n : Nat} {mm : List (Int × Int)} {isoI : List Iv} (hw : MicroWF n isoI.length mm) (i : Nat)
    (acc : List Iv) : microStep mm isoI (i : Int) acc = .ok (acc ++ microOf mm isoI i) := by
  simp only [microStep, getAll_eq isoI _ (microAt_inrange hw _), microOf]

/-! ### the loop on an event map without index-keyed events -/

theorem eventLoop_micro (p : CParams) {n : Nat} (mm : List (Int × Int)) (rr : Iv) (ri corr : List Iv) (isoR : Iv)
    (isoI : List Iv) (hw : MicroWF n isoI.length mm) :
    ∀ (fuel i : Nat) (reg : Iv) (acc : List Iv), i ≤ corr.length → corr.length - i + 1 ≤ fuel →
      eventLoop p [] mm rr ri corr isoR isoI fuel (i : Int) reg acc
        = .ok (reg, acc ++ weave (microOf mm isoI) (corr.drop i) i) := by
  intro fuel
  induction fuel with
  | zero => intro i reg acc _ hf; omega
  | succ fuel ih =>
    intro i reg acc hi hf
    rw [eventLoop]
    by_cases hlt : i < corr.length
    · have hlt' : (i : Int) < (corr.length : Int) := by omega
      simp only [hlt', if_true, microStep_wf hw, List.lookup_nil]
      obtain ⟨x, hx, hx'⟩ := pyGet_inrange corr (i : Int) (by omega) hlt'
      rw [hx]
      simp only
      have e1 : ((i : Int) + 1) = ((i + 1 : Nat) : Int) := by omega
      rw [e1, ih (i + 1) reg _ (by omega) (by omega)]
      have hd : corr.drop i = corr[i] :: corr.drop (i + 1) := List.drop_eq_getElem_cons hlt
      have hxe : corr[i] = x := by
        have h2 := List.getElem?_eq_getElem hlt
        simp only [Int.toNat_natCast] at hx'
        rw [h2] at hx'; exact Option.some.inj hx'
      rw [hd, hxe]
      simp [weave]
    · have hlt' : ¬ ((i : Int) < (corr.length : Int)) := by omega
      have hie : i = corr.length := by omega
      have hd : corr.drop i = [] := by rw [hie]; exact List.drop_length
      simp only [hlt', if_false]
      rw [← hie, microStep_wf hw, hd]
      simp [weave]

/-! ### the retained micro introns seen from the other end -/

theorem microAt_mirror (n m : Nat) (mm : List (Int × Int)) (j : Int) :
    microAt (mirrorMicroMap n m mm) j = ((microAt mm ((n : Int) - j)).map (fun x => (m : Int) - 1 - x)).reverse := by
  simp only [microAt, mirrorMicroMap, List.filter_reverse, List.map_reverse, List.filter_map, List.map_map]
  congr 1
  have hf : ((fun q : Int × Int => q.1 == j) ∘ fun q : Int × Int => ((n : Int) - q.1, (m : Int) - 1 - q.2))
      = fun q : Int × Int => q.1 == (n : Int) - j := by
    funext q
    simp only [Function.comp]
    rw [Bool.eq_iff_iff]
    simp only [beq_iff_eq]
    omega
  rw [hf]
  rfl

theorem microWF_mirror {n m : Nat} {mm : List (Int × Int)} (hw : MicroWF n m mm) : MicroWF n m (mirrorMicroMap n m mm) := by
  intro q hq
  simp only [mirrorMicroMap, List.mem_reverse, List.mem_map] at hq
  obtain ⟨q0, hq0, rfl⟩ := hq
  have := hw q0 hq0
  simp only
  omega

theorem filterMap_pyGet_mirror (L : Int) (l : List Iv) (js : List Int) (h : ∀ j ∈ js, 0 ≤ j ∧ j < l.length) :
    js.filterMap (fun x => pyGet? (mirrorL L l) ((l.length : Int) - 1 - x))
      = (js.filterMap (pyGet? l)).map (mirrorIv L) := by
  induction js with
  | nil => rfl
  | cons j js ih =>
    obtain ⟨h0, h1⟩ := h j (by simp)
    obtain ⟨x, hx, _⟩ := pyGet_inrange l j h0 h1
    simp only [List.filterMap_cons, corr_pyGet?_mirror_int L l j h0 h1, hx, Option.map_some, List.map_cons,
      ih (fun j' hj' => h j' (List.mem_cons_of_mem _ hj'))]

/-- the micro introns restored in exon `j` of the mirrored read are the mirror images of those restored in exon
    `n − j` of the read, in mirrored order -/
theorem microOf_mirror (L : Int) {n : Nat} {mm : List (Int × Int)} {isoI : List Iv} (hw : MicroWF n isoI.length mm)
    (j : Nat) (hj : j ≤ n) :
    microOf (mirrorMicroMap n isoI.length mm) (mirrorL L isoI) j = mirrorL L (microOf mm isoI (n - j)) := by
  have hr := microAt_inrange hw ((n : Int) - (j : Int))
  have e : (((n - j : Nat) : Nat) : Int) = (n : Int) - (j : Int) := by omega
  simp only [microOf, microAt_mirror, e, List.filterMap_reverse, List.filterMap_map]
  have := filterMap_pyGet_mirror L isoI _ hr
  simp only [Function.comp_def]
  rw [this]
  rfl

end IsoVerif.Lemmas.C11
