/-
Refinement lemmas for the loop functions of src/common.py regenerated into `Gen/Loops.lean`: each generated loop
(index `while` with fuel, `for` over a range, Python lists updated by index) is shown equal to the structural recursion
of the hand model `Model/Interval.lean`.  One file per group of functions, so that a re-opened proof takes down only its
own group; the property-level statements are in `Props/C19Gen.lean`.
-/
import IsoVerif.Lemmas.GenSums
import IsoVerif.Lemmas.GenJunctions
import IsoVerif.Lemmas.GenSweeps
import IsoVerif.Lemmas.GenTruncate
import IsoVerif.Lemmas.GenBinSearch
