/-
Helper lemmas for C17 (identifiers): Python string primitives, decimal rendering, the two fuel loops.
Core Lean only.
-/
import IsoVerif.Model.Ids

namespace IsoVerif.Lemmas.C17
open IsoVerif.Gen IsoVerif.Model.C17

/-! ### separators -/

/-- the first occurrence of a separator determines the split -/
theorem first_sep_unique {α} [DecidableEq α] (sep : α) :
    ∀ (x x' y y' : List α), sep ∉ x → sep ∉ x' → x ++ sep :: y = x' ++ sep :: y' → x = x' ∧ y = y'
  | [], [], y, y', _, _, h => by simpa using h
  | [], c :: x', y, y', _, h2, h => by
      simp at h; simp at h2; exact absurd h.1 h2.1
  | c :: x, [], y, y', h1, _, h => by
      simp at h; simp at h1; exact absurd h.1.symm h1.1
  | c :: x, c' :: x', y, y', h1, h2, h => by
      simp at h h1 h2
      obtain ⟨r1, r2⟩ := first_sep_unique sep x x' y y' h1.2 h2.2 h.2
      exact ⟨by rw [h.1, r1], r2⟩

/-- the last occurrence of a separator determines the split -/
theorem last_sep_unique {α} [DecidableEq α] (sep : α) (x x' y y' : List α)
    (h1 : sep ∉ y) (h2 : sep ∉ y') (h : x ++ sep :: y = x' ++ sep :: y') : x = x' ∧ y = y' := by
  have hr : y.reverse ++ sep :: x.reverse = y'.reverse ++ sep :: x'.reverse := by
    have := congrArg List.reverse h
    simpa using this
  obtain ⟨a, b⟩ := first_sep_unique sep _ _ _ _ (by simpa using h1) (by simpa using h2) hr
  exact ⟨List.reverse_inj.mp b, List.reverse_inj.mp a⟩

/-! ### `split` -/

theorem pySplitGo_ne_nil (sep : Char) : ∀ (s cur : Str), pySplitGo sep cur s ≠ []
  | [], cur => by simp [pySplitGo]
  | c :: cs, cur => by
      simp only [pySplitGo]; split
      · simp
      · exact pySplitGo_ne_nil sep cs _

theorem pySplitGo_no_sep (sep : Char) : ∀ (s cur : Str), sep ∉ s → pySplitGo sep cur s = [cur ++ s]
  | [], cur, _ => by simp [pySplitGo]
  | c :: cs, cur, h => by
      simp at h
      have hc : ¬ c = sep := fun e => h.1 e.symm
      simp [pySplitGo, hc, pySplitGo_no_sep sep cs (cur ++ [c]) h.2]

theorem pySplitGo_head (sep : Char) : ∀ (a cur b : Str), sep ∉ a →
    (pySplitGo sep cur (a ++ sep :: b)).head? = some (cur ++ a)
  | [], cur, b, _ => by simp [pySplitGo]
  | c :: cs, cur, b, h => by
      simp at h
      have hc : ¬ c = sep := fun e => h.1 e.symm
      simp [pySplitGo, hc, pySplitGo_head sep cs (cur ++ [c]) b h.2]

theorem pySplitGo_last (sep : Char) : ∀ (a cur b : Str), sep ∉ b →
    (pySplitGo sep cur (a ++ sep :: b)).getLast? = some b
  | [], cur, b, h => by
      simp [pySplitGo, pySplitGo_no_sep sep b [] h]
  | c :: cs, cur, b, h => by
      by_cases hc : c = sep
      · have hne := pySplitGo_ne_nil sep (cs ++ sep :: b) []
        simp only [List.cons_append, pySplitGo, hc, if_true]
        rw [List.getLast?_cons_of_ne_nil hne]  
        exact pySplitGo_last sep cs [] b h
      · simp only [List.cons_append, pySplitGo, hc, if_false]
        exact pySplitGo_last sep cs _ b h

/-- `(a + sep + b).split(sep)[0] == a` when `sep` does not occur in `a` -/
theorem pySplit_head (sep : Char) (a b : Str) (h : sep ∉ a) : (pySplit sep (a ++ sep :: b)).head? = some a := by
  simpa [pySplit] using pySplitGo_head sep a [] b h

/-- `(a + sep + b).split(sep)[-1] == b` when `sep` does not occur in `b` -/
theorem pySplit_last (sep : Char) (a b : Str) (h : sep ∉ b) : (pySplit sep (a ++ sep :: b)).getLast? = some b := by
  simpa [pySplit] using pySplitGo_last sep a [] b h

/-! ### decimal rendering and `int` -/

theorem pyStrNat_digits {n : Nat} {c : Char} (h : c ∈ pyStrNat n) : c.isDigit = true :=
  Nat.isDigit_of_mem_toDigits (by decide) (by decide) h

theorem pyStrNat_ne_nil (n : Nat) : pyStrNat n ≠ [] := Nat.toDigits_ne_nil

theorem pyStrNat_injective {n m : Nat} (h : pyStrNat n = pyStrNat m) : n = m := by
  have := congrArg (fun l => Nat.ofDigitChars 10 l 0) h
  simpa [pyStrNat] using this

theorem not_digit_not_mem {c : Char} (hc : c.isDigit = false) (n : Nat) : c ∉ pyStrNat n := by
  intro h; rw [pyStrNat_digits h] at hc; exact Bool.noConfusion hc

theorem dot_not_mem (n : Nat) : '.' ∉ pyStrNat n := not_digit_not_mem (by decide) n
theorem underscore_not_mem (n : Nat) : '_' ∉ pyStrNat n := not_digit_not_mem (by decide) n

theorem digit_not_space {c : Char} (h : c.isDigit = true) : isPySpace c = false := by
  cases hs : isPySpace c with
  | false => rfl
  | true =>
    simp only [isPySpace, Bool.or_eq_true, decide_eq_true_eq] at hs
    rcases hs with ((((h1 | h1) | h1) | h1) | h1) | h1 <;> subst h1 <;> simp [Char.isDigit] at h

theorem pyDigits_all_digits : ∀ (l : Str) (acc : Nat), (∀ c ∈ l, c.isDigit = true) →
    pyDigits l acc true = some (Nat.ofDigitChars 10 l acc)
  | [], acc, _ => by simp [pyDigits]
  | c :: cs, acc, h => by
      have hc := h c (by simp)
      simp only [pyDigits, hc, if_true, Nat.ofDigitChars_cons]
      exact pyDigits_all_digits cs _ (fun d hd => h d (by simp [hd]))

theorem pyDigits_all_digits' (l : Str) (hne : l ≠ []) (h : ∀ c ∈ l, c.isDigit = true) :
    pyDigits l 0 false = some (Nat.ofDigitChars 10 l 0) := by
  cases l with
  | nil => exact absurd rfl hne
  | cons c cs =>
    have hc := h c (by simp)
    simp only [pyDigits, hc, if_true, Nat.ofDigitChars_cons]
    exact pyDigits_all_digits cs _ (fun d hd => h d (by simp [hd]))

theorem dropWhile_space_digits (l : Str) (h : ∀ c ∈ l, c.isDigit = true) : l.dropWhile isPySpace = l := by
  cases l with
  | nil => rfl
  | cons c cs => simp [List.dropWhile, digit_not_space (h c (by simp))]

theorem pyStrip_digits (l : Str) (h : ∀ c ∈ l, c.isDigit = true) : pyStrip l = l := by
  unfold pyStrip
  rw [dropWhile_space_digits l h, dropWhile_space_digits l.reverse (by simpa using h)]
  simp

/-- `int(str(n)) == n` -/
theorem pyInt_pyStrNat (n : Nat) : pyInt (pyStrNat n) = some (Int.ofNat n) := by
  have hd : ∀ c ∈ pyStrNat n, c.isDigit = true := fun c hc => pyStrNat_digits hc
  unfold pyInt
  rw [pyStrip_digits _ hd]
  have hv : pyDigits (pyStrNat n) 0 false = some n := by
    rw [pyDigits_all_digits' _ (pyStrNat_ne_nil n) hd]; simp [pyStrNat]
  cases hl : pyStrNat n with
  | nil => exact absurd hl (pyStrNat_ne_nil n)
  | cons c cs =>
    have hc : c.isDigit = true := hd c (by simp [hl])
    have h1 : c ≠ '+' := by intro e; subst e; simp [Char.isDigit] at hc
    have h2 : c ≠ '-' := by intro e; subst e; simp [Char.isDigit] at hc
    rw [hl] at hv
    split
    · next r heq => simp at heq; exact absurd heq.1 h1
    · next r heq => simp at heq; exact absurd heq.1 h2
    · simp [hv]

/-! ### the generated `TranscriptNaming` constants: the facts the id scheme relies on
(closed by evaluation of the regenerated constants; an edit of `TranscriptNaming` re-opens them) -/

theorem transcript_prefix_no_dot : '.' ∉ tn_transcript_prefix.toList := by decide
theorem nic_suffix_shape : ∃ w, tn_nic_transcript_suffix.toList = '.' :: w ∧ '.' ∉ w := ⟨_, rfl, by decide⟩
theorem nnic_suffix_shape : ∃ w, tn_nnic_transcript_suffix.toList = '.' :: w ∧ '.' ∉ w := ⟨_, rfl, by decide⟩
theorem suffix_shape (nic : Bool) : ∃ w, transcriptSuffix nic = '.' :: w ∧ '.' ∉ w := by
  cases nic
  · simpa [transcriptSuffix] using nnic_suffix_shape
  · simpa [transcriptSuffix] using nic_suffix_shape
theorem suffixes_differ : tn_nic_transcript_suffix.toList ≠ tn_nnic_transcript_suffix.toList := by decide
theorem transcriptSuffix_injective {a b : Bool} (h : transcriptSuffix a = transcriptSuffix b) : a = b := by
  cases a <;> cases b <;> simp [transcriptSuffix] at h ⊢
  · exact suffixes_differ h.symm
  · exact suffixes_differ h

/-! ### parse ∘ format -/

theorem isPrefixOf_append (p s : Str) : p.isPrefixOf (p ++ s) = true := by
  induction p with
  | nil => simp
  | cons c cs ih => simp [ih]

/-- the forbidden-number parser recovers `n` from every id the formatter can produce with `n` -/
theorem transcriptNumber_novel (n : Nat) (chr : Str) (nic : Bool) :
    transcriptNumber (novelTranscriptId n chr nic) = some (Int.ofNat n) := by
  have hsep : '.' ∉ tn_transcript_prefix.toList ++ pyStrNat n := by
    simp only [List.mem_append, not_or]; exact ⟨transcript_prefix_no_dot, dot_not_mem n⟩
  have hform : novelTranscriptId n chr nic
      = (tn_transcript_prefix.toList ++ pyStrNat n) ++ '.' :: (chr ++ transcriptSuffix nic) := by
    simp [novelTranscriptId, novelTranscriptStem]
  unfold transcriptNumber
  rw [hform, pySplit_head '.' _ _ hsep]
  have hp : tn_transcript_prefix.toList.isPrefixOf
      (tn_transcript_prefix.toList ++ pyStrNat n ++ '.' :: (chr ++ transcriptSuffix nic)) = true := by
    rw [List.append_assoc]; exact isPrefixOf_append _ _
  simp only [hp, if_true, List.drop_left]
  exact pyInt_pyStrNat n

theorem geneNumber_novel (chr : Str) (n : Nat) : geneNumber (novelGeneId chr n) = some (Int.ofNat n) := by
  have hform : novelGeneId chr n = (tn_novel_gene_prefix.toList ++ chr) ++ '_' :: pyStrNat n := by
    simp [novelGeneId]
  unfold geneNumber
  rw [hform, pySplit_last '_' _ _ (underscore_not_mem n)]
  have hp : tn_novel_gene_prefix.toList.isPrefixOf
      (tn_novel_gene_prefix.toList ++ chr ++ '_' :: pyStrNat n) = true := by
    rw [List.append_assoc]; exact isPrefixOf_append _ _
  simp only [hp, if_true]
  exact pyInt_pyStrNat n

/-! ### formatting is injective -/

theorem novelTranscriptId_injective {n n' : Nat} {c c' : Str} {s s' : Bool}
    (h : novelTranscriptId n c s = novelTranscriptId n' c' s') : n = n' ∧ c = c' ∧ s = s' := by
  obtain ⟨w, hw, hwd⟩ := suffix_shape s
  obtain ⟨w', hw', hwd'⟩ := suffix_shape s'
  simp only [novelTranscriptId, novelTranscriptStem, List.append_assoc, List.append_cancel_left_eq] at h
  -- digits n ++ '.' :: (c ++ suffix) : the first dot ends the number
  obtain ⟨h1, h2⟩ := first_sep_unique '.' _ _ _ _ (dot_not_mem n) (dot_not_mem n') h
  have hn := pyStrNat_injective h1
  -- c ++ '.' :: w : the last dot starts the suffix
  rw [hw, hw'] at h2
  obtain ⟨h3, h4⟩ := last_sep_unique '.' _ _ _ _ hwd hwd' h2
  refine ⟨hn, h3, transcriptSuffix_injective ?_⟩
  rw [hw, hw', h4]

theorem novelGeneId_injective {n n' : Nat} {c c' : Str} (h : novelGeneId c n = novelGeneId c' n') :
    c = c' ∧ n = n' := by
  simp only [novelGeneId] at h
  obtain ⟨h1, h2⟩ := last_sep_unique '_' _ _ _ _ (underscore_not_mem n) (underscore_not_mem n') h
  exact ⟨List.append_cancel_left h1, pyStrNat_injective h2⟩

theorem exonIdStr_injective {n n' : Nat} {c c' : Str} (h : exonIdStr c n = exonIdStr c' n') :
    c = c' ∧ n = n' := by
  obtain ⟨h1, h2⟩ := last_sep_unique '.' _ _ _ _ (dot_not_mem n) (dot_not_mem n') h
  exact ⟨h1, pyStrNat_injective h2⟩

/-! ### the `while value in forbidden` loop -/

theorem skipForbidden_spec (forb : List Int) : ∀ (fuel v r : Nat), skipForbidden forb fuel v = some r →
    v ≤ r ∧ Int.ofNat r ∉ forb ∧ ∀ u, v ≤ u → u < r → Int.ofNat u ∈ forb
  | 0, v, r, h => by simp [skipForbidden] at h
  | fuel + 1, v, r, h => by
      simp only [skipForbidden] at h
      split at h
      · next hm =>
        obtain ⟨h1, h2, h3⟩ := skipForbidden_spec forb fuel (v + 1) r h
        refine ⟨by omega, h2, fun u hu hur => ?_⟩
        by_cases e : u = v
        · subst e; exact hm
        · exact h3 u (by omega) hur
      · next hm =>
        simp only [Option.some.injEq] at h; subst h
        exact ⟨Nat.le_refl _, hm, fun u hu hur => by omega⟩

/-- the loop only looks at the numbers from `v` on -/
theorem skipForbidden_congr (forb forb' : List Int) : ∀ (fuel v : Nat),
    (∀ u, v ≤ u → (Int.ofNat u ∈ forb ↔ Int.ofNat u ∈ forb')) →
    skipForbidden forb fuel v = skipForbidden forb' fuel v
  | 0, _, _ => rfl
  | fuel + 1, v, h => by
      have hv := h v (Nat.le_refl _)
      simp only [skipForbidden]
      by_cases hm : Int.ofNat v ∈ forb
      · rw [if_pos hm, if_pos (hv.mp hm)]
        exact skipForbidden_congr forb forb' fuel (v + 1) (fun u hu => h u (by omega))
      · rw [if_neg hm, if_neg (fun x => hm (hv.mpr x))]

/-- the loop ends before the fuel `|forbidden| + 1` is used up (each skipped value removes one element) -/
theorem skipForbidden_total : ∀ (fuel : Nat) (forb : List Int) (v : Nat), forb.length < fuel →
    ∃ r, skipForbidden forb fuel v = some r
  | 0, _, _, h => by omega
  | fuel + 1, forb, v, h => by
      simp only [skipForbidden]
      by_cases hm : Int.ofNat v ∈ forb
      · rw [if_pos hm, skipForbidden_congr forb (forb.erase (Int.ofNat v)) fuel (v + 1)]
        · apply skipForbidden_total fuel
          rw [List.length_erase_of_mem hm]
          have : 0 < forb.length := List.length_pos_of_mem hm
          omega
        · intro u hu
          have hne : Int.ofNat u ≠ Int.ofNat v := by
            intro e; have := Int.ofNat.inj e; omega
          exact (List.mem_erase_of_ne hne).symm
      · exact ⟨v, by rw [if_neg hm]⟩

theorem increment_total (d : IdDistributor) : ∃ v d', d.increment = some (v, d') := by
  obtain ⟨r, hr⟩ := skipForbidden_total (d.forbidden.length + 1) d.forbidden (d.value + 1) (Nat.lt_succ_self _)
  exact ⟨r, { d with value := r }, by simp [IdDistributor.increment, hr]⟩

theorem increment_spec {d d' : IdDistributor} {v : Nat} (h : d.increment = some (v, d')) :
    d'.value = v ∧ d'.forbidden = d.forbidden ∧ d.value < v ∧ Int.ofNat v ∉ d.forbidden ∧
    ∀ u, d.value < u → u < v → Int.ofNat u ∈ d.forbidden := by
  unfold IdDistributor.increment at h
  split at h
  · exact absurd h (by simp)
  · next r hr =>
    simp only [Option.some.injEq, Prod.mk.injEq] at h
    obtain ⟨h1, h2⟩ := h
    subst h1; subst h2
    obtain ⟨a, b, c⟩ := skipForbidden_spec _ _ _ _ hr
    exact ⟨rfl, rfl, by omega, b, fun u hu huv => c u (by omega) huv⟩

/-! ### numbers drawn by a history of construction events -/

/-- the numbers a model carries: its transcript number and, for a new gene, the gene number -/
def modelNums (m : NovelModel) : List Nat :=
  match m.gene with
  | .ref _ => [m.tnum]
  | .novel g => [m.tnum, g]

def allNums (ms : List NovelModel) : List Nat := ms.flatMap modelNums

/-- what a run of events guarantees about the numbers of the models it produced -/
structure NumsOk (d d' : IdDistributor) (ms : List NovelModel) : Prop where
  forb : d'.forbidden = d.forbidden
  mono : d.value ≤ d'.value
  sorted : (allNums ms).Pairwise (· < ·)
  range : ∀ n ∈ allNums ms, d.value < n ∧ n ≤ d'.value ∧ Int.ofNat n ∉ d.forbidden

theorem stepEvent_total (d : IdDistributor) (e : IdEvent) : ∃ ms d', stepEvent d e = some (ms, d') := by
  obtain ⟨n, d1, h1⟩ := increment_total d
  obtain ⟨m, d2, h2⟩ := increment_total d1
  cases h : stepEvent d e with
  | some r => exact ⟨r.1, r.2, rfl⟩
  | none =>
    exfalso
    cases e with
    | flDiscard => simp [stepEvent, h1] at h
    | flNovel g nic => cases g <;> simp [stepEvent, h1, h2] at h
    | monoexon v => simp [stepEvent, h1, h2] at h

theorem stepEvent_spec {d d' : IdDistributor} {e : IdEvent} {ms : List NovelModel}
    (h : stepEvent d e = some (ms, d')) : NumsOk d d' ms ∧ d.value < d'.value := by
  obtain ⟨n, d1, h1⟩ := increment_total d
  obtain ⟨m, d2, h2⟩ := increment_total d1
  obtain ⟨a1, a2, a3, a4, _⟩ := increment_spec h1
  obtain ⟨b1, b2, b3, b4, _⟩ := increment_spec h2
  rw [a2] at b4
  cases e with
  | flDiscard =>
    simp only [stepEvent, h1, Option.some.injEq, Prod.mk.injEq] at h
    obtain ⟨rfl, rfl⟩ := h
    exact ⟨⟨a2, by omega, by simp [allNums], by simp [allNums]⟩, by omega⟩
  | flNovel g nic =>
    cases g with
    | some g =>
      simp only [stepEvent, h1, Option.some.injEq, Prod.mk.injEq] at h
      obtain ⟨rfl, rfl⟩ := h
      refine ⟨⟨a2, by omega, by simp [allNums, modelNums], ?_⟩, by omega⟩
      intro k hk
      simp [allNums, modelNums] at hk
      subst hk; exact ⟨a3, by omega, a4⟩
    | none =>
      simp only [stepEvent, h1, h2, Option.some.injEq, Prod.mk.injEq] at h
      obtain ⟨rfl, rfl⟩ := h
      refine ⟨⟨by rw [b2, a2], by omega, by simp [allNums, modelNums]; omega, ?_⟩, by omega⟩
      intro k hk
      simp [allNums, modelNums] at hk
      rcases hk with rfl | rfl
      · exact ⟨a3, by omega, a4⟩
      · exact ⟨by omega, by omega, b4⟩
  | monoexon v =>
    simp only [stepEvent, h1, h2, Option.some.injEq, Prod.mk.injEq] at h
    obtain ⟨rfl, rfl⟩ := h
    cases v with
    | false => exact ⟨⟨by rw [b2, a2], by omega, by simp [allNums], by simp [allNums]⟩, by omega⟩
    | true =>
      refine ⟨⟨by rw [b2, a2], by omega, by simp [allNums, modelNums]; omega, ?_⟩, by omega⟩
      intro k hk
      simp [allNums, modelNums] at hk
      rcases hk with rfl | rfl
      · exact ⟨a3, by omega, a4⟩
      · exact ⟨by omega, by omega, b4⟩

theorem runEvents_total : ∀ (es : List IdEvent) (d : IdDistributor), ∃ ms d', runEvents d es = some (ms, d')
  | [], d => ⟨[], d, rfl⟩
  | e :: es, d => by
      obtain ⟨ms, d1, h1⟩ := stepEvent_total d e
      obtain ⟨ms', d2, h2⟩ := runEvents_total es d1
      exact ⟨ms ++ ms', d2, by simp [runEvents, h1, h2]⟩

theorem runEvents_spec : ∀ (es : List IdEvent) (d d' : IdDistributor) (ms : List NovelModel),
    runEvents d es = some (ms, d') → NumsOk d d' ms
  | [], d, d', ms, h => by
      simp only [runEvents, Option.some.injEq, Prod.mk.injEq] at h
      obtain ⟨rfl, rfl⟩ := h
      exact ⟨rfl, Nat.le_refl _, by simp [allNums], by simp [allNums]⟩
  | e :: es, d, d', ms, h => by
      obtain ⟨ms1, d1, h1⟩ := stepEvent_total d e
      obtain ⟨ms2, d2, h2⟩ := runEvents_total es d1
      simp only [runEvents, h1, h2, Option.some.injEq, Prod.mk.injEq] at h
      obtain ⟨rfl, rfl⟩ := h
      obtain ⟨A, hlt⟩ := stepEvent_spec h1
      have B := runEvents_spec es d1 d2 ms2 h2
      refine ⟨by rw [B.forb, A.forb], by have := A.mono; have := B.mono; omega, ?_, ?_⟩
      · simp only [allNums, List.flatMap_append]
        rw [List.pairwise_append]
        refine ⟨A.sorted, B.sorted, fun a ha b hb => ?_⟩
        have := (A.range a ha).2.1
        have := (B.range b hb).1
        omega
      · intro n hn
        simp only [allNums, List.flatMap_append, List.mem_append] at hn
        rcases hn with hn | hn
        · obtain ⟨x, y, z⟩ := A.range n hn
          exact ⟨x, by have := B.mono; omega, z⟩
        · obtain ⟨x, y, z⟩ := B.range n hn
          exact ⟨by omega, y, by rw [← A.forb]; exact z⟩

theorem tnum_mem_allNums {ms : List NovelModel} {m : NovelModel} (h : m ∈ ms) : m.tnum ∈ allNums ms := by
  simp only [allNums, List.mem_flatMap]
  refine ⟨m, h, ?_⟩
  unfold modelNums; split <;> simp

theorem gnum_mem_allNums {ms : List NovelModel} {m : NovelModel} {g : Nat} (h : m ∈ ms)
    (hg : m.gene = .novel g) : g ∈ allNums ms := by
  simp only [allNums, List.mem_flatMap]
  exact ⟨m, h, by simp [modelNums, hg]⟩

/-! ### FeatureIdStorage -/

theorem freshLoop_spec (chr : Str) (used : List Str) : ∀ (fuel : Nat) (d d' : IdDistributor) (id : Str),
    freshLoop chr used fuel d = some (id, d') →
    d.value < d'.value ∧ d'.forbidden = d.forbidden ∧ id = exonIdStr chr d'.value ∧ id ∉ used
  | 0, _, _, _, h => by simp [freshLoop] at h
  | fuel + 1, d, d', id, h => by
      obtain ⟨v, d1, h1⟩ := increment_total d
      obtain ⟨a1, a2, a3, _, _⟩ := increment_spec h1
      simp only [freshLoop, h1] at h
      split at h
      · obtain ⟨b1, b2, b3, b4⟩ := freshLoop_spec chr used fuel d1 d' id h
        exact ⟨by omega, by rw [b2, a2], b3, b4⟩
      · next hm =>
        simp only [Option.some.injEq, Prod.mk.injEq] at h
        obtain ⟨rfl, rfl⟩ := h
        exact ⟨by omega, a2, by rw [a1], hm⟩

theorem freshLoop_congr (chr : Str) (used used' : List Str) : ∀ (fuel : Nat) (d : IdDistributor),
    (∀ n, d.value < n → (exonIdStr chr n ∈ used ↔ exonIdStr chr n ∈ used')) →
    freshLoop chr used fuel d = freshLoop chr used' fuel d
  | 0, _, _ => rfl
  | fuel + 1, d, h => by
      obtain ⟨v, d1, h1⟩ := increment_total d
      obtain ⟨a1, _, a3, _, _⟩ := increment_spec h1
      have hv := h v a3
      simp only [freshLoop, h1]
      by_cases hm : exonIdStr chr v ∈ used
      · rw [if_pos hm, if_pos (hv.mp hm)]
        exact freshLoop_congr chr used used' fuel d1 (fun n hn => h n (by omega))
      · rw [if_neg hm, if_neg (fun x => hm (hv.mpr x))]

/-- the `while feature_id in used_ids` loop ends within `|used_ids| + 1` draws -/
theorem freshLoop_total (chr : Str) : ∀ (fuel : Nat) (used : List Str) (d : IdDistributor),
    used.length < fuel → ∃ r, freshLoop chr used fuel d = some r
  | 0, _, _, h => by omega
  | fuel + 1, used, d, h => by
      obtain ⟨v, d1, h1⟩ := increment_total d
      obtain ⟨a1, _, _, _, _⟩ := increment_spec h1
      simp only [freshLoop, h1]
      by_cases hm : exonIdStr chr v ∈ used
      · rw [if_pos hm, freshLoop_congr chr used (used.erase (exonIdStr chr v)) fuel d1]
        · apply freshLoop_total chr fuel
          rw [List.length_erase_of_mem hm]
          have : 0 < used.length := List.length_pos_of_mem hm
          omega
        · intro n hn
          have hne : exonIdStr chr n ≠ exonIdStr chr v := by
            intro e; have := (exonIdStr_injective e).2; omega
          exact (List.mem_erase_of_ne hne).symm
      · exact ⟨_, by rw [if_neg hm]⟩

/-- invariant of the storage: every bound id is a reference id or a fresh `chr.N` (with the key's own
    chromosome, `N` already drawn, not a reference id); and the visible bindings are injective -/
structure StInv (st : FeatureIdStorage) : Prop where
  origin : ∀ k id, dictGet k st.dict = some id →
    id ∈ st.used ∨ (∃ n, n ≤ st.dist.value ∧ id = exonIdStr k.1 n ∧ id ∉ st.used)
  inj : ∀ k1 k2 id, dictGet k1 st.dict = some id → dictGet k2 st.dict = some id → k1 = k2

theorem getId_total (st : FeatureIdStorage) (k : ExonKey) : ∃ id st', st.getId k = some (id, st') := by
  unfold FeatureIdStorage.getId
  cases hl : dictGet k st.dict with
  | some id => exact ⟨id, st, rfl⟩
  | none =>
    obtain ⟨r, hr⟩ := freshLoop_total k.1 (st.used.length + 1) st.used st.dist (Nat.lt_succ_self _)
    exact ⟨r.1, { st with dist := r.2, dict := (k, r.1) :: st.dict }, by simp only [hr]⟩

/-- one call: the answer is (and stays) the binding of the key, old bindings are untouched, the
    invariant is kept -/
theorem getId_spec {st st' : FeatureIdStorage} {k : ExonKey} {id : Str} (h : st.getId k = some (id, st')) :
    dictGet k st'.dict = some id ∧
    (∀ k' id', dictGet k' st.dict = some id' → dictGet k' st'.dict = some id') ∧
    st'.used = st.used ∧ (StInv st → StInv st') := by
  unfold FeatureIdStorage.getId at h
  cases hl : dictGet k st.dict with
  | some id0 =>
    simp only [hl, Option.some.injEq, Prod.mk.injEq] at h
    obtain ⟨rfl, rfl⟩ := h
    exact ⟨hl, fun _ _ x => x, rfl, fun x => x⟩
  | none =>
    simp only [hl] at h
    cases hf : freshLoop k.1 st.used (st.used.length + 1) st.dist with
    | none => simp [hf] at h
    | some r =>
      obtain ⟨fid, d1⟩ := r
      simp only [hf, Option.some.injEq, Prod.mk.injEq] at h
      obtain ⟨rfl, rfl⟩ := h
      obtain ⟨b1, _, b3, b4⟩ := freshLoop_spec _ _ _ _ _ _ hf
      refine ⟨by simp [dictGet], ?_, rfl, ?_⟩
      · intro k' id' hk'
        have hne : k' ≠ k := by intro e; rw [e, hl] at hk'; cases hk'
        simp [dictGet, hne, hk']
      · intro inv
        constructor
        · intro k' id' hk'
          simp only [dictGet] at hk'
          split at hk'
          · next e =>
            simp only [Option.some.injEq] at hk'
            subst e; subst hk'
            exact Or.inr ⟨d1.value, Nat.le_refl _, b3, b4⟩
          · rcases inv.origin k' id' hk' with x | ⟨n, n1, n2, n3⟩
            · exact Or.inl x
            · exact Or.inr ⟨n, by simp only; omega, n2, n3⟩
        · intro k1 k2 id' h1 h2
          simp only [dictGet] at h1 h2
          -- a fresh id differs from every id bound before
          have hnew : ∀ k', dictGet k' st.dict = some fid → False := by
            intro k' hk'
            rcases inv.origin k' fid hk' with x | ⟨n, n1, n2, _⟩
            · exact b4 x
            · rw [b3] at n2
              have := (exonIdStr_injective n2).2
              omega
          split at h1 <;> split at h2
          · next e1 e2 => rw [e1, e2]
          · next e1 e2 =>
            simp only [Option.some.injEq] at h1; subst h1
            exact absurd h2 (fun x => hnew k2 x)
          · next e1 e2 =>
            simp only [Option.some.injEq] at h2; subst h2
            exact absurd h1 (fun x => hnew k1 x)
          · exact inv.inj k1 k2 id' h1 h2

theorem getIds_total : ∀ (ks : List ExonKey) (st : FeatureIdStorage), ∃ ids st', st.getIds ks = some (ids, st')
  | [], st => ⟨[], st, rfl⟩
  | k :: ks, st => by
      obtain ⟨id, st1, h1⟩ := getId_total st k
      obtain ⟨ids, st2, h2⟩ := getIds_total ks st1
      exact ⟨id :: ids, st2, by simp [FeatureIdStorage.getIds, h1, h2]⟩

/-- a whole call history: every (key, answer) pair of the history is a binding of the final table, the
    bindings that existed before the history are still there, the invariant is kept -/
theorem getIds_spec : ∀ (ks : List ExonKey) (st st' : FeatureIdStorage) (ids : List Str),
    st.getIds ks = some (ids, st') →
    ids.length = ks.length ∧
    (∀ p ∈ ks.zip ids, dictGet p.1 st'.dict = some p.2) ∧
    (∀ k' id', dictGet k' st.dict = some id' → dictGet k' st'.dict = some id') ∧
    st'.used = st.used ∧ (StInv st → StInv st')
  | [], st, st', ids, h => by
      simp only [FeatureIdStorage.getIds, Option.some.injEq, Prod.mk.injEq] at h
      obtain ⟨rfl, rfl⟩ := h
      exact ⟨rfl, by simp, fun _ _ x => x, rfl, fun x => x⟩
  | k :: ks, st, st', ids, h => by
      obtain ⟨id, st1, h1⟩ := getId_total st k
      obtain ⟨ids2, st2, h2⟩ := getIds_total ks st1
      simp only [FeatureIdStorage.getIds, h1, h2, Option.some.injEq, Prod.mk.injEq] at h
      obtain ⟨rfl, rfl⟩ := h
      obtain ⟨a1, a2, a3, a4⟩ := getId_spec h1
      obtain ⟨b0, b1, b2, b3, b4⟩ := getIds_spec ks st1 st2 ids2 h2
      refine ⟨by simp [b0], ?_, fun k' id' x => b2 _ _ (a2 _ _ x), by rw [b3, a3], fun x => b4 (a4 x)⟩
      intro p hp
      simp only [List.zip_cons_cons, List.mem_cons] at hp
      rcases hp with rfl | hp
      · exact b2 _ _ a1
      · exact b1 p hp

/-! ### loading the reference `exon_id`s -/

/-- the `exon_id` a reference feature contributes (`attributes["exon_id"][0]`), if any -/
def refId (f : RefFeature) : Option Str :=
  match f.idAttr with
  | some (id :: _) => some id
  | _ => none

def refKey (chr : Str) (f : RefFeature) : ExonKey := (chr, f.start, f.stop, f.strand)

theorem load_eq (chr : Str) (st : FeatureIdStorage) (f : RefFeature) :
    FeatureIdStorage.load chr st f =
      match refId f with
      | none => st
      | some id => { st with dict := (refKey chr f, id) :: st.dict, used := id :: st.used } := by
  unfold FeatureIdStorage.load refId refKey
  cases h : f.idAttr with
  | none => rfl
  | some l => cases l <;> rfl

theorem foldl_load_spec (chr : Str) : ∀ (feats : List RefFeature) (st : FeatureIdStorage),
    let r := feats.foldl (FeatureIdStorage.load chr) st
    r.dist = st.dist ∧
    (∀ k id, dictGet k r.dict = some id →
      dictGet k st.dict = some id ∨ ∃ f ∈ feats, refId f = some id ∧ k = refKey chr f) ∧
    (∀ id, id ∈ r.used ↔ id ∈ st.used ∨ ∃ f ∈ feats, refId f = some id) ∧
    (∀ k, (dictGet k st.dict).isSome → (dictGet k r.dict).isSome) ∧
    (∀ f ∈ feats, (refId f).isSome → (dictGet (refKey chr f) r.dict).isSome)
  | [], st => by simp
  | f :: fs, st => by
      intro r
      have ih := foldl_load_spec chr fs (FeatureIdStorage.load chr st f)
      simp only [] at ih
      obtain ⟨i1, i2, i3, i4, i5⟩ := ih
      have hr : r = fs.foldl (FeatureIdStorage.load chr) (FeatureIdStorage.load chr st f) := rfl
      rw [hr]
      rw [load_eq] at i1 i2 i3 i4 i5 ⊢
      cases hf : refId f with
      | none =>
        simp only [hf] at i1 i2 i3 i4 i5 ⊢
        refine ⟨i1, ?_, ?_, i4, ?_⟩
        · intro k id h
          rcases i2 k id h with x | ⟨g, g1, g2, g3⟩
          · exact Or.inl x
          · exact Or.inr ⟨g, by simp [g1], g2, g3⟩
        · intro id
          rw [i3 id]
          constructor
          · rintro (x | ⟨g, g1, g2⟩)
            · exact Or.inl x
            · exact Or.inr ⟨g, by simp [g1], g2⟩
          · rintro (x | ⟨g, g1, g2⟩)
            · exact Or.inl x
            · simp only [List.mem_cons] at g1
              rcases g1 with rfl | g1
              · rw [hf] at g2; cases g2
              · exact Or.inr ⟨g, g1, g2⟩
        · intro g hg hs
          simp only [List.mem_cons] at hg
          rcases hg with rfl | hg
          · rw [hf] at hs; cases hs
          · exact i5 g hg hs
      | some fid =>
        simp only [hf] at i1 i2 i3 i4 i5 ⊢
        refine ⟨i1, ?_, ?_, ?_, ?_⟩
        · intro k id h
          rcases i2 k id h with x | ⟨g, g1, g2, g3⟩
          · simp only [dictGet] at x
            split at x
            · next e =>
              simp only [Option.some.injEq] at x
              exact Or.inr ⟨f, by simp, by rw [hf, x], e⟩
            · exact Or.inl x
          · exact Or.inr ⟨g, by simp [g1], g2, g3⟩
        · intro id
          rw [i3 id]
          constructor
          · rintro (x | ⟨g, g1, g2⟩)
            · simp only [List.mem_cons] at x
              rcases x with rfl | x
              · exact Or.inr ⟨f, by simp, hf⟩
              · exact Or.inl x
            · exact Or.inr ⟨g, by simp [g1], g2⟩
          · rintro (x | ⟨g, g1, g2⟩)
            · exact Or.inl (by simp [x])
            · simp only [List.mem_cons] at g1
              rcases g1 with rfl | g1
              · rw [hf] at g2; simp only [Option.some.injEq] at g2
                exact Or.inl (by simp [g2])
              · exact Or.inr ⟨g, g1, g2⟩
        · intro k hk
          apply i4
          simp only [dictGet]
          split
          · rfl
          · exact hk
        · intro g hg hs
          simp only [List.mem_cons] at hg
          rcases hg with rfl | hg
          · apply i4
            simp [dictGet]
          · exact i5 g hg hs

/-! ### loading the reference records of all feature types (the repaired `__init__`) -/

/-- the `exon_id` value a record of any type contributes to `used_ids` -/
def recId (r : RefRecord) : Option Str := refId r.feat

def recKey (chr : Str) (r : RefRecord) : ExonKey := refKey chr r.feat

theorem loadRecord_eq (chr : Str) (st : FeatureIdStorage) (r : RefRecord) :
    FeatureIdStorage.loadRecord chr st r =
      match recId r with
      | none => st
      | some id =>
        if r.ofType then { st with dict := (recKey chr r, id) :: st.dict, used := id :: st.used }
        else { st with used := id :: st.used } := by
  unfold FeatureIdStorage.loadRecord recId refId recKey refKey
  cases h : r.feat.idAttr with
  | none => rfl
  | some l => cases l <;> rfl

/-- a record of the requested type is loaded exactly as `FeatureIdStorage.load` loads its feature -/
theorem loadRecord_ofType (chr : Str) (st : FeatureIdStorage) (f : RefFeature) :
    FeatureIdStorage.loadRecord chr st ⟨true, f⟩ = FeatureIdStorage.load chr st f := by
  unfold FeatureIdStorage.loadRecord FeatureIdStorage.load
  cases h : f.idAttr with
  | none => rfl
  | some l => cases l <;> rfl

/-- `FeatureIdStorage.init` is `initRecords` on a reference all of whose records are of the requested type -/
theorem initRecords_of_features (dist : IdDistributor) (genedb : Option (List RefFeature)) (chr : Str) :
    FeatureIdStorage.initRecords dist (genedb.map (List.map (RefRecord.mk true))) chr =
      FeatureIdStorage.init dist genedb chr := by
  cases genedb with
  | none => rfl
  | some feats =>
    simp only [Option.map_some, FeatureIdStorage.initRecords, FeatureIdStorage.init]
    split
    · rfl
    · rw [List.foldl_map]
      have e : (fun (st : FeatureIdStorage) (f : RefFeature) => FeatureIdStorage.loadRecord chr st ⟨true, f⟩) =
          FeatureIdStorage.load chr := by
        funext st f
        exact loadRecord_ofType chr st f
      rw [e]

theorem foldl_loadRecord_spec (chr : Str) : ∀ (recs : List RefRecord) (st : FeatureIdStorage),
    let r := recs.foldl (FeatureIdStorage.loadRecord chr) st
    r.dist = st.dist ∧
    (∀ k id, dictGet k r.dict = some id →
      dictGet k st.dict = some id ∨ ∃ f ∈ recs, f.ofType = true ∧ recId f = some id ∧ k = recKey chr f) ∧
    (∀ id, id ∈ r.used ↔ id ∈ st.used ∨ ∃ f ∈ recs, recId f = some id) ∧
    (∀ k, (dictGet k st.dict).isSome → (dictGet k r.dict).isSome) ∧
    (∀ f ∈ recs, f.ofType = true → (recId f).isSome → (dictGet (recKey chr f) r.dict).isSome)
  | [], st => by simp
  | f :: fs, st => by
      intro r
      have ih := foldl_loadRecord_spec chr fs (FeatureIdStorage.loadRecord chr st f)
      simp only [] at ih
      obtain ⟨i1, i2, i3, i4, i5⟩ := ih
      have hr : r = fs.foldl (FeatureIdStorage.loadRecord chr) (FeatureIdStorage.loadRecord chr st f) := rfl
      rw [hr]
      rw [loadRecord_eq] at i1 i2 i3 i4 i5 ⊢
      -- the `used_ids` part does not depend on the record type
      have used_some : ∀ fid, recId f = some fid → ∀ id,
          (id ∈ fid :: st.used ∨ ∃ g ∈ fs, recId g = some id) ↔ (id ∈ st.used ∨ ∃ g ∈ f :: fs, recId g = some id) := by
        intro fid hf id
        constructor
        · rintro (x | ⟨g, g1, g2⟩)
          · simp only [List.mem_cons] at x
            rcases x with rfl | x
            · exact Or.inr ⟨f, by simp, hf⟩
            · exact Or.inl x
          · exact Or.inr ⟨g, by simp [g1], g2⟩
        · rintro (x | ⟨g, g1, g2⟩)
          · exact Or.inl (by simp [x])
          · simp only [List.mem_cons] at g1
            rcases g1 with rfl | g1
            · rw [hf] at g2; simp only [Option.some.injEq] at g2
              exact Or.inl (by simp [g2])
            · exact Or.inr ⟨g, g1, g2⟩
      cases hf : recId f with
      | none =>
        simp only [hf] at i1 i2 i3 i4 i5 ⊢
        refine ⟨i1, ?_, ?_, i4, ?_⟩
        · intro k id h
          rcases i2 k id h with x | ⟨g, g1, g2, g3, g4⟩
          · exact Or.inl x
          · exact Or.inr ⟨g, by simp [g1], g2, g3, g4⟩
        · intro id
          rw [i3 id]
          constructor
          · rintro (x | ⟨g, g1, g2⟩)
            · exact Or.inl x
            · exact Or.inr ⟨g, by simp [g1], g2⟩
          · rintro (x | ⟨g, g1, g2⟩)
            · exact Or.inl x
            · simp only [List.mem_cons] at g1
              rcases g1 with rfl | g1
              · rw [hf] at g2; cases g2
              · exact Or.inr ⟨g, g1, g2⟩
        · intro g hg ht hs
          simp only [List.mem_cons] at hg
          rcases hg with rfl | hg
          · rw [hf] at hs; cases hs
          · exact i5 g hg ht hs
      | some fid =>
        cases hty : f.ofType with
        | true =>
          simp only [hf, hty, if_true] at i1 i2 i3 i4 i5 ⊢
          refine ⟨i1, ?_, ?_, ?_, ?_⟩
          · intro k id h
            rcases i2 k id h with x | ⟨g, g1, g2, g3, g4⟩
            · simp only [dictGet] at x
              split at x
              · next e =>
                simp only [Option.some.injEq] at x
                exact Or.inr ⟨f, by simp, hty, by rw [hf, x], e⟩
              · exact Or.inl x
            · exact Or.inr ⟨g, by simp [g1], g2, g3, g4⟩
          · intro id
            rw [i3 id]
            exact used_some fid hf id
          · intro k hk
            apply i4
            simp only [dictGet]
            split
            · rfl
            · exact hk
          · intro g hg ht hs
            simp only [List.mem_cons] at hg
            rcases hg with rfl | hg
            · apply i4
              simp [dictGet]
            · exact i5 g hg ht hs
        | false =>
          simp only [hf, hty, Bool.false_eq_true, if_false] at i1 i2 i3 i4 i5 ⊢
          refine ⟨i1, ?_, ?_, i4, ?_⟩
          · intro k id h
            rcases i2 k id h with x | ⟨g, g1, g2, g3, g4⟩
            · exact Or.inl x
            · exact Or.inr ⟨g, by simp [g1], g2, g3, g4⟩
          · intro id
            rw [i3 id]
            exact used_some fid hf id
          · intro g hg ht hs
            simp only [List.mem_cons] at hg
            rcases hg with rfl | hg
            · rw [hty] at ht; cases ht
            · exact i5 g hg ht hs

/-- where a binding of the table after one call comes from: it was there before, or it is a fresh `chr.N`
    (with the key's own chromosome) that is not in `used_ids` -/
theorem getId_origin {st st' : FeatureIdStorage} {k : ExonKey} {id : Str} (h : st.getId k = some (id, st')) :
    ∀ k' id', dictGet k' st'.dict = some id' →
      dictGet k' st.dict = some id' ∨ (id' ∉ st.used ∧ ∃ n, id' = exonIdStr k'.1 n) := by
  unfold FeatureIdStorage.getId at h
  cases hl : dictGet k st.dict with
  | some id0 =>
    simp only [hl, Option.some.injEq, Prod.mk.injEq] at h
    obtain ⟨rfl, rfl⟩ := h
    exact fun _ _ x => Or.inl x
  | none =>
    simp only [hl] at h
    cases hf : freshLoop k.1 st.used (st.used.length + 1) st.dist with
    | none => simp [hf] at h
    | some r =>
      obtain ⟨fid, d1⟩ := r
      simp only [hf, Option.some.injEq, Prod.mk.injEq] at h
      obtain ⟨rfl, rfl⟩ := h
      obtain ⟨_, _, b3, b4⟩ := freshLoop_spec _ _ _ _ _ _ hf
      intro k' id' hk'
      simp only [dictGet] at hk'
      split at hk'
      · next e =>
        simp only [Option.some.injEq] at hk'
        subst e; subst hk'
        exact Or.inr ⟨b4, d1.value, b3⟩
      · exact Or.inl hk'

/-- the same over a whole call history, relative to the state the history started from -/
theorem getIds_origin : ∀ (ks : List ExonKey) (st st' : FeatureIdStorage) (ids : List Str),
    st.getIds ks = some (ids, st') →
    ∀ k' id', dictGet k' st'.dict = some id' →
      dictGet k' st.dict = some id' ∨ (id' ∉ st.used ∧ ∃ n, id' = exonIdStr k'.1 n)
  | [], st, st', ids, h => by
      simp only [FeatureIdStorage.getIds, Option.some.injEq, Prod.mk.injEq] at h
      obtain ⟨rfl, rfl⟩ := h
      exact fun _ _ x => Or.inl x
  | k :: ks, st, st', ids, h => by
      obtain ⟨id, st1, h1⟩ := getId_total st k
      obtain ⟨ids2, st2, h2⟩ := getIds_total ks st1
      simp only [FeatureIdStorage.getIds, h1, h2, Option.some.injEq, Prod.mk.injEq] at h
      obtain ⟨rfl, rfl⟩ := h
      obtain ⟨_, _, a3, _⟩ := getId_spec h1
      intro k' id' hk'
      rcases getIds_origin ks st1 st2 ids2 h2 k' id' hk' with x | ⟨y, z⟩
      · exact getId_origin h1 k' id' x
      · exact Or.inr ⟨a3 ▸ y, z⟩

theorem tnums_pairwise {ms : List NovelModel} (h : (allNums ms).Pairwise (· < ·)) :
    ms.Pairwise (fun a b => a.tnum ≠ b.tnum) := by
  induction ms with
  | nil => exact List.Pairwise.nil
  | cons m ms ih =>
    simp only [allNums, List.flatMap_cons] at h
    rw [List.pairwise_append] at h
    obtain ⟨_, h2, h3⟩ := h
    refine List.Pairwise.cons (fun b hb => ?_) (ih h2)
    have h1 : m.tnum ∈ modelNums m := by unfold modelNums; split <;> simp
    have := h3 _ h1 _ (tnum_mem_allNums hb)
    omega

theorem gnums_pairwise {ms : List NovelModel} (h : (allNums ms).Pairwise (· < ·)) :
    ms.Pairwise (fun a b => ∀ g g', a.gene = .novel g → b.gene = .novel g' → g ≠ g') := by
  induction ms with
  | nil => exact List.Pairwise.nil
  | cons m ms ih =>
    simp only [allNums, List.flatMap_cons] at h
    rw [List.pairwise_append] at h
    obtain ⟨_, h2, h3⟩ := h
    refine List.Pairwise.cons (fun b hb g g' hg hg' => ?_) (ih h2)
    have h1 : g ∈ modelNums m := by simp [modelNums, hg]
    have := h3 _ h1 _ (gnum_mem_allNums hb hg')
    omega


end IsoVerif.Lemmas.C17
