/-
Helper lemmas for C20 (cache protocol): provenance invariant of the interleaved system.
-/
import IsoVerif.Model.Cache

namespace IsoVerif.Lemmas.C20
open IsoVerif.Model.C20

variable {β : Type}

/-- the dict item `x` was written for a production that really took place: same key, and the entry is exactly the
    entry that production computed -/
def Backed (convs : List Conv) (x : Key × Entry) : Prop :=
  ∃ c ∈ convs, c.client.key = x.1 ∧ c.entry = x.2

def AllBacked (convs : List Conv) (d : Cache) : Prop := ∀ x ∈ d, Backed convs x

/-- the artefact a run goes on to use (path @ mtime) is the output of a production for the run's own key and tag,
    recorded for the source mtime(s) the run sees -/
def ResBacked (convs : List Conv) (r : Result) : Prop :=
  ∃ c ∈ convs, c.client.key = r.client.key ∧ c.client.tag = r.client.tag ∧ c.client.target = r.target ∧
    c.srcM = r.srcM ∧ c.tgtM = r.tgtM ∧ c.auxM = r.auxM

def WInv (cd : Codec β) (w : World β) : Prop :=
  ∀ i d, cd.parse (w.inodes i) = some d → AllBacked w.convs d

def PInv (convs : List Conv) (p : Proc) : Prop :=
  (∀ f, AllBacked convs (p.dict f)) ∧ (∀ f x, p.pending f = some x → Backed convs x) ∧
  (∀ r ∈ p.results, ResBacked convs r)

theorem cfind_mem : ∀ (d : Cache) (k : Key) (e : Entry), cfind d k = some e → (k, e) ∈ d := by
  intro d
  induction d with
  | nil => intro k e h; simp [cfind] at h
  | cons x r ih =>
    intro k e h
    obtain ⟨k', e'⟩ := x
    simp only [cfind] at h
    split at h
    · rename_i hk; cases h; subst hk; simp
    · exact List.mem_cons_of_mem _ (ih k e h)

theorem cset_mem : ∀ (d : Cache) (k : Key) (e : Entry) (x : Key × Entry), x ∈ cset d k e → x = (k, e) ∨ x ∈ d := by
  intro d
  induction d with
  | nil => intro k e x h; simp [cset] at h; exact Or.inl h
  | cons y r ih =>
    intro k e x h
    obtain ⟨k', e'⟩ := y
    simp only [cset] at h
    split at h
    · rcases List.mem_cons.1 h with h | h
      · exact Or.inl h
      · exact Or.inr (List.mem_cons_of_mem _ h)
    · rcases List.mem_cons.1 h with h | h
      · exact Or.inr (h ▸ List.mem_cons_self)
      · rcases ih k e x h with h | h
        · exact Or.inl h
        · exact Or.inr (List.mem_cons_of_mem _ h)

theorem Backed.mono {cs cs' : List Conv} (h : ∀ c ∈ cs, c ∈ cs') {x} : Backed cs x → Backed cs' x := by
  rintro ⟨c, hc, h1, h2⟩; exact ⟨c, h c hc, h1, h2⟩

theorem AllBacked.mono {cs cs' : List Conv} (h : ∀ c ∈ cs, c ∈ cs') {d} : AllBacked cs d → AllBacked cs' d :=
  fun hd x hx => (hd x hx).mono h

theorem ResBacked.mono {cs cs' : List Conv} (h : ∀ c ∈ cs, c ∈ cs') {r} : ResBacked cs r → ResBacked cs' r := by
  rintro ⟨c, hc, hr⟩; exact ⟨c, h c hc, hr⟩

theorem PInv.mono {cs cs' : List Conv} (h : ∀ c ∈ cs, c ∈ cs') {p} : PInv cs p → PInv cs' p := by
  rintro ⟨h1, h2, h3⟩
  exact ⟨fun f => (h1 f).mono h, fun f x hx => (h2 f x hx).mono h, fun r hr => (h3 r hr).mono h⟩

theorem AllBacked.nil (cs : List Conv) : AllBacked cs [] := by intro x hx; cases hx

theorem AllBacked.cset {cs : List Conv} {d : Cache} {k : Key} {e : Entry}
    (hd : AllBacked cs d) (he : Backed cs (k, e)) : AllBacked cs (cset d k e) := by
  intro x hx
  rcases cset_mem d k e x hx with h | h
  · exact h ▸ he
  · exact hd x h

theorem winv_of {cd : Codec β} {w w' : World β} (hw : WInv cd w) (i : Nat) (b : List β)
    (hi : w'.inodes = upd w.inodes i b) (hc : ∀ c ∈ w.convs, c ∈ w'.convs)
    (hb : ∀ d, cd.parse b = some d → AllBacked w'.convs d) : WInv cd w' := by
  intro j d h
  rw [hi] at h
  unfold upd at h
  split at h
  · exact hb d h
  · exact (hw j d h).mono hc

theorem lookupHit_spec {w : World β} {d : Cache} {c : Client} {e : Entry} (h : lookupHit w d c = some e) :
    (c.key, e) ∈ d ∧ e.kind = c.file ∧ w.mtime c.src = some e.srcM ∧ w.mtime e.target = some e.tgtM ∧ e.tag = c.tag ∧
    c.aux.map w.mtime = e.aux.map some := by
  unfold lookupHit at h
  split at h
  · cases h
  · rename_i e' hf
    split at h
    · rename_i hc
      cases h
      exact ⟨cfind_mem _ _ _ hf, hc⟩
    · cases h

theorem loadDict_backed {cd : Codec β} {w : World β} (hw : WInv cd w) (f : Nat) :
    AllBacked w.convs ((loadDict cd w f).getD []) := by
  unfold loadDict World.content
  cases hn : w.names f with
  | none => exact AllBacked.nil _
  | some i =>
    simp only [Option.map]
    cases hp : cd.parse (w.inodes i) with
    | none => exact AllBacked.nil _
    | some d => exact hw i d hp

theorem applyPending_backed {cs : List Conv} {d : Cache} {apply : Bool} {pend : Option (Key × Entry)}
    (hd : AllBacked cs d) (hp : ∀ x, pend = some x → Backed cs x) : AllBacked cs (applyPending d apply pend) := by
  unfold applyPending
  split
  · rename_i k e
    exact hd.cset (hp (k, e) rfl)
  · exact hd

theorem step_inv (cd : Codec β) (hl : cd.Lawful) (w : World β) (p : Proc)
    (hw : WInv cd w) (hp : PInv w.convs p) :
    WInv cd (stepProc cd w p).1 ∧ PInv (stepProc cd w p).1.convs (stepProc cd w p).2 ∧
    (∀ c ∈ w.convs, c ∈ (stepProc cd w p).1.convs) := by
  unfold stepProc
  split
  · exact ⟨hw, hp, fun c h => h⟩
  · split
    · exact ⟨hw, hp, fun c h => h⟩
    · -- existsQ
      exact ⟨hw, hp, fun c h => h⟩
    · -- openW
      split
      · refine ⟨winv_of hw _ [] rfl (fun c h => h) ?_, hp, fun c h => h⟩
        intro d h; rw [hl.parse_nil] at h; cases h
      · refine ⟨winv_of hw _ [] rfl (fun c h => h) ?_, hp, fun c h => h⟩
        intro d h; rw [hl.parse_nil] at h; cases h
    · -- writeBuf
      split
      · exact ⟨hw, hp, fun c h => h⟩
      · refine ⟨winv_of hw _ _ rfl (fun c h => h) ?_, hp, fun c h => h⟩
        intro d h x hx
        have hx' := hl.parse_prefix _ _ _ h x hx
        split at hx'
        · cases hx'
        · exact hp.1 _ x hx'
    · -- replaceBuf
      refine ⟨winv_of hw _ _ rfl (fun c h => h) ?_, hp, fun c h => h⟩
      intro d h x hx
      have hx' := hl.parse_prefix _ [] d (by simpa using h) x hx
      split at hx'
      · cases hx'
      · exact hp.1 _ x hx'
    · -- load
      rename_i f tolerant apply rest htodo
      dsimp only
      split
      · exact ⟨fun i d h => hw i d h, hp, fun c h => h⟩
      · refine ⟨fun i d h => hw i d h, ⟨?_, ?_, hp.2.2⟩, fun c h => h⟩
        · intro f'
          show AllBacked w.convs (upd p.dict f _ f')
          unfold upd
          split
          · exact applyPending_backed (loadDict_backed hw f) (hp.2.1 f)
          · exact hp.1 f'
        · intro f' x hx
          dsimp only at hx
          split at hx
          · unfold upd at hx
            split at hx
            · cases hx
            · exact hp.2.1 f' x hx
          · exact hp.2.1 f' x hx
    · -- lookup
      rename_i c k rest htodo
      split
      · rename_i e he
        obtain ⟨hm, _, h1, h2, h3, h4⟩ := lookupHit_spec he
        refine ⟨hw, ⟨hp.1, hp.2.1, ?_⟩, fun c h => h⟩
        intro r hr
        rcases List.mem_cons.1 hr with hr | hr
        · obtain ⟨cv, hcv, hk, hce⟩ := hp.1 c.file _ hm
          subst hr
          subst hce
          exact ⟨cv, hcv, hk, h3, rfl, rfl, rfl, rfl⟩
        · exact hp.2.2 r hr
      · exact ⟨hw, hp, fun c h => h⟩
    · -- produce
      rename_i c applyNow rest htodo
      split
      · rename_i sm am hsm ham
        dsimp only
        split
        · rename_i sm' am' hsm' ham'
          have hmono : ∀ cv ∈ w.convs, cv ∈ ({ client := c, srcM0 := sm, srcM := sm', auxM := am', tgtM := w.clock } : Conv) :: w.convs :=
            fun cv h => List.mem_cons_of_mem _ h
          have hnew : Backed (({ client := c, srcM0 := sm, srcM := sm', auxM := am', tgtM := w.clock } : Conv) :: w.convs)
              (c.key, { kind := c.file, target := c.target, srcM := sm', tgtM := w.clock, tag := c.tag, aux := am' }) :=
            ⟨_, List.mem_cons_self, rfl, rfl⟩
          refine ⟨fun i d h => (hw i d h).mono hmono, ⟨?_, ?_, ?_⟩, hmono⟩
          · intro f'
            dsimp only
            split
            · unfold upd
              split
              · exact ((hp.1 c.file).mono hmono).cset hnew
              · exact (hp.1 f').mono hmono
            · exact (hp.1 f').mono hmono
          · intro f' x hx
            dsimp only at hx
            split at hx
            · exact (hp.2.1 f' x hx).mono hmono
            · unfold upd at hx
              split at hx
              · cases hx; exact hnew
              · exact (hp.2.1 f' x hx).mono hmono
          · intro r hr
            rcases List.mem_cons.1 hr with hr | hr
            · subst hr
              exact ⟨_, List.mem_cons_self, rfl, rfl, rfl, rfl, rfl, rfl⟩
            · exact (hp.2.2 r hr).mono hmono
        · exact ⟨fun i d h => hw i d h, hp, fun c h => h⟩
      · exact ⟨hw, hp, fun c h => h⟩

/-- system invariant: everything parseable anywhere, every local dict, every pending entry and every result is
    backed by a production that took place -/
def SInv (cd : Codec β) (s : Sys β) : Prop :=
  WInv cd s.world ∧ ∀ p ∈ s.procs, PInv s.world.convs p

theorem stepSys_inv (cd : Codec β) (hl : cd.Lawful) (s : Sys β) (pid : Nat) (h : SInv cd s) :
    SInv cd (stepSys cd s pid) := by
  unfold stepSys
  split
  · exact h
  · rename_i p hp
    have hmem : p ∈ s.procs := List.mem_of_getElem? hp
    obtain ⟨h1, h2, h3⟩ := step_inv cd hl s.world p h.1 (h.2 p hmem)
    refine ⟨h1, ?_⟩
    intro q hq
    rcases List.mem_or_eq_of_mem_set hq with hq | hq
    · exact (h.2 q hq).mono h3
    · exact hq ▸ h2

theorem run_inv (cd : Codec β) (hl : cd.Lawful) (sched : List Nat) :
    ∀ (s : Sys β), SInv cd s → SInv cd (run cd s sched) := by
  induction sched with
  | nil => intro s h; exact h
  | cons pid r ih =>
    intro s h
    show SInv cd (run cd (stepSys cd s pid) r)
    exact ih _ (stepSys_inv cd hl s pid h)

theorem Proc.init_inv (cs : List Conv) (prog : List Instr) : PInv cs (Proc.init prog) := by
  refine ⟨fun f => AllBacked.nil _, ?_, ?_⟩
  · intro f x hx; simp [Proc.init] at hx
  · intro r hr; simp [Proc.init] at hr

theorem start_inv (cd : Codec β) (w : World β) (hw : WInv cd w) (progs : List (List Instr)) :
    SInv cd (Sys.start w progs) := by
  refine ⟨hw, ?_⟩
  intro p hp
  simp only [Sys.start, List.mem_map] at hp
  obtain ⟨prog, _, rfl⟩ := hp
  exact Proc.init_inv _ _

theorem fresh_winv (cd : Codec β) (hl : cd.Lawful) (mt : Path → Option Nat) (clock : Nat) :
    WInv cd (World.fresh mt clock) := by
  intro i d h
  simp only [World.fresh] at h
  rw [hl.parse_nil] at h; cases h

/-! ### the length-prefixed codec is lawful -/

theorem parseEntries_enc : ∀ (d : Cache) (t : List Nat), parseEntries d.length (encAll d ++ t) = some (d, t) := by
  intro d
  induction d with
  | nil => intro t; simp [parseEntries, encAll]
  | cons x r ih =>
    intro t
    obtain ⟨k, e⟩ := x
    have h1 : encAll ((k, e) :: r) ++ t =
        k :: e.kind :: e.target :: e.srcM :: e.tgtM :: e.tag :: e.aux.length :: (e.aux ++ (encAll r ++ t)) := by
      simp [encAll, encEntry]
    rw [h1]
    simp only [List.length_cons, parseEntries]
    have h2 : e.aux.length ≤ (e.aux ++ (encAll r ++ t)).length := by simp
    rw [if_pos h2]
    have h3 : (e.aux ++ (encAll r ++ t)).drop e.aux.length = encAll r ++ t := by simp
    have h4 : (e.aux ++ (encAll r ++ t)).take e.aux.length = e.aux := by simp
    rw [h3, h4, ih t]

theorem toyParse_ser_append (d : Cache) (t : List Nat) :
    toyParse (toySer d ++ t) = if t = [] then some d else none := by
  simp only [toySer, List.cons_append, toyParse, parseEntries_enc]
  cases t <;> simp

theorem toyCodec_lawful : toyCodec.Lawful := by
  refine ⟨?_, rfl, ?_⟩
  · intro d t d' h x hx
    simp only [toyCodec, toyParse_ser_append] at h
    split at h
    · cases h; exact hx
    · cases h
  · intro d1 d2 t ht _
    simp only [toyCodec, toyParse_ser_append, if_neg ht]

/-! ### the fixed protocol: only complete states are ever visible -/

/-- `c` is a complete buffer that some store handed over, or what a file held at the start -/
def Full (w0 w : World β) (c : List β) : Prop := c ∈ w.stored ∨ ∃ f, w0.content f = some c

def FWInv (w0 w : World β) : Prop :=
  (∀ f i, w.names f = some i → i < w.nextInode) ∧
  (∀ f c, w.content f = some c → Full w0 w c) ∧
  (∀ f c, (f, some c) ∈ w.obs → Full w0 w c)

theorem Full.mono {w0 w w' : World β} (h : ∀ b ∈ w.stored, b ∈ w'.stored) {c} : Full w0 w c → Full w0 w' c := by
  rintro (h1 | h1)
  · exact Or.inl (h c h1)
  · exact Or.inr h1

/-- the remaining program only ever shrinks to a sub-list of itself -/
theorem step_todo_sub (cd : Codec β) (w : World β) (p : Proc) :
    ∀ i ∈ (stepProc cd w p).2.todo, i ∈ p.todo := by
  unfold stepProc
  split
  · exact fun i h => h
  · split
    · exact fun i h => h
    · rename_i f k rest htodo
      intro i hi
      rw [htodo]
      dsimp only at hi
      split at hi
      · exact List.mem_cons_of_mem _ (List.mem_of_mem_drop hi)
      · exact List.mem_cons_of_mem _ hi
    · rename_i f rest htodo
      split <;> (intro i hi; rw [htodo]; exact List.mem_cons_of_mem _ hi)
    · rename_i f e rest htodo
      split
      · exact fun i h => h
      · intro i hi; rw [htodo]; exact List.mem_cons_of_mem _ hi
    · rename_i f e rest htodo
      intro i hi; rw [htodo]; exact List.mem_cons_of_mem _ hi
    · rename_i f tol ap rest htodo
      dsimp only
      split
      · exact fun i h => h
      · intro i hi; rw [htodo]; exact List.mem_cons_of_mem _ hi
    · rename_i c k rest htodo
      split
      · intro i hi; rw [htodo]; exact List.mem_cons_of_mem _ (List.mem_of_mem_drop hi)
      · intro i hi; rw [htodo]; exact List.mem_cons_of_mem _ hi
    · rename_i c an rest htodo
      split
      · dsimp only
        split
        · intro i hi; rw [htodo]; exact List.mem_cons_of_mem _ hi
        · exact fun i h => h
      · exact fun i h => h

theorem finv_replace (w0 w : World β) (hw : FWInv w0 w) (f : Nat) (buf : List β) :
    FWInv w0 { w with names := upd w.names f (some w.nextInode), inodes := upd w.inodes w.nextInode buf,
                      nextInode := w.nextInode + 1, stored := buf :: w.stored } := by
  obtain ⟨h1, h2, h3⟩ := hw
  have hst : ∀ b ∈ w.stored, b ∈ buf :: w.stored := fun b hb => List.mem_cons_of_mem _ hb
  refine ⟨?_, ?_, ?_⟩
  · intro f' i hi
    dsimp only at hi ⊢
    unfold upd at hi
    split at hi
    · cases hi; exact Nat.lt_succ_self _
    · exact Nat.lt_succ_of_lt (h1 f' i hi)
  · intro f' c hc
    unfold World.content at hc
    dsimp only at hc
    by_cases hf : f' = f
    · simp [upd, hf] at hc
      subst hc
      exact Or.inl List.mem_cons_self
    · cases hn : w.names f' with
      | none => simp [upd, hf, hn] at hc
      | some j =>
        have hj := h1 f' j hn
        simp [upd, hf, hn, Nat.ne_of_lt hj] at hc
        have : w.content f' = some c := by unfold World.content; simp [hn, hc]
        exact (h2 f' c this).mono hst
  · intro f' c hc
    exact (h3 f' c hc).mono hst

theorem step_finv (cd : Codec β) (w0 w : World β) (p : Proc) (hw : FWInv w0 w)
    (hat : ∀ i ∈ p.todo, i.atomic = true) : FWInv w0 (stepProc cd w p).1 := by
  unfold stepProc
  split
  · exact hw
  · split
    · exact hw
    · exact hw
    · rename_i f rest htodo
      have := hat (.openW f) (by rw [htodo]; exact List.mem_cons_self)
      simp [Instr.atomic] at this
    · rename_i f e rest htodo
      have := hat (.writeBuf f e) (by rw [htodo]; exact List.mem_cons_self)
      simp [Instr.atomic] at this
    · -- replaceBuf
      exact finv_replace w0 w hw _ _
    · -- load
      rename_i f tol ap rest htodo
      obtain ⟨h1, h2, h3⟩ := hw
      have key : FWInv w0 { w with obs := (f, w.content f) :: w.obs } := by
        refine ⟨h1, h2, ?_⟩
        intro f' c hc
        rcases List.mem_cons.1 hc with hc | hc
        · have hf : f' = f := congrArg Prod.fst hc
          have hcc : some c = w.content f := congrArg Prod.snd hc
          exact h2 f c hcc.symm
        · exact h3 f' c hc
      dsimp only
      split <;> exact key
    · split <;> exact hw
    · -- produce
      rename_i c an rest htodo
      obtain ⟨h1, h2, h3⟩ := hw
      split
      · dsimp only
        split <;> exact ⟨h1, h2, h3⟩
      · exact ⟨h1, h2, h3⟩

def FInv (w0 : World β) (s : Sys β) : Prop :=
  FWInv w0 s.world ∧ ∀ p ∈ s.procs, ∀ i ∈ p.todo, i.atomic = true

theorem stepSys_finv (cd : Codec β) (w0 : World β) (s : Sys β) (pid : Nat) (h : FInv w0 s) :
    FInv w0 (stepSys cd s pid) := by
  unfold stepSys
  split
  · exact h
  · rename_i p hp
    have hmem : p ∈ s.procs := List.mem_of_getElem? hp
    refine ⟨step_finv cd w0 s.world p h.1 (h.2 p hmem), ?_⟩
    intro q hq i hi
    rcases List.mem_or_eq_of_mem_set hq with hq | hq
    · exact h.2 q hq i hi
    · subst hq
      exact h.2 p hmem i (step_todo_sub cd s.world p i hi)

theorem run_finv (cd : Codec β) (w0 : World β) (sched : List Nat) :
    ∀ (s : Sys β), FInv w0 s → FInv w0 (run cd s sched) := by
  induction sched with
  | nil => intro s h; exact h
  | cons pid r ih =>
    intro s h
    show FInv w0 (run cd (stepSys cd s pid) r)
    exact ih _ (stepSys_finv cd w0 s pid h)

/-- every buffer handed to a store is the serialisation of a whole dict -/
def StoredSer (cd : Codec β) (w : World β) : Prop := ∀ b ∈ w.stored, ∃ d, b = cd.ser d

theorem step_storedSer (cd : Codec β) (w : World β) (p : Proc) (h : StoredSer cd w) :
    StoredSer cd (stepProc cd w p).1 := by
  unfold stepProc
  split
  · exact h
  · split
    · exact h
    · exact h
    · split <;> exact h
    · split
      · exact h
      · intro b hb
        rcases List.mem_cons.1 hb with hb | hb
        · exact ⟨_, hb⟩
        · exact h b hb
    · intro b hb
      rcases List.mem_cons.1 hb with hb | hb
      · exact ⟨_, hb⟩
      · exact h b hb
    · dsimp only
      split <;> exact h
    · split <;> exact h
    · split
      · dsimp only
        split <;> exact h
      · exact h

theorem run_storedSer (cd : Codec β) (sched : List Nat) :
    ∀ (s : Sys β), StoredSer cd s.world → StoredSer cd (run cd s sched).world := by
  induction sched with
  | nil => intro s h; exact h
  | cons pid r ih =>
    intro s h
    show StoredSer cd (run cd (stepSys cd s pid) r).world
    apply ih
    unfold stepSys
    split
    · exact h
    · exact step_storedSer cd s.world _ h

/-! ### the fixed protocol: every run completes -/

/-- instruction that cannot fail: atomic, tolerant reading, and the inputs of a production exist -/
def SafeI (w0 : World β) : Instr → Prop
  | .openW _ => False
  | .writeBuf _ _ => False
  | .load _ tol _ => tol = true
  | .produce c _ => (w0.mtime c.src).isSome ∧ ∀ a ∈ c.aux, (w0.mtime a).isSome
  | _ => True

def PresInv (w0 w : World β) : Prop := ∀ path, (w0.mtime path).isSome → (w.mtime path).isSome

theorem allSome_of_forall (f : Nat → Option Nat) : ∀ (l : List Nat), (∀ a ∈ l, (f a).isSome) →
    ∃ am, allSome (l.map f) = some am := by
  intro l
  induction l with
  | nil => intro _; exact ⟨[], rfl⟩
  | cons a r ih =>
    intro h
    obtain ⟨am, ham⟩ := ih (fun x hx => h x (List.mem_cons_of_mem _ hx))
    have ha := h a List.mem_cons_self
    cases hfa : f a with
    | none => simp [hfa] at ha
    | some v => exact ⟨v :: am, by simp [allSome, hfa, ham]⟩

theorem step_safe (cd : Codec β) (w0 w : World β) (p : Proc) (hpres : PresInv w0 w) (hc : p.crashed = false)
    (hs : ∀ i ∈ p.todo, SafeI w0 i) :
    PresInv w0 (stepProc cd w p).1 ∧ (stepProc cd w p).2.crashed = false ∧
    ((stepProc cd w p).2.todo.length < p.todo.length ∨ p.todo = []) := by
  unfold stepProc
  split
  · rename_i h; rw [hc] at h; cases h
  · split
    · rename_i h; exact ⟨hpres, hc, Or.inr h⟩
    · rename_i f k rest htodo
      refine ⟨hpres, hc, Or.inl ?_⟩
      rw [htodo]; dsimp only
      split
      · simp only [List.length_drop, List.length_cons]; omega
      · simp
    · rename_i f rest htodo
      exact absurd (hs (.openW f) (by rw [htodo]; exact List.mem_cons_self)) (by simp [SafeI])
    · rename_i f e rest htodo
      exact absurd (hs (.writeBuf f e) (by rw [htodo]; exact List.mem_cons_self)) (by simp [SafeI])
    · rename_i f e rest htodo
      exact ⟨hpres, hc, Or.inl (by rw [htodo]; simp)⟩
    · rename_i f tol ap rest htodo
      have ht : tol = true := hs (.load f tol ap) (by rw [htodo]; exact List.mem_cons_self)
      dsimp only
      split
      · rename_i h; rw [ht] at h; simp at h
      · exact ⟨hpres, hc, Or.inl (by rw [htodo]; simp)⟩
    · rename_i c k rest htodo
      split
      · refine ⟨hpres, hc, Or.inl ?_⟩
        rw [htodo]; simp only [List.length_drop, List.length_cons]; omega
      · exact ⟨hpres, hc, Or.inl (by rw [htodo]; simp)⟩
    · rename_i c an rest htodo
      have hsafe := hs (.produce c an) (by rw [htodo]; exact List.mem_cons_self)
      obtain ⟨hsrc, haux⟩ := hsafe
      have hpres' : ∀ path, (w0.mtime path).isSome → (upd w.mtime c.target (some w.clock) path).isSome := by
        intro path hp
        unfold upd
        split
        · rfl
        · exact hpres path hp
      have hW : PresInv w0 { w with mtime := upd w.mtime c.target (some w.clock), clock := w.clock + 1 } := hpres'
      split
      · dsimp only
        split
        · exact ⟨hpres', hc, Or.inl (by rw [htodo]; simp)⟩
        · rename_i hne
          exfalso
          obtain ⟨am, ham⟩ := allSome_of_forall (upd w.mtime c.target (some w.clock)) c.aux
            (fun a ha => hpres' a (haux a ha))
          have h1 := hpres' c.src hsrc
          cases hsm : upd w.mtime c.target (some w.clock) c.src with
          | none => rw [hsm] at h1; cases h1
          | some v => exact hne v am hsm ham
      · rename_i hne
        exfalso
        obtain ⟨am, ham⟩ := allSome_of_forall w.mtime c.aux (fun a ha => hpres a (haux a ha))
        have h1 := hpres c.src hsrc
        cases hsm : w.mtime c.src with
        | none => rw [hsm] at h1; cases h1
        | some v => exact hne v am hsm ham

def CInv (w0 : World β) (s : Sys β) : Prop :=
  PresInv w0 s.world ∧ ∀ p ∈ s.procs, p.crashed = false ∧ ∀ i ∈ p.todo, SafeI w0 i

theorem stepSys_cinv (cd : Codec β) (w0 : World β) (s : Sys β) (pid : Nat) (h : CInv w0 s) :
    CInv w0 (stepSys cd s pid) := by
  unfold stepSys
  split
  · exact h
  · rename_i p hp
    have hmem : p ∈ s.procs := List.mem_of_getElem? hp
    obtain ⟨h1, h2, _⟩ := step_safe cd w0 s.world p h.1 (h.2 p hmem).1 (h.2 p hmem).2
    refine ⟨h1, ?_⟩
    intro q hq
    rcases List.mem_or_eq_of_mem_set hq with hq | hq
    · exact h.2 q hq
    · subst hq
      exact ⟨h2, fun i hi => (h.2 p hmem).2 i (step_todo_sub cd s.world p i hi)⟩

theorem run_cinv (cd : Codec β) (w0 : World β) (sched : List Nat) :
    ∀ (s : Sys β), CInv w0 s → CInv w0 (run cd s sched) := by
  induction sched with
  | nil => intro s h; exact h
  | cons pid r ih =>
    intro s h
    show CInv w0 (run cd (stepSys cd s pid) r)
    exact ih _ (stepSys_cinv cd w0 s pid h)

theorem stepSys_length (cd : Codec β) (s : Sys β) (pid : Nat) :
    (stepSys cd s pid).procs.length = s.procs.length := by
  unfold stepSys; split <;> simp

theorem stepSys_other (cd : Codec β) (s : Sys β) (pid q : Nat) (h : q ≠ pid) :
    (stepSys cd s pid).procs[q]? = s.procs[q]? := by
  unfold stepSys; split
  · rfl
  · simp [Ne.symm h]

theorem stepSys_self (cd : Codec β) (s : Sys β) (pid : Nat) (p : Proc) (h : s.procs[pid]? = some p) :
    (stepSys cd s pid).procs[pid]? = some (stepProc cd s.world p).2 := by
  unfold stepSys
  rw [h]
  have hlt : pid < s.procs.length := by
    rcases Nat.lt_or_ge pid s.procs.length with hl | hl
    · exact hl
    · rw [List.getElem?_eq_none hl] at h; cases h
  simp [hlt]

theorem stepN_props (cd : Codec β) (w0 : World β) (pid : Nat) : ∀ (n : Nat) (s : Sys β), CInv w0 s →
    CInv w0 (stepN cd s pid n) ∧ (stepN cd s pid n).procs.length = s.procs.length ∧
    (∀ q, q ≠ pid → (stepN cd s pid n).procs[q]? = s.procs[q]?) ∧
    (∀ p, s.procs[pid]? = some p → p.todo.length ≤ n →
       ∃ p', (stepN cd s pid n).procs[pid]? = some p' ∧ p'.todo = []) := by
  intro n
  induction n with
  | zero =>
    intro s h
    refine ⟨h, rfl, fun q _ => rfl, ?_⟩
    intro p hp hl
    exact ⟨p, hp, List.eq_nil_of_length_eq_zero (Nat.le_zero.1 hl)⟩
  | succ n ih =>
    intro s h
    have h' := stepSys_cinv cd w0 s pid h
    obtain ⟨i1, i2, i3, i4⟩ := ih (stepSys cd s pid) h'
    refine ⟨i1, by show (stepN cd (stepSys cd s pid) pid n).procs.length = _; rw [i2, stepSys_length], ?_, ?_⟩
    · intro q hq
      show (stepN cd (stepSys cd s pid) pid n).procs[q]? = _
      rw [i3 q hq, stepSys_other cd s pid q hq]
    · intro p hp hl
      have hmem : p ∈ s.procs := List.mem_of_getElem? hp
      obtain ⟨_, _, h3⟩ := step_safe cd w0 s.world p h.1 (h.2 p hmem).1 (h.2 p hmem).2
      apply i4 _ (stepSys_self cd s pid p hp)
      rcases h3 with h3 | h3
      · omega
      · have : (stepProc cd s.world p).2.todo = [] := by
          apply List.eq_nil_iff_forall_not_mem.2
          intro i hi
          have := step_todo_sub cd s.world p i hi
          rw [h3] at this; cases this
        rw [this]; simp

theorem drainFrom_done (cd : Codec β) (w0 : World β) : ∀ (n : Nat) (s : Sys β) (pid : Nat), CInv w0 s →
    (∀ q, q < pid → ∀ p, s.procs[q]? = some p → p.todo = []) →
    CInv w0 (drainFrom cd s pid n) ∧ (drainFrom cd s pid n).procs.length = s.procs.length ∧
    (∀ q, q < pid + n → ∀ p, (drainFrom cd s pid n).procs[q]? = some p → p.todo = []) := by
  intro n
  induction n with
  | zero => intro s pid h hd; exact ⟨h, rfl, fun q hq p hp => hd q (by omega) p hp⟩
  | succ n ih =>
    intro s pid h hd
    have hk : ∃ k, k = (match s.procs[pid]? with | some p => p.todo.length | none => 0) ∧
        drainFrom cd s pid (n + 1) = drainFrom cd (stepN cd s pid k) (pid + 1) n := ⟨_, rfl, rfl⟩
    obtain ⟨k, hk, hdr⟩ := hk
    rw [hdr]
    obtain ⟨j1, j2, j3, j4⟩ := stepN_props cd w0 pid k s h
    have hd' : ∀ q, q < pid + 1 → ∀ p, (stepN cd s pid k).procs[q]? = some p → p.todo = [] := by
      intro q hq p hp
      by_cases hqp : q = pid
      · subst hqp
        cases hs : s.procs[q]? with
        | none =>
          have hlen : s.procs.length ≤ q := by
            rcases Nat.lt_or_ge q s.procs.length with hl | hl
            · rw [List.getElem?_eq_getElem hl] at hs; cases hs
            · exact hl
          rw [List.getElem?_eq_none (by rw [j2]; exact hlen)] at hp; cases hp
        | some p0 =>
          rw [hs] at hk
          obtain ⟨p', hp', hnil⟩ := j4 p0 hs (by rw [hk]; exact Nat.le_refl _)
          rw [hp'] at hp; cases hp; exact hnil
      · rw [j3 q hqp] at hp
        exact hd q (by omega) p hp
    obtain ⟨k1, k2, k3⟩ := ih (stepN cd s pid k) (pid + 1) j1 hd'
    exact ⟨k1, by rw [k2, j2], fun q hq p hp => k3 q (by omega) p hp⟩

/-! ### the log of productions identifies artefact versions -/

/-- every logged production is older than the clock; (path, mtime) identifies one production; and unless a production
    overwrites its own source, the source mtime it recorded is the mtime of what it converted -/
def ConvInv (w : World β) : Prop :=
  (∀ c ∈ w.convs, c.tgtM < w.clock) ∧
  (∀ c1 ∈ w.convs, ∀ c2 ∈ w.convs, c1.client.target = c2.client.target → c1.tgtM = c2.tgtM → c1 = c2) ∧
  (∀ c ∈ w.convs, c.client.target ≠ c.client.src → c.srcM0 = c.srcM)

theorem step_convInv (cd : Codec β) (w : World β) (p : Proc) (h : ConvInv w) : ConvInv (stepProc cd w p).1 := by
  unfold stepProc
  split
  · exact h
  · split
    · exact h
    · exact h
    · split <;> exact h
    · split <;> exact h
    · exact h
    · dsimp only
      split <;> exact h
    · split <;> exact h
    · rename_i c an rest htodo
      split
      · rename_i sm am hsm ham
        dsimp only
        split
        · rename_i sm' am' hsm' ham'
          obtain ⟨h1, h2, h3⟩ := h
          refine ⟨?_, ?_, ?_⟩
          · intro cv hcv
            rcases List.mem_cons.1 hcv with hcv | hcv
            · subst hcv; exact Nat.lt_succ_self _
            · exact Nat.lt_succ_of_lt (h1 cv hcv)
          · intro c1 hc1 c2 hc2 ht hm
            rcases List.mem_cons.1 hc1 with e1 | e1 <;> rcases List.mem_cons.1 hc2 with e2 | e2
            · rw [e1, e2]
            · subst e1
              have := h1 c2 e2
              simp only at hm
              omega
            · subst e2
              have := h1 c1 e1
              simp only at hm
              omega
            · exact h2 c1 e1 c2 e2 ht hm
          · intro cv hcv hne
            rcases List.mem_cons.1 hcv with hcv | hcv
            · subst hcv
              simp only at hne ⊢
              have : upd w.mtime c.target (some w.clock) c.src = w.mtime c.src := by
                unfold upd; rw [if_neg (Ne.symm hne)]
              rw [this, hsm] at hsm'
              exact Option.some.inj hsm'
            · exact h3 cv hcv hne
        · obtain ⟨h1, h2, h3⟩ := h
          exact ⟨fun cv hcv => Nat.lt_succ_of_lt (h1 cv hcv), h2, h3⟩
      · exact h

theorem run_convInv (cd : Codec β) (sched : List Nat) :
    ∀ (s : Sys β), ConvInv s.world → ConvInv (run cd s sched).world := by
  induction sched with
  | nil => intro s h; exact h
  | cons pid r ih =>
    intro s h
    show ConvInv (run cd (stepSys cd s pid) r).world
    apply ih
    unfold stepSys
    split
    · exact h
    · exact step_convInv cd s.world _ h

/-! ### letting the processes run on is itself an interleaving -/

theorem run_append (cd : Codec β) (s : Sys β) (a b : List Nat) : run cd s (a ++ b) = run cd (run cd s a) b := by
  simp [run, List.foldl_append]

theorem stepN_eq_run (cd : Codec β) (pid : Nat) : ∀ (n : Nat) (s : Sys β),
    stepN cd s pid n = run cd s (List.replicate n pid) := by
  intro n
  induction n with
  | zero => intro s; rfl
  | succ n ih => intro s; simp only [stepN, List.replicate_succ]; rw [ih]; rfl

theorem drainFrom_eq_run (cd : Codec β) : ∀ (n : Nat) (s : Sys β) (pid : Nat),
    ∃ sch, drainFrom cd s pid n = run cd s sch := by
  intro n
  induction n with
  | zero => intro s pid; exact ⟨[], rfl⟩
  | succ n ih =>
    intro s pid
    have hk : ∃ k, drainFrom cd s pid (n + 1) = drainFrom cd (stepN cd s pid k) (pid + 1) n := ⟨_, rfl⟩
    obtain ⟨k, hk⟩ := hk
    obtain ⟨sch, h⟩ := ih (stepN cd s pid k) (pid + 1)
    exact ⟨List.replicate k pid ++ sch, by rw [hk, h, stepN_eq_run, run_append]⟩

theorem drain_eq_run (cd : Codec β) (s : Sys β) : ∃ sch, drain cd s = run cd s sch :=
  drainFrom_eq_run cd _ s 0

/-- every instruction either fails or is consumed -/
theorem step_progress (cd : Codec β) (w : World β) (p : Proc) (hc : p.crashed = false) (hne : p.todo ≠ []) :
    (stepProc cd w p).2.crashed = true ∨ (stepProc cd w p).2.todo.length < p.todo.length := by
  unfold stepProc
  split
  · rename_i h; rw [hc] at h; cases h
  · split
    · rename_i h; exact absurd h hne
    · rename_i f k rest htodo
      right; rw [htodo]; dsimp only
      split
      · simp only [List.length_drop, List.length_cons]; omega
      · simp
    · rename_i f rest htodo
      split <;> (right; rw [htodo]; simp)
    · rename_i f e rest htodo
      split
      · left; rfl
      · right; rw [htodo]; simp
    · rename_i f e rest htodo
      right; rw [htodo]; simp
    · rename_i f tol ap rest htodo
      dsimp only
      split
      · left; rfl
      · right; rw [htodo]; simp
    · rename_i c k rest htodo
      split
      · right; rw [htodo]; simp only [List.length_drop, List.length_cons]; omega
      · right; rw [htodo]; simp
    · rename_i c an rest htodo
      split
      · dsimp only
        split
        · right; rw [htodo]; simp
        · left; rfl
      · left; rfl

/-- a crashed or finished process does not move any more -/
theorem step_stuck (cd : Codec β) (w : World β) (p : Proc) (h : p.crashed = true ∨ p.todo = []) :
    stepProc cd w p = (w, p) := by
  unfold stepProc
  rcases h with h | h
  · simp [h]
  · split
    · rfl
    · simp [h]

theorem stepN_stuck (cd : Codec β) (pid : Nat) : ∀ (n : Nat) (s : Sys β),
    (stepN cd s pid n).procs.length = s.procs.length ∧
    (∀ q, q ≠ pid → (stepN cd s pid n).procs[q]? = s.procs[q]?) ∧
    (∀ p, s.procs[pid]? = some p → ((p.crashed = true ∨ p.todo = []) ∨ p.todo.length ≤ n) →
       ∃ p', (stepN cd s pid n).procs[pid]? = some p' ∧ (p'.crashed = true ∨ p'.todo = [])) := by
  intro n
  induction n with
  | zero =>
    intro s
    refine ⟨rfl, fun q _ => rfl, ?_⟩
    intro p hp hl
    rcases hl with hl | hl
    · exact ⟨p, hp, hl⟩
    · exact ⟨p, hp, Or.inr (List.eq_nil_of_length_eq_zero (Nat.le_zero.1 hl))⟩
  | succ n ih =>
    intro s
    obtain ⟨i2, i3, i4⟩ := ih (stepSys cd s pid)
    refine ⟨by show (stepN cd (stepSys cd s pid) pid n).procs.length = _; rw [i2, stepSys_length], ?_, ?_⟩
    · intro q hq
      show (stepN cd (stepSys cd s pid) pid n).procs[q]? = _
      rw [i3 q hq, stepSys_other cd s pid q hq]
    · intro p hp hl
      apply i4 _ (stepSys_self cd s pid p hp)
      by_cases hst : p.crashed = true ∨ p.todo = []
      · rw [step_stuck cd s.world p hst]
        exact Or.inl hst
      · have hc : p.crashed = false := by
          cases hcr : p.crashed with
          | false => rfl
          | true => exact absurd (Or.inl hcr) hst
        have hne : p.todo ≠ [] := fun h => hst (Or.inr h)
        rcases hl with hl | hl
        · exact absurd hl hst
        · rcases step_progress cd s.world p hc hne with h | h
          · exact Or.inl (Or.inl h)
          · exact Or.inr (by omega)

/-- after `drain` every process is crashed or at the end of its program -/
theorem drainFrom_stuck (cd : Codec β) : ∀ (n : Nat) (s : Sys β) (pid : Nat),
    (∀ q, q < pid → ∀ p, s.procs[q]? = some p → (p.crashed = true ∨ p.todo = [])) →
    (drainFrom cd s pid n).procs.length = s.procs.length ∧
    (∀ q, q < pid + n → ∀ p, (drainFrom cd s pid n).procs[q]? = some p → (p.crashed = true ∨ p.todo = [])) := by
  intro n
  induction n with
  | zero => intro s pid hd; exact ⟨rfl, fun q hq p hp => hd q (by omega) p hp⟩
  | succ n ih =>
    intro s pid hd
    have hk : ∃ k, k = (match s.procs[pid]? with | some p => p.todo.length | none => 0) ∧
        drainFrom cd s pid (n + 1) = drainFrom cd (stepN cd s pid k) (pid + 1) n := ⟨_, rfl, rfl⟩
    obtain ⟨k, hk, hdr⟩ := hk
    rw [hdr]
    obtain ⟨j2, j3, j4⟩ := stepN_stuck cd pid k s
    have hd' : ∀ q, q < pid + 1 → ∀ p, (stepN cd s pid k).procs[q]? = some p → (p.crashed = true ∨ p.todo = []) := by
      intro q hq p hp
      by_cases hqp : q = pid
      · subst hqp
        cases hs : s.procs[q]? with
        | none =>
          have hlen : s.procs.length ≤ q := by
            rcases Nat.lt_or_ge q s.procs.length with hl | hl
            · rw [List.getElem?_eq_getElem hl] at hs; cases hs
            · exact hl
          rw [List.getElem?_eq_none (by rw [j2]; exact hlen)] at hp; cases hp
        | some p0 =>
          rw [hs] at hk
          obtain ⟨p', hp', hst⟩ := j4 p0 hs (Or.inr (by rw [hk]; exact Nat.le_refl _))
          rw [hp'] at hp; cases hp; exact hst
      · rw [j3 q hqp] at hp
        exact hd q (by omega) p hp
    obtain ⟨k2, k3⟩ := ih (stepN cd s pid k) (pid + 1) hd'
    exact ⟨by rw [k2, j2], fun q hq p hp => k3 q (by omega) p hp⟩

theorem drain_stuck (cd : Codec β) (s : Sys β) :
    ∀ p ∈ (drain cd s).procs, p.crashed = true ∨ p.todo = [] := by
  obtain ⟨h1, h2⟩ := drainFrom_stuck cd s.procs.length s 0 (fun q hq => absurd hq (Nat.not_lt_zero q))
  intro p hp
  obtain ⟨q, hq, hqp⟩ := List.mem_iff_getElem.1 hp
  have hq' : q < s.procs.length := by unfold drain at hq; omega
  exact h2 q (by omega) p (by unfold drain at hq; rw [List.getElem?_eq_getElem hq]; exact congrArg some hqp)

/-! ### original protocol: a corrupted db_config.json stays corrupted and fails every later run -/

/-- from here the process cannot write config file 0 before it performs a strict load of it -/
inductive Doomed : List Instr → Prop
  | load (ap rest) : Doomed (.load 0 false ap :: rest)
  | exists0 (k rest) : Doomed (rest.drop k) → Doomed (.existsQ 0 k :: rest)
  | existsOther (f k rest) : f ≠ 0 → Doomed rest → Doomed (rest.drop k) → Doomed (.existsQ f k :: rest)
  | openW (f rest) : f ≠ 0 → Doomed rest → Doomed (.openW f :: rest)
  | writeBuf (f e rest) : f ≠ 0 → Doomed rest → Doomed (.writeBuf f e :: rest)
  | replaceBuf (f e rest) : f ≠ 0 → Doomed rest → Doomed (.replaceBuf f e :: rest)
  | loadOther (f t ap rest) : f ≠ 0 → Doomed rest → Doomed (.load f t ap :: rest)
  | lookup (c k rest) : Doomed rest → Doomed (rest.drop k) → Doomed (.lookup c k :: rest)
  | produce (c an rest) : Doomed rest → Doomed (.produce c an :: rest)

theorem Doomed.ne_nil {l : List Instr} (h : Doomed l) : l ≠ [] := by
  cases h <;> simp

/-- file 0 is the inode `i0` holding `bad`, and nothing else refers to that inode -/
def KWInv (i0 : Nat) (bad : List β) (w : World β) : Prop :=
  w.names 0 = some i0 ∧ w.inodes i0 = bad ∧ i0 < w.nextInode ∧ ∀ f, f ≠ 0 → w.names f ≠ some i0

def KPInv (i0 : Nat) (p : Proc) : Prop :=
  (p.crashed = true ∨ Doomed p.todo) ∧ ∀ f, p.fd f ≠ some i0

theorem step_kinv (cd : Codec β) (i0 : Nat) (bad : List β) (hbad : cd.parse bad = none) (w : World β) (p : Proc)
    (hw : KWInv i0 bad w) (hp : KPInv i0 p) :
    KWInv i0 bad (stepProc cd w p).1 ∧ KPInv i0 (stepProc cd w p).2 := by
  obtain ⟨hn0, hi0, hlt, hinj⟩ := hw
  obtain ⟨hd, hfd⟩ := hp
  unfold stepProc
  split
  · exact ⟨⟨hn0, hi0, hlt, hinj⟩, hd, hfd⟩
  · rename_i hcr
    have hdo : Doomed p.todo := by
      rcases hd with h | h
      · exact absurd h hcr
      · exact h
    split
    · rename_i h; exact absurd h hdo.ne_nil
    · -- existsQ
      rename_i f k rest htodo
      rw [htodo] at hdo
      refine ⟨⟨hn0, hi0, hlt, hinj⟩, ?_, hfd⟩
      right
      dsimp only
      cases hdo with
      | exists0 _ _ h => simp [hn0]; exact h
      | existsOther _ _ _ _ h1 h2 => split <;> assumption
    · -- openW
      rename_i f rest htodo
      rw [htodo] at hdo
      cases hdo with
      | openW _ _ hf h =>
        split
        · rename_i i hi
          have hne : i ≠ i0 := fun e => hinj f hf (e ▸ hi)
          refine ⟨⟨hn0, ?_, hlt, hinj⟩, Or.inr h, ?_⟩
          · show upd w.inodes i [] i0 = bad
            unfold upd; rw [if_neg (Ne.symm hne)]; exact hi0
          · intro f'
            show upd p.fd f (some i) f' ≠ some i0
            unfold upd
            split
            · intro e; exact hne (Option.some.inj e)
            · exact hfd f'
        · refine ⟨⟨?_, ?_, Nat.lt_succ_of_lt hlt, ?_⟩, Or.inr h, ?_⟩
          · show upd w.names f (some w.nextInode) 0 = some i0
            unfold upd; rw [if_neg (Ne.symm hf)]; exact hn0
          · show upd w.inodes w.nextInode [] i0 = bad
            unfold upd; rw [if_neg (Nat.ne_of_lt hlt)]; exact hi0
          · intro f' hf'
            show upd w.names f (some w.nextInode) f' ≠ some i0
            unfold upd
            split
            · intro e; exact Nat.ne_of_lt hlt (Option.some.inj e).symm
            · exact hinj f' hf'
          · intro f'
            show upd p.fd f (some w.nextInode) f' ≠ some i0
            unfold upd
            split
            · intro e; exact Nat.ne_of_lt hlt (Option.some.inj e).symm
            · exact hfd f'
    · -- writeBuf
      rename_i f e rest htodo
      rw [htodo] at hdo
      cases hdo with
      | writeBuf _ _ _ hf h =>
        split
        · exact ⟨⟨hn0, hi0, hlt, hinj⟩, Or.inl rfl, hfd⟩
        · rename_i i hi
          have hne : i ≠ i0 := fun e => hfd f (e ▸ hi)
          refine ⟨⟨hn0, ?_, hlt, hinj⟩, Or.inr h, ?_⟩
          · show upd w.inodes i _ i0 = bad
            unfold upd; rw [if_neg (Ne.symm hne)]; exact hi0
          · intro f'
            show upd p.fd f none f' ≠ some i0
            unfold upd
            split
            · intro e; cases e
            · exact hfd f'
    · -- replaceBuf
      rename_i f e rest htodo
      rw [htodo] at hdo
      cases hdo with
      | replaceBuf _ _ _ hf h =>
        refine ⟨⟨?_, ?_, Nat.lt_succ_of_lt hlt, ?_⟩, Or.inr h, hfd⟩
        · show upd w.names f (some w.nextInode) 0 = some i0
          unfold upd; rw [if_neg (Ne.symm hf)]; exact hn0
        · show upd w.inodes w.nextInode _ i0 = bad
          unfold upd; rw [if_neg (Nat.ne_of_lt hlt)]; exact hi0
        · intro f' hf'
          show upd w.names f (some w.nextInode) f' ≠ some i0
          unfold upd
          split
          · intro e; exact Nat.ne_of_lt hlt (Option.some.inj e).symm
          · exact hinj f' hf'
    · -- load
      rename_i f tol ap rest htodo
      rw [htodo] at hdo
      dsimp only
      cases hdo with
      | load _ _ =>
        have : loadDict cd w 0 = none := by
          unfold loadDict World.content; simp [hn0, hi0, hbad]
        simp [this]
        exact ⟨⟨hn0, hi0, hlt, hinj⟩, Or.inl rfl, hfd⟩
      | loadOther _ _ _ _ hf h =>
        split
        · exact ⟨⟨hn0, hi0, hlt, hinj⟩, Or.inl rfl, hfd⟩
        · exact ⟨⟨hn0, hi0, hlt, hinj⟩, Or.inr h, hfd⟩
    · -- lookup
      rename_i c k rest htodo
      rw [htodo] at hdo
      cases hdo with
      | lookup _ _ _ h1 h2 =>
        split
        · exact ⟨⟨hn0, hi0, hlt, hinj⟩, Or.inr h2, hfd⟩
        · exact ⟨⟨hn0, hi0, hlt, hinj⟩, Or.inr h1, hfd⟩
    · -- produce
      rename_i c an rest htodo
      rw [htodo] at hdo
      cases hdo with
      | produce _ _ _ h =>
        split
        · dsimp only
          split
          · exact ⟨⟨hn0, hi0, hlt, hinj⟩, Or.inr h, hfd⟩
          · exact ⟨⟨hn0, hi0, hlt, hinj⟩, Or.inl rfl, hfd⟩
        · exact ⟨⟨hn0, hi0, hlt, hinj⟩, Or.inl rfl, hfd⟩

def KInv (i0 : Nat) (bad : List β) (s : Sys β) : Prop :=
  KWInv i0 bad s.world ∧ ∀ p ∈ s.procs, KPInv i0 p

theorem run_kinv (cd : Codec β) (i0 : Nat) (bad : List β) (hbad : cd.parse bad = none) (sched : List Nat) :
    ∀ (s : Sys β), KInv i0 bad s → KInv i0 bad (run cd s sched) := by
  induction sched with
  | nil => intro s h; exact h
  | cons pid r ih =>
    intro s h
    show KInv i0 bad (run cd (stepSys cd s pid) r)
    apply ih
    unfold stepSys
    split
    · exact h
    · rename_i p hp
      have hmem : p ∈ s.procs := List.mem_of_getElem? hp
      obtain ⟨h1, h2⟩ := step_kinv cd i0 bad hbad s.world p h.1 (h.2 p hmem)
      refine ⟨h1, ?_⟩
      intro q hq
      rcases List.mem_or_eq_of_mem_set hq with hq | hq
      · exact h.2 q hq
      · exact hq ▸ h2

theorem forall_mem_append'


 {α : Type} {P : α → Prop} {l1 l2 : List α} (h1 : ∀ i ∈ l1, P i) (h2 : ∀ i ∈ l2, P i) :
    ∀ i ∈ l1 ++ l2, P i := by
  intro i hi
  rcases List.mem_append.1 hi with h | h
  · exact h1 i h
  · exact h2 i h

theorem forall_mem_flatMap' {α γ : Type} {P : α → Prop} {l : List γ} {g : γ → List α}
    (h : ∀ x ∈ l, ∀ i ∈ g x, P i) : ∀ i ∈ l.flatMap g, P i := by
  intro i hi
  obtain ⟨x, hx, hi⟩ := List.mem_flatMap.1 hi
  exact h x hx i hi


end IsoVerif.Lemmas.C20
