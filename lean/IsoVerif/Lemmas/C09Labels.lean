/-
Helper lemmas for the label dictionaries of file mode (Model/C09Labels.lean; C10's `addFiles` / `blockOwn`).
Core Lean only.
-/
import IsoVerif.Model.C09Labels
import IsoVerif.Lemmas.C09Split

namespace IsoVerif.Lemmas.C09Labels
open IsoVerif.Model.C09 IsoVerif.Lemmas.C09Split
open IsoVerif.Model.C10 (addFiles blockOwn ListLine lineLabel InFile)

/-! ### dictionaries -/

theorem any_key_iff (d : List (String × String)) (k : String) :
    d.any (fun p => p.1 == k) = true ↔ k ∈ d.map Prod.fst := by
  induction d with
  | nil => simp
  | cons p t ih =>
    simp only [List.any_cons, Bool.or_eq_true, beq_iff_eq, ih, List.map_cons, List.mem_cons]
    constructor
    · rintro (h | h)
      · exact Or.inl h.symm
      · exact Or.inr h
    · rintro (h | h)
      · exact Or.inl h.symm
      · exact Or.inr h

/-- `addFiles`: success means the new keys are pairwise distinct and not yet registered; the result is the old
    dictionary followed by the new pairs -/
theorem addFiles_eq_some (pairs cur d : List (String × String)) :
    addFiles cur pairs = some d ↔
      d = cur ++ pairs ∧ (pairs.map Prod.fst).Nodup ∧ ∀ k ∈ pairs.map Prod.fst, k ∉ cur.map Prod.fst := by
  induction pairs generalizing cur with
  | nil => simp [addFiles]; exact eq_comm
  | cons p ps ih =>
    obtain ⟨path, label⟩ := p
    simp only [addFiles]
    by_cases hany : cur.any (fun q => q.1 == path) = true
    · have hk := (any_key_iff cur path).mp hany
      simp only [hany, if_true, reduceCtorEq, false_iff]
      rintro ⟨_, _, h⟩
      exact h path (by simp) hk
    · have hk : path ∉ cur.map Prod.fst := fun h => hany ((any_key_iff cur path).mpr h)
      simp only [hany, Bool.false_eq_true, if_false, ih]
      simp only [List.map_cons, List.nodup_cons, List.mem_cons, List.append_assoc, List.singleton_append,
        List.map_append, List.mem_append, List.map_nil]
      constructor
      · rintro ⟨rfl, hnd, hdis⟩
        refine ⟨rfl, ⟨fun hm => (hdis path hm) (Or.inr (Or.inl rfl)), hnd⟩, ?_⟩
        rintro k (rfl | hkm)
        · exact hk
        · exact fun hc => hdis k hkm (Or.inl hc)
      · rintro ⟨rfl, ⟨hnp, hnd⟩, hdis⟩
        refine ⟨rfl, hnd, ?_⟩
        intro k hkm hc
        rcases hc with hc | hc | hc
        · exact hdis k (Or.inr hkm) hc
        · subst hc; exact hnp hkm
        · cases hc

theorem lookup_of_mem_nodup (l : List (String × String)) (hnd : (l.map Prod.fst).Nodup) (k v : String)
    (h : (k, v) ∈ l) : l.lookup k = some v :=
  (lookup_iff_mem_of_nodup l hnd k v).mpr h

theorem zip_map_fst {α β} (l : List α) (m : List β) (h : l.length = m.length) : (l.zip m).map Prod.fst = l := by
  induction l generalizing m with
  | nil => simp
  | cons x xs ih =>
    cases m with
    | nil => simp at h
    | cons y ys => simp [ih ys (by simpa using h)]

/-! ### `--bam` / `--labels` -/

/-- the pairs the loop registers from position `i` on -/
def pairsFrom (labels : Option (List String)) (i : Nat) (fs : List String) : List (String × String) :=
  match labels with
  | none => fs.map (fun f => (f, fileStem f))
  | some ls => fs.zip (ls.drop i)

theorem cmdLoop_eq (labels : Option (List String)) (fs : List String) (i : Nat) (d : List (String × String))
    (hl : ∀ ls, labels = some ls → i + fs.length ≤ ls.length) :
    cmdLoop labels fs i d = match addFiles d (pairsFrom labels i fs) with
      | none => .error (.exit (-2))
      | some d' => .ok d' := by
  induction fs generalizing i d with
  | nil => cases labels <;> simp [cmdLoop, pairsFrom, addFiles]
  | cons f fs ih =>
    cases labels with
    | none =>
      simp only [cmdLoop, pairsFrom, List.map_cons, addFiles]
      split
      · rfl
      · exact ih (i + 1) _ (by intro ls h; cases h)
    | some ls =>
      have hlen := hl ls rfl
      simp only [List.length_cons] at hlen
      have hi : i < ls.length := by omega
      have hdrop : ls.drop i = ls[i] :: ls.drop (i + 1) := (List.drop_eq_getElem_cons hi)
      simp only [cmdLoop, pairsFrom, hdrop, List.zip_cons_cons, addFiles, List.getElem?_eq_getElem hi]
      split
      · rfl
      · have := ih (i + 1) (d ++ [(f, ls[i])]) (by intro ls' h; cases h; omega)
        simpa [pairsFrom] using this

/-! ### the fall-back dictionary of `FileNameGrouper.__init__` -/

/-- the label the fall-back branch gives to file `f`: the stem of the first file of the LAST library that contains `f` -/
def fallbackLabel : List (List String) → String → Option String
  | [], _ => none
  | lib :: libs, f =>
    match fallbackLabel libs f with
    | some l => some l
    | none => if lib.contains f then lib.head?.map fileStem else none

theorem foldl_dictSet_lookup (lib : List String) (v : String) (d : List (String × String)) (f : String) :
    (lib.foldl (fun acc x => dictSet acc x v) d).lookup f = if lib.contains f then some v else d.lookup f := by
  induction lib generalizing d with
  | nil => simp
  | cons x xs ih =>
    simp only [List.foldl_cons, ih, lookup_dictSet, List.contains_cons]
    by_cases hx : f = x
    · subst hx; simp
    · have : (f == x) = false := by simp [hx]
      simp only [this, Bool.false_or]
      split <;> simp_all

theorem initLibs_lookup (libs : List (List String)) (d d' : List (String × String)) (h : initLibs d libs = .ok d')
    (f : String) :
    d'.lookup f = match fallbackLabel libs f with
      | some l => some l
      | none => d.lookup f := by
  induction libs generalizing d with
  | nil =>
    simp only [initLibs] at h
    injection h with h
    subst h
    rfl
  | cons lib libs ih =>
    simp only [initLibs] at h
    cases hl : initLib d lib with
    | error e => simp [hl] at h
    | ok d1 =>
      simp only [hl] at h
      rw [ih d1 h]
      simp only [fallbackLabel]
      cases hf : fallbackLabel libs f with
      | some l => rfl
      | none =>
        simp only
        cases lib with
        | nil => simp [initLib] at hl
        | cons f0 rest =>
          simp only [initLib] at hl
          injection hl with hl
          subst hl
          rw [foldl_dictSet_lookup]
          simp only [List.head?_cons, Option.map_some]
          split <;> rfl

/-! ### list-file blocks (C10's `blockOwn`) -/

/-- (file, label) pairs a line of a list file registers -/
def linePairs : ListLine → List (String × String)
  | .files fs label => fs.map (fun f => (f.path, lineLabel fs label))
  | .header _ => []

theorem blockOwn_spec (lines : List ListLine) (d : List (String × String)) (c : List (List String))
    (d' : List (String × String)) (c' : List (List String)) (h : blockOwn d c lines = some (d', c'))
    (hnd : (d.map Prod.fst).Nodup) :
    d' = d ++ lines.flatMap linePairs ∧ (d'.map Prod.fst).Nodup := by
  induction lines generalizing d c with
  | nil =>
    simp only [blockOwn, Option.some.injEq, Prod.mk.injEq] at h
    obtain ⟨rfl, _⟩ := h
    exact ⟨by simp, hnd⟩
  | cons l ls ih =>
    cases l with
    | header n => simp [blockOwn] at h
    | files fs label =>
      simp only [blockOwn] at h
      cases ha : addFiles d (fs.map (fun f => (f.path, lineLabel fs label))) with
      | none => simp [ha] at h
      | some d1 =>
        simp only [ha] at h
        obtain ⟨rfl, hnd1, hdis⟩ := (addFiles_eq_some _ d d1).mp ha
        have hnd' : ((d ++ fs.map (fun f => (f.path, lineLabel fs label))).map Prod.fst).Nodup := by
          rw [List.map_append]
          exact List.nodup_append.mpr ⟨hnd, hnd1, fun a ha b hb hab => by subst hab; exact hdis a hb ha⟩
        obtain ⟨hd', hn'⟩ := ih _ _ h hnd'
        refine ⟨?_, hn'⟩
        rw [hd']
        simp [linePairs, List.flatMap_cons]

end IsoVerif.Lemmas.C09Labels
