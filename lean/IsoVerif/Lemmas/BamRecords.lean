/-
Helper lemmas for C12: from cluster equivalence to the multiset of records; queue keys never tie.
-/
import IsoVerif.Model.BamMerge
import IsoVerif.Lemmas.BamMerge
import IsoVerif.Lemmas.BamClusters

namespace IsoVerif.Lemmas.C12
open IsoVerif.Gen IsoVerif.Model.C12
open List

/-! ### naturality of the cluster loop -/

theorem clustersGo_map {E F : Type} (f : E → F) (al : F → Aln) (st : Option (Iv × List E)) (l : List E) :
    (clustersGo (fun e => al (f e)) st l).map (fun rc => (rc.1, rc.2.map f)) =
      clustersGo al (st.map (fun rc => (rc.1, rc.2.map f))) (l.map f) := by
  induction l generalizing st with
  | nil =>
    cases st with
    | none => simp [clustersGo]
    | some rc => obtain ⟨r, cur⟩ := rc; simp [clustersGo]
  | cons a t ih =>
    cases st with
    | none =>
      simp only [clustersGo, List.map_cons, Option.map_none]
      rw [ih]; simp
    | some rc =>
      obtain ⟨r, cur⟩ := rc
      by_cases ho : overlaps r (alnIv (al (f a))) = true
      · simp only [clustersGo, ho, if_true, List.map_cons, Option.map_some]
        rw [ih]; simp
      · have ho' : overlaps r (alnIv (al (f a))) = false := by simpa using ho
        simp only [clustersGo, ho', Bool.false_eq_true, if_false, List.map_cons, Option.map_some]
        rw [ih]; simp

/-- a cluster with the bam indices dropped -/
def strip (rc : Iv × List Entry) : Iv × List Aln := (rc.1, rc.2.map Prod.snd)

theorem clusters_strip (l : List Entry) :
    (clusters Prod.snd l).map strip = clusters id (l.map Prod.snd) := by
  exact clustersGo_map (E := Entry) (F := Aln) Prod.snd id none l

/-! ### flatMap and permutations -/

theorem flatMap_perm_pointwise {α β : Type} (l : List α) (g1 g2 : α → List β) (h : ∀ x ∈ l, g1 x ~ g2 x) :
    l.flatMap g1 ~ l.flatMap g2 := by
  induction l with
  | nil => simp
  | cons a t ih =>
    simp only [List.flatMap_cons]
    exact Perm.append (h a List.mem_cons_self) (ih (fun x hx => h x (List.mem_cons_of_mem _ hx)))

theorem flatMap_perm_forall2 {α β γ : Type} {R : α → β → Prop} {l1 : List α} {l2 : List β} (g1 : α → List γ)
    (g2 : β → List γ) (h : Forall2 R l1 l2) (hg : ∀ x y, R x y → g1 x ~ g2 y) : l1.flatMap g1 ~ l2.flatMap g2 := by
  induction h with
  | nil => simp
  | cons hab _ ih =>
    simp only [List.flatMap_cons]
    exact Perm.append (hg _ _ hab) ih

theorem sum_perm {l1 l2 : List Int} (h : l1 ~ l2) : l1.sum = l2.sum := by
  induction h with
  | nil => rfl
  | cons _ _ ih => simp [ih]
  | swap a b l => simp only [List.sum_cons]; omega
  | trans _ _ ih1 ih2 => exact ih1.trans ih2

theorem cov_perm {c c' : List Aln} (h : c ~ c') : cov c = cov c' := by
  funext b
  exact h.countP_eq _

theorem subRegions_perm (split : SplitFn) (r : Iv) {c c' : List Aln} (h : c ~ c') :
    subRegions split r c = subRegions split r c' := by
  simp only [subRegions, cov_perm h, h.length_eq]

/-! ### the queue never holds two entries of one iterator (so the tuple comparison never ties) -/

theorem nodup_step {s : MState} {m : Entry} (hm : m ∈ s.queue) (hn : (s.queue.map Prod.fst).Nodup) :
    ((stepState s m).queue.map Prod.fst).Nodup := by
  have hp : s.queue.map Prod.fst ~ m.1 :: (s.queue.erase m).map Prod.fst := by
    simpa using (perm_cons_erase hm).map Prod.fst
  have hn' := (hp.nodup_iff).mp hn
  unfold stepState advance
  split
  · simpa using hn'
  · exact (List.nodup_cons.mp hn').2

theorem initGo_nodup (i : Nat) (files : List (List Aln)) : ((initGo i files).1.map Prod.fst).Nodup := by
  induction files generalizing i with
  | nil => simp [initGo]
  | cons f fs ih =>
    cases f with
    | nil => simpa [initGo] using ih (i + 1)
    | cons a t =>
      simp only [initGo, List.map_cons, List.nodup_cons]
      refine ⟨?_, ih (i + 1)⟩
      intro hmem
      obtain ⟨e, he, hei⟩ := List.mem_map.mp hmem
      have := initGo_index_ge (i + 1) fs e he
      omega

/-- the merger state after `n` rounds of `get` (`none` once the queue has run empty) -/
def stateAfter (files : List (List Aln)) : Nat → Option MState
  | 0 => some (initState files)
  | n + 1 =>
    match stateAfter files n with
    | none => none
    | some s =>
      match minEntry s.queue with
      | none => none
      | some m => some (stepState s m)

theorem stateAfter_nodup (files : List (List Aln)) (n : Nat) (s : MState) (h : stateAfter files n = some s) :
    (s.queue.map Prod.fst).Nodup := by
  induction n generalizing s with
  | zero =>
    simp only [stateAfter, Option.some.injEq] at h
    subst h
    simpa [initState] using initGo_nodup 0 files
  | succ n ih =>
    simp only [stateAfter] at h
    cases hs : stateAfter files n with
    | none => simp [hs] at h
    | some s0 =>
      simp only [hs] at h
      cases hm : minEntry s0.queue with
      | none => simp [hm] at h
      | some m =>
        simp only [hm, Option.some.injEq] at h
        subst h
        exact nodup_step (minEntry_mem hm) (ih s0 hs)

/-! ### nothing is lost by the cluster loop -/

theorem clustersGo_flatten {E : Type} (al : E → Aln) (st : Option (Iv × List E)) (l : List E) :
    (clustersGo al st l).flatMap (·.2) =
      (match st with | none => [] | some rc => rc.2.reverse) ++ l := by
  induction l generalizing st with
  | nil =>
    cases st with
    | none => simp [clustersGo]
    | some rc => obtain ⟨r, cur⟩ := rc; simp [clustersGo]
  | cons a t ih =>
    cases st with
    | none => simp [clustersGo, ih]
    | some rc =>
      obtain ⟨r, cur⟩ := rc
      by_cases ho : overlaps r (alnIv (al a)) = true
      · simp [clustersGo, ho, ih]
      · have ho' : overlaps r (alnIv (al a)) = false := by simpa using ho
        simp [clustersGo, ho', ih]

theorem clusters_flatten_aux {E : Type} (al : E → Aln) (l : List E) : (clusters al l).flatMap (·.2) = l := by
  simpa [clusters] using clustersGo_flatten al none l

/-! ### records -/

theorem fetch_merge_perm (files : List (List Aln)) (sub : Iv) :
    (Model.C12.merge (files.map (fetch sub))).map Prod.snd ~ fetch sub files.flatten := by
  have := merge_perm_aux (files.map (fetch sub))
  have e : fetch sub files.flatten = (files.map (fetch sub)).flatten := by
    unfold fetch; exact List.filter_flatten
  rw [e]; exact this

theorem regionRecords_perm {R : Type} (assign : Assign R) (files1 files2 : List (List Aln))
    (hp : files1.flatten ~ files2.flatten) (hidx : ∀ r i j a, assign r i a = assign r j a) (sub : Iv) :
    regionRecords assign files1 sub ~ regionRecords assign files2 sub := by
  have key : ∀ files : List (List Aln), regionRecords assign files sub =
      ((Model.C12.merge (files.map (fetch sub))).map Prod.snd).filterMap (assign sub 0) := by
    intro files
    simp only [regionRecords, List.filterMap_map]
    congr 1
    funext e
    exact hidx sub e.1 0 e.2
  rw [key, key]
  refine Perm.filterMap _ ?_
  have hf : fetch sub files1.flatten ~ fetch sub files2.flatten := Perm.filter _ hp
  exact (fetch_merge_perm files1 sub).trans (hf.trans (fetch_merge_perm files2 sub).symm)

theorem merged_cluster_equiv (files1 files2 : List (List Aln))
    (s1 : ∀ f ∈ files1, SortedStart f) (s2 : ∀ f ∈ files2, SortedStart f)
    (wf : ∀ a ∈ files1.flatten, a.start < a.stop) (hp : files1.flatten ~ files2.flatten) :
    ClusterEquiv ((clusters Prod.snd (Model.C12.merge files1)).map strip)
      ((clusters Prod.snd (Model.C12.merge files2)).map strip) := by
  have hm1 := merge_perm_aux files1
  have hm2 := merge_perm_aux files2
  rw [clusters_strip, clusters_strip]
  refine go_perm_invariant id _ _ none ?_ ?_ ?_ (hm1.trans (hp.trans hm2.symm)) ?_
  · exact List.pairwise_map.mpr (merge_sorted_aux files1 s1)
  · exact List.pairwise_map.mpr (merge_sorted_aux files2 s2)
  · intro x hx
    exact wf x (hm1.subset hx)
  · intro x _ r cur h; cases h

theorem collect_perm {R : Type} (split : SplitFn) (assign : Assign R) (files1 files2 : List (List Aln))
    (s1 : ∀ f ∈ files1, SortedStart f) (s2 : ∀ f ∈ files2, SortedStart f)
    (wf : ∀ a ∈ files1.flatten, a.start < a.stop) (hp : files1.flatten ~ files2.flatten)
    (hidx : ∀ r i j a, assign r i a = assign r j a) :
    collect split assign files1 ~ collect split assign files2 := by
  have hce := merged_cluster_equiv files1 files2 s1 s2 wf hp
  have e : ∀ (files : List (List Aln)) (C : List (Iv × List Entry)),
      C.flatMap (fun rc => (subRegions split rc.1 (rc.2.map Prod.snd)).flatMap (regionRecords assign files)) =
      (C.map strip).flatMap (fun rc => (subRegions split rc.1 rc.2).flatMap (regionRecords assign files)) := by
    intro files C
    simp [List.flatMap_map, strip]
  unfold collect
  rw [e, e]
  refine flatMap_perm_forall2 _ _ hce ?_
  intro x y hxy
  obtain ⟨hr, hc⟩ := hxy
  rw [hr, subRegions_perm split y.1 hc]
  exact flatMap_perm_pointwise _ _ _ (fun sub _ => regionRecords_perm assign files1 files2 hp hidx sub)

/-- `memAlignments` on bare alignments -/
def memAlns (r : Iv) (c : List Aln) (sub : Iv) : List Aln :=
  if sub = r then c else c.filter (fun a => overlaps sub (alnIv a))

theorem memAlignments_strip (r : Iv) (c : List Entry) (sub : Iv) :
    (memAlignments r c sub).map Prod.snd = memAlns r (c.map Prod.snd) sub := by
  unfold memAlignments memAlns
  split
  · rfl
  · simp [List.filter_map, Function.comp_def]

theorem collectMem_perm {R : Type} (split : SplitFn) (assign : Assign R) (files1 files2 : List (List Aln))
    (s1 : ∀ f ∈ files1, SortedStart f) (s2 : ∀ f ∈ files2, SortedStart f)
    (wf : ∀ a ∈ files1.flatten, a.start < a.stop) (hp : files1.flatten ~ files2.flatten)
    (hidx : ∀ r i j a, assign r i a = assign r j a) :
    collectMem split assign files1 ~ collectMem split assign files2 := by
  have hce := merged_cluster_equiv files1 files2 s1 s2 wf hp
  have key : ∀ (r : Iv) (c : List Entry) (sub : Iv),
      (memAlignments r c sub).filterMap (fun e => assign sub e.1 e.2) =
      (memAlns r (c.map Prod.snd) sub).filterMap (assign sub 0) := by
    intro r c sub
    rw [← memAlignments_strip, List.filterMap_map]
    congr 1
    funext e
    exact hidx sub e.1 0 e.2
  have e : ∀ (C : List (Iv × List Entry)),
      C.flatMap (fun rc => (subRegions split rc.1 (rc.2.map Prod.snd)).flatMap (fun sub =>
        (memAlignments rc.1 rc.2 sub).filterMap (fun e => assign sub e.1 e.2))) =
      (C.map strip).flatMap (fun rc => (subRegions split rc.1 rc.2).flatMap (fun sub =>
        (memAlns rc.1 rc.2 sub).filterMap (assign sub 0))) := by
    intro C
    simp [List.flatMap_map, strip, key]
  unfold collectMem
  rw [e, e]
  refine flatMap_perm_forall2 _ _ hce ?_
  intro x y hxy
  obtain ⟨hr, hc⟩ := hxy
  rw [hr, subRegions_perm split y.1 hc]
  refine flatMap_perm_pointwise _ _ _ (fun sub _ => Perm.filterMap _ ?_)
  unfold memAlns
  split
  · exact hc
  · exact Perm.filter _ hc

theorem eq_of_nodup_map {α β : Type} (f : α → β) {l : List α} (hn : (l.map f).Nodup) {x y : α}
    (hx : x ∈ l) (hy : y ∈ l) (hf : f x = f y) : x = y := by
  induction l with
  | nil => cases hx
  | cons a t ih =>
    simp only [List.map_cons, List.nodup_cons, List.mem_map, not_exists, not_and] at hn
    rcases List.mem_cons.mp hx with rfl | hx' <;> rcases List.mem_cons.mp hy with rfl | hy'
    · rfl
    · exact absurd hf.symm (hn.1 y hy')
    · exact absurd hf (hn.1 x hx')
    · exact ih hn.2 hx' hy'

theorem collect_map {R S : Type} (proj : R → S) (split : SplitFn) (assign : Assign R) (files : List (List Aln)) :
    (collect split assign files).map proj = collect split (fun r i a => (assign r i a).map proj) files := by
  simp only [collect, List.map_flatMap]
  congr 1; funext rc; congr 1; funext sub
  simp only [regionRecords, List.map_filterMap]

end IsoVerif.Lemmas.C12
