/-
Helper lemmas for C08 (multimapper resolution).  Core Lean only.
-/
import IsoVerif.Model.Resolver

namespace IsoVerif.Lemmas.Resolver
open IsoVerif.Gen IsoVerif.Model.Resolver

/-! ### first-wins duplicate elimination -/

section FirstWins
variable {α : Type} (eq : α → α → Bool)

theorem firstWinsAux_prefix (kept l : List α) :
    ∃ s, firstWinsAux eq kept l = kept ++ s ∧ s.Sublist l := by
  induction l generalizing kept with
  | nil => exact ⟨[], by simp [firstWinsAux]⟩
  | cons x rest ih =>
    unfold firstWinsAux
    split
    · obtain ⟨s, h1, h2⟩ := ih kept
      exact ⟨s, h1, h2.cons x⟩
    · obtain ⟨s, h1, h2⟩ := ih (kept ++ [x])
      exact ⟨x :: s, by simp [h1], h2.cons_cons x⟩

theorem kept_subset_firstWinsAux (kept l : List α) : ∀ k ∈ kept, k ∈ firstWinsAux eq kept l := by
  obtain ⟨s, h, _⟩ := firstWinsAux_prefix eq kept l
  intro k hk; rw [h]; exact List.mem_append_left _ hk

theorem firstWins_sublist (l : List α) : (firstWins eq l).Sublist l := by
  obtain ⟨s, h, hs⟩ := firstWinsAux_prefix eq [] l
  unfold firstWins; rw [h]; simpa using hs

theorem mem_of_mem_firstWins {l : List α} {x : α} (h : x ∈ firstWins eq l) : x ∈ l :=
  (firstWins_sublist eq l).subset h

/-- every element has a representative among the survivors (reflexivity only) -/
theorem firstWinsAux_repr (hrefl : ∀ a, eq a a = true) (kept l : List α) :
    ∀ x ∈ l, ∃ k ∈ firstWinsAux eq kept l, eq k x = true := by
  induction l generalizing kept with
  | nil => intro x hx; cases hx
  | cons y rest ih =>
    intro x hx
    unfold firstWinsAux
    rcases List.mem_cons.mp hx with rfl | hx
    · split
      · rename_i hany
        obtain ⟨k, hk, hkx⟩ := List.any_eq_true.mp hany
        exact ⟨k, kept_subset_firstWinsAux eq kept rest k hk, hkx⟩
      · exact ⟨x, kept_subset_firstWinsAux eq _ rest x (by simp), hrefl x⟩
    · split
      · exact ih kept x hx
      · exact ih _ x hx

theorem firstWins_repr (hrefl : ∀ a, eq a a = true) (l : List α) :
    ∀ x ∈ l, ∃ k ∈ firstWins eq l, eq k x = true := firstWinsAux_repr eq hrefl [] l

/-- no two survivors are equal -/
theorem firstWinsAux_pairwise (kept l : List α) (h : kept.Pairwise (fun a b => eq a b = false)) :
    (firstWinsAux eq kept l).Pairwise (fun a b => eq a b = false) := by
  induction l generalizing kept with
  | nil => simpa [firstWinsAux] using h
  | cons x rest ih =>
    unfold firstWinsAux
    split
    · exact ih kept h
    · rename_i hany
      apply ih
      rw [List.pairwise_append]
      refine ⟨h, by simp, ?_⟩
      intro a ha b hb
      simp only [List.mem_singleton] at hb; subst hb
      cases hab : eq a b with
      | false => rfl
      | true => exact absurd (List.any_eq_true.mpr ⟨a, ha, hab⟩) hany

theorem firstWins_pairwise (l : List α) : (firstWins eq l).Pairwise (fun a b => eq a b = false) :=
  firstWinsAux_pairwise eq [] l List.Pairwise.nil

/-- the first element of its class survives -/
theorem firstWinsAux_first (kept pre post : List α) (x : α)
    (hk : ∀ k ∈ kept, eq k x = false) (hpre : ∀ y ∈ pre, eq y x = false) :
    x ∈ firstWinsAux eq kept (pre ++ x :: post) := by
  induction pre generalizing kept with
  | nil =>
    simp only [List.nil_append]
    unfold firstWinsAux
    have : kept.any (fun k => eq k x) = false := by
      rw [List.any_eq_false]; intro k hk'; simp [hk k hk']
    simp only [this]
    exact kept_subset_firstWinsAux eq _ post x (by simp)
  | cons y pre ih =>
    simp only [List.cons_append]
    unfold firstWinsAux
    split
    · exact ih kept hk (fun z hz => hpre z (List.mem_cons_of_mem _ hz))
    · apply ih
      · intro k hk'
        rcases List.mem_append.mp hk' with h | h
        · exact hk k h
        · simp only [List.mem_singleton] at h; subst h; exact hpre _ (by simp)
      · exact fun z hz => hpre z (List.mem_cons_of_mem _ hz)

theorem firstWins_first (pre post : List α) (x : α) (hpre : ∀ y ∈ pre, eq y x = false) :
    x ∈ firstWins eq (pre ++ x :: post) :=
  firstWinsAux_first eq [] pre post x (by simp) hpre

end FirstWins


/-! ### `__eq__`, keys, `len(set(..))` -/

theorem recEq_refl (a : Rec) : recEq a a = true := by simp [recEq]

theorem recEq_iff (a b : Rec) : recEq a b = true ↔ a.readId = b.readId ∧ key a = key b := by
  simp only [recEq, key, Bool.and_eq_true, beq_iff_eq, Prod.mk.injEq]
  constructor
  · rintro ⟨⟨⟨⟨h1, h2⟩, h3⟩, h4⟩, h5⟩; exact ⟨h1, h2, h3, h4, h5⟩
  · rintro ⟨h1, h2, h3, h4, h5⟩; exact ⟨⟨⟨⟨h1, h2⟩, h3⟩, h4⟩, h5⟩

theorem recEq_symm (a b : Rec) : recEq a b = recEq b a := by
  rw [Bool.eq_iff_iff, recEq_iff, recEq_iff]
  constructor <;> (rintro ⟨h1, h2⟩; exact ⟨h1.symm, h2.symm⟩)

theorem recEq_trans {a b c : Rec} (h1 : recEq a b = true) (h2 : recEq b c = true) : recEq a c = true := by
  rw [recEq_iff] at *; exact ⟨h1.1.trans h2.1, h1.2.trans h2.2⟩

theorem key_eq_of_recEq {a b : Rec} (h : recEq a b = true) : key a = key b := ((recEq_iff a b).mp h).2

theorem length_gt_one_of_two_mem {α : Type} {l : List α} {a b : α} (ha : a ∈ l) (hb : b ∈ l) (hab : a ≠ b) :
    1 < l.length := by
  match l, ha, hb with
  | [x], ha, hb =>
    simp only [List.mem_singleton] at ha hb; exact absurd (ha.trans hb.symm) hab
  | _ :: _ :: _, _, _ => simp

/-- `len(set(xs)) > 1` iff two members differ -/
theorem setSize_gt_one_iff (xs : List Nat) : 1 < setSize xs ↔ ∃ a ∈ xs, ∃ b ∈ xs, a ≠ b := by
  unfold setSize
  constructor
  · intro h
    have hp := firstWins_pairwise (fun a b : Nat => a == b) xs
    have hs := firstWins_sublist (fun a b : Nat => a == b) xs
    match hfw : firstWins (fun a b : Nat => a == b) xs, h with
    | a :: b :: rest, _ =>
      rw [hfw] at hp hs
      have hab : (a == b) = false := (List.pairwise_cons.mp hp).1 b (by simp)
      exact ⟨a, hs.subset (by simp), b, hs.subset (by simp), by simpa using hab⟩
  · rintro ⟨a, ha, b, hb, hab⟩
    obtain ⟨ka, hka, ea⟩ := firstWins_repr (fun a b : Nat => a == b) (by simp) xs a ha
    obtain ⟨kb, hkb, eb⟩ := firstWins_repr (fun a b : Nat => a == b) (by simp) xs b hb
    simp only [beq_iff_eq] at ea eb
    subst ea; subst eb
    exact length_gt_one_of_two_mem hka hkb hab

theorem setSize_le_one_of_all_eq (xs : List Nat) (h : ∀ a ∈ xs, ∀ b ∈ xs, a = b) : setSize xs ≤ 1 := by
  apply Nat.le_of_not_lt
  intro hgt
  obtain ⟨a, ha, b, hb, hab⟩ := (setSize_gt_one_iff xs).mp hgt
  exact hab (h a ha b hb)

/-! ### `filter_assignments` record by record -/

theorem suspend_atype (r : Rec) : (suspend r).atype = .suspended := rfl
theorem suspend_gtype (r : Rec) : (suspend r).gtype = .suspended := rfl
theorem key_suspend (r : Rec) : key (suspend r) = key r := rfl
theorem key_flag (a b : Bool) (r : Rec) : key (flag a b r) = key r := by
  cases a <;> cases b <;> rfl

theorem flag_atype (a b : Bool) (r : Rec) :
    (flag a b r).atype = if a then (if r.atype.is_inconsistent then .inconsistent_ambiguous else .ambiguous) else r.atype := by
  cases a <;> cases b <;> rfl

theorem flag_gtype (a b : Bool) (r : Rec) :
    (flag a b r).gtype = if b then (if r.atype.is_inconsistent then .inconsistent_ambiguous else .ambiguous) else r.gtype := by
  cases a <;> cases b <;> rfl

theorem flag_multimapper (a b : Bool) (r : Rec) : (flag a b r).multimapper = (a || b || r.multimapper) := by
  cases a <;> cases b <;> simp [flag]

theorem flag_atype_ne_suspended (a b : Bool) (r : Rec) (h : r.atype ≠ .suspended) :
    (flag a b r).atype ≠ .suspended := by
  rw [flag_atype]; cases a <;> simp [h]
  split <;> simp

/-- every field the resolver does not own is left alone -/
def SameAlignment (r r' : Rec) : Prop :=
  r'.aid = r.aid ∧ r'.readId = r.readId ∧ r'.chr = r.chr ∧ r'.start = r.start ∧ r'.stop = r.stop ∧ r'.region = r.region ∧
  r'.polyA = r.polyA ∧ r'.penalty = r.penalty ∧ r'.isoforms = r.isoforms ∧ r'.genes = r.genes

theorem sameAlignment_suspend (r : Rec) : SameAlignment r (suspend r) := by simp [SameAlignment, suspend]
theorem sameAlignment_flag (a b : Bool) (r : Rec) : SameAlignment r (flag a b r) := by
  cases a <;> cases b <;> simp [SameAlignment, flag]

/-- `change_transcript_assignment_type` / `change_gene_assignment_type` of `filter_assignments`
    (`several_kept and len(all_isoforms) > 1`) -/
def changeT (kept : List IRec) : Bool :=
  decide (1 < kept.length) && decide (1 < setSize (kept.flatMap (fun x => x.1.isoforms)))
def changeG (kept : List IRec) : Bool :=
  decide (1 < kept.length) && decide (1 < setSize (kept.flatMap (fun x => x.1.genes)))

theorem changeT_of_length_le_one {kept : List IRec} (h : kept.length ≤ 1) : changeT kept = false := by
  have : ¬ 1 < kept.length := by omega
  simp [changeT, this]
theorem changeG_of_length_le_one {kept : List IRec} (h : kept.length ≤ 1) : changeG kept = false := by
  have : ¬ 1 < kept.length := by omega
  simp [changeG, this]

theorem flag_false_false (r : Rec) : flag false false r = r := rfl

theorem length_applyKeep (l : List Rec) (kept : List IRec) : (applyKeep l kept).length = l.length := by
  simp [applyKeep]

theorem getElem?_applyKeep (l : List Rec) (kept : List IRec) (i : Nat) :
    (applyKeep l kept)[i]? =
      (l[i]?).map (fun r => if (kept.map (·.2)).contains i then flag (changeT kept) (changeG kept) r else suspend r) := by
  simp only [applyKeep, changeT, changeG, List.getElem?_map, List.getElem?_zipIdx, Option.map_map]
  cases l[i]? <;> simp

theorem mem_applyKeep {l : List Rec} {kept : List IRec} {r' : Rec} (h : r' ∈ applyKeep l kept) :
    ∃ r i, (r, i) ∈ l.zipIdx ∧
      r' = if (kept.map (·.2)).contains i then flag (changeT kept) (changeG kept) r else suspend r := by
  simp only [applyKeep, List.mem_map] at h
  obtain ⟨x, hx, rfl⟩ := h
  exact ⟨x.1, x.2, hx, rfl⟩


/-! ### the priority classes -/

/-- the generated `is_consistent` / `is_inconsistent` tables are disjoint (whole enum, by evaluation) -/
theorem consistent_inconsistent_disjoint :
    ∀ t : ReadAssignmentType, ¬ (t.is_consistent = true ∧ t.is_inconsistent = true) := by
  intro t; cases t <;> decide

theorem isCons_iff (r : Rec) : isCons r = true ↔ r.atype.is_consistent = true := by
  have := consistent_inconsistent_disjoint r.atype
  simp only [isCons, Bool.and_eq_true, Bool.not_eq_true']
  constructor
  · exact fun h => h.2
  · intro h; refine ⟨?_, h⟩
    cases hi : r.atype.is_inconsistent with
    | false => rfl
    | true => exact absurd ⟨h, hi⟩ this

theorem class_trichotomy (r : Rec) : isInc r = true ∨ isCons r = true ∨ isNoninf r = true := by
  simp only [isInc, isCons, isNoninf]
  cases r.atype.is_inconsistent <;> cases r.atype.is_consistent <;> simp

theorem mem_zipIdx_of_mem {l : List Rec} {r : Rec} (h : r ∈ l) : ∃ i, (r, i) ∈ l.zipIdx := by
  obtain ⟨i, hi, rfl⟩ := List.mem_iff_getElem.mp h
  exact ⟨i, List.mem_zipIdx_iff_getElem?.mpr (by simp [hi])⟩

theorem mem_of_mem_zipIdx {l : List Rec} {x : IRec} (h : x ∈ l.zipIdx) : x.1 ∈ l := by
  have := List.mem_zipIdx_iff_getElem?.mp h
  exact List.mem_of_getElem? this

theorem filter_zipIdx_isEmpty_iff (l : List Rec) (p : Rec → Bool) :
    (l.zipIdx.filter (fun x => p x.1)).isEmpty = true ↔ ∀ r ∈ l, p r = false := by
  rw [List.isEmpty_iff, List.filter_eq_nil_iff]
  constructor
  · intro h r hr
    obtain ⟨i, hi⟩ := mem_zipIdx_of_mem hr
    simpa using h (r, i) hi
  · intro h x hx
    simpa using h x.1 (mem_of_mem_zipIdx hx)

/-! ### `select_best_inconsistent` -/

theorem minPenalty_spec (first : Int) (rest : List IRec) :
    minPenalty first rest ≤ first ∧ (∀ y ∈ rest, minPenalty first rest ≤ y.1.penalty) ∧
    (minPenalty first rest = first ∨ ∃ y ∈ rest, minPenalty first rest = y.1.penalty) := by
  induction rest generalizing first with
  | nil => simp [minPenalty]
  | cons y rest ih =>
    have h := ih (min first y.1.penalty)
    simp only [minPenalty, List.foldl_cons] at h ⊢
    refine ⟨by omega, ?_, ?_⟩
    · intro z hz
      rcases List.mem_cons.mp hz with rfl | hz
      · omega
      · exact h.2.1 z hz
    · rcases h.2.2 with h3 | ⟨z, hz, h3⟩
      · by_cases hc : first ≤ y.1.penalty
        · left; omega
        · right; exact ⟨y, by simp, by omega⟩
      · right; exact ⟨z, List.mem_cons_of_mem _ hz, h3⟩

/-- the candidates of `select_best_inconsistent` are exactly the members with the least penalty -/
theorem mem_bestInconsistent (c : List IRec) (x : IRec) :
    x ∈ bestInconsistent c ↔ x ∈ c ∧ ∀ y ∈ c, x.1.penalty ≤ y.1.penalty := by
  match c with
  | [] => simp [bestInconsistent]
  | [a] => simp [bestInconsistent]; intro h; subst h; omega
  | a :: b :: rest =>
    have h := minPenalty_spec a.1.penalty (b :: rest)
    simp only [bestInconsistent, List.mem_filter, beq_iff_eq]
    constructor
    · rintro ⟨hx, hp⟩
      refine ⟨hx, ?_⟩
      intro y hy
      rcases List.mem_cons.mp hy with rfl | hy
      · omega
      · have := h.2.1 y hy; omega
    · rintro ⟨hx, hmin⟩
      refine ⟨hx, ?_⟩
      have h1 : minPenalty a.1.penalty (b :: rest) ≤ x.1.penalty := by
        rcases List.mem_cons.mp hx with rfl | hx'
        · exact h.1
        · exact h.2.1 x hx'
      have h2 : x.1.penalty ≤ minPenalty a.1.penalty (b :: rest) := by
        rcases h.2.2 with h3 | ⟨z, hz, h3⟩
        · rw [h3]; exact hmin a (by simp)
        · rw [h3]; exact hmin z (List.mem_cons_of_mem _ hz)
      omega

theorem bestInconsistent_sublist (c : List IRec) : (bestInconsistent c).Sublist c := by
  match c with
  | [] => simp [bestInconsistent]
  | [a] => simp [bestInconsistent]
  | a :: b :: rest => simp only [bestInconsistent]; exact List.filter_sublist

theorem bestInconsistent_ne_nil (c : List IRec) (h : c ≠ []) : bestInconsistent c ≠ [] := by
  match c, h with
  | [a], _ => simp [bestInconsistent]
  | a :: b :: rest, _ =>
    have hs := minPenalty_spec a.1.penalty (b :: rest)
    intro hnil
    rcases hs.2.2 with h3 | ⟨z, hz, h3⟩
    · have : a ∈ bestInconsistent (a :: b :: rest) := by
        simp only [bestInconsistent, List.mem_filter, beq_iff_eq]; exact ⟨by simp, h3.symm⟩
      rw [hnil] at this; cases this
    · have : z ∈ bestInconsistent (a :: b :: rest) := by
        simp only [bestInconsistent, List.mem_filter, beq_iff_eq]
        exact ⟨List.mem_cons_of_mem _ hz, h3.symm⟩
      rw [hnil] at this; cases this

/-! ### `select_noninformative` -/

theorem overlapLen_nonneg (r : Rec) : 0 ≤ overlapLen r := by
  simp only [overlapLen, intersection_len]; omega

theorem maxOverlapFold_spec (m0 : Int) (non : List IRec) :
    m0 ≤ non.foldl (fun m x => max m (overlapLen x.1)) m0 ∧
    (∀ x ∈ non, overlapLen x.1 ≤ non.foldl (fun m x => max m (overlapLen x.1)) m0) ∧
    (non.foldl (fun m x => max m (overlapLen x.1)) m0 = m0 ∨
      ∃ x ∈ non, non.foldl (fun m x => max m (overlapLen x.1)) m0 = overlapLen x.1) := by
  induction non generalizing m0 with
  | nil => simp
  | cons y rest ih =>
    have h := ih (max m0 (overlapLen y.1))
    simp only [List.foldl_cons]
    refine ⟨by omega, ?_, ?_⟩
    · intro z hz
      rcases List.mem_cons.mp hz with rfl | hz
      · omega
      · exact h.2.1 z hz
    · rcases h.2.2 with h3 | ⟨z, hz, h3⟩
      · by_cases hc : overlapLen y.1 ≤ m0
        · left; omega
        · right; exact ⟨y, by simp, by omega⟩
      · right; exact ⟨z, List.mem_cons_of_mem _ hz, h3⟩

theorem maxOverlap_ge (non : List IRec) : ∀ x ∈ non, overlapLen x.1 ≤ maxOverlap non :=
  (maxOverlapFold_spec 0 non).2.1

theorem maxOverlap_attained (non : List IRec) (h : non ≠ []) : ∃ x ∈ non, overlapLen x.1 = maxOverlap non := by
  rcases (maxOverlapFold_spec 0 non).2.2 with h0 | ⟨x, hx, hx'⟩
  · match non, h with
    | y :: rest, _ =>
      have hy := maxOverlap_ge (y :: rest) y (by simp)
      have := overlapLen_nonneg y.1
      refine ⟨y, by simp, ?_⟩
      unfold maxOverlap at hy ⊢; omega
  · exact ⟨x, hx, hx'.symm⟩

/-- what the second loop of `select_noninformative` returns, started with `b`:
    a best-overlap record with the least tie key, the earliest one among equals -/
theorem pickBest_spec (m : Int) (b : Option IRec) (non : List IRec) (hb : ∀ y, b = some y → overlapLen y.1 = m) :
    (pickBest m b non = none ↔ b = none ∧ ∀ x ∈ non, overlapLen x.1 ≠ m) ∧
    (∀ z, pickBest m b non = some z →
      overlapLen z.1 = m ∧
      (∀ y, b = some y → tieKey z.1 ≤ tieKey y.1) ∧
      (∀ x ∈ non, overlapLen x.1 = m → tieKey z.1 ≤ tieKey x.1) ∧
      ((b = some z ∧ ∀ x ∈ non, overlapLen x.1 = m → tieKey z.1 ≤ tieKey x.1) ∨
       (∃ pre post, non = pre ++ z :: post ∧ (∀ y, b = some y → tieKey z.1 < tieKey y.1) ∧
          ∀ x ∈ pre, overlapLen x.1 = m → tieKey z.1 < tieKey x.1))) := by
  induction non generalizing b with
  | nil =>
    cases b with
    | none => simp [pickBest]
    | some y =>
      simp only [pickBest, reduceCtorEq, false_and, Option.some.injEq, true_and]
      intro z hz; subst hz
      exact ⟨hb y rfl, fun y' h => by cases h; exact List.le_refl _, by simp, Or.inl ⟨rfl, by simp⟩⟩
  | cons x rest ih =>
    cases b with
    | none =>
      simp only [pickBest]
      by_cases hx : overlapLen x.1 = m
      · have hx' : (overlapLen x.1 == m) = true := by simpa using hx
        simp only [hx', if_true]
        have := ih (some x) (by intro y hy; cases hy; exact hx)
        refine ⟨?_, ?_⟩
        · constructor
          · intro h; exact absurd (this.1.mp h).1 (by simp)
          · rintro ⟨_, h⟩; exact absurd hx (h x (by simp))
        · intro z hz
          obtain ⟨h1, h2, h3, h4⟩ := this.2 z hz
          refine ⟨h1, by simp, ?_, ?_⟩
          · intro w hw hwm
            rcases List.mem_cons.mp hw with rfl | hw
            · exact h2 w rfl
            · exact h3 w hw hwm
          · right
            rcases h4 with ⟨hbz, _⟩ | ⟨pre, post, hnon, hlt, hpre⟩
            · cases hbz
              exact ⟨[], rest, rfl, by simp, by simp⟩
            · refine ⟨x :: pre, post, by simp [hnon], by simp, ?_⟩
              intro w hw hwm
              rcases List.mem_cons.mp hw with rfl | hw
              · exact hlt w rfl
              · exact hpre w hw hwm
      · have hx' : (overlapLen x.1 == m) = false := by simpa using hx
        simp only [hx', Bool.false_eq_true, ↓reduceIte]
        have := ih none (by simp)
        refine ⟨?_, ?_⟩
        · rw [this.1]
          constructor
          · rintro ⟨_, h⟩
            refine ⟨by simp, ?_⟩
            intro w hw
            rcases List.mem_cons.mp hw with rfl | hw
            · exact hx
            · exact h w hw
          · rintro ⟨_, h⟩; exact ⟨by simp, fun w hw => h w (List.mem_cons_of_mem _ hw)⟩
        · intro z hz
          obtain ⟨h1, h2, h3, h4⟩ := this.2 z hz
          refine ⟨h1, by simp, ?_, ?_⟩
          · intro w hw hwm
            rcases List.mem_cons.mp hw with rfl | hw
            · exact absurd hwm hx
            · exact h3 w hw hwm
          · right
            rcases h4 with ⟨hbz, _⟩ | ⟨pre, post, hnon, hlt, hpre⟩
            · cases hbz
            · refine ⟨x :: pre, post, by simp [hnon], by simp, ?_⟩
              intro w hw hwm
              rcases List.mem_cons.mp hw with rfl | hw
              · exact absurd hwm hx
              · exact hpre w hw hwm
    | some y =>
      have hy := hb y rfl
      simp only [pickBest]
      by_cases hx : overlapLen x.1 = m
      · have hx' : (overlapLen x.1 == m) = true := by simpa using hx
        simp only [hx', if_true]
        by_cases hlt : tieKey x.1 < tieKey y.1
        · simp only [hlt, if_true]
          have := ih (some x) (by intro w hw; cases hw; exact hx)
          refine ⟨by simp [this.1], ?_⟩
          intro z hz
          obtain ⟨h1, h2, h3, h4⟩ := this.2 z hz
          have hzx := h2 x rfl
          refine ⟨h1, ?_, ?_, ?_⟩
          · intro w hw; cases hw
            exact List.le_of_lt (Std.lt_of_le_of_lt hzx hlt)
          · intro w hw hwm
            rcases List.mem_cons.mp hw with rfl | hw
            · exact hzx
            · exact h3 w hw hwm
          · right
            rcases h4 with ⟨hbz, _⟩ | ⟨pre, post, hnon, hlt', hpre⟩
            · cases hbz
              exact ⟨[], rest, rfl, by intro w hw; cases hw; exact hlt, by simp⟩
            · refine ⟨x :: pre, post, by simp [hnon], ?_, ?_⟩
              · intro w hw; cases hw
                exact List.lt_trans (hlt' x rfl) hlt
              · intro w hw hwm
                rcases List.mem_cons.mp hw with rfl | hw
                · exact hlt' w rfl
                · exact hpre w hw hwm
        · simp only [hlt, if_false]
          have := ih (some y) (by intro w hw; cases hw; exact hy)
          refine ⟨by simp [this.1], ?_⟩
          intro z hz
          obtain ⟨h1, h2, h3, h4⟩ := this.2 z hz
          have hzy := h2 y rfl
          have hyx : tieKey y.1 ≤ tieKey x.1 := List.not_lt.mp hlt
          refine ⟨h1, ?_, ?_, ?_⟩
          · intro w hw; cases hw; exact hzy
          · intro w hw hwm
            rcases List.mem_cons.mp hw with rfl | hw
            · exact List.le_trans hzy hyx
            · exact h3 w hw hwm
          · rcases h4 with ⟨hbz, hall⟩ | ⟨pre, post, hnon, hlt', hpre⟩
            · left
              refine ⟨hbz, ?_⟩
              intro w hw hwm
              rcases List.mem_cons.mp hw with rfl | hw
              · cases hbz; exact hyx
              · exact hall w hw hwm
            · right
              refine ⟨x :: pre, post, by simp [hnon], hlt', ?_⟩
              intro w hw hwm
              rcases List.mem_cons.mp hw with rfl | hw
              · exact Std.lt_of_lt_of_le (hlt' y rfl) hyx
              · exact hpre w hw hwm
      · have hx' : (overlapLen x.1 == m) = false := by simpa using hx
        simp only [hx', Bool.false_eq_true, ↓reduceIte]
        have := ih (some y) (by intro w hw; cases hw; exact hy)
        refine ⟨by simp [this.1], ?_⟩
        intro z hz
        obtain ⟨h1, h2, h3, h4⟩ := this.2 z hz
        refine ⟨h1, h2, ?_, ?_⟩
        · intro w hw hwm
          rcases List.mem_cons.mp hw with rfl | hw
          · exact absurd hwm hx
          · exact h3 w hw hwm
        · rcases h4 with ⟨hbz, hall⟩ | ⟨pre, post, hnon, hlt', hpre⟩
          · left
            refine ⟨hbz, ?_⟩
            intro w hw hwm
            rcases List.mem_cons.mp hw with rfl | hw
            · exact absurd hwm hx
            · exact hall w hw hwm
          · right
            refine ⟨x :: pre, post, by simp [hnon], hlt', ?_⟩
            intro w hw hwm
            rcases List.mem_cons.mp hw with rfl | hw
            · exact absurd hwm hx
            · exact hpre w hw hwm


/-! ### the observable verdict: which output records are retained -/

/-- no input record carries `suspended` (only the resolver assigns it, see `Gen.suspended_assigned_at`) -/
def NoSuspendedInput (l : List Rec) : Prop := ∀ r ∈ l, r.atype ≠ .suspended
instance (l : List Rec) : Decidable (NoSuspendedInput l) := by unfold NoSuspendedInput; infer_instance

theorem zipIdx_snd_inj {l : List Rec} {x y : IRec} (hx : x ∈ l.zipIdx) (hy : y ∈ l.zipIdx) (h : x.2 = y.2) : x = y := by
  have h1 := List.mem_zipIdx_iff_getElem?.mp hx
  have h2 := List.mem_zipIdx_iff_getElem?.mp hy
  rw [h] at h1
  have : x.1 = y.1 := Option.some.inj (h1.symm.trans h2)
  exact Prod.ext this h

theorem mem_retained {out : List Rec} {r : Rec} : r ∈ retained out ↔ r ∈ out ∧ r.atype ≠ .suspended := by
  simp [retained]

/-- the retained records of `filter_assignments` are exactly the kept records, re-flagged -/
theorem mem_retained_applyKeep {l : List Rec} {kept : List IRec} (hsub : ∀ x ∈ kept, x ∈ l.zipIdx)
    (hin : NoSuspendedInput l) (r' : Rec) :
    r' ∈ retained (applyKeep l kept) ↔ ∃ x ∈ kept, r' = flag (changeT kept) (changeG kept) x.1 := by
  rw [mem_retained]
  constructor
  · rintro ⟨hmem, hne⟩
    obtain ⟨r, i, hri, rfl⟩ := mem_applyKeep hmem
    by_cases hc : (kept.map (·.2)).contains i = true
    · simp only [hc, if_true] at hne ⊢
      rw [List.contains_iff_mem, List.mem_map] at hc
      obtain ⟨y, hy, hyi⟩ := hc
      have : y = (r, i) := zipIdx_snd_inj (hsub y hy) hri hyi
      subst this
      exact ⟨_, hy, rfl⟩
    · simp only [hc] at hne
      exact absurd (suspend_atype r) hne
  · rintro ⟨x, hx, rfl⟩
    have hxz := hsub x hx
    refine ⟨?_, flag_atype_ne_suspended _ _ _ (hin x.1 (mem_of_mem_zipIdx hxz))⟩
    simp only [applyKeep, List.mem_map]
    refine ⟨x, hxz, ?_⟩
    have hc : (kept.map (·.2)).contains x.2 = true := by
      rw [List.contains_iff_mem, List.mem_map]; exact ⟨x, hx, rfl⟩
    simp only [hc, if_true]; rfl

/-- the retained records in list order -/
theorem retained_applyKeep_eq {l : List Rec} {kept : List IRec} (hsub : kept.Sublist l.zipIdx)
    (hin : NoSuspendedInput l) :
    retained (applyKeep l kept) = kept.map (fun x => flag (changeT kept) (changeG kept) x.1) := by
  -- both sides are the image, in list order, of the kept positions
  have hnodup : (l.zipIdx.map (·.2)).Nodup := by
    have : l.zipIdx.map (·.2) = List.range' 0 l.length := by
      apply List.ext_getElem?
      intro i
      simp only [List.getElem?_map, List.getElem?_zipIdx, Option.map_map]
      by_cases h : i < l.length
      · simp [h]
      · simp [h]
    rw [this]; exact List.nodup_range'
  have key : ∀ (z : List IRec) (kept' : List IRec), kept'.Sublist z → (z.map (·.2)).Nodup →
      (∀ x ∈ z, x.1.atype ≠ .suspended) →
      (z.map (fun x => if (kept'.map (·.2)).contains x.2 then flag (changeT kept) (changeG kept) x.1 else suspend x.1)).filter
        (fun r => !(r.atype == .suspended)) = kept'.map (fun x => flag (changeT kept) (changeG kept) x.1) := by
    intro z
    induction z with
    | nil => intro kept' hs _ _; simp [List.sublist_nil.mp hs]
    | cons a z ih =>
      intro kept' hs hnd hns
      simp only [List.map_cons, List.nodup_cons] at hnd
      have hns' : ∀ x ∈ z, x.1.atype ≠ .suspended := fun x hx => hns x (List.mem_cons_of_mem _ hx)
      cases hs with
      | cons _ hs' =>
        -- a is not kept
        have hnot : (kept'.map (·.2)).contains a.2 = false := by
          rw [← Bool.not_eq_true, List.contains_iff_mem, List.mem_map]
          rintro ⟨y, hy, hya⟩
          exact hnd.1 (List.mem_map.mpr ⟨y, hs'.subset hy, hya⟩)
        simp only [List.map_cons, hnot, Bool.false_eq_true, ↓reduceIte, List.filter_cons, suspend_atype, beq_self_eq_true,
          Bool.not_true]
        exact ih kept' hs' hnd.2 hns'
      | cons_cons _ hs' =>
        rename_i k'
        have hflag : (flag (changeT kept) (changeG kept) a.1).atype ≠ .suspended :=
          flag_atype_ne_suspended _ _ _ (hns a (by simp))
        have hne : (!((flag (changeT kept) (changeG kept) a.1).atype == ReadAssignmentType.suspended)) = true := by
          simpa using hflag
        simp only [List.map_cons, List.contains_cons, beq_self_eq_true, Bool.true_or, ↓reduceIte, List.filter_cons, hne]
        congr 1
        have hrest := ih k' hs' hnd.2 hns'
        rw [← hrest]
        congr 1
        apply List.map_congr_left
        intro x hx
        have hxa : (x.2 == a.2) = false := by
          rw [beq_eq_false_iff_ne]
          intro h
          exact hnd.1 (List.mem_map.mpr ⟨x, hx, h⟩)
        rw [hxa, Bool.false_or]
  have := key l.zipIdx kept hsub hnodup (fun x hx => hin x.1 (mem_of_mem_zipIdx hx))
  simpa [retained, applyKeep, changeT, changeG] using this


/-! ### weights -/

theorem natCast_mul_one_div (n : Nat) (h : n ≠ 0) : (n : Rat) * ((1 : Nat) / (n : Nat) : Rat) = 1 := by
  have hn : (n : Rat) ≠ 0 := by
    intro h'; apply h; exact_mod_cast h'
  grind

/-- one record adds 0 or exactly 1 to a table, whatever the strategy, type and number of features
    (proved over the whole generated `CountingStrategy` / `ReadAssignmentType` tables) -/
theorem totalOf_zero_or_one (s : CountingStrategy) (t : ReadAssignmentType) (n : Nat) :
    totalOf s t n = 0 ∨ totalOf s t n = 1 := by
  rcases Nat.lt_trichotomy n 1 with h | h | h
  · have h0 : n = 0 := by omega
    subst h0
    left
    simp [totalOf, featureWeight]
  · subst h
    cases t <;> cases s <;> simp [totalOf, featureWeight, creditedFeatures, ReadAssignmentType.is_unassigned,
      ReadAssignmentType.is_inconsistent, ReadAssignmentType.is_unique, rat_is_unassigned_list, rat_is_inconsistent_list,
      rat_is_unique_list, CountingStrategy.ambiguous, CountingStrategy.inconsistent, CountingStrategy.inconsistent_minor,
      cs_ambiguous_list, cs_inconsistent_list, cs_inconsistent_minor_list] <;> (right; grind)
  · have hn0 : (n == 0) = false := by simp; omega
    have hn1 : (n == 1) = false := by simp; omega
    have hm := natCast_mul_one_div n (by omega)
    have hmin : min n 1 = 1 := by omega
    cases t <;> cases s <;> simp [totalOf, featureWeight, creditedFeatures, ReadAssignmentType.is_unassigned,
      ReadAssignmentType.is_inconsistent, ReadAssignmentType.is_unique, rat_is_unassigned_list, rat_is_inconsistent_list,
      rat_is_unique_list, CountingStrategy.ambiguous, CountingStrategy.inconsistent,
      cs_ambiguous_list, cs_inconsistent_list, hn0, hn1, h, hmin] <;>
      first | (right; exact hm) | (right; grind) | (left; grind)

theorem recordTotal_zero_or_one (s : CountingStrategy) (r : Rec) : recordTotal s r = 0 ∨ recordTotal s r = 1 :=
  totalOf_zero_or_one s _ _

theorem recordTotalG_zero_or_one (s : CountingStrategy) (r : Rec) : recordTotalG s r = 0 ∨ recordTotalG s r = 1 := by
  unfold recordTotalG; split
  · exact Or.inl rfl
  · exact totalOf_zero_or_one s _ _

/-- a sum of zeros and ones is the number of ones -/
theorem sumRat_zero_one (l : List Rat) (h : ∀ a ∈ l, a = 0 ∨ a = 1) :
    sumRat l = ((l.filter (fun a => decide (a = 1))).length : Rat) := by
  induction l with
  | nil => simp [sumRat]
  | cons a l ih =>
    have ih' := ih (fun b hb => h b (List.mem_cons_of_mem _ hb))
    simp only [sumRat, List.foldr_cons] at ih' ⊢
    rcases h a (by simp) with h0 | h1
    · subst h0
      have : decide ((0 : Rat) = 1) = false := by decide
      simp only [List.filter_cons, this]
      rw [ih']; grind
    · subst h1
      simp only [List.filter_cons, decide_true, if_true, List.length_cons]
      rw [ih']; grind

theorem natCast_le_one_iff (k : Nat) : (k : Rat) ≤ 1 ↔ k ≤ 1 := by
  constructor
  · intro h; exact_mod_cast h
  · intro h; exact_mod_cast h

end IsoVerif.Lemmas.Resolver
