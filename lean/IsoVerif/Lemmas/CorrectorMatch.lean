/-
Lemmas about `match_genomic_features` and the fuzzy junction correction (C14).
-/
import IsoVerif.Lemmas.CorrectorLoop

namespace IsoVerif.Lemmas.C14
open IsoVerif.Gen IsoVerif.Model IsoVerif.Model.C14 IsoVerif.Lemmas

/-- the candidate reference intron of a read intron: the read intron itself or an annotated intron that
    `equal_ranges` accepts within `delta` (both ends within `delta`) -/
def Candidate (known : List Iv) (δ : Int) (r q : Iv) : Prop :=
  q = r ∨ (q ∈ known ∧ (-δ ≤ r.1 - q.1 ∧ r.1 - q.1 ≤ δ) ∧ (-δ ≤ r.2 - q.2 ∧ r.2 - q.2 ≤ δ))

/-- an intron whose two sites are each the read's own site or the corresponding site of the candidate -/
def FuzzyOf (known : List Iv) (δ : Int) (readIntrons : List Iv) (n : Iv) : Prop :=
  ∃ r ∈ readIntrons, ∃ q, Candidate known δ r q ∧ (n.1 = r.1 ∨ n.1 = q.1) ∧ (n.2 = r.2 ∨ n.2 = q.2)

theorem equal_ranges_within {r q : Iv} {δ : Int} (h : equal_ranges r q δ = true) :
    (-δ ≤ r.1 - q.1 ∧ r.1 - q.1 ≤ δ) ∧ (-δ ≤ r.2 - q.2 ∧ r.2 - q.2 ≤ δ) := by
  simpa only [equal_ranges, Bool.and_eq_true, decide_eq_true_eq, iabs_le] using h

/-- the sweep only reports pairs accepted by the comparator, with the known feature taken from the list -/
theorem match_sweep_sound (δ : Int) (ks rs : List Iv) (i0 : Nat) :
    ∀ q ∈ matchSweep δ ks rs i0, q.2 ∈ ks ∧ i0 ≤ q.1 ∧ ∃ r, rs[q.1 - i0]? = some r ∧ equal_ranges r q.2 δ = true := by
  fun_induction matchSweep δ ks rs i0 with
  | case1 => intro q hq; cases hq
  | case2 => intro q hq; cases hq
  | case3 k ks r rs ri heq ih =>
    intro q hq
    cases hq with
    | head => exact ⟨by simp, by simp, r, by simp, heq⟩
    | tail _ hq' =>
      obtain ⟨a, b, c⟩ := ih q hq'
      exact ⟨List.mem_cons_of_mem _ a, b, c⟩
  | case4 k ks r rs ri _ _ ih =>
    intro q hq
    obtain ⟨a, b, c⟩ := ih q hq
    exact ⟨List.mem_cons_of_mem _ a, b, c⟩
  | case5 k ks r rs ri _ _ _ ih =>
    intro q hq
    obtain ⟨a, b, r', c, d⟩ := ih q hq
    refine ⟨a, by omega, r', ?_, d⟩
    have : q.1 - ri = (q.1 - (ri + 1)) + 1 := by omega
    rw [this]; simpa using c
  | case6 k ks r rs ri _ _ _ ih =>
    intro q hq
    obtain ⟨a, b, c⟩ := ih q hq
    exact ⟨List.mem_cons_of_mem _ a, b, c⟩

theorem pickBest_mem {r : Iv} {cs : List Iv} {k : Iv} (h : pickBest r cs = some k) : k ∈ cs := by
  unfold pickBest at h
  split at h
  · cases hm : listMin (cs.map (siteDelta r)) with
    | none => simp [hm] at h
    | some best =>
      simp only [hm] at h
      have := List.mem_of_mem_head? h
      exact (List.mem_filter.mp this).1
  · exact List.mem_of_mem_head? h

theorem listMin_spec {l : List Int} {m : Int} (h : listMin l = some m) : m ∈ l ∧ ∀ x ∈ l, m ≤ x := by
  induction l generalizing m with
  | nil => simp [listMin] at h
  | cons a t ih =>
    rw [listMin] at h
    cases ht : listMin t with
    | none =>
      simp [ht] at h; subst h
      cases t with
      | nil => exact ⟨by simp, by intro x hx; simp at hx; omega⟩
      | cons b t' =>
        -- listMin of a non-empty list is never none
        exfalso
        rw [listMin] at ht
        cases h2 : listMin t' <;> simp [h2] at ht
    | some m' =>
      simp [ht] at h
      obtain ⟨h1, h2⟩ := ih ht
      by_cases hle : a ≤ m'
      · simp [hle] at h; subst h
        refine ⟨by simp, ?_⟩
        intro x hx
        cases hx with
        | head => omega
        | tail _ hx' => have := h2 x hx'; omega
      · simp [hle] at h; subst h
        refine ⟨List.mem_cons_of_mem _ h1, ?_⟩
        intro x hx
        cases hx with
        | head => omega
        | tail _ hx' => exact h2 x hx'

theorem pickAll_sound (known : List Iv) (δ : Int) (reads : List Iv) (m : List (Nat × Iv))
    (hm : ∀ q ∈ m, q.2 ∈ known ∧ ∃ r, reads[q.1]? = some r ∧ equal_ranges r q.2 δ = true) :
    ∀ (rs : List Iv) (i : Nat), rs = reads.drop i → Forall2 (Candidate known δ) rs (pickAll m rs i) := by
  intro rs
  induction rs with
  | nil => intro i _; exact Forall2.nil
  | cons r rs' ih =>
    intro i hi
    have hri : reads[i]? = some r := by
      have := congrArg List.head? hi
      simpa [List.head?_drop] using this.symm
    have htl : rs' = reads.drop (i + 1) := by
      have := congrArg List.tail hi
      simpa [List.tail_drop] using this
    simp only [pickAll]
    refine Forall2.cons ?_ (ih (i + 1) htl)
    cases hb : pickBest r (candidatesOf m i) with
    | none => exact Or.inl rfl
    | some k =>
      simp only
      have hk := pickBest_mem hb
      simp only [candidatesOf, List.mem_map, List.mem_filter] at hk
      obtain ⟨q, ⟨hq, hqi⟩, hqk⟩ := hk
      have hqi' : q.1 = i := by simpa using hqi
      obtain ⟨h1, r', h2, h3⟩ := hm q hq
      rw [hqi', hri] at h2
      cases h2
      subst hqk
      exact Or.inr ⟨h1, equal_ranges_within h3⟩

theorem fuzzySite_cases (own ref : Int) (e : Int × Int) : fuzzySite own ref e = own ∨ fuzzySite own ref e = ref := by
  unfold fuzzySite; split
  · exact Or.inl rfl
  · split
    · exact Or.inl rfl
    · exact Or.inr rfl

theorem fuzzyLoop_sound (known : List Iv) (δ : Int) (err : Nat → Bool → Int × Int) (rs qs : List Iv)
    (h : Forall2 (Candidate known δ) rs qs) :
    ∀ i, ∀ n ∈ fuzzyLoop err rs qs i, FuzzyOf known δ rs n := by
  induction h with
  | nil => intro i n hn; simp [fuzzyLoop] at hn
  | @cons r q rs' qs' hc _ ih =>
    intro i n hn
    rw [fuzzyLoop] at hn
    cases hn with
    | head => exact ⟨r, by simp, q, hc, fuzzySite_cases _ _ _, fuzzySite_cases _ _ _⟩
    | tail _ hn' =>
      obtain ⟨r', hr', q', a, b, c⟩ := ih (i + 1) n hn'
      exact ⟨r', List.mem_cons_of_mem _ hr', q', a, b, c⟩

end IsoVerif.Lemmas.C14
