import IsoVerif.Gen.Prims
import IsoVerif.Model.Interval

namespace IsoVerif.Lemmas
open IsoVerif.Gen IsoVerif.Model

theorem iabs_le (x d : Int) : iabs x ≤ d ↔ (-d ≤ x ∧ x ≤ d) := by
  unfold iabs; split <;> omega

theorem iabs_nonneg (x : Int) : 0 ≤ iabs x := by
  unfold iabs; split <;> omega

end IsoVerif.Lemmas
