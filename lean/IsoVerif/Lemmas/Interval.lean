import IsoVerif.Gen.Prims
import IsoVerif.Model.Interval

namespace IsoVerif.Lemmas
open IsoVerif.Gen IsoVerif.Model

theorem iabs_le (x d : Int) : iabs x ≤ d ↔ (-d ≤ x ∧ x ≤ d) := by
  unfold iabs; split <;> omega

theorem iabs_nonneg (x : Int) : 0 ≤ iabs x := by
  unfold iabs; split <;> omega

/-- every interval of the list is well formed -/
def WFl (l : List Iv) : Prop := ∀ r ∈ l, r.1 ≤ r.2

/-- sorted and pairwise disjoint: each interval ends strictly before the next one starts -/
def SD : List Iv → Prop
  | [] => True
  | [_] => True
  | a :: b :: t => a.2 < b.1 ∧ SD (b :: t)

def SD.dec : (l : List Iv) → Decidable (SD l)
  | [] => isTrue trivial
  | [_] => isTrue trivial
  | a :: b :: t =>
    match SD.dec (b :: t) with
    | isTrue h => if h' : a.2 < b.1 then isTrue ⟨h', h⟩ else isFalse (fun x => h' x.1)
    | isFalse h => isFalse (fun x => h x.2)

instance : DecidablePred SD := SD.dec

instance (l : List Iv) : Decidable (WFl l) := by unfold WFl; infer_instance

theorem SD_tail {a : Iv} {l : List Iv} (h : SD (a :: l)) : SD l := by
  cases l with
  | nil => trivial
  | cons b t => exact h.2

theorem WFl_tail {a : Iv} {l : List Iv} (h : WFl (a :: l)) : WFl l :=
  fun r hr => h r (List.mem_cons_of_mem _ hr)

theorem WFl_head {a : Iv} {l : List Iv} (h : WFl (a :: l)) : a.1 ≤ a.2 := h a (by simp)

theorem SD_all_right {a : Iv} {l : List Iv} (h : SD (a :: l)) (hw : WFl (a :: l)) :
    ∀ r ∈ l, a.2 < r.1 := by
  induction l generalizing a with
  | nil => intro r hr; cases hr
  | cons b t ih =>
    intro r hr
    have hb : a.2 < b.1 := h.1
    cases hr with
    | head => exact hb
    | tail _ hr' =>
      have hwb : b.1 ≤ b.2 := hw b (by simp)
      have := ih (a := b) h.2 (WFl_tail hw) r hr'
      omega

/-- number of common positions of two lists, as the double sum of pairwise common lengths -/
def rowSum (a : Iv) (l : List Iv) : Int := (l.map (intersection_len a)).sum
def inter (l1 l2 : List Iv) : Int := (l1.map (fun a => rowSum a l2)).sum
def colSum (l : List Iv) (b : Iv) : Int := (l.map (fun a => intersection_len a b)).sum

theorem inter_cons_cons (a b : Iv) (as bs : List Iv) :
    inter (a :: as) (b :: bs) = intersection_len a b + rowSum a bs + colSum as b + inter as bs := by
  simp only [inter, rowSum, colSum, List.map_cons, List.sum_cons]
  induction as with
  | nil => simp
  | cons c cs ih => simp only [List.map_cons, List.sum_cons]; omega

theorem inter_cons_left (a : Iv) (as bs : List Iv) :
    inter (a :: as) bs = rowSum a bs + inter as bs := by
  simp [inter]

theorem inter_cons_right (b : Iv) (as bs : List Iv) :
    inter as (b :: bs) = colSum as b + inter as bs := by
  induction as with
  | nil => simp [inter, colSum]
  | cons c cs ih =>
    rw [inter_cons_left, inter_cons_left, ih]
    simp [rowSum, colSum]; omega

theorem inter_nil_right (as : List Iv) : inter as [] = 0 := by
  induction as with
  | nil => rfl
  | cons c cs ih => rw [inter_cons_left, ih]; simp [rowSum]

theorem inter_nil_left (bs : List Iv) : inter [] bs = 0 := by simp [inter]

theorem rowSum_zero {a : Iv} {l : List Iv} (h : ∀ r ∈ l, intersection_len a r = 0) : rowSum a l = 0 := by
  induction l with
  | nil => rfl
  | cons b t ih =>
    simp only [rowSum, List.map_cons, List.sum_cons]
    have h1 := h b (by simp)
    have h2 := ih (fun r hr => h r (by simp; right; exact hr))
    simp only [rowSum] at h2
    omega

theorem colSum_zero {b : Iv} {l : List Iv} (h : ∀ r ∈ l, intersection_len r b = 0) : colSum l b = 0 := by
  induction l with
  | nil => rfl
  | cons a t ih =>
    simp only [colSum, List.map_cons, List.sum_cons]
    have h1 := h a (by simp)
    have h2 := ih (fun r hr => h r (by simp; right; exact hr))
    simp only [colSum] at h2
    omega

theorem rowSum_nonneg (a : Iv) (l : List Iv) : 0 ≤ rowSum a l := by
  induction l with
  | nil => simp [rowSum]
  | cons b t ih =>
    simp only [rowSum, List.map_cons, List.sum_cons] at *
    have : 0 ≤ intersection_len a b := by simp only [intersection_len]; omega
    omega

theorem inter_nonneg (l1 l2 : List Iv) : 0 ≤ inter l1 l2 := by
  induction l1 with
  | nil => simp [inter]
  | cons a t ih => rw [inter_cons_left]; have := rowSum_nonneg a l2; omega

/-- `intersection_len` is symmetric, hence so is `inter` -/
theorem intersection_len_comm (a b : Iv) : intersection_len a b = intersection_len b a := by
  simp only [intersection_len]; omega

theorem inter_comm (l1 l2 : List Iv) : inter l1 l2 = inter l2 l1 := by
  induction l1 generalizing l2 with
  | nil => rw [inter_nil_left, inter_nil_right]
  | cons a t ih =>
    rw [inter_cons_left, inter_cons_right, ih]
    congr 1
    simp only [rowSum, colSum]
    congr 1
    apply List.map_congr_left
    intro b _; exact intersection_len_comm a b

/-- the two-pointer sweep of `read_coverage_fraction` computes the number of common positions -/
theorem sweep_eq_inter (l1 l2 : List Iv) (h1 : SD l1) (h2 : SD l2) (w1 : WFl l1) (w2 : WFl l2) :
    readCoverageSweep l1 l2 = inter l1 l2 := by
  fun_induction readCoverageSweep l1 l2 with
  | case1 l => simp [inter]
  | case2 a as => exact (inter_nil_right _).symm
  | case3 a as b bs hov hlt ih =>
    have hr := SD_all_right h1 w1
    have ha := WFl_head w1
    have hb := WFl_head w2
    have hcz : colSum as b = 0 := colSum_zero (fun r hr' => by
      have := hr r hr'; have := w1 r (by simp; right; exact hr'); simp only [intersection_len]; omega)
    rw [ih h1 (SD_tail h2) w1 (WFl_tail w2)]
    rw [inter_cons_cons, inter_cons_left]
    simp [overlaps] at hov
    simp only [intersection_len]; omega
  | case4 a as b bs hov hlt ih =>
    have hr := SD_all_right h2 w2
    have ha := WFl_head w1
    have hb := WFl_head w2
    have hrz : rowSum a bs = 0 := rowSum_zero (fun r hr' => by
      have := hr r hr'; have := w2 r (by simp; right; exact hr'); simp only [intersection_len]; omega)
    rw [ih (SD_tail h1) h2 (WFl_tail w1) w2]
    rw [inter_cons_cons, inter_cons_right]
    simp [overlaps] at hov
    simp only [intersection_len]; omega
  | case5 a as b bs hov hlt ih =>
    have hr := SD_all_right h1 w1
    have ha := WFl_head w1
    have hb := WFl_head w2
    simp [left_of] at hlt
    have hab : intersection_len a b = 0 := by simp only [intersection_len]; omega
    have hcz : colSum as b = 0 := colSum_zero (fun r hr' => by
      have := hr r hr'; simp only [intersection_len]; omega)
    rw [ih h1 (SD_tail h2) w1 (WFl_tail w2)]
    rw [inter_cons_cons, inter_cons_left]; omega
  | case6 a as b bs hov hlt ih =>
    have hr := SD_all_right h2 w2
    have ha := WFl_head w1
    have hb := WFl_head w2
    simp [left_of] at hlt
    have hov' : a.2 < b.1 := by
      simp [overlaps] at hov
      omega
    have hab : intersection_len a b = 0 := by simp only [intersection_len]; omega
    have hrz : rowSum a bs = 0 := rowSum_zero (fun r hr' => by
      have := hr r hr'; simp only [intersection_len]; omega)
    rw [ih (SD_tail h1) h2 (WFl_tail w1) w2]
    rw [inter_cons_cons, inter_cons_right]; omega

end IsoVerif.Lemmas
