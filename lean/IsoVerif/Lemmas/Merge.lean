import IsoVerif.Lemmas.Lists

namespace IsoVerif.Lemmas
open IsoVerif.Gen IsoVerif.Model

/-- position `p` is covered by the interval list -/
def cov (l : List Iv) (p : Int) : Prop := ∃ r ∈ l, r.1 ≤ p ∧ p ≤ r.2

theorem cov_nil (p : Int) : ¬ cov [] p := by simp [cov]

theorem cov_cons (a : Iv) (l : List Iv) (p : Int) : cov (a :: l) p ↔ (a.1 ≤ p ∧ p ≤ a.2) ∨ cov l p := by
  simp [cov]

theorem cov_reverse (l : List Iv) (p : Int) : cov l.reverse p ↔ cov l p := by simp [cov]

/-- the head block of the (reversed) accumulator contains interval `a` -/
def headContains (acc : List Iv) (a : Iv) : Prop := ∃ l t, acc = l :: t ∧ l.1 ≤ a.1 ∧ a.2 ≤ l.2

theorem cov_of_headContains {acc : List Iv} {a : Iv} (h : headContains acc a) (p : Int) (hp : a.1 ≤ p ∧ p ≤ a.2) :
    cov acc p := by
  obtain ⟨l, t, rfl, h1, h2⟩ := h
  exact ⟨l, by simp, by omega, by omega⟩

theorem tailAppend_cov (inc : Bool) (acc l : List Iv) (p : Int)
    (hI : inc = true → ∀ a ∈ l.head?, headContains acc a) :
    cov (tailAppend inc acc l) p ↔ cov acc p ∨ cov l p := by
  induction l generalizing inc acc with
  | nil => simp [tailAppend, cov_nil]
  | cons a t ih =>
    simp only [tailAppend]
    rw [ih false _ (by simp)]
    cases inc with
    | true =>
      simp only [if_true]
      have hc := hI rfl a (by simp)
      rw [cov_cons]
      constructor
      · rintro (h | h); exact Or.inl h; exact Or.inr (Or.inr h)
      · rintro (h | h | h)
        · exact Or.inl h
        · exact Or.inl (cov_of_headContains hc p h)
        · exact Or.inr h
    | false =>
      simp only [Bool.false_eq_true, if_false]
      rw [cov_cons, cov_cons]
      constructor
      · rintro ((h | h) | h); exact Or.inr (Or.inl h); exact Or.inl h; exact Or.inr (Or.inr h)
      · rintro (h | h | h); exact Or.inl (Or.inr h); exact Or.inl (Or.inl h); exact Or.inr h

/-- generalised invariant of the main loop of `merge_ranges`: the loop succeeds and the blocks it returns
    cover exactly what the accumulator and the two remaining lists cover -/
theorem mergeLoop_spec (l1 : List Iv) (i1 : Bool) (l2 : List Iv) (i2 : Bool) (acc : List Iv)
    (h1 : SD l1) (h2 : SD l2) (w1 : WFl l1) (w2 : WFl l2)
    (hn : ¬(i1 = true ∧ i2 = true))
    (hI1 : i1 = true → ∀ a ∈ l1.head?, headContains acc a ∧ ∀ b ∈ l2.head?, a.1 < b.1)
    (hI2 : i2 = true → ∀ b ∈ l2.head?, headContains acc b ∧ ∀ a ∈ l1.head?, b.1 < a.1) :
    ∃ res, mergeLoop l1 i1 l2 i2 acc = some res ∧ ∀ p, cov res p ↔ cov acc p ∨ cov l1 p ∨ cov l2 p := by
  fun_induction mergeLoop l1 i1 l2 i2 acc with
  | case1 i1 l2 i2 acc =>
    refine ⟨_, rfl, fun p => ?_⟩
    rw [tailAppend_cov i2 acc l2 p (fun hi b hb => (hI2 hi b hb).1)]
    simp [cov_nil]
  | case2 a as i1 i2 acc =>
    refine ⟨_, rfl, fun p => ?_⟩
    rw [tailAppend_cov i1 acc (a :: as) p (fun hi x hx => (hI1 hi x hx).1)]
    simp [cov_nil]
  | case3 a as i1 b bs i2 acc hov hboth =>
    exfalso; apply hn; simpa using hboth
  | case4 a as i1 b bs i2 acc hov hboth hacc =>
    -- bumpLast on an empty accumulator: impossible, a flag is set only when the accumulator is non-empty
    exfalso
    simp only [ovAcc] at hacc
    cases i1 <;> cases i2 <;> simp at hacc hn
    · obtain ⟨l, t, rfl, _⟩ := (hI2 rfl b (by simp)).1
      simp [bumpLast] at hacc
    · obtain ⟨l, t, rfl, _⟩ := (hI1 rfl a (by simp)).1
      simp [bumpLast] at hacc
  | case5 a as i1 b bs i2 acc hov hboth acc' hacc hlt ih =>
    have ha := WFl_head w1
    have hb := WFl_head w2
    simp [overlaps] at hov
    have key : headContains acc' a ∧ ∀ p, cov acc' p ↔ cov acc p ∨ (a.1 ≤ p ∧ p ≤ a.2) ∨ (b.1 ≤ p ∧ p ≤ b.2) := by
      simp only [ovAcc] at hacc
      cases i1 <;> cases i2 <;> simp at hacc hn
      · subst hacc
        refine ⟨⟨_, _, rfl, by simp; omega, by simp; omega⟩, fun p => ?_⟩
        rw [cov_cons]; simp only; generalize cov acc p = C; by_cases hC : C <;> simp [hC] <;> omega
      · obtain ⟨⟨l, t, rfl, hl1, hl2⟩, hlt'⟩ := hI2 rfl b (by simp)
        have := hlt' a (by simp)
        simp [bumpLast] at hacc; subst hacc
        refine ⟨⟨_, _, rfl, by simp; omega, by simp; omega⟩, fun p => ?_⟩
        rw [cov_cons, cov_cons]; simp only; generalize cov t p = C; by_cases hC : C <;> simp [hC] <;> omega
      · obtain ⟨⟨l, t, rfl, hl1, hl2⟩, hlt'⟩ := hI1 rfl a (by simp)
        have := hlt' b (by simp)
        simp [bumpLast] at hacc; subst hacc
        refine ⟨⟨_, _, rfl, by simp; omega, by simp; omega⟩, fun p => ?_⟩
        rw [cov_cons, cov_cons]; simp only; generalize cov t p = C; by_cases hC : C <;> simp [hC] <;> omega
    obtain ⟨res, hres, hcov⟩ := ih h1 (SD_tail h2) w1 (WFl_tail w2) (by simp)
      (by intro _ x hx; simp at hx; subst hx
          refine ⟨key.1, fun y hy => ?_⟩
          have := SD_all_right h2 w2 y (by cases bs <;> simp_all)
          omega)
      (by simp)
    refine ⟨res, hres, fun p => ?_⟩
    rw [hcov p, key.2 p, cov_cons a as, cov_cons b bs]
    constructor
    · rintro ((h | h | h) | (h | h) | h)
      · exact Or.inl h
      · exact Or.inr (Or.inl (Or.inl h))
      · exact Or.inr (Or.inr (Or.inl h))
      · exact Or.inr (Or.inl (Or.inl h))
      · exact Or.inr (Or.inl (Or.inr h))
      · exact Or.inr (Or.inr (Or.inr h))
    · rintro (h | (h | h) | (h | h))
      · exact Or.inl (Or.inl h)
      · exact Or.inl (Or.inr (Or.inl h))
      · exact Or.inr (Or.inl (Or.inr h))
      · exact Or.inl (Or.inr (Or.inr h))
      · exact Or.inr (Or.inr h)
  | case6 a as i1 b bs i2 acc hov hboth acc' hacc hlt ih =>
    have ha := WFl_head w1
    have hb := WFl_head w2
    simp [overlaps] at hov
    have key : headContains acc' b ∧ ∀ p, cov acc' p ↔ cov acc p ∨ (a.1 ≤ p ∧ p ≤ a.2) ∨ (b.1 ≤ p ∧ p ≤ b.2) := by
      simp only [ovAcc] at hacc
      cases i1 <;> cases i2 <;> simp at hacc hn
      · subst hacc
        refine ⟨⟨_, _, rfl, by simp; omega, by simp; omega⟩, fun p => ?_⟩
        rw [cov_cons]; simp only; generalize cov acc p = C; by_cases hC : C <;> simp [hC] <;> omega
      · obtain ⟨⟨l, t, rfl, hl1, hl2⟩, hlt'⟩ := hI2 rfl b (by simp)
        have := hlt' a (by simp)
        simp [bumpLast] at hacc; subst hacc
        refine ⟨⟨_, _, rfl, by simp; omega, by simp; omega⟩, fun p => ?_⟩
        rw [cov_cons, cov_cons]; simp only; generalize cov t p = C; by_cases hC : C <;> simp [hC] <;> omega
      · obtain ⟨⟨l, t, rfl, hl1, hl2⟩, hlt'⟩ := hI1 rfl a (by simp)
        have := hlt' b (by simp)
        simp [bumpLast] at hacc; subst hacc
        refine ⟨⟨_, _, rfl, by simp; omega, by simp; omega⟩, fun p => ?_⟩
        rw [cov_cons, cov_cons]; simp only; generalize cov t p = C; by_cases hC : C <;> simp [hC] <;> omega
    obtain ⟨res, hres, hcov⟩ := ih (SD_tail h1) h2 (WFl_tail w1) w2 (by simp) (by simp)
      (by intro _ y hy; simp at hy; subst hy
          refine ⟨key.1, fun x hx => ?_⟩
          have := SD_all_right h1 w1 x (by cases as <;> simp_all)
          omega)
    refine ⟨res, hres, fun p => ?_⟩
    rw [hcov p, key.2 p, cov_cons a as, cov_cons b bs]
    constructor
    · rintro ((h | h | h) | h | (h | h))
      · exact Or.inl h
      · exact Or.inr (Or.inl (Or.inl h))
      · exact Or.inr (Or.inr (Or.inl h))
      · exact Or.inr (Or.inl (Or.inr h))
      · exact Or.inr (Or.inr (Or.inl h))
      · exact Or.inr (Or.inr (Or.inr h))
    · rintro (h | (h | h) | (h | h))
      · exact Or.inl (Or.inl h)
      · exact Or.inl (Or.inr (Or.inl h))
      · exact Or.inr (Or.inl h)
      · exact Or.inl (Or.inr (Or.inr h))
      · exact Or.inr (Or.inr (Or.inr h))
  | case7 a as i1 b bs i2 acc hov hlo ih =>
    have ha := WFl_head w1
    have hb := WFl_head w2
    simp [left_of] at hlo
    have hni1 : i1 = false := by
      cases i1 with
      | false => rfl
      | true => exfalso; have := (hI1 rfl a (by simp)).2 b (by simp); omega
    subst hni1
    cases i2 with
    | true =>
      have hc := (hI2 rfl b (by simp)).1
      simp only [↓reduceDIte, ↓reduceIte] at ih ⊢
      obtain ⟨res, hres, hcov⟩ := ih h1 (SD_tail h2) w1 (WFl_tail w2) (by simp) (by simp) (by simp)
      refine ⟨res, hres, fun p => ?_⟩
      rw [hcov p, cov_cons b bs]
      constructor
      · rintro (h | h | h)
        · exact Or.inl h
        · exact Or.inr (Or.inl h)
        · exact Or.inr (Or.inr (Or.inr h))
      · rintro (h | h | (h | h))
        · exact Or.inl h
        · exact Or.inr (Or.inl h)
        · exact Or.inl (cov_of_headContains hc p h)
        · exact Or.inr (Or.inr h)
    | false =>
      simp only [Bool.false_eq_true, ↓reduceDIte, ↓reduceIte] at ih ⊢
      obtain ⟨res, hres, hcov⟩ := ih h1 (SD_tail h2) w1 (WFl_tail w2) (by simp) (by simp) (by simp)
      refine ⟨res, hres, fun p => ?_⟩
      rw [hcov p, cov_cons b bs, cov_cons b acc]
      constructor
      · rintro ((h | h) | h | h)
        · exact Or.inr (Or.inr (Or.inl h))
        · exact Or.inl h
        · exact Or.inr (Or.inl h)
        · exact Or.inr (Or.inr (Or.inr h))
      · rintro (h | h | (h | h))
        · exact Or.inl (Or.inr h)
        · exact Or.inr (Or.inl h)
        · exact Or.inl (Or.inl h)
        · exact Or.inr (Or.inr h)
  | case8 a as i1 b bs i2 acc hov hlo ih =>
    have ha := WFl_head w1
    have hb := WFl_head w2
    simp [left_of] at hlo
    simp [overlaps] at hov
    have hni2 : i2 = false := by
      cases i2 with
      | false => rfl
      | true => exfalso; have := (hI2 rfl b (by simp)).2 a (by simp); omega
    subst hni2
    cases i1 with
    | true =>
      have hc := (hI1 rfl a (by simp)).1
      simp only [↓reduceDIte, ↓reduceIte] at ih ⊢
      obtain ⟨res, hres, hcov⟩ := ih (SD_tail h1) h2 (WFl_tail w1) w2 (by simp) (by simp) (by simp)
      refine ⟨res, hres, fun p => ?_⟩
      rw [hcov p, cov_cons a as]
      constructor
      · rintro (h | h | h)
        · exact Or.inl h
        · exact Or.inr (Or.inl (Or.inr h))
        · exact Or.inr (Or.inr h)
      · rintro (h | (h | h) | h)
        · exact Or.inl h
        · exact Or.inl (cov_of_headContains hc p h)
        · exact Or.inr (Or.inl h)
        · exact Or.inr (Or.inr h)
    | false =>
      simp only [Bool.false_eq_true, ↓reduceDIte, ↓reduceIte] at ih ⊢
      obtain ⟨res, hres, hcov⟩ := ih (SD_tail h1) h2 (WFl_tail w1) w2 (by simp) (by simp) (by simp)
      refine ⟨res, hres, fun p => ?_⟩
      rw [hcov p, cov_cons a as, cov_cons a acc]
      constructor
      · rintro ((h | h) | h | h)
        · exact Or.inr (Or.inl (Or.inl h))
        · exact Or.inl h
        · exact Or.inr (Or.inl (Or.inr h))
        · exact Or.inr (Or.inr h)
      · rintro (h | (h | h) | h)
        · exact Or.inl (Or.inr h)
        · exact Or.inl (Or.inl h)
        · exact Or.inr (Or.inl h)
        · exact Or.inr (Or.inr h)

end IsoVerif.Lemmas
