/-
Helper lemmas for the C15 domain theorems: when does each primitive writer of src/serialization.py succeed
(`isSome` = the real writer does not raise), stated with declarative range predicates.
-/
import IsoVerif.Lemmas.Serial

namespace IsoVerif.Lemmas.Serial
open IsoVerif.Gen IsoVerif.Model IsoVerif.Model.Serial

/-! ### the value domain of the writers, declaratively -/

def IsU32 (v : Int) : Prop := 0 ≤ v ∧ v < 2 ^ 32
def IsU16 (v : Int) : Prop := 0 ≤ v ∧ v < 2 ^ 16
def IsS31 (v : Int) : Prop := -(2 ^ 31 : Int) < v ∧ v < 2 ^ 31
def StrOk (s : String) : Prop := s.utf8ByteSize < 2 ^ 16
def OptStrOk (o : Option String) : Prop := ∀ s, o = some s → StrOk s
def PenaltyOk (q : Rat) : Prop := IsU32 (penaltyToInt q)
def ListOk {α} (P : α → Prop) (l : List α) : Prop := l.length < 2 ^ 32 ∧ ∀ x ∈ l, P x

theorem writeInt4_isSome (v : Int) : (writeInt v).isSome ↔ IsU32 v := by
  simp only [writeInt, intToBytes_isSome_iff, IsU32, pow4]; omega
theorem writeInt2_isSome (v : Int) : (writeInt v ser_SHORT_INT_BYTES).isSome ↔ IsU16 v := by
  simp only [writeInt, intToBytes_isSome_iff, IsU16, show ser_SHORT_INT_BYTES = 2 from rfl]; omega
theorem writeShortInt_isSome (v : Int) : (writeShortInt v).isSome ↔ IsU16 v := writeInt2_isSome v
theorem writeString_isSome (s : String) : (writeString s).isSome ↔ StrOk s := by
  simp only [writeString, seqW_isSome_iff, List.mem_cons, List.not_mem_nil, or_false, forall_eq_or_imp, forall_eq,
    Option.isSome_some, and_true, intToBytes_isSome_iff, utf8_length, StrOk, show ser_STR_LEN_BYTES = 2 from rfl]
  omega
theorem writeStringOrNone_isSome (o : Option String) : (writeStringOrNone o).isSome ↔ OptStrOk o := by
  cases o with
  | none => simp [writeStringOrNone, OptStrOk, intToBytes_isSome_iff]; decide
  | some s =>
    have := writeString_isSome s
    simp only [writeString] at this
    simp [writeStringOrNone, OptStrOk, this]
theorem writeList_isSome {α} (l : List α) (w : α → Option Bytes) (P : α → Prop) (hw : ∀ x, (w x).isSome ↔ P x) :
    (writeList l w).isSome ↔ ListOk P l := by
  simp only [writeList, seqW_isSome_iff, List.mem_cons, List.mem_map, forall_eq_or_imp, writeInt,
    intToBytes_isSome_iff, forall_exists_index, and_imp, forall_apply_eq_imp_iff₂, ListOk, pow4, hw]
  constructor
  · rintro ⟨h1, h2⟩; exact ⟨by omega, h2⟩
  · rintro ⟨h1, h2⟩; exact ⟨by omega, h2⟩
theorem writeListOfPairs_isSome (l : List (Int × Int)) :
    (writeListOfPairs l (writeInt ·)).isSome ↔ ListOk (fun v => IsU32 v.1 ∧ IsU32 v.2) l := by
  simp only [writeListOfPairs, seqW_isSome_iff, List.mem_cons, List.mem_map, forall_eq_or_imp, writeInt,
    intToBytes_isSome_iff, forall_exists_index, and_imp, forall_apply_eq_imp_iff₂, ListOk, pow4, List.not_mem_nil,
    or_false, forall_eq, IsU32]
  constructor
  · rintro ⟨h1, h2⟩; exact ⟨by omega, fun x hx => by have := h2 x hx; omega⟩
  · rintro ⟨h1, h2⟩; exact ⟨by omega, fun x hx => by have := h2 x hx; omega⟩
theorem writeBoolArray3_isSome (a b c : Bool) : (writeBoolArray [a, b, c]).isSome = true := by
  cases a <;> cases b <;> cases c <;> decide
theorem writeBoolArray2_isSome (a b : Bool) : (writeBoolArray [a, b]).isSome = true := by
  cases a <;> cases b <;> decide
theorem writePenalty_isSome (q : Rat) : (writePenalty q).isSome ↔ PenaltyOk q := writeInt4_isSome _

def DictValOk : DictVal → Prop
  | .int v => IsS31 v
  | .str s => StrOk s
  | .pair a b => IsS31 a ∧ IsS31 b

def DictOk (d : Dict) : Prop := ListOk (fun kv => StrOk kv.1 ∧ DictValOk kv.2) d

theorem writeDictEntry_isSome (kv : String × DictVal) : (writeDictEntry kv).isSome ↔ (StrOk kv.1 ∧ DictValOk kv.2) := by
  obtain ⟨k, v⟩ := kv
  have ht : ∀ t : Nat, t < 256 → (intToBytes ser_DICT_TYPE_LEN (t : Int)).isSome := by
    intro t ht; rw [intToBytes_isSome_iff]; simp [show ser_DICT_TYPE_LEN = 1 from rfl]; omega
  cases v <;>
  simp [writeDictEntry, seqW_isSome_iff, writeString_isSome, writeIntNeg_isSome_iff, DictValOk, IsS31,
    ht ser_DICT_INT_TYPE (by decide), ht ser_DICT_STR_TYPE (by decide), ht ser_DICT_INT_PAIR_TYPE (by decide)]

theorem writeDict_isSome (d : Dict) : (writeDict d).isSome ↔ DictOk d := by
  have := writeList_isSome d writeDictEntry _ writeDictEntry_isSome
  simpa [writeList, writeDict, DictOk] using this


end IsoVerif.Lemmas.Serial
