/-
C07: clean-up stages and the composition of all stages of a run of the repaired code.
-/
import IsoVerif.Lemmas.ResumeMerge

namespace IsoVerif.Lemmas.Resume
open IsoVerif.Model.Resume

/-- no lock of the configuration exists -/
def NoLocks (cfg : Cfg) (fs : FS) : Prop :=
  fs.has .lock = false ∧ fs.has .rgLock = false ∧
    ∀ c ∈ cfg.chrs, fs.has (.collected c) = false ∧ fs.has (.processed c) = false

theorem guarded_lock_cases {cfg : Cfg} {l d : Path} (h : d ∈ guarded cfg l) :
    l = .lock ∨ l = .rgLock ∨ (∃ c ∈ cfg.chrs, l = .collected c) ∨ (∃ c ∈ cfg.chrs, l = .processed c) ∨
      (l = .refFai ∧ d = .refFaiData ∧ idxTrusted cfg = true) := by
  cases l <;> simp only [guarded] at h
  all_goals try (simp at h; done)
  · exact Or.inr (Or.inl rfl)
  · split at h
    · rename_i hc; exact Or.inr (Or.inr (Or.inl ⟨_, hc, rfl⟩))
    · simp at h
  · exact Or.inl rfl
  · split at h
    · rename_i hc; exact Or.inr (Or.inr (Or.inr (Or.inl ⟨_, hc, rfl⟩)))
    · simp at h
  · split at h
    · rename_i ht; simp only [List.mem_cons, List.not_mem_nil, or_false] at h
      exact Or.inr (Or.inr (Or.inr (Or.inr ⟨rfl, h, ht⟩)))
    · simp at h

theorem noLocks_guard {cfg : Cfg} {fs : FS} (h : NoLocks cfg fs) {l d : Path} (hm : d ∈ guarded cfg l)
    (hd : d ≠ .refFaiData) : fs.has l = false := by
  rcases guarded_lock_cases hm with rfl | rfl | ⟨c, hc, rfl⟩ | ⟨c, hc, rfl⟩ | ⟨_, e, _⟩
  · exact h.1
  · exact h.2.1
  · exact (h.2.2 c hc).1
  · exact (h.2.2 c hc).2
  · exact absurd e hd

/-- removing any existing files keeps the invariant once no lock is left -/
theorem removeAll_stage {cfg : Cfg} {fs : FS} (h : J cfg fs) (hn : NoLocks cfg fs) (L : List Path) (nd : L.Nodup)
    (hp : ∀ p ∈ L, p ≠ .params ∧ p ≠ .refFaiData) (hhas : ∀ p ∈ L, fs.has p = true) :
    Good cfg fs (runActs (rmAll L) fs) ∧
      (∀ p, (runActs (rmAll L) fs).fs p = if p ∈ L then none else fs p) := by
  have hJ : AllP (J cfg) fs (L.map Ev.remove) := by
    apply allJ_body h
    · intro e he; simp only [List.mem_map] at he; obtain ⟨p, hp', rfl⟩ := he; exact (hp p hp').1
    · intro e he _; simp only [List.mem_map] at he; obtain ⟨p, _, rfl⟩ := he; rfl
    · intro e he _ l hm; simp only [List.mem_map] at he; obtain ⟨p, hp', rfl⟩ := he
      exact noLocks_guard hn hm (hp p hp').2
  obtain ⟨hg, hfs⟩ := good_of_checks (checks_rmAll nd hhas) (by rw [eventsOf_rmAll]; exact hJ)
  rw [eventsOf_rmAll] at hfs
  refine ⟨hg, fun p => ?_⟩
  rw [hfs]; split
  · rename_i hm; exact applyAll_remove_mem hm
  · rename_i hm; exact applyAll_remove_not_mem hm

theorem glob_stage {cfg : Cfg} {fs : FS} (h : J cfg fs) (hn : NoLocks cfg fs) (sel : Path → Bool) (hsel : sel .params = false)
    (hsel2 : sel .refFaiData = false) (ord : List Path) (nd : ord.Nodup) :
    Good cfg fs (runActs (globStage sel ord fs) fs) ∧ NoLocks cfg (runActs (globStage sel ord fs) fs).fs ∧
      (∀ p, sel p = false → (runActs (globStage sel ord fs) fs).fs p = fs p) := by
  unfold globStage
  obtain ⟨hg, hv⟩ := removeAll_stage h hn (ord.filter (fun p => sel p && fs.has p))
    (List.Nodup.sublist List.filter_sublist nd)
    (by intro p hp; simp only [List.mem_filter, Bool.and_eq_true] at hp
        exact ⟨fun e => by rw [e, hsel] at hp; simp at hp, fun e => by rw [e, hsel2] at hp; simp at hp⟩)
    (by intro p hp; simp only [List.mem_filter, Bool.and_eq_true] at hp; exact hp.2.2)
  have hmono : ∀ p, (runActs (rmAll (ord.filter (fun p => sel p && fs.has p))) fs).fs.has p = true → fs.has p = true := by
    intro p hq
    have hvp := hv p
    by_cases hm : p ∈ ord.filter (fun p => sel p && fs.has p)
    · rw [if_pos hm] at hvp; rw [FS.has, hvp] at hq; simp at hq
    · rw [if_neg hm] at hvp; rw [FS.has, hvp] at hq; exact hq
  have hfalse : ∀ p, fs.has p = false → (runActs (rmAll (ord.filter (fun p => sel p && fs.has p))) fs).fs.has p = false := by
    intro p hp
    cases hq : (runActs (rmAll (ord.filter (fun p => sel p && fs.has p))) fs).fs.has p with
    | false => rfl
    | true => rw [hmono p hq] at hp; exact absurd hp (by simp)
  refine ⟨hg, ⟨hfalse _ hn.1, hfalse _ hn.2.1, fun c hc => ⟨hfalse _ (hn.2.2 c hc).1, hfalse _ (hn.2.2 c hc).2⟩⟩, ?_⟩
  intro p hp
  rw [hv]; split
  · rename_i hm; simp only [List.mem_filter, Bool.and_eq_true] at hm; rw [hp] at hm; simp at hm
  · rfl

theorem cleanupLocks_stage {cfg : Cfg} (wf : WF cfg) {fs : FS} (h : J cfg fs) :
    Good cfg fs (runActs (cleanupLocks fixed cfg fs) fs) ∧ NoLocks cfg (runActs (cleanupLocks fixed cfg fs) fs).fs ∧
      (∀ p, isLock p = false → (runActs (cleanupLocks fixed cfg fs) fs).fs p = fs p) := by
  unfold cleanupLocks
  simp only [fixed, if_true]
  generalize hL : ([Path.lock, Path.rgLock].filter fs.has ++
      (cfg.chrs.filter (fun c => fs.has (.collected c))).map Path.collected ++
      (cfg.chrs.filter (fun c => fs.has (.processed c))).map Path.processed) = L
  have hnd : L.Nodup := by subst hL; exact nodup_lock_list wf _ List.filter_sublist _ _
  have hmem : ∀ p, p ∈ L ↔ ((p = .lock ∨ p = .rgLock) ∧ fs.has p = true) ∨
      (∃ c ∈ cfg.chrs, fs.has (.collected c) = true ∧ p = .collected c) ∨
      (∃ c ∈ cfg.chrs, fs.has (.processed c) = true ∧ p = .processed c) := by
    subst hL; intro p
    simp only [List.mem_append, List.mem_map, List.mem_filter, List.mem_cons, List.not_mem_nil, or_false]
    constructor
    · rintro ((hp | ⟨c, ⟨hc, hh⟩, rfl⟩) | ⟨c, ⟨hc, hh⟩, rfl⟩)
      · exact Or.inl hp
      · exact Or.inr (Or.inl ⟨c, hc, hh, rfl⟩)
      · exact Or.inr (Or.inr ⟨c, hc, hh, rfl⟩)
    · rintro (hp | ⟨c, hc, hh, rfl⟩ | ⟨c, hc, hh, rfl⟩)
      · exact Or.inl (Or.inl hp)
      · exact Or.inl (Or.inr ⟨c, ⟨hc, hh⟩, rfl⟩)
      · exact Or.inr ⟨c, ⟨hc, hh⟩, rfl⟩
  have hhas : ∀ p ∈ L, fs.has p = true := by
    intro p hp; rcases (hmem p).mp hp with ⟨_, hh⟩ | ⟨c, _, hh, rfl⟩ | ⟨c, _, hh, rfl⟩ <;> exact hh
  have hlk : ∀ p ∈ L, isLock p = true := by
    intro p hp; rcases (hmem p).mp hp with ⟨rfl | rfl, _⟩ | ⟨c, _, _, rfl⟩ | ⟨c, _, _, rfl⟩ <;> rfl
  obtain ⟨hg, hfs⟩ := good_of_checks (checks_rmAll hnd hhas) (by rw [eventsOf_rmAll]; exact allJ_removeLocks h hlk)
  rw [eventsOf_rmAll] at hfs
  have hval : ∀ p, (runActs (rmAll L) fs).fs p = if p ∈ L then none else fs p := by
    intro p; rw [hfs]; split
    · rename_i hp; exact applyAll_remove_mem hp
    · rename_i hp; exact applyAll_remove_not_mem hp
  have hgone : ∀ p, (fs.has p = true → p ∈ L) → (runActs (rmAll L) fs).fs.has p = false := by
    intro p hp
    simp only [FS.has, hval]; split
    · rfl
    · rename_i hm
      cases hq : fs.has p with
      | false => simpa [FS.has] using hq
      | true => exact absurd (hp hq) hm
  refine ⟨hg, ⟨?_, ?_, fun c hc => ⟨?_, ?_⟩⟩, ?_⟩
  · exact hgone _ (fun hq => (hmem _).mpr (Or.inl ⟨Or.inl rfl, hq⟩))
  · exact hgone _ (fun hq => (hmem _).mpr (Or.inl ⟨Or.inr rfl, hq⟩))
  · exact hgone _ (fun hq => (hmem _).mpr (Or.inr (Or.inl ⟨c, hc, hq, rfl⟩)))
  · exact hgone _ (fun hq => (hmem _).mpr (Or.inr (Or.inr ⟨c, hc, hq, rfl⟩)))
  · intro p hp; rw [hval]; split
    · rename_i hm; have := hlk p hm; simp [hp] at this
    · rfl


/-! ### composition -/

theorem seq_cons {cfg : Cfg} {fs : FS} {s : Stage} {ss : List Stage} {Q : FS → Prop}
    (h1 : Good cfg fs (runActs (s fs) fs))
    (h2 : Good cfg (runActs (s fs) fs).fs (runStages ss (runActs (s fs) fs).fs) ∧ Q (runStages ss (runActs (s fs) fs).fs).fs) :
    Good cfg fs (runStages (s :: ss) fs) ∧ Q (runStages (s :: ss) fs).fs := by
  obtain ⟨g, e⟩ := good_cons h1 h2.1
  exact ⟨g, e ▸ h2.2⟩

theorem seq_append {cfg : Cfg} {fs : FS} {a b : List Stage} {Q : FS → Prop}
    (h1 : Good cfg fs (runStages a fs))
    (h2 : Good cfg (runStages a fs).fs (runStages b (runStages a fs).fs) ∧ Q (runStages b (runStages a fs).fs).fs) :
    Good cfg fs (runStages (a ++ b) fs) ∧ Q (runStages (a ++ b) fs).fs := by
  obtain ⟨g, e⟩ := good_append h1 h2.1
  exact ⟨g, e ▸ h2.2⟩

theorem finalPaths_Tfin {cfg : Cfg} {p : Path} (h : p ∈ finalPaths cfg) : Tfin p = true := by
  simp only [finalPaths, List.mem_append, List.mem_map, List.mem_flatMap, List.mem_cons, List.not_mem_nil, or_false] at h
  rcases h with ((⟨s, _, rfl⟩ | ⟨s, _, rfl | rfl⟩) | ⟨s, _, rfl | rfl | rfl⟩) | ⟨s, _, rfl⟩ <;>
    first | exact Tfin_finalOf cfg s | rfl

/-- every final file is complete and correct -/
def FinOK (cfg : Cfg) (fs : FS) : Prop := ∀ p ∈ finalPaths cfg, fs.good p = true

/-- all stages after `.params` (repaired code), right-nested; `skc` = no read collection in this run
    (stage lock found by a resumed run, or `--read_assignments`) -/
def restStages (cfg : Cfg) (ord : List Path) (rs skc : Bool) : List Stage :=
  rgStage cfg rs :: collectPre cfg rs skc :: (cfg.chrs.map (collectChr fixed cfg rs skc)
    ++ (collectPost cfg skc :: constructPre cfg :: (cfg.chrs.map (constructChr fixed cfg rs)
      ++ (dropStage fixed cfg :: mergeStage cfg true ::
        (if cfg.keepTmp || cfg.fromSaves then []
         else [cleanupLocks fixed cfg, globStage isSaveAux ord, globStage isRgAux ord])))))

theorem stages_eq (cfg : Cfg) (ord : List Path) (rs sk : Bool) :
    stages fixed cfg ord rs sk = paramsStage fixed rs :: refStage fixed cfg rs :: restStages cfg ord rs (sk || cfg.fromSaves) := by
  simp [stages, restStages, fixed, unalOK]

/-- the paths of the reference stage: the unpacked copy, the index (file and content), the temporary index -/
def isRefAux : Path → Bool
  | .refFa | .refFai | .refFaiData | .refFaiTmp => true
  | _ => false

/-- the events of the copy part of the reference stage (repaired code): every run unpacks the reference again -/
def copyEvents (cfg : Cfg) : List Ev :=
  if cfg.gzRef then [.create .refFa, .commit .refFa .stale, .commit .refFa .good] else []

/-- the events of load_indexed_reference (repaired code) for an index inside the output folder: nothing when an index that
    is trusted exists; otherwise the index is built under the temporary name and renamed -/
def indexEvents (cfg : Cfg) (fs : FS) : List Ev :=
  if !cfg.idx then []
  else if idxTrusted cfg && fs.has .refFai then []
  else [.create .refFaiTmp, .commit .refFaiTmp .good, .remove .refFaiTmp, .commit .refFaiData .good, .commit .refFai .good]

def refEvents (cfg : Cfg) (fs : FS) : List Ev := copyEvents cfg ++ indexEvents cfg fs

theorem refFaiTmp_not_guarded {cfg : Cfg} {l : Path} : Path.refFaiTmp ∉ guarded cfg l := by
  intro hm; have := mem_guarded_locksOf hm; simp [locksOf] at this

theorem copy_part {cfg : Cfg} (rs : Bool) {fs : FS} (h : J cfg fs) :
    ChecksOK (refCopyActs fixed cfg rs fs) fs ∧ eventsOf (refCopyActs fixed cfg rs fs) = copyEvents cfg ∧
      AllP (J cfg) fs (copyEvents cfg) ∧
      (∀ p, p ≠ .refFa → applyAll fs (copyEvents cfg) p = fs p) ∧
      (cfg.gzRef = true → (applyAll fs (copyEvents cfg)).good .refFa = true) := by
  unfold refCopyActs copyEvents
  cases hg : cfg.gzRef with
  | false =>
    simp only [Bool.not_false, if_true, Bool.false_eq_true, if_false]
    exact ⟨trivial, rfl, h, fun _ _ => rfl, fun e => absurd e (by simp)⟩
  | true =>
    simp only [fixed, Bool.not_true, Bool.false_and, Bool.false_eq_true, if_false, if_true]
    refine ⟨by simp [evs, ChecksOK, apply, Ev.path, Ev.val, good_set], by simp [evs, eventsOf], ?_, fun p hp => ?_, fun _ => ?_⟩
    · exact allJ_of_bodyOK (L := []) h (by simp [bodyOK, isLock, locksOf, Ev.path]) (by simp)
    · simp [applyAll, apply, Ev.path, FS.set, hp]
    · simp [applyAll, apply, Ev.path, Ev.val, good_set]

theorem index_part {cfg : Cfg} {fs : FS} (h : J cfg fs) :
    ChecksOK (refIndexActs fixed cfg fs) fs ∧ eventsOf (refIndexActs fixed cfg fs) = indexEvents cfg fs ∧
      AllP (J cfg) fs (indexEvents cfg fs) ∧
      (∀ p, isRefAux p = false → applyAll fs (indexEvents cfg fs) p = fs p) ∧
      applyAll fs (indexEvents cfg fs) .refFa = fs .refFa ∧
      (cfg.idx = true → (applyAll fs (indexEvents cfg fs)).good .refFaiData = true) := by
  unfold refIndexActs indexEvents
  cases hi : cfg.idx with
  | false =>
    simp only [Bool.not_false, if_true]
    exact ⟨trivial, rfl, h, fun _ _ => rfl, rfl, fun e => absurd e (by simp)⟩
  | true =>
    simp only [Bool.not_true, Bool.false_eq_true, if_false]
    by_cases ht : (idxTrusted cfg && fs.has .refFai) = true
    · simp only [ht, if_true]
      simp only [Bool.and_eq_true] at ht
      have hd : fs.good .refFaiData = true := h.2 .refFai ht.2 _ (by simp [guarded, ht.1])
      exact ⟨⟨ht.2, trivial⟩, rfl, h, fun _ _ => rfl, rfl, fun _ => hd⟩
    · simp only [ht, fixed, if_true, Bool.false_eq_true, if_false]
      have h4 : AllP (J cfg) fs [.create .refFaiTmp, .commit .refFaiTmp .good, .remove .refFaiTmp, .commit .refFaiData .good] := by
        apply allJ_body h
        · intro e he; simp only [List.mem_cons, List.not_mem_nil, or_false] at he
          rcases he with rfl | rfl | rfl | rfl <;> simp [Ev.path]
        · intro e he hl; simp only [List.mem_cons, List.not_mem_nil, or_false] at he
          rcases he with rfl | rfl | rfl | rfl <;> simp [Ev.path, isLock] at hl
        · intro e he hv l hm; simp only [List.mem_cons, List.not_mem_nil, or_false] at he
          rcases he with rfl | rfl | rfl | rfl
          · exact absurd hm refFaiTmp_not_guarded
          · simp [Ev.val] at hv
          · exact absurd hm refFaiTmp_not_guarded
          · simp [Ev.val] at hv
      have h5 : J cfg (apply (applyAll fs [.create .refFaiTmp, .commit .refFaiTmp .good, .remove .refFaiTmp,
          .commit .refFaiData .good]) (.commit .refFai .good)) := by
        show J cfg (FS.set _ .refFai (some .good))
        apply J_set (AllP_last h4) (by simp)
        · intro hv; exact absurd rfl hv
        · intro _ d hd
          simp only [guarded] at hd
          split at hd
          · simp only [List.mem_cons, List.not_mem_nil, or_false] at hd; subst hd
            simp [applyAll, apply, Ev.path, Ev.val, good_set]
          · simp at hd
      refine ⟨?_, by simp [evs, eventsOf], ?_, fun p hp => ?_, ?_, fun _ => ?_⟩
      · simp [evs, ChecksOK, apply, Ev.path, Ev.val, has_set]
      · have : ([.create .refFaiTmp, .commit .refFaiTmp .good, .remove .refFaiTmp, .commit .refFaiData .good, .commit .refFai .good] : List Ev)
            = [.create .refFaiTmp, .commit .refFaiTmp .good, .remove .refFaiTmp, .commit .refFaiData .good] ++ [.commit .refFai .good] := rfl
        rw [this, AllP_append]
        exact ⟨h4, AllP_single (AllP_last h4) h5⟩
      · cases p <;> simp [isRefAux] at hp <;> simp [applyAll, apply, Ev.path, FS.set]
      · simp [applyAll, apply, Ev.path, FS.set]
      · simp [applyAll, apply, Ev.path, Ev.val, good_set]

/-- the reference stage writes only its own files (every variant) -/
theorem refStage_paths (v : Variant) (cfg : Cfg) (rs : Bool) (fs : FS) :
    ∀ e ∈ eventsOf (refStage v cfg rs fs), isRefAux e.path = true := by
  intro e he
  unfold refStage refCopyActs refIndexActs at he
  rw [eventsOf_append] at he
  simp only [List.mem_append] at he
  rcases he with he | he
  · split at he
    · simp [eventsOf] at he
    · split at he <;> simp [evs, eventsOf] at he
      rcases he with rfl | rfl | rfl <;> rfl
  · split at he
    · simp [eventsOf] at he
    · split at he
      · simp [eventsOf] at he
      · split at he <;> simp [evs, eventsOf] at he
        · rcases he with rfl | rfl | rfl | rfl | rfl <;> rfl
        · rcases he with rfl | rfl <;> rfl

/-- the reference stage (repaired code): whatever file carries the name of the unpacked copy — nothing, the complete copy
    of this run, a partial copy left by a kill, the copy of another reference left by an earlier run — is rewritten
    before it is read; an index inside the folder is read only if it exists (then it is complete: `J`), otherwise it is
    built under a temporary name and renamed; the stage completes, keeps the invariant at every prefix, touches no other
    file and leaves the reference the run reads in order (`refOK`) -/
theorem ref_stage {cfg : Cfg} (rs : Bool) {fs : FS} (h : J cfg fs) :
    Good cfg fs (runActs (refStage fixed cfg rs fs) fs) ∧
      (runActs (refStage fixed cfg rs fs) fs).evs = refEvents cfg fs ∧
      (∀ p, isRefAux p = false → (runActs (refStage fixed cfg rs fs) fs).fs p = fs p) ∧
      refOK cfg (runActs (refStage fixed cfg rs fs) fs).fs = true := by
  obtain ⟨c1, e1, a1, f1, g1⟩ := copy_part (cfg := cfg) rs h
  have hsame : fs.has .refFai = (applyAll fs (copyEvents cfg)).has .refFai := by
    simp only [FS.has]; rw [f1 _ (by simp)]
  have hidx : refIndexActs fixed cfg fs = refIndexActs fixed cfg (applyAll fs (copyEvents cfg)) := by
    simp only [refIndexActs, hsame]
  have hie : indexEvents cfg fs = indexEvents cfg (applyAll fs (copyEvents cfg)) := by
    simp only [indexEvents, hsame]
  obtain ⟨c2, e2, a2, f2, r2, g2⟩ := index_part (cfg := cfg) (AllP_last a1)
  have hck : ChecksOK (refStage fixed cfg rs fs) fs := by
    unfold refStage; rw [checks_append, e1, hidx]; exact ⟨c1, c2⟩
  have hev : eventsOf (refStage fixed cfg rs fs) = refEvents cfg fs := by
    unfold refStage refEvents; rw [eventsOf_append, e1, hidx, e2, hie]
  obtain ⟨g, hfs⟩ := good_of_checks hck (by rw [hev]; unfold refEvents; rw [AllP_append, hie]; exact ⟨a1, a2⟩)
  rw [hev] at hfs
  refine ⟨g, by rw [(runActs_of_checks hck).2, hev], fun p hp => ?_, ?_⟩
  · rw [hfs]; unfold refEvents; rw [applyAll_append, hie, f2 p hp, f1 p (by intro e; subst e; simp [isRefAux] at hp)]
  · rw [hfs]; unfold refEvents; rw [applyAll_append, hie]
    simp only [refOK, Bool.and_eq_true, Bool.or_eq_true, Bool.not_eq_true']
    constructor
    · cases hg : cfg.gzRef with
      | false => exact Or.inl rfl
      | true => right; simp only [FS.good]; rw [r2]; exact g1 hg
    · cases hi : cfg.idx with
      | false => exact Or.inl rfl
      | true => exact Or.inr (g2 hi)

/-- from a state satisfying the invariant, everything after `.params` completes, keeps the invariant at every
    prefix and leaves every final file complete and correct -/
theorem rest_run {cfg : Cfg} (wf : WF cfg) (ord : List Path) (hord : ord.Nodup) (rs sk : Bool) {fs : FS} (h : J cfg fs)
    (hskrs : sk = true → rs = true) (hsk : sk = true → fs.has .lock = true)
    (hnsk : sk = false → cfg.fromSaves = false → rs = true → fs.has .lock = false)
    (hsv : cfg.fromSaves = true → SavesOK cfg fs)
    (hnp0 : cfg.fromSaves = true → rs = false → ∀ c ∈ cfg.chrs, fs.has (.processed c) = false)
    (href : refOK cfg fs = true) :
    Good cfg fs (runStages (restStages cfg ord rs (sk || cfg.fromSaves)) fs) ∧
      FinOK cfg (runStages (restStages cfg ord rs (sk || cfg.fromSaves)) fs).fs := by
  unfold restStages
  generalize hskc : (sk || cfg.fromSaves) = skc
  have hskc_f : skc = false → sk = false ∧ cfg.fromSaves = false := by
    intro e; subst hskc; simpa using e
  have hskc_t : skc = true → sk = true ∨ cfg.fromSaves = true := by
    intro e; subst hskc; simpa using e
  -- read-group split
  obtain ⟨g1, rg1, f1⟩ := rg_stage wf rs h
  have j1 := good_J_acts g1
  refine seq_cons (Q := FinOK cfg) g1 ?_
  have hsk1 : sk = true → (runActs (rgStage cfg rs fs) fs).fs.has .lock = true := by
    intro e; rw [FS.has, f1 _ rfl]; exact hsk e
  have hnsk1 : sk = false → cfg.fromSaves = false → rs = true → (runActs (rgStage cfg rs fs) fs).fs.has .lock = false := by
    intro e e' e''; rw [FS.has, f1 _ rfl]; exact hnsk e e' e''
  have hsv1 : cfg.fromSaves = true → SavesOK cfg (runActs (rgStage cfg rs fs) fs).fs :=
    fun e => savesOK_frame (hsv e) (f1 _ rfl) (fun _ => f1 _ rfl) (fun _ => f1 _ rfl)
  have hnp1 : cfg.fromSaves = true → rs = false → ∀ c ∈ cfg.chrs,
      (runActs (rgStage cfg rs fs) fs).fs.has (.processed c) = false := by
    intro e e' c hc; rw [FS.has, f1 _ rfl]; exact hnp0 e e' c hc
  have href1 : refOK cfg (runActs (rgStage cfg rs fs) fs).fs = true := by
    rw [refOK_frame (f1 _ rfl) (f1 _ rfl)]; exact href
  clear g1 f1 hsk hnsk h hsv hnp0 href
  generalize (runActs (rgStage cfg rs fs) fs).fs = fs1 at *
  -- stale locks
  obtain ⟨g2, f2, r2, e2, n2⟩ := collectPre_stage wf rs skc j1
  have j2 := good_J_acts g2
  refine seq_cons (Q := FinOK cfg) g2 ?_
  have rg2 : (runActs (collectPre cfg rs skc fs1) fs1).fs.has .rgLock = true := by rw [FS.has, r2]; exact rg1
  have hsk2 : sk = true → (runActs (collectPre cfg rs skc fs1) fs1).fs.has .lock = true := by
    intro e; rw [e2 (by subst hskc; simp [e])]; exact hsk1 e
  have hnl2 : skc = false → (runActs (collectPre cfg rs skc fs1) fs1).fs.has .lock = false := by
    intro e
    by_cases hrs : rs = true
    · rw [e2 (by simp [hrs])]; exact hnsk1 (hskc_f e).1 (hskc_f e).2 hrs
    · have hrs' : rs = false := by simpa using hrs
      exact (n2 (by simp [e, hrs'])).1
  have hnc2 : rs = false → skc = false → ∀ c ∈ cfg.chrs,
      (runActs (collectPre cfg rs skc fs1) fs1).fs.has (.collected c) = false := by
    intro e e' c hc
    exact ((n2 (by simp [e, e'])).2 c hc).1
  have hnp2 : rs = false → ∀ c ∈ cfg.chrs, (runActs (collectPre cfg rs skc fs1) fs1).fs.has (.processed c) = false := by
    intro e c hc
    by_cases hq : skc = true
    · rcases hskc_t hq with hs | hf
      · rw [hskrs hs] at e; exact absurd e (by simp)
      · rw [e2 (by simp [hq])]; exact hnp1 hf e c hc
    · have hq' : skc = false := by simpa using hq
      exact ((n2 (by simp [e, hq'])).2 c hc).2
  have hsv2 : cfg.fromSaves = true → SavesOK cfg (runActs (collectPre cfg rs skc fs1) fs1).fs := by
    intro e; rw [e2 (by subst hskc; simp [e])]; exact hsv1 e
  have href2 : refOK cfg (runActs (collectPre cfg rs skc fs1) fs1).fs = true := by
    rw [refOK_frame (f2 _ rfl) (f2 _ rfl)]; exact href1
  clear g2 f2 r2 e2 n2 rg1 hsk1 hnsk1 j1 hsv1 hnp1 href1
  generalize (runActs (collectPre cfg rs skc fs1) fs1).fs = fs2 at *
  -- collection per chromosome
  obtain ⟨g3, p3, f3⟩ := collect_loop rs skc cfg.chrs (fun c hc => hc) wf.nd j2 rg2 hnl2 hnc2 href2
  have j3 := good_J_stages g3
  refine seq_append (Q := FinOK cfg) g3 ?_
  have hsk3 : sk = true → (runStages (cfg.chrs.map (collectChr fixed cfg rs skc)) fs2).fs.has .lock = true := by
    intro e; rw [FS.has, f3 _ (fun _ _ => rfl)]; exact hsk2 e
  have hnl3 : skc = false → (runStages (cfg.chrs.map (collectChr fixed cfg rs skc)) fs2).fs.has .lock = false := by
    intro e; rw [FS.has, f3 _ (fun _ _ => rfl)]; exact hnl2 e
  have hnp3 : rs = false → ∀ c ∈ cfg.chrs,
      (runStages (cfg.chrs.map (collectChr fixed cfg rs skc)) fs2).fs.has (.processed c) = false := by
    intro e c hc; rw [FS.has, f3 _ (fun _ _ => rfl)]; exact hnp2 e c hc
  have hsv3 : cfg.fromSaves = true → SavesOK cfg (runStages (cfg.chrs.map (collectChr fixed cfg rs skc)) fs2).fs := by
    intro e
    have hq : skc = true := by subst hskc; simp [e]
    -- with no collection every per-chromosome stage is empty
    have hsame : (runStages (cfg.chrs.map (collectChr fixed cfg rs skc)) fs2).fs = fs2 := by
      subst hq
      generalize cfg.chrs = cs
      induction cs with
      | nil => rfl
      | cons c cs ih => simp only [List.map_cons, runStages, collectChr, if_true, runActs]; exact ih
    rw [hsame]; exact hsv2 e
  have href3 : refOK cfg (runStages (cfg.chrs.map (collectChr fixed cfg rs skc)) fs2).fs = true := by
    rw [refOK_frame (f3 _ (fun _ _ => rfl)) (f3 _ (fun _ _ => rfl))]; exact href2
  clear g3 f3 rg2 hsk2 hnl2 hnc2 hnp2 j2 hsv2 href2
  generalize (runStages (cfg.chrs.map (collectChr fixed cfg rs skc)) fs2).fs = fs3 at *
  -- multimappers, info, stage lock
  obtain ⟨g4, l4, e4, f4⟩ := collectPost_stage skc j3 hnl3 p3
  have j4 := good_J_acts g4
  refine seq_cons (Q := FinOK cfg) g4 ?_
  have hnp4 : rs = false → ∀ c ∈ cfg.chrs, (runActs (collectPost cfg skc fs3) fs3).fs.has (.processed c) = false := by
    intro e c hc; rw [FS.has, f4 _ rfl]; exact hnp3 e c hc
  have sv4 : SavesOK cfg (runActs (collectPost cfg skc fs3) fs3).fs := by
    by_cases hq : skc = true
    · rcases hskc_t hq with hs | hf
      · apply savesOK_of_lock j4; rw [e4 hq]; exact hsk3 hs
      · rw [e4 hq]; exact hsv3 hf
    · have hq' : skc = false := by simpa using hq
      exact savesOK_of_lock j4 (l4 hq')
  have href4 : refOK cfg (runActs (collectPost cfg skc fs3) fs3).fs = true := by
    rw [refOK_frame (f4 _ rfl) (f4 _ rfl)]; exact href3
  clear g4 f4 hsk3 hnl3 hnp3 p3 j3 l4 e4 hsv3 href3
  generalize (runActs (collectPost cfg skc fs3) fs3).fs = fs4 at *
  -- final files opened
  obtain ⟨g5, f5⟩ := constructPre_stage j4 sv4
  have j5 := good_J_acts g5
  refine seq_cons (Q := FinOK cfg) g5 ?_
  have sv5 : SavesOK cfg (runActs (constructPre cfg fs4) fs4).fs :=
    savesOK_frame sv4 (f5 _ rfl) (fun _ => f5 _ rfl) (fun _ => f5 _ rfl)
  have hnp5 : rs = false → ∀ c ∈ cfg.chrs, (runActs (constructPre cfg fs4) fs4).fs.has (.processed c) = false := by
    intro e c hc; rw [FS.has, f5 _ rfl]; exact hnp4 e c hc
  have href5 : refOK cfg (runActs (constructPre cfg fs4) fs4).fs = true := by
    rw [refOK_frame (f5 _ rfl) (f5 _ rfl)]; exact href4
  clear g5 f5 sv4 hnp4 j4 href4
  generalize (runActs (constructPre cfg fs4) fs4).fs = fs5 at *
  -- model construction per chromosome
  obtain ⟨g6, p6, f6⟩ := construct_loop rs cfg.chrs (fun c hc => hc) wf.nd j5 sv5 hnp5 href5
  have j6 := good_J_stages g6
  refine seq_append (Q := FinOK cfg) g6 ?_
  have hout6 : ∀ c ∈ cfg.chrs, ∀ d ∈ chrOutputs cfg c,
      (runStages (cfg.chrs.map (constructChr fixed cfg rs)) fs5).fs.good d = true := by
    intro c hc d hd
    exact j6.2 (.processed c) (p6 c hc) d (by simp only [guarded, hc, if_true]; exact hd)
  clear g6 p6 f6 sv5 hnp5 j5
  generalize (runStages (cfg.chrs.map (constructChr fixed cfg rs)) fs5).fs = fs6 at *
  -- processed locks dropped
  obtain ⟨g7, n7, f7⟩ := drop_stage wf j6
  have j7 := good_J_acts g7
  refine seq_cons (Q := FinOK cfg) g7 ?_
  have hout7 : ∀ c ∈ cfg.chrs, ∀ d ∈ chrOutputs cfg c, (runActs (dropStage fixed cfg fs6) fs6).fs.good d = true := by
    intro c hc d hd
    rw [FS.good, f7 d]
    · exact hout6 c hc d hd
    · intro c' e; subst e
      rcases mem_chrOutputs hd with ⟨s, e⟩ | ⟨s, e⟩ | ⟨s, e⟩ | e | e <;> cases e
  clear g7 f7 hout6 j6
  generalize (runActs (dropStage fixed cfg fs6) fs6).fs = fs7 at *
  -- merging
  obtain ⟨g8, fin8, f8⟩ := merge_stage wf j7 hout7 n7
  have j8 := good_J_acts g8
  refine seq_cons (Q := FinOK cfg) g8 ?_
  clear g8 f8 hout7 n7 j7
  generalize (runActs (mergeStage cfg true fs7) fs7).fs = fs8 at *
  -- clean-up
  cases hk : (cfg.keepTmp || cfg.fromSaves) with
  | true => exact ⟨⟨rfl, j8⟩, fin8⟩
  | false =>
    simp only [Bool.false_eq_true, if_false]
    obtain ⟨g9, nl9, f9⟩ := cleanupLocks_stage wf j8
    have j9 := good_J_acts g9
    refine seq_cons (Q := FinOK cfg) g9 ?_
    have fin9 : ∀ p ∈ finalPaths cfg, (runActs (cleanupLocks fixed cfg fs8) fs8).fs.good p = true := by
      intro p hp
      have hT := finalPaths_Tfin hp
      rw [FS.good, f9 p (by revert hT; cases p <;> simp [Tfin, isLock])]
      exact fin8 p hp
    clear g9 f9 fin8 j8
    generalize (runActs (cleanupLocks fixed cfg fs8) fs8).fs = fs9 at *
    obtain ⟨g10, nl10, f10⟩ := glob_stage j9 nl9 isSaveAux rfl rfl ord hord
    have j10 := good_J_acts g10
    refine seq_cons (Q := FinOK cfg) g10 ?_
    have fin10 : ∀ p ∈ finalPaths cfg, (runActs (globStage isSaveAux ord fs9) fs9).fs.good p = true := by
      intro p hp
      have hT := finalPaths_Tfin hp
      rw [FS.good, f10 p (by revert hT; cases p <;> simp [Tfin, isSaveAux])]
      exact fin9 p hp
    clear g10 f10 fin9 j9 nl9
    generalize (runActs (globStage isSaveAux ord fs9) fs9).fs = fs10 at *
    obtain ⟨g11, nl11, f11⟩ := glob_stage j10 nl10 isRgAux rfl rfl ord hord
    have j11 := good_J_acts g11
    refine seq_cons (Q := FinOK cfg) g11 ?_
    refine ⟨⟨rfl, j11⟩, ?_⟩
    intro p hp
    have hT := finalPaths_Tfin hp
    show (runActs (globStage isRgAux ord fs10) fs10).fs.good p = true
    rw [FS.good, f11 p (by revert hT; cases p <;> simp [Tfin, isRgAux])]
    exact fin10 p hp

/-- `rest_run` with the reference stage in front: everything after `.params` -/
theorem rest_run_ref {cfg : Cfg} (wf : WF cfg) (ord : List Path) (hord : ord.Nodup) (rs sk : Bool) {fs : FS} (h : J cfg fs)
    (hskrs : sk = true → rs = true) (hsk : sk = true → fs.has .lock = true)
    (hnsk : sk = false → cfg.fromSaves = false → rs = true → fs.has .lock = false)
    (hsv : cfg.fromSaves = true → SavesOK cfg fs)
    (hnp0 : cfg.fromSaves = true → rs = false → ∀ c ∈ cfg.chrs, fs.has (.processed c) = false) :
    Good cfg fs (runStages (refStage fixed cfg rs :: restStages cfg ord rs (sk || cfg.fromSaves)) fs) ∧
      FinOK cfg (runStages (refStage fixed cfg rs :: restStages cfg ord rs (sk || cfg.fromSaves)) fs).fs := by
  obtain ⟨g0, _, f0, r0⟩ := ref_stage rs h
  refine seq_cons (Q := FinOK cfg) g0 ?_
  apply rest_run wf ord hord rs sk (good_J_acts g0) hskrs
  · intro e; rw [FS.has, f0 _ rfl]; exact hsk e
  · intro e e' e''; rw [FS.has, f0 _ rfl]; exact hnsk e e' e''
  · intro e; exact savesOK_frame (hsv e) (f0 _ rfl) (fun _ => f0 _ rfl) (fun _ => f0 _ rfl)
  · intro e e' c hc; rw [FS.has, f0 _ rfl]; exact hnp0 e e' c hc
  · exact r0

end IsoVerif.Lemmas.Resume
