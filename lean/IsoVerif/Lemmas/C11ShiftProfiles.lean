/-
C11 helper lemmas — translation of `truncate_read_to_polya` and of the profile code (Model/Profiles.lean).
-/
import IsoVerif.Gen.Prims
import IsoVerif.Model.Interval
import IsoVerif.Model.Profiles
import IsoVerif.Model.C11Symmetry
import IsoVerif.Lemmas.C11Shift

namespace IsoVerif.Lemmas.C11
open IsoVerif.Gen IsoVerif.Model IsoVerif.Model.C11

/-! ## Model/Interval.lean: truncate_read_to_polya -/

theorem endIndexLoop_shift (k p : Int) (l : List Iv) (i : Int) :
    endIndexLoop (p + k) (shiftL k l) i = endIndexLoop p l i := by
  induction l generalizing i with
  | nil => rfl
  | cons a t ih => simp only [shiftL_cons, endIndexLoop, shiftIv_fst, ih]; grind

theorem startIndexLoop_shift (k p e : Int) (l : List Iv) (i : Int) :
    startIndexLoop (p + k) e (shiftL k l) i = startIndexLoop p e l i := by
  induction l generalizing i with
  | nil => rfl
  | cons a t ih => simp only [shiftL_cons, startIndexLoop, shiftIv_snd, ih]; grind

/-- the body of `truncate_read_to_polya` after the two index loops -/
def truncTail (exons : List Iv) (f t : Iv) (startIndex endIndex startPos endPos : Int) : Option (List Iv) :=
  if startPos = f.1 ∧ endPos = t.2 then some exons
  else if startIndex = endIndex then some [(startPos, endPos)]
  else
    match pyGet? exons startIndex, pyGet? exons endIndex with
    | some s, some e =>
      some ((startPos, s.2) :: pySlice exons (startIndex + 1) endIndex ++ [(e.1, endPos)])
    | _, _ => none

theorem truncTail_shift (k : Int) (exons : List Iv) (f t : Iv) (si ei sp ep : Int) :
    truncTail (shiftL k exons) (shiftIv k f) (shiftIv k t) si ei (sp + k) (ep + k)
      = (truncTail exons f t si ei sp ep).map (shiftL k) := by
  simp only [truncTail, shiftIv_fst, shiftIv_snd, pyGet?_shiftL, pySlice_shiftL]
  have e1 : (sp + k = f.1 + k ∧ ep + k = t.2 + k) ↔ (sp = f.1 ∧ ep = t.2) := by omega
  simp only [e1]
  generalize pyGet? exons si = g0
  generalize pyGet? exons ei = g1
  by_cases c1 : sp = f.1 ∧ ep = t.2
  · simp [c1]
  · simp only [c1, if_false]
    by_cases c2 : si = ei
    · simp [c2, shiftL, shiftIv]
    · simp only [c2, if_false]
      cases g0 <;> cases g1 <;> simp [shiftL, shiftIv]

theorem truncate_eq (exons : List Iv) (polya polyt : Int) (f t : Iv) (hf : exons.head? = some f) (ht : exons.getLast? = some t) :
    truncateReadToPolya exons polya polyt =
      truncTail exons f t
        (if polyt != -1 then startIndexLoop polyt
            (if polya != -1 then endIndexLoop polya exons.reverse ((exons.length : Int) - 1) else (exons.length : Int) - 1) exons 0 else 0)
        (if polya != -1 then endIndexLoop polya exons.reverse ((exons.length : Int) - 1) else (exons.length : Int) - 1)
        (if polyt != -1 then polyt else f.1) (if polya != -1 then polya else t.2) := by
  simp only [truncateReadToPolya, hf, ht, truncTail]
  rfl


/-! ## Model/Profiles.lean -/

/-- a comparator that only looks at relative positions -/
def ShiftInv (k : Int) (c : Iv → Iv → Bool) : Prop := ∀ a b, c (shiftIv k a) (shiftIv k b) = c a b

theorem markLoop_shift (k : Int) (c : Iv → Iv → Bool) (hc : ShiftInv k c) (tf ks : List Iv) (m : Bool) :
    markLoop c (shiftL k tf) (shiftL k ks) m = markLoop c tf ks m := by
  fun_induction markLoop c tf ks m with
  | case1 feats m => simp [markLoop, shiftL]
  | case2 f tf m => simp [shiftL_nil, shiftL_cons, markLoop]
  | case3 f tf k' ks m h ih =>
    have e := hc f k'
    simp only [shiftL_cons] at ih ⊢
    rw [markLoop]; simp only [e, h, if_true, ih]
  | case4 f tf k' ks h ih =>
    have e := hc f k'
    simp only [shiftL_cons] at ih ⊢
    rw [markLoop]; simp only [e, h, ih]; simp
  | case5 f tf k' ks m h hm ih =>
    have e := hc f k'
    simp only [shiftL_cons] at ih ⊢
    rw [markLoop]; simp only [e, h, hm, ih]; simp

theorem noSweep_shift (k : Int) (c : Iv → Iv → Bool) (hc : ShiftInv k c) (ks : List Iv) (gi : Nat) (rs : List Iv) (ri : Nat)
    (st : NoState) :
    noSweep c (shiftL k ks) gi (shiftL k rs) ri st = noSweep c ks gi rs ri st := by
  fun_induction noSweep c ks gi rs ri st with
  | case1 gi rs ri st => simp [shiftL_nil, noSweep]
  | case2 k' ks gi ri st => simp [shiftL_nil, shiftL_cons, noSweep]
  | case3 k' ks gi r rs ri st h st' ih =>
    have h' : r.2 + k < k'.1 + k := by omega
    simp only [shiftL_cons] at ih ⊢
    rw [noSweep]; simp only [shiftIv_fst, shiftIv_snd, h', if_true]; exact ih
  | case4 k' ks gi r rs ri st h1 h2 st' ih =>
    have h1' : ¬ (r.2 + k < k'.1 + k) := by omega
    have h2' : k'.2 + k < r.1 + k := by omega
    simp only [shiftL_cons] at ih ⊢
    rw [noSweep]; simp only [shiftIv_fst, shiftIv_snd, h1', h2', if_true, if_false]; exact ih
  | case5 k' ks gi r rs ri st h1 h2 st' h3 ih =>
    have h1' : ¬ (r.2 + k < k'.1 + k) := by omega
    have h2' : ¬ (k'.2 + k < r.1 + k) := by omega
    have h3' : r.2 + k < k'.2 + k := by omega
    have e := hc r k'
    simp only [shiftL_cons] at ih ⊢
    rw [noSweep]; simp only [shiftIv_fst, shiftIv_snd, h1', h2', h3', e, if_true, if_false]; exact ih
  | case6 k' ks gi r rs ri st h1 h2 st' h3 ih =>
    have h1' : ¬ (r.2 + k < k'.1 + k) := by omega
    have h2' : ¬ (k'.2 + k < r.1 + k) := by omega
    have h3' : ¬ (r.2 + k < k'.2 + k) := by omega
    have e := hc r k'
    simp only [shiftL_cons] at ih ⊢
    rw [noSweep]; simp only [shiftIv_fst, shiftIv_snd, h1', h2', h3', e, if_true, if_false]; exact ih

theorem intervalBinSearch_shift' (k : Int) (l : List Iv) (p d : Int) :
    intervalBinSearch (shiftL k l) (p + k + d) = intervalBinSearch l (p + d) := by
  have e : p + k + d = (p + d) + k := by omega
  rw [e]
  simp only [intervalBinSearch, shiftL_head?, shiftL_getLast?]
  cases l.head? <;> cases l.getLast? <;> simp only [Option.map_none, Option.map_some]
  simp only [shiftIv_fst, shiftIv_snd, binSearchLoop_shift, shiftL_length]
  grind

theorem intervalBinSearchRev_shift' (k : Int) (l : List Iv) (p d : Int) :
    intervalBinSearchRev (shiftL k l) (p + k - d) = intervalBinSearchRev l (p - d) := by
  have e : p + k - d = (p - d) + k := by omega
  rw [e]
  simp only [intervalBinSearchRev, shiftL_head?, shiftL_getLast?]
  cases l.head? <;> cases l.getLast? <;> simp only [Option.map_none, Option.map_some]
  simp only [shiftIv_fst, shiftIv_snd, binSearchRevLoop_shift, shiftL_length]
  grind

theorem ovSweep_shift (k : Int) (c ab : Iv → Iv → Bool) (hc : ShiftInv k c) (hab : ShiftInv k ab) (mapped : Iv)
    (ks : List Iv) (gi : Nat) (rs : List Iv) (ri : Nat) (st : OvState) :
    ovSweep c ab (shiftIv k mapped) (shiftL k ks) gi (shiftL k rs) ri st = ovSweep c ab mapped ks gi rs ri st := by
  fun_induction ovSweep c ab mapped ks gi rs ri st with
  | case1 gi rs ri st => simp [shiftL_nil, ovSweep]
  | case2 k' ks gi ri st => simp [shiftL_nil, shiftL_cons, ovSweep]
  | case3 k' ks gi r rs ri st h st' ih =>
    have h' : r.2 + k < k'.1 + k := by omega
    simp only [shiftL_cons] at ih ⊢
    rw [ovSweep]; simp only [shiftIv_fst, shiftIv_snd, h', if_true]; exact ih
  | case4 k' ks gi r rs ri st h1 h2 st' ih =>
    have h1' : ¬ (r.2 + k < k'.1 + k) := by omega
    have h2' : k'.2 + k < r.1 + k := by omega
    simp only [shiftL_cons] at ih ⊢
    rw [ovSweep]; simp only [shiftIv_fst, shiftIv_snd, h1', h2', if_true, if_false]; exact ih
  | case5 k' ks gi r rs ri st h1 h2 h3 ih =>
    have h1' : ¬ (r.2 + k < k'.1 + k) := by omega
    have h2' : ¬ (k'.2 + k < r.1 + k) := by omega
    have e := hc r k'
    simp only [shiftL_cons] at ih ⊢
    rw [ovSweep]; simp only [shiftIv_fst, shiftIv_snd, h1', h2', e, h3, if_true, if_false]; exact ih
  | case6 k' ks gi r rs ri st h1 h2 h3 h4 st' ih =>
    have h1' : ¬ (r.2 + k < k'.1 + k) := by omega
    have h2' : ¬ (k'.2 + k < r.1 + k) := by omega
    have e := hc r k'
    have e2 := hab mapped k'
    simp only [shiftL_cons] at ih ⊢
    rw [ovSweep]; simp only [shiftIv_fst, shiftIv_snd, h1', h2', e, h3, overlaps_shift, h4, e2, if_true, if_false]; exact ih
  | case7 k' ks gi r rs ri st h1 h2 h3 h4 =>
    have h1' : ¬ (r.2 + k < k'.1 + k) := by omega
    have h2' : ¬ (k'.2 + k < r.1 + k) := by omega
    have e := hc r k'
    simp only [shiftL_cons]
    rw [ovSweep]; simp only [shiftIv_fst, shiftIv_snd, h1', h2', e, h3, overlaps_shift, h4, if_false]; simp

theorem matchDelta_shift (k : Int) (a b : Iv) : matchDelta (shiftIv k a) (shiftIv k b) = matchDelta a b := by
  simp only [matchDelta, shiftIv, iabs]; grind

theorem foldl_congr_mem {α β} (l : List β) (f g : α → β → α) (a : α) (h : ∀ x ∈ l, ∀ s, f s x = g s x) :
    l.foldl f a = l.foldl g a := by
  induction l generalizing a with
  | nil => rfl
  | cons x t ih =>
    simp only [List.foldl_cons]
    rw [h x (by simp) a]
    exact ih _ (fun y hy s => h y (List.mem_cons_of_mem _ hy) s)

/-- all recorded matches point into the two lists -/
def MatchedInRange (known read : List Iv) (matched : List (Nat × Nat)) : Prop :=
  ∀ p ∈ matched, p.1 < read.length ∧ p.2 < known.length

theorem getD_shiftL (k : Int) (l : List Iv) (i : Nat) (h : i < l.length) :
    (shiftL k l).getD i (0, 0) = shiftIv k (l.getD i (0, 0)) := by
  simp [shiftL, List.getD, h]

theorem ovEliminate_shift (k : Int) (known read : List Iv) (matched : List (Nat × Nat)) (gene : List Int)
    (hm : MatchedInRange known read matched) :
    ovEliminate (shiftL k known) (shiftL k read) matched gene = ovEliminate known read matched gene := by
  simp only [ovEliminate, shiftL_length]
  apply foldl_congr_mem
  intro ri hri g
  have hri' : ri < read.length := by simpa using hri
  have e : (List.map (fun p => p.2) (List.filter (fun p => p.1 == ri) matched)).map
        (fun gi => matchDelta ((shiftL k read).getD ri (0, 0)) ((shiftL k known).getD gi (0, 0)))
      = (List.map (fun p => p.2) (List.filter (fun p => p.1 == ri) matched)).map
        (fun gi => matchDelta (read.getD ri (0, 0)) (known.getD gi (0, 0))) := by
    apply List.map_congr_left
    intro gi hgi
    simp only [List.mem_map, List.mem_filter] at hgi
    obtain ⟨p, ⟨hp, _⟩, rfl⟩ := hgi
    rw [getD_shiftL k read ri hri', getD_shiftL k known p.2 (hm p hp).2, matchDelta_shift]
  simp only [e]

theorem ovSweep_matched_range (c ab : Iv → Iv → Bool) (mapped : Iv) (ks : List Iv) (gi : Nat) (rs : List Iv) (ri : Nat)
    (st : OvState) :
    ∀ p ∈ (ovSweep c ab mapped ks gi rs ri st).matched,
      p ∈ st.matched ∨ (ri ≤ p.1 ∧ p.1 < ri + rs.length ∧ gi ≤ p.2 ∧ p.2 < gi + ks.length) := by
  fun_induction ovSweep c ab mapped ks gi rs ri st with
  | case1 gi rs ri st => intro p hp; left; simpa [ovSweep] using hp
  | case2 k' ks gi ri st => intro p hp; left; simpa [ovSweep] using hp
  | case3 k' ks gi r rs ri st h st' ih =>
    intro p hp
    rcases ih p hp with h1 | h1
    · left
      have : st'.matched = st.matched := by simp only [st']; split <;> rfl
      rwa [this] at h1
    · right; simp only [List.length_cons] at h1 ⊢; omega
  | case4 k' ks gi r rs ri st h1 h2 st' ih =>
    intro p hp
    rcases ih p hp with h3 | h3
    · left
      have : st'.matched = st.matched := by simp only [st']; split <;> rfl
      rwa [this] at h3
    · right; simp only [List.length_cons] at h3 ⊢; omega
  | case5 k' ks gi r rs ri st h1 h2 h3 ih =>
    intro p hp
    rcases ih p hp with h4 | h4
    · simp only [List.mem_append, List.mem_singleton] at h4
      rcases h4 with h4 | h4
      · left; exact h4
      · right; subst h4; simp only [List.length_cons]; omega
    · right; simp only [List.length_cons] at h4 ⊢; omega
  | case6 k' ks gi r rs ri st h1 h2 h3 h4 st' ih =>
    intro p hp
    rcases ih p hp with h5 | h5
    · left
      have : st'.matched = st.matched := by simp only [st']; split <;> rfl
      rwa [this] at h5
    · right; simp only [List.length_cons] at h5 ⊢; omega
  | case7 k' ks gi r rs ri st h1 h2 h3 h4 => intro p hp; left; exact hp


/-! ### GeneInfo.split_exons -/


theorem insertSorted_shift (k x : Int) (l : List Int) :
    insertSorted (x + k) (l.map (· + k)) = (insertSorted x l).map (· + k) := by
  induction l with
  | nil => rfl
  | cons y ys ih =>
    simp only [List.map_cons, insertSorted]
    by_cases h : x ≤ y
    · have h' : x + k ≤ y + k := by omega
      simp [h, h']
    · have h' : ¬ (x + k ≤ y + k) := by omega
      simp [h, h', ih]

theorem sortInts_shift (k : Int) (l : List Int) : sortInts (l.map (· + k)) = (sortInts l).map (· + k) := by
  induction l with
  | nil => rfl
  | cons x xs ih => simp only [List.map_cons, sortInts, ih, insertSorted_shift]

theorem splitTail_shift (k : Int) (ends : List Int) (prev : Option Int) (lb : Int) :
    splitTail (ends.map (· + k)) (prev.map (· + k)) (lb + k) = shiftL k (splitTail ends prev lb) := by
  induction ends generalizing prev lb with
  | nil => rfl
  | cons e es ih =>
    have e1 : e + k + 1 = e + 1 + k := by omega
    have i1 := ih (some e) (e + 1)
    have i2 := ih (some e) lb
    simp only [Option.map_some] at i1 i2
    cases prev with
    | none =>
      simp only [List.map_cons, splitTail, Option.map_none, if_true, e1, i1, shiftL_cons, shiftIv]
    | some p =>
      simp only [List.map_cons, splitTail, Option.map_some]
      by_cases c : e > p
      · have c' : e + k > p + k := by omega
        simp only [c, c', decide_true, if_true, e1, i1, shiftL_cons, shiftIv]
      · have c' : ¬ (e + k > p + k) := by omega
        simp only [c, c', decide_false, i2]; simp

def isNew (prev : Option Int) (x : Int) : Bool :=
  match prev with
  | none => true
  | some p => decide (x > p)

theorem isNew_shift (k : Int) (prev : Option Int) (x : Int) : isNew (prev.map (· + k)) (x + k) = isNew prev x := by
  cases prev with
  | none => rfl
  | some p => simp only [Option.map_some, isNew]; congr 1; apply propext; omega

theorem splitMain_cons_cons (s : Int) (ss : List Int) (e : Int) (es : List Int) (ps pe : Option Int) (state lb : Int) :
    splitMain (s :: ss) (e :: es) ps pe state lb =
      if s ≤ e then
        if isNew ps s then
          (splitMain ss (e :: es) (some s) pe (state + 1) s).map
            (fun r => (if lb != -1 ∧ state > 0 ∧ lb < s then [(lb, s - 1)] else []) ++ r)
        else splitMain ss (e :: es) (some s) pe (state + 1) lb
      else
        if isNew pe e then (splitMain (s :: ss) es ps (some e) (state - 1) (e + 1)).map (fun r => (lb, e) :: r)
        else splitMain (s :: ss) es ps (some e) (state - 1) lb := by
  rw [splitMain.eq_def]
  cases ps <;> cases pe <;> rfl

/-- the border is unset only before anything has been consumed, and then a start comes first -/
def BorderInv (starts ends : List Int) (ps : Option Int) (lb : Int) : Prop :=
  lb ≠ -1 ∨ (ps = none ∧ ∃ s ss e es, starts = s :: ss ∧ ends = e :: es ∧ s ≤ e)

theorem splitMain_shift (k : Int) (starts ends : List Int) (ps pe : Option Int) (state lb : Int)
    (h1 : ∀ s ∈ starts, s ≠ -1 ∧ s + k ≠ -1) (h2 : ∀ e ∈ ends, e + 1 ≠ -1 ∧ e + 1 + k ≠ -1)
    (h3 : lb ≠ -1 → lb + k ≠ -1) (hinv : BorderInv starts ends ps lb) :
    splitMain (starts.map (· + k)) (ends.map (· + k)) (ps.map (· + k)) (pe.map (· + k)) state (shiftPos k lb)
      = (splitMain starts ends ps pe state lb).map (shiftL k) := by
  fun_induction splitMain starts ends ps pe state lb with
  | case1 ends ps pe state lb =>
    have hl : lb ≠ -1 := by
      rcases hinv with h | ⟨_, s, ss, e, es, hs, _⟩
      · exact h
      · simp at hs
    simp only [List.map_nil, splitMain, shiftPos, hl, if_false, splitTail_shift, Option.map_some]
  | case2 s ss ps pe state lb => simp [splitMain]
  | case3 s ss e es ps pe state lb hse hnew blk ih =>
    have hs := h1 s (by simp)
    have ihh := ih (fun x hx => h1 x (List.mem_cons_of_mem _ hx)) h2 (fun _ => hs.2) (Or.inl hs.1)
    have hn : isNew ps s = true := by cases ps <;> simpa [isNew] using hnew
    have hse' : s + k ≤ e + k := by omega
    simp only [List.map_cons, Option.map_some, shiftPos, hs.1, if_false] at ihh ⊢
    rw [splitMain_cons_cons]
    simp only [hse', if_true, isNew_shift, hn, ihh, Option.map_map, blk]
    congr 1; funext r
    simp only [Function.comp, shiftL_append]
    congr 1
    by_cases c : lb = -1
    · simp [c, shiftL]
    · have := h3 c
      simp only [c, this, if_false, bne_iff_ne, ne_eq, not_false_eq_true, true_and]
      by_cases c2 : state > 0 ∧ lb < s
      · have c2' : state > 0 ∧ lb + k < s + k := by omega
        simp [c2, c2', shiftL, shiftIv]; omega
      · have c2' : ¬ (state > 0 ∧ lb + k < s + k) := by omega
        simp [c2, c2', shiftL]
  | case4 s ss e es ps pe state lb hse hnew ih =>
    have hs := h1 s (by simp)
    have hl : lb ≠ -1 := by
      rcases hinv with h | ⟨hps, _⟩
      · exact h
      · subst hps; simp at hnew
    have ihh := ih (fun x hx => h1 x (List.mem_cons_of_mem _ hx)) h2 h3 (Or.inl hl)
    have hn : isNew ps s = false := by cases ps <;> simpa [isNew] using hnew
    have hse' : s + k ≤ e + k := by omega
    simp only [List.map_cons, Option.map_some] at ihh ⊢
    rw [splitMain_cons_cons]
    simp only [hse', if_true, isNew_shift, hn, ihh]; simp
  | case5 s ss e es ps pe state lb hse hnew ih =>
    have he := h2 e (by simp)
    have hl : lb ≠ -1 := by
      rcases hinv with h | ⟨_, s', ss', e', es', hs, hee, hle⟩
      · exact h
      · simp only [List.cons.injEq] at hs hee; omega
    have ihh := ih h1 (fun x hx => h2 x (List.mem_cons_of_mem _ hx)) (fun _ => he.2) (Or.inl he.1)
    have hn : isNew pe e = true := by cases pe <;> simpa [isNew] using hnew
    have hse' : ¬ (s + k ≤ e + k) := by omega
    simp only [List.map_cons, Option.map_some, shiftPos, he.1, if_false] at ihh ⊢
    rw [splitMain_cons_cons]
    have e1 : e + k + 1 = e + 1 + k := by omega
    simp only [hse', if_false, isNew_shift, hn, if_true, e1, ihh, Option.map_map, hl]
    congr 1
  | case6 s ss e es ps pe state lb hse hnew ih =>
    have hl : lb ≠ -1 := by
      rcases hinv with h | ⟨_, s', ss', e', es', hs, hee, hle⟩
      · exact h
      · simp only [List.cons.injEq] at hs hee; omega
    have ihh := ih h1 (fun x hx => h2 x (List.mem_cons_of_mem _ hx)) h3 (Or.inl hl)
    have hn : isNew pe e = false := by cases pe <;> simpa [isNew] using hnew
    have hse' : ¬ (s + k ≤ e + k) := by omega
    simp only [List.map_cons, Option.map_some] at ihh ⊢
    rw [splitMain_cons_cons]
    simp only [hse', if_false, isNew_shift, hn, ihh]; simp

theorem mem_insertSorted (x y : Int) (l : List Int) : y ∈ insertSorted x l ↔ y = x ∨ y ∈ l := by
  induction l with
  | nil => simp [insertSorted]
  | cons z zs ih =>
    simp only [insertSorted]
    split
    · simp
    · simp only [List.mem_cons, ih]; constructor <;> (intro h; rcases h with h | h | h <;> simp [h])

theorem mem_sortInts (y : Int) (l : List Int) : y ∈ sortInts l ↔ y ∈ l := by
  induction l with
  | nil => simp [sortInts]
  | cons x xs ih => simp only [sortInts, mem_insertSorted, ih, List.mem_cons]

theorem insertSorted_head_le (x : Int) (l : List Int) (hl : ∀ h t, l = h :: t → ∀ y ∈ l, h ≤ y) :
    ∀ h t, insertSorted x l = h :: t → ∀ y, (y = x ∨ y ∈ l) → h ≤ y := by
  intro h t heq y hy
  cases l with
  | nil =>
    simp only [insertSorted, List.cons.injEq] at heq
    rcases hy with hy | hy
    · omega
    · simp at hy
  | cons z zs =>
    simp only [insertSorted] at heq
    have hz := hl z zs rfl
    split at heq
    · simp only [List.cons.injEq] at heq
      rcases hy with hy | hy
      · omega
      · have := hz y hy; omega
    · simp only [List.cons.injEq] at heq
      rcases hy with hy | hy
      · omega
      · have := hz y hy; omega

theorem sortInts_head_le (l : List Int) : ∀ h t, sortInts l = h :: t → ∀ y ∈ l, h ≤ y := by
  induction l with
  | nil => intro h t heq; simp [sortInts] at heq
  | cons x xs ih =>
    intro h t heq y hy
    simp only [sortInts] at heq
    have hl : ∀ h t, sortInts xs = h :: t → ∀ y ∈ sortInts xs, h ≤ y := by
      intro h' t' he y' hy'
      exact ih h' t' he y' ((mem_sortInts y' xs).mp hy')
    refine insertSorted_head_le x (sortInts xs) hl h t heq y ?_
    simp only [List.mem_cons] at hy
    rcases hy with hy | hy
    · left; exact hy
    · right; exact (mem_sortInts y xs).mpr hy

end IsoVerif.Lemmas.C11
