/-
C11 helper lemmas — Model/IntronGraph.lean (C04) under a vertex map `f : Iv → Iv`.

The collector and the graph only compare vertices (`=`, `∈`, dictionary lookups), sort them in tuple order and, in
`construct_similar_intron_map`, look at coordinate differences.  So every function commutes with `map f` for an
injective `f` that preserves the tuple order (`ivLe`) and — where needed — coordinate differences (`DiffPres`) or the
kind of a vertex (`isIntronVertex`).  The translation instances are `shiftIv k` (introns only: injective, order- and
difference-preserving for every `k`) and `shiftV k` (terminal vertices keep their negative code: injective, order- and
kind-preserving for `0 ≤ k`; for `k < 0` on states whose intron vertices stay intron vertices, `GoodV`).
-/
import IsoVerif.Model.IntronGraph
import IsoVerif.Model.C11SymGraph
import IsoVerif.Lemmas.C11Shift
import IsoVerif.Lemmas.C11Mirror
import IsoVerif.Lemmas.IntronGraph

namespace IsoVerif.Lemmas.C11.GraphMap
open IsoVerif.Lemmas.C11
open IsoVerif.Gen IsoVerif.Model IsoVerif.Model.C11 IsoVerif.Model.C04
open Function (Injective)

/-! ## association lists, sets, sorting under an injective key map -/

set_option linter.unusedSectionVars false

section generic
variable {α α' β β' : Type} [DecidableEq α] [DecidableEq α']

theorem amGet?_map (f : α → α') (hf : Injective f) (g : β → β') (m : List (α × β)) (k : α) :
    amGet? (m.map (Prod.map f g)) (f k) = (amGet? m k).map g := by
  induction m with
  | nil => rfl
  | cons p t ih =>
    obtain ⟨k', v⟩ := p
    simp only [List.map_cons, Prod.map, amGet?]
    by_cases h : k' = k
    · subst h; simp only [if_true, Option.map_some]
    · have h' : f k' ≠ f k := fun e => h (hf e)
      simp only [h, h', if_false, ih]

theorem amHas_map (f : α → α') (hf : Injective f) (g : β → β') (m : List (α × β)) (k : α) :
    amHas (m.map (Prod.map f g)) (f k) = amHas m k := by
  simp only [amHas, amGet?_map f hf g, Option.isSome_map]

theorem amSet_map (f : α → α') (hf : Injective f) (g : β → β') (m : List (α × β)) (k : α) (v : β) :
    amSet (m.map (Prod.map f g)) (f k) (g v) = (amSet m k v).map (Prod.map f g) := by
  induction m with
  | nil => rfl
  | cons p t ih =>
    obtain ⟨k', v'⟩ := p
    simp only [List.map_cons, Prod.map, amSet]
    by_cases h : k' = k
    · subst h; simp only [if_true, List.map_cons, Prod.map]
    · have h' : f k' ≠ f k := fun e => h (hf e)
      simp only [h, h', if_false, List.map_cons, Prod.map, List.cons.injEq, true_and]
      exact ih

theorem amErase_map (f : α → α') (hf : Injective f) (g : β → β') (m : List (α × β)) (k : α) :
    amErase (m.map (Prod.map f g)) (f k) = (amErase m k).map (Prod.map f g) := by
  unfold amErase
  rw [List.filter_map]
  congr 1
  apply List.filter_congr
  intro p _
  simp only [Function.comp_def, Prod.map, ne_eq, decide_eq_decide]
  exact not_congr ⟨fun e => hf e, fun e => by rw [e]⟩

theorem amKeys_map (f : α → α') (g : β → β') (m : List (α × β)) :
    amKeys (m.map (Prod.map f g)) = (amKeys m).map f := by
  simp only [amKeys, List.map_map]; rfl

theorem amVals_map (f : α → α') (g : β → β') (m : List (α × β)) :
    amVals (m.map (Prod.map f g)) = (amVals m).map g := by
  simp only [amVals, List.map_map]; rfl

theorem cnt_map (f : α → α') (hf : Injective f) (m : List (α × Int)) (k : α) :
    cnt (m.map (Prod.map f id)) (f k) = cnt m k := by
  simp only [cnt, amGet?_map f hf id]
  cases amGet? m k <;> rfl

theorem mem_map_inj (f : α → α') (hf : Injective f) (l : List α) (x : α) : f x ∈ l.map f ↔ x ∈ l := by
  simp only [List.mem_map]
  exact ⟨fun ⟨y, hy, e⟩ => hf e ▸ hy, fun h => ⟨x, h, rfl⟩⟩

theorem decide_mem_map_inj (f : α → α') (hf : Injective f) (l : List α) (x : α) :
    decide (f x ∈ l.map f) = decide (x ∈ l) := by
  rw [decide_eq_decide]; exact mem_map_inj f hf l x

theorem setAdd_map (f : α → α') (hf : Injective f) (s : List α) (x : α) :
    setAdd (s.map f) (f x) = (setAdd s x).map f := by
  unfold setAdd
  by_cases h : x ∈ s
  · have h' : f x ∈ s.map f := (mem_map_inj f hf s x).2 h
    simp only [h, h', if_true]
  · have h' : ¬ f x ∈ s.map f := fun e => h ((mem_map_inj f hf s x).1 e)
    simp only [h, h', if_false, List.map_append, List.map_cons, List.map_nil]

theorem filter_ne_map (f : α → α') (hf : Injective f) (l : List α) (a : α) :
    (l.map f).filter (fun p => decide (p ≠ f a)) = (l.filter (fun p => decide (p ≠ a))).map f := by
  rw [List.filter_map]
  congr 1
  apply List.filter_congr
  intro p _
  simp only [Function.comp_def, ne_eq, decide_eq_decide]
  exact not_congr ⟨fun e => hf e, fun e => by rw [e]⟩

theorem insSorted_map (f : α → α') (le : α → α → Bool) (le' : α' → α' → Bool)
    (hle : ∀ a b, le' (f a) (f b) = le a b) (a : α) (l : List α) :
    insSorted le' (f a) (l.map f) = (insSorted le a l).map f := by
  induction l with
  | nil => rfl
  | cons b t ih =>
    simp only [List.map_cons, insSorted, hle]
    split
    · rfl
    · simp only [List.map_cons, ih]

theorem insSort_map (f : α → α') (le : α → α → Bool) (le' : α' → α' → Bool)
    (hle : ∀ a b, le' (f a) (f b) = le a b) (l : List α) :
    insSort le' (l.map f) = (insSort le l).map f := by
  induction l with
  | nil => rfl
  | cons a t ih => simp only [List.map_cons, insSort, ih, insSorted_map f le le' hle]

theorem prodMap_injective {f : α → α'} {g : β → β'} (hf : Injective f) (hg : Injective g) :
    Injective (Prod.map f g) := by
  intro a b h
  simp only [Prod.map, Prod.mk.injEq] at h
  exact Prod.ext (hf h.1) (hg h.2)

theorem listMap_injective {f : α → α'} (hf : Injective f) : Injective (List.map f) := by
  intro a b h
  induction a generalizing b with
  | nil => cases b <;> simp_all
  | cons x t ih =>
    cases b with
    | nil => simp at h
    | cons y t' =>
      simp only [List.map_cons, List.cons.injEq] at h
      rw [hf h.1, ih h.2]

end generic

theorem foldl_map_comm {σ σ' τ τ' : Type} (F : σ → σ') (G : τ → τ') (step : σ → τ → σ) (step' : σ' → τ' → σ')
    (h : ∀ c x, step' (F c) (G x) = F (step c x)) (l : List τ) (c : σ) :
    (l.map G).foldl step' (F c) = F (l.foldl step c) := by
  induction l generalizing c with
  | nil => rfl
  | cons x t ih => simp only [List.map_cons, List.foldl_cons, h, ih]

/-! ## the hypotheses on a vertex map -/

/-- `f` preserves the tuple order of vertices -/
def LePres (f : Iv → Iv) : Prop := ∀ a b, ivLe (f a) (f b) = ivLe a b
/-- `f` preserves coordinate differences (what `construct_similar_intron_map` looks at) -/
def DiffPres (f : Iv → Iv) : Prop := ∀ a b, (f a).1 - (f b).1 = a.1 - b.1 ∧ (f a).2 - (f b).2 = a.2 - b.2
/-- `f` maps intron vertices to intron vertices and terminal vertices to terminal vertices -/
def KindPres (f : Iv → Iv) : Prop := ∀ v, isIntronVertex (f v) = isIntronVertex v

theorem mapKey_eq {β : Type} (f : Iv → Iv) : (mapKey f : Iv × β → Iv × β) = Prod.map f id := by
  funext p; rfl
theorem mapPair_eq (f : Iv → Iv) : mapPair f = Prod.map f f := by
  funext p; rfl

section keyed
variable {β : Type} (f : Iv → Iv) (hf : Injective f)
include hf

theorem amGet?_mapKey (m : List (Iv × β)) (k : Iv) : amGet? (m.map (mapKey f)) (f k) = amGet? m k := by
  rw [mapKey_eq, amGet?_map f hf id]; cases amGet? m k <;> rfl
theorem amHas_mapKey (m : List (Iv × β)) (k : Iv) : amHas (m.map (mapKey f)) (f k) = amHas m k := by
  rw [mapKey_eq, amHas_map f hf id]
theorem amSet_mapKey (m : List (Iv × β)) (k : Iv) (v : β) :
    amSet (m.map (mapKey f)) (f k) v = (amSet m k v).map (mapKey f) := by
  rw [mapKey_eq]; exact amSet_map f hf id m k v
theorem amErase_mapKey (m : List (Iv × β)) (k : Iv) :
    amErase (m.map (mapKey f)) (f k) = (amErase m k).map (mapKey f) := by
  rw [mapKey_eq, amErase_map f hf id]
theorem cnt_mapKey (m : List (Iv × Int)) (k : Iv) : cnt (m.map (mapKey f)) (f k) = cnt m k := by
  rw [mapKey_eq, cnt_map f hf]

theorem amGet?_mapPair (m : List (Iv × Iv)) (k : Iv) : amGet? (m.map (mapPair f)) (f k) = (amGet? m k).map f := by
  rw [mapPair_eq, amGet?_map f hf f]
theorem amHas_mapPair (m : List (Iv × Iv)) (k : Iv) : amHas (m.map (mapPair f)) (f k) = amHas m k := by
  rw [mapPair_eq, amHas_map f hf f]
theorem amSet_mapPair (m : List (Iv × Iv)) (k v : Iv) :
    amSet (m.map (mapPair f)) (f k) (f v) = (amSet m k v).map (mapPair f) := by
  rw [mapPair_eq, amSet_map f hf f]
theorem amErase_mapPair (m : List (Iv × Iv)) (k : Iv) :
    amErase (m.map (mapPair f)) (f k) = (amErase m k).map (mapPair f) := by
  rw [mapPair_eq, amErase_map f hf f]

theorem mapPair_injective : Injective (mapPair f) := by
  rw [mapPair_eq]; exact prodMap_injective hf hf

end keyed

theorem amKeys_mapKey {β : Type} (f : Iv → Iv) (m : List (Iv × β)) : amKeys (m.map (mapKey f)) = (amKeys m).map f := by
  rw [mapKey_eq, amKeys_map]
theorem amKeys_mapPair (f : Iv → Iv) (m : List (Iv × Iv)) : amKeys (m.map (mapPair f)) = (amKeys m).map f := by
  rw [mapPair_eq, amKeys_map]
theorem amVals_mapPair (f : Iv → Iv) (m : List (Iv × Iv)) : amVals (m.map (mapPair f)) = (amVals m).map f := by
  rw [mapPair_eq, amVals_map]

theorem sortIv_map (f : Iv → Iv) (hle : LePres f) (l : List Iv) : sortIv (l.map f) = (sortIv l).map f :=
  insSort_map f ivLe ivLe hle l

theorem maxIv?_map (f : Iv → Iv) (hle : LePres f) (l : List Iv) : maxIv? (l.map f) = (maxIv? l).map f := by
  induction l with
  | nil => rfl
  | cons a t ih =>
    simp only [List.map_cons, maxIv?, ih]
    cases maxIv? t with
    | none => rfl
    | some b =>
      simp only [Option.map_some, hle a b]
      cases ivLe a b <;> rfl

theorem decide_mem_map_iv (f : Iv → Iv) (hf : Injective f) (l : List Iv) (x : Iv) :
    decide (f x ∈ l.map f) = decide (x ∈ l) :=
  decide_eq_decide.2 (mem_map_inj f hf l x)

/-! ## IntronCollector -/

@[simp] theorem mapRead_introns (f : Iv → Iv) (k : Int) (r : Read) : (mapRead f k r).introns = r.introns.map f := rfl
@[simp] theorem mapRead_exons (f : Iv → Iv) (k : Int) (r : Read) : (mapRead f k r).exons = shiftL k r.exons := rfl
@[simp] theorem mapRead_multimapper (f : Iv → Iv) (k : Int) (r : Read) : (mapRead f k r).multimapper = r.multimapper := rfl
@[simp] theorem mapRead_strand (f : Iv → Iv) (k : Int) (r : Read) : (mapRead f k r).strand = r.strand := rfl
@[simp] theorem mapRead_polya (f : Iv → Iv) (k : Int) (r : Read) : (mapRead f k r).polya = r.polya := rfl
@[simp] theorem mapRead_polyt (f : Iv → Iv) (k : Int) (r : Read) : (mapRead f k r).polyt = r.polyt := rfl

theorem isEmpty_map'' {α β : Type} (f : α → β) (l : List α) : (l.map f).isEmpty = l.isEmpty := by
  cases l <;> rfl

theorem obsIntrons_map (f : Iv → Iv) (k : Int) (reads : List Read) :
    obsIntrons (reads.map (mapRead f k)) = (obsIntrons reads).map f := by
  unfold obsIntrons
  induction reads with
  | nil => rfl
  | cons r t ih =>
    simp only [List.map_cons, List.filter_cons, mapRead_multimapper]
    rcases Bool.eq_false_or_eq_true r.multimapper with h | h
    · simp only [h, Bool.not_true, Bool.false_eq_true, if_false]; exact ih
    · simp only [h, Bool.not_false, if_true, List.flatMap_cons, mapRead_introns, ih, List.map_append]

theorem countAdd_map (f : Iv → Iv) (hf : Injective f) (m : List (Iv × Int)) (k : Iv) :
    countAdd (m.map (mapKey f)) (f k) = (countAdd m k).map (mapKey f) := by
  simp only [countAdd, cnt_mapKey f hf, amSet_mapKey f hf]

theorem collectIntrons_map_aux (f : Iv → Iv) (hf : Injective f) (k : Int) (reads : List Read) (m : List (Iv × Int)) :
    (reads.map (mapRead f k)).foldl
        (fun m r => if r.introns.isEmpty || r.multimapper then m else r.introns.foldl countAdd m) (m.map (mapKey f))
      = (reads.foldl (fun m r => if r.introns.isEmpty || r.multimapper then m else r.introns.foldl countAdd m) m).map
          (mapKey f) := by
  apply foldl_map_comm (List.map (mapKey f)) (mapRead f k)
  intro c r
  simp only [mapRead_introns, mapRead_multimapper, isEmpty_map'']
  split
  · rfl
  · exact foldl_map_comm (List.map (mapKey f)) f countAdd countAdd (fun c x => countAdd_map f hf c x) r.introns c

theorem collectIntrons_map (f : Iv → Iv) (hf : Injective f) (k : Int) (reads : List Read) :
    C04.collectIntrons (reads.map (mapRead f k)) = (C04.collectIntrons reads).map (mapKey f) :=
  collectIntrons_map_aux f hf k reads []

theorem simAfter_map (f : Iv → Iv) (hd : DiffPres f) (δ : Int) (x : Iv) (rest : List Iv) :
    simAfter δ (f x) (rest.map f) = (simAfter δ x rest).map f := by
  unfold simAfter
  rw [List.takeWhile_map, List.filter_map]
  have e1 : ((fun o : Iv => decide (iabs (o.1 - (f x).1) ≤ δ)) ∘ f) = (fun o : Iv => decide (iabs (o.1 - x.1) ≤ δ)) := by
    funext o; simp only [Function.comp_def, (hd o x).1]
  have e2 : ((fun o : Iv => decide (iabs (o.2 - (f x).2) ≤ δ)) ∘ f) = (fun o : Iv => decide (iabs (o.2 - x.2) ≤ δ)) := by
    funext o; simp only [Function.comp_def, (hd o x).2]
  rw [e1, e2]

theorem simPairs_map (f : Iv → Iv) (hd : DiffPres f) (δ : Int) (l : List Iv) :
    simPairs δ (l.map f) = (simPairs δ l).map (mapPair f) := by
  induction l with
  | nil => rfl
  | cons x rest ih =>
    simp only [List.map_cons, simPairs, simAfter_map f hd, ih, List.map_append, List.map_map]
    rfl

theorem similarOf_map (f : Iv → Iv) (hf : Injective f) (pairs : List (Iv × Iv)) (x : Iv) :
    similarOf (pairs.map (mapPair f)) (f x) = (similarOf pairs x).map f := by
  unfold similarOf
  induction pairs with
  | nil => rfl
  | cons p t ih =>
    simp only [List.map_cons, List.filterMap_cons, mapPair]
    by_cases h1 : p.1 = x
    · have h1' : f p.1 = f x := by rw [h1]
      simp only [h1, if_true, List.map_cons] at ih ⊢
      rw [ih]
    · have h1' : f p.1 ≠ f x := fun e => h1 (hf e)
      by_cases h2 : p.2 = x
      · have h2' : f p.2 = f x := by rw [h2]
        simp only [h1, h1', h2, if_true, if_false, List.map_cons] at ih ⊢
        rw [ih]
      · have h2' : f p.2 ≠ f x := fun e => h2 (hf e)
        simp only [h1, h1', h2, h2', if_false] at ih ⊢
        exact ih

/-- `(count, intron)` records -/
def mapCI (f : Iv → Iv) (ci : Int × Iv) : Int × Iv := (ci.1, f ci.2)

theorem ciLe_map (f : Iv → Iv) (hle : LePres f) (a b : Int × Iv) : ciLe (mapCI f a) (mapCI f b) = ciLe a b := by
  unfold ciLe mapCI
  rw [hle a.2 b.2]

theorem sortedByCount_map (f : Iv → Iv) (hle : LePres f) (all : List (Iv × Int)) :
    sortedByCount (all.map (mapKey f)) = (sortedByCount all).map (mapCI f) := by
  unfold sortedByCount
  have : (all.map (mapKey f)).map (fun p => (p.2, p.1)) = (all.map (fun p => (p.2, p.1))).map (mapCI f) := by
    simp only [List.map_map]; rfl
  rw [this, insSort_map (mapCI f) ciLe ciLe (ciLe_map f hle), List.map_reverse]

theorem mapCollector_clustered (f : Iv → Iv) (c : Collector) :
    (mapCollector f c).clustered = c.clustered.map (mapKey f) := rfl
theorem mapCollector_known (f : Iv → Iv) (c : Collector) : (mapCollector f c).known = c.known.map f := rfl
theorem mapCollector_corr (f : Iv → Iv) (c : Collector) : (mapCollector f c).corr = c.corr.map (mapPair f) := rfl
theorem mapCollector_discarded (f : Iv → Iv) (c : Collector) : (mapCollector f c).discarded = c.discarded.map f := rfl

theorem filter_amHas_map {β : Type} (f : Iv → Iv) (hf : Injective f) (m : List (Iv × β)) (l : List Iv) :
    (l.map f).filter (fun s => amHas (m.map (mapKey f)) s) = (l.filter (fun s => amHas m s)).map f := by
  rw [List.filter_map]
  congr 1
  apply List.filter_congr
  intro s _
  simp only [Function.comp_def, amHas_mapKey f hf]

theorem clusterStep_map (f : Iv → Iv) (hf : Injective f) (hle : LePres f) (pairs : List (Iv × Iv)) (minCount : Int)
    (c : Collector) (ci : Int × Iv) :
    clusterStep (pairs.map (mapPair f)) minCount (mapCollector f c) (mapCI f ci)
      = mapCollector f (clusterStep pairs minCount c ci) := by
  obtain ⟨count, intron⟩ := ci
  simp only [clusterStep, mapCI, mapCollector_known, mapCollector_clustered, mem_map_inj f hf,
    similarOf_map f hf, filter_amHas_map f hf, maxIv?_map f hle]
  by_cases hk : intron ∈ c.known
  · simp only [hk, if_true, amSet_mapKey f hf]; rfl
  · simp only [hk, if_false]
    by_cases hs : similarOf pairs intron = []
    · have hs' : ¬ (List.map f (similarOf pairs intron) ≠ []) := by simp [hs]
      have hs'' : ¬ (similarOf pairs intron ≠ []) := by simp [hs]
      simp only [hs', hs'', if_false]
      by_cases hc : count < minCount
      · simp only [hc, if_true, mapCollector, setAdd_map f hf]
      · simp only [hc, if_false, amSet_mapKey f hf]; rfl
    · have hs' : List.map f (similarOf pairs intron) ≠ [] := by simpa using hs
      simp only [hs', hs, ne_eq, not_false_eq_true, if_true]
      cases maxIv? ((similarOf pairs intron).filter (fun s => amHas c.clustered s)) with
      | none => simp only [Option.map_none, amSet_mapKey f hf]; rfl
      | some s =>
        simp only [Option.map_some, cnt_mapKey f hf, amSet_mapKey f hf, mapCollector_corr, amSet_mapPair f hf]
        rfl

theorem clusterIntrons_map (f : Iv → Iv) (hf : Injective f) (hle : LePres f) (hd : DiffPres f) (c : Collector) (δ : Int)
    (all : List (Iv × Int)) (minCount : Int) :
    clusterIntrons (mapCollector f c) δ (all.map (mapKey f)) minCount
      = mapCollector f (clusterIntrons c δ all minCount) := by
  unfold clusterIntrons
  rw [sortedByCount_map f hle, amKeys_mapKey, sortIv_map f hle, simPairs_map f hd]
  exact foldl_map_comm (mapCollector f) (mapCI f) _ _ (fun c x => clusterStep_map f hf hle _ minCount c x) _ c

theorem collectorProcess_map (f : Iv → Iv) (hf : Injective f) (hle : LePres f) (hd : DiffPres f) (k : Int)
    (known : List Iv) (δ : Int) (reads : List Read) (minCount : Int) :
    collectorProcess (known.map f) δ (reads.map (mapRead f k)) minCount
      = mapCollector f (collectorProcess known δ reads minCount) := by
  unfold collectorProcess
  rw [collectIntrons_map f hf]
  exact clusterIntrons_map f hf hle hd (Collector.empty known) δ _ minCount


/-! ## collector operations used by the graph -/

theorem addSubstitute_map (f : Iv → Iv) (hf : Injective f) (c : Collector) (o s : Iv) :
    (mapCollector f c).addSubstitute (f o) (f s) = mapCollector f (c.addSubstitute o s) := by
  simp only [Collector.addSubstitute, mapCollector_clustered, mapCollector_corr, cnt_mapKey f hf, amSet_mapKey f hf,
    amErase_mapKey f hf, amSet_mapPair f hf]
  rfl

theorem discard_map (f : Iv → Iv) (hf : Injective f) (c : Collector) (i : Iv) :
    (mapCollector f c).discard (f i) = mapCollector f (c.discard i) := by
  simp only [Collector.discard, mapCollector_clustered, mapCollector_discarded, setAdd_map f hf, amErase_mapKey f hf]
  rfl

theorem touch_map (f : Iv → Iv) (hf : Injective f) (c : Collector) (v : Iv) :
    (mapCollector f c).touch (f v) = mapCollector f (c.touch v) := by
  simp only [Collector.touch, mapCollector_clustered, amHas_mapKey f hf, amSet_mapKey f hf]
  cases amHas c.clustered v <;> rfl

theorem substitute_map (f : Iv → Iv) (hf : Injective f) (c : Collector) (v : Iv) :
    (mapCollector f c).substitute (f v) = f (c.substitute v) := by
  simp only [Collector.substitute, mapCollector_corr, amGet?_mapPair f hf]
  cases amGet? c.corr v <;> rfl

theorem chase_map (f : Iv → Iv) (hf : Injective f) (m : List (Iv × Iv)) (fuel : Nat) (s : Iv) :
    chase (m.map (mapPair f)) fuel (f s) = (chase m fuel s).map f := by
  induction fuel generalizing s with
  | zero => rfl
  | succ n ih =>
    simp only [chase, amGet?_mapPair f hf]
    cases amGet? m s with
    | none => rfl
    | some s' => exact ih s'

/-- state of the first loop of `simplify_correction_map` -/
def mapSt (f : Iv → Iv) (st : List (Iv × Iv) × List Iv) : List (Iv × Iv) × List Iv :=
  (st.1.map (mapPair f), st.2.map f)

theorem simplifyStep_map (f : Iv → Iv) (hf : Injective f) (disc : List Iv) (st : List (Iv × Iv) × List Iv) (i : Iv) :
    simplifyStep (disc.map f) (mapSt f st) (f i) = (simplifyStep disc st i).map (mapSt f) := by
  obtain ⟨m, rem⟩ := st
  simp only [simplifyStep, mapSt, amGet?_mapPair f hf, List.length_map]
  cases amGet? m i with
  | none => rfl
  | some subs =>
    simp only [Option.map_some, mem_map_inj f hf, amHas_mapPair f hf, chase_map f hf, setAdd_map f hf]
    by_cases h1 : subs ∈ disc
    · simp only [h1, if_true, Option.map_some, mapSt]
    · simp only [h1, if_false]
      rcases Bool.eq_false_or_eq_true (amHas m subs) with h2 | h2
      · simp only [h2, Bool.not_true, Bool.false_eq_true, if_false]
        cases chase m (m.length + 1) subs with
        | none => rfl
        | some e =>
          simp only [Option.map_some, mem_map_inj f hf, amSet_mapPair f hf]
          by_cases h3 : e ∈ disc
          · simp only [h3, if_true, Option.map_some, mapSt]
          · simp only [h3, if_false, Option.map_some, mapSt]
      · simp only [h2, Bool.not_false, if_true, Option.map_some, mapSt]

theorem simplifyLoop_map (f : Iv → Iv) (hf : Injective f) (disc : List Iv) (l : List Iv)
    (st : List (Iv × Iv) × List Iv) :
    simplifyLoop (disc.map f) (l.map f) (mapSt f st) = (simplifyLoop disc l st).map (mapSt f) := by
  induction l generalizing st with
  | nil => rfl
  | cons i t ih =>
    simp only [List.map_cons, simplifyLoop, simplifyStep_map f hf]
    cases simplifyStep disc st i with
    | none => rfl
    | some st' => exact ih st'

theorem simplifyCorrectionMap_map (f : Iv → Iv) (hf : Injective f) (hle : LePres f) (c : Collector) :
    (mapCollector f c).simplifyCorrectionMap = (c.simplifyCorrectionMap).map (mapCollector f) := by
  have hl := simplifyLoop_map f hf c.discarded (sortIv (amKeys c.corr)) (c.corr, [])
  simp only [Collector.simplifyCorrectionMap, mapCollector_corr, mapCollector_discarded, amKeys_mapPair,
    sortIv_map f hle]
  simp only [mapSt, List.map_nil] at hl
  rw [hl]
  cases simplifyLoop c.discarded (sortIv (amKeys c.corr)) (c.corr, []) with
  | none => rfl
  | some st =>
    obtain ⟨m, rem⟩ := st
    simp only [Option.map_some, mapSt]
    congr 1
    exact foldl_map_comm (mapCollector f) f
      (fun c i => { c.discard i with corr := amErase (c.discard i).corr i })
      (fun c i => { c.discard i with corr := amErase (c.discard i).corr i })
      (fun c i => by
        simp only [discard_map f hf, mapCollector_corr, amErase_mapPair f hf]
        rfl) rem { c with corr := m }


/-! ## IntronGraph operations -/

theorem mapPair_mk (f : Iv → Iv) (a b : Iv) : mapPair f (a, b) = (f a, f b) := rfl

theorem mapGraph_out (f : Iv → Iv) (g : Graph) : (mapGraph f g).out = g.out.map (mapPair f) := rfl
theorem mapGraph_inc (f : Iv → Iv) (g : Graph) : (mapGraph f g).inc = g.inc.map (mapPair f) := rfl
theorem mapGraph_col (f : Iv → Iv) (g : Graph) : (mapGraph f g).col = mapCollector f g.col := rfl

theorem filter_key_eq_map (f : Iv → Iv) (hf : Injective f) (m : List (Iv × Iv)) (v : Iv) :
    (m.map (mapPair f)).filter (fun p => decide (p.1 = f v)) = (m.filter (fun p => decide (p.1 = v))).map (mapPair f) := by
  rw [List.filter_map]
  congr 1
  apply List.filter_congr
  intro p _
  simp only [Function.comp_def, mapPair]
  exact decide_eq_decide.2 ⟨fun e => hf e, fun e => by rw [e]⟩

theorem filter_key_ne_map (f : Iv → Iv) (hf : Injective f) (m : List (Iv × Iv)) (v : Iv) :
    (m.map (mapPair f)).filter (fun p => decide (p.1 ≠ f v)) = (m.filter (fun p => decide (p.1 ≠ v))).map (mapPair f) := by
  rw [List.filter_map]
  congr 1
  apply List.filter_congr
  intro p _
  simp only [Function.comp_def, mapPair, ne_eq]
  exact decide_eq_decide.2 (not_congr ⟨fun e => hf e, fun e => by rw [e]⟩)

theorem members_map (f : Iv → Iv) (hf : Injective f) (m : List (Iv × Iv)) (v : Iv) :
    ((m.map (mapPair f)).filter (fun p => decide (p.1 = f v))).map (·.2)
      = ((m.filter (fun p => decide (p.1 = v))).map (·.2)).map f := by
  rw [filter_key_eq_map f hf, List.map_map, List.map_map]
  rfl

theorem outOf_map (f : Iv → Iv) (hf : Injective f) (g : Graph) (v : Iv) :
    outOf (mapGraph f g) (f v) = (outOf g v).map f := members_map f hf g.out v
theorem incOf_map (f : Iv → Iv) (hf : Injective f) (g : Graph) (v : Iv) :
    incOf (mapGraph f g) (f v) = (incOf g v).map f := members_map f hf g.inc v

theorem setAdd_mapPair (f : Iv → Iv) (hf : Injective f) (m : List (Iv × Iv)) (a b : Iv) :
    setAdd (m.map (mapPair f)) (f a, f b) = (setAdd m (a, b)).map (mapPair f) :=
  setAdd_map (mapPair f) (mapPair_injective f hf) m (a, b)

theorem addEdge_map (f : Iv → Iv) (hf : Injective f) (g : Graph) (v1 v2 : Iv) :
    (mapGraph f g).addEdge (f v1) (f v2) = mapGraph f (g.addEdge v1 v2) := by
  simp only [Graph.addEdge, mapGraph_col, mapGraph_out, mapGraph_inc, substitute_map f hf, setAdd_mapPair f hf]
  rfl

theorem replaceMember_map (f : Iv → Iv) (hf : Injective f) (m : List (Iv × Iv)) (k c s : Iv) :
    replaceMember (m.map (mapPair f)) (f k) (f c) (f s) = (replaceMember m k c s).map (List.map (mapPair f)) := by
  unfold replaceMember
  have hmem : (f k, f c) ∈ m.map (mapPair f) ↔ (k, c) ∈ m := mem_map_inj (mapPair f) (mapPair_injective f hf) m (k, c)
  have hfil := filter_ne_map (mapPair f) (mapPair_injective f hf) m (k, c)
  rw [mapPair_mk] at hfil
  by_cases h : (k, c) ∈ m
  · have h' := hmem.2 h
    simp only [h, h', if_true, Option.map_some, hfil, setAdd_mapPair f hf]
  · have h' : ¬ (f k, f c) ∈ m.map (mapPair f) := fun e => h (hmem.1 e)
    simp only [h, h', if_false, Option.map_none]

theorem replaceMembers_map (f : Iv → Iv) (hf : Injective f) (m : List (Iv × Iv)) (c s : Iv) (ks : List Iv) :
    replaceMembers (m.map (mapPair f)) (f c) (f s) (ks.map f) = (replaceMembers m c s ks).map (List.map (mapPair f)) := by
  induction ks generalizing m with
  | nil => rfl
  | cons k t ih =>
    simp only [List.map_cons, replaceMembers, replaceMember_map f hf]
    cases replaceMember m k c s with
    | none => rfl
    | some m' => exact ih m'

theorem foldl_setAdd_map (f : Iv → Iv) (hf : Injective f) (s : Iv) (l : List Iv) (m : List (Iv × Iv)) :
    (l.map f).foldl (fun m i => setAdd m (f s, i)) (m.map (mapPair f))
      = (l.foldl (fun m i => setAdd m (s, i)) m).map (mapPair f) :=
  foldl_map_comm (List.map (mapPair f)) f (fun m i => setAdd m (s, i)) (fun m i => setAdd m (f s, i))
    (fun m i => setAdd_mapPair f hf m s i) l m

theorem collapseVertex_map (f : Iv → Iv) (hf : Injective f) (g : Graph) (c s : Iv) :
    (mapGraph f g).collapseVertex (f c) (f s) = (g.collapseVertex c s).map (mapGraph f) := by
  simp only [Graph.collapseVertex, outOf_map f hf, mapGraph_inc, mapGraph_out, mapGraph_col, replaceMembers_map f hf,
    foldl_setAdd_map f hf]
  cases replaceMembers g.inc c s (outOf g c) with
  | none => rfl
  | some inc1 =>
    simp only [Option.map_some, members_map f hf, foldl_setAdd_map f hf, replaceMembers_map f hf]
    cases replaceMembers (List.foldl (fun m i => setAdd m (s, i)) g.out (outOf g c)) c s
        (List.map (fun x => x.2) (List.filter (fun p => decide (p.1 = c)) inc1)) with
    | none => rfl
    | some out2 =>
      simp only [Option.map_some, addSubstitute_map f hf]
      rfl

theorem delVertex_map (f : Iv → Iv) (hf : Injective f) (g : Graph) (v : Iv) :
    (mapGraph f g).delVertex (f v) = mapGraph f (g.delVertex v) := by
  simp only [Graph.delVertex, mapGraph_out, mapGraph_inc, filter_key_ne_map f hf]
  rfl

theorem applyOp_map (f : Iv → Iv) (hf : Injective f) (hle : LePres f) (g : Graph) (op : Op) :
    applyOp (mapGraph f g) (mapOp f op) = (applyOp g op).map (mapGraph f) := by
  cases op with
  | addEdge v1 v2 => simp only [mapOp, applyOp, addEdge_map f hf, Option.map_some]
  | collapse c s => exact collapseVertex_map f hf g c s
  | delVertex v => simp only [mapOp, applyOp, delVertex_map f hf, Option.map_some]
  | delOut v => simp only [mapOp, applyOp, mapGraph_out, filter_key_ne_map f hf, Option.map_some]; rfl
  | delInc v => simp only [mapOp, applyOp, mapGraph_inc, filter_key_ne_map f hf, Option.map_some]; rfl
  | discard v => simp only [mapOp, applyOp, mapGraph_col, discard_map f hf, Option.map_some]; rfl
  | touch v => simp only [mapOp, applyOp, mapGraph_col, touch_map f hf, Option.map_some]; rfl
  | simplifyMap =>
    simp only [mapOp, applyOp, mapGraph_col, simplifyCorrectionMap_map f hf hle, Option.map_map]
    rfl
  | attachOut v t => simp only [mapOp, applyOp, mapGraph_out, setAdd_mapPair f hf, Option.map_some]; rfl
  | attachInc v t => simp only [mapOp, applyOp, mapGraph_inc, setAdd_mapPair f hf, Option.map_some]; rfl

/-! ## scoping, histories -/

theorem collectorVerts_map (f : Iv → Iv) (c : Collector) : (mapCollector f c).verts = c.verts.map f := by
  simp only [Collector.verts, mapCollector_clustered, mapCollector_corr, mapCollector_discarded, amKeys_mapKey,
    amKeys_mapPair, amVals_mapPair, List.map_append]

theorem graphVerts_map (f : Iv → Iv) (hk : KindPres f) (g : Graph) : (mapGraph f g).verts = g.verts.map f := by
  simp only [Graph.verts, mapGraph_col, mapGraph_out, mapGraph_inc, collectorVerts_map, amKeys_mapPair, amVals_mapPair]
  rw [← List.map_append, ← List.map_append, ← List.map_append, List.filter_map, List.map_append]
  congr 2
  apply List.filter_congr
  intro v _
  exact hk v

theorem opScoped_map (f : Iv → Iv) (hf : Injective f) (hk : KindPres f) (obs : List Iv) (g : Graph) (op : Op) :
    opScoped (obs.map f) (mapGraph f g) (mapOp f op) = opScoped obs g op := by
  cases op <;>
    simp only [mapOp, opScoped, graphVerts_map f hk, decide_mem_map_iv f hf, hk _]

theorem opScoped_addEdge_map (f : Iv → Iv) (hf : Injective f) (obs : List Iv) (g : Graph) (v1 v2 : Iv) :
    opScoped (obs.map f) (mapGraph f g) (mapOp f (.addEdge v1 v2)) = opScoped obs g (.addEdge v1 v2) := by
  simp only [mapOp, opScoped, decide_mem_map_iv f hf]

/-- only `add_edge` operations -/
def AddEdgesOnly (ops : List Op) : Prop := ∀ op ∈ ops, ∃ a b, op = Op.addEdge a b

theorem runOps_map_of (f : Iv → Iv) (hf : Injective f) (hle : LePres f) (obs : List Iv) (ops : List Op)
    (hsc : ∀ g, ∀ op ∈ ops, opScoped (obs.map f) (mapGraph f g) (mapOp f op) = opScoped obs g op) (g : Graph) :
    runOps (obs.map f) (mapGraph f g) (ops.map (mapOp f)) = (runOps obs g ops).map (mapGraph f) := by
  induction ops generalizing g with
  | nil => rfl
  | cons op t ih =>
    have ih' := ih (fun g op h => hsc g op (List.mem_cons_of_mem _ h))
    simp only [List.map_cons, runOps, hsc g op (List.mem_cons_self ..), applyOp_map f hf hle]
    cases opScoped obs g op with
    | false => rfl
    | true =>
      simp only [if_true]
      cases applyOp g op with
      | none => rfl
      | some g' => exact ih' g'

theorem runOps_map (f : Iv → Iv) (hf : Injective f) (hle : LePres f) (hk : KindPres f) (obs : List Iv) (g : Graph)
    (ops : List Op) :
    runOps (obs.map f) (mapGraph f g) (ops.map (mapOp f)) = (runOps obs g ops).map (mapGraph f) :=
  runOps_map_of f hf hle obs ops (fun g op _ => opScoped_map f hf hk obs g op) g

theorem runOps_addEdges_map (f : Iv → Iv) (hf : Injective f) (hle : LePres f) (obs : List Iv) (g : Graph)
    (ops : List Op) (ha : AddEdgesOnly ops) :
    runOps (obs.map f) (mapGraph f g) (ops.map (mapOp f)) = (runOps obs g ops).map (mapGraph f) :=
  runOps_map_of f hf hle obs ops (fun g op h => by
    obtain ⟨a, b, e⟩ := ha op h
    subst e
    exact opScoped_addEdge_map f hf obs g a b) g

theorem readEdgeOps_map (f : Iv → Iv) (l : List Iv) : readEdgeOps (l.map f) = (readEdgeOps l).map (mapOp f) := by
  fun_induction readEdgeOps l with
  | case1 => rfl
  | case2 a => rfl
  | case3 a b t ih =>
    simp only [List.map_cons, readEdgeOps, mapOp, List.cons.injEq, true_and] at ih ⊢
    exact ih

theorem readEdgeOps_addEdges (l : List Iv) : AddEdgesOnly (readEdgeOps l) := by
  fun_induction readEdgeOps l with
  | case1 => intro op h; cases h
  | case2 a => intro op h; cases h
  | case3 a b t ih =>
    intro op h
    rw [List.mem_cons] at h
    rcases h with h | h
    · exact ⟨a, b, h⟩
    · exact ih op h

theorem constructOps_addEdges (col : Collector) (reads : List Read) : AddEdgesOnly (constructOps col reads) := by
  intro op h
  simp only [constructOps, List.mem_flatMap] at h
  obtain ⟨r, _, hr⟩ := h
  split at hr
  · cases hr
  · exact readEdgeOps_addEdges r.introns op hr

theorem any_discarded_map (f : Iv → Iv) (hf : Injective f) (d l : List Iv) :
    (l.map f).any (fun i => decide (i ∈ d.map f)) = l.any (fun i => decide (i ∈ d)) := by
  simp only [List.any_map, Function.comp_def, decide_mem_map_iv f hf]

theorem constructOps_step_map (f : Iv → Iv) (hf : Injective f) (k : Int) (col : Collector) (r : Read) :
    (if (mapRead f k r).multimapper || (mapRead f k r).introns.any (fun i => decide (i ∈ (mapCollector f col).discarded))
      then [] else readEdgeOps (mapRead f k r).introns)
    = (if r.multimapper || r.introns.any (fun i => decide (i ∈ col.discarded)) then []
        else readEdgeOps r.introns).map (mapOp f) := by
  rw [mapRead_multimapper, mapRead_introns, mapCollector_discarded, any_discarded_map f hf, readEdgeOps_map,
    apply_ite (List.map (mapOp f)), List.map_nil]

theorem constructOps_map (f : Iv → Iv) (hf : Injective f) (k : Int) (col : Collector) (reads : List Read) :
    constructOps (mapCollector f col) (reads.map (mapRead f k)) = (constructOps col reads).map (mapOp f) := by
  unfold constructOps
  induction reads with
  | nil => rfl
  | cons r t ih =>
    rw [List.map_cons, List.flatMap_cons, List.flatMap_cons, List.map_append, ih]
    congr 1
    exact constructOps_step_map f hf k col r

theorem constructed_map (f : Iv → Iv) (hf : Injective f) (hle : LePres f) (hd : DiffPres f) (k : Int)
    (known : List Iv) (δ : Int) (reads : List Read) (minCount : Int) :
    Graph.constructed (known.map f) δ (reads.map (mapRead f k)) minCount
      = (Graph.constructed known δ reads minCount).map (mapGraph f) := by
  simp only [Graph.constructed, Graph.init, collectorProcess_map f hf hle hd, obsIntrons_map, constructOps_map f hf]
  exact runOps_addEdges_map f hf hle (obsIntrons reads) ⟨collectorProcess known δ reads minCount, [], []⟩ _
    (constructOps_addEdges _ reads)


/-! ## IntronPathProcessor.thread_introns, IntronPathStorage.fill -/

theorem threadIntrons_map (f : Iv → Iv) (hf : Injective f) (c : Collector) (l : List Iv) :
    threadIntrons (mapCollector f c) (l.map f) = (threadIntrons c l).map (List.map f) := by
  induction l with
  | nil => rfl
  | cons i t ih =>
    simp only [List.map_cons, threadIntrons, mapCollector_discarded, mem_map_inj f hf, ih, substitute_map f hf]
    by_cases h : i ∈ c.discarded
    · simp only [h, if_true, Option.map_none]
    · simp only [h, if_false]
      cases threadIntrons c t <;> rfl

/-- the terminal codes `fill` looks at are kept by `f` -/
def CodePres (f : Iv → Iv) : Prop :=
  ∀ v, ((f v).1 = VERTEX_polya ↔ v.1 = VERTEX_polya) ∧ ((f v).1 = VERTEX_polyt ↔ v.1 = VERTEX_polyt)

def mapPath (f : Iv → Iv) (x : List Iv × Bool) : List Iv × Bool := (x.1.map f, x.2)

/-- the path and the full-length flag `fill` assembles from the threaded introns and the two chosen end vertices -/
def assemblePath (path : List Iv) (te ts : Option Iv) (rp : Bool) : List Iv × Bool :=
  let path1 := match te with | some v => path ++ [v] | none => path
  let path2 := match ts with | some v => v :: path1 | none => path1
  let fl := match te, ts with
    | some tv, some sv => !rp || decide (tv.1 = VERTEX_polya) || decide (sv.1 = VERTEX_polyt)
    | _, _ => false
  (path2, fl)

theorem assemblePath_map (f : Iv → Iv) (hc : CodePres f) (path : List Iv) (te ts : Option Iv) (rp : Bool) :
    assemblePath (path.map f) (te.map f) (ts.map f) rp = mapPath f (assemblePath path te ts rp) := by
  cases te with
  | none => cases ts <;> simp [assemblePath, mapPath]
  | some tv =>
    cases ts with
    | none => simp [assemblePath, mapPath]
    | some sv => simp [assemblePath, mapPath, (hc tv).1, (hc sv).2]

theorem readPath_eq (g : Graph) (p : ThreadParams) (a : Read) :
    readPath g p a =
      if a.multimapper then none
      else match threadIntrons g.col a.introns with
        | none => none
        | some [] => none
        | some (i :: t) =>
          match a.exons.head?, a.exons.getLast?, (i :: t).getLast? with
          | some firstExon, some lastExon, some lastIntron =>
            some (assemblePath (i :: t) (p.ends lastIntron lastExon.2 (decide (a.strand = "+") && a.polya))
              (p.starts i firstExon.1 (decide (a.strand = "-") && a.polyt)) p.requiresPolya)
          | _, _, _ => none := by
  unfold readPath assemblePath
  rfl

theorem readPath_map (f : Iv → Iv) (hf : Injective f) (hc : CodePres f) (k : Int) (p p' : ThreadParams)
    (hp : ParamsRel f k p p') (g : Graph) (a : Read) :
    readPath (mapGraph f g) p' (mapRead f k a) = (readPath g p a).map (mapPath f) := by
  obtain ⟨he, hs, hr⟩ := hp
  rw [readPath_eq, readPath_eq]
  simp only [mapRead_multimapper, mapRead_introns, mapRead_exons, mapRead_strand, mapRead_polya, mapRead_polyt,
    mapGraph_col, threadIntrons_map f hf, shiftL_head?, shiftL_getLast?]
  rcases Bool.eq_false_or_eq_true a.multimapper with hm | hm
  · simp only [hm, if_true, Option.map_none]
  · simp only [hm, Bool.false_eq_true, if_false]
    cases threadIntrons g.col a.introns with
    | none => rfl
    | some path =>
      cases path with
      | nil => rfl
      | cons i t =>
        simp only [Option.map_some, List.map_cons]
        rw [← List.map_cons, List.getLast?_map]
        cases a.exons.head? with
        | none => rfl
        | some fe =>
          cases a.exons.getLast? with
          | none => rfl
          | some le =>
            cases (i :: t).getLast? with
            | none => rfl
            | some li =>
              simp only [Option.map_some, shiftIv_fst, shiftIv_snd, he, hs, hr, List.map_cons]
              rw [← List.map_cons, assemblePath_map f hc]
              rfl

theorem amGet?_paths_map {β β' : Type} (f : Iv → Iv) (hf : Injective f) (g : β → β') (m : List (List Iv × β))
    (path : List Iv) :
    amGet? (m.map (fun p => (p.1.map f, g p.2))) (path.map f) = (amGet? m path).map g :=
  amGet?_map (List.map f) (listMap_injective hf) g m path

theorem amSet_paths_map {β β' : Type} (f : Iv → Iv) (hf : Injective f) (g : β → β') (m : List (List Iv × β))
    (path : List Iv) (v : β) :
    amSet (m.map (fun p => (p.1.map f, g p.2))) (path.map f) (g v) = (amSet m path v).map (fun p => (p.1.map f, g p.2)) :=
  amSet_map (List.map f) (listMap_injective hf) g m path v

theorem fillStep_map (f : Iv → Iv) (hf : Injective f) (hc : CodePres f) (k : Int) (p p' : ThreadParams)
    (hp : ParamsRel f k p p') (g : Graph) (ps : PathStore) (a : Read) :
    fillStep (mapGraph f g) p' (mapStore f k ps) (mapRead f k a) = mapStore f k (fillStep g p ps a) := by
  unfold fillStep
  rw [readPath_map f hf hc k p p' hp]
  cases readPath g p a with
  | none => rfl
  | some x =>
    obtain ⟨path, fl⟩ := x
    simp only [Option.map_some, mapPath, mapStore]
    have h1 : cnt (ps.paths.map (fun p => (p.1.map f, p.2))) (path.map f) = cnt ps.paths path := by
      have := amGet?_paths_map f hf (id : Int → Int) ps.paths path
      simp only [id] at this
      simp only [cnt, this]; cases amGet? ps.paths path <;> rfl
    have h2 := amSet_paths_map f hf (id : Int → Int) ps.paths path (cnt ps.paths path + 1)
    simp only [id] at h2
    have h3 := amGet?_paths_map f hf (List.map (mapRead f k)) ps.toReads path
    have h4 := amSet_paths_map f hf (List.map (mapRead f k)) ps.toReads path ((amGet? ps.toReads path).getD [] ++ [a])
    have h5 : setAdd (ps.fl.map (List.map f)) (path.map f) = (setAdd ps.fl path).map (List.map f) :=
      setAdd_map (List.map f) (listMap_injective hf) ps.fl path
    rw [h1, h2, h3, h5]
    have h6 : ((amGet? ps.toReads path).map (List.map (mapRead f k))).getD [] ++ [mapRead f k a]
        = ((amGet? ps.toReads path).getD [] ++ [a]).map (mapRead f k) := by
      cases amGet? ps.toReads path <;> simp
    rw [h6, h4]
    cases fl <;> rfl

theorem fillPaths_map (f : Iv → Iv) (hf : Injective f) (hc : CodePres f) (k : Int) (p p' : ThreadParams)
    (hp : ParamsRel f k p p') (g : Graph) (reads : List Read) :
    fillPaths (mapGraph f g) p' (reads.map (mapRead f k)) = mapStore f k (fillPaths g p reads) :=
  foldl_map_comm (mapStore f k) (mapRead f k) (fillStep g p) (fillStep (mapGraph f g) p')
    (fun ps a => fillStep_map f hf hc k p p' hp g ps a) reads PathStore.empty


/-! ## the translation instances -/

theorem shiftIv_inj (k : Int) : Injective (shiftIv k) := by
  intro a b h
  simp only [shiftIv, Prod.mk.injEq] at h
  ext <;> omega

theorem shiftIv_lePres (k : Int) : LePres (shiftIv k) := by
  intro a b
  simp only [ivLe, shiftIv]
  grind

theorem shiftIv_diffPres (k : Int) : DiffPres (shiftIv k) := by
  intro a b
  simp only [shiftIv]
  omega

theorem shiftV_of_intron (k : Int) (v : Iv) (h : 0 ≤ v.1) : shiftV k v = shiftIv k v := by
  simp only [shiftV, h, if_true]

theorem shiftV_of_terminal (k : Int) (v : Iv) (h : v.1 < 0) : shiftV k v = (v.1, v.2 + k) := by
  have : ¬ 0 ≤ v.1 := by omega
  simp only [shiftV, this, if_false]

theorem shiftV_fst_snd (k : Int) (v : Iv) :
    (0 ≤ v.1 ∧ shiftV k v = (v.1 + k, v.2 + k)) ∨ (v.1 < 0 ∧ shiftV k v = (v.1, v.2 + k)) := by
  by_cases h : 0 ≤ v.1
  · exact Or.inl ⟨h, shiftV_of_intron k v h⟩
  · exact Or.inr ⟨by omega, shiftV_of_terminal k v (by omega)⟩

theorem shiftV_inj (k : Int) (hk : 0 ≤ k) : Injective (shiftV k) := by
  intro a b h
  rcases shiftV_fst_snd k a with ⟨ha, ea⟩ | ⟨ha, ea⟩ <;> rcases shiftV_fst_snd k b with ⟨hb, eb⟩ | ⟨hb, eb⟩ <;>
    rw [ea, eb] at h <;> simp only [Prod.mk.injEq] at h <;> obtain ⟨h1, h2⟩ := h <;> ext <;> omega

theorem shiftV_lePres (k : Int) (hk : 0 ≤ k) : LePres (shiftV k) := by
  intro a b
  rcases shiftV_fst_snd k a with ⟨ha, ea⟩ | ⟨ha, ea⟩ <;> rcases shiftV_fst_snd k b with ⟨hb, eb⟩ | ⟨hb, eb⟩ <;>
    rw [ea, eb] <;> simp only [ivLe] <;> grind

theorem shiftV_kindPres (k : Int) (hk : 0 ≤ k) : KindPres (shiftV k) := by
  intro v
  rcases shiftV_fst_snd k v with ⟨ha, ea⟩ | ⟨ha, ea⟩
  · rw [ea]; simp only [isIntronVertex]; grind
  · rw [ea]; simp only [isIntronVertex]

theorem shiftV_codePres (k : Int) (hk : 0 ≤ k) : CodePres (shiftV k) := by
  intro v
  rcases shiftV_fst_snd k v with ⟨ha, ea⟩ | ⟨ha, ea⟩
  · rw [ea]; simp only [VERTEX_polya, VERTEX_polyt]; omega
  · rw [ea]; exact ⟨Iff.rfl, Iff.rfl⟩

/-- on a vertex whose kind is kept, the shift by `-k` undoes the shift by `k` -/
theorem shiftV_neg_shiftV (k : Int) (v : Iv) (h : GoodV k v) : shiftV (-k) (shiftV k v) = v := by
  unfold GoodV at h
  rcases shiftV_fst_snd k v with ⟨ha, ea⟩ | ⟨ha, ea⟩
  · rw [ea, shiftV_of_intron (-k) (v.1 + k, v.2 + k) (h ha)]
    simp only [shiftIv]; ext <;> dsimp only <;> omega
  · rw [ea, shiftV_of_terminal (-k) (v.1, v.2 + k) ha]
    ext <;> dsimp only <;> omega

theorem goodV_of_nonneg (k : Int) (hk : 0 ≤ k) (v : Iv) : GoodV k v := by
  unfold GoodV; omega

/-- for `0 ≤ j` the shift by `-j` is a global left inverse of the shift by `j` … -/
theorem shiftV_neg_shiftV_nonneg (j : Int) (hj : 0 ≤ j) (v : Iv) : shiftV (-j) (shiftV j v) = v :=
  shiftV_neg_shiftV j v (goodV_of_nonneg j hj v)

/-- … and for `k ≤ 0` the shift by `k` is a global left inverse of the shift by `-k` -/
theorem shiftV_shiftV_neg (k : Int) (hk : k ≤ 0) (v : Iv) : shiftV k (shiftV (-k) v) = v := by
  have := shiftV_neg_shiftV_nonneg (-k) (by omega) v
  rwa [Int.neg_neg] at this

/-! ## composition / identity of the component-wise maps -/

theorem map_eq_self {α : Type} (f : α → α) (l : List α) (h : ∀ x ∈ l, f x = x) : l.map f = l := by
  rw [List.map_congr_left (g := id) (by intro x hx; exact h x hx), List.map_id]

theorem mapCollector_comp (f h : Iv → Iv) (c : Collector) :
    mapCollector f (mapCollector h c) = mapCollector (f ∘ h) c := by
  simp only [mapCollector, List.map_map]; rfl

theorem mapGraph_comp (f h : Iv → Iv) (g : Graph) : mapGraph f (mapGraph h g) = mapGraph (f ∘ h) g := by
  simp only [mapGraph, mapCollector_comp, List.map_map]; rfl

theorem mapOp_comp (f h : Iv → Iv) (op : Op) : mapOp f (mapOp h op) = mapOp (f ∘ h) op := by
  cases op <;> rfl

theorem mapCollector_eq_self (f : Iv → Iv) (c : Collector) (h : ∀ v ∈ collectorAllVerts c, f v = v) :
    mapCollector f c = c := by
  simp only [collectorAllVerts, List.mem_append, amKeys, amVals, List.mem_map] at h
  have h1 : c.known.map f = c.known := map_eq_self f _ (fun x hx => h x (Or.inl (Or.inl (Or.inl (Or.inl hx)))))
  have h2 : c.clustered.map (mapKey f) = c.clustered := map_eq_self _ _ (fun x hx => by
    have := h x.1 (Or.inl (Or.inl (Or.inl (Or.inr ⟨x, hx, rfl⟩))))
    simp only [mapKey, this])
  have h3 : c.corr.map (mapPair f) = c.corr := map_eq_self _ _ (fun x hx => by
    have a := h x.1 (Or.inl (Or.inl (Or.inr ⟨x, hx, rfl⟩)))
    have b := h x.2 (Or.inl (Or.inr ⟨x, hx, rfl⟩))
    simp only [mapPair, a, b])
  have h4 : c.discarded.map f = c.discarded := map_eq_self f _ (fun x hx => h x (Or.inr hx))
  simp only [mapCollector, h1, h2, h3, h4]

theorem mapPairs_eq_self (f : Iv → Iv) (m : List (Iv × Iv)) (h : ∀ v ∈ amKeys m ++ amVals m, f v = v) :
    m.map (mapPair f) = m := by
  simp only [List.mem_append, amKeys, amVals, List.mem_map] at h
  exact map_eq_self _ _ (fun x hx => by
    have a := h x.1 (Or.inl ⟨x, hx, rfl⟩)
    have b := h x.2 (Or.inr ⟨x, hx, rfl⟩)
    simp only [mapPair, a, b])

theorem mapGraph_eq_self (f : Iv → Iv) (g : Graph) (h : ∀ v ∈ graphAllVerts g, f v = v) : mapGraph f g = g := by
  simp only [graphAllVerts, List.mem_append] at h
  have h1 : mapCollector f g.col = g.col :=
    mapCollector_eq_self f g.col (fun v hv => h v (Or.inl (Or.inl (Or.inl (Or.inl hv)))))
  have h2 : g.out.map (mapPair f) = g.out := mapPairs_eq_self f g.out (fun v hv => by
    rw [List.mem_append] at hv
    rcases hv with hv | hv
    · exact h v (Or.inl (Or.inl (Or.inl (Or.inr hv))))
    · exact h v (Or.inl (Or.inl (Or.inr hv))))
  have h3 : g.inc.map (mapPair f) = g.inc := mapPairs_eq_self f g.inc (fun v hv => by
    rw [List.mem_append] at hv
    rcases hv with hv | hv
    · exact h v (Or.inl (Or.inr hv))
    · exact h v (Or.inr hv))
  simp only [mapGraph, h1, h2, h3]

theorem mapOp_eq_self (f : Iv → Iv) (op : Op) (h : ∀ v ∈ opVerts op, f v = v) : mapOp f op = op := by
  cases op <;> simp only [opVerts, List.mem_cons, List.not_mem_nil, or_false, forall_eq_or_imp, forall_eq] at h <;>
    simp only [mapOp, h]

theorem mapOps_eq_self (f : Iv → Iv) (ops : List Op) (h : ∀ op ∈ ops, ∀ v ∈ opVerts op, f v = v) :
    ops.map (mapOp f) = ops :=
  map_eq_self _ _ (fun op hop => mapOp_eq_self f op (h op hop))

/-! ## operations with terminal vertices: `shiftV k`, all `k` on states whose vertices keep their kind -/

/-- the generic step from `0 ≤ k` to all `k`: a partial function that commutes with the shifts by `j ≥ 0`
    commutes with the shift by `k` on every input on which the shift by `-k` undoes the shift by `k` -/
theorem commute_of_nonneg {X Y : Type} (sx : Int → X → X) (sy : Int → Y → Y) (F : X → Option Y)
    (hpos : ∀ j, 0 ≤ j → ∀ x, F (sx j x) = (F x).map (sy j))
    (hyinv : ∀ k, k ≤ 0 → ∀ y, sy k (sy (-k) y) = y)
    (k : Int) (x : X) (hx : sx (-k) (sx k x) = x) : F (sx k x) = (F x).map (sy k) := by
  by_cases hk : 0 ≤ k
  · exact hpos k hk x
  · have h1 := hpos (-k) (by omega) (sx k x)
    rw [hx] at h1
    rw [h1, Option.map_map]
    have : (sy k ∘ sy (-k)) = id := by funext y; exact hyinv k (by omega) y
    rw [this, Option.map_id]
    rfl

theorem mapGraph_shiftV_inv (k : Int) (g : Graph) (h : GoodG k g) :
    mapGraph (shiftV (-k)) (mapGraph (shiftV k) g) = g := by
  rw [mapGraph_comp]
  exact mapGraph_eq_self _ g (fun v hv => shiftV_neg_shiftV k v (h v hv))

theorem mapOp_shiftV_inv (k : Int) (op : Op) (h : GoodOp k op) : mapOp (shiftV (-k)) (mapOp (shiftV k) op) = op := by
  rw [mapOp_comp]
  exact mapOp_eq_self _ op (fun v hv => shiftV_neg_shiftV k v (h v hv))

theorem mapGraph_shiftV_inv' (k : Int) (hk : k ≤ 0) (g : Graph) :
    mapGraph (shiftV k) (mapGraph (shiftV (-k)) g) = g := by
  rw [mapGraph_comp]
  exact mapGraph_eq_self _ g (fun v _ => shiftV_shiftV_neg k hk v)

theorem applyOp_shiftV (k : Int) (g : Graph) (op : Op) (hg : GoodG k g) (ho : GoodOp k op) :
    applyOp (mapGraph (shiftV k) g) (mapOp (shiftV k) op) = (applyOp g op).map (mapGraph (shiftV k)) := by
  have := commute_of_nonneg (X := Graph × Op) (Y := Graph)
    (fun k x => (mapGraph (shiftV k) x.1, mapOp (shiftV k) x.2)) (fun k => mapGraph (shiftV k))
    (fun x => applyOp x.1 x.2)
    (fun j hj x => applyOp_map (shiftV j) (shiftV_inj j hj) (shiftV_lePres j hj) x.1 x.2)
    (fun k hk y => mapGraph_shiftV_inv' k hk y) k (g, op)
    (by simp only [mapGraph_shiftV_inv k g hg, mapOp_shiftV_inv k op ho])
  exact this

theorem runOps_shiftV (k : Int) (obs : List Iv) (g : Graph) (ops : List Op) (hobs : ∀ v ∈ obs, GoodV k v)
    (hg : GoodG k g) (ho : ∀ op ∈ ops, GoodOp k op) :
    runOps (obs.map (shiftV k)) (mapGraph (shiftV k) g) (ops.map (mapOp (shiftV k)))
      = (runOps obs g ops).map (mapGraph (shiftV k)) := by
  have := commute_of_nonneg (X := List Iv × Graph × List Op) (Y := Graph)
    (fun k x => (x.1.map (shiftV k), mapGraph (shiftV k) x.2.1, x.2.2.map (mapOp (shiftV k))))
    (fun k => mapGraph (shiftV k))
    (fun x => runOps x.1 x.2.1 x.2.2)
    (fun j hj x => runOps_map (shiftV j) (shiftV_inj j hj) (shiftV_lePres j hj) (shiftV_kindPres j hj) x.1 x.2.1 x.2.2)
    (fun k hk y => mapGraph_shiftV_inv' k hk y) k (obs, g, ops)
    (by
      simp only [mapGraph_shiftV_inv k g hg, List.map_map]
      have h1 : obs.map (shiftV (-k) ∘ shiftV k) = obs := map_eq_self _ _ (fun v hv => shiftV_neg_shiftV k v (hobs v hv))
      have h2 : ops.map (mapOp (shiftV (-k)) ∘ mapOp (shiftV k)) = ops :=
        map_eq_self _ _ (fun op hop => mapOp_shiftV_inv k op (ho op hop))
      rw [h1, h2])
  exact this


/-! ## `fill` with terminal vertices: `shiftV k`, all `k` -/

theorem shiftL_neg_cancel (k : Int) (l : List Iv) : shiftL (-k) (shiftL k l) = l := by
  simp only [shiftL, List.map_map]
  exact map_eq_self _ l (fun x _ => by simp only [Function.comp_def, shiftIv]; ext <;> dsimp only <;> omega)

theorem shiftL_cancel_neg (k : Int) (l : List Iv) : shiftL k (shiftL (-k) l) = l := by
  have := shiftL_neg_cancel (-k) l
  rwa [Int.neg_neg] at this

theorem mapRead_inv (k : Int) (r : Read) (h : ∀ v ∈ r.introns, GoodV k v) :
    mapRead (shiftV (-k)) (-k) (mapRead (shiftV k) k r) = r := by
  have h1 : (r.introns.map (shiftV k)).map (shiftV (-k)) = r.introns := by
    rw [List.map_map]; exact map_eq_self _ _ (fun v hv => shiftV_neg_shiftV k v (h v hv))
  cases r
  simp only [mapRead, shiftL_neg_cancel, Read.mk.injEq, and_true, true_and] at h1 ⊢
  exact h1

theorem mapRead_inv' (k : Int) (hk : k ≤ 0) (r : Read) : mapRead (shiftV k) k (mapRead (shiftV (-k)) (-k) r) = r := by
  have h1 : (r.introns.map (shiftV (-k))).map (shiftV k) = r.introns := by
    rw [List.map_map]; exact map_eq_self _ _ (fun v _ => shiftV_shiftV_neg k hk v)
  cases r
  simp only [mapRead, shiftL_cancel_neg, Read.mk.injEq, and_true, true_and] at h1 ⊢
  exact h1

theorem mapStore_inv' (k : Int) (hk : k ≤ 0) (ps : PathStore) :
    mapStore (shiftV k) k (mapStore (shiftV (-k)) (-k) ps) = ps := by
  have hl : ∀ l : List Iv, (l.map (shiftV (-k))).map (shiftV k) = l := fun l => by
    rw [List.map_map]; exact map_eq_self _ _ (fun v _ => shiftV_shiftV_neg k hk v)
  have hr : ∀ l : List Read, (l.map (mapRead (shiftV (-k)) (-k))).map (mapRead (shiftV k) k) = l := fun l => by
    rw [List.map_map]; exact map_eq_self _ _ (fun r _ => mapRead_inv' k hk r)
  cases ps with
  | mk paths fl toReads =>
    simp only [mapStore, List.map_map, PathStore.mk.injEq]
    refine ⟨?_, ?_, ?_⟩
    · exact map_eq_self _ _ (fun x _ => by simp only [Function.comp_def, hl])
    · exact map_eq_self _ _ (fun x _ => by simp only [Function.comp_def, hl])
    · exact map_eq_self _ _ (fun x _ => by simp only [Function.comp_def, hl, hr])

theorem paramsRel_inv (k : Int) (hk : k ≤ 0) (p p' : ThreadParams) (hp : ParamsRel (shiftV k) k p p')
    (hg : GoodParams k p) : ParamsRel (shiftV (-k)) (-k) p' p := by
  obtain ⟨he, hs, hr⟩ := hp
  refine ⟨?_, ?_, hr.symm⟩
  · intro i e t
    have h := he (shiftV (-k) i) (e + -k) t
    rw [shiftV_shiftV_neg k hk i] at h
    have e1 : e + -k + k = e := by omega
    rw [e1] at h
    rw [h, Option.map_map]
    cases hv : p.ends (shiftV (-k) i) (e + -k) t with
    | none => rfl
    | some v => simp only [Option.map_some, Function.comp_def, shiftV_neg_shiftV k v (hg.1 _ _ _ v hv)]
  · intro i e t
    have h := hs (shiftV (-k) i) (e + -k) t
    rw [shiftV_shiftV_neg k hk i] at h
    have e1 : e + -k + k = e := by omega
    rw [e1] at h
    rw [h, Option.map_map]
    cases hv : p.starts (shiftV (-k) i) (e + -k) t with
    | none => rfl
    | some v => simp only [Option.map_some, Function.comp_def, shiftV_neg_shiftV k v (hg.2 _ _ _ v hv)]

theorem fillPaths_shiftV (k : Int) (p p' : ThreadParams) (hp : ParamsRel (shiftV k) k p p') (hgp : GoodParams k p)
    (g : Graph) (reads : List Read) (hg : GoodG k g) (hr : ∀ r ∈ reads, ∀ v ∈ r.introns, GoodV k v) :
    fillPaths (mapGraph (shiftV k) g) p' (reads.map (mapRead (shiftV k) k))
      = mapStore (shiftV k) k (fillPaths g p reads) := by
  by_cases hk : 0 ≤ k
  · exact fillPaths_map (shiftV k) (shiftV_inj k hk) (shiftV_codePres k hk) k p p' hp g reads
  · have hk' : k ≤ 0 := by omega
    have hj : 0 ≤ -k := by omega
    have h1 := fillPaths_map (shiftV (-k)) (shiftV_inj (-k) hj) (shiftV_codePres (-k) hj) (-k) p' p
      (paramsRel_inv k hk' p p' hp hgp) (mapGraph (shiftV k) g) (reads.map (mapRead (shiftV k) k))
    rw [mapGraph_shiftV_inv k g hg, List.map_map,
      map_eq_self (mapRead (shiftV (-k)) (-k) ∘ mapRead (shiftV k) k) reads
        (fun r hr' => mapRead_inv k r (hr r hr'))] at h1
    rw [h1, mapStore_inv' k hk']


theorem mapPath_inv' (k : Int) (hk : k ≤ 0) (x : List Iv × Bool) :
    mapPath (shiftV k) (mapPath (shiftV (-k)) x) = x := by
  obtain ⟨l, b⟩ := x
  simp only [mapPath, List.map_map, Prod.mk.injEq, and_true]
  exact map_eq_self _ _ (fun v _ => shiftV_shiftV_neg k hk v)

theorem readPath_shiftV (k : Int) (p p' : ThreadParams) (hp : ParamsRel (shiftV k) k p p') (hgp : GoodParams k p)
    (g : Graph) (a : Read) (hg : GoodG k g) (hr : ∀ v ∈ a.introns, GoodV k v) :
    readPath (mapGraph (shiftV k) g) p' (mapRead (shiftV k) k a) = (readPath g p a).map (mapPath (shiftV k)) := by
  by_cases hk : 0 ≤ k
  · exact readPath_map (shiftV k) (shiftV_inj k hk) (shiftV_codePres k hk) k p p' hp g a
  · have hk' : k ≤ 0 := by omega
    have hj : 0 ≤ -k := by omega
    have h1 := readPath_map (shiftV (-k)) (shiftV_inj (-k) hj) (shiftV_codePres (-k) hj) (-k) p' p
      (paramsRel_inv k hk' p p' hp hgp) (mapGraph (shiftV k) g) (mapRead (shiftV k) k a)
    rw [mapGraph_shiftV_inv k g hg, mapRead_inv k a hr] at h1
    rw [h1, Option.map_map]
    have : (mapPath (shiftV k) ∘ mapPath (shiftV (-k))) = id := by
      funext x; exact mapPath_inv' k hk' x
    rw [this, Option.map_id]
    rfl

theorem opScoped_shiftV (k : Int) (obs : List Iv) (g : Graph) (op : Op) (hobs : ∀ v ∈ obs, GoodV k v)
    (hg : GoodG k g) (ho : GoodOp k op) :
    opScoped (obs.map (shiftV k)) (mapGraph (shiftV k) g) (mapOp (shiftV k) op) = opScoped obs g op := by
  have := commute_of_nonneg (X := List Iv × Graph × Op) (Y := Bool)
    (fun k x => (x.1.map (shiftV k), mapGraph (shiftV k) x.2.1, mapOp (shiftV k) x.2.2))
    (fun _ b => b)
    (fun x => some (opScoped x.1 x.2.1 x.2.2))
    (fun j hj x => by
      simp only [Option.map_some, opScoped_map (shiftV j) (shiftV_inj j hj) (shiftV_kindPres j hj)])
    (fun _ _ _ => rfl) k (obs, g, op)
    (by
      simp only [mapGraph_shiftV_inv k g hg, mapOp_shiftV_inv k op ho, List.map_map]
      rw [map_eq_self (shiftV (-k) ∘ shiftV k) obs (fun v hv => shiftV_neg_shiftV k v (hobs v hv))])
  simpa only [Option.map_some, Option.some.injEq] using this


/-! ## reflection: edges of a mirrored read -/

theorem mirrorIv_inj (L : Int) : Injective (mirrorIv L) := by
  intro a b h
  have := congrArg (mirrorIv L) h
  rwa [mirrorIv_mirrorIv, mirrorIv_mirrorIv] at this

theorem threadIntrons_spec' (c : Collector) (l : List Iv) :
    threadIntrons c l = if l.any (fun i => decide (i ∈ c.discarded)) then none else some (l.map c.substitute) := by
  induction l with
  | nil => rfl
  | cons i t ih =>
    simp only [threadIntrons, ih, List.any_cons, List.map_cons]
    by_cases h : i ∈ c.discarded
    · simp only [h, if_true, decide_true, Bool.true_or]
    · simp only [h, if_false, decide_false, Bool.false_or]
      cases t.any (fun i => decide (i ∈ c.discarded)) <;> rfl

theorem threadIntrons_reverse (c : Collector) (l : List Iv) :
    threadIntrons c l.reverse = (threadIntrons c l).map List.reverse := by
  rw [threadIntrons_spec', threadIntrons_spec', List.any_reverse, List.map_reverse]
  cases l.any (fun i => decide (i ∈ c.discarded)) <;> rfl

theorem threadIntrons_mirror (L : Int) (c : Collector) (l : List Iv) :
    threadIntrons (mapCollector (mirrorIv L) c) (mirrorL L l) = (threadIntrons c l).map (mirrorL L) := by
  unfold mirrorL
  rw [threadIntrons_reverse, threadIntrons_map (mirrorIv L) (mirrorIv_inj L), Option.map_map]
  rfl


theorem addEdge_mirror (L : Int) (g : Graph) (v1 v2 : Iv) :
    (mirrorGraph L g).addEdge (mirrorIv L v2) (mirrorIv L v1) = mirrorGraph L (g.addEdge v1 v2) := by
  have hf := mirrorIv_inj L
  simp only [Graph.addEdge, mirrorGraph, substitute_map (mirrorIv L) hf, setAdd_mapPair (mirrorIv L) hf]

theorem readEdgeOps_snoc (l : List Iv) (a : Iv) :
    readEdgeOps (l ++ [a]) = readEdgeOps l ++ (match l.getLast? with | some x => [Op.addEdge x a] | none => []) := by
  fun_induction readEdgeOps l with
  | case1 => rfl
  | case2 x => rfl
  | case3 x y t ih =>
    simp only [List.cons_append, readEdgeOps, List.getLast?_cons_cons] at ih ⊢
    rw [ih]

theorem readEdgeOps_mirror (L : Int) (l : List Iv) :
    readEdgeOps (mirrorL L l) = ((readEdgeOps l).map (mirrorOp L)).reverse := by
  induction l with
  | nil => rfl
  | cons x t ih =>
    rw [mirrorL_cons, readEdgeOps_snoc, ih, mirrorL_getLast?]
    cases t with
    | nil => rfl
    | cons y t' =>
      simp only [List.head?_cons, Option.map_some, readEdgeOps, List.map_cons, List.reverse_cons, mirrorOp]


/-! ## reflection: the intron counts of the mirrored reads -/

theorem cnt_countAdd (m : List (Iv × Int)) (k x : Iv) :
    cnt (countAdd m k) x = cnt m x + (if k = x then 1 else 0) := by
  unfold countAdd
  by_cases h : k = x
  · subst h
    simp only [cnt, IsoVerif.Lemmas.C04.amGet?_amSet_self, Option.getD_some, if_true]
  · have h' : x ≠ k := fun e => h e.symm
    simp only [cnt, IsoVerif.Lemmas.C04.amGet?_amSet_ne _ _ _ _ h', h, if_false, Int.add_zero]

theorem cnt_foldl_countAdd (l : List Iv) (m : List (Iv × Int)) (x : Iv) :
    cnt (l.foldl countAdd m) x = cnt m x + (l.count x : Int) := by
  induction l generalizing m with
  | nil => simp
  | cons a t ih =>
    rw [List.foldl_cons, ih, cnt_countAdd, List.count_cons]
    by_cases h : a = x
    · simp only [h, if_true, beq_self_eq_true]; omega
    · have : (a == x) = false := by simpa using h
      simp only [h, if_false, this, Bool.false_eq_true]; omega

theorem cnt_collectIntrons_aux (reads : List Read) (m : List (Iv × Int)) (x : Iv) :
    cnt (reads.foldl (fun m r => if r.introns.isEmpty || r.multimapper then m else r.introns.foldl countAdd m) m) x
      = cnt m x + ((obsIntrons reads).count x : Int) := by
  induction reads generalizing m with
  | nil => simp [obsIntrons]
  | cons r t ih =>
    rw [List.foldl_cons, ih]
    unfold obsIntrons
    rcases Bool.eq_false_or_eq_true r.multimapper with hm | hm
    · simp only [hm, Bool.or_true, if_true, List.filter_cons, Bool.not_true, Bool.false_eq_true, if_false]
    · simp only [hm, Bool.or_false, List.filter_cons, Bool.not_false, if_true, List.flatMap_cons, List.count_append]
      cases hi : r.introns with
      | nil => simp
      | cons a b =>
        simp only [List.isEmpty_cons, Bool.false_eq_true, if_false]
        rw [cnt_foldl_countAdd]
        simp only [Int.natCast_add]
        omega

/-- `collect_introns` counts occurrences -/
theorem cnt_collectIntrons (reads : List Read) (x : Iv) :
    cnt (C04.collectIntrons reads) x = ((obsIntrons reads).count x : Int) := by
  have := cnt_collectIntrons_aux reads [] x
  simpa [C04.collectIntrons, cnt, amGet?] using this

theorem count_map_inj (f : Iv → Iv) (hf : Injective f) (l : List Iv) (x : Iv) :
    (l.map f).count (f x) = l.count x := by
  induction l with
  | nil => rfl
  | cons a t ih =>
    have e : (f a == f x) = (a == x) := by
      rw [Bool.eq_iff_iff]; simp only [beq_iff_eq]
      exact ⟨fun h => hf h, fun h => by rw [h]⟩
    simp only [List.map_cons, List.count_cons, ih, e]

theorem count_mirrorL (L : Int) (l : List Iv) (x : Iv) : (mirrorL L l).count (mirrorIv L x) = l.count x := by
  unfold mirrorL
  rw [List.count_reverse]
  exact count_map_inj (mirrorIv L) (mirrorIv_inj L) l x

theorem count_obsIntrons_mirror (L : Int) (reads : List Read) (x : Iv) :
    (obsIntrons (reads.map (mirrorRead L))).count (mirrorIv L x) = (obsIntrons reads).count x := by
  unfold obsIntrons
  induction reads with
  | nil => rfl
  | cons r t ih =>
    have hm : (mirrorRead L r).multimapper = r.multimapper := rfl
    have hi : (mirrorRead L r).introns = mirrorL L r.introns := rfl
    simp only [List.map_cons, List.filter_cons, hm]
    rcases Bool.eq_false_or_eq_true r.multimapper with h | h
    · simp only [h, Bool.not_true, Bool.false_eq_true, if_false]; exact ih
    · simp only [h, Bool.not_false, if_true, List.flatMap_cons, List.count_append, hi, count_mirrorL, ih]

theorem cnt_collectIntrons_mirror (L : Int) (reads : List Read) (x : Iv) :
    cnt (C04.collectIntrons (reads.map (mirrorRead L))) (mirrorIv L x) = cnt (C04.collectIntrons reads) x := by
  rw [cnt_collectIntrons, cnt_collectIntrons, count_obsIntrons_mirror]


end IsoVerif.Lemmas.C11.GraphMap
