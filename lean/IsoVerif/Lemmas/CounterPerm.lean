/-
The ungrouped counter does not depend on the order of the calls (used by the end-to-end part of C12; the model is
C02's `Model/Counter.lean`).  Core Lean only.

`run` raises iff some call raises, whatever the state (`raises`); the final state is determined, as far as `dump` can
see it, by the multiset of calls: counts = Σ contributions (`run_counts`), confirmed set (`run_confirmed`), listed
features (`run_allFeatures`), the four statistics (`run_stats`).
-/
import IsoVerif.Model.Counter
import IsoVerif.Model.CounterSpec
import IsoVerif.Lemmas.Counter
import IsoVerif.Lemmas.CounterSteps

namespace IsoVerif.Lemmas.C02
open IsoVerif.Gen IsoVerif.Model.C02
open List

variable {F : Type} [DecidableEq F]

/-- the call raises (independently of the counter's state) -/
def raises (s : CountingStrategy) (lvl : Level) : Event F → Bool
  | .read (some a) =>
    if skipped a then false
    else if typeOf lvl a = ReadAssignmentType.ambiguous then false
    else if (typeOf lvl a).is_inconsistent then (processInconsistent s (typeOf lvl a) (features lvl a).length).isNone
    else if (typeOf lvl a).is_unique then ((features lvl a).isEmpty || (confirms lvl a).isNone)
    else false
  | _ => false

/-- the features the call puts into `all_features` -/
def listedBy (s : CountingStrategy) (lvl : Level) : Event F → List F
  | .read (some a) =>
    if skipped a then []
    else if typeOf lvl a = ReadAssignmentType.ambiguous then
      (if processAmbiguous s (features lvl a).length > 0 then features lvl a else [])
    else if (typeOf lvl a).is_inconsistent then
      (match processInconsistent s (typeOf lvl a) (features lvl a).length with
       | none => []
       | some w => if w > 0 then features lvl a else [])
    else if (typeOf lvl a).is_unique then (features lvl a).take 1
    else []
  | .raw false [f] => [f]
  | .raw false (f :: g :: rest) => f :: g :: rest
  | _ => []

theorem step_none_iff (s : CountingStrategy) (lvl : Level) (st : CState F) (e : Event F) :
    step s lvl st e = none ↔ raises s lvl e = true := by
  cases e with
  | read ra =>
    cases ra with
    | none => simp [step, addReadInfo, raises]
    | some a =>
      simp only [step, addReadInfo, raises]
      by_cases hsk : skipped a = true
      · simp [hsk]
      · simp only [hsk, Bool.false_eq_true, if_false]
        by_cases hamb : typeOf lvl a = ReadAssignmentType.ambiguous
        · simp [hamb]
        · simp only [hamb, if_false]
          by_cases hinc : (typeOf lvl a).is_inconsistent = true
          · simp only [hinc, if_true]
            cases hpi : processInconsistent s (typeOf lvl a) (features lvl a).length with
            | none => simp
            | some w => by_cases hw : w > 0 <;> simp [hw]
          · simp only [hinc, Bool.false_eq_true, if_false]
            by_cases hu : (typeOf lvl a).is_unique = true
            · simp only [hu, if_true]
              cases hfs : features lvl a with
              | nil => simp
              | cons g rest =>
                cases hc : confirms lvl a with
                | none => simp
                | some c => simp
            · simp [hu]
  | raw noId fs => simp [step, raises]
  | unassigned n => simp [step, raises]
  | unaligned n => simp [step, raises]
  | confirm fs => simp [step, raises]

theorem run_none_iff (s : CountingStrategy) (lvl : Level) (es : List (Event F)) (st0 : CState F) :
    run s lvl st0 es = none ↔ ∃ e ∈ es, raises s lvl e = true := by
  induction es generalizing st0 with
  | nil => simp [run]
  | cons e es ih =>
    simp only [run, List.mem_cons, exists_eq_or_imp]
    cases hs : step s lvl st0 e with
    | none =>
      simp only [true_iff]
      exact Or.inl ((step_none_iff s lvl st0 e).mp hs)
    | some st1 =>
      simp only []
      rw [ih st1]
      have : ¬ raises s lvl e = true := by
        intro h; rw [← step_none_iff s lvl st0 e, hs] at h; cases h
      simp [this]

theorem step_allFeatures (s : CountingStrategy) (lvl : Level) (st st' : CState F) (e : Event F)
    (h : step s lvl st e = some st') (f : F) :
    f ∈ st'.allFeatures ↔ f ∈ st.allFeatures ∨ f ∈ listedBy s lvl e := by
  cases e with
  | read ra =>
    cases ra with
    | none =>
      simp only [step, addReadInfo, Option.some.injEq] at h
      subst h; simp [listedBy]
    | some a =>
      simp only [step, addReadInfo] at h
      by_cases hsk : skipped a = true
      · simp only [hsk, if_true, Option.some.injEq] at h
        subst h; simp [listedBy, hsk]
      · simp only [hsk, Bool.false_eq_true, if_false] at h
        by_cases hamb : typeOf lvl a = ReadAssignmentType.ambiguous
        · simp only [hamb, if_true, Option.some.injEq] at h
          subst h
          simp only [listedBy, hsk, hamb, Bool.false_eq_true, if_false, if_true]
          by_cases hw : processAmbiguous s (features lvl a).length > 0
          · simp [hw, mem_addAll]
          · simp [hw]
        · simp only [hamb, if_false] at h
          by_cases hinc : (typeOf lvl a).is_inconsistent = true
          · simp only [hinc, if_true] at h
            cases hpi : processInconsistent s (typeOf lvl a) (features lvl a).length with
            | none => simp [hpi] at h
            | some w =>
              simp only [hpi] at h
              simp only [listedBy, hsk, hamb, hinc, hpi, Bool.false_eq_true, if_false, if_true]
              by_cases hwp : w > 0
              · simp only [hwp, if_true, Option.some.injEq] at h
                subst h; simp [hwp, mem_addAll]
              · simp only [hwp, if_false, Option.some.injEq] at h
                subst h; simp [hwp]
          · simp only [hinc, Bool.false_eq_true, if_false] at h
            by_cases hu : (typeOf lvl a).is_unique = true
            · simp only [hu, if_true] at h
              cases hfs : features lvl a with
              | nil => simp [hfs] at h
              | cons g rest =>
                simp only [hfs] at h
                cases hc : confirms lvl a with
                | none => simp [hc] at h
                | some c =>
                  simp only [hc, Option.some.injEq] at h
                  subst h
                  simp [listedBy, hsk, hamb, hinc, hu, hfs, mem_setAdd]
            · simp only [hu, Bool.false_eq_true, if_false, Option.some.injEq] at h
              subst h; simp [listedBy, hsk, hamb, hinc, hu]
  | raw noId fs =>
    simp only [step, Option.some.injEq] at h
    subst h
    cases noId with
    | true => simp [addReadInfoRaw, listedBy]
    | false =>
      match fs with
      | [] => simp [addReadInfoRaw, listedBy]
      | [g] => simp [addReadInfoRaw, listedBy, mem_setAdd]
      | g :: g' :: rest => simp [addReadInfoRaw, listedBy, mem_addAll]
  | unassigned n =>
    simp only [step, Option.some.injEq] at h
    subst h; simp [listedBy]
  | unaligned n =>
    simp only [step, Option.some.injEq] at h
    subst h; simp [listedBy]
  | confirm fs =>
    simp only [step, Option.some.injEq] at h
    subst h; simp [listedBy]

theorem run_allFeatures (s : CountingStrategy) (lvl : Level) (es : List (Event F)) (st0 st : CState F)
    (h : run s lvl st0 es = some st) (f : F) :
    f ∈ st.allFeatures ↔ f ∈ st0.allFeatures ∨ ∃ e ∈ es, f ∈ listedBy s lvl e := by
  induction es generalizing st0 with
  | nil =>
    simp only [run, Option.some.injEq] at h
    subst h; simp
  | cons e es ih =>
    simp only [run] at h
    cases hs : step s lvl st0 e with
    | none => simp [hs] at h
    | some st1 =>
      simp only [hs] at h
      rw [ih st1 h, step_allFeatures s lvl st0 st1 e hs f]
      simp only [List.mem_cons, exists_eq_or_imp]
      grind

/-! ### sums over permuted lists -/

theorem ratSum_perm {l l' : List Rat} (h : l ~ l') : ratSum l = ratSum l' := by
  induction h with
  | nil => rfl
  | cons x _ ih => simp [ih]
  | swap x y l => simp only [ratSum_cons]; grind
  | trans _ _ ih1 ih2 => exact ih1.trans ih2

theorem natSum_perm {l l' : List Nat} (h : l ~ l') : natSum l = natSum l' := by
  induction h with
  | nil => rfl
  | cons x _ ih => simp [ih]
  | swap x y l => simp only [natSum_cons]; omega
  | trans _ _ ih1 ih2 => exact ih1.trans ih2

/-! ### what `dump` can see of a state -/

/-- two counter states that `dump` cannot tell apart -/
structure StEq (st st' : CState F) : Prop where
  counts : ∀ f, cget st.counts f = cget st'.counts f
  listed : ∀ f, f ∈ st.allFeatures ↔ f ∈ st'.allFeatures
  confirmed : ∀ f, f ∈ st.confirmed ↔ f ∈ st'.confirmed
  ambiguous : st.ambiguousReads = st'.ambiguousReads
  notAssigned : st.notAssigned = st'.notAssigned
  notAligned : st.notAligned = st'.notAligned
  usable : st.usable = st'.usable

/-- the order of the feature ids is a total order -/
structure TotalOrder (le : F → F → Bool) : Prop where
  trans : ∀ a b c, le a b = true → le b c = true → le a c = true
  total : ∀ a b, le a b = true ∨ le b a = true
  antisymm : ∀ a b, le a b = true → le b a = true → a = b

omit [DecidableEq F] in
theorem insertSorted_perm (le : F → F → Bool) (x : F) : ∀ l : List F, insertSorted le x l ~ x :: l
  | [] => by simp [insertSorted]
  | y :: ys => by
    unfold insertSorted
    by_cases h : le x y = true
    · simp [h]
    · simp only [h]
      exact ((insertSorted_perm le x ys).cons y).trans (Perm.swap x y ys)

omit [DecidableEq F] in
theorem isort_perm (le : F → F → Bool) : ∀ l : List F, isort le l ~ l
  | [] => by simp [isort]
  | x :: xs => by
    unfold isort
    exact (insertSorted_perm le x _).trans ((isort_perm le xs).cons x)

omit [DecidableEq F] in
theorem insertSorted_pairwise (le : F → F → Bool) (ho : TotalOrder le) (x : F) :
    ∀ l : List F, l.Pairwise (fun a b => le a b = true) → (insertSorted le x l).Pairwise (fun a b => le a b = true)
  | [], _ => by simp [insertSorted]
  | y :: ys, h => by
    unfold insertSorted
    have hy := List.pairwise_cons.1 h
    by_cases hxy : le x y = true
    · simp only [hxy, if_true]
      refine List.pairwise_cons.2 ⟨?_, h⟩
      intro z hz
      rcases List.mem_cons.1 hz with rfl | hz
      · exact hxy
      · exact ho.trans _ _ _ hxy (hy.1 z hz)
    · simp only [hxy]
      have hyx : le y x = true := by
        rcases ho.total x y with h' | h'
        · exact absurd h' hxy
        · exact h'
      refine List.pairwise_cons.2 ⟨?_, insertSorted_pairwise le ho x ys hy.2⟩
      intro z hz
      rcases List.mem_cons.1 ((insertSorted_perm le x ys).mem_iff.1 hz) with rfl | hz
      · exact hyx
      · exact hy.1 z hz

omit [DecidableEq F] in
theorem isort_pairwise (le : F → F → Bool) (ho : TotalOrder le) :
    ∀ l : List F, (isort le l).Pairwise (fun a b => le a b = true)
  | [] => by simp [isort]
  | x :: xs => by
    unfold isort
    exact insertSorted_pairwise le ho x _ (isort_pairwise le ho xs)

/-- `sorted(all_features)` depends only on the set -/
theorem sortedFeatures_eq (le : F → F → Bool) (ho : TotalOrder le) {st st' : CState F}
    (h : ∀ f, f ∈ st.allFeatures ↔ f ∈ st'.allFeatures) : sortedFeatures le st = sortedFeatures le st' := by
  refine Perm.eq_of_pairwise (le := fun a b => le a b = true) (fun a b _ _ => ho.antisymm a b)
    (isort_pairwise le ho _) (isort_pairwise le ho _) ?_
  rw [perm_ext_iff_of_nodup (sortedFeatures_nodup le st) (sortedFeatures_nodup le st')]
  intro f
  rw [mem_sortedFeatures, mem_sortedFeatures]
  exact h f

theorem filterMap_congr_mem {α β : Type} {f g : α → Option β} :
    ∀ {l : List α}, (∀ x ∈ l, f x = g x) → l.filterMap f = l.filterMap g
  | [], _ => rfl
  | x :: t, h => by
    simp only [List.filterMap_cons, h x (by simp)]
    rw [filterMap_congr_mem (fun y hy => h y (List.mem_cons_of_mem _ hy))]

theorem dumpRowsExact_eq (le : F → F → Bool) (ho : TotalOrder le) (oz : Bool) {st st' : CState F} (h : StEq st st') :
    dumpRowsExact le oz st = dumpRowsExact le oz st' := by
  have hz : ∀ (st : CState F) g, g ∈ st.allFeatures →
      cget (zeroUnconfirmed st.confirmed (sortedFeatures le st) st.counts) g
        = (if g ∈ st.confirmed then cget st.counts g else 0) := by
    intro st g hg
    rw [get_zeroUnconfirmed]
    by_cases hc : g ∈ st.confirmed <;> simp [mem_sortedFeatures, hg, hc]
  simp only [dumpRowsExact]
  rw [← sortedFeatures_eq le ho h.listed]
  apply filterMap_congr_mem
  intro f hf
  have hf1 : f ∈ st.allFeatures := (mem_sortedFeatures le st f).mp hf
  have hf2 : f ∈ st'.allFeatures := (h.listed f).mp hf1
  have e1 := hz st f hf1
  have e2 := hz st' f hf2
  rw [← sortedFeatures_eq le ho h.listed] at e2
  rw [e1, e2, h.counts f]
  by_cases hc : f ∈ st.confirmed
  · have hc' := (h.confirmed f).mp hc
    simp [hc, hc']
  · have hc' : f ∉ st'.confirmed := fun x => hc ((h.confirmed f).mpr x)
    simp [hc, hc']

theorem dump_eq (le : F → F → Bool) (ho : TotalOrder le) (oz : Bool) {st st' : CState F} (h : StEq st st') :
    dump le oz st = dump le oz st' := by
  simp only [dump, dumpRowsExact_eq le ho oz h, h.ambiguous, h.notAssigned, h.notAligned, h.usable]

/-- **the counter is order independent**: a permutation of the calls raises iff the original does, and otherwise
    reaches a state `dump` cannot tell from the original one -/
theorem run_perm (s : CountingStrategy) (lvl : Level) (st0 : CState F) {es es' : List (Event F)} (hp : es ~ es') :
    (run s lvl st0 es = none ↔ run s lvl st0 es' = none) ∧
    ∀ st st', run s lvl st0 es = some st → run s lvl st0 es' = some st' → StEq st st' := by
  constructor
  · rw [run_none_iff, run_none_iff]
    constructor <;> rintro ⟨e, he, hr⟩
    · exact ⟨e, hp.mem_iff.mp he, hr⟩
    · exact ⟨e, hp.mem_iff.mpr he, hr⟩
  · intro st st' h h'
    have hs := run_stats s lvl es st0 st h
    have hs' := run_stats s lvl es' st0 st' h'
    refine ⟨?_, ?_, ?_, ?_, ?_, ?_, ?_⟩
    · intro f
      rw [run_counts s lvl es st0 st h f, run_counts s lvl es' st0 st' h' f,
        ratSum_perm (hp.map (fun e => contribution s lvl e f))]
    · intro f
      rw [run_allFeatures s lvl es st0 st h f, run_allFeatures s lvl es' st0 st' h' f]
      constructor <;> (rintro (h1 | ⟨e, he, hl⟩); exact Or.inl h1)
      · exact Or.inr ⟨e, hp.mem_iff.mp he, hl⟩
      · exact Or.inr ⟨e, hp.mem_iff.mpr he, hl⟩
    · intro f
      rw [run_confirmed s lvl es st0 st h f, run_confirmed s lvl es' st0 st' h' f]
      constructor <;> (rintro (h1 | ⟨e, he, hl⟩); exact Or.inl h1)
      · exact Or.inr ⟨e, hp.mem_iff.mp he, hl⟩
      · exact Or.inr ⟨e, hp.mem_iff.mpr he, hl⟩
    · rw [hs.1, hs'.1, natSum_perm (hp.map _)]
    · rw [hs.2.1, hs'.2.1, natSum_perm (hp.map _)]
    · rw [hs.2.2.1, hs'.2.2.1, natSum_perm (hp.map _)]
    · rw [hs.2.2.2, hs'.2.2.2, natSum_perm (hp.map _)]

/-- **counter_perm_invariant**: the dumped table (rows in order, printed values, the four statistics) of a fresh or
    running counter is the same for every order of the calls -/
theorem counter_perm_invariant_aux (s : CountingStrategy) (lvl : Level) (le : F → F → Bool) (ho : TotalOrder le)
    (oz : Bool) (st0 : CState F) {es es' : List (Event F)} (hp : es ~ es') :
    (run s lvl st0 es).map (dump le oz) = (run s lvl st0 es').map (dump le oz) := by
  obtain ⟨hn, hs⟩ := run_perm s lvl st0 hp
  cases h : run s lvl st0 es with
  | none => rw [hn.mp h]
  | some st =>
    cases h' : run s lvl st0 es' with
    | none => rw [hn.mpr h'] at h; cases h
    | some st' =>
      simp only [Option.map_some, Option.some.injEq]
      exact dump_eq le ho oz (hs st st' h h')

end IsoVerif.Lemmas.C02
