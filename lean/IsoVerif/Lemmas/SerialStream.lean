/-
Helper lemmas for the stream framing of C15: the two nested loops of the `.save` loaders and the loop of the
multimapper files, stated in the uniform shape "read the next marker, then loop", which is how the model's loops
recurse (get_object reads a record and then the next marker).
-/
import IsoVerif.Lemmas.Serial

namespace IsoVerif.Lemmas.Serial
open IsoVerif.Gen IsoVerif.Model IsoVerif.Model.Serial

/-- a record reader that undoes `writeReadAssignment` up to a projection `f` (the full reader with `f = quantRA`,
    the abridged reader with `f = basicOf ∘ quantRA`) -/
def ReadsRecords {β} (rd : Rd β) (f : ReadAssignment → β) (P : ReadAssignment → Prop) : Prop :=
  ∀ r bs rest, P r → writeReadAssignment r = some bs → rd.run (bs ++ rest) = some (f r, rest)

theorem writeShortInt_marker {m : Nat} {b : Bytes} (h : writeShortInt (m : Nat) = some b) :
    b = toBE ser_SHORT_INT_BYTES m ∧ m < 256 ^ ser_SHORT_INT_BYTES := by
  obtain ⟨_, h2, rfl⟩ := intToBytes_eq_some h
  exact ⟨by simp, by simpa using h2⟩

/-- reads of one group followed by the marker `c` of whatever comes next -/
theorem loadReads_writes {β} {rd : Rd β} {f : ReadAssignment → β} {P : ReadAssignment → Prop}
    (hrd : ReadsRecords rd f P) (c : Nat) (hc : c ≠ tmp_READ_ASSIGNMENT) (hc2 : c < 256 ^ ser_SHORT_INT_BYTES) :
    ∀ (rs : List ReadAssignment) (fuel : Nat) (bs rest : Bytes), rs.length < fuel → (∀ r ∈ rs, P r) →
      seqW (rs.map (fun r => writeItem (.read r))) = some bs →
      (readNat ser_SHORT_INT_BYTES >>= loadReads rd fuel).run (bs ++ (toBE ser_SHORT_INT_BYTES c ++ rest)) =
        some ((rs.map f, c), rest) := by
  intro rs
  induction rs with
  | nil =>
    intro fuel bs rest hf _ h
    cases seqW_nil_eq_some_iff.mp h
    obtain ⟨fuel', rfl⟩ : ∃ k, fuel = k + 1 := ⟨fuel - 1, by omega⟩
    simp [StateT.run_bind, readNat_toBE _ _ rest hc2, loadReads, hc]
  | cons r t ih =>
    intro fuel bs rest hf hP h
    obtain ⟨fuel', rfl⟩ : ∃ k, fuel = k + 1 := ⟨fuel - 1, by omega⟩
    simp only [List.map_cons, seqW_cons_eq_some_iff] at h
    obtain ⟨b1, b2, h1, h2, rfl⟩ := h
    simp only [writeItem, seqW_cons_eq_some_iff, seqW_nil_eq_some_iff] at h1
    obtain ⟨bm, _, hm, ⟨br, _, hr, rfl, rfl⟩, rfl⟩ := h1
    obtain ⟨rfl, hmlt⟩ := writeShortInt_marker hm
    have ih' := ih fuel' b2 rest (by simp at hf; omega) (fun x hx => hP x (by simp [hx])) h2
    simp only [StateT.run_bind, Option.bind_eq_bind] at ih'
    simp only [List.append_nil, List.append_assoc, StateT.run_bind, readNat_toBE _ _ _ hmlt, Option.bind_eq_bind,
      Option.bind_some, loadReads, if_true, hrd r br _ (hP r (by simp)) hr]
    generalize StateT.run (readNat ser_SHORT_INT_BYTES) (b2 ++ (toBE ser_SHORT_INT_BYTES c ++ rest)) = A at ih' ⊢
    cases A with
    | none => simp at ih'
    | some p =>
      simp only [Option.bind_some] at ih' ⊢
      rw [ih']
      simp

/-- the bytes of a non-empty group list start with the gene-info marker -/
theorem ungroup_head {gs : List (Group ReadAssignment)} {bs : Bytes} (hne : gs ≠ [])
    (h : seqW ((ungroup gs).map writeItem) = some bs) :
    ∃ tl, bs = toBE ser_SHORT_INT_BYTES tmp_GENE_INFO ++ tl := by
  cases gs with
  | nil => exact absurd rfl hne
  | cons g t =>
    simp only [ungroup, List.flatMap_cons, List.cons_append, List.map_cons, seqW_cons_eq_some_iff] at h
    obtain ⟨b1, b2, h1, _, rfl⟩ := h
    simp only [writeItem, seqW_cons_eq_some_iff] at h1
    obtain ⟨bm, b3, hm, _, rfl⟩ := h1
    obtain ⟨rfl, _⟩ := writeShortInt_marker hm
    exact ⟨b3 ++ b2, by simp⟩

theorem ungroup_cons (g : Group ReadAssignment) (t : List (Group ReadAssignment)) :
    ungroup (g :: t) = Item.gene g.1 :: (g.2.map Item.read ++ ungroup t) := by
  simp [ungroup]

theorem loadGroups_writes {β} {rd : Rd β} {f : ReadAssignment → β} {P : ReadAssignment → Prop}
    (hrd : ReadsRecords rd f P) :
    ∀ (gs : List (Group ReadAssignment)) (fuel : Nat) (bs rest : Bytes), (ungroup gs).length < fuel →
      (∀ g ∈ gs, ∀ r ∈ g.2, P r) → seqW ((ungroup gs).map writeItem) = some bs →
      (readNat ser_SHORT_INT_BYTES >>= loadGroups rd fuel).run
          (bs ++ (toBE ser_SHORT_INT_BYTES ser_SHORT_TERMINATION_INT ++ rest)) =
        some (gs.map (fun g => (g.1, g.2.map f)), rest) := by
  intro gs
  induction gs with
  | nil =>
    intro fuel bs rest hf _ h
    cases seqW_nil_eq_some_iff.mp h
    obtain ⟨fuel', rfl⟩ : ∃ k, fuel = k + 1 := ⟨fuel - 1, by omega⟩
    simp [StateT.run_bind, readNat_toBE _ _ rest (by decide : ser_SHORT_TERMINATION_INT < 256 ^ ser_SHORT_INT_BYTES),
      loadGroups]
  | cons g t ih =>
    intro fuel bs rest hf hP h
    obtain ⟨fuel', rfl⟩ : ∃ k, fuel = k + 1 := ⟨fuel - 1, by omega⟩
    rw [ungroup_cons] at h hf
    simp only [List.map_cons, List.map_append, seqW_cons_eq_some_iff, seqW_append_eq_some_iff, List.map_map] at h
    obtain ⟨bg, _, hg, ⟨brs, bt, hrs, ht, rfl⟩, rfl⟩ := h
    simp only [writeItem, seqW_cons_eq_some_iff, seqW_nil_eq_some_iff] at hg
    obtain ⟨bm, _, hm, ⟨bh, _, hh, rfl, rfl⟩, rfl⟩ := hg
    obtain ⟨rfl, hmlt⟩ := writeShortInt_marker hm
    have hlen : g.2.length + (ungroup t).length < fuel' := by
      simp only [List.length_cons, List.length_append, List.length_map] at hf; omega
    have hgne : tmp_GENE_INFO ≠ ser_SHORT_TERMINATION_INT := by decide
    -- the marker that follows this group's reads
    obtain ⟨c, tl, hc1, hc2, htl⟩ : ∃ c tl, c ≠ tmp_READ_ASSIGNMENT ∧ c < 256 ^ ser_SHORT_INT_BYTES ∧
        bt ++ (toBE ser_SHORT_INT_BYTES ser_SHORT_TERMINATION_INT ++ rest) = toBE ser_SHORT_INT_BYTES c ++ tl := by
      by_cases hte : t = []
      · subst hte
        simp only [ungroup, List.flatMap_nil, List.map_nil] at ht
        cases seqW_nil_eq_some_iff.mp ht
        exact ⟨ser_SHORT_TERMINATION_INT, rest, by decide, by decide, rfl⟩
      · obtain ⟨tl, rfl⟩ := ungroup_head hte ht
        exact ⟨tmp_GENE_INFO, tl ++ (toBE ser_SHORT_INT_BYTES ser_SHORT_TERMINATION_INT ++ rest), by decide, by decide,
          by simp⟩
    have hreads := loadReads_writes hrd c hc1 hc2 g.2 fuel' brs tl (by omega)
      (fun r hr => hP g (by simp) r hr) (by simpa [Function.comp_def] using hrs)
    have ih' := ih fuel' bt rest (by omega) (fun g' hg' => hP g' (by simp [hg'])) ht
    rw [htl, StateT.run_bind, readNat_toBE _ _ tl hc2] at ih'
    simp only [Option.bind_eq_bind, Option.bind_some] at ih'
    simp only [StateT.run_bind, Option.bind_eq_bind] at hreads
    simp only [List.append_nil, List.append_assoc, StateT.run_bind, readNat_toBE _ _ _ hmlt, Option.bind_eq_bind,
      Option.bind_some, loadGroups, hgne, if_false, if_true, RT_writeGeneHeader g.1 bh _ trivial hh, htl]
    generalize StateT.run (readNat ser_SHORT_INT_BYTES) (brs ++ (toBE ser_SHORT_INT_BYTES c ++ tl)) = A at hreads ⊢
    cases A with
    | none => simp at hreads
    | some p =>
      simp only [Option.bind_some] at hreads ⊢
      rw [hreads]
      simp only [Option.bind_some, ih', List.map_cons]
      rfl

/-- every item costs at least its two marker bytes, so the loaders' fuel (stream length + 1) never runs out -/
theorem items_le_bytes : ∀ (items : List Item) (b : Bytes), seqW (items.map writeItem) = some b →
    items.length ≤ b.length := by
  intro items
  induction items with
  | nil => intro b _; simp
  | cons it t ih =>
    intro b h
    simp only [List.map_cons, seqW_cons_eq_some_iff] at h
    obtain ⟨b1, b2, h1, h2, rfl⟩ := h
    have : 2 ≤ b1.length := by
      cases it <;>
      · simp only [writeItem, seqW_cons_eq_some_iff] at h1
        obtain ⟨bm, b3, hm, _, rfl⟩ := h1
        obtain ⟨rfl, _⟩ := writeShortInt_marker hm
        have := toBE_length ser_SHORT_INT_BYTES
        simp only [List.length_append, toBE_length]
        have h2 : ser_SHORT_INT_BYTES = 2 := rfl
        omega
    have := ih b2 h2
    simp only [List.length_cons, List.length_append]
    omega

theorem loadStream_writes {β} {rd : Rd β} {f : ReadAssignment → β} {P : ReadAssignment → Prop}
    (hrd : ReadsRecords rd f P) (gs : List (Group ReadAssignment)) (bs rest : Bytes)
    (hP : ∀ g ∈ gs, ∀ r ∈ g.2, P r) (h : writeStream (ungroup gs) = some bs) :
    (loadStream rd).run (bs ++ rest) = some (gs.map (fun g => (g.1, g.2.map f)), rest) := by
  simp only [writeStream, seqW_append_eq_some_iff, seqW_cons_eq_some_iff, seqW_nil_eq_some_iff] at h
  obtain ⟨b, _, hb, ⟨bt, _, ht, rfl, rfl⟩, rfl⟩ := h
  obtain ⟨rfl, _⟩ := writeShortInt_marker ht
  have hlen := items_le_bytes _ _ hb
  have hfuel : (ungroup gs).length < (b ++ toBE ser_SHORT_INT_BYTES ser_SHORT_TERMINATION_INT ++ [] ++ rest).length + 1 := by
    simp only [List.length_append]; omega
  have := loadGroups_writes hrd gs _ b rest hfuel hP hb
  simp only [StateT.run_bind] at this
  simp only [loadStream, StateT.run_bind, List.append_nil, List.append_assoc] at this ⊢
  exact this

theorem loadMultimapLoop_writes {norm : BasicReadAssignment → BasicReadAssignment}
    (hrt : RTn writeBasic readBasic norm (fun _ => True)) :
    ∀ (ls : List (List BasicReadAssignment)) (fuel : Nat) (bs rest : Bytes), ls.length < fuel →
      (∀ l ∈ ls, l.length ≠ ser_TERMINATION_INT) →
      seqW (ls.map (fun l => writeList l writeBasic)) = some bs →
      (readNat ser_LONG_INT_BYTES >>= loadMultimapLoop fuel).run
          (bs ++ (toBE ser_LONG_INT_BYTES ser_TERMINATION_INT ++ rest)) =
        some (ls.map (List.map norm), rest) := by
  intro ls
  induction ls with
  | nil =>
    intro fuel bs rest hf _ h
    cases seqW_nil_eq_some_iff.mp h
    obtain ⟨fuel', rfl⟩ : ∃ k, fuel = k + 1 := ⟨fuel - 1, by omega⟩
    simp [StateT.run_bind, readNat_toBE _ _ rest (by decide : ser_TERMINATION_INT < 256 ^ ser_LONG_INT_BYTES),
      loadMultimapLoop]
  | cons l t ih =>
    intro fuel bs rest hf hne h
    obtain ⟨fuel', rfl⟩ : ∃ k, fuel = k + 1 := ⟨fuel - 1, by omega⟩
    simp only [List.map_cons, seqW_cons_eq_some_iff] at h
    obtain ⟨b1, b2, h1, h2, rfl⟩ := h
    simp only [writeList, seqW_cons_eq_some_iff] at h1
    obtain ⟨bn, bl, hn, hl, rfl⟩ := h1
    have hlne : l.length ≠ ser_TERMINATION_INT := hne l (by simp)
    have ih' := ih fuel' b2 rest (by simp at hf; omega) (fun x hx => hne x (by simp [hx])) h2
    simp only [StateT.run_bind, Option.bind_eq_bind] at ih'
    simp only [List.append_assoc, StateT.run_bind, readNat_write _ hn, Option.bind_eq_bind, Option.bind_some,
      loadMultimapLoop, hlne, if_false, readN_writes_n hrt l bl _ (fun _ _ => trivial) hl]
    generalize StateT.run (readNat ser_LONG_INT_BYTES) (b2 ++ (toBE ser_LONG_INT_BYTES ser_TERMINATION_INT ++ rest)) = A
      at ih' ⊢
    cases A with
    | none => simp at ih'
    | some p =>
      simp only [Option.bind_some] at ih' ⊢
      rw [ih']
      simp

end IsoVerif.Lemmas.Serial
