/-
C07: merging of the per-chromosome files and the final clean-up in a run of the repaired code.
-/
import IsoVerif.Lemmas.ResumeConstruct

namespace IsoVerif.Lemmas.Resume
open IsoVerif.Model.Resume

def stepStream : MStep → Stream
  | .parts s => s
  | .ungrouped s => s
  | .grouped s => s
  | .profile s => s

/-- paths a merge step of stream `s` may touch -/
def Tstep (s : Stream) : Path → Bool
  | .part s' _ => s' == s
  | .partLin s' _ => s' == s
  | .partStats s' _ => s' == s
  | .final s' => s' == s
  | .finalLin s' => s' == s
  | .tpm s' => s' == s
  | .finalGz s' => s' == s
  | _ => false

/-- the per-chromosome files a merge step consumes -/
def stepFiles (c : Chr) : MStep → List Path
  | .parts s => [.part s c]
  | .ungrouped s => [.part s c, .partStats s c]
  | .grouped s => [.part s c, .partLin s c]
  | .profile s => [.part s c]

/-- the final files a merge step completes -/
def stepFinals : MStep → List Path
  | .parts _ => []
  | .ungrouped s => [.final s, .tpm s]
  | .grouped s => [.final s, .finalLin s, .tpm s]
  | .profile s => [.final s]

/-- what a merge event may be: the removal of a per-chromosome file of a configured chromosome, or an event on a final file -/
def MergeEv (cfg : Cfg) (e : Ev) : Prop :=
  (∃ s c, c ∈ cfg.chrs ∧ (e = .remove (.part s c) ∨ e = .remove (.partLin s c) ∨ e = .remove (.partStats s c))) ∨ Tfin e.path = true

def notStats : Path → Bool
  | .partStats _ _ => false
  | _ => true
def notLin : Path → Bool
  | .partLin _ _ => false
  | _ => true

theorem checks_exist_rm {l : List Chr} {f : Chr → Path} {fs : FS} (nd : l.Nodup) (inj : ∀ a b, f a = f b → a = b)
    (h : ∀ c ∈ l, fs.has (f c) = true) : ChecksOK (l.flatMap (fun c => [Act.exist (f c), Act.rm (f c)])) fs := by
  induction l generalizing fs with
  | nil => trivial
  | cons a l ih =>
    have nd' := List.nodup_cons.mp nd
    simp only [List.flatMap_cons, List.cons_append, List.nil_append, ChecksOK]
    refine ⟨h a (by simp), h a (by simp), ih nd'.2 ?_⟩
    intro c hc
    simp only [apply, Ev.path, Ev.val]; rw [has_set]
    have : f c ≠ f a := fun e => nd'.1 (inj _ _ e ▸ hc)
    simp [this, h c (by simp [hc])]

theorem eventsOf_exist_rm (l : List Chr) (f : Chr → Path) :
    eventsOf (l.flatMap (fun c => [Act.exist (f c), Act.rm (f c)])) = l.map (fun c => Ev.remove (f c)) := by
  induction l with
  | nil => rfl
  | cons a l ih => simp only [List.flatMap_cons, List.cons_append, List.nil_append, eventsOf, List.map_cons]; rw [ih]

theorem eventsOf_cons_ev (e : Ev) (as : List Act) : eventsOf (Act.ev e :: as) = e :: eventsOf as := rfl

/-- events of one merge step -/
theorem step_events (cfg : Cfg) (unal : Bool) (fs0 : FS) (st : MStep) :
    eventsOf (stepActs cfg unal fs0 st) =
      match st with
      | .parts s => cfg.mchrs.map (fun c => Ev.remove (.part s c))
      | .ungrouped s =>
          .append (.final s) :: cfg.mchrs.map (fun c => Ev.remove (.part s c))
          ++ cfg.chrs.map (fun c => Ev.remove (.partStats s c))
          ++ [.commit (.final s) (tokOf (allGood fs0 (cfg.mchrs.map (Path.part s)) && allGood fs0 (cfg.chrs.map (Path.partStats s))
                  && (unal || !cfg.unmapped))), .create (.tpm s),
              .commit (.tpm s) (tokOf (allGood fs0 (cfg.mchrs.map (Path.part s)) && allGood fs0 (cfg.chrs.map (Path.partStats s))
                  && (unal || !cfg.unmapped)))]
      | .grouped s =>
          .append (.final s) :: cfg.mchrs.map (fun c => Ev.remove (.part s c))
          ++ .append (.finalLin s) :: cfg.mchrs.map (fun c => Ev.remove (.partLin s c))
          ++ [.commit (.final s) (tokOf (allGood fs0 (cfg.mchrs.map (Path.part s)))),
              .commit (.finalLin s) (tokOf (allGood fs0 (cfg.mchrs.map (Path.partLin s)))), .create (.tpm s),
              .commit (.tpm s) (tokOf (allGood fs0 (cfg.mchrs.map (Path.part s))))]
      | .profile s =>
          .append (.final s) :: cfg.mchrs.map (fun c => Ev.remove (.part s c))
          ++ [.commit (.final s) (tokOf (allGood fs0 (cfg.mchrs.map (Path.part s))))] := by
  cases st with
  | parts s => simp [stepActs, rmParts, eventsOf_rmAll, List.map_map, Function.comp_def]
  | ungrouped s =>
    simp [stepActs, mergeUngrouped, rmParts, eventsOf_cons_ev, eventsOf_append, eventsOf_rmAll, eventsOf_exist_rm,
      List.map_map, Function.comp_def]
  | grouped s =>
    simp [stepActs, mergeGrouped, rmParts, eventsOf_cons_ev, eventsOf_append, eventsOf_rmAll, List.map_map,
      Function.comp_def]
  | profile s =>
    simp [stepActs, mergeProfile, rmParts, eventsOf_cons_ev, eventsOf_append, eventsOf_rmAll, List.map_map,
      Function.comp_def]

theorem step_T (cfg : Cfg) (unal : Bool) (fs0 : FS) (st : MStep) :
    (eventsOf (stepActs cfg unal fs0 st)).all (fun e => Tstep (stepStream st) e.path) = true := by
  rw [step_events]
  cases st <;> simp [List.all_append, List.all_map, Function.comp_def, Tstep, stepStream, Ev.path]

theorem step_mergeEv {cfg : Cfg} (wf : WF cfg) (unal : Bool) (fs0 : FS) (st : MStep) :
    ∀ e ∈ eventsOf (stepActs cfg unal fs0 st), MergeEv cfg e := by
  rw [step_events]
  intro e he
  cases st with
  | parts s =>
    simp only [List.mem_map] at he; obtain ⟨c, hc, rfl⟩ := he
    exact Or.inl ⟨s, c, (wf.m_iff c).mp hc, Or.inl rfl⟩
  | ungrouped s =>
    simp only [List.cons_append, List.mem_cons, List.mem_append, List.mem_map, List.not_mem_nil, or_false] at he
    rcases he with rfl | (⟨c, hc, rfl⟩ | ⟨c, hc, rfl⟩) | rfl | rfl | rfl
    · exact Or.inr rfl
    · exact Or.inl ⟨s, c, (wf.m_iff c).mp hc, Or.inl rfl⟩
    · exact Or.inl ⟨s, c, hc, Or.inr (Or.inr rfl)⟩
    · exact Or.inr rfl
    · exact Or.inr rfl
    · exact Or.inr rfl
  | grouped s =>
    simp only [List.cons_append, List.mem_cons, List.mem_append, List.mem_map, List.not_mem_nil, or_false] at he
    rcases he with rfl | (⟨c, hc, rfl⟩ | rfl | ⟨c, hc, rfl⟩) | rfl | rfl | rfl | rfl
    · exact Or.inr rfl
    · exact Or.inl ⟨s, c, (wf.m_iff c).mp hc, Or.inl rfl⟩
    · exact Or.inr rfl
    · exact Or.inl ⟨s, c, (wf.m_iff c).mp hc, Or.inr (Or.inl rfl)⟩
    · exact Or.inr rfl
    · exact Or.inr rfl
    · exact Or.inr rfl
    · exact Or.inr rfl
  | profile s =>
    simp only [List.cons_append, List.mem_cons, List.mem_append, List.mem_map, List.not_mem_nil, or_false] at he
    rcases he with rfl | ⟨c, hc, rfl⟩ | rfl
    · exact Or.inr rfl
    · exact Or.inl ⟨s, c, (wf.m_iff c).mp hc, Or.inl rfl⟩
    · exact Or.inr rfl

/-- a merge step completes when the files it consumes exist -/
theorem step_checks {cfg : Cfg} (wf : WF cfg) (unal : Bool) (fs0 : FS) {fs : FS} (st : MStep)
    (hf : ∀ c ∈ cfg.chrs, ∀ d ∈ stepFiles c st, fs.has d = true) : ChecksOK (stepActs cfg unal fs0 st) fs := by
  have hpart : ∀ s, (∀ c ∈ cfg.chrs, fs.has (.part s c) = true) → ∀ fs', (∀ c, fs' (.part s c) = fs (.part s c)) →
      ChecksOK (rmParts cfg (Path.part s)) fs' := by
    intro s h fs' heq
    apply checks_rmAll (nodup_map_inj wf.mnd (fun a b e => by injection e))
    intro p hp; simp only [List.mem_map] at hp; obtain ⟨c, hc, rfl⟩ := hp
    simp only [FS.has, heq]; exact h c ((wf.m_iff c).mp hc)
  cases st with
  | parts s => exact hpart s (fun c hc => hf c hc _ (by simp [stepFiles])) fs (fun _ => rfl)
  | ungrouped s =>
    simp only [stepActs, mergeUngrouped]
    refine (checks_append.mpr ⟨checks_append.mpr ⟨?_, ?_⟩, checks_evs _ _⟩ : ChecksOK ((Act.ev (.append (.final s)) :: rmParts cfg (Path.part s) ++ _) ++ _) fs)
    · show ChecksOK (rmParts cfg (Path.part s)) (apply fs (.append (.final s)))
      exact hpart s (fun c hc => hf c hc _ (by simp [stepFiles])) _ (fun c => set_other _ _ (by simp [Ev.path]))
    · apply checks_exist_rm wf.nd (fun a b e => by injection e)
      intro c hc
      have hT : (eventsOf (Act.ev (.append (.final s)) :: rmParts cfg (Path.part s))).all
          (fun e => notStats e.path) = true := by
        simp [eventsOf_cons_ev, rmParts, eventsOf_rmAll, List.all_map, Function.comp_def, Ev.path, notStats]
      simp only [FS.has]; rw [frame notStats hT rfl]; exact hf c hc _ (by simp [stepFiles])
  | grouped s =>
    simp only [stepActs, mergeGrouped]
    refine (checks_append.mpr ⟨checks_append.mpr ⟨?_, ?_⟩, checks_evs _ _⟩ :
      ChecksOK ((Act.ev (.append (.final s)) :: rmParts cfg (Path.part s) ++ Act.ev (.append (.finalLin s)) :: rmParts cfg (Path.partLin s)) ++ _) fs)
    · show ChecksOK (rmParts cfg (Path.part s)) (apply fs (.append (.final s)))
      exact hpart s (fun c hc => hf c hc _ (by simp [stepFiles])) _ (fun c => set_other _ _ (by simp [Ev.path]))
    · show ChecksOK (rmParts cfg (Path.partLin s)) (apply (applyAll fs (eventsOf (Act.ev (.append (.final s)) :: rmParts cfg (Path.part s)))) (.append (.finalLin s)))
      apply checks_rmAll (nodup_map_inj wf.mnd (fun a b e => by injection e))
      intro p hp; simp only [List.mem_map] at hp; obtain ⟨c, hc, rfl⟩ := hp
      have hT : (eventsOf (Act.ev (.append (.final s)) :: rmParts cfg (Path.part s))).all
          (fun e => notLin e.path) = true := by
        simp [eventsOf_cons_ev, rmParts, eventsOf_rmAll, List.all_map, Function.comp_def, Ev.path, notLin]
      simp only [FS.has, apply]; rw [set_other _ _ (by simp [Ev.path]), frame notLin hT rfl]
      exact hf c ((wf.m_iff c).mp hc) _ (by simp [stepFiles])
  | profile s =>
    simp only [stepActs, mergeProfile]
    refine (checks_append.mpr ⟨?_, checks_evs _ _⟩ : ChecksOK ((Act.ev (.append (.final s)) :: rmParts cfg (Path.part s)) ++ _) fs)
    show ChecksOK (rmParts cfg (Path.part s)) (apply fs (.append (.final s)))
    exact hpart s (fun c hc => hf c hc _ (by simp [stepFiles])) _ (fun c => set_other _ _ (by simp [Ev.path]))


theorem eventsOf_flatMap {α : Type} (l : List α) (f : α → List Act) :
    eventsOf (l.flatMap f) = l.flatMap (fun a => eventsOf (f a)) := by
  induction l with
  | nil => rfl
  | cons a l ih => simp only [List.flatMap_cons, eventsOf_append, ih]

theorem Tstep_disjoint {s s' : Stream} {p : Path} (h : Tstep s p = true) (h' : Tstep s' p = true) : s = s' := by
  cases p <;> simp_all [Tstep]

theorem stepFiles_T {c : Chr} {st : MStep} {d : Path} (h : d ∈ stepFiles c st) : Tstep (stepStream st) d = true := by
  cases st <;> simp only [stepFiles, List.mem_cons, List.not_mem_nil, or_false] at h
  · subst h; simp [Tstep, stepStream]
  · rcases h with rfl | rfl <;> simp [Tstep, stepStream]
  · rcases h with rfl | rfl <;> simp [Tstep, stepStream]
  · subst h; simp [Tstep, stepStream]

theorem stepFinals_T {st : MStep} {d : Path} (h : d ∈ stepFinals st) : Tstep (stepStream st) d = true := by
  cases st <;> simp only [stepFinals, List.mem_cons, List.not_mem_nil, or_false] at h
  · rcases h with rfl | rfl <;> simp [Tstep, stepStream]
  · rcases h with rfl | rfl | rfl <;> simp [Tstep, stepStream]
  · subst h; simp [Tstep, stepStream]

/-- events of steps of other streams leave the paths of stream `s` alone -/
theorem steps_frame (cfg : Cfg) (unal : Bool) (fs0 : FS) (steps : List MStep) (s : Stream)
    (hne : ∀ st ∈ steps, stepStream st ≠ s) {p : Path} (hp : Tstep s p = true) (fs : FS) :
    applyAll fs (eventsOf (steps.flatMap (stepActs cfg unal fs0))) p = fs p := by
  apply applyAll_untouched
  intro e he hpe
  rw [eventsOf_flatMap] at he
  simp only [List.mem_flatMap] at he
  obtain ⟨st, hst, he⟩ := he
  have := step_T cfg unal fs0 st
  simp only [List.all_eq_true] at this
  have h1 := this e he
  rw [hpe] at h1
  exact hne st hst (Tstep_disjoint h1 hp)

theorem steps_checks {cfg : Cfg} (wf : WF cfg) (unal : Bool) (fs0 : FS) (steps : List MStep)
    (hnd : (steps.map stepStream).Nodup) {fs : FS}
    (hf : ∀ st ∈ steps, ∀ c ∈ cfg.chrs, ∀ d ∈ stepFiles c st, fs.has d = true) :
    ChecksOK (steps.flatMap (stepActs cfg unal fs0)) fs := by
  induction steps generalizing fs with
  | nil => trivial
  | cons st steps ih =>
    simp only [List.map_cons, List.nodup_cons] at hnd
    simp only [List.flatMap_cons]
    rw [checks_append]
    refine ⟨step_checks wf unal fs0 st (hf st (by simp)), ih hnd.2 ?_⟩
    intro st' hst' c hc d hd
    have hT := stepFiles_T hd
    have hne : stepStream st' ≠ stepStream st := fun e => hnd.1 (by rw [← e]; exact List.mem_map_of_mem hst')
    have h1 : Tstep (stepStream st) d = false := by
      cases hq : Tstep (stepStream st) d with
      | false => rfl
      | true => exact absurd (Tstep_disjoint hT hq) hne
    simp only [FS.has]; rw [frame _ (step_T cfg unal fs0 st) h1]
    exact hf st' (by simp [hst']) c hc d hd

/-- the boolean conditions under which a step writes `good` final files -/
def stepTokOK (cfg : Cfg) (unal : Bool) (fs0 : FS) : MStep → Prop
  | .parts _ => True
  | .ungrouped s => (allGood fs0 (cfg.mchrs.map (Path.part s)) && allGood fs0 (cfg.chrs.map (Path.partStats s))
                      && (unal || !cfg.unmapped)) = true
  | .grouped s => allGood fs0 (cfg.mchrs.map (Path.part s)) = true ∧ allGood fs0 (cfg.mchrs.map (Path.partLin s)) = true
  | .profile s => allGood fs0 (cfg.mchrs.map (Path.part s)) = true

theorem step_finals (cfg : Cfg) (unal : Bool) (fs0 fs : FS) (st : MStep) (htok : stepTokOK cfg unal fs0 st) :
    ∀ p ∈ stepFinals st, (applyAll fs (eventsOf (stepActs cfg unal fs0 st))).good p = true := by
  intro p hp
  rw [step_events]
  cases st with
  | parts s => simp [stepFinals] at hp
  | ungrouped s =>
    simp only [stepTokOK] at htok
    simp only [stepFinals, List.mem_cons, List.not_mem_nil, or_false] at hp
    simp only [htok, tokOf, if_true, applyAll_append, FS.good]
    rcases hp with rfl | rfl <;> simp [applyAll, apply, FS.set, Ev.path, Ev.val]
  | grouped s =>
    simp only [stepTokOK] at htok
    simp only [stepFinals, List.mem_cons, List.not_mem_nil, or_false] at hp
    simp only [htok.1, htok.2, tokOf, if_true, applyAll_append, FS.good]
    rcases hp with rfl | rfl | rfl <;> simp [applyAll, apply, FS.set, Ev.path, Ev.val]
  | profile s =>
    simp only [stepTokOK] at htok
    simp only [stepFinals, List.mem_cons, List.not_mem_nil, or_false] at hp
    simp only [htok, tokOf, if_true, applyAll_append, FS.good]
    subst hp; simp [applyAll, apply, FS.set, Ev.path, Ev.val]

theorem steps_finals (cfg : Cfg) (unal : Bool) (fs0 : FS) (steps : List MStep) (hnd : (steps.map stepStream).Nodup)
    (htok : ∀ st ∈ steps, stepTokOK cfg unal fs0 st) (fs : FS) :
    ∀ st ∈ steps, ∀ p ∈ stepFinals st,
      (applyAll fs (eventsOf (steps.flatMap (stepActs cfg unal fs0)))).good p = true := by
  induction steps generalizing fs with
  | nil => intro st hst; simp at hst
  | cons st0 steps ih =>
    simp only [List.map_cons, List.nodup_cons] at hnd
    intro st hst p hp
    simp only [List.flatMap_cons, eventsOf_append, applyAll_append]
    simp only [List.mem_cons] at hst
    rcases hst with rfl | hst
    · simp only [FS.good]
      rw [steps_frame cfg unal fs0 steps (stepStream st) _ (stepFinals_T hp)]
      · exact step_finals cfg unal fs0 fs st (htok st (by simp)) p hp
      · intro st' hst' e; exact hnd.1 (by rw [← e]; exact List.mem_map_of_mem hst')
    · exact ih hnd.2 (fun st' hst' => htok st' (by simp [hst'])) _ st hst p hp

/-- paths touched by merging -/
def Tmerge : Path → Bool
  | .part _ _ => true
  | .partLin _ _ => true
  | .partStats _ _ => true
  | .final _ => true
  | .finalLin _ => true
  | .tpm _ => true
  | .finalGz _ => true
  | _ => false

theorem mergeEv_T {cfg : Cfg} {e : Ev} (h : MergeEv cfg e) : Tmerge e.path = true := by
  rcases h with ⟨s, c, _, rfl | rfl | rfl⟩ | h
  · rfl
  · rfl
  · rfl
  · revert h; cases e.path <;> simp [Tfin, Tmerge]

theorem mergeSteps_nodup (cfg : Cfg) : ((mergeSteps cfg).map stepStream).Nodup := by
  rcases cfg with ⟨chrs, mchrs, bchrs, genedb, rg, keepTmp, unmapped, fromSaves, sqanti, carried, countExons, noModel, gz, hm⟩
  cases genedb <;> cases rg <;> cases countExons <;> cases noModel <;>
    simp [mergeSteps, modelGrouped, ungroupedGlobal, groupedGlobal, profileGlobal, profileGrouped, stepStream]

/-- no merge step works on the SQANTI-like table (it is merged by `sqMerge`) -/
theorem mergeSteps_not_sq (cfg : Cfg) : ∀ st ∈ mergeSteps cfg, stepStream st ≠ .sq := by
  rcases cfg with ⟨chrs, mchrs, bchrs, genedb, rg, keepTmp, unmapped, fromSaves, sqanti, carried, countExons, noModel, gz, hm⟩
  cases genedb <;> cases rg <;> cases countExons <;> cases noModel <;>
    simp [mergeSteps, modelGrouped, ungroupedGlobal, groupedGlobal, profileGlobal, profileGrouped, stepStream]

theorem mergeSteps_files (cfg : Cfg) (c : Chr) : ∀ st ∈ mergeSteps cfg, ∀ d ∈ stepFiles c st, d ∈ chrOutputs cfg c := by
  rcases cfg with ⟨chrs, mchrs, bchrs, genedb, rg, keepTmp, unmapped, fromSaves, sqanti, carried, countExons, noModel, gz, hm⟩
  cases genedb <;> cases rg <;> cases sqanti <;> cases countExons <;> cases noModel <;>
    simp [mergeSteps, modelGrouped, modelUngrouped, ungroupedGlobal, groupedGlobal, profile, profileGlobal, profileGrouped,
      stepFiles, chrOutputs, printerStreams, aggPrinters, gffStreams, sqStreams, sqOn, ungrouped, grouped]

theorem printer_parts (cfg : Cfg) (c : Chr) : ∀ s ∈ printerStreams cfg, Path.part s c ∈ chrOutputs cfg c := by
  intro s hs; simp only [chrOutputs, List.mem_append, List.mem_map]
  exact Or.inl (Or.inl (Or.inl (Or.inl ⟨s, hs, rfl⟩)))

/-- the streams written by printers (kept open; the others are counters, written by `dump`) -/
def isPrinter : Stream → Bool
  | .bed | .assign | .gtf | .r2t | .ext | .sq => true
  | _ => false

theorem printerStreams_isPrinter (cfg : Cfg) : ∀ s ∈ printerStreams cfg, isPrinter s = true := by
  rcases cfg with ⟨chrs, mchrs, bchrs, genedb, rg, keepTmp, unmapped, fromSaves, sqanti, carried, countExons, noModel, gz, hm⟩
  cases genedb <;> cases sqanti <;> cases noModel <;>
    simp [printerStreams, aggPrinters, gffStreams, sqStreams, sqOn, isPrinter]

theorem counters_not_printer (cfg : Cfg) : ∀ s ∈ ungrouped cfg ++ grouped cfg ++ profile cfg, isPrinter s = false := by
  rcases cfg with ⟨chrs, mchrs, bchrs, genedb, rg, keepTmp, unmapped, fromSaves, sqanti, carried, countExons, noModel, gz, hm⟩
  cases genedb <;> cases rg <;> cases countExons <;> cases noModel <;>
    simp [modelGrouped, modelUngrouped, ungroupedGlobal, groupedGlobal, profile, profileGlobal, profileGrouped, ungrouped,
      grouped, isPrinter]

/-- every final file of a counter is completed by a merge step -/
theorem counter_finals_steps (cfg : Cfg) :
    ∀ p ∈ (ungrouped cfg).flatMap (fun s => [Path.final s, Path.tpm s])
          ++ (grouped cfg).flatMap (fun s => [Path.final s, Path.finalLin s, Path.tpm s])
          ++ (profile cfg).map Path.final, ∃ st ∈ mergeSteps cfg, p ∈ stepFinals st := by
  rcases cfg with ⟨chrs, mchrs, bchrs, genedb, rg, keepTmp, unmapped, fromSaves, sqanti, carried, countExons, noModel, gz, hm⟩
  cases genedb <;> cases rg <;> cases countExons <;> cases noModel <;>
    simp [mergeSteps, modelGrouped, modelUngrouped, ungroupedGlobal, groupedGlobal, profile, profileGlobal, profileGrouped,
      stepFinals, ungrouped, grouped]

/-- every final file is closed by the last segment (printers) or completed by a merge step of a stream that is not a printer -/
theorem finalPaths_cases (cfg : Cfg) : ∀ p ∈ finalPaths cfg,
    (∃ s ∈ printerStreams cfg, p = finalOf cfg s) ∨
      ((∃ st ∈ mergeSteps cfg, p ∈ stepFinals st) ∧ ∀ s ∈ printerStreams cfg, p ≠ finalOf cfg s) := by
  intro p hp
  simp only [finalPaths, List.append_assoc] at hp
  rcases List.mem_append.mp hp with hp | hp
  · simp only [List.mem_map] at hp; obtain ⟨s, hs, rfl⟩ := hp; exact Or.inl ⟨s, hs, rfl⟩
  · refine Or.inr ⟨counter_finals_steps cfg p (by simpa only [List.append_assoc] using hp), ?_⟩
    intro s hs e
    have hpr := printerStreams_isPrinter cfg s hs
    have hnp := counters_not_printer cfg
    simp only [List.mem_append, List.mem_flatMap, List.mem_map, List.mem_cons, List.not_mem_nil, or_false] at hp hnp
    have key : ∀ s', (p = .final s' ∨ p = .finalLin s' ∨ p = .tpm s') → isPrinter s' = false → False := by
      intro s' h1 h2
      rcases finalOf_cases cfg s with e' | e' <;> rw [e'] at e <;> subst e <;>
        rcases h1 with h1 | h1 | h1 <;> first | (injection h1 with h1; subst h1; simp [hpr] at h2) | cases h1
    rcases hp with ⟨s', h1, h2 | h2⟩ | ⟨s', h1, h2 | h2 | h2⟩ | ⟨s', h1, h2⟩
    · exact key s' (Or.inl h2) (hnp s' (Or.inl (Or.inl h1)))
    · exact key s' (Or.inr (Or.inr h2)) (hnp s' (Or.inl (Or.inl h1)))
    · exact key s' (Or.inl h2) (hnp s' (Or.inl (Or.inr h1)))
    · exact key s' (Or.inr (Or.inl h2)) (hnp s' (Or.inl (Or.inr h1)))
    · exact key s' (Or.inr (Or.inr h2)) (hnp s' (Or.inl (Or.inr h1)))
    · exact key s' (Or.inl h2.symm) (hnp s' (Or.inr h1))

theorem sqMerge_events (cfg : Cfg) :
    eventsOf (sqMerge cfg) = (sqStreams cfg).flatMap (fun s => Ev.create (.final s) :: cfg.mchrs.map (fun c => Ev.remove (.part s c))) := by
  simp only [sqMerge, sqStreams]
  split <;> simp [eventsOf_cons_ev, rmParts, eventsOf_rmAll, List.map_map, Function.comp_def, eventsOf]

theorem sqMerge_mergeEv {cfg : Cfg} (wf : WF cfg) : ∀ e ∈ eventsOf (sqMerge cfg), MergeEv cfg e := by
  rw [sqMerge_events]
  intro e he
  simp only [List.mem_flatMap, List.mem_cons, List.mem_map] at he
  obtain ⟨s, _, rfl | ⟨c, hc, rfl⟩⟩ := he
  · exact Or.inr rfl
  · exact Or.inl ⟨s, c, (wf.m_iff c).mp hc, Or.inl rfl⟩

theorem sqMerge_checks {cfg : Cfg} (wf : WF cfg) {fs : FS}
    (h : sqOn cfg = true → ∀ c ∈ cfg.chrs, fs.has (.part .sq c) = true) : ChecksOK (sqMerge cfg) fs := by
  simp only [sqMerge, sqStreams]
  split
  · rename_i hq
    simp only [List.flatMap_cons, List.flatMap_nil, List.append_nil]
    show ChecksOK (rmParts cfg (Path.part .sq)) (apply fs (.create (.final .sq)))
    apply checks_rmAll (nodup_map_inj wf.mnd (fun a b e => by injection e))
    intro p hp; simp only [List.mem_map] at hp; obtain ⟨c, hc, rfl⟩ := hp
    simp only [FS.has, apply]; rw [set_other _ _ (by simp [Ev.path])]
    exact h hq c ((wf.m_iff c).mp hc)
  · trivial

theorem sq_part_mem (cfg : Cfg) (hq : sqOn cfg = true) (c : Chr) : Path.part .sq c ∈ chrOutputs cfg c := by
  apply printer_parts
  simp [printerStreams, sqStreams, hq]

theorem merge_stage {cfg : Cfg} (wf : WF cfg) {fs : FS} (h : J cfg fs)
    (hout : ∀ c ∈ cfg.chrs, ∀ d ∈ chrOutputs cfg c, fs.good d = true)
    (hnp : ∀ c ∈ cfg.chrs, fs.has (.processed c) = false) :
    Good cfg fs (runActs (mergeStage cfg true fs) fs) ∧
      (∀ p ∈ finalPaths cfg, (runActs (mergeStage cfg true fs) fs).fs.good p = true) ∧
      (∀ p, Tmerge p = false → (runActs (mergeStage cfg true fs) fs).fs p = fs p) := by
  unfold mergeStage
  have hall : ∀ (f : Chr → Path), (∀ c, f c ∈ chrOutputs cfg c) → ∀ l : List Chr, (∀ c ∈ l, c ∈ cfg.chrs) →
      allGood fs (l.map f) = true := by
    intro f hf l hl
    simp only [allGood, List.all_map, List.all_eq_true, Function.comp]
    intro c hc; exact hout c (hl c hc) _ (hf c)
  have hseg : (printerStreams cfg).map (fun s => Ev.commit (finalOf cfg s) (tokOf (allGood fs (cfg.mchrs.map (Path.part s)))))
      = (printerStreams cfg).map (fun s => Ev.commit (finalOf cfg s) .good) := by
    apply List.map_congr_left
    intro s hs
    rw [hall (Path.part s) (fun c => printer_parts cfg c s hs) cfg.mchrs (fun c hc => (wf.m_iff c).mp hc)]
    rfl
  rw [hseg]
  generalize hS : (printerStreams cfg).map (fun s => Ev.commit (finalOf cfg s) .good) = S
  have htok : ∀ st ∈ mergeSteps cfg, stepTokOK cfg true fs st := by
    intro st hst
    have hfiles := fun c => mergeSteps_files cfg c st hst
    cases st with
    | parts s => trivial
    | ungrouped s =>
      simp only [stepTokOK]
      rw [hall (Path.part s) (fun c => hfiles c _ (by simp [stepFiles])) cfg.mchrs (fun c hc => (wf.m_iff c).mp hc),
          hall (Path.partStats s) (fun c => hfiles c _ (by simp [stepFiles])) cfg.chrs (fun c hc => hc)]
      rfl
    | grouped s =>
      exact ⟨hall (Path.part s) (fun c => hfiles c _ (by simp [stepFiles])) cfg.mchrs (fun c hc => (wf.m_iff c).mp hc),
             hall (Path.partLin s) (fun c => hfiles c _ (by simp [stepFiles])) cfg.mchrs (fun c hc => (wf.m_iff c).mp hc)⟩
    | profile s =>
      exact hall (Path.part s) (fun c => hfiles c _ (by simp [stepFiles])) cfg.mchrs (fun c hc => (wf.m_iff c).mp hc)
  have hck : ChecksOK ((mergeSteps cfg).flatMap (stepActs cfg true fs) ++ sqMerge cfg ++ evs S) fs := by
    rw [checks_append, checks_append]
    refine ⟨⟨steps_checks wf true fs _ (mergeSteps_nodup cfg) ?_, sqMerge_checks wf ?_⟩, checks_evs _ _⟩
    · intro st hst c hc d hd
      exact good_has (hout c hc d (mergeSteps_files cfg c st hst d hd))
    · intro hq c hc
      simp only [FS.has]
      rw [steps_frame cfg true fs (mergeSteps cfg) .sq (mergeSteps_not_sq cfg) (by simp [Tstep])]
      exact good_has (hout c hc _ (sq_part_mem cfg hq c))
  have hev : eventsOf ((mergeSteps cfg).flatMap (stepActs cfg true fs) ++ sqMerge cfg ++ evs S)
      = (eventsOf ((mergeSteps cfg).flatMap (stepActs cfg true fs)) ++ eventsOf (sqMerge cfg)) ++ S := by
    rw [eventsOf_append, eventsOf_append, eventsOf_evs]
  have hmev : ∀ e ∈ (eventsOf ((mergeSteps cfg).flatMap (stepActs cfg true fs)) ++ eventsOf (sqMerge cfg)) ++ S, MergeEv cfg e := by
    intro e he
    simp only [List.mem_append] at he
    rcases he with (he | he) | he
    · rw [eventsOf_flatMap] at he; simp only [List.mem_flatMap] at he
      obtain ⟨st, _, he⟩ := he
      exact step_mergeEv wf true fs st e he
    · exact sqMerge_mergeEv wf e he
    · subst hS; simp only [List.mem_map] at he; obtain ⟨s, _, rfl⟩ := he; exact Or.inr (Tfin_finalOf cfg s)
  have hJ : AllP (J cfg) fs ((eventsOf ((mergeSteps cfg).flatMap (stepActs cfg true fs)) ++ eventsOf (sqMerge cfg)) ++ S) := by
    apply allJ_body h
    · intro e he hp
      have := mergeEv_T (hmev e he); rw [hp] at this; simp [Tmerge] at this
    · intro e he hl
      have := mergeEv_T (hmev e he)
      revert hl this; cases e.path <;> simp [isLock, Tmerge]
    · intro e he _ l hm
      have hl := mem_guarded_locksOf hm
      rcases hmev e he with ⟨s, c, hc, rfl | rfl | rfl⟩ | hT
      · simp only [Ev.path, locksOf, List.mem_cons, List.not_mem_nil, or_false] at hl; subst hl; exact hnp c hc
      · simp only [Ev.path, locksOf, List.mem_cons, List.not_mem_nil, or_false] at hl; subst hl; exact hnp c hc
      · simp only [Ev.path, locksOf, List.mem_cons, List.not_mem_nil, or_false] at hl; subst hl; exact hnp c hc
      · revert hl hT; cases e.path <;> simp [locksOf, Tfin]
  obtain ⟨hgood, hfs⟩ := good_of_checks hck (by rw [hev]; exact hJ)
  rw [hev] at hfs
  refine ⟨hgood, ?_, ?_⟩
  · intro p hp
    rw [hfs, applyAll_append]
    rcases finalPaths_cases cfg p hp with ⟨s, hs, rfl⟩ | ⟨⟨st, hst, hpst⟩, hnot⟩
    · subst hS; simp only [FS.good]; rw [applyAll_commit_mem (f := finalOf cfg) hs]; rfl
    · simp only [FS.good]
      rw [applyAll_untouched, applyAll_append, applyAll_untouched]
      · exact steps_finals cfg true fs _ (mergeSteps_nodup cfg) htok fs st hst p hpst
      · -- the SQANTI-like merge touches files of stream `sq` only
        intro e he hpe
        rw [sqMerge_events] at he
        simp only [List.mem_flatMap, List.mem_cons, List.mem_map, sqStreams] at he
        obtain ⟨s, hs, he⟩ := he
        have hsq : s = .sq := by split at hs <;> simp_all
        subst hsq
        have hT := stepFinals_T hpst
        have hne := mergeSteps_not_sq cfg st hst
        rcases he with rfl | ⟨c, _, rfl⟩ <;> (simp only [Ev.path] at hpe; subst hpe; simp [Tstep] at hT; exact hne hT.symm)
      · subst hS; intro e he hpe; simp only [List.mem_map] at he; obtain ⟨s, hs, rfl⟩ := he
        exact hnot s hs hpe.symm
  · intro p hp
    rw [hfs]
    apply frame Tmerge _ hp
    simp only [List.all_eq_true]
    intro e he; exact mergeEv_T (hmev e he)

end IsoVerif.Lemmas.Resume
