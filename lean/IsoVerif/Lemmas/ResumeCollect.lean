/-
C07: the read-group, read-collection stages of a run of the repaired code.
-/
import IsoVerif.Lemmas.ResumeStages

namespace IsoVerif.Lemmas.Resume
open IsoVerif.Model.Resume

/-! ### generic facts about event lists -/

theorem applyAll_eq_of_all {fs : FS} {es : List Ev} {p : Path} {v : Option Tok}
    (hex : ∃ e ∈ es, e.path = p) (hall : ∀ e ∈ es, e.path = p → e.val = v) : applyAll fs es p = v := by
  induction es generalizing fs with
  | nil => simp at hex
  | cons e es ih =>
    simp only [applyAll]
    by_cases h : ∃ e' ∈ es, e'.path = p
    · exact ih h (fun e' he' => hall e' (by simp [he']))
    · rw [applyAll_untouched _ _ _ (fun e' he' hp => h ⟨e', he', hp⟩)]
      obtain ⟨e0, he0, hp0⟩ := hex
      simp only [List.mem_cons] at he0
      rcases he0 with rfl | he0
      · simp only [apply, ← hp0, set_same]; exact hall e0 (by simp) hp0
      · exact absurd ⟨e0, he0, hp0⟩ h

theorem eventsOf_rmAll (ps : List Path) : eventsOf (rmAll ps) = ps.map Ev.remove := by
  induction ps with
  | nil => rfl
  | cons p ps ih => simp only [rmAll, List.map_cons, eventsOf] at *; rw [ih]

theorem checks_rmAll {ps : List Path} {fs : FS} (nd : ps.Nodup) (h : ∀ p ∈ ps, fs.has p = true) :
    ChecksOK (rmAll ps) fs := by
  induction ps generalizing fs with
  | nil => trivial
  | cons p ps ih =>
    simp only [rmAll, List.map_cons, ChecksOK]
    refine ⟨h p (by simp), ?_⟩
    have nd' := List.nodup_cons.mp nd
    apply ih nd'.2
    intro q hq
    simp only [apply, Ev.path, Ev.val]
    rw [has_set]
    have : q ≠ p := fun e => nd'.1 (e ▸ hq)
    simp [this, h q (by simp [hq])]

theorem applyAll_remove_mem {ps : List Path} {fs : FS} {p : Path} (h : p ∈ ps) :
    applyAll fs (ps.map Ev.remove) p = none := by
  apply applyAll_eq_of_all
  · exact ⟨.remove p, by simp [h], rfl⟩
  · intro e he _; simp only [List.mem_map] at he; obtain ⟨q, _, rfl⟩ := he; rfl

theorem applyAll_remove_not_mem {ps : List Path} {fs : FS} {p : Path} (h : p ∉ ps) :
    applyAll fs (ps.map Ev.remove) p = fs p := by
  apply applyAll_untouched
  intro e he hp; simp only [List.mem_map] at he; obtain ⟨q, hq, rfl⟩ := he
  exact h (hp ▸ hq)

theorem applyAll_commit_mem {α : Type} {l : List α} {f : α → Path} {t : Tok} {fs : FS} {a : α} (h : a ∈ l) :
    applyAll fs (l.map (fun c => Ev.commit (f c) t)) (f a) = some t := by
  apply applyAll_eq_of_all
  · exact ⟨.commit (f a) t, by simp only [List.mem_map]; exact ⟨a, h, rfl⟩, rfl⟩
  · intro e he _; simp only [List.mem_map] at he; obtain ⟨q, _, rfl⟩ := he; rfl

theorem checks_loads {α : Type} {l : List α} {f : α → Path} {rest : List Act} {fs : FS}
    (h : ∀ c ∈ l, fs.good (f c) = true) (hr : ChecksOK rest fs) : ChecksOK (l.map (fun c => Act.load (f c)) ++ rest) fs := by
  induction l with
  | nil => exact hr
  | cons a l ih =>
    simp only [List.map_cons, List.cons_append, ChecksOK]
    exact ⟨h a (by simp), ih (fun c hc => h c (by simp [hc]))⟩

theorem eventsOf_loads {α : Type} (l : List α) (f : α → Path) (rest : List Act) :
    eventsOf (l.map (fun c => Act.load (f c)) ++ rest) = eventsOf rest := by
  induction l with
  | nil => rfl
  | cons a l ih => simp only [List.map_cons, List.cons_append, eventsOf]; exact ih

theorem AllP_single {P : FS → Prop} {fs : FS} {e : Ev} (h1 : P fs) (h2 : P (apply fs e)) : AllP P fs [e] := ⟨h1, h2⟩

/-! ### read-group split -/

theorem rg_stage {cfg : Cfg} (wf : WF cfg) (rs : Bool) {fs : FS} (h : J cfg fs) :
    Good cfg fs (runActs (rgStage cfg rs fs) fs) ∧ (runActs (rgStage cfg rs fs) fs).fs.has .rgLock = true ∧
      (∀ p, isRgAux p = false → (runActs (rgStage cfg rs fs) fs).fs p = fs p) := by
  unfold rgStage
  by_cases hs : (rs && fs.has .rgLock) = true
  · simp only [hs, if_true]
    simp only [Bool.and_eq_true] at hs
    exact ⟨good_nil h, hs.2, fun _ _ => rfl⟩
  · simp only [hs]
    -- the three segments of the stage
    generalize hL : (if fs.has Path.rgLock = true then [Path.rgLock] else []) = L
    generalize hB : (if cfg.rg = RG.file then
        cfg.bchrs.map (fun c => Ev.create (.rgSplit c)) ++ cfg.bchrs.map (fun c => Ev.commit (.rgSplit c) .good) else []) = B
    have hacts : (rmAll L ++ (if cfg.rg = RG.file then evs (cfg.bchrs.map (fun c => Ev.create (.rgSplit c)) ++
        cfg.bchrs.map (fun c => Ev.commit (.rgSplit c) .good)) else []) ++ evs [.create .rgLock])
        = rmAll L ++ evs B ++ evs [.create .rgLock] := by
      subst hB; split <;> rfl
    simp only [Bool.false_eq_true, if_false] at *
    rw [hacts]
    have hev : eventsOf (rmAll L ++ evs B ++ evs [.create .rgLock]) = L.map Ev.remove ++ B ++ [.create .rgLock] := by
      simp [eventsOf_append, eventsOf_rmAll]
    have hLl : ∀ l ∈ L, l = Path.rgLock := by subst hL; intro l hl; split at hl <;> simp_all
    have hLhas : ∀ p ∈ L, fs.has p = true := by
      subst hL; intro l hl; split at hl
      · simp only [List.mem_cons, List.not_mem_nil, or_false] at hl; subst hl; assumption
      · simp at hl
    have hLnd : L.Nodup := by subst hL; split <;> simp
    have hck : ChecksOK (rmAll L ++ evs B ++ evs [.create .rgLock]) fs := by
      rw [checks_append, checks_append]
      exact ⟨⟨checks_rmAll hLnd hLhas, checks_evs _ _⟩, checks_evs _ _⟩
    -- after the removal the lock is absent
    have h1 : AllP (J cfg) fs (L.map Ev.remove) := allJ_removeLocks h (fun l hl => by rw [hLl l hl]; rfl)
    have hno : (applyAll fs (L.map Ev.remove)).has .rgLock = false := by
      by_cases hh : fs.has .rgLock = true
      · have : Path.rgLock ∈ L := by subst hL; simp [hh]
        simp [FS.has, applyAll_remove_mem this]
      · have : Path.rgLock ∉ L := by subst hL; simp [hh]
        simp only [FS.has] at hh ⊢; rw [applyAll_remove_not_mem this]; simpa using hh
    have h2 : AllP (J cfg) (applyAll fs (L.map Ev.remove)) B := by
      apply allJ_of_bodyOK (L := [.rgLock]) (AllP_last h1)
      · subst hB; split
        · simp [bodyOK, List.all_append, List.all_map, isLock, locksOf, Ev.path]
        · rfl
      · intro l hl; simp only [List.mem_cons, List.not_mem_nil, or_false] at hl; subst hl; exact hno
    have h3 : AllP (J cfg) (applyAll (applyAll fs (L.map Ev.remove)) B) [.create .rgLock] := by
      apply AllP_single (AllP_last h2)
      apply J_create_lock (AllP_last h2) rfl
      intro d hd
      simp only [guarded] at hd
      split at hd
      · rename_i hfile
        simp only [List.mem_map] at hd
        obtain ⟨c, hc, rfl⟩ := hd
        subst hB
        simp only [hfile, if_true, applyAll_append, FS.good]
        rw [applyAll_commit_mem (f := Path.rgSplit) (wf.b_sub hfile c hc)]
        rfl
      · simp at hd
    have hall : AllP (J cfg) fs (L.map Ev.remove ++ B ++ [.create .rgLock]) := by
      rw [AllP_append, AllP_append, applyAll_append]; exact ⟨⟨h1, h2⟩, h3⟩
    obtain ⟨hg, hfs⟩ := good_of_checks hck (hev ▸ hall)
    refine ⟨hg, ?_, ?_⟩
    · rw [hfs, hev, applyAll_append]; simp [applyAll, apply, FS.has, Ev.path, Ev.val]
    · intro p hp
      rw [hfs, hev]
      have hB' : B.all (fun e => isRgAux e.path) = true := by
        subst hB; split
        · simp [List.all_append, List.all_map, Function.comp_def, Ev.path, isRgAux]
        · rfl
      have hL' : (L.map Ev.remove).all (fun e => isRgAux e.path) = true := by
        simp only [List.all_map, List.all_eq_true]; intro l hl; simp [Ev.path, hLl l hl, isRgAux]
      apply frame isRgAux _ hp
      rw [List.all_append, List.all_append, hL', hB']; rfl


/-! ### read collection -/

theorem nodup_map_inj {α β : Type} {l : List α} {f : α → β} (nd : l.Nodup) (inj : ∀ a b, f a = f b → a = b) :
    (l.map f).Nodup :=
  List.Pairwise.map f (fun a b hab e => hab (inj a b e)) nd

/-- the lock files of all chromosomes, in the order in which `clean_locks` visits them, are pairwise distinct -/
theorem nodup_lock_list {cfg : Cfg} (wf : WF cfg) (G : List Path) (hG : G.Sublist [Path.lock, Path.rgLock]) (f g : Chr → Bool) :
    (G ++ (cfg.chrs.filter f).map Path.collected ++ (cfg.chrs.filter g).map Path.processed).Nodup := by
  have big : ([Path.lock, Path.rgLock] ++ cfg.chrs.map Path.collected ++ cfg.chrs.map Path.processed).Nodup := by
    rw [List.nodup_append, List.nodup_append]
    refine ⟨⟨by simp, nodup_map_inj wf.nd (fun a b e => by injection e), ?_⟩,
            nodup_map_inj wf.nd (fun a b e => by injection e), ?_⟩
    · intro a ha b hb; simp only [List.mem_map] at hb; obtain ⟨c, _, rfl⟩ := hb
      simp only [List.mem_cons, List.not_mem_nil, or_false] at ha; rcases ha with rfl | rfl <;> simp
    · intro a ha b hb; simp only [List.mem_map] at hb; obtain ⟨c, _, rfl⟩ := hb
      simp only [List.mem_append, List.mem_cons, List.not_mem_nil, or_false, List.mem_map] at ha
      rcases ha with (rfl | rfl) | ⟨c', _, rfl⟩ <;> simp
  exact List.Nodup.sublist ((hG.append (List.filter_sublist.map _)).append (List.filter_sublist.map _)) big

theorem collectPre_stage {cfg : Cfg} (wf : WF cfg) (rs sk : Bool) {fs : FS} (h : J cfg fs) :
    Good cfg fs (runActs (collectPre cfg rs sk fs) fs) ∧
      (∀ p, isLock p = false → (runActs (collectPre cfg rs sk fs) fs).fs p = fs p) ∧
      (runActs (collectPre cfg rs sk fs) fs).fs .rgLock = fs .rgLock ∧
      ((sk || rs) = true → (runActs (collectPre cfg rs sk fs) fs).fs = fs) ∧
      ((sk || rs) = false → (runActs (collectPre cfg rs sk fs) fs).fs.has .lock = false ∧
          ∀ c ∈ cfg.chrs, (runActs (collectPre cfg rs sk fs) fs).fs.has (.collected c) = false ∧
            (runActs (collectPre cfg rs sk fs) fs).fs.has (.processed c) = false) := by
  unfold collectPre
  by_cases hs : (sk || rs) = true
  · simp only [hs, if_true]
    exact ⟨good_nil h, fun _ _ => rfl, rfl, fun _ => rfl, fun e => by simp at e⟩
  · simp only [hs]
    simp only [Bool.false_eq_true, if_false]
    generalize hL : ((if fs.has Path.lock = true then [Path.lock] else []) ++
      (cfg.chrs.filter (fun c => fs.has (.collected c))).map Path.collected ++
      (cfg.chrs.filter (fun c => fs.has (.processed c))).map Path.processed) = L
    have hnd : L.Nodup := by
      subst hL
      apply nodup_lock_list wf
      split <;> simp
    have hmem : ∀ p, p ∈ L ↔ (p = .lock ∧ fs.has .lock = true) ∨ (∃ c ∈ cfg.chrs, fs.has (.collected c) = true ∧ p = .collected c)
        ∨ (∃ c ∈ cfg.chrs, fs.has (.processed c) = true ∧ p = .processed c) := by
      subst hL; intro p
      simp only [List.mem_append, List.mem_map, List.mem_filter]
      constructor
      · rintro ((hp | ⟨c, ⟨hc, hh⟩, rfl⟩) | ⟨c, ⟨hc, hh⟩, rfl⟩)
        · split at hp
          · simp only [List.mem_cons, List.not_mem_nil, or_false] at hp; exact Or.inl ⟨hp, by assumption⟩
          · simp at hp
        · exact Or.inr (Or.inl ⟨c, hc, hh, rfl⟩)
        · exact Or.inr (Or.inr ⟨c, hc, hh, rfl⟩)
      · rintro (⟨rfl, hh⟩ | ⟨c, hc, hh, rfl⟩ | ⟨c, hc, hh, rfl⟩)
        · exact Or.inl (Or.inl (by simp [hh]))
        · exact Or.inl (Or.inr ⟨c, ⟨hc, hh⟩, rfl⟩)
        · exact Or.inr ⟨c, ⟨hc, hh⟩, rfl⟩
    have hhas : ∀ p ∈ L, fs.has p = true := by
      intro p hp; rcases (hmem p).mp hp with ⟨rfl, hh⟩ | ⟨c, _, hh, rfl⟩ | ⟨c, _, hh, rfl⟩ <;> exact hh
    have hlk : ∀ p ∈ L, isLock p = true := by
      intro p hp; rcases (hmem p).mp hp with ⟨rfl, _⟩ | ⟨c, _, _, rfl⟩ | ⟨c, _, _, rfl⟩ <;> rfl
    obtain ⟨hg, hfs⟩ := good_of_checks (checks_rmAll hnd hhas)
      (by rw [eventsOf_rmAll]; exact allJ_removeLocks h hlk)
    rw [eventsOf_rmAll] at hfs
    have hval : ∀ p, (runActs (rmAll L) fs).fs p = if p ∈ L then none else fs p := by
      intro p; rw [hfs]; split
      · rename_i hp; exact applyAll_remove_mem hp
      · rename_i hp; exact applyAll_remove_not_mem hp
    have hgone : ∀ p, isLock p = true → p ≠ .rgLock → p ≠ .refFai → (∀ c, p = .collected c → c ∈ cfg.chrs) →
        (∀ c, p = .processed c → c ∈ cfg.chrs) → (runActs (rmAll L) fs).fs.has p = false := by
      intro p hp hne hne2 hc1 hc2
      simp only [FS.has, hval]
      split
      · rfl
      · rename_i hm
        cases hq : fs.has p with
        | false => simpa [FS.has] using hq
        | true =>
          exfalso; apply hm; rw [hmem]
          cases p <;> simp [isLock] at hp hne hne2
          · exact Or.inr (Or.inl ⟨_, hc1 _ rfl, hq, rfl⟩)
          · exact Or.inl ⟨rfl, hq⟩
          · exact Or.inr (Or.inr ⟨_, hc2 _ rfl, hq, rfl⟩)
    refine ⟨hg, ?_, ?_, fun e => e.elim, fun _ => ⟨?_, ?_⟩⟩
    · intro p hp; rw [hval]; split
      · rename_i hm; have := hlk p hm; simp [hp] at this
      · rfl
    · rw [hval]; split
      · rename_i hm; rcases (hmem _).mp hm with ⟨e, _⟩ | ⟨c, _, _, e⟩ | ⟨c, _, _, e⟩ <;> cases e
      · rfl
    · exact hgone .lock rfl (by simp) (by simp) (by simp) (by simp)
    · intro c hc
      exact ⟨hgone (.collected c) rfl (by simp) (by simp) (by intro c' e; injection e with e; exact e ▸ hc) (by simp),
             hgone (.processed c) rfl (by simp) (by simp) (by simp) (by intro c' e; injection e with e; exact e ▸ hc)⟩


theorem good_J_acts {cfg : Cfg} {fs : FS} {as : List Act} (h : Good cfg fs (runActs as fs)) : J cfg (runActs as fs).fs := by
  rw [runActs_fs]; exact AllP_last h.2

theorem good_J_stages {cfg : Cfg} {fs : FS} {ss : List Stage} (h : Good cfg fs (runStages ss fs)) :
    J cfg (runStages ss fs).fs := by
  rw [runStages_fs]; exact AllP_last h.2

/-- paths written by the collection of chromosome `c` -/
def Tcol (c : Chr) : Path → Bool
  | .save c' => c' == c
  | .groups c' => c' == c
  | .bamstat c' => c' == c
  | .collected c' => c' == c
  | _ => false

theorem collectChr_stage {cfg : Cfg} (rs sk : Bool) {fs : FS} (h : J cfg fs) {c : Chr} (hc : c ∈ cfg.chrs)
    (hrg : fs.has .rgLock = true) (hnl : sk = false → fs.has .lock = false)
    (hnc : rs = false → sk = false → fs.has (.collected c) = false) (href : refOK cfg fs = true) :
    Good cfg fs (runActs (collectChr fixed cfg rs sk c fs) fs) ∧
      (sk = false → (runActs (collectChr fixed cfg rs sk c fs) fs).fs.has (.collected c) = true) ∧
      (∀ p, Tcol c p = false → (runActs (collectChr fixed cfg rs sk c fs) fs).fs p = fs p) := by
  unfold collectChr
  cases sk with
  | true => exact ⟨good_nil h, by simp, fun _ _ => rfl⟩
  | false =>
    simp only [Bool.false_eq_true, if_false]
    have hrgs : cfg.rg = .file → fs.good (.rgSplit c) = true := fun hf =>
      h.2 .rgLock hrg _ (by simp only [guarded, hf, if_true, List.mem_map]; exact ⟨c, hc, rfl⟩)
    have ht : tokOf ((cfg.rg != .file || fs.good (.rgSplit c)) && refOK cfg fs) = .good := by
      by_cases hf : cfg.rg = .file
      · simp [tokOf, hrgs hf, href]
      · simp [tokOf, hf, href]
    generalize hG : (if cfg.rg = RG.file then [Act.exist (.rgSplit c)] else []) = G
    have hGev : eventsOf G = [] := by subst hG; split <;> rfl
    have hGck : ∀ rest, ChecksOK rest fs → ChecksOK (G ++ rest) fs := by
      intro rest hr; rw [checks_append, hGev]; refine ⟨?_, hr⟩
      subst hG; split
      · exact ⟨good_has (hrgs (by assumption)), trivial⟩
      · trivial
    by_cases hb : (rs && fs.has (.collected c) && fs.has (.groups c) && fs.has (.save c)) = true
    · simp only [hb, if_true]
      simp only [Bool.and_eq_true] at hb
      obtain ⟨⟨⟨_, hcol⟩, _⟩, _⟩ := hb
      have hg := h.2 (.collected c) hcol
      simp only [guarded, hc, if_true] at hg
      have hck := hGck [Act.load (.bamstat c), Act.load (.save c)] ⟨hg _ (by simp), hg _ (by simp), trivial⟩
      have hev : eventsOf (G ++ [Act.load (.bamstat c), Act.load (.save c)]) = [] := by
        rw [eventsOf_append, hGev]; rfl
      obtain ⟨hgood, hfs⟩ := good_of_checks hck (by rw [hev]; exact h)
      rw [hev] at hfs
      exact ⟨hgood, fun _ => by rw [hfs]; exact hcol, fun p _ => by rw [hfs]; rfl⟩
    · simp only [hb, Bool.false_eq_true, if_false, ht, fixed, if_true, List.append_nil]
      have hncol : fs.has (.collected c) = false := by
        cases rs with
        | false => exact hnc rfl rfl
        | true =>
          cases hq : fs.has (.collected c) with
          | false => rfl
          | true =>
            have hg := h.2 (.collected c) hq
            simp only [guarded, hc, if_true] at hg
            exfalso; apply hb
            simp [hq, good_has (hg (.groups c) (by simp)), good_has (hg (.save c) (by simp))]
      generalize hB : ([Ev.create (.save c), .create (.save c), .create (.groups c), .commit (.groups c) .good,
                       .create (.bamstat c), .commit (.bamstat c) .good] ++ [Ev.commit (.save c) .good]) = B
      have hck := hGck (evs (B ++ [Ev.create (.collected c)])) (checks_evs _ _)
      have hev : eventsOf (G ++ evs (B ++ [Ev.create (.collected c)])) = B ++ [Ev.create (.collected c)] := by
        rw [eventsOf_append, hGev, eventsOf_evs]; rfl
      have h1 : AllP (J cfg) fs B := by
        apply allJ_of_bodyOK (L := [.collected c, .lock]) h
        · subst hB; simp [bodyOK, isLock, locksOf, Ev.path]
        · intro l hl; simp only [List.mem_cons, List.not_mem_nil, or_false] at hl
          rcases hl with rfl | rfl
          · exact hncol
          · exact hnl rfl
      have h2 : AllP (J cfg) (applyAll fs B) [Ev.create (.collected c)] := by
        apply AllP_single (AllP_last h1)
        apply J_create_lock (AllP_last h1) rfl
        intro d hd
        simp only [guarded, hc, if_true, List.mem_cons, List.not_mem_nil, or_false] at hd
        subst hB
        rcases hd with rfl | rfl | rfl <;> simp [applyAll, apply, FS.set, FS.good, Ev.path, Ev.val]
      obtain ⟨hgood, hfs⟩ := good_of_checks hck (by rw [hev, AllP_append]; exact ⟨h1, h2⟩)
      rw [hev] at hfs
      refine ⟨hgood, fun _ => ?_, fun p hp => ?_⟩
      · rw [hfs, applyAll_append]; simp [applyAll, apply, FS.has, Ev.path, Ev.val]
      · rw [hfs]
        apply frame (Tcol c) _ hp
        subst hB; simp [Tcol, Ev.path]

theorem collect_loop {cfg : Cfg} (rs sk : Bool) (cs : List Chr) (hsub : ∀ c ∈ cs, c ∈ cfg.chrs) (nd : cs.Nodup)
    {fs : FS} (h : J cfg fs) (hrg : fs.has .rgLock = true) (hnl : sk = false → fs.has .lock = false)
    (hnc : rs = false → sk = false → ∀ c ∈ cs, fs.has (.collected c) = false) (href : refOK cfg fs = true) :
    Good cfg fs (runStages (cs.map (collectChr fixed cfg rs sk)) fs) ∧
      (sk = false → ∀ c ∈ cs, (runStages (cs.map (collectChr fixed cfg rs sk)) fs).fs.has (.collected c) = true) ∧
      (∀ p, (∀ c ∈ cs, Tcol c p = false) → (runStages (cs.map (collectChr fixed cfg rs sk)) fs).fs p = fs p) := by
  induction cs generalizing fs with
  | nil => exact ⟨⟨rfl, h⟩, fun _ c hc => by simp at hc, fun _ _ => rfl⟩
  | cons c cs ih =>
    have nd' := List.nodup_cons.mp nd
    obtain ⟨g1, p1, f1⟩ := collectChr_stage rs sk h (hsub c (by simp)) hrg hnl (fun e e' => hnc e e' c (by simp)) href
    have href' : refOK cfg (runActs (collectChr fixed cfg rs sk c fs) fs).fs = true := by
      rw [refOK_frame (f1 _ rfl) (f1 _ rfl)]; exact href
    have hne : ∀ c' ∈ cs, c' ≠ c := fun c' hc' e => nd'.1 (e ▸ hc')
    have hrg' : (runActs (collectChr fixed cfg rs sk c fs) fs).fs.has .rgLock = true := by
      simp only [FS.has] at hrg ⊢; rw [f1 _ rfl]; exact hrg
    have hnl' : sk = false → (runActs (collectChr fixed cfg rs sk c fs) fs).fs.has .lock = false := by
      intro e; simp only [FS.has]; rw [f1 _ rfl]; exact hnl e
    have hnc' : rs = false → sk = false → ∀ c' ∈ cs, (runActs (collectChr fixed cfg rs sk c fs) fs).fs.has (.collected c') = false := by
      intro e e' c' hc'
      simp only [FS.has]; rw [f1 _ (by simp [Tcol, hne c' hc'])]
      exact hnc e e' c' (by simp [hc'])
    obtain ⟨g2, p2, f2⟩ := ih (fun c' hc' => hsub c' (by simp [hc'])) nd'.2 (good_J_acts g1) hrg' hnl' hnc' href'
    simp only [List.map_cons]
    obtain ⟨g, hfs⟩ := good_cons g1 g2
    refine ⟨g, ?_, ?_⟩
    · intro e c' hc'
      rw [hfs]
      simp only [List.mem_cons] at hc'
      rcases hc' with rfl | hc'
      · simp only [FS.has]
        rw [f2 _ (fun c'' hc'' => by simp [Tcol]; exact fun e => nd'.1 (e ▸ hc''))]
        exact p1 e
      · exact p2 e c' hc'
    · intro p hp
      rw [hfs, f2 p (fun c' hc' => hp c' (by simp [hc'])), f1 p (hp c (by simp))]


/-- paths written after the per-chromosome collection -/
def Tpost : Path → Bool
  | .multimap _ => true
  | .info => true
  | .lock => true
  | _ => false

theorem collectPost_stage {cfg : Cfg} (sk : Bool) {fs : FS} (h : J cfg fs)
    (hnl : sk = false → fs.has .lock = false) (hcol : sk = false → ∀ c ∈ cfg.chrs, fs.has (.collected c) = true) :
    Good cfg fs (runActs (collectPost cfg sk fs) fs) ∧
      (sk = false → (runActs (collectPost cfg sk fs) fs).fs.has .lock = true) ∧
      (sk = true → (runActs (collectPost cfg sk fs) fs).fs = fs) ∧
      (∀ p, Tpost p = false → (runActs (collectPost cfg sk fs) fs).fs p = fs p) := by
  unfold collectPost
  cases sk with
  | true => exact ⟨good_nil h, fun e => by simp at e, fun _ => rfl, fun _ _ => rfl⟩
  | false =>
    simp only [Bool.false_eq_true, if_false]
    have hgs : ∀ c ∈ cfg.chrs, fs.good (.groups c) = true ∧ fs.good (.save c) = true := by
      intro c hc
      have hg := h.2 (.collected c) (hcol rfl c hc)
      simp only [guarded, hc, if_true] at hg
      exact ⟨hg _ (by simp), hg _ (by simp)⟩
    have hm : tokOf (cfg.chrs.all (fun c => fs.good (.groups c) && fs.good (.save c))) = .good := by
      have : cfg.chrs.all (fun c => fs.good (.groups c) && fs.good (.save c)) = true := by
        simp only [List.all_eq_true, Bool.and_eq_true]; exact hgs
      simp [this, tokOf]
    rw [hm]
    generalize hB : (cfg.chrs.map (fun c => Ev.create (.multimap c)) ++ cfg.chrs.map (fun c => Ev.commit (.multimap c) .good))
      = B
    have hE : B ++ [Ev.create .info, .commit .info .good, .create .lock]
        = (B ++ [Ev.create .info, .commit .info .good]) ++ [.create .lock] := by simp
    rw [hE]
    generalize hL : (if cfg.highMemory = true then [] else cfg.chrs.map (fun c => Act.load (.save c))) = Lds
    have hck : ChecksOK (Lds ++ evs ((B ++ [Ev.create .info, .commit .info .good]) ++ [.create .lock])) fs := by
      subst hL; split
      · exact checks_evs _ _
      · exact checks_loads (fun c hc => (hgs c hc).2) (checks_evs _ _)
    have hev : eventsOf (Lds ++ evs ((B ++ [Ev.create .info, .commit .info .good]) ++ [.create .lock]))
        = (B ++ [Ev.create .info, .commit .info .good]) ++ [.create .lock] := by
      subst hL; split
      · rw [List.nil_append, eventsOf_evs]
      · rw [eventsOf_loads, eventsOf_evs]
    have hBT : (B ++ [Ev.create .info, .commit .info .good]).all (fun e => Tpost e.path) = true := by
      subst hB; simp [List.all_append, List.all_map, Function.comp_def, Ev.path, Tpost]
    have h1 : AllP (J cfg) fs (B ++ [Ev.create .info, .commit .info .good]) := by
      apply allJ_of_bodyOK (L := [.lock]) h
      · subst hB; simp [bodyOK, List.all_append, List.all_map, Function.comp_def, isLock, locksOf, Ev.path]
      · intro l hl; simp only [List.mem_cons, List.not_mem_nil, or_false] at hl; subst hl; exact hnl rfl
    have h2 : AllP (J cfg) (applyAll fs (B ++ [Ev.create .info, .commit .info .good])) [Ev.create .lock] := by
      apply AllP_single (AllP_last h1)
      apply J_create_lock (AllP_last h1) rfl
      intro d hd
      simp only [guarded, List.mem_cons, List.mem_flatMap, List.not_mem_nil, or_false] at hd
      rcases hd with rfl | ⟨c, hc, rfl | rfl⟩
      · rw [applyAll_append]; simp [applyAll, apply, FS.set, FS.good, Ev.path, Ev.val]
      · rw [applyAll_append, FS.good,
            applyAll_untouched _ [Ev.create .info, .commit .info .good] _ (by simp [Ev.path])]
        subst hB
        rw [applyAll_append, applyAll_commit_mem (f := Path.multimap) hc]; rfl
      · simp only [FS.good]; rw [frame Tpost hBT rfl]; exact (hgs c hc).2
    obtain ⟨hgood, hfs⟩ := good_of_checks hck (by rw [hev, AllP_append]; exact ⟨h1, h2⟩)
    rw [hev] at hfs
    refine ⟨hgood, fun _ => ?_, fun e => by simp at e, fun p hp => ?_⟩
    · rw [hfs, applyAll_append]; simp [applyAll, apply, FS.has, Ev.path, Ev.val]
    · rw [hfs]
      apply frame Tpost _ hp
      rw [List.all_append, hBT]; rfl

end IsoVerif.Lemmas.Resume
