/-
C11 helper lemmas — translation of the assignment model, part 6: the inconsistent path, `assign_to_isoform`, `assignRead`.
-/
import IsoVerif.Lemmas.C11AssignShift5

namespace IsoVerif.Lemmas.C11.AssignShift
open IsoVerif.Gen IsoVerif.Model IsoVerif.Model.C01 IsoVerif.Model.C11

/-! ## `select_similar_isoforms` -/

def similarPick (cands : List (IsoInfo × Int)) : Option (List IsoInfo) :=
  match minList (cands.map (·.2)) with
  | none => none
  | some best => some ((cands.filter (fun x => x.2 ≤ best + 3)).map (·.1))

theorem similar_tail_map (sh : IsoInfo → IsoInfo) (cands : List (IsoInfo × Int)) :
    similarPick (cands.map (fun (x : IsoInfo × Int) => (sh x.1, x.2))) = (similarPick cands).map (List.map sh) := by
  unfold similarPick
  have e : (cands.map (fun (x : IsoInfo × Int) => (sh x.1, x.2))).map (·.2) = cands.map (·.2) := by
    simp only [List.map_map]; rfl
  rw [e]
  cases minList (cands.map (·.2)) with
  | none => rfl
  | some best =>
    simp only [Option.map_some, List.filter_map, List.map_map]
    rfl

theorem selectSimilar_shift (k : Int) (g : Gene) (p : Params) (rp : ReadProf) :
    selectSimilar (shiftGene k g) p (shiftReadProf k rp) = (selectSimilar g p rp).map (List.map (shiftIsoInfo k)) := by
  unfold selectSimilar
  have hg : (shiftGene k g).isos = g.isos.map (shiftIsoInfo k) := rfl
  simp only [hg, findOverlapping_shift]
  cases findOverlapping rp g.isos with
  | none => rfl
  | some ov =>
    simp only [Option.map_some, isEmpty_map']
    split
    · rfl
    · rw [resolveByScore_coverage_shift]
      cases resolveByScore (coverageScore p rp) none ov with
      | none => rfl
      | some sig =>
        simp only [Option.map_some, isEmpty_map']
        split
        · rfl
        · have e : mapOpt (fun I => (differenceInPresentFeatures I.intronProf (shiftReadProf k rp).intron.gene
                (shiftReadProf k rp).intron.range).map (fun d => (I, d))) (sig.map (shiftIsoInfo k))
              = (mapOpt (fun I => (differenceInPresentFeatures I.intronProf rp.intron.gene rp.intron.range).map
                  (fun d => (I, d))) sig).map (List.map (fun (x : IsoInfo × Int) => (shiftIsoInfo k x.1, x.2))) := by
            rw [mapOpt_map, ← mapOpt_comp_map]
            apply mapOpt_congr
            intro I _
            have : (shiftIsoInfo k I).intronProf = I.intronProf := rfl
            rw [this]
            have : (shiftReadProf k rp).intron = rp.intron := rfl
            rw [this]
            cases differenceInPresentFeatures I.intronProf rp.intron.gene rp.intron.range <;> rfl
          rw [e]
          cases mapOpt (fun I => (differenceInPresentFeatures I.intronProf rp.intron.gene rp.intron.range).map
              (fun d => (I, d))) sig with
          | none => rfl
          | some diffs =>
            simp only [Option.map_some, List.map_map]
            have hc : ((fun (x : IsoInfo × Int) =>
                  (x.1, x.2 + (if (shiftReadProf k rp).region.2 - p.delta > x.1.region.2 then (1 : Int) else 0)
                    + (if (shiftReadProf k rp).region.1 + p.delta < x.1.region.1 then (1 : Int) else 0)))
                  ∘ fun (x : IsoInfo × Int) => (shiftIsoInfo k x.1, x.2))
                = (fun (x : IsoInfo × Int) => (shiftIsoInfo k x.1, x.2)) ∘
                  (fun (x : IsoInfo × Int) =>
                  (x.1, x.2 + (if rp.region.2 - p.delta > x.1.region.2 then (1 : Int) else 0)
                    + (if rp.region.1 + p.delta < x.1.region.1 then (1 : Int) else 0))) := by
              funext x
              have h1 : (rp.region.2 + k - p.delta > x.1.region.2 + k) ↔ (rp.region.2 - p.delta > x.1.region.2) := by omega
              have h2 : (rp.region.1 + k + p.delta < x.1.region.1 + k) ↔ (rp.region.1 + p.delta < x.1.region.1) := by omega
              simp only [Function.comp, shiftReadProf, shiftIsoInfo, shiftIv_fst, shiftIv_snd, h1, h2]
            simp only [hc]
            have := similar_tail_map (shiftIsoInfo k) (diffs.map (fun (x : IsoInfo × Int) =>
                  (x.1, x.2 + (if rp.region.2 - p.delta > x.1.region.2 then (1 : Int) else 0)
                    + (if rp.region.1 + p.delta < x.1.region.1 then (1 : Int) else 0))))
            simp only [similarPick, List.map_map] at this
            exact this


/-! ## `detect_inconsistensies` -/

theorem isUndefinedOnly_shift (k : Int) (evs : List Event) : isUndefinedOnly (shiftEvents k evs) = isUndefinedOnly evs := by
  cases evs with
  | nil => rfl
  | cons e es =>
    cases es with
    | nil => simp only [shiftEvents_cons, shiftEvents_nil, isUndefinedOnly, shiftEvent_ty]
    | cons y ys => rfl

theorem detectInconsistencies_shift (k : Int) (g : Gene) (p : Params) (rp : ReadProf) (cj : Nat → Option (List Event))
    (l : List IsoInfo) (h : ∀ I ∈ l, EndsSafe k rp I) :
    detectInconsistencies (shiftGene k g) p (shiftReadProf k rp) (shiftCj k cj) (l.map (shiftIsoInfo k))
      = (detectInconsistencies g p rp cj l).map (List.map (shPairE k)) := by
  induction l with
  | nil => rfl
  | cons I rest ih =>
    have ih' := ih (fun J hJ => h J (List.mem_cons_of_mem _ hJ))
    have hid : (shiftIsoInfo k I).id = I.id := rfl
    simp only [List.map_cons, detectInconsistencies, shiftCj, hid]
    cases cj I.id with
    | none => rfl
    | some ev =>
      simp only [Option.map_some, isUndefinedOnly_shift]
      split
      · exact ih'
      · rw [elongationEvents_shift]
        cases hel : elongationEvents g p rp I with
        | none => rfl
        | some el =>
          simp only
          have e1 : shiftEvents k ev ++ el = shiftEvents k (ev ++ el) := by
            rw [shiftEvents_append, shiftEvents_of_noPos k el (elongationEvents_noPos g p rp I el hel)]
          rw [e1, verifyReadEnds_shift k p rp I (ev ++ el) (h I (by simp)), ih']
          cases verifyReadEnds p rp I (ev ++ el) <;> cases detectInconsistencies g p rp cj rest <;> rfl

/-! ## penalties -/

theorem eventCost_shift (k : Int) (p : Params) (e : Event) : eventCost p (shiftEvent k e) = eventCost p e := by
  unfold shiftEvent
  split
  · rename_i hp
    have hne : ¬ (e.ty = .major_exon_elongation_left ∨ e.ty = .major_exon_elongation_right ∨
        e.ty = .exon_elongation_right ∨ e.ty = .exon_elongation_left) := by
      intro hh
      rcases hh with h | h | h | h <;> (rw [h] at hp; exact absurd hp (by decide))
    simp only [eventCost, eventCount, hne, if_false]
  · rfl

theorem penaltyOf_shift (k : Int) (p : Params) (evs : List Event) : penaltyOf p (shiftEvents k evs) = penaltyOf p evs := by
  induction evs with
  | nil => rfl
  | cons e es ih => simp only [shiftEvents_cons, penaltyOf, eventCost_shift, ih]

/-! ## `select_best_among_inconsistent` -/

theorem any_id_map (k : Int) (keep : List IsoInfo) (i : Nat) :
    (keep.map (shiftIsoInfo k)).any (fun K => K.id = i) = keep.any (fun K => K.id = i) := by
  simp only [List.any_map]
  rfl

def bestPick (p : Params) (rp : ReadProf) (best : List (IsoInfo × List Event)) (mn : Rat) :
    Option (List (IsoInfo × List Event) × Rat) :=
  if best.length > 1 then
    match resolveByScore (coverageScore p rp) (some topScoredFactor) (best.map (·.1)) with
    | none => none
    | some keep => some (best.filter (fun Ie => keep.any (fun K => K.id = Ie.1.id)), mn)
  else some (best, mn)

theorem bestPick_shift (k : Int) (p : Params) (rp : ReadProf) (best : List (IsoInfo × List Event)) (mn : Rat) :
    bestPick p (shiftReadProf k rp) (best.map (shPairE k)) mn
      = (bestPick p rp best mn).map (fun r => (r.1.map (shPairE k), r.2)) := by
  unfold bestPick
  have e4 : (best.map (shPairE k)).map (·.1) = (best.map (·.1)).map (shiftIsoInfo k) := by
    simp only [List.map_map]; rfl
  simp only [List.length_map, e4, resolveByScore_coverage_shift]
  split
  · cases resolveByScore (coverageScore p rp) (some topScoredFactor) (best.map (·.1)) with
    | none => rfl
    | some keep =>
      simp only [Option.map_some, List.filter_map]
      congr 3
      apply List.filter_congr
      intro Ie _
      simp only [Function.comp, shPairE]
      exact any_id_map k keep Ie.1.id
  · rfl

theorem selectBest_eq (p : Params) (rp : ReadProf) (rm : List (IsoInfo × List Event)) :
    selectBestAmongInconsistent p rp rm =
      match mapOpt (fun (Ie : IsoInfo × List Event) => (penaltyOf p Ie.2).map (fun s => (Ie, s))) rm with
      | none => none
      | some scored =>
        match minRat (scored.map (·.2)) with
        | none => none
        | some mn => bestPick p rp ((scored.filter (fun x => x.2 - mn < penaltyTieEps)).map (·.1)) mn := by
  unfold selectBestAmongInconsistent bestPick
  rfl

theorem selectBestAmongInconsistent_shift (k : Int) (p : Params) (rp : ReadProf) (rm : List (IsoInfo × List Event)) :
    selectBestAmongInconsistent p (shiftReadProf k rp) (rm.map (shPairE k))
      = (selectBestAmongInconsistent p rp rm).map (fun r => (r.1.map (shPairE k), r.2)) := by
  rw [selectBest_eq, selectBest_eq]
  have e : mapOpt (fun (Ie : IsoInfo × List Event) => (penaltyOf p Ie.2).map (fun s => (Ie, s))) (rm.map (shPairE k))
      = (mapOpt (fun (Ie : IsoInfo × List Event) => (penaltyOf p Ie.2).map (fun s => (Ie, s))) rm).map
          (List.map (fun (x : (IsoInfo × List Event) × Rat) => (shPairE k x.1, x.2))) := by
    rw [mapOpt_map, ← mapOpt_comp_map]
    apply mapOpt_congr
    intro Ie _
    simp only [shPairE, penaltyOf_shift]
    cases penaltyOf p Ie.2 <;> rfl
  rw [e]
  cases mapOpt (fun (Ie : IsoInfo × List Event) => (penaltyOf p Ie.2).map (fun s => (Ie, s))) rm with
  | none => rfl
  | some scored =>
    simp only [Option.map_some]
    have e2 : (scored.map (fun (x : (IsoInfo × List Event) × Rat) => (shPairE k x.1, x.2))).map (·.2)
        = scored.map (·.2) := by
      simp only [List.map_map]; rfl
    rw [e2]
    cases minRat (scored.map (·.2)) with
    | none => rfl
    | some mn =>
      simp only
      have e3 : ((scored.map (fun (x : (IsoInfo × List Event) × Rat) => (shPairE k x.1, x.2))).filter
            (fun x => x.2 - mn < penaltyTieEps)).map (·.1)
          = ((scored.filter (fun x => x.2 - mn < penaltyTieEps)).map (·.1)).map (shPairE k) := by
        simp only [List.filter_map, List.map_map]
        rfl
      rw [e3]
      exact bestPick_shift k p rp _ mn

/-! ## `match_inconsistent` -/

theorem mkMatchList_shift (k : Int) (c : MatchClassification) (id : Nat) (evs : List Event) :
    mkMatchList c id (shiftEvents k evs) = shiftMatch k (mkMatchList c id evs) := by
  simp only [mkMatchList, shiftMatch]
  congr 1
  exact filter_ty_shift k (fun t => t != MatchEventSubtype.none) evs

theorem any_ty_shift (k : Int) (q : MatchEventSubtype → Bool) (evs : List Event) :
    (shiftEvents k evs).any (fun e => q e.ty) = evs.any (fun e => q e.ty) := by
  simp only [shiftEvents, List.any_map]
  congr 1
  funext e
  simp only [Function.comp, shiftEvent_ty]

theorem monoExonClassification_shift (k : Int) (evs : List Event) :
    monoExonClassification (shiftEvents k evs) = monoExonClassification evs := by
  unfold monoExonClassification
  have a1 : (shiftEvents k evs).any (fun e => e.ty = .alternative_polya_site_left ∨ e.ty = .alternative_polya_site_right ∨
      e.ty = .internal_polya_left ∨ e.ty = .internal_polya_right)
      = evs.any (fun e => e.ty = .alternative_polya_site_left ∨ e.ty = .alternative_polya_site_right ∨
      e.ty = .internal_polya_left ∨ e.ty = .internal_polya_right) :=
    any_ty_shift k (fun t => decide (t = .alternative_polya_site_left ∨ t = .alternative_polya_site_right ∨
      t = .internal_polya_left ∨ t = .internal_polya_right)) evs
  have a2 : (shiftEvents k evs).any (fun e => e.ty = .unspliced_intron_retention)
      = evs.any (fun e => e.ty = .unspliced_intron_retention) :=
    any_ty_shift k (fun t => decide (t = .unspliced_intron_retention)) evs
  have a3 : (shiftEvents k evs).any (fun e => e.ty = .incomplete_intron_retention_left ∨ e.ty = .incomplete_intron_retention_right)
      = evs.any (fun e => e.ty = .incomplete_intron_retention_left ∨ e.ty = .incomplete_intron_retention_right) :=
    any_ty_shift k (fun t => decide (t = .incomplete_intron_retention_left ∨ t = .incomplete_intron_retention_right)) evs
  rw [a1, a2, a3]
  cases evs with
  | nil => rfl
  | cons e es => simp only [shiftEvents_cons, shiftEvent_ty]

theorem inconsistencyClassification_shift (k : Int) (evs : List Event) :
    inconsistencyClassification (shiftEvents k evs) = inconsistencyClassification evs := by
  unfold inconsistencyClassification
  have a1 : (shiftEvents k evs).any (fun e => nnic_event_types.contains e.ty) = evs.any (fun e => nnic_event_types.contains e.ty) :=
    any_ty_shift k (fun t => nnic_event_types.contains t) evs
  have a2 : (shiftEvents k evs).any (fun e => nic_event_types.contains e.ty) = evs.any (fun e => nic_event_types.contains e.ty) :=
    any_ty_shift k (fun t => nic_event_types.contains t) evs
  rw [a1, a2]

def inconsistentTail (p : Params) (rp : ReadProf) (best : List (IsoInfo × List Event)) (pen : Rat) : Option Assignment :=
  if rp.intron.read.isEmpty then
    (mapOpt (fun (Ie : IsoInfo × List Event) =>
      (monoExonClassification Ie.2).map (fun c => mkMatchList c Ie.1.id Ie.2)) best).map
      (fun ms => { ty := classifyAssignment (best.map (·.2)), isoMatches := ms })
  else if (classifyAssignment (best.map (·.2))).is_inconsistent then
    some { ty := classifyAssignment (best.map (·.2)), isoMatches := best.map (fun Ie =>
      { mkMatchList (inconsistencyClassification Ie.2) Ie.1.id Ie.2 with
        penaltyNum := pen.num, penaltyDen := pen.den }) }
  else
    (mapOpt (fun (Ie : IsoInfo × List Event) =>
      (spliceMatch rp Ie.1).map (fun m =>
        { m with events := (Ie.2.filter (fun e => e.ty != MatchEventSubtype.none)).foldl addSub m.events })) best).map
      (fun ms => { ty := classifyAssignment (best.map (·.2)), isoMatches := ms })

theorem inconsistentTail_shift (k : Int) (p : Params) (rp : ReadProf) (best : List (IsoInfo × List Event)) (pen : Rat) :
    inconsistentTail p (shiftReadProf k rp) (best.map (shPairE k)) pen
      = (inconsistentTail p rp best pen).map (shiftAssignment k) := by
  unfold inconsistentTail
  have hr : (shiftReadProf k rp).intron = rp.intron := rfl
  have hcl : classifyAssignment ((best.map (shPairE k)).map (·.2)) = classifyAssignment (best.map (·.2)) := by
    have : (best.map (shPairE k)).map (·.2) = (best.map (·.2)).map (shiftEvents k) := by
      simp only [List.map_map]; rfl
    rw [this, classifyAssignment_shift]
  rw [hr, hcl]
  split
  · rw [mapOpt_map]
    have e : mapOpt (fun (x : IsoInfo × List Event) =>
          (monoExonClassification (shPairE k x).2).map (fun c => mkMatchList c (shPairE k x).1.id (shPairE k x).2)) best
        = (mapOpt (fun (Ie : IsoInfo × List Event) =>
          (monoExonClassification Ie.2).map (fun c => mkMatchList c Ie.1.id Ie.2)) best).map (List.map (shiftMatch k)) := by
      rw [← mapOpt_comp_map]
      apply mapOpt_congr
      intro Ie _
      simp only [shPairE, monoExonClassification_shift, mkMatchList_shift]
      cases monoExonClassification Ie.2 <;> rfl
    rw [e]
    cases mapOpt (fun (Ie : IsoInfo × List Event) =>
          (monoExonClassification Ie.2).map (fun c => mkMatchList c Ie.1.id Ie.2)) best <;> rfl
  · split
    · simp only [Option.map_some, shiftAssignment, List.map_map]
      congr 2
      apply List.map_congr_left
      intro Ie _
      simp only [Function.comp, shPairE, inconsistencyClassification_shift, mkMatchList_shift]
      rfl
    · rw [mapOpt_map]
      have e : mapOpt (fun (x : IsoInfo × List Event) =>
            (spliceMatch (shiftReadProf k rp) (shPairE k x).1).map (fun m =>
              { m with events := ((shPairE k x).2.filter (fun e => e.ty != MatchEventSubtype.none)).foldl addSub m.events })) best
          = (mapOpt (fun (Ie : IsoInfo × List Event) =>
            (spliceMatch rp Ie.1).map (fun m =>
              { m with events := (Ie.2.filter (fun e => e.ty != MatchEventSubtype.none)).foldl addSub m.events })) best).map
              (List.map (shiftMatch k)) := by
        rw [← mapOpt_comp_map]
        apply mapOpt_congr
        intro Ie _
        simp only [shPairE, spliceMatch_shift]
        cases hm : spliceMatch rp Ie.1 with
        | none => rfl
        | some m =>
          simp only [Option.map_some, shiftMatch]
          congr 2
          have f1 : (shiftEvents k Ie.2).filter (fun e => e.ty != MatchEventSubtype.none)
              = shiftEvents k (Ie.2.filter (fun e => e.ty != MatchEventSubtype.none)) :=
            filter_ty_shift k (fun t => t != MatchEventSubtype.none) Ie.2
          rw [f1]
          have f2 := foldl_addSub_shift k (Ie.2.filter (fun e => e.ty != MatchEventSubtype.none)) m.events
          rw [shiftEvents_of_noPos k m.events (spliceMatch_noPos rp Ie.1 m hm)] at f2
          exact f2
      rw [e]
      simp only [Option.map_map]
      rfl

theorem matchInconsistent_eq (g : Gene) (p : Params) (rp : ReadProf) (cj : Nat → Option (List Event)) :
    matchInconsistent g p rp cj =
      match selectSimilar g p rp with
      | none => none
      | some cands =>
        if cands.isEmpty then
          some { ty := .noninformative, isoMatches := [{ iso := none, cls := .genic, events := [] }] }
        else
          match detectInconsistencies g p rp cj (g.isos.filter (fun I => cands.any (fun C => C.id = I.id))) with
          | none => none
          | some rm =>
            if rm.isEmpty then some { ty := .noninformative, isoMatches := [] }
            else
              match selectBestAmongInconsistent p rp rm with
              | none => none
              | some (best, pen) =>
                if best.isEmpty then some { ty := .noninformative, isoMatches := [] }
                else inconsistentTail p rp best pen := by
  unfold matchInconsistent inconsistentTail
  rfl

theorem matchInconsistent_shift (k : Int) (g : Gene) (p : Params) (rp : ReadProf) (cj : Nat → Option (List Event))
    (h : ∀ I ∈ g.isos, EndsSafe k rp I) :
    matchInconsistent (shiftGene k g) p (shiftReadProf k rp) (shiftCj k cj)
      = (matchInconsistent g p rp cj).map (shiftAssignment k) := by
  rw [matchInconsistent_eq, matchInconsistent_eq, selectSimilar_shift]
  cases selectSimilar g p rp with
  | none => rfl
  | some cands =>
    simp only [Option.map_some, isEmpty_map']
    split
    · rfl
    · have hg : (shiftGene k g).isos = g.isos.map (shiftIsoInfo k) := rfl
      have hsorted : (shiftGene k g).isos.filter (fun I => (cands.map (shiftIsoInfo k)).any (fun C => C.id = I.id))
          = (g.isos.filter (fun I => cands.any (fun C => C.id = I.id))).map (shiftIsoInfo k) := by
        rw [hg, List.filter_map]
        congr 1
        apply List.filter_congr
        intro I _
        simp only [Function.comp]
        exact any_id_map k cands I.id
      rw [hsorted, detectInconsistencies_shift k g p rp cj _
        (fun I hI => h I (List.mem_filter.mp hI).1)]
      cases detectInconsistencies g p rp cj (g.isos.filter (fun I => cands.any (fun C => C.id = I.id))) with
      | none => rfl
      | some rm =>
        simp only [Option.map_some, isEmpty_map']
        split
        · rfl
        · rw [selectBestAmongInconsistent_shift]
          cases selectBestAmongInconsistent p rp rm with
          | none => rfl
          | some r =>
            obtain ⟨best, pen⟩ := r
            simp only [Option.map_some, isEmpty_map']
            split
            · rfl
            · exact inconsistentTail_shift k p rp best pen


/-! ## `assign_to_isoform`, `assignRead` -/

theorem dispatch_shift (k : Int) (g : Gene) (rp : ReadProf) :
    dispatch (shiftGene k g) (shiftReadProf k rp) = dispatch g rp := by
  unfold dispatch
  have h1 : (shiftGene k g).exons.isEmpty = g.exons.isEmpty := isEmpty_map' (shiftIv k) g.exons
  rw [h1]
  rfl

theorem noninformativeAssignment_shift (k : Int) (g : Gene) (rp : ReadProf) :
    noninformativeAssignment (shiftGene k g) (shiftReadProf k rp)
      = (noninformativeAssignment g rp).map (shiftAssignment k) := by
  unfold noninformativeAssignment
  have h1 : (shiftGene k g).splitExons = shiftL k g.splitExons := rfl
  rw [h1, regionOf_shift]
  cases regionOf g.splitExons with
  | none => rfl
  | some gr =>
    have h2 : (shiftReadProf k rp).region = shiftIv k rp.region := rfl
    simp only [Option.map_some, h2, overlaps_shift]
    rfl

theorem assignToIsoform_shift (k : Int) (g : Gene) (p : Params) (rp : ReadProf) (cj : Nat → Option (List Event))
    (h : ∀ I ∈ g.isos, EndsSafe k rp I) :
    assignToIsoform (shiftGene k g) p (shiftReadProf k rp) (shiftCj k cj)
      = (assignToIsoform g p rp cj).map (fun r => (shiftAssignment k r.1, r.2)) := by
  unfold assignToIsoform
  rw [dispatch_shift, noninformativeAssignment_shift, matchInconsistent_shift k g p rp cj h,
    matchConsistent_shift k g p rp h]
  cases dispatch g rp with
  | intergenic => rfl
  | noninformative => simp only; cases noninformativeAssignment g rp <;> rfl
  | inconsistent => simp only; cases matchInconsistent g p rp cj <;> rfl
  | consistent =>
    simp only
    cases matchConsistent g p rp with
    | none => rfl
    | some o =>
      cases o with
      | none => simp only [Option.map_some, Option.map_none]; cases matchInconsistent g p rp cj <;> rfl
      | some a => rfl
  | fallback =>
    simp only
    cases matchConsistent g p rp with
    | none => rfl
    | some o =>
      cases o with
      | none => simp only [Option.map_some, Option.map_none]; cases matchInconsistent g p rp cj <;> rfl
      | some a => rfl

/-- the sentinel hypotheses of the whole assignment of one read, stated once on the INPUTS: no annotated exon border and
    no present polyA / polyT position is the code's sentinel −1 before or after the shift, nor is any position that
    `verify_polya` / `verify_polyt` derives from them for an isoform of the strand concerned -/
structure NoSentinel (k : Int) (ms : List Isoform) (blocks : List Iv) (pa : PolyA) : Prop where
  exons : ExonsSafe k ms
  extA : SafePos k pa.extA
  extT : SafePos k pa.extT
  plus : ∀ m ∈ ms, m.strand = Strand.plus → PolyaSafe k m.exons blocks pa.extA pa.intA
  minus : ∀ m ∈ ms, m.strand = Strand.minus → PolytSafe k m.exons blocks pa.extT pa.intT

theorem constructProfiles_fields (g : Gene) (p : Params) (blocks : List Iv) (pa : PolyA) (rp : ReadProf)
    (h : constructProfiles g p blocks pa = some rp) : rp.blocks = blocks ∧ rp.polya = pa := by
  unfold constructProfiles at h
  split at h
  · cases h
  · simp only at h
    split at h
    · cases h
    · obtain rfl := Option.some.inj h
      exact ⟨rfl, rfl⟩

theorem assignRead_shift (k : Int) (ms : List Isoform) (p : Params) (blocks : List Iv) (pa : PolyA)
    (cj : Nat → Option (List Event)) (h : NoSentinel k ms blocks pa) :
    assignRead (ms.map (shiftIsoform k)) p (shiftL k blocks) (shiftPolyA k pa) (shiftCj k cj)
      = (assignRead ms p blocks pa cj).map (fun r => (shiftAssignment k r.1, r.2)) := by
  unfold assignRead
  rw [fromModels_shift k ms h.exons]
  cases hg : Gene.fromModels ms with
  | none => rfl
  | some g =>
    simp only [Option.map_some]
    rw [constructProfiles_shift k g p blocks pa h.extA h.extT]
    cases hrp : constructProfiles g p blocks pa with
    | none => rfl
    | some rp =>
      simp only [Option.map_some]
      apply assignToIsoform_shift
      intro I hI
      obtain ⟨hb, hpa⟩ := constructProfiles_fields g p blocks pa rp hrp
      obtain ⟨m, hm, hIm⟩ := (IsoVerif.Lemmas.C01.fromModels_spec ms g hg).2.2 I hI
      unfold EndsSafe
      rw [hIm.strand, hIm.exons, hb, hpa]
      cases hs : m.strand with
      | plus => exact h.plus m hm hs
      | minus => exact h.minus m hm hs
      | other => trivial

end IsoVerif.Lemmas.C11.AssignShift
