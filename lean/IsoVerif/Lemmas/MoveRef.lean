/-
Helper lemmas for C16: `move_ref_coord_alogn_alignment` (Model/PolyAFinder.lean) against the base-by-base projection
(Model/TailSpec.lean).
-/
import IsoVerif.Model.TailSpec
import IsoVerif.Lemmas.Cigar

namespace IsoVerif.Lemmas.C16
open IsoVerif.Gen IsoVerif.Model IsoVerif.Model.C16

/-! ### columns -/

theorem expand_nil : expand [] = [] := rfl

theorem expand_cons (o : CigarOp) (l : List CigarOp) :
    expand (o :: l) = List.replicate o.2.toNat (consumesQuery o.1, consumesRef o.1) ++ expand l := by
  simp [expand]

theorem refColsUpTo_rep_both (rest : List (Bool × Bool)) : ∀ (n q : Nat),
    refColsUpTo (List.replicate n (true, true) ++ rest) q = if q < n then q + 1 else n + refColsUpTo rest (q - n) := by
  intro n
  induction n with
  | zero => intro q; simp
  | succ n ih =>
    intro q
    cases q with
    | zero => simp [List.replicate_succ, refColsUpTo]
    | succ q =>
      simp only [List.replicate_succ, List.cons_append, refColsUpTo, ih q, Bool.toNat_true, Nat.add_sub_add_right]
      split <;> split <;> omega

theorem refColsUpTo_rep_qry (rest : List (Bool × Bool)) : ∀ (n q : Nat),
    refColsUpTo (List.replicate n (true, false) ++ rest) q = if q < n then 0 else refColsUpTo rest (q - n) := by
  intro n
  induction n with
  | zero => intro q; simp
  | succ n ih =>
    intro q
    cases q with
    | zero => simp [List.replicate_succ, refColsUpTo]
    | succ q =>
      simp only [List.replicate_succ, List.cons_append, refColsUpTo, ih q, Bool.toNat_false, Nat.add_sub_add_right]
      split <;> split <;> omega

theorem refColsUpTo_rep_ref (rest : List (Bool × Bool)) (q : Nat) : ∀ (n : Nat),
    refColsUpTo (List.replicate n (false, true) ++ rest) q = n + refColsUpTo rest q := by
  intro n
  induction n with
  | zero => simp
  | succ n ih => simp only [List.replicate_succ, List.cons_append, refColsUpTo, ih, Bool.toNat_true]; omega

theorem refColsUpTo_rep_none (rest : List (Bool × Bool)) (q : Nat) : ∀ (n : Nat),
    refColsUpTo (List.replicate n (false, false) ++ rest) q = refColsUpTo rest q := by
  intro n
  induction n with
  | zero => simp
  | succ n ih => simp only [List.replicate_succ, List.cons_append, refColsUpTo, ih, Bool.toNat_false]; omega

theorem rCount_cons (c : Bool × Bool) (l : List (Bool × Bool)) : rCount (c :: l) = c.2.toNat + rCount l := by
  obtain ⟨a, b⟩ := c
  cases b <;> simp [rCount] <;> omega

theorem qCount_cons (c : Bool × Bool) (l : List (Bool × Bool)) : qCount (c :: l) = c.1.toNat + qCount l := by
  obtain ⟨a, b⟩ := c
  cases a <;> simp [qCount] <;> omega

/-- the executable walk over columns meets the declarative projection -/
theorem refColsUpTo_spec : ∀ (cols : List (Bool × Bool)) (q : Nat),
    (∃ pre c post, cols = pre ++ c :: post ∧ c.1 = true ∧ qCount pre = q ∧
        refColsUpTo cols q = rCount (pre ++ [c])) ∨
    (qCount cols ≤ q ∧ refColsUpTo cols q = rCount cols) := by
  intro cols
  induction cols with
  | nil => intro q; right; simp [qCount, rCount, refColsUpTo]
  | cons c cols ih =>
    intro q
    obtain ⟨a, b⟩ := c
    cases a with
    | true =>
      cases q with
      | zero =>
        left
        refine ⟨[], (true, b), cols, rfl, rfl, rfl, ?_⟩
        cases b <;> simp [refColsUpTo, rCount]
      | succ q =>
        rcases ih q with ⟨pre, c, post, h1, h2, h3, h4⟩ | ⟨h1, h2⟩
        · left
          refine ⟨(true, b) :: pre, c, post, by rw [h1]; rfl, h2, by rw [qCount_cons, h3]; simp; omega, ?_⟩
          simp only [refColsUpTo, h4, List.cons_append, rCount_cons]
        · right
          refine ⟨by rw [qCount_cons]; simp; omega, ?_⟩
          simp only [refColsUpTo, h2, rCount_cons]
    | false =>
      rcases ih q with ⟨pre, c, post, h1, h2, h3, h4⟩ | ⟨h1, h2⟩
      · left
        refine ⟨(false, b) :: pre, c, post, by rw [h1]; rfl, h2, by rw [qCount_cons, h3]; simp, ?_⟩
        simp only [refColsUpTo, h4, List.cons_append, rCount_cons]
      · right
        refine ⟨by rw [qCount_cons]; simpa using h1, ?_⟩
        simp only [refColsUpTo, h2, rCount_cons]

theorem projectsTo_refColsUpTo (cols : List (Bool × Bool)) (q : Nat) :
    ProjectsTo cols q ((refColsUpTo cols q : Int) - 1) := by
  rcases refColsUpTo_spec cols q with ⟨pre, c, post, h1, h2, h3, h4⟩ | ⟨h1, h2⟩
  · left; exact ⟨pre, c, post, h1, h2, h3, by rw [h4]⟩
  · right; exact ⟨h1, by rw [h2]⟩

/-- the projection is a function of the columns and the base number -/
theorem projectsTo_unique (cols : List (Bool × Bool)) (q : Nat) (r r' : Int)
    (h : ProjectsTo cols q r) (h' : ProjectsTo cols q r') : r = r' := by
  have key : ∀ r, ProjectsTo cols q r → r = (refColsUpTo cols q : Int) - 1 := by
    intro r hr
    clear h h'
    induction cols generalizing q r with
    | nil =>
      rcases hr with ⟨pre, c, post, h1, _⟩ | ⟨_, h2⟩
      · cases pre <;> cases h1
      · simp [rCount] at h2; simp [refColsUpTo, h2]
    | cons c cols ih =>
      obtain ⟨a, b⟩ := c
      rcases hr with ⟨pre, c, post, h1, h2, h3, h4⟩ | ⟨h1, h2⟩
      · cases pre with
        | nil =>
          simp only [List.nil_append, List.cons.injEq] at h1
          obtain ⟨rfl, rfl⟩ := h1
          simp only at h2; subst h2
          simp [qCount] at h3; subst h3
          cases b <;> simp [refColsUpTo, rCount] at h4 ⊢ <;> exact h4
        | cons p pre =>
          simp only [List.cons_append, List.cons.injEq] at h1
          obtain ⟨rfl, rfl⟩ := h1
          rw [qCount_cons] at h3
          simp only [List.cons_append, rCount_cons] at h4
          cases a with
          | true =>
            cases q with
            | zero => simp at h3
            | succ q =>
              have := ih q (r - b.toNat) (Or.inl ⟨pre, c, post, rfl, h2, by simp at h3; omega, by rw [h4]; simp; omega⟩)
              simp only [refColsUpTo]; omega
          | false =>
            have := ih q (r - b.toNat) (Or.inl ⟨pre, c, post, rfl, h2, by simpa using h3, by rw [h4]; simp; omega⟩)
            simp only [refColsUpTo]; omega
      · rw [qCount_cons] at h1
        rw [rCount_cons] at h2
        cases a with
        | true =>
          cases q with
          | zero => simp at h1
          | succ q =>
            have := ih q (r - b.toNat) (Or.inr ⟨by simp at h1; omega, by rw [h2]; simp; omega⟩)
            simp only [refColsUpTo]; omega
        | false =>
          have := ih q (r - b.toNat) (Or.inr ⟨by simpa using h1, by rw [h2]; simp; omega⟩)
          simp only [refColsUpTo]; omega
  rw [key r h, key r' h']

theorem refColsUpTo_le_rCount : ∀ (cols : List (Bool × Bool)) (q : Nat), refColsUpTo cols q ≤ rCount cols := by
  intro cols
  induction cols with
  | nil => intro q; simp [refColsUpTo]
  | cons c cols ih =>
    intro q
    obtain ⟨a, b⟩ := c
    rw [rCount_cons]
    cases a with
    | true =>
      cases q with
      | zero => simp [refColsUpTo]
      | succ q => have := ih q; simp only [refColsUpTo]; omega
    | false => have := ih q; simp only [refColsUpTo]; omega

theorem rCount_append (a b : List (Bool × Bool)) : rCount (a ++ b) = rCount a + rCount b := by
  simp [rCount, List.countP_append]

theorem rCount_replicate (n : Nat) (a b : Bool) : rCount (List.replicate n (a, b)) = if b then n else 0 := by
  cases b <;> simp [rCount, List.countP_replicate]

/-- reference columns of the expansion = reference length of the operations -/
theorem rCount_expand {ops : List CigarOp} (h : NonNeg ops) : (rCount (expand ops) : Int) = refLen ops := by
  induction ops with
  | nil => simp [expand, rCount, refLen]
  | cons o l ih =>
    have ho : 0 ≤ o.2 := h o (by simp)
    have hl : NonNeg l := fun x hx => h x (by simp [hx])
    rw [expand_cons, rCount_append, rCount_replicate, refLen_cons, Int.natCast_add, ih hl]
    split <;> simp <;> omega

/-! ### the loop -/

/-- the part of an operation list before its first clip -/
def coreOf (ops : List CigarOp) : List CigarOp := ops.takeWhile (fun o => !isClipOp o.1)

theorem moveRefLoop_done (T read ref : Int) (ops : List CigarOp) (h : ¬ read < T) :
    moveRefLoop T read ref ops = some ref := by
  cases ops <;> simp [moveRefLoop, h]

theorem coreOf_cons_clip (o : CigarOp) (l : List CigarOp) (h : isClipOp o.1 = true) : coreOf (o :: l) = [] := by
  simp [coreOf, h]

theorem coreOf_cons_nonclip (o : CigarOp) (l : List CigarOp) (h : isClipOp o.1 = false) :
    coreOf (o :: l) = o :: coreOf l := by
  simp [coreOf, h]

theorem kind_cases (k : CigarEvent) :
    isClipOp k = true ∨ k = .padding ∨ k = .insertion ∨ (k = .deletion ∨ k = .skipped) ∨ isAligned k = true := by
  cases k <;> simp [isClipOp, isAligned]

theorem step_clip (T read ref : Int) (k : CigarEvent) (n : Int) (rest : List CigarOp) (h : read < T)
    (hk : isClipOp k = true) : moveRefLoop T read ref ((k, n) :: rest) = some ref := by
  cases k <;> simp [isClipOp] at hk <;> simp [moveRefLoop, h]

theorem step_pad (T read ref : Int) (n : Int) (rest : List CigarOp) (h : read < T) :
    moveRefLoop T read ref ((CigarEvent.padding, n) :: rest) = none := by
  simp [moveRefLoop, h]

theorem step_ins (T read ref : Int) (n : Int) (rest : List CigarOp) (h : read < T) :
    moveRefLoop T read ref ((CigarEvent.insertion, n) :: rest) = moveRefLoop T (read + n) ref rest := by
  simp [moveRefLoop, h]

theorem step_ref (T read ref : Int) (k : CigarEvent) (n : Int) (rest : List CigarOp) (h : read < T)
    (hk : k = .deletion ∨ k = .skipped) :
    moveRefLoop T read ref ((k, n) :: rest) = moveRefLoop T read (ref + n) rest := by
  rcases hk with rfl | rfl <;> simp [moveRefLoop, h]

theorem step_aln (T read ref : Int) (k : CigarEvent) (n : Int) (rest : List CigarOp) (h : read < T)
    (hk : isAligned k = true) :
    moveRefLoop T read ref ((k, n) :: rest) =
      if n < T - read then moveRefLoop T (read + n) (ref + n) rest
      else moveRefLoop T (read + (T - read)) (ref + (T - read)) rest := by
  cases k <;> simp [isAligned] at hk <;> simp [moveRefLoop, h]

/-- no `P` is met before the target base: the loop returns the base-by-base projection -/
theorem moveRefLoop_spec (T : Int) : ∀ (ops : List CigarOp) (read ref : Int), NonNeg ops → read < T →
    (∀ pre l post, coreOf ops = pre ++ (CigarEvent.padding, l) :: post → T - read ≤ queryLen pre) →
    moveRefLoop T read ref ops = some (ref + refColsUpTo (expand (coreOf ops)) (T - read - 1).toNat) := by
  intro ops
  induction ops with
  | nil => intro read ref _ _ _; simp [moveRefLoop, coreOf, expand, refColsUpTo]
  | cons op rest ih =>
    intro read ref hnn hlt hpad
    obtain ⟨k, n⟩ := op
    have hn : 0 ≤ n := hnn (k, n) (by simp)
    have hnn' : NonNeg rest := fun x hx => hnn x (by simp [hx])
    -- hypothesis for the recursive calls
    have hpad' : isClipOp k = false → ∀ (read' : Int), read' = read + (if consumesQuery k then n else 0) →
        ∀ pre l post, coreOf rest = pre ++ (CigarEvent.padding, l) :: post → T - read' ≤ queryLen pre := by
      intro hk read' hr pre l post hc
      have := hpad ((k, n) :: pre) l post (by rw [coreOf_cons_nonclip _ _ hk, hc]; rfl)
      rw [queryLen_cons] at this
      simp only at this
      omega
    rcases kind_cases k with hk | rfl | rfl | hk | hk
    · rw [coreOf_cons_clip _ _ hk, step_clip _ _ _ _ _ _ hlt hk]
      simp [expand, refColsUpTo]
    · exfalso
      have := hpad [] n (coreOf rest) (by rw [coreOf_cons_nonclip _ _ rfl]; rfl)
      simp [queryLen] at this; omega
    · rw [coreOf_cons_nonclip _ _ rfl, expand_cons, step_ins _ _ _ _ _ hlt]
      have hq : consumesQuery CigarEvent.insertion = true := by decide
      have hr : consumesRef CigarEvent.insertion = false := by decide
      simp only [hq, hr]
      rw [refColsUpTo_rep_qry]
      by_cases hc : read + n < T
      · rw [ih (read + n) ref hnn' hc (hpad' rfl _ (by simp [hq]))]
        have h1 : ¬ ((T - read - 1).toNat < n.toNat) := by omega
        rw [if_neg h1]
        have h2 : (T - (read + n) - 1).toNat = (T - read - 1).toNat - n.toNat := by omega
        rw [h2]
      · rw [moveRefLoop_done _ _ _ _ hc]
        have h1 : (T - read - 1).toNat < n.toNat := by omega
        rw [if_pos h1]; simp
    · have hclip : isClipOp k = false := by rcases hk with rfl | rfl <;> rfl
      have hq : consumesQuery k = false := by rcases hk with rfl | rfl <;> rfl
      have hr : consumesRef k = true := by rcases hk with rfl | rfl <;> rfl
      rw [coreOf_cons_nonclip _ _ hclip, expand_cons, step_ref _ _ _ _ _ _ hlt hk]
      simp only [hq, hr]
      rw [refColsUpTo_rep_ref, ih read (ref + n) hnn' hlt (hpad' hclip _ (by simp [hq]))]
      congr 1; simp only [Int.natCast_add]; omega
    · have hclip : isClipOp k = false := by cases k <;> simp [isAligned] at hk <;> rfl
      have hq : consumesQuery k = true := by cases k <;> simp [isAligned] at hk <;> rfl
      have hr : consumesRef k = true := by cases k <;> simp [isAligned] at hk <;> rfl
      rw [coreOf_cons_nonclip _ _ hclip, expand_cons, step_aln _ _ _ _ _ _ hlt hk]
      simp only [hq, hr]
      rw [refColsUpTo_rep_both]
      by_cases hc : n < T - read
      · simp only [hc, if_true]
        rw [ih (read + n) (ref + n) hnn' (by omega) (hpad' hclip _ (by simp [hq]))]
        have h1 : ¬ ((T - read - 1).toNat < n.toNat) := by omega
        rw [if_neg h1]
        have h2 : (T - (read + n) - 1).toNat = (T - read - 1).toNat - n.toNat := by omega
        rw [h2]; congr 1; simp only [Int.natCast_add]; omega
      · simp only [hc, if_false]
        rw [moveRefLoop_done _ _ _ _ (by omega)]
        have h1 : (T - read - 1).toNat < n.toNat := by omega
        rw [if_pos h1]; congr 1; simp only [Int.natCast_add]; omega

/-- a `P` is met before the target base: the loop raises -/
theorem moveRefLoop_pad (T : Int) : ∀ (ops : List CigarOp) (read ref : Int) (pre : List CigarOp) (l : Int)
    (post : List CigarOp), NonNeg ops → read < T →
    coreOf ops = pre ++ (CigarEvent.padding, l) :: post → queryLen pre < T - read →
    moveRefLoop T read ref ops = none := by
  intro ops
  induction ops with
  | nil => intro read ref pre l post _ _ hc _; cases pre <;> simp [coreOf] at hc
  | cons op rest ih =>
    intro read ref pre l post hnn hlt hc hq
    obtain ⟨k, n⟩ := op
    have hn : 0 ≤ n := hnn (k, n) (by simp)
    have hnn' : NonNeg rest := fun x hx => hnn x (by simp [hx])
    rcases kind_cases k with hk | rfl | rfl | hk | hk
    · rw [coreOf_cons_clip _ _ hk] at hc; cases pre <;> cases hc
    · exact step_pad _ _ _ _ _ hlt
    · rw [coreOf_cons_nonclip _ _ rfl] at hc
      cases pre with
      | nil => cases hc
      | cons p pre =>
        simp only [List.cons_append, List.cons.injEq] at hc
        obtain ⟨rfl, hc⟩ := hc
        rw [queryLen_cons] at hq
        have hq' : consumesQuery CigarEvent.insertion = true := by decide
        simp only [hq', if_true] at hq
        rw [step_ins _ _ _ _ _ hlt]
        have := queryLen_nonneg (l := pre) (by
          intro x hx
          have : x ∈ coreOf rest := by rw [hc]; simp [hx]
          exact hnn' x ((List.takeWhile_sublist _).subset this))
        exact ih (read + n) ref pre l post hnn' (by omega) hc (by omega)
    · have hclip : isClipOp k = false := by rcases hk with rfl | rfl <;> rfl
      have hq' : consumesQuery k = false := by rcases hk with rfl | rfl <;> rfl
      rw [coreOf_cons_nonclip _ _ hclip] at hc
      cases pre with
      | nil => simp only [List.nil_append, List.cons.injEq, Prod.mk.injEq] at hc; rcases hk with rfl | rfl <;> simp at hc
      | cons p pre =>
        simp only [List.cons_append, List.cons.injEq] at hc
        obtain ⟨rfl, hc⟩ := hc
        rw [queryLen_cons] at hq
        simp only [hq'] at hq
        rw [step_ref _ _ _ _ _ _ hlt hk]
        exact ih read (ref + n) pre l post hnn' hlt hc (by simpa using hq)
    · have hclip : isClipOp k = false := by cases k <;> simp [isAligned] at hk <;> rfl
      have hq' : consumesQuery k = true := by cases k <;> simp [isAligned] at hk <;> rfl
      rw [coreOf_cons_nonclip _ _ hclip] at hc
      cases pre with
      | nil => simp only [List.nil_append, List.cons.injEq, Prod.mk.injEq] at hc; cases k <;> simp [isAligned] at hk <;> simp at hc
      | cons p pre =>
        simp only [List.cons_append, List.cons.injEq] at hc
        obtain ⟨rfl, hc⟩ := hc
        rw [queryLen_cons] at hq
        simp only [hq', if_true] at hq
        have := queryLen_nonneg (l := pre) (by
          intro x hx
          have : x ∈ coreOf rest := by rw [hc]; simp [hx]
          exact hnn' x ((List.takeWhile_sublist _).subset this))
        rw [step_aln _ _ _ _ _ _ hlt hk, if_pos (by omega)]
        exact ih (read + n) (ref + n) pre l post hnn' (by omega) hc (by omega)

theorem walkCore_eq (cigar : List CigarOp) (shift : Int) :
    walkCore cigar (decide (shift > 0)) =
      coreOf ((if shift > 0 then cigar else cigar.reverse).drop
        (leadingClips (if shift > 0 then cigar else cigar.reverse))) := by
  by_cases h : shift > 0 <;> simp [walkCore, coreOf, h]

theorem padReached_iff (core : List CigarOp) (n : Nat) :
    padReached core n = true ↔
      ∃ pre l post, core = pre ++ (CigarEvent.padding, l) :: post ∧ queryLen pre ≤ (n : Int) := by
  simp only [padReached, List.any_eq_true, List.mem_range]
  constructor
  · rintro ⟨i, hi, h⟩
    have hget : core[i]? = some core[i] := by simp [hi]
    rw [hget] at h
    simp only [Bool.and_eq_true, beq_iff_eq, decide_eq_true_eq] at h
    refine ⟨core.take i, core[i].2, core.drop (i + 1), ?_, h.2⟩
    have : core[i] = (CigarEvent.padding, core[i].2) := by rw [← h.1]
    rw [← this]
    simp
  · rintro ⟨pre, l, post, hc, hq⟩
    refine ⟨pre.length, by rw [hc]; simp, ?_⟩
    subst hc
    simp [hq]

end IsoVerif.Lemmas.C16
