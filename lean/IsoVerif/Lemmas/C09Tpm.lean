/-
Helper lemmas for the grouped TPM values (Model/C09Tpm.lean): column totals of the first pass, the row of the second
pass as a `zipWith`, sums of scaled columns.  Core Lean only.
-/
import IsoVerif.Model.C09Tpm

namespace IsoVerif.Lemmas.C09Tpm
open IsoVerif.Model.C09

/-- printed count in column `j` of a row of values (0 when the row has no such column) -/
def pvAt (hs : List Int) (j : Nat) : Rat :=
  match hs[j]? with
  | some h => printedVal h
  | none => 0

def ratAt (l : List Rat) (j : Nat) : Rat :=
  match l[j]? with
  | some x => x
  | none => 0

/-- sum of a list of rationals -/
def rsum : List Rat → Rat
  | [] => 0
  | x :: xs => x + rsum xs

/-- the sum of column `j` over the rows -/
def colTotal (j : Nat) (rows : List (String × List Int)) : Rat := rsum (rows.map (fun r => pvAt r.2 j))

theorem addCols_length (ts : List Rat) (hs : List Int) : (addCols ts hs).length = max ts.length hs.length := by
  fun_induction addCols ts hs with
  | case1 ts => simp
  | case2 h hs ih => simp only [List.length_cons, ih, List.length_nil]; omega
  | case3 t ts h hs ih => simp only [List.length_cons, ih]; omega

theorem addCols_at (ts : List Rat) (hs : List Int) (j : Nat) :
    ratAt (addCols ts hs) j = ratAt ts j + pvAt hs j := by
  fun_induction addCols ts hs generalizing j with
  | case1 ts => simp [pvAt, Rat.add_zero]
  | case2 h hs ih =>
    cases j with
    | zero => simp [ratAt, pvAt]
    | succ j =>
      have := ih j
      simp only [ratAt, pvAt, List.getElem?_cons_succ, List.getElem?_nil] at this ⊢
      exact this
  | case3 t ts h hs ih =>
    cases j with
    | zero => simp [ratAt, pvAt]
    | succ j =>
      have := ih j
      simp only [ratAt, pvAt, List.getElem?_cons_succ] at this ⊢
      exact this

theorem foldl_addCols_at (rows : List (String × List Int)) (acc : List Rat) (j : Nat) :
    ratAt (rows.foldl (fun a r => addCols a r.2) acc) j = ratAt acc j + colTotal j rows := by
  induction rows generalizing acc with
  | nil => simp [colTotal, rsum, Rat.add_zero]
  | cons r rs ih =>
    simp only [List.foldl_cons, ih, addCols_at, colTotal, List.map_cons, rsum]
    grind

theorem gTotals_at (rows : List (String × List Int)) (j : Nat) : ratAt (gTotals rows) j = colTotal j rows := by
  unfold gTotals
  rw [foldl_addCols_at]
  simp [ratAt, Rat.zero_add]

theorem foldl_addCols_length (k : Nat) (rows : List (String × List Int)) (hrect : ∀ r ∈ rows, r.2.length = k)
    (acc : List Rat) (hacc : acc.length ≤ k) :
    (rows.foldl (fun a r => addCols a r.2) acc).length = if rows = [] then acc.length else k := by
  induction rows generalizing acc with
  | nil => simp
  | cons r rs ih =>
    have hr := hrect r (by simp)
    have hl : (addCols acc r.2).length = k := by rw [addCols_length, hr]; omega
    simp only [List.foldl_cons, reduceCtorEq, if_false]
    rw [ih (fun x hx => hrect x (by simp [hx])) _ (by omega)]
    split <;> simp_all

theorem gTotals_length (k : Nat) (rows : List (String × List Int)) (hrect : ∀ r ∈ rows, r.2.length = k)
    (hne : rows ≠ []) : (gTotals rows).length = k := by
  unfold gTotals
  rw [foldl_addCols_length k rows hrect [] (by simp)]
  simp [hne]

theorem gTotals_getElem (k : Nat) (rows : List (String × List Int)) (hrect : ∀ r ∈ rows, r.2.length = k)
    (hne : rows ≠ []) (j : Nat) (hj : j < k) : (gTotals rows)[j]? = some (colTotal j rows) := by
  have hl := gTotals_length k rows hrect hne
  have hat := gTotals_at rows j
  have hlt : j < (gTotals rows).length := by omega
  simp only [ratAt, List.getElem?_eq_getElem hlt] at hat
  rw [List.getElem?_eq_getElem hlt, hat]

theorem tpmRow_ok (sf : List Rat) (hs : List Int) (h : sf.length ≤ hs.length) :
    tpmRow sf hs = .ok (List.zipWith (fun s v => s * printedVal v) sf hs) := by
  fun_induction tpmRow sf hs with
  | case1 hs => simp
  | case2 s ss => simp at h
  | case3 s ss v vs e he ih =>
    have := ih (by simpa using h)
    rw [he] at this; cases this
  | case4 s ss v vs r hr ih =>
    have := ih (by simpa using h)
    rw [hr] at this
    injection this with this
    simp [this]

theorem tpmRow_short (sf : List Rat) (hs : List Int) (h : hs.length < sf.length) :
    tpmRow sf hs = .error .indexError := by
  fun_induction tpmRow sf hs with
  | case1 hs => simp at h
  | case2 s ss => rfl
  | case3 s ss v vs e he ih =>
    have := ih (by simpa using h)
    rw [he] at this
    injection this with this
    rw [this]
  | case4 s ss v vs r hr ih =>
    have := ih (by simpa using h)
    rw [hr] at this; cases this

theorem tpmRows_ok (sf : List Rat) (rows : List (String × List Int)) (h : ∀ r ∈ rows, sf.length ≤ r.2.length) :
    tpmRows sf rows = .ok (rows.map (fun r => (r.1, List.zipWith (fun s v => s * printedVal v) sf r.2))) := by
  induction rows with
  | nil => rfl
  | cons r rs ih =>
    simp only [tpmRows, tpmRow_ok sf r.2 (h r (by simp)), ih (fun x hx => h x (by simp [hx])), List.map_cons]

theorem tpmRows_short (sf : List Rat) (rows : List (String × List Int)) (r : String × List Int) (hr : r ∈ rows)
    (hs : r.2.length < sf.length) : tpmRows sf rows = .error .indexError := by
  induction rows with
  | nil => simp at hr
  | cons x xs ih =>
    simp only [tpmRows]
    rcases List.mem_cons.mp hr with h | h
    · subst h; simp [tpmRow_short sf r.2 hs]
    · by_cases hx : x.2.length < sf.length
      · simp [tpmRow_short sf x.2 hx]
      · simp [tpmRow_ok sf x.2 (by omega), ih h]

theorem rsum_map_mul (l : List Rat) (s : Rat) : rsum (l.map (fun x => s * x)) = s * rsum l := by
  induction l with
  | nil => simp [rsum, Rat.mul_zero]
  | cons x xs ih => simp only [List.map_cons, rsum, ih]; grind

theorem rsum_map_map {α} (l : List α) (f : α → Rat) (s : Rat) :
    rsum (l.map (fun a => s * f a)) = s * rsum (l.map f) := by
  rw [← rsum_map_mul, List.map_map]; rfl

theorem gScale_pos (t : Rat) : 0 < gScale t := by
  unfold gScale
  split
  · rename_i h
    rw [Rat.div_def]
    exact Rat.mul_pos (by decide +kernel) (Rat.inv_pos.mpr h)
  · decide +kernel

theorem gScale_mul (t : Rat) (h : 0 < t) : gScale t * t = 1000000 := by
  unfold gScale
  simp only [h, if_true]
  exact Rat.div_mul_cancel (by grind)

end IsoVerif.Lemmas.C09Tpm
