/-
Towards the converse clause of C01: a read intron that is marked −1 by the sweep of `compare_junctions` lies in one of
the contradictory region pairs (so an event is computed for it), one that is marked 0 lies in the leading or trailing run
of zeros that `add_extra_out_exon_events` turns into flanking events; which event types each of the three classifiers
can give, and under which (decidable) tolerance conditions the type is not a major inconsistency.  Core Lean only.
-/
import IsoVerif.Lemmas.C01CmpSpec
import IsoVerif.Lemmas.C01CmpEvents
import IsoVerif.Model.JunctionSpec

namespace IsoVerif.Lemmas.C01Cmp
open IsoVerif.Gen IsoVerif.Model IsoVerif.Model.C01 IsoVerif.Lemmas

/-! ### every −1 of the read presence list is covered by a pair -/

/-- the pair concerns read intron `x` -/
def CoversRead (x : Nat) : CPair → Prop
  | .retention _ _ => False
  | .extra rp _ => rp = x
  | .both r0 r1 _ _ => r0 ≤ x ∧ x ≤ r1

def CurCovers (cur : Cur) (x : Nat) : Prop := ∃ r0 r1 i0 i1, cur = some (r0, r1, i0, i1) ∧ r0 ≤ x ∧ x ≤ r1

def CurBefore (cur : Cur) (ri : Nat) : Prop := ∀ r0 r1 i0 i1, cur = some (r0, r1, i0, i1) → r0 ≤ r1 ∧ r1 ≤ ri

theorem closeCur_covers {cur : Cur} {x : Nat} (h : CurCovers cur x) : ∃ pr ∈ closeCur cur, CoversRead x pr := by
  obtain ⟨r0, r1, i0, i1, rfl, h1, h2⟩ := h
  exact ⟨.both r0 r1 i0 i1, by simp [closeCur], h1, h2⟩

theorem extendCur_covers {cur : Cur} {ri ki x : Nat} (hb : CurBefore cur ri) (h : CurCovers cur x ∨ x = ri) :
    CurCovers (extendCur cur ri ki) x := by
  match cur, hb with
  | none, _ =>
    rcases h with ⟨_, _, _, _, h, _⟩ | rfl
    · cases h
    · exact ⟨x, x, ki, ki, rfl, Nat.le_refl _, Nat.le_refl _⟩
  | some (r0, r1, i0, i1), hb =>
    obtain ⟨hb1, hb2⟩ := hb r0 r1 i0 i1 rfl
    refine ⟨r0, ri, i0, ki, rfl, ?_⟩
    rcases h with ⟨a, b, c, d, h, h1, h2⟩ | rfl
    · simp only [Option.some.injEq, Prod.mk.injEq] at h
      obtain ⟨rfl, rfl, _, _⟩ := h
      omega
    · omega

theorem extendCur_before {cur : Cur} {ri ki ri' : Nat} (hb : CurBefore cur ri) (h : ri ≤ ri') :
    CurBefore (extendCur cur ri ki) ri' := by
  intro a b c d he
  match cur, hb with
  | none, _ =>
    simp only [extendCur, Option.some.injEq, Prod.mk.injEq] at he
    obtain ⟨rfl, rfl, _, _⟩ := he
    omega
  | some (r0, r1, i0, i1), hb =>
    obtain ⟨hb1, hb2⟩ := hb r0 r1 i0 i1 rfl
    simp only [extendCur, Option.some.injEq, Prod.mk.injEq] at he
    obtain ⟨rfl, rfl, _, _⟩ := he
    omega

theorem cov_shift {pr : CPair} {ri j : Nat} (h : CoversRead (ri + 1 + j) pr) : CoversRead (ri + (j + 1)) pr := by
  have : ri + 1 + j = ri + (j + 1) := by omega
  rw [this] at h; exact h

theorem trailRead_cover (ir : Iv) (ki : Nat) : ∀ (rs : List Iv) (ri : Nat) (rv : Int) (j : Nat),
    (trailRead ir ki rs ri rv).1[j]? = some (-1) →
    (∃ pr ∈ (trailRead ir ki rs ri rv).2, CoversRead (ri + j) pr) ∨ (j = 0 ∧ rv = -1) := by
  intro rs
  induction rs with
  | nil => intro ri rv j h; simp [trailRead] at h
  | cons r rs ih =>
    intro ri rv j h
    by_cases hov : overlaps ir r = true
    · simp only [trailRead, hov, if_true] at h ⊢
      cases j with
      | zero =>
        by_cases hrv : rv = -1
        · right; exact ⟨rfl, hrv⟩
        · left
          exact ⟨.extra ri ki, by simp [hrv], by simp [CoversRead]⟩
      | succ j =>
        simp only [List.getElem?_cons_succ] at h
        rcases ih (ri + 1) 0 j h with ⟨pr, hpr, hc⟩ | ⟨_, h0⟩
        · left
          exact ⟨pr, by simp [hpr], cov_shift hc⟩
        · exact absurd h0 (by decide)
    · simp only [trailRead, hov] at h ⊢
      cases j with
      | zero =>
        have h' : rv = -1 := by simpa using h
        right; exact ⟨rfl, h'⟩
      | succ j =>
        exfalso
        have h' : (rs.map (fun _ => (0 : Int)))[j]? = some (-1) := by simpa using h
        simp only [List.getElem?_map, Option.map_eq_some_iff] at h'
        obtain ⟨_, _, h'⟩ := h'
        exact absurd h' (by decide)

/-- (A) whatever the open region `cur` covers is covered by a pair of the result; (B) a −1 at position `j` of the read
    presence list is covered by a pair, unless it is the head's value `rv = −1` inherited from the caller -/
theorem sweep_cover (δ : Int) (rr ir : Iv) (rs : List Iv) (ri : Nat) (rv : Int) (ks : List Iv) (ki : Nat) (kv : Int)
    (cur : Cur) (hb : CurBefore cur ri) :
    (∀ x, CurCovers cur x → ∃ pr ∈ (sweep δ rr ir rs ri rv ks ki kv cur).pairs, CoversRead x pr) ∧
    (∀ j, (sweep δ rr ir rs ri rv ks ki kv cur).readProf[j]? = some (-1) →
      (∃ pr ∈ (sweep δ rr ir rs ri rv ks ki kv cur).pairs, CoversRead (ri + j) pr) ∨ (j = 0 ∧ rv = -1)) := by
  fun_induction sweep δ rr ir rs ri rv ks ki kv cur with
  | case1 ri rv ks ki kv cur t =>
    simp only [t]
    refine ⟨?_, by intro j h; simp at h⟩
    intro x hx
    obtain ⟨pr, hpr, hc⟩ := closeCur_covers hx
    exact ⟨pr, by simp [hpr], hc⟩
  | case2 r rs ri rv ki kv cur t =>
    simp only [t]
    refine ⟨?_, ?_⟩
    · intro x hx
      obtain ⟨pr, hpr, hc⟩ := closeCur_covers hx
      exact ⟨pr, by simp [hpr], hc⟩
    · intro j h
      rcases trailRead_cover ir ki (r :: rs) ri rv j h with ⟨pr, hpr, hc⟩ | h0
      · left; exact ⟨pr, by simp [hpr], hc⟩
      · right; exact h0
  | case3 r rs ri rv k ks ki kv cur heq o ih =>
    simp only [o]
    obtain ⟨_, ihB⟩ := ih (by intro a b c d h; cases h)
    refine ⟨?_, ?_⟩
    · intro x hx
      obtain ⟨pr, hpr, hc⟩ := closeCur_covers hx
      exact ⟨pr, by simp [hpr], hc⟩
    · intro j h
      cases j with
      | zero => simp at h
      | succ j =>
        simp only [List.getElem?_cons_succ] at h
        rcases ihB j h with ⟨pr, hpr, hc⟩ | ⟨_, h0⟩
        · left
          exact ⟨pr, by simp [hpr], cov_shift hc⟩
        · exact absurd h0 (by decide)
  | case4 r rs ri rv k ks ki kv cur heq hov hlt o ih =>
    simp only [o]
    obtain ⟨ihA, ihB⟩ := ih (extendCur_before hb (by omega))
    refine ⟨?_, ?_⟩
    · intro x hx
      exact ihA x (extendCur_covers hb (Or.inl hx))
    · intro j h
      cases j with
      | zero => left; exact ihA ri (extendCur_covers hb (Or.inr rfl))
      | succ j =>
        simp only [List.getElem?_cons_succ] at h
        rcases ihB j h with ⟨pr, hpr, hc⟩ | ⟨_, h0⟩
        · left
          exact ⟨pr, hpr, cov_shift hc⟩
        · exact absurd h0 (by decide)
  | case5 r rs ri rv k ks ki kv cur heq hov hlt o ih =>
    simp only [o]
    obtain ⟨ihA, ihB⟩ := ih (extendCur_before hb (Nat.le_refl _))
    refine ⟨?_, ?_⟩
    · intro x hx
      exact ihA x (extendCur_covers hb (Or.inl hx))
    · intro j h
      rcases ihB j h with hc | ⟨rfl, _⟩
      · left; exact hc
      · left; exact ihA ri (extendCur_covers hb (Or.inr rfl))
  | case6 r rs ri rv k ks ki kv cur heq hov hl flag o ih =>
    simp only [o, flag]
    obtain ⟨_, ihB⟩ := ih (by intro a b c d h; cases h)
    refine ⟨?_, ?_⟩
    · intro x hx
      obtain ⟨pr, hpr, hc⟩ := closeCur_covers hx
      exact ⟨pr, by simp [hpr], hc⟩
    · intro j h
      rcases ihB j h with ⟨pr, hpr, hc⟩ | h0
      · left; exact ⟨pr, by simp [hpr], hc⟩
      · right; exact h0
  | case7 r rs ri rv k ks ki kv cur heq hov hl flag o ih =>
    simp only [o, flag]
    obtain ⟨_, ihB⟩ := ih (by intro a b c d h; cases h)
    refine ⟨?_, ?_⟩
    · intro x hx
      obtain ⟨pr, hpr, hc⟩ := closeCur_covers hx
      exact ⟨pr, by simp [hpr], hc⟩
    · intro j h
      cases j with
      | zero =>
        simp only [List.getElem?_cons_zero, Option.some.injEq] at h
        by_cases hrv : rv = -1
        · right; exact ⟨rfl, hrv⟩
        · left
          have hflag : (decide (ki > 0) || overlaps ir r) = true := by
            by_cases hf : (decide (ki > 0) || overlaps ir r) = true
            · exact hf
            · simp only [hf] at h; exact absurd h hrv
          refine ⟨.extra ri ki, ?_, by simp [CoversRead]⟩
          have : (rv != -1) = true := by simpa using hrv
          simp [hflag, this]
      | succ j =>
        simp only [List.getElem?_cons_succ] at h
        rcases ihB j h with ⟨pr, hpr, hc⟩ | ⟨_, h0⟩
        · left
          exact ⟨pr, by simp [hpr], cov_shift hc⟩
        · exact absurd h0 (by decide)

/-! ### the zeros of the read presence list form a leading and / or a trailing run -/

/-- position `i` lies in a run of zeros that starts at the beginning or ends at the end of the list -/
def ZeroStruct (prof : List Int) (i : Nat) : Prop :=
  (∀ j, j ≤ i → prof[j]? = some 0) ∨ (∀ j, i ≤ j → j < prof.length → prof[j]? = some 0)

theorem SD_lt : ∀ (l : List Iv), SD l → WFl l → ∀ (j i : Nat) (a b : Iv), j < i → l[j]? = some a → l[i]? = some b →
    a.2 < b.1 := by
  intro l
  induction l with
  | nil => intro _ _ j i a b _ h; simp at h
  | cons x t ih =>
    intro hsd hwf j i a b hji ha hb
    cases i with
    | zero => omega
    | succ i =>
      simp only [List.getElem?_cons_succ] at hb
      cases j with
      | zero =>
        simp only [List.getElem?_cons_zero, Option.some.injEq] at ha; subst ha
        exact SD_all_right hsd hwf b (List.mem_of_getElem? hb)
      | succ j =>
        simp only [List.getElem?_cons_succ] at ha
        exact ih (SD_tail hsd) (WFl_tail hwf) j i a b (by omega) ha hb

theorem trailRead_zero_suffix (ir : Iv) (ki : Nat) : ∀ (rs : List Iv) (ri : Nat) (rv : Int) (i : Nat),
    (trailRead ir ki rs ri rv).1[i]? = some 0 →
    ∀ j, i ≤ j → j < rs.length → (trailRead ir ki rs ri rv).1[j]? = some 0 := by
  intro rs
  induction rs with
  | nil => intro ri rv i h; simp [trailRead] at h
  | cons r rs ih =>
    intro ri rv i h j hij hj
    by_cases hov : overlaps ir r = true
    · simp only [trailRead, hov, if_true] at h ⊢
      cases i with
      | zero => simp at h
      | succ i =>
        cases j with
        | zero => omega
        | succ j =>
          simp only [List.getElem?_cons_succ] at h ⊢
          simp only [List.length_cons] at hj
          exact ih (ri + 1) 0 i h j (by omega) (by omega)
    · simp only [trailRead, hov] at h ⊢
      cases j with
      | zero =>
        have : i = 0 := by omega
        subst this; exact h
      | succ j =>
        simp only [List.length_cons] at hj
        simp [List.getElem?_map, List.getElem?_eq_getElem (show j < rs.length by omega)]

/-- the zeros of the read presence list of `compare_junctions` lie in a leading or a trailing run -/
theorem sweep_zero_struct (δ : Int) (rr ir : Iv) (rj ij : List Iv) (g : Geo δ rr ir rj ij) (hr : rj ≠ [])
    (i : Nat) (h : (sweep δ rr ir rj 0 0 ij 0 0 none).readProf[i]? = some 0) :
    ZeroStruct (sweep δ rr ir rj 0 0 ij 0 0 none).readProf i := by
  cases ij with
  | nil =>
    cases rj with
    | nil => exact absurd rfl hr
    | cons r rs =>
      right
      have e : (sweep δ rr ir (r :: rs) 0 0 [] 0 0 none).readProf = (trailRead ir 0 (r :: rs) 0 0).1 := by
        rw [sweep]
      rw [e] at h ⊢
      intro j hij hj
      have hl := (trailRead_ok ir 0 0 (Nat.le_refl _) (r :: rs) 0 0 _ rfl).1
      exact trailRead_zero_suffix ir 0 (r :: rs) 0 0 i h j hij (by rw [← hl]; exact hj)
  | cons k0 ks0 =>
    have h1 : 0 < rj.length := List.length_pos_iff.mpr hr
    obtain ⟨e1, _⟩ := sweep_spec δ rr ir rj 0 0 (k0 :: ks0) 0 0 none g (Or.inl rfl) (Or.inl rfl)
      (fun h => absurd h (by omega)) (fun h => absurd h (by omega)) (by omega) (by simp)
    rw [e1] at h ⊢
    simp only [List.getElem?_map, Option.map_eq_some_iff] at h
    obtain ⟨r, hr', hs⟩ := h
    have hd := g.dpos
    -- r is unmatched and does not overlap the isoform region
    have hnov : overlaps ir r = false := by
      unfold specR at hs
      split at hs
      · cases hs
      · split at hs
        · cases hs
        · rename_i h; simpa using h
    have key : ∀ x ∈ rj, (x.2 < ir.1 ∨ ir.2 < x.1) → specR δ ir (k0 :: ks0) x = 0 := by
      intro x hx hout
      have hxl := g.rlong x hx
      have hm : matchedBy δ (k0 :: ks0) x = false := by
        apply matchedBy_false
        intro k hk
        have := g.kin k hk
        have := g.klong k hk
        exact eq_false_of _ _ _ (by intro ⟨⟨_, _⟩, ⟨_, _⟩⟩; omega)
      have ho : overlaps ir x = false := (overlaps_false_iff _ _).mpr (by omega)
      simp [specR, hm, ho]
    have hrl := g.rlong r (List.mem_of_getElem? hr')
    rcases (overlaps_false_iff _ _).mp hnov with hl | hl
    · -- r lies beyond the isoform region: so does every later read junction
      right
      intro j hij hj
      simp only [List.length_map] at hj
      simp only [List.getElem?_map, List.getElem?_eq_getElem hj, Option.map_some, Option.some.injEq]
      apply key _ (List.getElem_mem hj)
      right
      by_cases e : i = j
      · subst e
        have : rj[i]? = some rj[i] := List.getElem?_eq_getElem hj
        rw [this] at hr'; simp only [Option.some.injEq] at hr'; rw [hr']; exact hl
      · have := SD_lt rj g.rsd g.rwf i j r rj[j] (by omega) hr' (List.getElem?_eq_getElem hj)
        omega
    · -- r lies before the isoform region: so does every earlier read junction
      left
      intro j hji
      have hi : i < rj.length := (List.getElem?_eq_some_iff.mp hr').1
      have hj : j < rj.length := by omega
      simp only [List.getElem?_map, List.getElem?_eq_getElem hj, Option.map_some, Option.some.injEq]
      apply key _ (List.getElem_mem hj)
      left
      by_cases e : j = i
      · subst e
        have : rj[j]? = some rj[j] := List.getElem?_eq_getElem hj
        rw [this] at hr'; simp only [Option.some.injEq] at hr'; rw [hr']; exact hl
      · have := SD_lt rj g.rsd g.rwf j i rj[j] r (by omega) (List.getElem?_eq_getElem hj) hr'
        have := g.rlong rj[j] (List.getElem_mem hj)
        omega

/-! ### `add_extra_out_exon_events` reaches every zero of a leading / trailing run -/

theorem zeroRun_mem : ∀ (l : List Int) (a i : Nat), a ≤ i → (∀ j, a ≤ j → j ≤ i → l[j - a]? = some 0) → i ∈ zeroRun l a := by
  intro l
  induction l with
  | nil => intro a i hai h; have := h i hai (Nat.le_refl _); simp at this
  | cons v vs ih =>
    intro a i hai h
    have hv : v = 0 := by have := h a (Nat.le_refl _) hai; simpa using this
    simp only [zeroRun, hv, if_true]
    by_cases e : i = a
    · subst e; simp
    · apply List.mem_cons_of_mem
      apply ih (a + 1) i (by omega)
      intro j h1 h2
      have := h j (by omega) h2
      have e2 : j - a = (j - (a + 1)) + 1 := by omega
      rw [e2, List.getElem?_cons_succ] at this
      exact this

theorem zeroRunDown_mem : ∀ (l : List Int) (i1 i : Nat), i < i1 →
    (∀ j, i ≤ j → j < i1 → l[i1 - 1 - j]? = some 0) → i ∈ zeroRunDown l i1 := by
  intro l
  induction l with
  | nil => intro i1 i hi h; have := h i (Nat.le_refl _) hi; simp at this
  | cons v vs ih =>
    intro i1 i hi h
    have hv : v = 0 := by
      have := h (i1 - 1) (by omega) (by omega)
      have e : i1 - 1 - (i1 - 1) = 0 := by omega
      rw [e] at this; simpa using this
    simp only [zeroRunDown, hv, if_true]
    by_cases e : i = i1 - 1
    · subst e; simp
    · apply List.mem_cons_of_mem
      apply ih (i1 - 1) i (by omega)
      intro j h1 h2
      have := h j h1 (by omega)
      have e2 : i1 - 1 - j = (i1 - 1 - 1 - j) + 1 := by omega
      rw [e2, List.getElem?_cons_succ] at this
      exact this

/-- what `add_extra_out_exon_events` does for a read intron marked 0 -/
def FlankFor (c : CmpCtx) (prof : List Int) (rr : Iv) (rj : List Iv) (i : Nat) (e : Event) : Prop :=
  e.ty = .extra_intron_flanking_left ∨ e.ty = .extra_intron_flanking_right ∨
  (e.ty = .fake_terminal_exon_left ∧ i = 0 ∧
    ∃ ex, getExon rr rj 0 = some ex ∧ interval_len ex ≤ c.p.max_fake_terminal_exon_len) ∨
  (e.ty = .fake_terminal_exon_right ∧ i + 1 = prof.length ∧
    ∃ ex, getExon rr rj (prof.length : Int) = some ex ∧ interval_len ex ≤ c.p.max_fake_terminal_exon_len)

theorem leftFlank_complete {c prof rr rj evs} (h : leftFlank c prof rr rj = some evs) (i : Nat)
    (hz : ∀ j, j ≤ i → prof[j]? = some 0) : ∃ e ∈ evs, FlankFor c prof rr rj i e := by
  unfold leftFlank at h
  split at h
  · cases h
  · rename_i ex hex
    split at h
    · rename_i hs
      simp only [Option.some.injEq] at h; subst h
      by_cases e0 : i = 0
      · exact ⟨flankEvent .fake_terminal_exon_left extraLeftRegion 0, List.mem_cons_self,
          Or.inr (Or.inr (Or.inl ⟨rfl, e0, ex, hex, hs⟩))⟩
      · have hm : i ∈ zeroRun (prof.drop 1) 1 := by
          apply zeroRun_mem _ 1 i (by omega)
          intro j h1 h2
          rw [List.getElem?_drop]
          have e : 1 + (j - 1) = j := by omega
          rw [e]; exact hz j h2
        exact ⟨flankEvent .extra_intron_flanking_left extraLeftRegion i,
          List.mem_cons_of_mem _ (List.mem_map.mpr ⟨i, hm, rfl⟩), Or.inl rfl⟩
    · simp only [Option.some.injEq] at h; subst h
      have hm : i ∈ zeroRun prof 0 := by
        apply zeroRun_mem _ 0 i (by omega)
        intro j _ h2
        exact hz j h2
      exact ⟨flankEvent .extra_intron_flanking_left extraLeftRegion i, List.mem_map.mpr ⟨i, hm, rfl⟩, Or.inl rfl⟩

theorem rightFlank_complete {c prof rr rj evs} (h : rightFlank c prof rr rj = some evs) (i : Nat) (hi : i < prof.length)
    (hz : ∀ j, i ≤ j → j < prof.length → prof[j]? = some 0) : ∃ e ∈ evs, FlankFor c prof rr rj i e := by
  unfold rightFlank at h
  split at h
  · cases h
  · rename_i ex hex
    split at h
    · rename_i hs
      simp only [Option.some.injEq] at h; subst h
      by_cases e0 : i + 1 = prof.length
      · exact ⟨flankEvent .fake_terminal_exon_right extraRightRegion (prof.length - 1), List.mem_cons_self,
          Or.inr (Or.inr (Or.inr ⟨rfl, e0, ex, hex, hs⟩))⟩
      · have hm : i ∈ zeroRunDown (prof.reverse.drop 1) (prof.length - 1) := by
          apply zeroRunDown_mem _ _ i (by omega)
          intro j h1 h2
          rw [List.getElem?_drop, List.getElem?_reverse (by omega)]
          have e : prof.length - 1 - (1 + (prof.length - 1 - 1 - j)) = j := by omega
          rw [e]; exact hz j h1 (by omega)
        exact ⟨flankEvent .extra_intron_flanking_right extraRightRegion i,
          List.mem_cons_of_mem _ (List.mem_map.mpr ⟨i, hm, rfl⟩), Or.inr (Or.inl rfl)⟩
    · simp only [Option.some.injEq] at h; subst h
      have hm : i ∈ zeroRunDown prof.reverse prof.length := by
        apply zeroRunDown_mem _ _ i hi
        intro j h1 h2
        rw [List.getElem?_reverse (by omega)]
        have e : prof.length - 1 - (prof.length - 1 - j) = j := by omega
        rw [e]; exact hz j h1 h2
      exact ⟨flankEvent .extra_intron_flanking_right extraRightRegion i, List.mem_map.mpr ⟨i, hm, rfl⟩,
        Or.inr (Or.inl rfl)⟩

theorem addExtraOut_complete {c prof rr rj isoStart evs} (h : addExtraOut c prof rr rj isoStart = some evs) (i : Nat)
    (hi : prof[i]? = some 0) (hz : ZeroStruct prof i) : ∃ e ∈ evs, FlankFor c prof rr rj i e := by
  have hil : i < prof.length := (List.getElem?_eq_some_iff.mp hi).1
  unfold addExtraOut at h
  split at h
  · cases h
  · rename_i el er hs
    split at h
    · rename_i a b ha hb
      simp only [Option.some.injEq] at h; subst h
      -- which sides are processed
      have hsides : ((∀ j, j ≤ i → prof[j]? = some 0) ∧ el = true) ∨
          ((∀ j, i ≤ j → j < prof.length → prof[j]? = some 0) ∧ er = true) := by
        unfold extraSides at hs
        split at hs
        · rename_i f l hf hl
          have hf0 : (∀ j, j ≤ i → prof[j]? = some 0) → f = 0 := by
            intro hp
            have := hp 0 (by omega)
            rw [← List.head?_eq_getElem?, hf] at this
            simpa using this
          have hl0 : (∀ j, i ≤ j → j < prof.length → prof[j]? = some 0) → l = 0 := by
            intro hp
            have := hp (prof.length - 1) (by omega) (by omega)
            rw [List.getLast?_eq_getElem?] at hl
            rw [hl] at this
            simpa using this
          split at hs
          · rename_i hall
            -- all zeros: both runs are the whole list
            have hall' : ∀ j, j < prof.length → prof[j]? = some 0 := by
              intro j hj
              have := List.all_eq_true.mp hall prof[j] (List.getElem_mem hj)
              simp only [beq_iff_eq] at this
              rw [List.getElem?_eq_getElem hj, this]
            simp only [Option.map_eq_some_iff] at hs
            obtain ⟨j0, _, hs⟩ := hs
            split at hs
            · simp only [Prod.mk.injEq] at hs
              left; exact ⟨fun j hj => hall' j (by omega), hs.1.symm⟩
            · simp only [Prod.mk.injEq] at hs
              right; exact ⟨fun j _ hj => hall' j hj, hs.2.symm⟩
          · simp only [Option.some.injEq, Prod.mk.injEq] at hs
            rcases hz with hz | hz
            · left; exact ⟨hz, by rw [← hs.1]; simpa using hf0 hz⟩
            · right; exact ⟨hz, by rw [← hs.2]; simpa using hl0 hz⟩
        · cases hs
      rcases hsides with ⟨hp, hel⟩ | ⟨hp, her⟩
      · rw [hel] at ha
        simp only [if_true] at ha
        obtain ⟨e, he, hf⟩ := leftFlank_complete ha i hp
        exact ⟨e, List.mem_append_left _ he, hf⟩
      · rw [her] at hb
        simp only [if_true] at hb
        obtain ⟨e, he, hf⟩ := rightFlank_complete hb i hil hp
        exact ⟨e, List.mem_append_right _ he, hf⟩
    · cases h

/-! ### which event types are not major inconsistencies, and when -/

/-- closes `some X = some t ⊢ t.is_major_inconsistency = true ∨ …` for a major `X`, and impossible leaves -/
macro "major_leaf" h:ident : tactic =>
  `(tactic| first
    | (cases $h:ident; done)
    | (simp only [Option.some.injEq] at $h:ident; subst $h:ident; left; decide)
    | (simp only [Option.some.injEq] at $h:ident; subst $h:ident; left; split <;> decide))

theorem alternative_sites_major (s : String) (k : Bool) (t : MatchEventSubtype) (h : alternative_sites s k = some t) :
    t.is_major_inconsistency = true := by
  unfold alternative_sites at h
  simp only [Option.map_eq_some_iff] at h
  obtain ⟨p, hp, rfl⟩ := h
  have hm := List.mem_of_find?_eq_some hp
  have : ∀ q ∈ alternative_sites_table, q.2.is_major_inconsistency = true := by decide
  exact this p hm

theorem altSiteEvent_major {c rr rj ir ij rc ic r k known t} (h : altSiteEvent c rr rj ir ij rc ic r k known = some t) :
    t.is_major_inconsistency = true := by
  unfold altSiteEvent at h
  dsimp only at h
  repeat' split at h
  all_goals first
    | exact alternative_sites_major _ _ _ h
    | (cases h; done)
    | (simp only [Option.some.injEq] at h; subst h; decide)
    | (simp only [Option.some.injEq] at h; subst h; split <;> decide)

theorem relabelSuspicious_major {c rr rj rc ev t} (hev : ev.is_major_inconsistency = true)
    (h : relabelSuspicious c rr rj rc ev = some t) : t.is_major_inconsistency = true := by
  unfold relabelSuspicious at h
  repeat' split at h
  all_goals first
    | (simp only [Option.some.injEq] at h; subst h; exact hev)
    | (cases h; done)
    | (simp only [Option.some.injEq] at h; subst h; decide)

/-- `classify_single_intron_alternation`: major, or `intron_shift` (similar total length, left sites within
    max_intron_shift) -/
theorem classifySingle_cases {c rr rj ir ij rc ic s k t} (h : classifySingle c rr rj ir ij rc ic s k = some t) :
    t.is_major_inconsistency = true ∨
    (s = true ∧ ∃ r kk, rj[rc]? = some r ∧ ij[ic]? = some kk ∧ iabs (kk.1 - r.1) ≤ c.q.max_intron_shift) := by
  unfold classifySingle at h
  split at h
  · rename_i r kk hr hk
    split at h
    · rename_i hs
      split at h
      · rename_i hsh
        right; exact ⟨hs, r, kk, hr, hk, hsh⟩
      · repeat' split at h
        all_goals major_leaf h
    · split at h
      · cases h
      · rename_i ev hev
        left; exact relabelSuspicious_major (altSiteEvent_major hev) h
  · cases h

/-- the terminal-exon branch: major, or `terminal_exon_misalignment_*` (terminal exons of similar length) -/
theorem classifyTerminal_cases {c rr rj ir ij r0 i0 k t} (h : classifyTerminal c rr rj ir ij r0 i0 k = some t) :
    t.is_major_inconsistency = true ∨
    ((r0 = 0 ∧ i0 = 0 ∧ ∃ a b, getPrecedingExon rr rj 0 = some a ∧ getPrecedingExon ir ij 0 = some b ∧
        iabs (interval_len a - interval_len b) < 2 * c.p.delta) ∨
     (¬ (r0 = 0 ∧ i0 = 0) ∧ ∃ a b, getFollowingExon rr rj (-1) = some a ∧ getFollowingExon ir ij (-1) = some b ∧
        iabs (interval_len a - interval_len b) < 2 * c.p.delta)) := by
  unfold classifyTerminal at h
  dsimp only at h
  split at h
  · cases h
  · rename_i re ie hex
    split at h
    · rename_i hlen
      right
      split at hex
      · rename_i h00
        split at hex
        · rename_i a b ha hb
          simp only [Option.some.injEq, Prod.mk.injEq] at hex
          obtain ⟨rfl, rfl⟩ := hex
          left; exact ⟨h00.1, h00.2, a, b, ha, hb, hlen⟩
        · cases hex
      · rename_i h00
        split at hex
        · rename_i a b ha hb
          simp only [Option.some.injEq, Prod.mk.injEq] at hex
          obtain ⟨rfl, rfl⟩ := hex
          right; exact ⟨h00, a, b, ha, hb, hlen⟩
        · cases hex
    · repeat' split at h
      all_goals major_leaf h

/-- `classify_skipped_exons`: major, or `exon_misalignment` (the skipped exons are short) -/
theorem classifySkipped_cases {c ij i0 i1 s k sb t} (h : classifySkipped c ij i0 i1 s k sb = some (some t)) :
    t.is_major_inconsistency = true ∨
    (∃ total, skippedExonLen ij i0 (i1 - i0) = some total ∧ total ≤ c.p.max_missed_exon_len) := by
  unfold classifySkipped at h
  split at h
  · cases h
  · rename_i total htot
    split at h
    · split at h
      · rename_i hle
        right; exact ⟨total, htot, hle⟩
      · repeat' split at h
        all_goals first
          | (simp only [Option.some.injEq] at h; subst h; left; decide)
          | (simp at h; done)
    · repeat' split at h
      all_goals first
        | (simp only [Option.some.injEq] at h; subst h; left; decide)
        | (simp at h; done)

/-- the conditions under which the general branch gives an event that is not a major inconsistency -/
def BothTolerated (c : CmpCtx) (rr : Iv) (rj : List Iv) (ir : Iv) (ij : List Iv) (r0 r1 i0 i1 : Nat) : Prop :=
  r1 = r0 ∧
  ((i1 = i0 ∧ ∃ r k, rj[r0]? = some r ∧ ij[i0]? = some k ∧ iabs (k.1 - r.1) ≤ c.q.max_intron_shift ∧
      iabs (interval_len r - interval_len k) ≤ c.q.max_intron_abs_diff) ∨
   (i1 = i0 ∧ rj.length > 1 ∧
     ((r0 = 0 ∧ i0 = 0 ∧ ∃ a b, getPrecedingExon rr rj 0 = some a ∧ getPrecedingExon ir ij 0 = some b ∧
        iabs (interval_len a - interval_len b) < 2 * c.p.delta) ∨
      ((r0 : Int) = (rj.length : Int) - 1 ∧ (i0 : Int) = (ij.length : Int) - 1 ∧
        ∃ a b, getFollowingExon rr rj (-1) = some a ∧ getFollowingExon ir ij (-1) = some b ∧
        iabs (interval_len a - interval_len b) < 2 * c.p.delta))) ∨
   (i0 < i1 ∧ ∃ total, skippedExonLen ij i0 (i1 - i0) = some total ∧ total ≤ c.p.max_missed_exon_len))

theorem sliceIncl_single {α} (l : List α) (a : Nat) (x : α) (h : l[a]? = some x) : sliceIncl l a a = some [x] := by
  have hlt : a < l.length := (List.getElem?_eq_some_iff.mp h).1
  unfold sliceIncl
  have h1 : ¬ (a > a) := by omega
  rw [if_neg h1, if_pos hlt]
  have e : a + 1 - a = 1 := by omega
  rw [e]
  have : l.drop a = x :: l.drop (a + 1) := by
    rw [List.drop_eq_getElem_cons hlt]
    congr 1
    have := List.getElem?_eq_getElem hlt
    rw [this] at h; exact Option.some.inj h
  rw [this]; rfl

theorem gatherBoth_single {c rr rj ir ij r0 i0 d} (h : gatherBoth c rr rj ir ij r0 r0 i0 i0 = some d) :
    ∃ r k, rj[r0]? = some r ∧ ij[i0]? = some k ∧ d.rt = interval_len r ∧ d.it = interval_len k := by
  unfold gatherBoth at h
  split at h
  · rename_i rsel isel known hrs his _
    split at h
    · split at h
      · rename_i ra rb ia ib hra hrb hia hib
        simp only [Option.some.injEq] at h; subst h
        rw [sliceIncl_single rj r0 ra hra] at hrs
        rw [sliceIncl_single ij i0 ia hia] at his
        simp only [Option.some.injEq] at hrs his
        subst hrs; subst his
        exact ⟨ra, ia, hra, hia, by simp [intervalsTotalLength], by simp [intervalsTotalLength]⟩
      · cases h
    · cases h
  · cases h

theorem cascadeBoth_cases {c rr rj ir ij r0 r1 i0 i1 d t} (hg : gatherBoth c rr rj ir ij r0 r1 i0 i1 = some d)
    (h : cascadeBoth c rr rj ir ij r0 r1 i0 i1 d = some (some t)) :
    t.is_major_inconsistency = true ∨ BothTolerated c rr rj ir ij r0 r1 i0 i1 := by
  unfold cascadeBoth at h
  dsimp only at h
  split at h
  · rename_i hc
    simp only [Option.map_eq_some_iff, Option.some.injEq] at h
    obtain ⟨a, ha, rfl⟩ := h
    rcases classifySingle_cases ha with hm | ⟨hs, r, k, hr, hk, hsh⟩
    · left; exact hm
    · right
      obtain ⟨_, e1, e2⟩ := hc
      subst e1; subst e2
      obtain ⟨r', k', hr', hk', hrt, hit⟩ := gatherBoth_single hg
      rw [hr] at hr'; rw [hk] at hk'
      simp only [Option.some.injEq] at hr' hk'
      subst hr'; subst hk'
      refine ⟨rfl, Or.inl ⟨rfl, r, k, hr, hk, hsh, ?_⟩⟩
      simp only [intronLengthSimilar, Bool.and_eq_true, decide_eq_true_eq] at hs
      rw [hrt, hit] at hs
      exact hs.1
  · split at h
    · rename_i hc
      simp only [Option.map_eq_some_iff, Option.some.injEq] at h
      obtain ⟨a, ha, rfl⟩ := h
      rcases classifyTerminal_cases ha with hm | hcase
      · left; exact hm
      · right
        obtain ⟨hn, e1, e2, hdis⟩ := hc
        refine ⟨e1, Or.inr (Or.inl ⟨e2, hn, ?_⟩)⟩
        rcases hcase with ⟨a0, b0, hx⟩ | ⟨hne, hx⟩
        · left; exact ⟨a0, b0, hx⟩
        · right
          rcases hdis with ⟨a0, b0, _⟩ | ⟨a0, b0, _⟩
          · exact absurd ⟨a0, b0⟩ hne
          · exact ⟨a0, b0, hx⟩
    · split at h
      · split at h <;> (simp only [Option.some.injEq] at h; subst h; left; decide)
      · split at h
        · rename_i hc
          rcases classifySkipped_cases h with hm | hx
          · left; exact hm
          · right; exact ⟨hc.2.2.1, Or.inr (Or.inr ⟨hc.2.2.2, hx⟩)⟩
        · split at h
          · repeat' split at h
            all_goals first
              | (simp only [Option.some.injEq] at h; subst h; left; decide)
              | (simp at h; done)
          · split at h
            · split at h <;> (simp only [Option.some.injEq] at h; subst h; left; decide)
            · simp at h

/-- the general branch: a major inconsistency, or one of the three tolerated classes (intron shift, terminal exon
    misalignment, exon misalignment) -/
theorem classifyBothTy_cases {c rr rj ir ij r0 r1 i0 i1 t} (h : classifyBothTy c rr rj ir ij r0 r1 i0 i1 = some t) :
    t.is_major_inconsistency = true ∨ BothTolerated c rr rj ir ij r0 r1 i0 i1 := by
  unfold classifyBothTy at h
  split at h
  · cases h
  · rename_i d hd
    split at h
    · cases h
    · rename_i t' hc
      simp only [Option.some.injEq] at h; subst h
      exact cascadeBoth_cases hd hc
    · repeat' split at h
      all_goals major_leaf h

/-! ### the extra-intron branch -/

theorem suspicious_true_short {c rr rj a b} (h : suspiciousIntrons c rr rj a b = some true) (i : Nat) (r : Iv)
    (hai : a ≤ i) (hib : i ≤ b) (hr : rj[i]? = some r) : interval_len r ≤ c.q.max_suspicious_intron_abs_len := by
  unfold suspiciousIntrons at h
  dsimp only at h
  split at h
  · cases h
  · rename_i hany
    have hmem : r ∈ (rj.drop a).take (b + 1 - a) := by
      apply List.mem_of_getElem? (i := i - a)
      rw [List.getElem?_take, if_pos (by omega), List.getElem?_drop]
      have : a + (i - a) = i := by omega
      rw [this]; exact hr
    have := hany
    simp only [Bool.not_eq_true, List.any_eq_false, decide_eq_true_eq] at this
    have := this r hmem
    omega

/-- the extra-intron branch: a major inconsistency, or the intron is short enough to be "suspicious", or it is next to a
    short terminal exon -/
theorem classifyExtra_cases {c rr rj i ip e r} (h : classifyExtra c rr rj i ip = some e) (hr : rj[i]? = some r) :
    e.ty.is_major_inconsistency = true ∨ interval_len r ≤ c.q.max_suspicious_intron_abs_len ∨
    (i = 0 ∧ ∃ ex, getExon rr rj 0 = some ex ∧ interval_len ex ≤ c.p.max_fake_terminal_exon_len) ∨
    ((i : Int) = (rj.length : Int) - 1 ∧
      ∃ ex, getExon rr rj (-1) = some ex ∧ interval_len ex ≤ c.p.max_fake_terminal_exon_len) := by
  unfold classifyExtra at h
  dsimp only at h
  split at h
  · cases h
  · simp only [Option.some.injEq] at h; subst h; left; show MatchEventSubtype.is_major_inconsistency .extra_intron_known = true; decide
  · split at h
    · cases h
    · rename_i hs
      right; left
      exact suspicious_true_short hs i r (Nat.le_refl _) (Nat.le_refl _) hr
    · split at h
      · cases h
      · rename_i e' hf
        simp only [Option.some.injEq] at h; subst h
        right; right
        unfold fakeTerminalOfExtra at hf
        split at hf
        · cases hf
        · rename_i e'' hl
          left
          unfold fakeLeftOfExtra at hl
          split at hl
          · rename_i h0
            split at hl
            · cases hl
            · rename_i ex hex
              split at hl
              · rename_i hlen
                exact ⟨h0, ex, hex, hlen⟩
              · simp at hl
          · simp at hl
        · right
          unfold fakeRightOfExtra at hf
          split at hf
          · rename_i h0
            split at hf
            · cases hf
            · rename_i ex hex
              split at hf
              · rename_i hlen
                exact ⟨h0, ex, hex, hlen⟩
              · simp at hf
          · simp at hf
      · simp only [Option.some.injEq] at h; subst h; left; show MatchEventSubtype.is_major_inconsistency .extra_intron_novel = true; decide

/-! ### events of the pairs reach the result -/

theorem detect_mem {c rr rj ir ij} : ∀ (prs : List CPair) (evs : List Event) (pr : CPair) (e : Event),
    detectContradictions c rr rj ir ij prs = some evs → pr ∈ prs → classifyPair c rr rj ir ij pr = some (some e) →
    e ∈ evs := by
  intro prs
  induction prs with
  | nil => intro _ _ _ _ h; cases h
  | cons p rest ih =>
    intro evs pr e h hpr hc
    simp only [detectContradictions] at h
    split at h
    · cases h
    · rename_i oe hoe
      split at h
      · cases h
      · rename_i es hes
        simp only [Option.some.injEq] at h
        rcases List.mem_cons.mp hpr with rfl | hpr
        · rw [hc] at hoe
          simp only [Option.some.injEq] at hoe; subst hoe
          subst h; simp
        · have := ih es pr e hes hpr hc
          subst h
          cases oe with
          | none => exact this
          | some _ => exact List.mem_cons_of_mem _ this

/-! ### terminal exon lengths -/

theorem pyGet?_zero {α} (l : List α) : pyGet? l 0 = l.head? := by
  have := pyGet?_nat l 0
  simp only [Int.natCast_zero] at this
  rw [this, List.head?_eq_getElem?]

theorem pyGet?_neg1 {α} (l : List α) (h : 0 < l.length) : pyGet? l (-1) = l.getLast? := by
  have := pyGet?_neg l 1 (by omega) (by omega)
  simp only [Int.natCast_one] at this
  rw [this, List.getLast?_eq_getElem?]

theorem getExon_zero_len {reg : Iv} {J : List Iv} {ex : Iv} (h : getExon reg J 0 = some ex) :
    interval_len ex = firstExonLen reg J := by
  unfold getExon at h
  have h1 : ¬ ((0 : Int) > (J.length : Int)) := by omega
  simp only [h1, if_false, show ¬ ((0 : Int) < 0) by omega, if_true, pyGet?_zero] at h
  unfold firstExonLen
  cases hh : J.head? with
  | none => simp [hh] at h
  | some j =>
    simp only [hh, Option.map_some, Option.some.injEq] at h
    subst h; simp only [interval_len]; omega

theorem getExon_last_len {reg : Iv} {J : List Iv} {ex : Iv} (pos : Int) (hp : pos = -1 ∨ pos = (J.length : Int))
    (hn : 0 < J.length) (h : getExon reg J pos = some ex) : interval_len ex = lastExonLen reg J := by
  unfold getExon at h
  have h1 : ¬ (pos > (J.length : Int)) := by omega
  simp only [h1, if_false] at h
  have hp' : (if pos < 0 then (J.length : Int) + pos + 1 else pos) = (J.length : Int) := by
    rcases hp with rfl | rfl
    · have : ((-1 : Int) < 0) := by omega
      rw [if_pos this]; omega
    · have : ¬ ((J.length : Int) < 0) := by omega
      rw [if_neg this]
  simp only [hp'] at h
  have h2 : ¬ ((J.length : Int) = 0) := by omega
  simp only [h2, if_false, if_true, pyGet?_neg1 J hn] at h
  unfold lastExonLen
  cases hh : J.getLast? with
  | none => simp [hh] at h
  | some j =>
    simp only [hh, Option.map_some, Option.some.injEq] at h
    subst h; simp only [interval_len]; omega

theorem getPrecedingExon_zero_len {reg : Iv} {J : List Iv} {ex : Iv} (hn : 0 < J.length)
    (h : getPrecedingExon reg J 0 = some ex) : interval_len ex = firstExonLen reg J := by
  unfold getPrecedingExon at h
  have h1 : ¬ ((0 : Int) > (J.length : Int)) := by omega
  have h2 : ¬ ((0 : Int) = (J.length : Int)) := by omega
  simp only [h1, if_false, if_true, h2, pyGet?_zero] at h
  unfold firstExonLen
  cases hh : J.head? with
  | none => simp [hh] at h
  | some j =>
    simp only [hh, Option.map_some, Option.some.injEq] at h
    subst h; simp only [interval_len]; omega

theorem getFollowingExon_neg1_len {reg : Iv} {J : List Iv} {ex : Iv} (hn : 0 < J.length)
    (h : getFollowingExon reg J (-1) = some ex) : interval_len ex = lastExonLen reg J := by
  unfold getFollowingExon at h
  dsimp only at h
  have h1 : ((-1 : Int) = (J.length : Int) - 1 ∨ (-1 : Int) = -1) := Or.inr rfl
  rw [if_pos h1, pyGet?_neg1 J hn] at h
  unfold lastExonLen
  cases hh : J.getLast? with
  | none => simp [hh] at h
  | some j =>
    simp only [hh, Option.some.injEq] at h
    subst h; simp only [interval_len]; omega

/-! ### short skipped exons -/

theorem skippedExonLen_first {ij : List Iv} (hsd : SD ij) (hwf : WFl ij) : ∀ (n i0 : Nat) (total : Int),
    skippedExonLen ij i0 n = some total → 0 ≤ total ∧
    (0 < n → ∃ a b, ij[i0]? = some a ∧ ij[i0 + 1]? = some b ∧ b.1 - a.2 + 1 ≤ total) := by
  intro n
  induction n with
  | zero => intro i0 total h; simp [skippedExonLen] at h; subst h; exact ⟨Int.le_refl _, fun h => absurd h (by omega)⟩
  | succ n ih =>
    intro i0 total h
    simp only [skippedExonLen] at h
    split at h
    · rename_i a b s ha hb hs
      simp only [Option.some.injEq] at h; subst h
      obtain ⟨hs0, _⟩ := ih (i0 + 1) s hs
      have := SD_lt ij hsd hwf i0 (i0 + 1) a b (by omega) ha hb
      exact ⟨by omega, fun _ => ⟨a, b, ha, hb, by omega⟩⟩
    · cases h

/-! ### the shape of `compare_junctions` on a spliced read -/

theorem compareJunctions_unfold {c rj rr ij ir evs} (hr : rj ≠ []) (h : compareJunctions c rj rr ij ir = some evs) :
    ∃ ev1 ev2,
      ((hasNeg (sweepOf c rj rr ij ir).readProf || hasNeg (sweepOf c rj rr ij ir).isoProf) = true →
        detectContradictions c rr rj ir ij (sweepOf c rj rr ij ir).pairs = some ev1) ∧
      (((sweepOf c rj rr ij ir).readProf.head? = some 0 ∨ (sweepOf c rj rr ij ir).readProf.getLast? = some 0) →
        ∃ x, addExtraOut c (sweepOf c rj rr ij ir).readProf rr rj ir.1 = some x ∧ ev2 = ev1 ++ x) ∧
      (∀ e ∈ ev1, e ∈ ev2) ∧
      evs = (if ev2.isEmpty then [{ ty := MatchEventSubtype.none }] else ev2) := by
  unfold compareJunctions at h
  have hne : rj.isEmpty = false := by cases rj with | nil => exact absurd rfl hr | cons _ _ => rfl
  rw [hne] at h
  simp only [Bool.false_eq_true, if_false] at h
  split at h
  · cases h
  · rename_i ev1 hev1
    simp only [Option.map_eq_some_iff] at h
    obtain ⟨ev2, hev2, rfl⟩ := h
    refine ⟨ev1, ev2, ?_, ?_, ?_, rfl⟩
    · intro hn; simp only [hn, if_true] at hev1; exact hev1
    · intro hc
      rw [if_pos hc] at hev2
      simp only [Option.map_eq_some_iff] at hev2
      obtain ⟨x, hx, rfl⟩ := hev2
      exact ⟨x, hx, rfl⟩
    · intro e he
      split at hev2
      · simp only [Option.map_eq_some_iff] at hev2
        obtain ⟨x, _, rfl⟩ := hev2
        exact List.mem_append_left _ he
      · simp only [Option.some.injEq] at hev2; subst hev2; exact he

theorem trailRead_vals (ir : Iv) (ki : Nat) : ∀ (rs : List Iv) (ri : Nat) (rv : Int),
    ∀ v ∈ (trailRead ir ki rs ri rv).1, v = -1 ∨ v = 0 ∨ v = rv := by
  intro rs
  induction rs with
  | nil => intro _ _ v hv; simp [trailRead] at hv
  | cons r rs ih =>
    intro ri rv v hv
    by_cases hov : overlaps ir r = true
    · simp only [trailRead, hov, if_true] at hv
      rcases List.mem_cons.mp hv with rfl | hv
      · left; rfl
      · rcases ih (ri + 1) 0 v hv with h | h | h
        · left; exact h
        · right; left; exact h
        · right; left; exact h
    · simp only [trailRead, hov] at hv
      rcases List.mem_cons.mp hv with rfl | hv
      · right; right; rfl
      · simp only [List.mem_map] at hv
        obtain ⟨_, _, rfl⟩ := hv
        right; left; rfl

end IsoVerif.Lemmas.C01Cmp
