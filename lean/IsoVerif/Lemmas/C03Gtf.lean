/-
Invariant of the first loop of `GFFPrinter.dump` (Model/Gtf.lean: `phase1`) and the characterisation of the
second loop (`emitGenes`).  Core Lean only.
-/
import IsoVerif.Model.Gtf
import IsoVerif.Lemmas.C03Sort

namespace IsoVerif.Lemmas.C03
open IsoVerif.Gen IsoVerif.Model IsoVerif.Model.C03 IsoVerif.Lemmas

/-- the model passes the gate -/
def validM (m : TModel) : Bool := validateExons m.exons

/-- `(exon_blocks[0][0], exon_blocks[-1][1])`; `none` for an empty exon list -/
def regionOf? (m : TModel) : Option Iv :=
  match m.exons.head?, m.exons.getLast? with
  | some f, some l => some (f.1, l.2)
  | _, _ => none

/-- the models of gene `g` among the processed ones, in storage order -/
def ofGene (seen : List (TModel × Iv)) (g : Id) : List (TModel × Iv) := seen.filter (fun p => decide (p.1.gid = g))

/-- what is true of the two dicts after the valid models `seen` (paired with their regions) were processed -/
structure Inv (ctx : GeneCtx) (seen : List (TModel × Iv)) (acc : Acc) : Prop where
  keys_nodup : acc.keys.Nodup
  keys_iff : ∀ g, g ∈ acc.keys ↔ ∃ p ∈ seen, p.1.gid = g
  info_iff : ∀ g, (acc.info g).isSome ↔ g ∈ acc.keys
  mods_eq : ∀ g, acc.mods g = ofGene seen g
  seen_ok : ∀ p ∈ seen, validM p.1 = true ∧ regionOf? p.1 = some p.2 ∧ p.1.chr = ctx.chr
  rec_chr : ∀ g r, acc.info g = some r → r.chr = ctx.chr
  rec_strand : ∀ g r, acc.info g = some r → ∃ p, (ofGene seen g).getLast? = some p ∧ r.strand = p.1.strand
  rec_contains : ∀ g r, acc.info g = some r →
    (∀ p ∈ seen, p.1.gid = g → r.range.1 ≤ p.2.1 ∧ p.2.2 ≤ r.range.2) ∧
    (∀ rr, ctx.regions.lookup g = some rr → r.range.1 ≤ rr.1 ∧ rr.2 ≤ r.range.2)
  rec_tight : ∀ g r, acc.info g = some r →
    ((∃ rr, ctx.regions.lookup g = some rr ∧ rr.1 = r.range.1) ∨ ∃ p ∈ seen, p.1.gid = g ∧ p.2.1 = r.range.1) ∧
    ((∃ rr, ctx.regions.lookup g = some rr ∧ rr.2 = r.range.2) ∨ ∃ p ∈ seen, p.1.gid = g ∧ p.2.2 = r.range.2)

theorem Inv.empty (ctx : GeneCtx) : Inv ctx [] Acc.empty where
  keys_nodup := by simp [Acc.empty]
  keys_iff := by simp [Acc.empty]
  info_iff := by simp [Acc.empty]
  mods_eq := by simp [Acc.empty, ofGene]
  seen_ok := by simp
  rec_chr := by simp [Acc.empty]
  rec_strand := by simp [Acc.empty]
  rec_contains := by simp [Acc.empty]
  rec_tight := by simp [Acc.empty]

theorem ofGene_append (seen : List (TModel × Iv)) (p : TModel × Iv) (g : Id) :
    ofGene (seen ++ [p]) g = if p.1.gid = g then ofGene seen g ++ [p] else ofGene seen g := by
  unfold ofGene
  rw [List.filter_append]
  by_cases h : p.1.gid = g <;> simp [h]

/-- one iteration of the first loop preserves the invariant -/
theorem phase1Step_inv {ctx : GeneCtx} {seen : List (TModel × Iv)} {acc acc' : Acc} {m : TModel}
    (hinv : Inv ctx seen acc) (h : phase1Step ctx acc m = some acc') :
    (validM m = false ∧ acc' = acc) ∨
    (∃ tr, validM m = true ∧ regionOf? m = some tr ∧ Inv ctx (seen ++ [(m, tr)]) acc') := by
  unfold phase1Step at h
  by_cases hv : validateExons m.exons = false
  · left
    simp [hv] at h
    exact ⟨hv, h.symm⟩
  · right
    have hv' : validM m = true := by simpa [validM] using hv
    rw [if_neg hv] at h
    cases hf : m.exons.head? with
    | none => simp [hf] at h
    | some f =>
      cases hl : m.exons.getLast? with
      | none => simp [hf, hl] at h
      | some l =>
        have hreg : regionOf? m = some (f.1, l.2) := by simp [regionOf?, hf, hl]
        refine ⟨(f.1, l.2), hv', hreg, ?_⟩
        simp only [hf, hl] at h
        cases hi : acc.info m.gid with
        | none =>
          simp only [hi] at h
          by_cases hc : m.chr = ctx.chr
          · simp only [hc, ne_eq, not_true_eq_false, if_false, Option.some.injEq] at h
            subst h
            have hnk : m.gid ∉ acc.keys := by
              intro hk
              have := (hinv.info_iff m.gid).mpr hk
              simp [hi] at this
            have hnp : ∀ p ∈ seen, p.1.gid ≠ m.gid := by
              intro p hp hg
              exact hnk ((hinv.keys_iff m.gid).mpr ⟨p, hp, hg⟩)
            have hof : ofGene seen m.gid = [] := by
              unfold ofGene
              simp only [List.filter_eq_nil_iff, decide_eq_true_eq]
              intro p hp; exact hnp p hp
            constructor
            · -- keys_nodup
              show (acc.keys ++ [m.gid]).Nodup
              rw [List.nodup_append]
              refine ⟨hinv.keys_nodup, by simp, ?_⟩
              intro a ha b hb
              simp at hb; subst hb
              intro hab; subst hab; exact hnk ha
            · intro g
              show g ∈ acc.keys ++ [m.gid] ↔ _
              simp only [List.mem_append, List.mem_singleton, hinv.keys_iff g]
              constructor
              · rintro (⟨p, hp, hg⟩ | hg)
                · exact ⟨p, Or.inl hp, hg⟩
                · exact ⟨(m, (f.1, l.2)), Or.inr rfl, hg.symm⟩
              · rintro ⟨p, hp | hp, hg⟩
                · exact Or.inl ⟨p, hp, hg⟩
                · subst hp; exact Or.inr hg.symm
            · intro g
              show (if g = m.gid then _ else acc.info g).isSome ↔ g ∈ acc.keys ++ [m.gid]
              by_cases hg : g = m.gid
              · simp [hg]
              · simp [hg, hinv.info_iff g]
            · intro g
              show (if g = m.gid then acc.mods g ++ [(m, (f.1, l.2))] else acc.mods g) = _
              rw [ofGene_append, hinv.mods_eq g]
              by_cases hg : g = m.gid
              · simp [hg]
              · have : ¬ m.gid = g := fun h => hg h.symm
                simp [hg, this]
            · intro p hp
              simp only [List.mem_append, List.mem_singleton] at hp
              cases hp with
              | inl hp => exact hinv.seen_ok p hp
              | inr hp => subst hp; exact ⟨hv', hreg, hc⟩
            · intro g r hr
              by_cases hg : g = m.gid
              · simp only [hg, if_true, Option.some.injEq] at hr
                subst hr; rfl
              · simp only [hg, if_false] at hr
                exact hinv.rec_chr g r hr
            · intro g r hr
              rw [ofGene_append]
              by_cases hg : g = m.gid
              · simp only [hg, if_true, Option.some.injEq] at hr
                subst hr
                subst hg
                exact ⟨(m, (f.1, l.2)), by simp, rfl⟩
              · simp only [hg, if_false] at hr
                have : ¬ m.gid = g := fun h => hg h.symm
                simp only [this, if_false]
                exact hinv.rec_strand g r hr
            · intro g r hr
              by_cases hg : g = m.gid
              · simp only [hg, if_true, Option.some.injEq] at hr
                subst hg
                constructor
                · intro p hp hpg
                  simp only [List.mem_append, List.mem_singleton] at hp
                  cases hp with
                  | inl hp => exact absurd hpg (hnp p hp)
                  | inr hp =>
                    subst hp; subst hr
                    cases hlk : ctx.regions.lookup m.gid <;> simp [max_range] <;> omega
                · intro rr hrr
                  subst hr
                  simp [hrr, max_range]; omega
              · simp only [hg, if_false] at hr
                have := hinv.rec_contains g r hr
                refine ⟨?_, this.2⟩
                intro p hp hpg
                simp only [List.mem_append, List.mem_singleton] at hp
                cases hp with
                | inl hp => exact this.1 p hp hpg
                | inr hp => subst hp; exact absurd hpg.symm hg
            · intro g r hr
              by_cases hg : g = m.gid
              · simp only [hg, if_true, Option.some.injEq] at hr
                subst hg; subst hr
                cases hlk : ctx.regions.lookup m.gid with
                | none =>
                  simp only
                  exact ⟨Or.inr ⟨(m, (f.1, l.2)), by simp, rfl, rfl⟩, Or.inr ⟨(m, (f.1, l.2)), by simp, rfl, rfl⟩⟩
                | some rr =>
                  simp only [max_range]
                  constructor
                  · by_cases h1 : rr.1 ≤ f.1
                    · left; exact ⟨rr, rfl, by omega⟩
                    · right; exact ⟨(m, (f.1, l.2)), by simp, rfl, by simp; omega⟩
                  · by_cases h1 : l.2 ≤ rr.2
                    · left; exact ⟨rr, rfl, by omega⟩
                    · right; exact ⟨(m, (f.1, l.2)), by simp, rfl, by simp; omega⟩
              · simp only [hg, if_false] at hr
                have := hinv.rec_tight g r hr
                constructor
                · rcases this.1 with h1 | ⟨p, hp, h1⟩
                  · exact Or.inl h1
                  · exact Or.inr ⟨p, by simp [hp], h1⟩
                · rcases this.2 with h1 | ⟨p, hp, h1⟩
                  · exact Or.inl h1
                  · exact Or.inr ⟨p, by simp [hp], h1⟩
          · simp [hc] at h
        | some r0 =>
          simp only [hi] at h
          have hr0c := hinv.rec_chr m.gid r0 hi
          by_cases hc : m.chr = r0.chr
          · simp only [hc, ne_eq, not_true_eq_false, if_false, Option.some.injEq] at h
            subst h
            have hk : m.gid ∈ acc.keys := (hinv.info_iff m.gid).mp (by simp [hi])
            have hcc : m.chr = ctx.chr := hc.trans hr0c
            constructor
            · exact hinv.keys_nodup
            · intro g
              show g ∈ acc.keys ↔ _
              rw [hinv.keys_iff g]
              constructor
              · rintro ⟨p, hp, hg⟩; exact ⟨p, by simp [hp], hg⟩
              · rintro ⟨p, hp, hg⟩
                simp only [List.mem_append, List.mem_singleton] at hp
                cases hp with
                | inl hp => exact ⟨p, hp, hg⟩
                | inr hp => subst hp; subst hg; exact (hinv.keys_iff _).mp hk
            · intro g
              show (if g = m.gid then _ else acc.info g).isSome ↔ g ∈ acc.keys
              by_cases hg : g = m.gid
              · simp [hg, hk]
              · simp [hg, hinv.info_iff g]
            · intro g
              show (if g = m.gid then acc.mods g ++ [(m, (f.1, l.2))] else acc.mods g) = _
              rw [ofGene_append, hinv.mods_eq g]
              by_cases hg : g = m.gid
              · simp [hg]
              · have : ¬ m.gid = g := fun h => hg h.symm
                simp [hg, this]
            · intro p hp
              simp only [List.mem_append, List.mem_singleton] at hp
              cases hp with
              | inl hp => exact hinv.seen_ok p hp
              | inr hp => subst hp; exact ⟨hv', hreg, hcc⟩
            · intro g r hr
              by_cases hg : g = m.gid
              · simp only [hg, if_true, Option.some.injEq] at hr
                subst hr; exact hr0c
              · simp only [hg, if_false] at hr
                exact hinv.rec_chr g r hr
            · intro g r hr
              rw [ofGene_append]
              by_cases hg : g = m.gid
              · simp only [hg, if_true, Option.some.injEq] at hr
                subst hr; subst hg
                exact ⟨(m, (f.1, l.2)), by simp, rfl⟩
              · simp only [hg, if_false] at hr
                have : ¬ m.gid = g := fun h => hg h.symm
                simp only [this, if_false]
                exact hinv.rec_strand g r hr
            · intro g r hr
              by_cases hg : g = m.gid
              · simp only [hg, if_true, Option.some.injEq] at hr
                subst hg
                have old := hinv.rec_contains m.gid r0 hi
                constructor
                · intro p hp hpg
                  simp only [List.mem_append, List.mem_singleton] at hp
                  cases hp with
                  | inl hp =>
                    have := old.1 p hp hpg
                    subst hr; simp [max_range]; omega
                  | inr hp =>
                    subst hp; subst hr
                    simp [max_range]; omega
                · intro rr hrr
                  have := old.2 rr hrr
                  subst hr; simp [max_range]; omega
              · simp only [hg, if_false] at hr
                have := hinv.rec_contains g r hr
                refine ⟨?_, this.2⟩
                intro p hp hpg
                simp only [List.mem_append, List.mem_singleton] at hp
                cases hp with
                | inl hp => exact this.1 p hp hpg
                | inr hp => subst hp; exact absurd hpg.symm hg
            · intro g r hr
              by_cases hg : g = m.gid
              · simp only [hg, if_true, Option.some.injEq] at hr
                subst hg; subst hr
                have old := hinv.rec_tight m.gid r0 hi
                simp only [max_range]
                constructor
                · by_cases h1 : r0.range.1 ≤ f.1
                  · have e : min r0.range.1 f.1 = r0.range.1 := by omega
                    rw [e]
                    rcases old.1 with h2 | ⟨p, hp, h2⟩
                    · exact Or.inl h2
                    · exact Or.inr ⟨p, by simp [hp], h2⟩
                  · right; exact ⟨(m, (f.1, l.2)), by simp, rfl, by simp; omega⟩
                · by_cases h1 : l.2 ≤ r0.range.2
                  · have e : max r0.range.2 l.2 = r0.range.2 := by omega
                    rw [e]
                    rcases old.2 with h2 | ⟨p, hp, h2⟩
                    · exact Or.inl h2
                    · exact Or.inr ⟨p, by simp [hp], h2⟩
                  · right; exact ⟨(m, (f.1, l.2)), by simp, rfl, by simp; omega⟩
              · simp only [hg, if_false] at hr
                have := hinv.rec_tight g r hr
                constructor
                · rcases this.1 with h1 | ⟨p, hp, h1⟩
                  · exact Or.inl h1
                  · exact Or.inr ⟨p, by simp [hp], h1⟩
                · rcases this.2 with h1 | ⟨p, hp, h1⟩
                  · exact Or.inl h1
                  · exact Or.inr ⟨p, by simp [hp], h1⟩
          · simp [hc] at h

/-- the first loop as a whole -/
theorem phase1_inv {ctx : GeneCtx} : ∀ (ms : List TModel) (seen : List (TModel × Iv)) (acc acc' : Acc),
    Inv ctx seen acc → phase1 ctx ms acc = some acc' →
    ∃ seen', Inv ctx (seen ++ seen') acc' ∧ seen'.map (·.1) = ms.filter validM := by
  intro ms
  induction ms with
  | nil =>
    intro seen acc acc' hinv h
    simp only [phase1, Option.some.injEq] at h
    subst h
    exact ⟨[], by simpa using hinv, by simp⟩
  | cons m ms ih =>
    intro seen acc acc' hinv h
    simp only [phase1] at h
    cases hs : phase1Step ctx acc m with
    | none => simp [hs] at h
    | some acc1 =>
      simp only [hs] at h
      rcases phase1Step_inv hinv hs with ⟨hv, he⟩ | ⟨tr, hv, hreg, hinv1⟩
      · subst he
        obtain ⟨seen', h1, h2⟩ := ih seen acc1 acc' hinv h
        exact ⟨seen', h1, by simp [List.filter_cons, hv, h2]⟩
      · obtain ⟨seen', h1, h2⟩ := ih (seen ++ [(m, tr)]) acc1 acc' hinv1 h
        refine ⟨(m, tr) :: seen', by simpa using h1, ?_⟩
        simp [List.filter_cons, hv, h2]

/-! ### the second loop -/

/-- the lines written for one entry of `gene_order` when `printed` is the set of genes printed before the call -/
def geneBlock (acc : Acc) (printed : List Id) (p : Id × GRec) : List Line :=
  (if printed.contains p.1 then [] else [Line.gene p.2.chr p.2.range.1 p.2.range.2 p.2.strand p.1 (acc.mods p.1).length])
    ++ (acc.mods p.1).flatMap txBlock

theorem flatMap_congr_mem {α β} (l : List α) (f g : α → List β) (h : ∀ a ∈ l, f a = g a) :
    l.flatMap f = l.flatMap g := by
  induction l with
  | nil => rfl
  | cons a t ih =>
    simp only [List.flatMap_cons]
    rw [h a (by simp), ih (fun b hb => h b (List.mem_cons_of_mem _ hb))]

theorem emitGenes_spec (acc : Acc) : ∀ (order : List (Id × GRec)) (printed : List Id),
    (order.map (·.1)).Nodup →
    (emitGenes acc order printed).2 = order.flatMap (geneBlock acc printed) ∧
    (∀ g, g ∈ (emitGenes acc order printed).1 ↔ g ∈ printed ∨ g ∈ order.map (·.1)) := by
  intro order
  induction order with
  | nil => intro printed _; simp [emitGenes]
  | cons p rest ih =>
    intro printed hnd
    obtain ⟨g, r⟩ := p
    simp only [List.map_cons, List.nodup_cons] at hnd
    simp only [emitGenes]
    have ihp := ih (if printed.contains g then printed else g :: printed) hnd.2
    constructor
    · rw [ihp.1]
      simp only [List.flatMap_cons, geneBlock, List.append_assoc]
      congr 2
      apply flatMap_congr_mem
      intro q hq
      have hne : q.1 ≠ g := by
        intro he; apply hnd.1; rw [← he]; exact List.mem_map_of_mem hq
      simp only [geneBlock]
      by_cases hc : printed.contains g
      · rw [if_pos hc]
      · rw [if_neg hc]
        simp only [List.contains_cons]
        have : (q.1 == g) = false := by simpa using hne
        simp [this]
    · intro g'
      rw [ihp.2 g']
      by_cases hc : printed.contains g
      · simp only [hc, if_true, List.map_cons, List.mem_cons]
        have : g ∈ printed := by simpa using hc
        constructor
        · rintro (h | h)
          · exact Or.inl h
          · exact Or.inr (Or.inr h)
        · rintro (h | h | h)
          · exact Or.inl h
          · subst h; exact Or.inl this
          · exact Or.inr h
      · simp only [hc, Bool.false_eq_true, if_false, List.map_cons, List.mem_cons]
        constructor
        · rintro ((h | h) | h)
          · exact Or.inr (Or.inl h)
          · exact Or.inl h
          · exact Or.inr (Or.inr h)
        · rintro (h | h | h)
          · exact Or.inl (Or.inr h)
          · exact Or.inl (Or.inl h)
          · exact Or.inr h

theorem geneOrder_fst (acc : Acc) :
    ((acc.keys.filterMap (fun g => (acc.info g).map (fun r => (g, r)))).map (·.1)) =
      acc.keys.filter (fun g => (acc.info g).isSome) := by
  induction acc.keys with
  | nil => rfl
  | cons k ks ih =>
    simp only [List.filterMap_cons, List.filter_cons]
    cases h : acc.info k <;> simp [h, ih]

theorem geneOrder_nodup {ctx : GeneCtx} {seen} {acc : Acc} (hinv : Inv ctx seen acc) :
    ((geneOrder acc).map (·.1)).Nodup := by
  unfold geneOrder
  have hp := (isortBy_perm (fun a b : Id × GRec => ivLt a.2.range b.2.range)
    (acc.keys.filterMap (fun g => (acc.info g).map (fun r => (g, r))))).map (·.1)
  rw [hp.nodup_iff, geneOrder_fst]
  exact hinv.keys_nodup.sublist List.filter_sublist

theorem mem_geneOrder {ctx : GeneCtx} {seen} {acc : Acc} (hinv : Inv ctx seen acc) (g : Id) (r : GRec) :
    (g, r) ∈ geneOrder acc ↔ acc.info g = some r := by
  unfold geneOrder
  rw [mem_isortBy]
  simp only [List.mem_filterMap, Option.map_eq_some_iff, Prod.mk.injEq]
  constructor
  · rintro ⟨k, _, r', hr', hk, hr⟩
    subst hk; subst hr; exact hr'
  · intro h
    refine ⟨g, (hinv.info_iff g).mp (by simp [h]), r, h, rfl, rfl⟩

theorem mem_geneOrder_fst {ctx : GeneCtx} {seen} {acc : Acc} (hinv : Inv ctx seen acc) (g : Id) :
    g ∈ (geneOrder acc).map (·.1) ↔ g ∈ acc.keys := by
  simp only [List.mem_map, Prod.exists, exists_and_right, exists_eq_right]
  constructor
  · rintro ⟨r, hr⟩
    exact (hinv.info_iff g).mp (by simp [(mem_geneOrder hinv g r).mp hr])
  · intro hk
    have := (hinv.info_iff g).mpr hk
    cases h : acc.info g with
    | none => simp [h] at this
    | some r => exact ⟨r, (mem_geneOrder hinv g r).mpr h⟩

/-- `dump` = first loop (invariant) + second loop (blocks in gene order) -/
theorem dump_spec {printed p' : List Id} {ctx : GeneCtx} {models : List TModel} {lines : List Line}
    (h : dump printed ctx models = some (p', lines)) :
    ∃ acc seen, Inv ctx seen acc ∧ seen.map (·.1) = models.filter validM ∧
      lines = (geneOrder acc).flatMap (geneBlock acc printed) ∧
      (∀ g, g ∈ p' ↔ g ∈ printed ∨ g ∈ acc.keys) := by
  unfold dump at h
  by_cases he : models.isEmpty
  · simp only [he, if_true, Option.some.injEq, Prod.mk.injEq] at h
    have : models = [] := by simpa using he
    subst this
    refine ⟨Acc.empty, [], Inv.empty ctx, by simp, ?_, ?_⟩
    · simp [← h.2, geneOrder, Acc.empty, isortBy]
    · intro g; simp [← h.1, Acc.empty]
  · simp only [he, Bool.false_eq_true, if_false] at h
    cases hp : phase1 ctx models Acc.empty with
    | none => simp [hp] at h
    | some acc =>
      simp only [hp, Option.some.injEq] at h
      obtain ⟨seen, hinv, hseen⟩ := phase1_inv models [] Acc.empty acc (Inv.empty ctx) hp
      simp only [List.nil_append] at hinv
      have hs := emitGenes_spec acc (geneOrder acc) printed (geneOrder_nodup hinv)
      refine ⟨acc, seen, hinv, hseen, ?_, ?_⟩
      · rw [← hs.1, h]
      · intro g
        rw [← mem_geneOrder_fst hinv g, ← hs.2 g, h]

end IsoVerif.Lemmas.C03
