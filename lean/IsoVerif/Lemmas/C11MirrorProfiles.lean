/-
C11 helper lemmas — reflection of `FeatureProfiles.set_profiles` (Model/Profiles.lean).  The greedy sweep `markLoop`
is described declaratively for the two comparators the pipeline passes (in the domain in which the pipeline calls it);
the declarative description is symmetric, hence so is the sweep.
-/
import IsoVerif.Gen.Prims
import IsoVerif.Model.Interval
import IsoVerif.Model.Profiles
import IsoVerif.Model.C11Symmetry
import IsoVerif.Lemmas.C11Mirror
import IsoVerif.Lemmas.Profiles

namespace IsoVerif.Lemmas.C11.Lists
open IsoVerif.Gen IsoVerif.Model IsoVerif.Model.C11 IsoVerif.Lemmas

/-! ### exact comparator (`equal_ranges · · 0`): transcript features = a sub-list of the duplicate-free known features -/

theorem markLoop_eq_spec (tf ks : List Iv) (m : Bool)
    (hsub : (if m then tf.tail else tf).Sublist ks) (hnd : ks.Nodup)
    (hH : m = true → ∀ f ∈ tf.head?, f ∉ ks) :
    markLoop (fun a b => equal_ranges a b 0) tf ks m = ks.map (fun k => decide (k ∈ tf)) := by
  fun_induction markLoop (fun a b => equal_ranges a b 0) tf ks m with
  | case1 feats m => simp
  | case2 f tf m => rfl
  | case3 f tf k0 ks m hc ih =>
    have hfk : f = k0 := (eq0_iff f k0).mp hc
    subst hfk
    have hm : m = false := by
      cases m with
      | false => rfl
      | true => exact absurd (List.mem_cons_self) (hH rfl f (by simp))
    subst hm
    simp only [Bool.false_eq_true, if_false] at hsub
    have hnd' := List.nodup_cons.mp hnd
    rw [ih (by simpa using List.cons_sublist_cons.mp hsub) hnd'.2 (by intro _ g hg; simp at hg; subst hg; exact hnd'.1)]
    simp
  | case4 f tf k0 ks hc ih =>
    simp only [if_true, List.tail_cons] at hsub
    have hf := hH rfl f (by simp)
    rw [ih (by simpa using hsub) hnd (by simp)]
    apply List.map_congr_left
    intro k hk
    have : k ≠ f := fun e => hf (e ▸ hk)
    simp [this]
  | case5 f tf k0 ks m hc hm ih =>
    have hmf : m = false := by cases m <;> simp_all
    subst hmf
    simp only [Bool.false_eq_true, if_false] at hsub
    have hfne : f ≠ k0 := fun e => hc ((eq0_iff f k0).mpr e)
    have hsub' : (f :: tf).Sublist ks := by
      rcases List.sublist_cons_iff.mp hsub with h | ⟨r, hr, _⟩
      · exact h
      · injection hr with h1 _; exact absurd h1 hfne
    have hnd' := List.nodup_cons.mp hnd
    have hk0 : k0 ∉ f :: tf := fun hmem => hnd'.1 (hsub'.subset hmem)
    rw [ih (by simpa using hsub') hnd'.2 (by simp)]
    have : decide (k0 ∈ f :: tf) = false := by simpa using hk0
    simp only [List.map_cons, this]

/-! ### containment comparator (`contains`): known features = sorted disjoint blocks, every transcript exon holds one -/

theorem markLoop_contains_spec (tf ks : List Iv) (m : Bool)
    (hK : SD ks) (wK : WFl ks) (hT : SD tf) (wT : WFl tf)
    (hM : ∀ g ∈ (if m then tf.tail else tf), ∃ k ∈ ks, contains g k = true)
    (hH : m = true → ∀ f ∈ tf.head?, ∀ k ∈ ks, f.1 ≤ k.1) :
    markLoop (fun a b => contains a b) tf ks m = ks.map (fun k => tf.any (fun f => contains f k)) := by
  fun_induction markLoop (fun a b => contains a b) tf ks m with
  | case1 feats m => simp
  | case2 f tf m => rfl
  | case3 f tf k0 ks m hc ih =>
    have hk0 := WFl_head wK
    have hc' : f.1 ≤ k0.1 ∧ k0.2 ≤ f.2 := by
      simp only [contains, Bool.and_eq_true, decide_eq_true_eq] at hc; omega
    have hafter := SD_all_right hK wK
    have hfafter := SD_all_right hT wT
    -- no later transcript exon holds k0
    have hno : ∀ g ∈ tf, contains g k0 = false := by
      intro g hg
      have := hfafter g hg
      simp only [contains, Bool.and_eq_false_iff, decide_eq_false_iff_not]
      omega
    rw [ih (SD_tail hK) (WFl_tail wK) hT wT ?_ ?_]
    · simp [hc]
    · intro g hg
      simp only [if_true, List.tail_cons] at hg
      have hg' : g ∈ (if m = true then (f :: tf).tail else f :: tf) := by
        cases m <;> simp [hg]
      obtain ⟨k, hk, hgk⟩ := hM g hg'
      rcases List.mem_cons.mp hk with e | hk'
      · subst e; rw [hno g hg] at hgk; cases hgk
      · exact ⟨k, hk', hgk⟩
    · intro _ f' hf' k hk
      simp at hf'; subst hf'
      have := hafter k hk
      omega
  | case4 f tf k0 ks hc ih =>
    have hk0 := WFl_head wK
    have hafter := SD_all_right hK wK
    have hf1 := hH rfl f (by simp)
    have hc' : ¬ (f.1 ≤ k0.1 ∧ k0.2 ≤ f.2) := by
      simp only [contains, Bool.and_eq_true, decide_eq_true_eq] at hc; omega
    have hf0 := hf1 k0 (by simp)
    rw [ih hK wK (SD_tail hT) (WFl_tail wT) (by simpa using hM) (by simp)]
    apply List.map_congr_left
    intro k hk
    have hfk : contains f k = false := by
      simp only [contains, Bool.and_eq_false_iff, decide_eq_false_iff_not]
      rcases List.mem_cons.mp hk with e | hk'
      · subst e; omega
      · have := hafter k hk'; have := wK k hk; omega
    simp [hfk]
  | case5 f tf k0 ks m hc hm ih =>
    have hmf : m = false := by cases m <;> simp_all
    subst hmf
    simp only [Bool.false_eq_true, if_false] at hM
    have hk0 := WFl_head wK
    have hafter := SD_all_right hK wK
    have hfafter := SD_all_right hT wT
    -- f still has its block behind k0, so no transcript exon holds k0
    obtain ⟨kf, hkf, hfkf⟩ := hM f (by simp)
    have hkf' : kf ∈ ks := by
      rcases List.mem_cons.mp hkf with e | h
      · subst e; rw [hfkf] at hc; exact absurd rfl hc
      · exact h
    have hfk : f.1 ≤ kf.1 ∧ kf.2 ≤ f.2 := by
      simp only [contains, Bool.and_eq_true, decide_eq_true_eq] at hfkf; omega
    have hno : ∀ g ∈ f :: tf, contains g k0 = false := by
      intro g hg
      rcases List.mem_cons.mp hg with e | hg'
      · subst e; simpa using hc
      · have := hfafter g hg'
        have := hafter kf hkf'
        have := wK kf hkf
        simp only [contains, Bool.and_eq_false_iff, decide_eq_false_iff_not]
        omega
    rw [ih (SD_tail hK) (WFl_tail wK) hT wT ?_ (by simp)]
    · have : (f :: tf).any (fun g => contains g k0) = false := by
        rw [List.any_eq_false]; intro g hg; simp [hno g hg]
      simp only [List.map_cons, this]
    · intro g hg
      simp only [Bool.false_eq_true, if_false] at hg
      obtain ⟨k, hk, hgk⟩ := hM g hg
      rcases List.mem_cons.mp hk with e | hk'
      · subst e; rw [hno g hg] at hgk; cases hgk
      · exact ⟨k, hk', hgk⟩

/-! ### from the marks to the profile and its range -/

theorem overlaps_mirrorIv (L : Int) (a b : Iv) : overlaps (mirrorIv L a) (mirrorIv L b) = overlaps a b := by
  simp only [overlaps, mirrorIv]; grind

theorem mirrorIv_injective (L : Int) (a b : Iv) (h : mirrorIv L a = mirrorIv L b) : a = b := by
  have := congrArg (mirrorIv L) h
  rwa [mirrorIv_mirrorIv, mirrorIv_mirrorIv] at this

theorem mem_mirrorL (L : Int) (a : Iv) (l : List Iv) : mirrorIv L a ∈ mirrorL L l ↔ a ∈ l := by
  simp only [mirrorL, List.mem_reverse, List.mem_map]
  constructor
  · rintro ⟨b, hb, e⟩; rw [← mirrorIv_injective L b a e]; exact hb
  · intro h; exact ⟨a, h, rfl⟩

/-- if the marks of the mirrored call are the reversed marks, the whole result of `set_profiles` is the mirrored one -/
theorem setProfiles_mirror_of_marks (L : Int) (cmp : Iv → Iv → Bool) (features tf : List Iv) (region : Iv)
    (hm : markLoop cmp (mirrorL L tf) (mirrorL L features) false = (markLoop cmp tf features false).reverse) :
    setProfiles (mirrorL L features) (mirrorL L tf) (mirrorIv L region) cmp =
      ((setProfiles features tf region cmp).1.reverse,
        (((setProfiles features tf region cmp).1.length : Int) - (setProfiles features tf region cmp).2.2,
         ((setProfiles features tf region cmp).1.length : Int) - (setProfiles features tf region cmp).2.1)) := by
  simp only [setProfiles, hm]
  have hi : (mirrorL L features).map (fun f => if overlaps f (mirrorIv L region) then (-1 : Int) else -2)
      = (features.map (fun f => if overlaps f region then (-1 : Int) else -2)).reverse := by
    simp only [mirrorL, List.map_reverse, List.map_map]
    congr 2; funext f; simp only [Function.comp, overlaps_mirrorIv]
  rw [hi, ← List.reverse_zipWith (by simp [markLoop_length])]
  simp only [List.reverse_reverse, List.length_reverse]
  ext <;> simp <;> omega

end IsoVerif.Lemmas.C11.Lists
