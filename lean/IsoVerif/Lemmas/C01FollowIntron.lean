/-
C01, forward clause, INTRON half: the geometric ⇒ profile direction for
`OverlappingFeaturesProfileConstructor.construct_profile_for_features` (Model/Profiles.lean `constructOverlapping`).
A read whose introns are each matched (within δ, strictly closest) by an intron of the transcript `TI`, that skips no
intron of `TI` inside its span, gets an all-1 read profile and a gene profile whose non-zero marks are exactly
"1 on the introns of TI, −1 on introns that are not in TI and overlap the read span".
Built on the completeness lemmas of C13 (Lemmas/C13ProfileComplete.lean, Props/C13Profiles.lean).
-/
import IsoVerif.Props.C13Profiles
import IsoVerif.Lemmas.C01Forward

namespace IsoVerif.Lemmas.C01
open IsoVerif.Gen IsoVerif.Model IsoVerif.Lemmas IsoVerif.Lemmas.C13 IsoVerif.Props.C13Profiles

/-- `t` is a known feature within δ of the read feature `r`, and strictly closer (sum of the two site distances) than
    every other known feature within δ (DESIGN §6 tie-loser rule; for an exact match the distance is 0) -/
def StrictBest (δ : Int) (K : List Iv) (r t : Iv) : Prop :=
  t ∈ K ∧ equal_ranges r t δ = true ∧
    ∀ k ∈ K, k ≠ t → equal_ranges r k δ = true → matchDelta r t < matchDelta r k

/-- the read features `R` (span `M`) follow the transcript features `TI` -/
structure IntronFollow (δ : Int) (K TI R : List Iv) (M : Iv) : Prop where
  each : ∀ r ∈ R, ∃ t ∈ TI, StrictBest δ K r t
  none_skipped : ∀ t ∈ TI, t.2 < M.1 ∨ M.2 < t.1 ∨ ∃ r ∈ R, StrictBest δ K r t
  span : ∀ r ∈ R, M.1 < r.1 ∧ r.2 < M.2

theorem matchDelta_self (r : Iv) : matchDelta r r = 0 := by
  simp [matchDelta, iabs]

theorem matchDelta_pos (r k : Iv) (h : k ≠ r) : 0 < matchDelta r k := by
  have : r.1 ≠ k.1 ∨ r.2 ≠ k.2 := by
    by_cases e1 : r.1 = k.1
    · right; intro e2; exact h (Prod.ext e1.symm e2.symm)
    · left; exact e1
  simp only [matchDelta, iabs]
  split <;> split <;> omega

/-- an exact match is a strict best match -/
theorem strictBest_exact (δ : Int) (hδ : 0 ≤ δ) (K : List Iv) (r : Iv) (h : r ∈ K) : StrictBest δ K r r := by
  refine ⟨h, ?_, ?_⟩
  · simp only [equal_ranges, Bool.and_eq_true, decide_eq_true_eq, iabs_le]; omega
  · intro k _ hne _
    rw [matchDelta_self]; exact matchDelta_pos r k hne

theorem strictBest_best (δ : Int) (K R : List Iv) (j : Nat) (r t : Iv) (hr : R[j]? = some r)
    (h : StrictBest δ K r t) : Best δ K R t := by
  refine ⟨j, r, hr, h.2.1, ?_⟩
  intro i' k' hk' hc'
  by_cases e : k' = t
  · subst e; omega
  · have := h.2.2 k' (List.mem_of_getElem? hk') e hc'; omega

/-- without polyA / polyT positions the gene profile is the tie-eliminated sweep state -/
theorem constructOverlapping_nopolya (K : List Iv) (gr : Iv) (cmp absent : Iv → Iv → Bool) (δ : Int) (R : List Iv) (M : Iv) :
    (constructOverlapping K gr cmp absent δ R M (-1) (-1)).gene =
      ovEliminate K R (sweepState K gr cmp absent R M).matched (sweepState K gr cmp absent R M).gene ∧
    (constructOverlapping K gr cmp absent δ R M (-1) (-1)).read = (sweepState K gr cmp absent R M).read := by
  simp [constructOverlapping, sweepState]

/-- value domain of the gene profile without polyA / polyT positions -/
theorem constructOverlapping_nopolya_dom (K : List Iv) (gr : Iv) (cmp absent : Iv → Iv → Bool) (δ : Int) (R : List Iv)
    (M : Iv) (i : Nat) (v : Int)
    (h : (constructOverlapping K gr cmp absent δ R M (-1) (-1)).gene[i]? = some v) : v = 0 ∨ v = 1 ∨ v = -1 := by
  rw [(constructOverlapping_nopolya K gr cmp absent δ R M).1] at h
  rcases IsoVerif.Lemmas.C13.ovEliminate_spec K R (sweepState K gr cmp absent R M).matched
      (sweepState K gr cmp absent R M).gene i with he | ⟨he, _⟩
  · rw [he] at h
    rcases ovSweep_gene_tri cmp absent M K 0 R 0
      { gene := K.map (fun k => if absent M k then -1 else 0), read := R.map (fun r => if absent gr r then -1 else 0),
        matched := [] } i with h' | h' | h'
    · have h2 : (sweepState K gr cmp absent R M).gene[i]? = some v := h
      unfold sweepState at h2
      rw [h'] at h2
      simp only [List.getElem?_map] at h2
      cases hk : K[i]? with
      | none => simp [hk] at h2
      | some k => simp [hk] at h2; split at h2 <;> omega
    · have h2 : (sweepState K gr cmp absent R M).gene[i]? = some v := h
      unfold sweepState at h2
      rw [h'] at h2; simp at h2; omega
    · have h2 : (sweepState K gr cmp absent R M).gene[i]? = some v := h
      unfold sweepState at h2
      rw [h'] at h2; simp at h2; omega
  · rw [he] at h; simp at h; omega

/-! ### every recorded match has its read feature marked 1 -/

theorem ovSweep_matched_read (cmp absent : Iv → Iv → Bool) (M : Iv) (R : List Iv)
    (ks : List Iv) (gi : Nat) (rs : List Iv) (ri : Nat) (st : OvState)
    (hRd : R.drop ri = rs) (hlen : st.read.length = R.length)
    (h : ∀ q ∈ st.matched, st.read[q.1]? = some 1) :
    ∀ q ∈ (ovSweep cmp absent M ks gi rs ri st).matched, (ovSweep cmp absent M ks gi rs ri st).read[q.1]? = some 1 := by
  fun_induction ovSweep cmp absent M ks gi rs ri st with
  | case1 => exact h
  | case2 => exact h
  | case3 k ks gi r rs ri st hlt st' ih =>
    obtain ⟨_, hRd'⟩ := drop_cons_get hRd
    apply ih hRd'
    · simp only [st']; split <;> simp [hlen]
    · intro q hq
      have hq' : q ∈ st.matched := by
        simp only [st'] at hq; split at hq <;> exact hq
      have h1 := h q hq'
      simp only [st']
      split
      · rename_i hc
        by_cases e : ri = q.1
        · exfalso
          rw [e, List.getD_eq_getElem?_getD, h1] at hc
          simp at hc
        · show (st.read.set ri (-1))[q.1]? = some 1
          rw [List.getElem?_set_ne e]; exact h1
      · exact h1
  | case4 k ks gi r rs ri st h1 hlt st' ih =>
    apply ih hRd
    · simp only [st']; split <;> simp [hlen]
    · intro q hq
      have hq' : q ∈ st.matched := by
        simp only [st'] at hq; split at hq <;> exact hq
      simp only [st']; split <;> exact h q hq'
  | case5 k ks gi r rs ri st h1 h2 hc ih =>
    obtain ⟨hr, _⟩ := drop_cons_get hRd
    have hri : ri < st.read.length := by rw [hlen]; exact getElem?_lt hr
    apply ih hRd
    · simp [hlen]
    · intro q hq
      simp only [List.mem_append, List.mem_singleton] at hq
      show (st.read.set ri 1)[q.1]? = some 1
      rcases hq with hq | hq
      · by_cases e : ri = q.1
        · rw [← e]; exact List.getElem?_set_self hri
        · rw [List.getElem?_set_ne e]; exact h q hq
      · subst hq; exact List.getElem?_set_self hri
  | case6 k ks gi r rs ri st h1 h2 hc hov st' ih =>
    apply ih hRd
    · simp only [st']; split <;> simp [hlen]
    · intro q hq
      have hq' : q ∈ st.matched := by
        simp only [st'] at hq; split at hq <;> exact hq
      simp only [st']; split <;> exact h q hq'
  | case7 => exact h

theorem sweepState_matched_read (K : List Iv) (gr : Iv) (cmp absent : Iv → Iv → Bool) (R : List Iv) (M : Iv) :
    ∀ q ∈ (sweepState K gr cmp absent R M).matched, (sweepState K gr cmp absent R M).read[q.1]? = some 1 := by
  unfold sweepState
  apply ovSweep_matched_read cmp absent M R K 0 R 0 _ (by simp) (by simp)
  intro q hq; simp at hq

theorem LexSorted_SortedStarts : ∀ (K : List Iv), LexSorted K → SortedStarts K := by
  intro K
  induction K with
  | nil => intro _; exact List.Pairwise.nil
  | cons a t ih =>
    intro h
    refine List.Pairwise.cons ?_ (ih (LexSorted_tail h))
    intro b hb
    have := LexSorted_head_lt h b hb
    unfold lexLt at this; omega

/-! ### the intron half of the forward clause, at the level of the profile constructor -/

/-- read side: every read feature that has a match within δ is marked 1 -/
theorem follow_read_marked (K : List Iv) (gr : Iv) (absent : Iv → Iv → Bool) (δ : Int) (R : List Iv) (M : Iv)
    (hyp : Hyp δ K R) (j : Nat) (r t : Iv) (hr : R[j]? = some r) (ht : t ∈ K) (hc : equal_ranges r t δ = true) :
    (constructOverlapping K gr (fun a b => equal_ranges a b δ) absent δ R M (-1) (-1)).read[j]? = some 1 := by
  rw [(constructOverlapping_nopolya K gr _ absent δ R M).2]
  obtain ⟨i, hi⟩ := List.mem_iff_getElem?.mp ht
  have hm := (sweepState_complete K gr absent δ R M hyp.sorted hyp.long hyp.sep hyp.wf j i r t hr hi hc).1
  exact sweepState_matched_read K gr _ absent R M (j, i) hm

/-- gene side: the non-zero marks -/
theorem follow_gene_marks (K : List Iv) (gr : Iv) (mio : Int) (δ : Int) (R TI : List Iv) (M : Iv)
    (hδ : 0 ≤ δ) (hyp : Hyp δ K R) (hf : IntronFollow δ K TI R M)
    (i : Nat) (k : Iv) (v : Int) (hk : K[i]? = some k)
    (hv : (constructOverlapping K gr (fun a b => equal_ranges a b δ) (fun a b => overlaps_at_least a b mio) δ R M
      (-1) (-1)).gene[i]? = some v) (hv0 : v ≠ 0) :
    (v = 1 ∧ k ∈ TI) ∨ (v = -1 ∧ k ∉ TI ∧ overlaps k M = true) := by
  have hkl := hyp.long k (List.mem_of_getElem? hk)
  rcases constructOverlapping_nopolya_dom K gr _ _ δ R M i v hv with h0 | h1 | hn
  · exact absurd h0 hv0
  · -- present: a best match; the read feature's own strict best match is the only candidate
    subst h1
    left
    refine ⟨rfl, ?_⟩
    obtain ⟨⟨j, r, hr, hc, hbest⟩, _, _⟩ := (include_iff_best_partial K gr _ δ R M (-1) (-1) hyp i k hk).mp hv
    obtain ⟨t, htT, htK, hct, hstrict⟩ := hf.each r (List.mem_of_getElem? hr)
    by_cases e : k = t
    · subst e; exact htT
    · exfalso
      have h1 := hstrict k (List.mem_of_getElem? hk) e hc
      obtain ⟨it, hit⟩ := List.mem_iff_getElem?.mp htK
      have h2 := hbest it t hit hct
      omega
  · subst hn
    right
    obtain ⟨hnb, hor, _, _⟩ := (exclude_iff_partial K gr _ δ R M (-1) (-1) hδ hyp i k hk).mp hv
    refine ⟨rfl, ?_, ?_⟩
    · -- not an intron of the transcript
      intro hin
      rcases hf.none_skipped k hin with hl | hr | ⟨r, hrR, hsb⟩
      · -- k lies left of the read span
        rcases hor with ⟨j, r, _, _, hr, _, hc, _⟩ | ha | ⟨j, r, r', hr, _, hlt, _⟩
        · have hs := hf.span r (List.mem_of_getElem? hr)
          have hc' := (eqr_iff r k δ).mp hc
          omega
        · simp only [overlaps_at_least] at ha
          split at ha
          · cases ha
          · rename_i hno; simp at hno; omega
        · have hs := hf.span r (List.mem_of_getElem? hr)
          have := hyp.wf r (List.mem_of_getElem? hr)
          omega
      · rcases hor with ⟨j, r, _, _, hr', _, hc, _⟩ | ha | ⟨j, r, r', _, hr', _, hlt⟩
        · have hs := hf.span r (List.mem_of_getElem? hr')
          have hc' := (eqr_iff r k δ).mp hc
          omega
        · simp only [overlaps_at_least] at ha
          split at ha
          · cases ha
          · rename_i hno; simp at hno; omega
        · have hs := hf.span r' (List.mem_of_getElem? hr')
          have := hyp.wf r' (List.mem_of_getElem? hr')
          omega
      · obtain ⟨j, hj⟩ := List.mem_iff_getElem?.mp hrR
        exact hnb (strictBest_best δ K R j r k hj hsb)
    · -- it overlaps the read span
      rcases hor with ⟨j, r, _, _, hr, _, hc, _⟩ | ha | ⟨j, r, r', hr, hr', hlt, hlt'⟩
      · have hs := hf.span r (List.mem_of_getElem? hr)
        have hc' := (eqr_iff r k δ).mp hc
        have := hyp.wf r (List.mem_of_getElem? hr)
        simp only [overlaps, Bool.not_eq_true', Bool.or_eq_false_iff, decide_eq_false_iff_not]
        omega
      · simp only [overlaps_at_least] at ha
        split at ha
        · cases ha
        · rename_i hno
          simp at hno
          simp only [overlaps, Bool.not_eq_true', Bool.or_eq_false_iff, decide_eq_false_iff_not]
          omega
      · have hs := hf.span r (List.mem_of_getElem? hr)
        have hs' := hf.span r' (List.mem_of_getElem? hr')
        have := hyp.wf r (List.mem_of_getElem? hr)
        have := hyp.wf r' (List.mem_of_getElem? hr')
        simp only [overlaps, Bool.not_eq_true', Bool.or_eq_false_iff, decide_eq_false_iff_not]
        omega

end IsoVerif.Lemmas.C01
